import Frp.Model.Release
import Frp.Lemmas.RegSteps
import Frp.Props.C09
/-
  C10 — Everything a proxy or session held is released on every termination path.

  Model: Frp/Model/Release.lean (exclusive-key tables: http / https / tcpmux routes, visitor and
  NAT-hole listener entries, proxy names) and Frp/Model/Ports.lean (ports, via the C09 theorems).
  Termination paths covered by theorems: explicit close, end of session, registration failing
  part-way (conflict at the i-th claim), for every table content and every history.
-/
namespace Frp
namespace C10
open Release

/-- invariant of reachable states: one holder per key, every holder is a live proxy, one session per name -/
structure Inv (s : RState) : Prop where
  keysNodup  : (s.held.map (·.1)).Nodup
  holderLive : ∀ e ∈ s.held, s.isLive e.2 = true
  namesNodup : (s.owner.map (·.1)).Nodup

theorem inv_init : Inv RState.init := ⟨by simp [RState.init], by simp [RState.init], by simp [RState.init]⟩

/-! ### `claim` -/

theorem lookup_isSome_of_mem {l : List (Key × Str)} {k : Key} {n : Str} (h : (k, n) ∈ l) :
    (l.lookup k).isSome = true := by
  induction l with
  | nil => simp at h
  | cons e es ih =>
    obtain ⟨a, b⟩ := e
    rw [List.lookup_cons]
    by_cases hk : k = a
    · subst hk; simp
    · have : (k == a) = false := by simpa using hk
      simp only [this]
      rcases List.mem_cons.mp h with h | h
      · injection h with h1; exact absurd h1 hk
      · exact ih h

theorem lookup_none_not_mem {l : List (Key × Str)} {k : Key} (h : (l.lookup k).isSome = false) :
    k ∉ l.map (·.1) := by
  intro hm
  obtain ⟨e, he, hk⟩ := List.mem_map.mp hm
  have : (l.lookup k).isSome = true := lookup_isSome_of_mem (n := e.2) (by rw [← hk]; exact he)
  rw [h] at this; cases this

/-- `claim` only prepends entries owned by `name`, on keys that were free, keeping keys distinct -/
theorem claim_shape (held : List (Key × Str)) (name : Str) (ks : List Key)
    (hn : (held.map (·.1)).Nodup) :
    ∃ new, (claim held name ks).1 = new ++ held ∧ (∀ e ∈ new, e.2 = name) ∧
      (((claim held name ks).1).map (·.1)).Nodup := by
  induction ks generalizing held with
  | nil => exact ⟨[], rfl, by simp, hn⟩
  | cons k ks ih =>
    unfold claim
    split
    · exact ⟨[], rfl, by simp, hn⟩
    · rename_i hk
      have hk' : (held.lookup k).isSome = false := Bool.eq_false_iff.mpr hk
      have hn' : (((k, name) :: held).map (·.1)).Nodup := by
        simp only [List.map_cons, List.nodup_cons]
        exact ⟨lookup_none_not_mem hk', hn⟩
      obtain ⟨new, h1, h2, h3⟩ := ih ((k, name) :: held) hn'
      refine ⟨new ++ [(k, name)], ?_, ?_, h3⟩
      · rw [h1]; simp
      · intro e he
        rcases List.mem_append.mp he with he | he
        · exact h2 e he
        · simp at he; rw [he]

theorem releaseAll_append (a b : List (Key × Str)) (name : Str) :
    releaseAll (a ++ b) name = releaseAll a name ++ releaseAll b name := by
  simp [releaseAll]

theorem releaseAll_all_owned {a : List (Key × Str)} {name : Str} (h : ∀ e ∈ a, e.2 = name) :
    releaseAll a name = [] := by
  unfold releaseAll
  apply List.filter_eq_nil_iff.mpr
  intro e he
  simp [h e he]

theorem releaseAll_none_owned {a : List (Key × Str)} {name : Str} (h : ∀ e ∈ a, e.2 ≠ name) :
    releaseAll a name = a := by
  unfold releaseAll
  apply List.filter_eq_self.mpr
  intro e he
  simpa using h e he

theorem not_live_not_holder {s : RState} (h : Inv s) {name : Str} (hl : s.isLive name = false) :
    ∀ e ∈ s.held, e.2 ≠ name := by
  intro e he hn
  have := h.holderLive e he
  rw [hn, hl] at this; cases this

/-! ## Theorems -/

/-- **a registration that fails part-way leaves nothing behind**: whichever claim conflicts (second
    domain taken, route duplicated, …), the state afterwards is exactly the state before -/
theorem register_conflict_restores {s : RState} (h : Inv s) (sid : Nat) (name : Str) (keys : List Key)
    (k : Key) (hr : (s.register sid name keys).2 = .conflict k) :
    (s.register sid name keys).1 = s := by
  unfold RState.register at hr ⊢
  split
  · rename_i hl; simp [hl] at hr
  · rename_i hl
    have hl' : s.isLive name = false := by simpa using hl
    obtain ⟨new, h1, h2, _⟩ := claim_shape s.held name keys h.keysNodup
    split
    · rename_i k' hc
      simp only
      have : releaseAll (claim s.held name keys).1 name = s.held := by
        rw [h1, releaseAll_append, releaseAll_all_owned h2,
          releaseAll_none_owned (not_live_not_holder h hl')]
        rfl
      rw [this]
    · rename_i held' hc
      rw [hc] at hr
      simp [hl] at hr

/-- a registration under a live name is refused and changes nothing -/
theorem register_exists_unchanged (s : RState) (sid : Nat) (name : Str) (keys : List Key)
    (hl : s.isLive name = true) : s.register sid name keys = (s, .exists_) := by
  simp [RState.register, hl]

/-- shape of a successful registration -/
theorem register_ok_shape {s : RState} (h : Inv s) (sid : Nat) (name : Str) (keys : List Key)
    (hr : (s.register sid name keys).2 = .ok) :
    s.isLive name = false ∧
    ∃ new, (s.register sid name keys).1 = { held := new ++ s.held, owner := (name, sid) :: s.owner } ∧
      (∀ e ∈ new, e.2 = name) ∧ ((new ++ s.held).map (·.1)).Nodup := by
  unfold RState.register at hr ⊢
  split
  · rename_i hl; simp [hl] at hr
  · rename_i hl
    have hl' : s.isLive name = false := by simpa using hl
    refine ⟨hl', ?_⟩
    obtain ⟨new, h1, h2, h3⟩ := claim_shape s.held name keys h.keysNodup
    split
    · rename_i k' hc
      rw [hc] at hr; simp [hl] at hr
    · rename_i held' hc
      have : held' = (claim s.held name keys).1 := by rw [hc]
      refine ⟨new, ?_, h2, ?_⟩
      · rw [this, h1]
      · rw [← h1]; exact h3

theorem register_exists_state (s : RState) (sid : Nat) (name : Str) (keys : List Key)
    (hr : (s.register sid name keys).2 = .exists_) : (s.register sid name keys).1 = s := by
  unfold RState.register at hr ⊢
  split
  · rfl
  · split at hr
    · rename_i hl; exact absurd hl (by assumption)
    · split at hr <;> cases hr

theorem isLive_cons (s : RState) (name : Str) (sid : Nat) (n : Str) :
    RState.isLive { s with owner := (name, sid) :: s.owner } n = (decide (name = n) || s.isLive n) := by
  simp [RState.isLive]

theorem inv_register {s : RState} (h : Inv s) (sid : Nat) (name : Str) (keys : List Key) :
    Inv (s.register sid name keys).1 := by
  cases hr : (s.register sid name keys).2 with
  | exists_ => rw [register_exists_state s sid name keys hr]; exact h
  | conflict k => rw [register_conflict_restores h sid name keys k hr]; exact h
  | ok =>
    obtain ⟨hl, new, h1, h2, h3⟩ := register_ok_shape h sid name keys hr
    rw [h1]
    refine ⟨h3, ?_, ?_⟩
    · intro e he
      simp only [RState.isLive, List.any_cons, Bool.or_eq_true, decide_eq_true_eq]
      rcases List.mem_append.mp he with he | he
      · left; exact (h2 e he).symm
      · right
        have := h.holderLive e he
        simpa [RState.isLive] using this
    · simp only [List.map_cons, List.nodup_cons]
      refine ⟨?_, h.namesNodup⟩
      intro hm
      obtain ⟨e, he, hn⟩ := List.mem_map.mp hm
      have : s.isLive name = true := by
        simp only [RState.isLive, List.any_eq_true, decide_eq_true_eq]
        exact ⟨e, he, hn⟩
      rw [hl] at this; cases this

/-- **explicit close releases everything the proxy held and nothing else** -/
theorem close_spec (s : RState) (sid : Nat) (name : Str)
    (ho : s.owner.any (fun e => e.1 = name ∧ e.2 = sid) = true) :
    (s.close sid name).held = s.held.filter (fun e => e.2 ≠ name) ∧
    (s.close sid name).owner = s.owner.filter (fun e => e.1 ≠ name) := by
  unfold RState.close
  rw [if_pos ho]
  exact ⟨rfl, rfl⟩

/-- after the close no key is held by that proxy; every other holder keeps exactly its keys -/
theorem close_releases (s : RState) (sid : Nat) (name : Str)
    (ho : s.owner.any (fun e => e.1 = name ∧ e.2 = sid) = true) (k : Key) (n : Str) :
    (k, n) ∈ (s.close sid name).held ↔ (k, n) ∈ s.held ∧ n ≠ name := by
  rw [(close_spec s sid name ho).1]
  simp [List.mem_filter]

/-- **a close request affects only proxies of the session that sent it** -/
theorem close_foreign_noop (s : RState) (sid : Nat) (name : Str)
    (ho : s.owner.any (fun e => e.1 = name ∧ e.2 = sid) = false) : s.close sid name = s := by
  unfold RState.close
  rw [if_neg (by rw [ho]; simp)]

theorem inv_close {s : RState} (h : Inv s) (sid : Nat) (name : Str) : Inv (s.close sid name) := by
  by_cases ho : s.owner.any (fun e => e.1 = name ∧ e.2 = sid) = true
  · obtain ⟨h1, h2⟩ := close_spec s sid name ho
    refine ⟨?_, ?_, ?_⟩
    · rw [h1]
      exact (List.Nodup.sublist (List.Sublist.map _ List.filter_sublist) h.keysNodup)
    · intro e he
      rw [h1] at he
      have hm := List.mem_filter.mp he
      have hne : e.2 ≠ name := by simpa using hm.2
      have := h.holderLive e hm.1
      simp only [RState.isLive, List.any_eq_true, decide_eq_true_eq] at this ⊢
      obtain ⟨o, ho1, ho2⟩ := this
      rw [h2]
      have hon : o.1 ≠ name := by rw [ho2]; exact hne
      exact ⟨o, List.mem_filter.mpr ⟨ho1, by simpa using hon⟩, ho2⟩
    · rw [h2]
      exact (List.Nodup.sublist (List.Sublist.map _ List.filter_sublist) h.namesNodup)
  · have : s.owner.any (fun e => e.1 = name ∧ e.2 = sid) = false := Bool.eq_false_iff.mpr ho
    rw [close_foreign_noop s sid name this]; exact h

/-- **register then close is the identity**: tables return to exactly their previous content (no
    growth), hence the identical registration submitted afterwards — on the same or on any other
    session — succeeds again -/
theorem register_close_roundtrip {s : RState} (h : Inv s) (sid : Nat) (name : Str) (keys : List Key)
    (hr : (s.register sid name keys).2 = .ok) :
    (s.register sid name keys).1.close sid name = s := by
  obtain ⟨hl, new, h1, h2, _⟩ := register_ok_shape h sid name keys hr
  rw [h1]
  have hany : (({ held := new ++ s.held, owner := (name, sid) :: s.owner } : RState).owner.any
      (fun e => e.1 = name ∧ e.2 = sid)) = true := by simp
  have hown : s.owner.filter (fun e => e.1 ≠ name) = s.owner := by
    apply List.filter_eq_self.mpr
    intro e he
    have : ¬ e.1 = name := by
      intro hn
      have : s.isLive name = true := by
        simp only [RState.isLive, List.any_eq_true, decide_eq_true_eq]; exact ⟨e, he, hn⟩
      rw [hl] at this; cases this
    simpa using this
  obtain ⟨c1, c2⟩ := close_spec { held := new ++ s.held, owner := (name, sid) :: s.owner } sid name hany
  have hheld : (new ++ s.held).filter (fun e => e.2 ≠ name) = s.held := by
    have := releaseAll_append new s.held name
    unfold releaseAll at this
    rw [this]
    have a := releaseAll_all_owned h2
    have b := releaseAll_none_owned (not_live_not_holder h hl)
    unfold releaseAll at a b
    rw [a, b]; rfl
  cases hs : ({ held := new ++ s.held, owner := (name, sid) :: s.owner } : RState).close sid name with
  | mk held' owner' =>
    rw [hs] at c1 c2
    simp only at c1 c2
    rw [c1, c2, hheld]
    simp only [List.filter_cons, ne_eq, not_true_eq_false, decide_false, Bool.false_eq_true, ↓reduceIte]
    rw [hown]

theorem reregister_after_close {s : RState} (h : Inv s) (sid sid' : Nat) (name : Str) (keys : List Key)
    (hr : (s.register sid name keys).2 = .ok) :
    (((s.register sid name keys).1.close sid name).register sid' name keys).2 = .ok := by
  rw [register_close_roundtrip h sid name keys hr]
  -- the outcome of `register` does not depend on the session number
  unfold RState.register at hr ⊢
  split
  · rename_i hl; simp [hl] at hr
  · rename_i hl
    split
    · rename_i k hc
      rw [hc] at hr; simp [hl] at hr
    · rfl

/-- the same after a failed registration: an identical retry behaves exactly like the first try
    (so once the conflicting owner has gone it succeeds) -/
theorem retry_after_failure {s : RState} (h : Inv s) (sid : Nat) (name : Str) (keys : List Key) (k : Key)
    (hr : (s.register sid name keys).2 = .conflict k) :
    (s.register sid name keys).1.register sid name keys = s.register sid name keys := by
  rw [register_conflict_restores h sid name keys k hr]

/-! ### session end -/

/-- closing a list of names owned by `sid`, one after the other -/
theorem closeAll_spec (sid : Nat) (names : List Str) :
    ∀ s : RState, Inv s → names.Nodup → (∀ n ∈ names, (n, sid) ∈ s.owner) →
      (names.foldl (fun st n => st.close sid n) s).held = s.held.filter (fun e => e.2 ∉ names) ∧
      (names.foldl (fun st n => st.close sid n) s).owner = s.owner.filter (fun e => e.1 ∉ names) ∧
      Inv (names.foldl (fun st n => st.close sid n) s) := by
  induction names with
  | nil =>
    intro s h _ _
    refine ⟨?_, ?_, h⟩
    · simp only [List.foldl_nil, List.not_mem_nil, not_false_eq_true, decide_true]; exact (List.filter_eq_self.mpr (fun _ _ => rfl)).symm
    · simp only [List.foldl_nil, List.not_mem_nil, not_false_eq_true, decide_true]; exact (List.filter_eq_self.mpr (fun _ _ => rfl)).symm
  | cons n ns ih =>
    intro s h hnd hown
    have hnd' := List.nodup_cons.mp hnd
    have hn : s.owner.any (fun e => e.1 = n ∧ e.2 = sid) = true := by
      simp only [List.any_eq_true, decide_eq_true_eq]
      exact ⟨(n, sid), hown n List.mem_cons_self, rfl, rfl⟩
    obtain ⟨c1, c2⟩ := close_spec s sid n hn
    have hinv := inv_close h sid n
    have hown' : ∀ m ∈ ns, (m, sid) ∈ (s.close sid n).owner := by
      intro m hm
      rw [c2]
      apply List.mem_filter.mpr
      refine ⟨hown m (List.mem_cons_of_mem _ hm), ?_⟩
      have : m ≠ n := fun e => hnd'.1 (e ▸ hm)
      simpa using this
    obtain ⟨i1, i2, i3⟩ := ih (s.close sid n) hinv hnd'.2 hown'
    simp only [List.foldl_cons]
    refine ⟨?_, ?_, i3⟩
    · rw [i1, c1, List.filter_filter]
      apply List.filter_congr
      intro e _
      simp only [List.mem_cons, not_or, ne_eq, decide_not, Bool.and_eq_true, Bool.not_eq_eq_eq_not,
        Bool.not_true, decide_eq_false_iff_not, decide_eq_true_eq]
      by_cases e1 : e.2 = n <;> by_cases e2 : e.2 ∈ ns <;> simp [e1, e2]
    · rw [i2, c2, List.filter_filter]
      apply List.filter_congr
      intro e _
      simp only [List.mem_cons, not_or, ne_eq, decide_not, Bool.and_eq_true, Bool.not_eq_eq_eq_not,
        Bool.not_true, decide_eq_false_iff_not, decide_eq_true_eq]
      by_cases e1 : e.1 = n <;> by_cases e2 : e.1 ∈ ns <;> simp [e1, e2]

theorem owner_unique {l : List (Str × Nat)} (hnd : (l.map (·.1)).Nodup) {a : Str} {b c : Nat}
    (h1 : (a, b) ∈ l) (h2 : (a, c) ∈ l) : b = c := by
  induction l with
  | nil => simp at h1
  | cons o os ih =>
    simp only [List.map_cons, List.nodup_cons] at hnd
    rcases List.mem_cons.mp h1 with e1 | e1 <;> rcases List.mem_cons.mp h2 with e2 | e2
    · rw [← e1] at e2; injection e2 with _ e3; exact e3.symm
    · exfalso; apply hnd.1; rw [← e1]; exact List.mem_map.mpr ⟨(a, c), e2, rfl⟩
    · exfalso; apply hnd.1; rw [← e2]; exact List.mem_map.mpr ⟨(a, b), e1, rfl⟩
    · exact ih hnd.2 e1 e2

theorem namesOf_nodup {s : RState} (h : Inv s) (sid : Nat) : (s.namesOf sid).Nodup := by
  unfold RState.namesOf
  exact List.Nodup.sublist (List.Sublist.map _ List.filter_sublist) h.namesNodup

theorem mem_namesOf {s : RState} (sid : Nat) (n : Str) : n ∈ s.namesOf sid ↔ (n, sid) ∈ s.owner := by
  unfold RState.namesOf
  simp only [List.mem_map, List.mem_filter, decide_eq_true_eq]
  constructor
  · rintro ⟨e, ⟨he, hs⟩, hn⟩
    obtain ⟨a, b⟩ := e
    simp only at hs hn
    subst hs; subst hn; exact he
  · intro hm; exact ⟨(n, sid), ⟨hm, rfl⟩, rfl⟩

/-- **end of a session** (disconnect, replacement, heartbeat timeout — all run `Control.worker`):
    every key held by a proxy of that session is released, the session owns no name any more, and
    every other session's proxies keep exactly their keys -/
theorem sessionEnd_spec {s : RState} (h : Inv s) (sid : Nat) :
    (s.sessionEnd sid).held = s.held.filter (fun e => (e.2, sid) ∉ s.owner) ∧
    (s.sessionEnd sid).owner = s.owner.filter (fun e => e.2 ≠ sid) ∧
    Inv (s.sessionEnd sid) := by
  unfold RState.sessionEnd
  obtain ⟨i1, i2, i3⟩ := closeAll_spec sid (s.namesOf sid) s h (namesOf_nodup h sid)
    (fun n hn => (mem_namesOf sid n).mp hn)
  refine ⟨?_, ?_, i3⟩
  · rw [i1]
    apply List.filter_congr
    intro e _
    simp [mem_namesOf]
  · rw [i2]
    apply List.filter_congr
    intro e he
    obtain ⟨a, b⟩ := e
    have hiff : a ∈ s.namesOf sid ↔ b = sid := by
      rw [mem_namesOf]
      constructor
      · intro hm; exact owner_unique h.namesNodup he hm
      · intro hb; subst hb; exact he
    by_cases hb : b = sid
    · have := hiff.mpr hb
      simp [this, hb]
    · have : ¬ a ∈ s.namesOf sid := fun hm => hb (hiff.mp hm)
      simp [this, hb]

/-- after the session ended none of its former names is live: the identical registrations can be
    submitted on a new session -/
theorem sessionEnd_frees_names {s : RState} (h : Inv s) (sid : Nat) (n : Str) (hn : (n, sid) ∈ s.owner) :
    (s.sessionEnd sid).isLive n = false := by
  obtain ⟨_, h2, _⟩ := sessionEnd_spec h sid
  unfold RState.isLive
  rw [h2]
  apply Bool.eq_false_iff.mpr
  intro hany
  simp only [List.any_eq_true, List.mem_filter, decide_eq_true_eq] at hany
  obtain ⟨e, ⟨he, hs⟩, hen⟩ := hany
  obtain ⟨a, b⟩ := e
  simp only at hen hs
  subst hen
  have hb : b ≠ sid := by simpa using hs
  exact hb (owner_unique h.namesNodup he hn)

/-! ### every reachable state -/

inductive Op
  | register (sid : Nat) (name : Str) (keys : List Key)
  | close (sid : Nat) (name : Str)
  | sessionEnd (sid : Nat)

def apply (s : RState) : Op → RState
  | .register sid name keys => (s.register sid name keys).1
  | .close sid name => s.close sid name
  | .sessionEnd sid => s.sessionEnd sid

theorem inv_reachable (ops : List Op) : Inv (ops.foldl apply RState.init) := by
  suffices hh : ∀ s, Inv s → Inv (ops.foldl apply s) from hh _ inv_init
  induction ops with
  | nil => intro s h; exact h
  | cons op ops ih =>
    intro s h
    apply ih
    cases op with
    | register sid name keys => exact inv_register h sid name keys
    | close sid name => exact inv_close h sid name
    | sessionEnd sid => exact (sessionEnd_spec h sid).2.2

/-! ### ports (from C09): closing frees the port at once; a failed registration keeps all accounting -/

/-- re-exported from C09 -/
def port_released_on_close := @C09.close_frees_port
/-- re-exported from C09 -/
def port_kept_on_failure := @C09.register_err_unchanged

/-! non-vacuity -/
def s (x : String) : Str := Str.ofString x
def kA : Key := ⟨.http, s "a.example.com|/|"⟩
def kB : Key := ⟨.http, s "b.example.com|/|"⟩

/-- second domain conflicts: the first one is given back -/
example : let s1 := (RState.init.register 1 (s "p") [kB]).1
          (s1.register 2 (s "q") [kA, kB]).2 = .conflict kB ∧ (s1.register 2 (s "q") [kA, kB]).1.held = s1.held := by
  decide +kernel
example : ((RState.init.register 1 (s "p") [kA, kB]).1.sessionEnd 1).held = [] := by decide +kernel


/-! ## Concurrent registrations (Frp/Model/RegSteps.lean)

  The theorems above treat `RegisterProxy` as one indivisible step.  Here the registrations of several
  sessions are interleaved section by section (quota+Exist | Run | Add), so that every failure step of
  the property's quantifier is reachable — in particular "name taken concurrently" (`Res.inuse`) — and
  the session's quota counter is part of the state.  All statements are for every schedule: the
  invariant is proved by induction over arbitrary op lists of all sessions. -/
namespace Conc
open RegSteps

/-- structural invariant: one holder per key, every holder is an owned proxy or a registration that is
    past `Run`; the name table and the sessions' own tables describe the same proxies; at most one
    registration in flight per session, never for a proxy the session already owns -/
structure SInv (s : CState) : Prop where
  keysNodup    : (s.held.map (·.1)).Nodup
  holderKnown  : ∀ e ∈ s.held, (∃ o ∈ s.own, o.sid = e.2.sid ∧ o.name = e.2.name) ∨
                   (∃ f ∈ s.flights, f.sid = e.2.sid ∧ f.name = e.2.name ∧ f.pc = .ran)
  namesNodup   : (s.names.map (·.1)).Nodup
  namesOwned   : ∀ e ∈ s.names, ∃ o ∈ s.own, o.sid = e.2 ∧ o.name = e.1
  ownNamed     : ∀ o ∈ s.own, (o.name, o.sid) ∈ s.names
  ownNodup     : (s.own.map (·.name)).Nodup
  flightsNodup : (s.flights.map (·.sid)).Nodup
  flightFresh  : ∀ f ∈ s.flights, ∀ o ∈ s.own, ¬ (o.sid = f.sid ∧ o.name = f.name)

/-- **quota accounting**: every session's counter is exactly what it is charged for — the ports of the
    proxies it owns plus the charge of its registration in flight (nothing when unlimited) -/
def Accounted (s : CState) : Prop :=
  ∀ x, s.quotaOf x = s.amt (ownSum s.own x + flightSum s.flights x)

structure Inv (s : CState) : Prop where
  struct : SInv s
  quota  : Accounted s

theorem sinv_congr {s t : CState} (h1 : t.held = s.held) (h2 : t.names = s.names) (h3 : t.own = s.own)
    (h4 : t.flights = s.flights) (h : SInv s) : SInv t := by
  obtain ⟨k, hk, n, no, on, ond, fn, ff⟩ := h
  exact ⟨by rw [h1]; exact k, by rw [h1, h3, h4]; exact hk, by rw [h2]; exact n, by rw [h2, h3]; exact no,
    by rw [h2, h3]; exact on, by rw [h3]; exact ond, by rw [h4]; exact fn, by rw [h3, h4]; exact ff⟩

theorem inv_init (m : Nat) : Inv (CState.init m) := by
  refine ⟨⟨?_, ?_, ?_, ?_, ?_, ?_, ?_, ?_⟩, ?_⟩ <;> simp [CState.init, Accounted, CState.quotaOf, CState.amt, ownSum, flightSum]

theorem map_injOn_of_nodup {α β : Type} (φ : α → β) (l : List α) (h : (l.map φ).Nodup) {a b : α}
    (ha : a ∈ l) (hb : b ∈ l) (e : φ a = φ b) : a = b := by
  induction l with
  | nil => simp at ha
  | cons x xs ih =>
    simp only [List.map_cons, List.nodup_cons] at h
    rcases List.mem_cons.mp ha with ea | ea <;> rcases List.mem_cons.mp hb with eb | eb
    · rw [ea, eb]
    · exfalso; apply h.1; rw [← ea, e]; exact List.mem_map.mpr ⟨b, eb, rfl⟩
    · exfalso; apply h.1; rw [← eb, ← e]; exact List.mem_map.mpr ⟨a, ea, rfl⟩
    · exact ih h.2 ea eb

theorem find_flight {s : CState} {sid : Nat} {f : Flight}
    (h : s.flights.find? (fun f => f.sid = sid) = some f) : f ∈ s.flights ∧ f.sid = sid :=
  ⟨List.mem_of_find?_eq_some h, by simpa using List.find?_some h⟩

theorem nameTaken_iff (s : CState) (name : Str) : s.nameTaken name = true ↔ name ∈ s.names.map (·.1) := by
  unfold CState.nameTaken
  simp only [List.any_eq_true, decide_eq_true_eq, List.mem_map]

theorem mem_rest {l : List Flight} {sid : Nat} {g : Flight} :
    g ∈ l.filter (fun g => g.sid ≠ sid) ↔ g ∈ l ∧ g.sid ≠ sid := by
  simp [List.mem_filter]

theorem rest_nodup {l : List Flight} (h : (l.map (·.sid)).Nodup) (sid : Nat) :
    ((l.filter (fun g => g.sid ≠ sid)).map (·.sid)).Nodup :=
  List.Nodup.sublist (List.Sublist.map _ List.filter_sublist) h

theorem sid_not_in_rest (l : List Flight) (sid : Nat) : sid ∉ (l.filter (fun g => g.sid ≠ sid)).map (·.sid) := by
  intro h
  obtain ⟨g, hg, e⟩ := List.mem_map.mp h
  exact (mem_rest.mp hg).2 e


theorem flight_eq {s : CState} (h : SInv s) {f g : Flight} (hf : f ∈ s.flights) (hg : g ∈ s.flights)
    (e : g.sid = f.sid) : g = f :=
  map_injOn_of_nodup (·.sid) s.flights h.flightsNodup hg hf e

theorem not_busy_iff (s : CState) (sid : Nat) : s.busy sid = false ↔ sid ∉ s.flights.map (·.sid) := by
  unfold CState.busy
  constructor
  · intro h hm
    obtain ⟨g, hg, e⟩ := List.mem_map.mp hm
    have : s.flights.any (fun f => f.sid = sid) = true := by
      simp only [List.any_eq_true, decide_eq_true_eq]; exact ⟨g, hg, e⟩
    rw [h] at this; cases this
  · intro h
    apply Bool.eq_false_iff.mpr
    intro ha
    simp only [List.any_eq_true, decide_eq_true_eq] at ha
    obtain ⟨g, hg, e⟩ := ha
    exact h (List.mem_map.mpr ⟨g, hg, e⟩)

theorem nameTaken_charge (s : CState) (a b : Nat) (name : Str) :
    (s.charge a b).nameTaken name = s.nameTaken name := by
  unfold CState.nameTaken; rw [charge_names]

/-! ### the cases of `begin` and `step` -/

theorem begin_cases (s : CState) (sid : Nat) (name : Str) (keys : List Key) (n : Nat) :
    (s.busy sid = true ∧ s.begin sid name keys n = (s, .busy)) ∨
    (s.busy sid = false ∧ (s.maxPorts > 0 ∧ s.quotaOf sid + n > s.maxPorts) ∧
      s.begin sid name keys n = (s, .quota)) ∨
    (s.busy sid = false ∧ ¬ (s.maxPorts > 0 ∧ s.quotaOf sid + n > s.maxPorts) ∧ s.nameTaken name = true ∧
      s.begin sid name keys n = ((s.charge sid n).refund sid n, .exists_)) ∨
    (s.busy sid = false ∧ ¬ (s.maxPorts > 0 ∧ s.quotaOf sid + n > s.maxPorts) ∧ s.nameTaken name = false ∧
      s.begin sid name keys n =
        ({ s.charge sid n with
            flights := { sid := sid, name := name, keys := keys, n := n, pc := .checked } :: (s.charge sid n).flights },
         .parked .checked)) := by
  unfold CState.begin
  by_cases hb : s.busy sid = true
  · left; exact ⟨hb, by rw [if_pos hb]⟩
  · have hb' : s.busy sid = false := Bool.eq_false_iff.mpr hb
    right
    rw [if_neg hb]
    by_cases hq : s.maxPorts > 0 ∧ s.quotaOf sid + n > s.maxPorts
    · left; exact ⟨hb', hq, by rw [if_pos hq]⟩
    · right
      rw [if_neg hq]
      simp only [nameTaken_charge]
      by_cases ht : s.nameTaken name = true
      · left; exact ⟨hb', hq, ht, by rw [if_pos ht]⟩
      · right; exact ⟨hb', hq, Bool.eq_false_iff.mpr ht, by rw [if_neg ht]⟩

theorem step_cases (s : CState) (sid : Nat) :
    (s.flights.find? (fun f => f.sid = sid) = none ∧ s.step sid = (s, .noflight)) ∨
    (∃ f held' k, s.flights.find? (fun f => f.sid = sid) = some f ∧ f.pc = .checked ∧
      claim s.held ⟨sid, f.name⟩ f.keys = (held', some k) ∧
      s.step sid = ((({ s with held := releaseAll held' ⟨sid, f.name⟩ } : CState).dropFlight sid).refund sid f.n,
        .conflict k)) ∨
    (∃ f held', s.flights.find? (fun f => f.sid = sid) = some f ∧ f.pc = .checked ∧
      claim s.held ⟨sid, f.name⟩ f.keys = (held', none) ∧
      s.step sid = ({ s with held := held',
                             flights := { f with pc := .ran } :: s.flights.filter (fun g => g.sid ≠ sid) },
        .parked .ran)) ∨
    (∃ f, s.flights.find? (fun f => f.sid = sid) = some f ∧ f.pc = .ran ∧ s.nameTaken f.name = true ∧
      s.step sid = ((({ s with held := releaseAll s.held ⟨sid, f.name⟩ } : CState).dropFlight sid).refund sid f.n,
        .inuse)) ∨
    (∃ f, s.flights.find? (fun f => f.sid = sid) = some f ∧ f.pc = .ran ∧ s.nameTaken f.name = false ∧
      s.step sid = (({ s with names := (f.name, sid) :: s.names,
                              own := { sid := sid, name := f.name, n := f.n } :: s.own } : CState).dropFlight sid,
        .ok)) := by
  unfold CState.step
  cases hf : s.flights.find? (fun f => f.sid = sid) with
  | none => left; exact ⟨rfl, rfl⟩
  | some f =>
    right
    cases hpc : f.pc with
    | checked =>
      cases hc : claim s.held ⟨sid, f.name⟩ f.keys with
      | mk held' r =>
        cases r with
        | some k => left; exact ⟨f, held', k, rfl, hpc, hc, by simp only [hpc, hc]⟩
        | none => right; left; exact ⟨f, held', rfl, hpc, hc, by simp only [hpc, hc]⟩
    | ran =>
      right; right
      by_cases ht : s.nameTaken f.name = true
      · left; exact ⟨f, rfl, hpc, ht, by simp only [hpc, ht, if_true]⟩
      · have ht' : s.nameTaken f.name = false := Bool.eq_false_iff.mpr ht
        right; exact ⟨f, rfl, hpc, ht', by simp [hpc, ht']⟩


/-! ### the structural invariant, step by step -/

theorem sinv_add_flight {s t : CState} (h : SInv s) (nf : Flight)
    (h1 : t.held = s.held) (h2 : t.names = s.names) (h3 : t.own = s.own) (h4 : t.flights = nf :: s.flights)
    (hb : s.busy nf.sid = false) (hn : s.nameTaken nf.name = false) : SInv t := by
  refine ⟨by rw [h1]; exact h.keysNodup, ?_, by rw [h2]; exact h.namesNodup, by rw [h2, h3]; exact h.namesOwned,
    by rw [h2, h3]; exact h.ownNamed, by rw [h3]; exact h.ownNodup, ?_, ?_⟩
  · intro e he
    rw [h1] at he; rw [h3, h4]
    rcases h.holderKnown e he with ho | ⟨f, hf, hh⟩
    · left; exact ho
    · right; exact ⟨f, List.mem_cons_of_mem _ hf, hh⟩
  · rw [h4]
    simp only [List.map_cons, List.nodup_cons]
    exact ⟨(not_busy_iff s nf.sid).mp hb, h.flightsNodup⟩
  · rw [h3, h4]
    intro f hf o ho hh
    rcases List.mem_cons.mp hf with e | e
    · subst e
      have := h.ownNamed o ho
      have ht : s.nameTaken f.name = true := by
        rw [nameTaken_iff]; exact List.mem_map.mpr ⟨(o.name, o.sid), this, hh.2⟩
      rw [hn] at ht; cases ht
    · exact h.flightFresh f e o ho hh

theorem known_rest {s : CState} (h : SInv s) {f : Flight} (hf : f ∈ s.flights) {e : Key × Inst}
    (hk : ∃ g ∈ s.flights, g.sid = e.2.sid ∧ g.name = e.2.name ∧ g.pc = .ran) :
    (f.sid = e.2.sid ∧ f.name = e.2.name ∧ f.pc = .ran) ∨
    (∃ g ∈ s.flights.filter (fun g => g.sid ≠ f.sid), g.sid = e.2.sid ∧ g.name = e.2.name ∧ g.pc = .ran) := by
  obtain ⟨g, hg, hh⟩ := hk
  by_cases e1 : g.sid = f.sid
  · have := flight_eq h hf hg e1
    subst this; left; exact hh
  · right; exact ⟨g, mem_rest.mpr ⟨hg, e1⟩, hh⟩

theorem sinv_run_ok {s t : CState} (h : SInv s) {f : Flight} (hf : f ∈ s.flights) (hpc : f.pc = .checked)
    {held' : List (Key × Inst)} (hc : claim s.held ⟨f.sid, f.name⟩ f.keys = (held', none))
    (h1 : t.held = held') (h2 : t.names = s.names) (h3 : t.own = s.own)
    (h4 : t.flights = { f with pc := .ran } :: s.flights.filter (fun g => g.sid ≠ f.sid)) : SInv t := by
  obtain ⟨new, c1, c2, c3⟩ := RegSteps.claim_shape s.held ⟨f.sid, f.name⟩ f.keys h.keysNodup
  rw [hc] at c1 c3
  simp only at c1 c3
  refine ⟨by rw [h1]; exact c3, ?_, by rw [h2]; exact h.namesNodup, by rw [h2, h3]; exact h.namesOwned,
    by rw [h2, h3]; exact h.ownNamed, by rw [h3]; exact h.ownNodup, ?_, ?_⟩
  · intro e he
    rw [h1, c1] at he; rw [h3, h4]
    rcases List.mem_append.mp he with he | he
    · right
      refine ⟨{ f with pc := .ran }, List.mem_cons_self, ?_, ?_, rfl⟩
      · rw [c2 e he]
      · rw [c2 e he]
    · rcases h.holderKnown e he with ho | hk
      · left; exact ho
      · rcases known_rest h hf hk with ⟨_, _, hp⟩ | ⟨g, hg, hh⟩
        · rw [hpc] at hp; cases hp
        · right; exact ⟨g, List.mem_cons_of_mem _ hg, hh⟩
  · rw [h4]
    simp only [List.map_cons, List.nodup_cons]
    exact ⟨sid_not_in_rest s.flights f.sid, rest_nodup h.flightsNodup f.sid⟩
  · rw [h3, h4]
    intro g hg o ho hh
    rcases List.mem_cons.mp hg with e | e
    · subst e; exact h.flightFresh f hf o ho hh
    · exact h.flightFresh g (mem_rest.mp e).1 o ho hh

/-- a registration that has not passed `Run` holds nothing -/
theorem checked_holds_nothing {s : CState} (h : SInv s) {f : Flight} (hf : f ∈ s.flights)
    (hpc : f.pc = .checked) : ∀ e ∈ s.held, e.2 ≠ ⟨f.sid, f.name⟩ := by
  intro e he hh
  rcases h.holderKnown e he with ⟨o, ho, h1, h2⟩ | ⟨g, hg, h1, _, h3⟩
  · rw [hh] at h1 h2; exact h.flightFresh f hf o ho ⟨h1, h2⟩
  · rw [hh] at h1
    have := flight_eq h hf hg h1
    subst this; rw [hpc] at h3; cases h3

/-- a failed registration: the flight is gone and the held table lost (at most) entries of that object -/
theorem sinv_fail {s t : CState} (h : SInv s) {f : Flight} (hf : f ∈ s.flights)
    (h1 : t.held = releaseAll s.held ⟨f.sid, f.name⟩) (h2 : t.names = s.names) (h3 : t.own = s.own)
    (h4 : t.flights = s.flights.filter (fun g => g.sid ≠ f.sid)) : SInv t := by
  refine ⟨?_, ?_, by rw [h2]; exact h.namesNodup, by rw [h2, h3]; exact h.namesOwned,
    by rw [h2, h3]; exact h.ownNamed, by rw [h3]; exact h.ownNodup, by rw [h4]; exact rest_nodup h.flightsNodup f.sid, ?_⟩
  · rw [h1]; exact List.Nodup.sublist (List.Sublist.map _ List.filter_sublist) h.keysNodup
  · intro e he
    rw [h1] at he; rw [h3, h4]
    have hm := List.mem_filter.mp he
    have hne : e.2 ≠ ⟨f.sid, f.name⟩ := by simpa using hm.2
    rcases h.holderKnown e hm.1 with ho | hk
    · left; exact ho
    · rcases known_rest h hf hk with ⟨a, b, _⟩ | hr
      · exfalso; apply hne
        cases e with
        | mk k i => cases i with
          | mk a' b' => simp only at a b; rw [a, b]
      · right; exact hr
  · rw [h3, h4]
    intro g hg o ho hh
    exact h.flightFresh g (mem_rest.mp hg).1 o ho hh

theorem sinv_ok {s t : CState} (h : SInv s) {f : Flight} (hf : f ∈ s.flights) (_hpc : f.pc = .ran)
    (hn : s.nameTaken f.name = false)
    (h1 : t.held = s.held) (h2 : t.names = (f.name, f.sid) :: s.names)
    (h3 : t.own = { sid := f.sid, name := f.name, n := f.n } :: s.own)
    (h4 : t.flights = s.flights.filter (fun g => g.sid ≠ f.sid)) : SInv t := by
  have hfree : f.name ∉ s.names.map (·.1) := by
    intro hm
    have := (nameTaken_iff s f.name).mpr hm
    rw [hn] at this; cases this
  refine ⟨by rw [h1]; exact h.keysNodup, ?_, ?_, ?_, ?_, ?_, by rw [h4]; exact rest_nodup h.flightsNodup f.sid, ?_⟩
  · intro e he
    rw [h1] at he; rw [h3, h4]
    rcases h.holderKnown e he with ⟨o, ho, hh⟩ | hk
    · left; exact ⟨o, List.mem_cons_of_mem _ ho, hh⟩
    · rcases known_rest h hf hk with ⟨a, b, _⟩ | hr
      · left; exact ⟨_, List.mem_cons_self, a, b⟩
      · right; exact hr
  · rw [h2]; simp only [List.map_cons, List.nodup_cons]; exact ⟨hfree, h.namesNodup⟩
  · rw [h2, h3]
    intro e he
    rcases List.mem_cons.mp he with e1 | e1
    · subst e1; exact ⟨_, List.mem_cons_self, rfl, rfl⟩
    · obtain ⟨o, ho, hh⟩ := h.namesOwned e e1
      exact ⟨o, List.mem_cons_of_mem _ ho, hh⟩
  · rw [h2, h3]
    intro o ho
    rcases List.mem_cons.mp ho with e1 | e1
    · subst e1; exact List.mem_cons_self
    · exact List.mem_cons_of_mem _ (h.ownNamed o e1)
  · rw [h3]; simp only [List.map_cons, List.nodup_cons]
    refine ⟨?_, h.ownNodup⟩
    intro hm
    obtain ⟨o, ho, e1⟩ := List.mem_map.mp hm
    apply hfree
    exact List.mem_map.mpr ⟨(o.name, o.sid), h.ownNamed o ho, e1⟩
  · rw [h3, h4]
    intro g hg o ho hh
    have hg' := mem_rest.mp hg
    rcases List.mem_cons.mp ho with e1 | e1
    · subst e1; exact hg'.2 hh.1.symm
    · exact h.flightFresh g hg'.1 o e1 hh

theorem sinv_drop {s : CState} (h : SInv s) (sid : Nat) (name : Str)
    (hown : ∃ o ∈ s.own, o.sid = sid ∧ o.name = name) : SInv (s.dropProxy sid name) := by
  obtain ⟨o0, ho0, hs0, hn0⟩ := hown
  unfold CState.dropProxy
  refine ⟨?_, ?_, ?_, ?_, ?_, ?_, h.flightsNodup, ?_⟩
  · exact List.Nodup.sublist (List.Sublist.map _ List.filter_sublist) h.keysNodup
  · intro e he
    have hm := List.mem_filter.mp he
    have hne : e.2 ≠ ⟨sid, name⟩ := by simpa using hm.2
    rcases h.holderKnown e hm.1 with ⟨o, ho, a, b⟩ | hk
    · left
      refine ⟨o, List.mem_filter.mpr ⟨ho, ?_⟩, a, b⟩
      apply decide_eq_true
      intro hh
      apply hne
      cases e with
      | mk k i => cases i with
        | mk a' b' => simp only at a b; rw [← a, ← b, hh.1, hh.2]
    · right; exact hk
  · exact List.Nodup.sublist (List.Sublist.map _ List.filter_sublist) h.namesNodup
  · intro e he
    have hm := List.mem_filter.mp he
    have hne : e.1 ≠ name := by simpa using hm.2
    obtain ⟨o, ho, a, b⟩ := h.namesOwned e hm.1
    refine ⟨o, List.mem_filter.mpr ⟨ho, ?_⟩, a, b⟩
    apply decide_eq_true
    intro hh
    exact hne (b ▸ hh.2)
  · intro o ho
    have hm := List.mem_filter.mp ho
    have hne : ¬ (o.sid = sid ∧ o.name = name) := of_decide_eq_true hm.2
    apply List.mem_filter.mpr
    refine ⟨h.ownNamed o hm.1, ?_⟩
    apply decide_eq_true
    intro hh
    simp only at hh
    have : o = o0 := map_injOn_of_nodup (·.name) s.own h.ownNodup hm.1 ho0 (by rw [hh, hn0])
    exact hne ⟨this ▸ hs0, hh⟩
  · exact List.Nodup.sublist (List.Sublist.map _ List.filter_sublist) h.ownNodup
  · intro f hf o ho hh
    exact h.flightFresh f hf o (List.mem_filter.mp ho).1 hh


/-! ### quota accounting, step by step -/

theorem acc_of {s t : CState} (hm : t.maxPorts = s.maxPorts)
    (h : ∀ x, t.quotaOf x = s.amt (ownSum t.own x + flightSum t.flights x)) : Accounted t := by
  intro x; rw [amt_eq s t hm]; exact h x

/-- the charge of a registration refused by `Exist` and its deferred rollback cancel -/
theorem charge_refund_quotaOf (s : CState) (sid n x : Nat) :
    ((s.charge sid n).refund sid n).quotaOf x = s.quotaOf x := by
  rw [quotaOf_refund, amt_eq s _ (charge_maxPorts s sid n), quotaOf_charge, quotaOf_charge]
  by_cases e : x = sid
  · subst e; simp only [if_true]; omega
  · simp only [if_neg e]

theorem inv_begin {s : CState} (h : Inv s) (sid : Nat) (name : Str) (keys : List Key) (n : Nat) :
    Inv (s.begin sid name keys n).1 := by
  rcases begin_cases s sid name keys n with ⟨_, e⟩ | ⟨_, _, e⟩ | ⟨hb, hq, ht, e⟩ | ⟨hb, hq, ht, e⟩
  · rw [e]; exact h
  · rw [e]; exact h
  · rw [e]
    refine ⟨sinv_congr (by simp) (by simp) (by simp) (by simp) h.struct, ?_⟩
    apply acc_of (s := s) (by simp)
    intro x
    rw [charge_refund_quotaOf]
    simp only [refund_own, refund_flights, charge_own, charge_flights]
    exact h.quota x
  · rw [e]
    refine ⟨sinv_add_flight h.struct { sid := sid, name := name, keys := keys, n := n, pc := .checked }
      (by simp) (by simp) (by simp) (by simp) hb ht, ?_⟩
    apply acc_of (s := s) (by simp)
    intro x
    show (s.charge sid n).quotaOf x = _
    rw [quotaOf_charge]
    simp only [charge_own, charge_flights, flightSum_cons]
    have hx := h.quota x
    have hs := h.quota sid
    by_cases e1 : x = sid
    · subst e1
      simp only [if_true]
      rw [hx]
      unfold CState.amt; split <;> omega
    · have e2 : ¬ sid = x := fun e' => e1 e'.symm
      simp only [if_neg e1, if_neg e2, Nat.zero_add]
      exact hx

theorem inv_step {s : CState} (h : Inv s) (sid : Nat) : Inv (s.step sid).1 := by
  rcases step_cases s sid with ⟨_, e⟩ | ⟨f, held', k, hf, hpc, hc, e⟩ | ⟨f, held', hf, hpc, hc, e⟩ |
      ⟨f, hf, hpc, ht, e⟩ | ⟨f, hf, hpc, ht, e⟩
  · rw [e]; exact h
  · -- Run fails: what was claimed is given back, the charge is refunded
    obtain ⟨hfm, hsid⟩ := find_flight hf
    subst hsid
    rw [e]
    obtain ⟨new, c1, c2, _⟩ := RegSteps.claim_shape s.held ⟨f.sid, f.name⟩ f.keys h.struct.keysNodup
    rw [hc] at c1; simp only at c1
    have hheld : RegSteps.releaseAll held' ⟨f.sid, f.name⟩ = RegSteps.releaseAll s.held ⟨f.sid, f.name⟩ := by
      rw [c1, RegSteps.releaseAll_append, releaseAll_all_held c2]; rfl
    refine ⟨sinv_fail h.struct hfm (by simp [CState.dropFlight, hheld]) (by simp [CState.dropFlight])
      (by simp [CState.dropFlight]) (by simp [CState.dropFlight]), ?_⟩
    apply acc_of (s := s) (by simp [CState.dropFlight])
    intro x
    rw [quotaOf_refund]
    simp only [refund_own, refund_flights, CState.dropFlight]
    show (if x = f.sid then s.quotaOf f.sid - CState.amt _ f.n else s.quotaOf x) = _
    rw [amt_eq s _ rfl]
    have hx := h.quota x
    have hfs := flightSum_of_mem s.flights h.struct.flightsNodup f hfm
    by_cases e1 : x = f.sid
    · subst e1
      rw [if_pos rfl, hx, flightSum_filter_self, hfs]
      unfold CState.amt; split <;> omega
    · rw [if_neg e1, flightSum_filter_other _ _ _ e1]; exact hx
  · -- Run succeeds
    obtain ⟨hfm, hsid⟩ := find_flight hf
    subst hsid
    rw [e]
    refine ⟨sinv_run_ok h.struct hfm hpc hc rfl rfl rfl rfl, ?_⟩
    apply acc_of (s := s) (by rfl)
    intro x
    show s.quotaOf x = s.amt (ownSum s.own x + flightSum ({ f with pc := .ran } :: s.flights.filter (fun g => g.sid ≠ f.sid)) x)
    rw [flightSum_cons]
    have hx := h.quota x
    have hfs := flightSum_of_mem s.flights h.struct.flightsNodup f hfm
    by_cases e1 : x = f.sid
    · subst e1
      rw [flightSum_filter_self, hx, hfs]
      simp only [if_true, Nat.add_zero]
    · have e2 : ¬ f.sid = x := fun e' => e1 e'.symm
      simp only [if_neg e2, Nat.zero_add]
      rw [flightSum_filter_other _ _ _ e1]; exact hx
  · -- Add fails (name taken concurrently): deferred Close, the charge is refunded
    obtain ⟨hfm, hsid⟩ := find_flight hf
    subst hsid
    rw [e]
    refine ⟨sinv_fail h.struct hfm (by simp [CState.dropFlight]) (by simp [CState.dropFlight])
      (by simp [CState.dropFlight]) (by simp [CState.dropFlight]), ?_⟩
    apply acc_of (s := s) (by simp [CState.dropFlight])
    intro x
    rw [quotaOf_refund]
    simp only [refund_own, refund_flights, CState.dropFlight]
    show (if x = f.sid then s.quotaOf f.sid - CState.amt _ f.n else s.quotaOf x) = _
    rw [amt_eq s _ rfl]
    have hx := h.quota x
    have hfs := flightSum_of_mem s.flights h.struct.flightsNodup f hfm
    by_cases e1 : x = f.sid
    · subst e1
      rw [if_pos rfl, hx, flightSum_filter_self, hfs]
      unfold CState.amt; split <;> omega
    · rw [if_neg e1, flightSum_filter_other _ _ _ e1]; exact hx
  · -- Add succeeds
    obtain ⟨hfm, hsid⟩ := find_flight hf
    subst hsid
    rw [e]
    refine ⟨sinv_ok h.struct hfm hpc ht rfl rfl rfl rfl, ?_⟩
    apply acc_of (s := s) (by rfl)
    intro x
    show s.quotaOf x = s.amt (ownSum ({ sid := f.sid, name := f.name, n := f.n } :: s.own) x +
      flightSum (s.flights.filter (fun g => g.sid ≠ f.sid)) x)
    rw [ownSum_cons]
    have hx := h.quota x
    have hfs := flightSum_of_mem s.flights h.struct.flightsNodup f hfm
    by_cases e1 : x = f.sid
    · subst e1
      rw [flightSum_filter_self, hx, hfs]
      simp only [if_true, Nat.add_zero]
      rw [Nat.add_comm]
    · have e2 : ¬ f.sid = x := fun e' => e1 e'.symm
      simp only [if_neg e2, Nat.zero_add]
      rw [flightSum_filter_other _ _ _ e1]; exact hx


/-! ### close and session end -/

theorem close_cases (s : CState) (sid : Nat) (name : Str) :
    (s.busy sid = true ∧ s.close sid name = (s, .busy)) ∨
    (s.busy sid = false ∧ s.own.find? (fun o => o.sid = sid ∧ o.name = name) = none ∧
      s.close sid name = (s, .done)) ∨
    (∃ o, s.busy sid = false ∧ o ∈ s.own ∧ o.sid = sid ∧ o.name = name ∧
      s.close sid name = ((s.refund sid o.n).dropProxy sid name, .done)) := by
  unfold CState.close
  by_cases hb : s.busy sid = true
  · left; exact ⟨hb, by rw [if_pos hb]⟩
  · have hb' : s.busy sid = false := Bool.eq_false_iff.mpr hb
    right
    rw [if_neg hb]
    cases hf : s.own.find? (fun o => o.sid = sid ∧ o.name = name) with
    | none => left; exact ⟨hb', rfl, rfl⟩
    | some o =>
      right
      have hp := List.find?_some hf
      simp only [decide_eq_true_eq] at hp
      exact ⟨o, hb', List.mem_of_find?_eq_some hf, hp.1, hp.2, rfl⟩

theorem inv_close {s : CState} (h : Inv s) (sid : Nat) (name : Str) : Inv (s.close sid name).1 := by
  rcases close_cases s sid name with ⟨_, e⟩ | ⟨_, _, e⟩ | ⟨o, hb, ho, hs, hn, e⟩
  · rw [e]; exact h
  · rw [e]; exact h
  · rw [e]
    have hs1 : SInv (s.refund sid o.n) := sinv_congr (by simp) (by simp) (by simp) (by simp) h.struct
    refine ⟨sinv_drop hs1 sid name ⟨o, by simpa using ho, hs, hn⟩, ?_⟩
    apply acc_of (s := s) (by simp [CState.dropProxy])
    intro x
    show (s.refund sid o.n).quotaOf x = s.amt (ownSum ((s.refund sid o.n).own.filter
      (fun p => ¬ (p.sid = sid ∧ p.name = name))) x + flightSum (s.refund sid o.n).flights x)
    rw [quotaOf_refund, refund_own, refund_flights]
    have hx := h.quota x
    subst hs; subst hn
    by_cases e1 : x = o.sid
    · subst e1
      have := ownSum_drop_self s.own h.struct.ownNodup o ho
      rw [if_pos rfl, hx]
      unfold CState.amt; split <;> omega
    · rw [if_neg e1, ownSum_drop_other _ _ _ _ e1]; exact hx

/-- `Control.worker`'s loop over `ctl.proxies` -/
def dropAll (s : CState) (sid : Nat) (ns : List Str) : CState :=
  ns.foldl (fun st n => st.dropProxy sid n) s

theorem inst_eq_iff (i : Inst) (sid : Nat) (name : Str) : i = ⟨sid, name⟩ ↔ i.sid = sid ∧ i.name = name := by
  cases i with
  | mk a b => simp

theorem dropAll_spec (sid : Nat) (ns : List Str) :
    ∀ s : CState, SInv s → ns.Nodup → (∀ n ∈ ns, ∃ o ∈ s.own, o.sid = sid ∧ o.name = n) →
      SInv (dropAll s sid ns) ∧ (dropAll s sid ns).flights = s.flights ∧
      (dropAll s sid ns).quota = s.quota ∧ (dropAll s sid ns).maxPorts = s.maxPorts ∧
      (dropAll s sid ns).own = s.own.filter (fun o => ¬ (o.sid = sid ∧ o.name ∈ ns)) ∧
      (dropAll s sid ns).names = s.names.filter (fun e => e.1 ∉ ns) ∧
      (dropAll s sid ns).held = s.held.filter (fun e => ¬ (e.2.sid = sid ∧ e.2.name ∈ ns)) := by
  induction ns with
  | nil =>
    intro s h _ _
    refine ⟨h, rfl, rfl, rfl, ?_, ?_, ?_⟩
    · exact (List.filter_eq_self.mpr (fun _ _ => by simp)).symm
    · exact (List.filter_eq_self.mpr (fun _ _ => by simp)).symm
    · exact (List.filter_eq_self.mpr (fun _ _ => by simp)).symm
  | cons n ns ih =>
    intro s h hnd hown
    have hnd' := List.nodup_cons.mp hnd
    have h1 : SInv (s.dropProxy sid n) := sinv_drop h sid n (hown n List.mem_cons_self)
    have hown' : ∀ m ∈ ns, ∃ o ∈ (s.dropProxy sid n).own, o.sid = sid ∧ o.name = m := by
      intro m hm
      obtain ⟨o, ho, a, b⟩ := hown m (List.mem_cons_of_mem _ hm)
      refine ⟨o, List.mem_filter.mpr ⟨ho, ?_⟩, a, b⟩
      apply decide_eq_true
      intro hh
      exact hnd'.1 (by rw [← hh.2, b]; exact hm)
    obtain ⟨i1, i2, i3, i4, i5, i6, i7⟩ := ih (s.dropProxy sid n) h1 hnd'.2 hown'
    show SInv (dropAll (s.dropProxy sid n) sid ns) ∧ (dropAll (s.dropProxy sid n) sid ns).flights = _ ∧
      (dropAll (s.dropProxy sid n) sid ns).quota = _ ∧ (dropAll (s.dropProxy sid n) sid ns).maxPorts = _ ∧
      (dropAll (s.dropProxy sid n) sid ns).own = _ ∧ (dropAll (s.dropProxy sid n) sid ns).names = _ ∧
      (dropAll (s.dropProxy sid n) sid ns).held = _
    refine ⟨i1, i2, i3, i4, ?_, ?_, ?_⟩
    · rw [i5]
      show (s.own.filter _).filter _ = _
      rw [List.filter_filter]
      apply List.filter_congr
      intro o _
      by_cases a : o.sid = sid <;> by_cases b : o.name = n <;> by_cases c : o.name ∈ ns <;> simp [a, b, c]
    · rw [i6]
      show (s.names.filter _).filter _ = _
      rw [List.filter_filter]
      apply List.filter_congr
      intro e _
      by_cases b : e.1 = n <;> by_cases c : e.1 ∈ ns <;> simp [b, c]
    · rw [i7]
      show (RegSteps.releaseAll s.held ⟨sid, n⟩).filter _ = _
      unfold RegSteps.releaseAll
      rw [List.filter_filter]
      apply List.filter_congr
      intro e _
      have := inst_eq_iff e.2 sid n
      by_cases a : e.2.sid = sid <;> by_cases b : e.2.name = n <;> by_cases c : e.2.name ∈ ns <;>
        simp [a, b, c, this]

theorem sessionEnd_cases (s : CState) (sid : Nat) :
    (s.busy sid = true ∧ s.sessionEnd sid = (s, .busy)) ∨
    (s.busy sid = false ∧ s.sessionEnd sid =
      ({ dropAll s sid (s.namesOf sid) with quota := (dropAll s sid (s.namesOf sid)).quota.filter (fun e => e.1 ≠ sid) },
       .done)) := by
  unfold CState.sessionEnd
  by_cases hb : s.busy sid = true
  · left; exact ⟨hb, by rw [if_pos hb]⟩
  · right; exact ⟨Bool.eq_false_iff.mpr hb, by rw [if_neg hb]; rfl⟩

theorem mem_namesOf (s : CState) (sid : Nat) (n : Str) :
    n ∈ s.namesOf sid ↔ ∃ o ∈ s.own, o.sid = sid ∧ o.name = n := by
  unfold CState.namesOf
  simp only [List.mem_map, List.mem_filter, decide_eq_true_eq]
  constructor
  · rintro ⟨o, ⟨ho, a⟩, b⟩; exact ⟨o, ho, a, b⟩
  · rintro ⟨o, ho, a, b⟩; exact ⟨o, ⟨ho, a⟩, b⟩

theorem namesOf_nodup {s : CState} (h : SInv s) (sid : Nat) : (s.namesOf sid).Nodup := by
  unfold CState.namesOf
  exact List.Nodup.sublist (List.Sublist.map _ List.filter_sublist) h.ownNodup

theorem ownSum_none (l : List Own) (sid : Nat) (h : ∀ o ∈ l, o.sid ≠ sid) : ownSum l sid = 0 := by
  induction l with
  | nil => rfl
  | cons o os ih =>
    rw [ownSum_cons, if_neg (h o List.mem_cons_self), ih (fun p hp => h p (List.mem_cons_of_mem _ hp))]

theorem ownSum_filter_other (l : List Own) (p : Own → Bool) (sid x : Nat)
    (hp : ∀ o ∈ l, p o = false → o.sid = sid) (hx : x ≠ sid) : ownSum (l.filter p) x = ownSum l x := by
  induction l with
  | nil => rfl
  | cons o os ih =>
    have ih' := ih (fun q hq => hp q (List.mem_cons_of_mem _ hq))
    rw [List.filter_cons]
    split
    · rw [ownSum_cons, ownSum_cons, ih']
    · rename_i hpo
      have : o.sid = sid := hp o List.mem_cons_self (Bool.eq_false_iff.mpr hpo)
      have hne : ¬ o.sid = x := fun e => hx (e ▸ this)
      rw [ih', ownSum_cons, if_neg hne, Nat.zero_add]

/-- **end of a session** (its registration handler is idle): exactly the session's own proxies are
    dropped — every key they held, their names — nothing of other sessions, and the counter starts
    from 0 again for a later session -/
theorem sessionEnd_spec {s : CState} (h : Inv s) (sid : Nat) (hb : s.busy sid = false) :
    (s.sessionEnd sid).1.own = s.own.filter (fun o => o.sid ≠ sid) ∧
    (s.sessionEnd sid).1.names = s.names.filter (fun e => e.2 ≠ sid) ∧
    (s.sessionEnd sid).1.held = s.held.filter (fun e => e.2.sid ≠ sid) ∧
    (s.sessionEnd sid).1.flights = s.flights ∧
    (∀ x, (s.sessionEnd sid).1.quotaOf x = if x = sid then 0 else s.quotaOf x) ∧
    Inv (s.sessionEnd sid).1 := by
  rcases sessionEnd_cases s sid with ⟨hb', _⟩ | ⟨_, e⟩
  · rw [hb] at hb'; cases hb'
  rw [e]
  obtain ⟨i1, i2, i3, i4, i5, i6, i7⟩ := dropAll_spec sid (s.namesOf sid) s h.struct (namesOf_nodup h.struct sid)
    (fun n hn => (mem_namesOf s sid n).mp hn)
  have hown : (dropAll s sid (s.namesOf sid)).own = s.own.filter (fun o => o.sid ≠ sid) := by
    rw [i5]
    apply List.filter_congr
    intro o ho
    by_cases a : o.sid = sid
    · have : o.name ∈ s.namesOf sid := (mem_namesOf s sid o.name).mpr ⟨o, ho, a, rfl⟩
      simp [a, this]
    · simp [a]
  have hnames : (dropAll s sid (s.namesOf sid)).names = s.names.filter (fun e => e.2 ≠ sid) := by
    rw [i6]
    apply List.filter_congr
    intro e he
    obtain ⟨o, ho, a, b⟩ := h.struct.namesOwned e he
    by_cases c : e.2 = sid
    · have : e.1 ∈ s.namesOf sid := (mem_namesOf s sid e.1).mpr ⟨o, ho, a.trans c, b⟩
      simp [c, this]
    · have : e.1 ∉ s.namesOf sid := by
        intro hm
        obtain ⟨o', ho', a', b'⟩ := (mem_namesOf s sid e.1).mp hm
        have : o' = o := map_injOn_of_nodup (·.name) s.own h.struct.ownNodup ho' ho (by rw [b', b])
        exact c (by rw [← a, ← this, a'])
      simp [c, this]
  have hheld : (dropAll s sid (s.namesOf sid)).held = s.held.filter (fun e => e.2.sid ≠ sid) := by
    rw [i7]
    apply List.filter_congr
    intro e he
    by_cases a : e.2.sid = sid
    · have : e.2.name ∈ s.namesOf sid := by
        rcases h.struct.holderKnown e he with ⟨o, ho, a1, b1⟩ | ⟨f, hf, a1, _⟩
        · exact (mem_namesOf s sid e.2.name).mpr ⟨o, ho, a1.trans a, b1⟩
        · exfalso
          exact ((not_busy_iff s sid).mp hb) (List.mem_map.mpr ⟨f, hf, a1.trans a⟩)
      simp [a, this]
    · simp [a]
  have hq : ∀ x, CState.quotaOf { dropAll s sid (s.namesOf sid) with
      quota := (dropAll s sid (s.namesOf sid)).quota.filter (fun e => e.1 ≠ sid) } x =
      if x = sid then 0 else s.quotaOf x := by
    intro x
    unfold CState.quotaOf
    simp only [i3]
    by_cases e1 : x = sid
    · subst e1; rw [lookup_filter_self, if_pos rfl]; rfl
    · rw [lookup_filter_ne _ _ _ e1, if_neg e1]
  refine ⟨hown, hnames, hheld, i2, hq, ⟨sinv_congr (by rfl) (by rfl) (by rfl) (by rfl) i1, ?_⟩⟩
  apply acc_of (s := s) (by exact i4)
  intro x
  rw [hq x]
  show _ = s.amt (ownSum (dropAll s sid (s.namesOf sid)).own x + flightSum (dropAll s sid (s.namesOf sid)).flights x)
  rw [hown, i2]
  by_cases e1 : x = sid
  · subst e1
    rw [if_pos rfl, flightSum_not_busy _ _ hb, ownSum_none]
    · unfold CState.amt; split <;> rfl
    · intro o ho; simpa using (List.mem_filter.mp ho).2
  · rw [if_neg e1, ownSum_filter_other _ _ sid x _ e1]
    · exact h.quota x
    · intro o _ hp; simpa using hp

theorem inv_sessionEnd {s : CState} (h : Inv s) (sid : Nat) : Inv (s.sessionEnd sid).1 := by
  rcases sessionEnd_cases s sid with ⟨_, e⟩ | ⟨hb, _⟩
  · rw [e]; exact h
  · exact (sessionEnd_spec h sid hb).2.2.2.2.2


/-! ## Theorems (all schedules) -/

inductive Op
  | begin (sid : Nat) (name : Str) (keys : List Key) (n : Nat)
  | step (sid : Nat)
  | close (sid : Nat) (name : Str)
  | sessionEnd (sid : Nat)

def apply (s : CState) : Op → CState
  | .begin sid name keys n => (s.begin sid name keys n).1
  | .step sid => (s.step sid).1
  | .close sid name => (s.close sid name).1
  | .sessionEnd sid => (s.sessionEnd sid).1

/-- **every schedule**: whatever the sessions do and however the sections of their concurrent
    registrations are interleaved, the tables stay consistent and every quota counter is exactly the
    charge of what its session owns or is registering -/
theorem inv_reachable (m : Nat) (ops : List Op) : Inv (ops.foldl apply (CState.init m)) := by
  suffices hh : ∀ s, Inv s → Inv (ops.foldl apply s) from hh _ (inv_init m)
  induction ops with
  | nil => intro s h; exact h
  | cons op ops ih =>
    intro s h
    apply ih
    cases op with
    | begin sid name keys n => exact inv_begin h sid name keys n
    | step sid => exact inv_step h sid
    | close sid name => exact inv_close h sid name
    | sessionEnd sid => exact inv_sessionEnd h sid

/-- a session that is not inside `RegisterProxy` is charged for exactly the proxies it owns -/
theorem quota_exact_idle {s : CState} (h : Inv s) (sid : Nat) (hb : s.busy sid = false) :
    s.quotaOf sid = s.amt (ownSum s.own sid) := by
  rw [h.quota sid, flightSum_not_busy _ _ hb, Nat.add_zero]

/-- a registration refused at once (session busy, quota, name exists) changes nothing -/
theorem begin_refused_unchanged (s : CState) (sid : Nat) (name : Str) (keys : List Key) (n : Nat)
    (hr : (s.begin sid name keys n).2 ≠ .parked .checked) :
    (s.begin sid name keys n).1.held = s.held ∧ (s.begin sid name keys n).1.names = s.names ∧
    (s.begin sid name keys n).1.own = s.own ∧ (s.begin sid name keys n).1.flights = s.flights ∧
    ∀ x, (s.begin sid name keys n).1.quotaOf x = s.quotaOf x := by
  rcases begin_cases s sid name keys n with ⟨_, e⟩ | ⟨_, _, e⟩ | ⟨_, _, _, e⟩ | ⟨_, _, _, e⟩
  · rw [e]; exact ⟨rfl, rfl, rfl, rfl, fun _ => rfl⟩
  · rw [e]; exact ⟨rfl, rfl, rfl, rfl, fun _ => rfl⟩
  · rw [e]; exact ⟨by simp, by simp, by simp, by simp, charge_refund_quotaOf s sid n⟩
  · rw [e] at hr; exact absurd rfl hr

/-- **a registration that fails part-way leaves nothing behind** — at `Run` (conflict at any claim) or
    at `Add` (**name taken concurrently** by another session's registration that passed `Exist` at the
    same time): the object holds no key any more, every other holder keeps exactly its keys, name table
    and own tables are untouched, and the session's quota counter is back to the charge of what it owns.
    No other session's counter moves. -/
theorem step_failure_releases {s : CState} (h : Inv s) (sid : Nat)
    (hr : (s.step sid).2 = .inuse ∨ ∃ k, (s.step sid).2 = .conflict k) :
    ∃ f ∈ s.flights, f.sid = sid ∧
      (s.step sid).1.held = s.held.filter (fun e => e.2 ≠ ⟨sid, f.name⟩) ∧
      (s.step sid).1.names = s.names ∧ (s.step sid).1.own = s.own ∧
      (s.step sid).1.flights = s.flights.filter (fun g => g.sid ≠ sid) ∧
      (s.step sid).1.quotaOf sid = s.amt (ownSum s.own sid) ∧
      ∀ x, x ≠ sid → (s.step sid).1.quotaOf x = s.quotaOf x := by
  have hi := inv_step h sid
  rcases step_cases s sid with ⟨_, e⟩ | ⟨f, held', k, hf, hpc, hc, e⟩ | ⟨f, held', hf, hpc, hc, e⟩ |
      ⟨f, hf, hpc, ht, e⟩ | ⟨f, hf, hpc, ht, e⟩
  · rw [e] at hr; rcases hr with hr | ⟨_, hr⟩ <;> cases hr
  · obtain ⟨hfm, hsid⟩ := find_flight hf
    obtain ⟨new, c1, c2, _⟩ := RegSteps.claim_shape s.held ⟨sid, f.name⟩ f.keys h.struct.keysNodup
    rw [hc] at c1; simp only at c1
    have hheld : RegSteps.releaseAll held' ⟨sid, f.name⟩ = RegSteps.releaseAll s.held ⟨sid, f.name⟩ := by
      rw [c1, RegSteps.releaseAll_append, releaseAll_all_held c2]; rfl
    have hq := hi.quota sid
    rw [e] at hq ⊢
    refine ⟨f, hfm, hsid, by simp only [refund_held, CState.dropFlight]; rw [hheld]; rfl, by simp [CState.dropFlight],
      by simp [CState.dropFlight], by simp [CState.dropFlight], ?_, ?_⟩
    · rw [hq]
      simp only [refund_own, refund_flights, CState.dropFlight, flightSum_filter_self, Nat.add_zero]
      exact amt_eq s _ (by simp) _
    · intro x hx
      rw [quotaOf_refund, if_neg hx]; rfl
  · rw [e] at hr; rcases hr with hr | ⟨_, hr⟩ <;> cases hr
  · obtain ⟨hfm, hsid⟩ := find_flight hf
    have hq := hi.quota sid
    rw [e] at hq ⊢
    refine ⟨f, hfm, hsid, by simp only [refund_held, CState.dropFlight]; rfl, by simp [CState.dropFlight],
      by simp [CState.dropFlight], by simp [CState.dropFlight], ?_, ?_⟩
    · rw [hq]
      simp only [refund_own, refund_flights, CState.dropFlight, flightSum_filter_self, Nat.add_zero]
      exact amt_eq s _ (by simp) _
    · intro x hx
      rw [quotaOf_refund, if_neg hx]; rfl
  · rw [e] at hr; rcases hr with hr | ⟨_, hr⟩ <;> cases hr

/-- when `Run` fails the held table is EXACTLY what it was (the object held nothing before `Run`) -/
theorem run_conflict_restores {s : CState} (h : Inv s) (sid : Nat) (k : Key)
    (hr : (s.step sid).2 = .conflict k) : (s.step sid).1.held = s.held := by
  obtain ⟨f, hfm, hsid, h1, _⟩ := step_failure_releases h sid (Or.inr ⟨k, hr⟩)
  rw [h1]
  have hpc : f.pc = .checked := by
    rcases step_cases s sid with ⟨_, e⟩ | ⟨g, _, _, hg, hpc, _, _⟩ | ⟨_, _, _, _, _, e⟩ |
        ⟨_, _, _, _, e⟩ | ⟨_, _, _, _, e⟩
    · rw [e] at hr; cases hr
    · have := flight_eq h.struct hfm (find_flight hg).1 ((find_flight hg).2.trans hsid.symm)
      rw [← this]; exact hpc
    · rw [e] at hr; cases hr
    · rw [e] at hr; cases hr
    · rw [e] at hr; cases hr
  have := checked_holds_nothing h.struct hfm hpc
  rw [hsid] at this
  exact RegSteps.releaseAll_none_held this

/-- **explicit close by the owner** (handler idle): exactly the proxy's keys, its name and its own-table
    entry go; its ports are given back to the session's counter -/
theorem close_spec {s : CState} (h : Inv s) (sid : Nat) (name : Str) (hb : s.busy sid = false)
    (ho : ∃ o ∈ s.own, o.sid = sid ∧ o.name = name) :
    (s.close sid name).1.held = s.held.filter (fun e => e.2 ≠ ⟨sid, name⟩) ∧
    (s.close sid name).1.names = s.names.filter (fun e => e.1 ≠ name) ∧
    (s.close sid name).1.own = s.own.filter (fun o => ¬ (o.sid = sid ∧ o.name = name)) ∧
    (s.close sid name).1.quotaOf sid = s.amt (ownSum (s.close sid name).1.own sid) ∧
    (s.close sid name).1.nameTaken name = false := by
  have hi := inv_close h sid name
  rcases close_cases s sid name with ⟨hb', _⟩ | ⟨_, hn, _⟩ | ⟨o, _, _, _, _, e⟩
  · rw [hb] at hb'; cases hb'
  · exfalso
    obtain ⟨o, hom, a, b⟩ := ho
    have := List.find?_eq_none.mp hn o hom
    simp [a, b] at this
  · have hq := quota_exact_idle hi sid
    rw [e] at hq ⊢
    have hmax : ((s.refund sid o.n).dropProxy sid name).maxPorts = s.maxPorts := by simp [CState.dropProxy]
    refine ⟨by simp [CState.dropProxy, RegSteps.releaseAll], by simp [CState.dropProxy],
      by simp [CState.dropProxy], ?_, ?_⟩
    · rw [hq (by simpa [CState.busy, CState.dropProxy] using hb)]
      exact amt_eq s _ hmax _
    · apply Bool.eq_false_iff.mpr
      intro ht
      rw [nameTaken_iff] at ht
      obtain ⟨e', he', hn'⟩ := List.mem_map.mp ht
      simp only [CState.dropProxy, refund_names, List.mem_filter, decide_eq_true_eq] at he'
      exact he'.2 hn'

/-- **the identical registration submitted afterwards succeeds**: in any reachable state where the
    session is idle, the name and the keys are free (e.g. after the owner's close, `close_spec`) and the
    ports fit under the limit on top of what the session really owns, the registration goes through all
    its sections — it can never be refused for ports charged to a registration that failed earlier -/
theorem retry_succeeds {s : CState} (h : Inv s) (sid : Nat) (name : Str) (keys : List Key) (n : Nat)
    (hb : s.busy sid = false) (hn : s.nameTaken name = false) (hnd : keys.Nodup)
    (hfree : ∀ k ∈ keys, k ∉ s.held.map (·.1))
    (hfit : s.maxPorts = 0 ∨ ownSum s.own sid + n ≤ s.maxPorts) :
    (s.begin sid name keys n).2 = .parked .checked ∧
    ((s.begin sid name keys n).1.step sid).2 = .parked .ran ∧
    (((s.begin sid name keys n).1.step sid).1.step sid).2 = .ok := by
  have hq := quota_exact_idle h sid hb
  rcases begin_cases s sid name keys n with ⟨hb', _⟩ | ⟨_, hq', _⟩ | ⟨_, _, ht, _⟩ | ⟨_, _, _, e⟩
  · rw [hb] at hb'; cases hb'
  · exfalso
    rw [hq] at hq'
    unfold CState.amt at hq'
    rcases hfit with h0 | h0
    · omega
    · rw [if_pos hq'.1] at hq'; omega
  · rw [hn] at ht; cases ht
  · rw [e]
    refine ⟨rfl, ?_⟩
    simp only
    -- section B
    have hfind1 : ∀ (st : CState) (fl : List Flight) (f : Flight), f.sid = sid → st.flights = f :: fl →
        st.flights.find? (fun g => g.sid = sid) = some f := by
      intro st fl f hf hfl
      rw [hfl]; exact List.find?_cons_of_pos (by simpa using hf)
    rcases step_cases { s.charge sid n with
        flights := { sid := sid, name := name, keys := keys, n := n, pc := .checked } :: (s.charge sid n).flights } sid
      with ⟨hf, _⟩ | ⟨f, held', k, hf, _, hc, _⟩ | ⟨f, held', hf, _, hc, e2⟩ | ⟨f, hf, hpc, _, _⟩ | ⟨f, hf, hpc, _, _⟩
    · rw [hfind1 _ _ _ rfl rfl] at hf; cases hf
    · rw [hfind1 _ _ _ rfl rfl] at hf
      injection hf with hf; subst hf
      have := RegSteps.claim_free s.held ⟨sid, name⟩ keys hnd hfree
      simp only [charge_held] at hc
      rw [hc] at this; cases this
    · rw [hfind1 _ _ _ rfl rfl] at hf
      injection hf with hf; subst hf
      rw [e2]
      refine ⟨rfl, ?_⟩
      simp only
      -- section C
      rcases step_cases { s.charge sid n with
          held := held'
          flights := { sid := sid, name := name, keys := keys, n := n, pc := .ran } ::
            ({ sid := sid, name := name, keys := keys, n := n, pc := .checked } :: (s.charge sid n).flights).filter
              (fun g => g.sid ≠ sid) } sid
        with ⟨hf, _⟩ | ⟨f, _, _, hf, hpc, _, _⟩ | ⟨f, _, hf, hpc, _, _⟩ | ⟨f, hf, _, ht, _⟩ | ⟨f, hf, _, _, e3⟩
      · rw [hfind1 _ _ _ rfl rfl] at hf; cases hf
      · rw [hfind1 _ _ _ rfl rfl] at hf
        injection hf with hf; subst hf; cases hpc
      · rw [hfind1 _ _ _ rfl rfl] at hf
        injection hf with hf; subst hf; cases hpc
      · rw [hfind1 _ _ _ rfl rfl] at hf
        injection hf with hf; subst hf
        have : s.nameTaken name = true := by simpa [CState.nameTaken] using ht
        rw [hn] at this; cases this
      · rw [e3]
    · rw [hfind1 _ _ _ rfl rfl] at hf
      injection hf with hf; subst hf; cases hpc
    · rw [hfind1 _ _ _ rfl rfl] at hf
      injection hf with hf; subst hf; cases hpc

/-- **nothing is left anywhere** once every registration has finished and every proxy was closed or its
    session ended: all tables are empty and all quota counters are 0 — whatever happened before -/
theorem quiescent_clean {s : CState} (h : Inv s) (hf : s.flights = []) (ho : s.own = []) :
    s.held = [] ∧ s.names = [] ∧ ∀ x, s.quotaOf x = 0 := by
  refine ⟨?_, ?_, ?_⟩
  · apply List.eq_nil_iff_forall_not_mem.mpr
    intro e he
    rcases h.struct.holderKnown e he with ⟨o, hom, _⟩ | ⟨f, hfm, _⟩
    · rw [ho] at hom; cases hom
    · rw [hf] at hfm; cases hfm
  · apply List.eq_nil_iff_forall_not_mem.mpr
    intro e he
    obtain ⟨o, hom, _⟩ := h.struct.namesOwned e he
    rw [ho] at hom; cases hom
  · intro x
    rw [h.quota x, hf, ho]
    unfold CState.amt; split <;> rfl

/-! ### the executable predicate used by the driver (engine "regrace") -/

/-- the state a record of owned proxies / registrations in flight accounts for: same tables, quota
    counters recomputed from what each session owns or is registering -/
def accountedQuota (s : CState) : List (Nat × Nat) :=
  (s.own.map (·.sid) ++ s.flights.map (·.sid)).map
    (fun x => (x, s.amt (ownSum s.own x + flightSum s.flights x)))

def accounted (s : CState) : CState := { s with quota := accountedQuota s }

def quotaRefusalJustified (s : CState) (sid n : Nat) : Bool :=
  decide (s.maxPorts > 0 ∧ s.quotaOf sid + n > s.maxPorts)

def keysFree (s : CState) (keys : List Key) : Bool :=
  decide keys.Nodup && keys.all (fun k => (s.held.lookup k).isNone)

theorem lookup_map_self (l : List Nat) (g : Nat → Nat) (x : Nat) :
    (l.map (fun y => (y, g y))).lookup x = if x ∈ l then some (g x) else none := by
  induction l with
  | nil => rfl
  | cons y ys ih =>
    rw [List.map_cons, List.lookup_cons]
    by_cases e : x = y
    · subst e; simp
    · have hb : (x == y) = false := by simpa using e
      rw [hb, ih]
      simp [e]

theorem flightSum_none (l : List Flight) (sid : Nat) (h : sid ∉ l.map (·.sid)) : flightSum l sid = 0 := by
  induction l with
  | nil => rfl
  | cons f fs ih =>
    simp only [List.map_cons, List.mem_cons, not_or] at h
    rw [flightSum_cons, if_neg (fun e => h.1 e.symm), ih h.2]

theorem accounted_quotaOf (s : CState) (x : Nat) :
    (accounted s).quotaOf x = s.amt (ownSum s.own x + flightSum s.flights x) := by
  unfold accounted accountedQuota CState.quotaOf
  simp only
  rw [lookup_map_self]
  split
  · rfl
  · rename_i hx
    simp only [List.mem_append, not_or] at hx
    rw [ownSum_none, flightSum_none _ _ hx.2]
    · unfold CState.amt; split <;> rfl
    · intro o ho e; exact hx.1 (List.mem_map.mpr ⟨o, ho, e⟩)

/-- soundness of the predicate: on every reachable state of the model the accounted state and the
    state agree on every table and every counter, so `rrView (accounted s) = rrView s` -/
theorem accounted_sound {s : CState} (h : Inv s) :
    (accounted s).held = s.held ∧ (accounted s).names = s.names ∧ (accounted s).own = s.own ∧
    (accounted s).flights = s.flights ∧ ∀ x, (accounted s).quotaOf x = s.quotaOf x :=
  ⟨rfl, rfl, rfl, rfl, fun x => by rw [accounted_quotaOf, h.quota x]⟩

/-! non-vacuity: the name race of two sessions, the loser is refunded and can register again -/
def pA : Key := ⟨.tcp, s "1"⟩
def pB : Key := ⟨.tcp, s "2"⟩
def race : List Op :=
  [.begin 1 (s "p") [pA] 1, .begin 2 (s "p") [pB] 1, .step 1, .step 2, .step 1]

example : ((race.foldl apply (CState.init 1)).step 2).2 = .inuse := by decide +kernel
example : (((race.foldl apply (CState.init 1)).step 2).1.quotaOf 2) = 0 := by decide +kernel
example : (((race.foldl apply (CState.init 1)).step 2).1.held.map (·.1)) = [pA] := by decide +kernel
example : let s1 := (((race.foldl apply (CState.init 1)).step 2).1.close 1 (s "p")).1
          (s1.begin 2 (s "p") [pB] 1).2 = .parked .checked := by decide +kernel

end Conc

end C10
end Frp
