import Frp.Lemmas.WorkConns
import Frp.Model.UdpCloseRace
/-
  C10 — "wrapped transports" are released: the work connections of `http` and `udp` proxies
  (Frp/Model/WorkConns.lean; close graphs and their lemmas are C01's, Frp/Model/CloseGraph.lean).

    http_workconn_closed_once   GetRealConn's stack, every option combination (enc, comp, server-side limit),
                                any number k ≥ 1 of `Close()` calls on what the http.Transport / io.Join /
                                upgrade copier holds: the work connection is closed exactly once
    udp_workconn_closed         UDPProxy.Run's stack: exactly once as soon as one close-once wrapper is in the
                                stack, k times for the bare stack (every call reaches the connection)
    reached_spec                both in one formula (`guarded`)
    var_capture_never_closes    the stack whose limiter closeFn reads the reassigned variable never closes the
                                work connection when a server-side limit is configured (what the check must see)
    var_capture_harmless_without_limit
    winv_reachable              lifecycle, every history of register / exchange / take / I-O error / close /
                                session end: a connection the proxy let go of had `Close()` called on its top;
                                a connection still current belongs to a live udp proxy of the same session
    released_closed             hence, for every history: every let-go connection is closed (exactly once when
                                guarded)
    idle_all_closed             and when no proxy is left every work connection ever handed out is closed
    session_end_closes          after a session ended none of its connections is current
-/
namespace Frp
namespace C10
namespace Xport
open Layers CloseGraph WorkConns

theorem http_workconn_closed_once (o : Opts) (k : Nat) (hk : 1 ≤ k) :
    closeCount (httpRealConnGraph o true) k = some 1 := C01.http_close_fixed o k hk

theorem udp_workconn_closed (o : Opts) (k : Nat) (hk : 1 ≤ k) :
    closeCount (udpWorkConnGraph o true) k = some (if (serverUdpStack o).isEmpty then k else 1) :=
  udp_close_fixed o k hk

theorem reached_spec (kind : PKind) (o : Opts) (tops : Nat) (h : 1 ≤ tops) :
    reached kind o tops true = if guarded kind o then 1 else tops := reached_fixed kind o tops h

theorem reached_pos (kind : PKind) (o : Opts) (tops : Nat) (h : 1 ≤ tops) : 1 ≤ reached kind o tops true := by
  rw [reached_spec kind o tops h]; split <;> omega

theorem var_capture_never_closes (kind : PKind) (o : Opts) (tops : Nat) (h : 1 ≤ tops) (hl : o.limSrv = true) :
    reached kind o tops false = 0 := reached_var kind o tops h hl

theorem var_capture_harmless_without_limit (o : Opts) (k : Nat) (hl : o.limSrv = false) :
    closeCount (udpWorkConnGraph o false) k = closeCount (udpWorkConnGraph o true) k :=
  udp_close_var_nolimit o k hl

/-- the model the driver runs follows C01's switch `CloseGraph.limiterCloseIsFixed` -/
theorem reached_current (kind : PKind) (o : Opts) (tops : Nat) (h : 1 ≤ tops) :
    reached kind o tops = if !limiterCloseIsFixed && o.limSrv then 0 else if guarded kind o then 1 else tops := by
  show reached kind o tops limiterCloseIsFixed = _
  cases hf : limiterCloseIsFixed
  · cases hl : o.limSrv
    · simp only [Bool.not_false, Bool.true_and, Bool.false_eq_true, if_false]
      rw [← reached_fixed kind o tops h]
      cases kind
      · cases o with | mk e c ls lc => simp only at hl; subst hl; rfl
      · cases o with | mk e c ls lc => simp only at hl; subst hl; rfl
    · simpa using reached_var kind o tops h hl
  · simpa using reached_fixed kind o tops h

/-- **every history**: the lifecycle invariant holds in every reachable state -/
theorem winv_reachable (ops : List Op) : WInv (WState.run {} ops) := winv_run winv_init ops

/-- every connection the proxy let go of — exchange over, replaced by a new one, proxy closed, session
    ended — is closed: at least once, and exactly once whenever a close-once wrapper is in its stack -/
theorem released_closed (ops : List Op) (c : WConn) (hc : c ∈ (WState.run {} ops).conns) (hcur : c.cur = false) :
    1 ≤ reached c.kind c.o c.tops true ∧ (guarded c.kind c.o = true → reached c.kind c.o c.tops true = 1) := by
  have ht := (winv_reachable ops).released c hc hcur
  refine ⟨reached_pos _ _ _ ht, fun hg => ?_⟩
  rw [reached_spec _ _ _ ht, if_pos hg]

/-- when no proxy is left, every work connection ever handed to a proxy is closed -/
theorem idle_all_closed (ops : List Op) (hp : (WState.run {} ops).pxys = []) (c : WConn)
    (hc : c ∈ (WState.run {} ops).conns) :
    1 ≤ reached c.kind c.o c.tops true ∧ (guarded c.kind c.o = true → reached c.kind c.o c.tops true = 1) := by
  apply released_closed ops c hc
  cases hcur : c.cur
  · rfl
  · obtain ⟨p, hpm, _⟩ := (winv_reachable ops).curOwned c hc hcur
    rw [hp] at hpm; cases hpm

/-- after `Control.worker` ran for a session none of its work connections is still a proxy's current one -/
theorem session_end_closes (s : WState) (sid k : Nat) (c : WConn) (hc : c ∈ (s.apply (.endsess sid k)).conns)
    (hs : c.sid = sid) : c.cur = false := by
  simp only [WState.apply, List.mem_map] at hc
  obtain ⟨d, _, rfl⟩ := hc
  split
  · rfl
  · rename_i hsel
    rw [if_neg hsel] at hs
    cases hd : d.cur
    · rfl
    · exfalso; apply hsel; simp [hd, hs]

/-! non-vacuity: a udp proxy with a server-side limit whose work connection is replaced once and which is
    then closed; an http exchange closed twice by io.Join -/
def o1 : Opts := ⟨true, false, true, false⟩
def hist : List Op :=
  [.reg 1 [117] .udp o1, .udpTake [117], .udpIOErr [117] 0, .udpTake [117], .reg 1 [104] .http o1,
   .exchange [104] 1, .close 1 [117] 1]

example : ((WState.run {} hist).conns.map (fun c => (c.cur, c.tops, reached c.kind c.o c.tops true))) =
    [(false, 2, 1), (false, 2, 1), (false, 2, 1)] := by decide +kernel
example : ((WState.run {} hist).conns.map (fun c => reached c.kind c.o c.tops false)) = [0, 0, 0] := by decide +kernel
example : reached .udp ⟨false, false, false, false⟩ 3 true = 3 := by decide +kernel

end Xport
end C10
end Frp

/-! ## `UDPProxy.Close` racing its own reader goroutine (Frp/Model/UdpCloseRace.lean)

  DEFECT (reproduced by the engine, op `closerace`; KNOWN_FINDINGS `C10-udp-close-late-workconn`): an explicit
  close of a udp proxy can make frps take one more work connection for the proxy it is closing and leave it
  open.  `late_workconn_witness` is the schedule; `late_workconn_bound` says it is at most one per close;
  `repaired_no_late_workconn` is the full clause for the repaired loop (every schedule). -/
namespace Frp
namespace C10
namespace Xport
open UdpCloseRace

/-- the clause for `UDPProxy.Close`: no work connection is left open by a closed proxy — for every schedule -/
def NoLateWorkConn (fixed : Bool) : Prop := ∀ evs : List Ev, (run fixed evs).late = 0

theorem late_workconn_witness : (run false [.closeConn, .readerSignal, .closeCh]).late = 1 := by decide

theorem late_workconn_full_fails : ¬ NoLateWorkConn false := by
  intro h
  have := h [.closeConn, .readerSignal, .closeCh]
  rw [late_workconn_witness] at this
  cases this

theorem late_inv (fixed : Bool) (evs : List Ev) :
    let s := run fixed evs
    s.late ≤ 1 ∧ (s.late = 1 → s.readerDone = true) ∧ (fixed = true → s.late = 0) := by
  suffices hh : ∀ s : RS, (s.late ≤ 1 ∧ (s.late = 1 → s.readerDone = true) ∧ (fixed = true → s.late = 0)) →
      ((evs.foldl (step fixed) s).late ≤ 1 ∧ ((evs.foldl (step fixed) s).late = 1 → (evs.foldl (step fixed) s).readerDone = true) ∧
        (fixed = true → (evs.foldl (step fixed) s).late = 0)) from
    hh {} ⟨by decide, by decide, fun _ => rfl⟩
  induction evs with
  | nil => intro s h; exact h
  | cons e es ih =>
    intro s h
    apply ih
    obtain ⟨h1, h2, h3⟩ := h
    cases e with
    | closeConn => simp only [step]; split <;> exact ⟨h1, h2, h3⟩
    | closeCh => simp only [step]; split <;> exact ⟨h1, h2, h3⟩
    | readerSignal =>
      simp only [step]
      split
      · rename_i hc
        have hrd : s.readerDone = false := by
          have := (Bool.and_eq_true _ _).mp hc
          simpa using this.2
        have hl0 : s.late = 0 := by
          cases hl : s.late with
          | zero => rfl
          | succ n =>
            have : s.late = 1 := by omega
            have := h2 this
            rw [hrd] at this; cases this
        split
        · exact ⟨h1, fun _ => rfl, h3⟩
        · split
          · exact ⟨h1, fun _ => rfl, h3⟩
          · rename_i hf
            refine ⟨by simp only; omega, fun _ => rfl, fun hfx => ?_⟩
            exact absurd hfx (by simpa using hf)
      · exact ⟨h1, h2, h3⟩

/-- as the code is: at most one late work connection per close -/
theorem late_workconn_bound (evs : List Ev) : (run false evs).late ≤ 1 := (late_inv false evs).1

/-- the repaired loop: none, for every schedule -/
theorem repaired_no_late_workconn : NoLateWorkConn true := fun evs => (late_inv true evs).2.2 rfl

end Xport
end C10
end Frp
