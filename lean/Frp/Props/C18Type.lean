import Frp.Props.C18
import Frp.Model.TypeDispatch
/-
  C18, the `type` of a definition: an accepted proxy / visitor definition carries a type from the allowed
  list, byte for byte, its typed wrapper says the same, and the server reconstructs it.

  `Frp/Gen/TypedConf.lean` (regenerated on every run) lists the statements of
  New{Proxy,Visitor}ConfigurerByType and of Typed{Proxy,Visitor}Config.UnmarshalJSON and the json key of
  {Proxy,Visitor}BaseConfig.Type; `Frp/Model/TypeDispatch.lean` interprets them.
-/
namespace Frp
namespace C18
open Gen.TypedConf Gen.ProxyMsg ProxyMsg TypeDispatch

/-! ## the regenerated shape -/

def expNewByType : List NStep := [.lookupExact, .nilIfAbsent, .newOfStruct, .setTypeFromArg, .ret]

/-- both `New…ConfigurerByType` index their type map with the argument as it is and store that argument in
    the new configurer's `Type`; the decoder writes the very key the peek reads into `…BaseConfig.Type` -/
theorem new_by_type_shape :
    proxyNewByType = expNewByType ∧ visitorNewByType = expNewByType ∧
    proxyBaseTypeKey = peekKey ∧ visitorBaseTypeKey = peekKey := by decide

/-- `New…ConfigurerByType` in closed form: exact membership in the type map -/
theorem runN_closed {T : Type} (table : List (Str × T)) (s : Str) :
    runN table s {} expNewByType = ((table.find? (fun e => e.1 = s)).map (·.2)).map fun t => ⟨t, s⟩ := by
  simp only [expNewByType, runN, stepN]
  cases (table.find? fun e => e.1 = s) <;> simp

theorem proxyTable_find (s : Str) : (proxyTable.find? (fun e => e.1 = s)).map (·.2) = typeOfStr s := by
  simp only [proxyTable, typeOfStr, List.find?_map, Option.map_map]
  cases h : List.find? ((fun e : Str × PT => decide (e.1 = s)) ∘ fun t => (t.bytes, t)) PT.all with
  | none =>
    have : List.find? (fun t : PT => decide (t.bytes = s)) PT.all = none := h
    simp [this]
  | some t =>
    have : List.find? (fun t : PT => decide (t.bytes = s)) PT.all = some t := h
    simp [this]

def visitorOfStr (s : Str) : Option VT := VT.all.find? (fun t => t.bytes = s)

theorem visitorTable_find (s : Str) : (visitorTable.find? (fun e => e.1 = s)).map (·.2) = visitorOfStr s := by
  simp only [visitorTable, visitorOfStr, List.find?_map, Option.map_map]
  cases h : List.find? ((fun e : Str × VT => decide (e.1 = s)) ∘ fun t => (t.bytes, t)) VT.all with
  | none =>
    have : List.find? (fun t : VT => decide (t.bytes = s)) VT.all = none := h
    simp [this]
  | some t =>
    have : List.find? (fun t : VT => decide (t.bytes = s)) VT.all = some t := h
    simp [this]

theorem newProxy_closed (s : Str) : newProxy s = (typeOfStr s).map fun t => ⟨t, s⟩ := by
  have h : proxyNewByType = expNewByType := new_by_type_shape.1
  simp only [newProxy, h, runN_closed, proxyTable_find]

theorem newVisitor_closed (s : Str) : newVisitor s = (visitorOfStr s).map fun t => ⟨t, s⟩ := by
  have h : visitorNewByType = expNewByType := new_by_type_shape.2.1
  simp only [newVisitor, h, runN_closed, visitorTable_find]

theorem typeOfStr_some {s : Str} {t : PT} (h : typeOfStr s = some t) : t.bytes = s := by
  have := List.find?_some h
  simpa using this

theorem visitorOfStr_some {s : Str} {t : VT} (h : visitorOfStr s = some t) : t.bytes = s := by
  have := List.find?_some h
  simpa using this

theorem bytes_mem (t : PT) : t.bytes ∈ PT.all.map PT.bytes := by cases t <;> decide
theorem vbytes_mem (t : VT) : t.bytes ∈ VT.all.map VT.bytes := by cases t <;> decide

/-! ## the loader's type dispatch, for every document -/

/-- `UnmarshalJSON` with the expected statement sequence, in closed form, for ANY treatment `fold` of the
    peeked spelling: the struct is selected by `fold spelling`, the wrapper holds `fold spelling`, and the
    configurer's own `Type` holds the spelling as written -/
theorem runU_closed {T : Type} (fold : Str → Str) (newBy : Str → Option (Cfgr T)) (d : Doc) :
    loadedOf (runU fold newBy peekKey d {} expUnmarshal) =
      if d.null || d.typeNotString || !d.bodyOK then none else
      match newBy (fold ((d.get peekKey).getD [])) with
      | none => none
      | some c => some ⟨fold ((d.get peekKey).getD []),
          match d.get peekKey with | some v => { c with ty := v } | none => c⟩ := by
  simp only [expUnmarshal, runU, stepU]
  cases hn : d.null <;> cases ht : d.typeNotString <;> cases hb : d.bodyOK <;> simp [loadedOf]
  all_goals
    generalize newBy (fold ((d.get peekKey).getD [])) = r
    cases r <;> simp <;> (cases d.get peekKey <;> rfl)

/-- **the loader's dispatch is exact membership**: an element of `proxies` is loaded iff it is an object whose
    `type` is, byte for byte, one of the regenerated type strings (and its body decodes) -/
theorem proxy_load_iff (d : Doc) :
    (loadProxy d).isSome = (!d.null && !d.typeNotString && d.bodyOK &&
      (PT.all.map PT.bytes).contains ((d.get peekKey).getD [])) := by
  have h1 : proxyUnmarshalJSON = expUnmarshal := typed_unmarshal_shape.1
  have h2 : proxyBaseTypeKey = peekKey := new_by_type_shape.2.2.1
  simp only [loadProxy, h1, h2, runU_closed, newProxy_closed, id]
  cases hn : d.null <;> cases ht : d.typeNotString <;> cases hb : d.bodyOK <;> simp
  cases hc : typeOfStr ((d.get peekKey).getD []) with
  | none =>
    have hn' := List.find?_eq_none.mp hc
    simp only [Option.map_none, Option.isSome_none]
    refine (decide_eq_false ?_).symm
    rintro ⟨a, ha, hb⟩
    exact hn' a ha (by simpa using hb)
  | some t =>
    simp only [Option.map_some, Option.isSome_some]
    exact (decide_eq_true ⟨t, List.mem_of_find?_eq_some hc, typeOfStr_some hc⟩).symm

theorem visitor_load_iff (d : Doc) :
    (loadVisitor d).isSome = (!d.null && !d.typeNotString && d.bodyOK &&
      (VT.all.map VT.bytes).contains ((d.get peekKey).getD [])) := by
  have h1 : visitorUnmarshalJSON = expUnmarshal := typed_unmarshal_shape.2.1
  have h2 : visitorBaseTypeKey = peekKey := new_by_type_shape.2.2.2
  simp only [loadVisitor, h1, h2, runU_closed, newVisitor_closed, id]
  cases hn : d.null <;> cases ht : d.typeNotString <;> cases hb : d.bodyOK <;> simp
  cases hc : visitorOfStr ((d.get peekKey).getD []) with
  | none =>
    have hn' := List.find?_eq_none.mp hc
    simp only [Option.map_none, Option.isSome_none]
    refine (decide_eq_false ?_).symm
    rintro ⟨a, ha, hb⟩
    exact hn' a ha (by simpa using hb)
  | some t =>
    simp only [Option.map_some, Option.isSome_some]
    exact (decide_eq_true ⟨t, List.mem_of_find?_eq_some hc, visitorOfStr_some hc⟩).symm

/-- **accepted ⇒ the type is one of the list, everywhere**: whatever the document, a loaded proxy definition's
    own `Type`, its wrapper's `Type` and the type string of the struct that was selected are the same bytes,
    and they are the document's spelling -/
theorem proxy_load_type_exact (d : Doc) (l : Loaded PT) (h : loadProxy d = some l) :
    l.cfg.ty = l.cfg.go.bytes ∧ l.wrapper = l.cfg.ty ∧ d.get peekKey = some l.cfg.ty ∧
    l.cfg.ty ∈ PT.all.map PT.bytes := by
  have h1 : proxyUnmarshalJSON = expUnmarshal := typed_unmarshal_shape.1
  have h2 : proxyBaseTypeKey = peekKey := new_by_type_shape.2.2.1
  simp only [loadProxy, h1, h2, runU_closed, newProxy_closed, id] at h
  split at h
  · cases h
  · cases hc : typeOfStr ((d.get peekKey).getD []) with
    | none => simp [hc] at h
    | some t =>
      have hb := typeOfStr_some hc
      cases hk : d.get peekKey with
      | none =>
        rw [hk] at hb; simp only [Option.getD_none] at hb
        exact absurd hb (bytes_ne_nil t)
      | some v =>
        rw [hk] at hb hc; simp only [Option.getD_some] at hb hc
        simp only [hk, Option.getD_some, hc, Option.map_some, Option.some.injEq] at h
        subst h
        exact ⟨hb.symm, rfl, rfl, hb ▸ bytes_mem t⟩

theorem visitor_load_type_exact (d : Doc) (l : Loaded VT) (h : loadVisitor d = some l) :
    l.cfg.ty = l.cfg.go.bytes ∧ l.wrapper = l.cfg.ty ∧ d.get peekKey = some l.cfg.ty ∧
    l.cfg.ty ∈ VT.all.map VT.bytes := by
  have h1 : visitorUnmarshalJSON = expUnmarshal := typed_unmarshal_shape.2.1
  have h2 : visitorBaseTypeKey = peekKey := new_by_type_shape.2.2.2
  simp only [loadVisitor, h1, h2, runU_closed, newVisitor_closed, id] at h
  split at h
  · cases h
  · cases hc : visitorOfStr ((d.get peekKey).getD []) with
    | none => simp [hc] at h
    | some t =>
      have hb := visitorOfStr_some hc
      cases hk : d.get peekKey with
      | none =>
        rw [hk] at hb; simp only [Option.getD_none] at hb
        exact absurd hb (by cases t <;> decide)
      | some v =>
        rw [hk] at hb hc; simp only [Option.getD_some] at hb hc
        simp only [hk, Option.getD_some, hc, Option.map_some, Option.some.injEq] at h
        subst h
        exact ⟨hb.symm, rfl, rfl, hb ▸ vbytes_mem t⟩

/-- **accepted ⇒ the server round trip is the identity**: for every document the loader accepts and every
    configuration record whose `Type` is what the loader left in the configurer, the message built by
    `MarshalToMsg` is reconstructed by the server as the same type with every server-relevant field equal
    (up to the two stated normalisations) -/
theorem accepted_proxy_roundtrip (d : Doc) (l : Loaded PT) (h : loadProxy d = some l) (c : Rec CF)
    (hT : c.get .cType = .str l.cfg.ty) :
    l.cfg.ty ∈ PT.all.map PT.bytes ∧ l.wrapper = l.cfg.ty ∧ RoundTrip l.cfg.go c := by
  obtain ⟨h1, h2, _, h4⟩ := proxy_load_type_exact d l h
  exact ⟨h4, h2, roundtrip l.cfg.go c (h1 ▸ hT)⟩

/-! ## the other direction: a type outside the list does not survive the hand-over -/

/-- whatever string the configuration's `Type` holds is the type string the message carries -/
theorem type_sent (t : PT) (c : Rec CF) (s : Str) (hT : c.get .cType = .str s) :
    (marshal (marshalTable t) c).get .mProxyType = .str s := by
  obtain ⟨hM, _, hTy, _⟩ := tables_ok t
  have := marshal_get _ c _ hM hTy
  simpa [viaMsg, hT] using this

/-- a configuration whose `Type` is not (byte for byte) in the list is refused by the server: "unknown proxy type" -/
theorem unlisted_type_refused (t : PT) (c : Rec CF) (s : Str) (hT : c.get .cType = .str s) (hs : s ≠ [])
    (hn : typeOfStr s = none) : serverRecon (marshal (marshalTable t) c) = none := by
  simp only [serverRecon, type_sent t c s hT, asStr_str, hs, if_false, hn]

def tcpUpper : Str := [84, 67, 80]          -- "TCP"
def upperDoc : Doc := { keys := [(peekKey, tcpUpper)] }

/-- **why the selection must use the spelling as written** (witness): the same statements with a selection
    that lower-cases first accept `type = "TCP"`; the configurer then holds "TCP" (the decoder wrote it),
    which is not in the list, differs from its wrapper, and no configuration with that `Type` is
    reconstructed by the server -/
theorem folding_selection_witness :
    ∃ l, loadProxyFolding Str.toLower upperDoc = some l ∧ l.cfg.ty = tcpUpper ∧
      l.cfg.ty ∉ PT.all.map PT.bytes ∧ l.wrapper ≠ l.cfg.ty ∧
      ∀ c : Rec CF, c.get .cType = .str l.cfg.ty → serverRecon (marshal (marshalTable l.cfg.go) c) = none := by
  refine ⟨⟨PT.tcp.bytes, ⟨.tcp, tcpUpper⟩⟩, by decide, rfl, by decide, by decide, ?_⟩
  intro c hc
  exact unlisted_type_refused .tcp c tcpUpper hc (by decide) (by decide)

/-- the real statements refuse that document -/
theorem upper_case_refused : loadProxy upperDoc = none := by decide

/-! ## the executable predicates the driver evaluates on the implementation's own result -/

/-- an ACCEPTED proxy definition: `go` = type string of the struct the loader produced, `wrapper` = the typed
    wrapper's Type, `cli` = the loaded configuration, `srv` = what the real server-side
    NewProxyConfigurerFromMsg made of the real MarshalToMsg of it (none = it returned an error) -/
def tyProxyHoldsOn (go wrapper : Str) (cli : Rec CF) (srv : Option (Str × Rec CF)) : Bool :=
  match typeOfStr (asStr (cli.get .cType)) with
  | none => false
  | some t =>
    decide (wrapper = t.bytes) && decide (go = t.bytes) &&
    match srv with
    | some (st, sc) => decide (st = t.bytes) && rtHoldsOn t cli sc
    | none => false

theorem tyProxyHoldsOn_sound (go wrapper : Str) (cli : Rec CF) (srv : Option (Str × Rec CF)) :
    tyProxyHoldsOn go wrapper cli srv = true ↔
      ∃ t : PT, asStr (cli.get .cType) = t.bytes ∧ wrapper = t.bytes ∧ go = t.bytes ∧
        ∃ sc, srv = some (t.bytes, sc) ∧
          ∀ p ∈ serverFields t, (sc.get p).canon = (norm p (cli.get p)).canon := by
  unfold tyProxyHoldsOn
  constructor
  · intro h
    cases ht : typeOfStr (asStr (cli.get .cType)) with
    | none => simp [ht] at h
    | some t =>
      simp only [ht] at h
      cases srv with
      | none => simp at h
      | some p =>
        obtain ⟨st, sc⟩ := p
        simp only [Bool.and_eq_true, decide_eq_true_eq] at h
        obtain ⟨⟨hw, hg⟩, hs, hr⟩ := h
        exact ⟨t, (typeOfStr_some ht).symm, hw, hg, sc, by rw [hs], (rtHoldsOn_sound t cli sc).mp hr⟩
  · rintro ⟨t, h1, h2, h3, sc, h4, h5⟩
    rw [h1, typeOfStr_bytes, h4]
    simp only [h2, h3, decide_true, Bool.true_and, (rtHoldsOn_sound t cli sc).mpr h5]

/-- the model's own answer satisfies the predicate (so `prop=FAILS` can only come from the implementation) -/
theorem model_tyProxyHoldsOn (d : Doc) (l : Loaded PT) (h : loadProxy d = some l) (c : Rec CF)
    (hT : c.get .cType = .str l.cfg.ty) :
    ∃ c', serverRecon (marshal (marshalTable l.cfg.go) c) = some (l.cfg.go, c') ∧
      tyProxyHoldsOn l.cfg.go.bytes l.wrapper c (some (l.cfg.go.bytes, c')) = true := by
  obtain ⟨h1, h2, _, _⟩ := proxy_load_type_exact d l h
  obtain ⟨c', hr, hf⟩ := roundtrip l.cfg.go c (h1 ▸ hT)
  refine ⟨c', hr, (tyProxyHoldsOn_sound _ _ _ _).mpr ⟨l.cfg.go, ?_, ?_, rfl, c', rfl, ?_⟩⟩
  · rw [hT, asStr_str, h1]
  · rw [h2, h1]
  · intro p hp; rw [hf p hp]

/-- an ACCEPTED visitor definition -/
def tyVisitorHoldsOn (go wrapper ty : Str) : Bool :=
  (VT.all.map VT.bytes).contains ty && decide (wrapper = ty) && decide (go = ty)

theorem tyVisitorHoldsOn_sound (go wrapper ty : Str) :
    tyVisitorHoldsOn go wrapper ty = true ↔ ty ∈ VT.all.map VT.bytes ∧ wrapper = ty ∧ go = ty := by
  simp [tyVisitorHoldsOn, and_assoc]

theorem model_tyVisitorHoldsOn (d : Doc) (l : Loaded VT) (h : loadVisitor d = some l) :
    tyVisitorHoldsOn l.cfg.go.bytes l.wrapper l.cfg.ty = true := by
  obtain ⟨h1, h2, _, h4⟩ := visitor_load_type_exact d l h
  exact (tyVisitorHoldsOn_sound _ _ _).mpr ⟨h4, h2, h1.symm⟩

/-- non-vacuity: the canonical spelling is loaded -/
example : loadProxy { keys := [(peekKey, PT.http.bytes)] } = some ⟨PT.http.bytes, ⟨.http, PT.http.bytes⟩⟩ := by decide
example : loadVisitor { keys := [(peekKey, VT.xtcp.bytes)] } = some ⟨VT.xtcp.bytes, ⟨.xtcp, VT.xtcp.bytes⟩⟩ := by decide

end C18
end Frp
