import Frp.Lemmas.Health
import Frp.Lemmas.Client
import Frp.Lemmas.WrapperConc
/-
  C19 — The client keeps exactly the configured-and-healthy proxies registered.

  Models: Frp/Model/Health.lean (client/health/health.go), Frp/Model/Wrapper.lean
  (client/proxy/proxy_wrapper.go), Frp/Model/Reconcile.lean (client/proxy/proxy_manager.go,
  client/visitor/visitor_manager.go).

  Part H — health counting.   Part W — wrapper phase machine.   Part R — reload diff.
  (Part V — visitors: Frp/Props/C19Visitors.lean over Frp/Model/VisitorMgr.lean;  Part F — the reload diff per
  running proxy, any field — and Part S — the configuration a session is started with after a loss of the
  connection, over C14's Frp/Model/Rereg.lean: Frp/Props/C19Reload.lean.  All are audited by Frp/Audit/C19.lean.)
  Part K — the wrapper's goroutines and its mutex (Frp/Model/WrapperConc.lean): every interleaving
  of the worker iteration, Stop, SetRunningStatus and the monitor callbacks refines the atomic
  machine of Part W, so the theorems of Part W hold for the concurrent code, in particular "a stopped
  proxy sends no further registration" in wire order.

  TWO FINDINGS of the models of the pinned code (both reproduced on the real code by the engines,
  both repaired in /repo since: H by 75a9f5a — the driver uses `HealthFixed` —, R by eab68f8 —
  `Reconcile.updateAll` is the repaired reload, `updateAllOld` the former one):
   * H: `failedTimes` is never reset, so the failed callback fires after `maxFailed` failures IN
     TOTAL, not in a row (`health_consecutive_witness`).  `HealthFixed` is the repaired machine
     with the full theorem `withdraw_iff_consecutive`.
     SWITCH (when `monitor.failedTimes = 0` is added to the success branch in /repo): in
     Frp/Model/Health.lean change the body of `Health.activeStep` from `Health.step …` to
     `HealthFixed.step …` (one line; the driver engine `health` then compares the real Monitor with
     the repaired machine) and set the KNOWN_FINDINGS entry C19-health-failedTimes-never-reset to
     status "fixed".  Both theorem sets stay proved; nothing else changes.
   * R: for a name that occurs twice with different contents the delete loop compares with the
     LAST entry and the add loop starts the FIRST, so reloading the very same configuration stops
     and re-registers that proxy every time (`reload_dup_witness`, about `updateAllOld`).  After the
     fix (`cfg = proxyCfgsMap[name]` in the add loop) the full statement `reload_idempotent` holds
     for EVERY configuration list, duplicates included.
-/
namespace Frp
namespace C19
section H
open Health

/-! # Part H — health monitor -/

/-- FULL STATEMENT (property clause "withdrawn after exactly the configured number of consecutive
    failed probes — never fewer, a success restarts the count — registered again after the next
    success, not before the first"): the callbacks fired by a machine on every history are the
    prescribed ones. -/
def ConsecutiveFull (run : Nat → List Bool → HState × List (Option Cb)) : Prop :=
  ∀ m hist, 1 ≤ m → (run m hist).2 = specCbs m hist

/-- the machine AS IT IS IN /repo violates it: 3 failures, never two in a row, maxFailed = 3 -/
theorem health_consecutive_witness :
    (Health.run 3 [true, false, true, false, true, false]).2
      ≠ specCbs 3 [true, false, true, false, true, false] := by decide

theorem health_not_ConsecutiveFull : ¬ ConsecutiveFull Health.run :=
  fun h => health_consecutive_witness (h 3 _ (by decide))

/-- second shape: failures BEFORE the first success count as well (maxFailed = 2, F S F) -/
theorem health_consecutive_witness2 :
    (Health.run 2 [false, true, false]).2 ≠ specCbs 2 [false, true, false] := by decide

/-- after one withdrawal and recovery a single failure withdraws again -/
theorem health_consecutive_witness3 :
    (Health.run 3 [true, false, false, false, true, false]).2
      = [some .normal, none, none, some .failed, some .normal, some .failed] := by decide

/-- THE REPAIRED MACHINE satisfies the full statement, with its state in closed form -/
theorem fixed_run_eq_spec {m : Nat} (hm : 1 ≤ m) (hist : List Bool) :
    HealthFixed.run m hist = (specState m hist, specCbs m hist) := by
  have h := fixed_fold_spec hm hist []
  have h0 : specState m [] = Health.init := by
    simp [specState, statusSpec, trailingFails, Health.init]
  rw [h0] at h
  simpa [HealthFixed.run, specCbs] using h

theorem fixed_ConsecutiveFull : ConsecutiveFull HealthFixed.run := by
  intro m hist hm
  rw [fixed_run_eq_spec hm]

/-- `withdraw_iff_consecutive` (repaired machine): the probe after history `pre` fires the failed
    callback iff it failed, some earlier probe succeeded, and it is exactly the `m`-th failure in
    a row; it fires the normal callback iff it succeeded and the proxy was not up. -/
theorem withdraw_iff_consecutive {m : Nat} (hm : 1 ≤ m) (pre : List Bool) (o : Bool) :
    ((HealthFixed.step m (HealthFixed.run m pre).1 o).2 = some .failed ↔
        (o = false ∧ pre.any id = true ∧ trailingFails (pre ++ [o]) = m)) ∧
    ((HealthFixed.step m (HealthFixed.run m pre).1 o).2 = some .normal ↔
        (o = true ∧ statusSpec m pre = false)) := by
  rw [fixed_run_eq_spec hm]
  simp only [fixed_step_spec hm, cbSpec, trailingFails_snoc]
  cases o <;> cases hany : pre.any id <;> cases hs : statusSpec m pre <;> simp
  all_goals (by_cases h : trailingFails pre + 1 = m <;> simp [h])

/-! ## what the machine as it is does satisfy -/

theorem fold_append (m : Nat) (s : HState) (a b : List Bool) :
    Health.fold m s (a ++ b) =
      ((Health.fold m (Health.fold m s a).1 b).1, (Health.fold m s a).2 ++ (Health.fold m (Health.fold m s a).1 b).2) := by
  induction a generalizing s with
  | nil => simp [Health.fold]
  | cons o a ih => simp [Health.fold, ih]

/-- the counter counts ALL failed probes of the history (this is the defect, stated positively) -/
theorem step_failedTimes (m : Nat) (s : HState) (o : Bool) :
    (Health.step m s o).1.failedTimes = s.failedTimes + (if o then 0 else 1) := by
  obtain ⟨f, st⟩ := s
  cases o <;> cases st <;> simp [Health.step]
  by_cases h : m ≤ f + 1 <;> simp [h]

theorem health_failedTimes_total (m : Nat) (s : HState) (hist : List Bool) :
    (Health.fold m s hist).1.failedTimes = s.failedTimes + hist.count false := by
  induction hist generalizing s with
  | nil => simp [Health.fold]
  | cons o os ih =>
    simp only [Health.fold]
    rw [ih, step_failedTimes]
    cases o <;> simp <;> omega

/-- soundness of each callback: normal only on a successful probe while down; failed only on a
    failed probe while up and with at least `m` failures counted — and the verdict flips. -/
theorem health_cb_sound (m : Nat) (s : HState) (o : Bool) :
    ((Health.step m s o).2 = some .normal →
        o = true ∧ s.statusOK = false ∧ (Health.step m s o).1.statusOK = true) ∧
    ((Health.step m s o).2 = some .failed →
        o = false ∧ s.statusOK = true ∧ m ≤ (Health.step m s o).1.failedTimes ∧
        (Health.step m s o).1.statusOK = false) ∧
    ((Health.step m s o).2 = none → (Health.step m s o).1.statusOK = s.statusOK) := by
  obtain ⟨f, st⟩ := s
  cases o <;> cases st <;> simp [Health.step]
  by_cases h2 : m ≤ f + 1 <;> simp [h2]

/-- "a health-checked proxy is not registered before its first successful probe": while every
    probe fails nothing fires and the verdict stays down; the first success fires `normal`. -/
theorem health_silent_until_first_success (m k : Nat) :
    Health.run m (List.replicate k false) =
      ({ failedTimes := k, statusOK := false }, List.replicate k none) := by
  have h : ∀ (k f : Nat), Health.fold m { failedTimes := f, statusOK := false } (List.replicate k false) =
      ({ failedTimes := f + k, statusOK := false }, List.replicate k none) := by
    intro k
    induction k with
    | zero => intro f; simp [Health.fold]
    | succ k ih =>
      intro f
      simp only [List.replicate_succ, Health.fold, Health.step]
      simp only [Bool.false_and, Bool.false_eq_true, if_false]
      rw [ih]
      simp; omega
  simpa [Health.run, Health.init] using h k 0

theorem health_first_success_registers (m k : Nat) :
    (Health.run m (List.replicate k false ++ [true])).2 = List.replicate k none ++ [some .normal] ∧
    (Health.run m (List.replicate k false ++ [true])).1.statusOK = true := by
  unfold Health.run
  rw [fold_append]
  have h := health_silent_until_first_success m k
  unfold Health.run at h
  rw [h]
  simp [Health.fold, Health.step]

/-- automaton for "the history contains failure … success … failure" -/
def fsfFrom : Nat → List Bool → Bool
  | _, [] => false
  | 0, o :: os => if o then fsfFrom 0 os else fsfFrom 1 os
  | 1, o :: os => if o then fsfFrom 2 os else fsfFrom 1 os
  | _, o :: os => if o then fsfFrom 2 os else true

/-- all failed probes of the history are adjacent -/
def NoFSF (hist : List Bool) : Prop := fsfFrom 0 hist = false
instance (hist : List Bool) : Decidable (NoFSF hist) := by unfold NoFSF; infer_instance

private def Rel : Nat → HState → HState → Prop
  | 0, a, b => a = b ∧ a.failedTimes = 0
  | 1, a, b => a = b
  | _, a, b => a.statusOK = b.statusOK

private theorem agree_aux (m : Nat) (os : List Bool) :
    ∀ (st : Nat) (a b : HState), st ≤ 2 → Rel st a b → fsfFrom st os = false →
      (Health.fold m a os).2 = (HealthFixed.fold m b os).2 := by
  induction os with
  | nil => intros; simp [Health.fold, HealthFixed.fold]
  | cons o os ih =>
    intro st a b hst hr hf
    have hst' : st = 0 ∨ st = 1 ∨ st = 2 := by omega
    rcases hst' with rfl | rfl | rfl
    · -- no failure so far
      obtain ⟨rfl, h0⟩ := hr
      cases o
      · simp only [fsfFrom, Bool.false_eq_true, if_false] at hf
        simp only [Health.fold, HealthFixed.fold]
        have hs : Health.step m a false = HealthFixed.step m a false := rfl
        rw [hs]
        congr 1
        exact ih 1 _ _ (by omega) rfl hf
      · simp only [fsfFrom, if_true] at hf
        simp only [Health.fold, HealthFixed.fold]
        have hs : Health.step m a true = HealthFixed.step m a true := by
          obtain ⟨f, s⟩ := a
          simp only at h0
          subst h0
          cases s <;> rfl
        rw [hs]
        congr 1
        refine ih 0 _ _ (by omega) ⟨rfl, ?_⟩ hf
        obtain ⟨f, s⟩ := a
        simp only at h0
        subst h0
        cases s <;> rfl
    · -- inside the run of failures
      have hr' : a = b := hr
      subst hr'
      cases o
      · simp only [fsfFrom, Bool.false_eq_true, if_false] at hf
        simp only [Health.fold, HealthFixed.fold]
        have hs : Health.step m a false = HealthFixed.step m a false := rfl
        rw [hs]
        congr 1
        exact ih 1 _ _ (by omega) rfl hf
      · simp only [fsfFrom, if_true] at hf
        simp only [Health.fold, HealthFixed.fold]
        have hc : (Health.step m a true).2 = (HealthFixed.step m a true).2 := by
          obtain ⟨f, s⟩ := a; cases s <;> rfl
        have hk : (Health.step m a true).1.statusOK = (HealthFixed.step m a true).1.statusOK := by
          obtain ⟨f, s⟩ := a; cases s <;> rfl
        rw [hc]
        congr 1
        exact ih 2 _ _ (by omega) hk hf
    · -- after the run: only successes may follow
      have hr' : a.statusOK = b.statusOK := hr
      cases o
      · simp [fsfFrom] at hf
      · simp only [fsfFrom, if_true] at hf
        simp only [Health.fold, HealthFixed.fold]
        have hc : (Health.step m a true).2 = (HealthFixed.step m b true).2 := by
          obtain ⟨f, s⟩ := a; obtain ⟨g, t⟩ := b
          simp only at hr'; subst hr'
          cases s <;> rfl
        have hk : (Health.step m a true).1.statusOK = (HealthFixed.step m b true).1.statusOK := by
          obtain ⟨f, s⟩ := a; obtain ⟨g, t⟩ := b
          simp only at hr'; subst hr'
          cases s <;> rfl
        rw [hc]
        congr 1
        exact ih 2 _ _ (by omega) hk hf

/-- PARTIAL (machine as it is): on every history whose failed probes are all adjacent — in
    particular up to and including the first withdrawal — the fired callbacks are exactly the
    prescribed ones.  Missing for the full statement: histories with failure … success … failure,
    where it is false (`health_consecutive_witness`). -/
theorem health_consecutive_partial {m : Nat} (hm : 1 ≤ m) (hist : List Bool) (h : NoFSF hist) :
    (Health.run m hist).2 = specCbs m hist := by
  have := agree_aux m hist 0 Health.init Health.init (by omega) ⟨rfl, rfl⟩ h
  unfold Health.run
  rw [this]
  have h2 := fixed_run_eq_spec hm hist
  unfold HealthFixed.run at h2
  rw [h2]

example : NoFSF [true, true, false, false, false, true, true] := by decide
example : NoFSF [false, false, true, true] := by decide
example : ¬ NoFSF [true, false, true, false] := by decide
example : (Health.run 3 [true, true, false, false, false, true, true]).2 =
    [some .normal, none, none, none, some .failed, some .normal, none] := by decide

/-- doHTTPCheck: exactly the codes 200…299 are successes -/
theorem httpOK_iff (c : Nat) : httpOK c = true ↔ 200 ≤ c ∧ c ≤ 299 := by
  unfold httpOK
  simp only [beq_iff_eq]
  omega

/-- a timed-out probe, a reset, a refused connection and every non-2xx answer count as failed -/
theorem outcome_failed (o : Outcome) :
    o.ok = false ↔ (o = .reset ∨ o = .timeout ∨ o = .tcpRefuse ∨ ∃ c, o = .http c ∧ ¬ (200 ≤ c ∧ c ≤ 299)) := by
  cases o with
  | http c =>
    simp only [Outcome.ok, reduceCtorEq, false_or, Outcome.http.injEq, exists_eq_left']
    rw [← httpOK_iff]; simp
  | reset => simp [Outcome.ok]
  | timeout => simp [Outcome.ok]
  | tcpAccept => simp [Outcome.ok]
  | tcpRefuse => simp [Outcome.ok]

/-- NewMonitor normalisation -/
theorem normMax_pos (m : Int) : 1 ≤ normMax m := by
  unfold normMax; split <;> omega

end H

/-! # Part W — the wrapper phase machine -/
section W
open Wrapper

open Lean Parser Tactic in
local macro "crunch" "[" ls:simpLemma,* "]" : tactic => `(tactic| (
  simp only [step, wantsStart]
  all_goals (repeat' split)
  all_goals (try simp_all [$ls,*])
  all_goals (try (repeat' split))
  all_goals (try simp_all [$ls,*])))

/-- the legal transitions of the reported status (besides staying put) -/
def Legal : Phase → Phase → Bool
  | .new, .waitStart | .new, .closed => true
  | .waitStart, .waitStart | .waitStart, .running | .waitStart, .startErr
  | .waitStart, .checkFailed | .waitStart, .closed => true
  | .startErr, .waitStart | .startErr, .closed => true
  | .running, .checkFailed | .running, .closed => true
  | .checkFailed, .waitStart | .checkFailed, .closed => true
  | _, _ => false

/-- every single event moves the status along a legal edge or leaves it where it is -/
theorem step_legal (w : W) (e : Event) :
    (step w e).1.phase = w.phase ∨ Legal w.phase (step w e).1.phase = true := by
  obtain ⟨cfg, id, phase, health, ls, le⟩ := w
  cases e <;> cases phase <;> crunch [Legal]

def runPhases : W → List Event → List Phase
  | _, [] => []
  | w, e :: es => (step w e).1.phase :: runPhases (step w e).1 es

def LegalPath : Phase → List Phase → Prop
  | _, [] => True
  | p, q :: rest => (q = p ∨ Legal p q = true) ∧ LegalPath q rest

/-- "reported status follows only the legal transitions": for EVERY event sequence -/
theorem run_legal (w : W) (es : List Event) : LegalPath w.phase (runPhases w es) := by
  induction es generalizing w with
  | nil => trivial
  | cons e es ih => exact ⟨step_legal w e, ih _⟩

theorem step_closed (w : W) (e : Event) (h : w.phase = .closed) :
    (step w e).1.phase = .closed ∧ (step w e).2.1 = [] ∧
    (step w e).2.2 ≠ .handed ∧ (step w e).2.2 ≠ .ok := by
  obtain ⟨cfg, id, phase, health, ls, le⟩ := w
  simp only at h
  subst h
  cases e <;> crunch []

/-- a stopped wrapper is inert: whatever arrives later (ticks of a lingering worker, late server
    replies, monitor callbacks, work connections) it stays closed, sends nothing, accepts nothing -/
theorem closed_absorbing (w : W) (es : List Event) (h : w.phase = .closed) :
    (run w es).1.phase = .closed ∧ (run w es).2.1 = [] ∧
    ∀ r ∈ (run w es).2.2, r ≠ .handed ∧ r ≠ .ok := by
  induction es generalizing w with
  | nil => simp [run, h]
  | cons e es ih =>
    obtain ⟨h1, h2, h3, h4⟩ := step_closed w e h
    obtain ⟨i1, i2, i3⟩ := ih (step w e).1 h1
    simp only [run]
    refine ⟨i1, by simp [h2, i2], ?_⟩
    intro r hr
    rcases List.mem_cons.mp hr with rfl | hr
    · exact ⟨h3, h4⟩
    · exact i3 r hr

theorem stop_closes (w : W) : (step w .stop).1.phase = .closed := by
  simp only [step]; split <;> simp_all

/-- "a stopped proxy sends no further registration and accepts no further work connection" -/
theorem no_newProxy_after_stop (w : W) (es : List Event) :
    Msg.newProxy ∉ (run (step w .stop).1 es).2.1 ∧ Res.handed ∉ (run (step w .stop).1 es).2.2 := by
  obtain ⟨_, h2, h3⟩ := closed_absorbing (step w .stop).1 es (stop_closes w)
  refine ⟨by simp [h2], fun hm => (h3 _ hm).1 rfl⟩

/-- stopping a live wrapper tells the server exactly once -/
theorem stop_emits_one_close (w : W) (h : w.phase ≠ .closed) : (step w .stop).2.1 = [.closeProxy] := by
  simp [step, h]

/-- a work connection is handed to the proxy iff the status is `running`; the state is untouched -/
theorem inWorkConn_handed_iff (w : W) :
    ((step w .inWorkConn).2.2 = .handed ↔ w.phase = .running) ∧ (step w .inWorkConn).1 = w ∧
    (step w .inWorkConn).2.1 = [] := by
  simp only [step]; split <;> simp_all

/-- a start error is retried exactly when the back-off has passed (and the backend is healthy) -/
theorem startErr_retry (w : W) (now : Nat) (hp : w.phase = .startErr) (hh : w.health = 0) :
    (w.lastErr + startErrTimeout < now →
        (step w (.tick now)).1.phase = .waitStart ∧ (step w (.tick now)).2.1 = [.newProxy] ∧
        (step w (.tick now)).1.lastSend = now) ∧
    (now ≤ w.lastErr + startErrTimeout →
        (step w (.tick now)).1 = w ∧ (step w (.tick now)).2.1 = []) := by
  constructor
  · intro h; simp [step, wantsStart, hp, hh, h]
  · intro h
    have : ¬ (w.lastErr + startErrTimeout < now) := by omega
    simp [step, wantsStart, hp, hh, this]

/-- `start error` is never absorbing: from any wrapper in that status there is a continuation
    (backend healthy, worker runs after the back-off) that registers again -/
theorem startErr_not_absorbing (w : W) (hp : w.phase = .startErr) :
    (run w [.healthUp, .tick (w.lastErr + startErrTimeout + 1)]).1.phase = .waitStart ∧
    (run w [.healthUp, .tick (w.lastErr + startErrTimeout + 1)]).2.1 = [.newProxy] := by
  simp [run, step, wantsStart, hp]

/-- a server error or a local Run() error on the reply lands in `start error` with the clock set -/
theorem startResp_error (w : W) (now : Nat) (respErr : Bool) (hp : w.phase = .waitStart)
    (he : respErr = true ∨ w.cfg.runFails = true) :
    (step w (.startResp now respErr)).1.phase = .startErr ∧
    (step w (.startResp now respErr)).1.lastErr = now := by
  cases respErr <;> cases hr : w.cfg.runFails <;> simp_all [step]

theorem step_unhealthy (w : W) (e : Event) (hh : w.health ≠ 0) (he : e ≠ .healthUp) :
    (step w e).1.health ≠ 0 ∧ Msg.newProxy ∉ (step w e).2.1 := by
  obtain ⟨cfg, id, phase, health, ls, le⟩ := w
  simp only at hh
  cases e <;> crunch []

/-- "not registered before its first successful probe": while the monitor has not reported
    success no event sequence makes the wrapper send NewProxy -/
theorem no_register_while_unhealthy (w : W) (es : List Event) (hh : w.health ≠ 0)
    (hes : ∀ e ∈ es, e ≠ .healthUp) : Msg.newProxy ∉ (run w es).2.1 := by
  induction es generalizing w with
  | nil => simp [run]
  | cons e es ih =>
    obtain ⟨h1, h2⟩ := step_unhealthy w e hh (hes e List.mem_cons_self)
    have := ih (step w e).1 h1 (fun e' he' => hes e' (List.mem_cons_of_mem _ he'))
    simp only [run, List.mem_append, not_or]
    exact ⟨h2, this⟩

theorem mk_health (c : Cfg) (id : Nat) (h : c.health = true) : (mk c id).health ≠ 0 := by
  simp [mk, h]

/-- withdrawal: once the monitor reports failure the next worker iteration closes the proxy at
    the server (if it was registered or being registered) and refuses work connections -/
theorem unhealthy_withdraws (w : W) (now : Nat) (hh : w.health ≠ 0)
    (hp : w.phase = .running ∨ w.phase = .waitStart) :
    (step w (.tick now)).1.phase = .checkFailed ∧ (step w (.tick now)).2.1 = [.closeProxy] := by
  simp [step, hh, hp]

/-- …and registers again after the next success -/
theorem recovery_registers (w : W) (now : Nat) (hp : w.phase = .checkFailed) :
    (run w [.healthUp, .tick now]).1.phase = .waitStart ∧
    (run w [.healthUp, .tick now]).2.1 = [.newProxy] := by
  simp [run, step, wantsStart, hp]

/-- what the server was last told, given the previous value and newly emitted messages -/
def lastOf (prev : Option Msg) (ms : List Msg) : Option Msg :=
  match ms.getLast? with
  | some m => some m
  | none => prev

theorem lastOf_nil (p : Option Msg) : lastOf p [] = p := rfl
theorem lastOf_single (p : Option Msg) (m : Msg) : lastOf p [m] = some m := rfl

/-- status and the server's view are in step: waiting/running ⇒ the last message was NewProxy;
    check-failed/closed ⇒ it was CloseProxy; new ⇒ nothing was sent yet -/
def Sync (w : W) (last : Option Msg) : Prop :=
  ((w.phase = .running ∨ w.phase = .waitStart) → last = some .newProxy) ∧
  ((w.phase = .checkFailed ∨ w.phase = .closed) → last = some .closeProxy) ∧
  (w.phase = .new → last = none)

theorem sync_step (w : W) (e : Event) (last : Option Msg) (h : Sync w last) :
    Sync (step w e).1 (lastOf last (step w e).2.1) := by
  obtain ⟨cfg, id, phase, health, ls, le⟩ := w
  unfold Sync at h ⊢
  cases e <;> cases phase <;> crunch [lastOf_nil, lastOf_single]

def lastRun (last : Option Msg) (w : W) : List Event → Option Msg
  | [] => last
  | e :: es => lastRun (lastOf last (step w e).2.1) (step w e).1 es

/-- for EVERY event sequence from a fresh wrapper the status agrees with what the server was told -/
theorem sync_run (c : Cfg) (id : Nat) (es : List Event) :
    Sync (run (mk c id) es).1 (lastRun none (mk c id) es) := by
  have h : ∀ (es : List Event) (w : W) (last : Option Msg), Sync w last →
      Sync (run w es).1 (lastRun last w es) := by
    intro es
    induction es with
    | nil => intro w last h; simpa [run, lastRun] using h
    | cons e es ih =>
      intro w last h
      simp only [run, lastRun]
      exact ih _ _ (sync_step w e last h)
  exact h es _ _ (by simp [Sync, mk])

/-- convergence of one wrapper against a server that accepts: healthy ⇒ one worker iteration
    after the deadlines plus the reply make it `running`; unhealthy ⇒ it is neither waiting nor running -/
theorem converge_wrapper (w : W) (now : Nat) (hc : w.phase ≠ .closed) (hr : w.cfg.runFails = false)
    (h1 : w.lastSend + waitResponseTimeout < now) (h2 : w.lastErr + startErrTimeout < now) :
    (w.health = 0 → (run w [.tick now, .startResp now false]).1.phase = .running) ∧
    (w.health ≠ 0 → (step w (.tick now)).1.phase ≠ .running ∧ (step w (.tick now)).1.phase ≠ .waitStart) := by
  obtain ⟨cfg, id, phase, health, ls, le⟩ := w
  simp only at hc hr h1 h2
  constructor
  · intro hh
    simp only at hh
    cases phase <;> simp_all [run, step, wantsStart]
  · intro hh
    simp only at hh
    cases phase <;> simp_all [step]

example : (run (mk ⟨1, 0, true, false⟩ 1)
    [.tick 0, .healthUp, .tick 600, .startResp 700 false, .inWorkConn, .healthDown, .tick 4000,
     .inWorkConn, .healthUp, .tick 7000, .startResp 7100 true, .tick 8000, .tick 37101, .stop, .tick 40000]).2 =
    ([.newProxy, .closeProxy, .newProxy, .newProxy, .closeProxy],
     [.none, .none, .none, .ok, .handed, .none, .none, .closed, .none, .none, .respErr, .none, .none, .none, .none]) := by
  decide +kernel

end W

/-! # Part R — reload -/
section R
open Wrapper Reconcile

open Lean Parser Tactic in
local macro "crunch" "[" ls:simpLemma,* "]" : tactic => `(tactic| (
  simp only [step, wantsStart]
  all_goals (repeat' split)
  all_goals (try simp_all [$ls,*])
  all_goals (try (repeat' split))
  all_goals (try simp_all [$ls,*])))

theorem inv_init : Inv Reconcile.init := by
  simp [Inv, Reconcile.init, NamesNodup]

theorem filter_nodup (ws : List W) (p : W → Bool) (h : NamesNodup ws) : NamesNodup (ws.filter p) :=
  List.Pairwise.sublist List.filter_sublist h

/-- the invariant survives every reload -/
theorem inv_updateAll (m : Mgr) (cfgs : List Cfg) (now : Nat) (h : Inv m) :
    Inv (updateAll m cfgs now).1 := by
  obtain ⟨hnd, hall⟩ := h
  simp only [updateAll, addLoopNew_eq]
  refine ⟨addLoop_nodup _ _ _ _ (filter_nodup _ _ hnd), ?_⟩
  intro w hw
  rcases addLoop_mem _ _ _ _ _ hw with h1 | ⟨c, _, he, _⟩
  · have := hall w (List.mem_filter.mp h1).1
    exact ⟨this.1, by simp only; omega⟩
  · subst he
    exact ⟨start_mk_phase _ _ _, by rw [start_mk_id]; simp only; omega⟩

/-- the running names after a reload are exactly the configured names -/
theorem update_names (m : Mgr) (cfgs : List Cfg) (now : Nat) (n : Nat) :
    hasName (updateAll m cfgs now).1.proxies n = true ↔ ∃ c ∈ cfgs, c.name = n := by
  simp only [updateAll, addLoopNew_eq]
  rw [addLoop_hasName, map_sel_any]
  constructor
  · intro h
    rcases Bool.or_eq_true_iff.mp h with h | h
    · rw [hasName_iff] at h
      obtain ⟨w, hw, hn⟩ := h
      have hk := (List.mem_filter.mp hw).2
      simp only [keeps, beq_iff_eq] at hk
      obtain ⟨hm, hname⟩ := lookupLast_mem hk
      exact ⟨w.cfg, hm, hn⟩
    · simpa [List.any_eq_true] using h
  · intro ⟨c, hc, hn⟩
    apply Bool.or_eq_true_iff.mpr
    right
    simp only [List.any_eq_true, beq_iff_eq]
    exact ⟨c, hc, hn⟩

/-- "unchanged entries keep running without re-registration": a wrapper whose configuration is
    (deep-)equal to the configured entry of its name is the SAME wrapper afterwards (same object
    stamp, same status, same clocks) -/
theorem update_kept_same_wrapper (m : Mgr) (cfgs : List Cfg) (now : Nat) (w : W)
    (hw : w ∈ m.proxies) (hk : keeps cfgs w = true) : w ∈ (updateAll m cfgs now).1.proxies := by
  simp only [updateAll, addLoopNew_eq]
  exact addLoop_sub _ _ _ _ _ (List.mem_filter.mpr ⟨hw, hk⟩)

/-- exact number of CloseProxy per name emitted by a reload: one iff a running wrapper of that
    name disappeared or changed, else none -/
theorem update_close_count (m : Mgr) (cfgs : List Cfg) (now : Nat) (h : Inv m) (n : Nat) :
    (updateAll m cfgs now).2.2.count (n, Msg.closeProxy) =
      if m.proxies.any (fun w => w.cfg.name == n && !keeps cfgs w) then 1 else 0 := by
  obtain ⟨hnd, hall⟩ := h
  simp only [updateAll, addLoopNew_eq]
  rw [List.count_append]
  have h0 : (addLoop m.nextId now (m.proxies.filter (keeps cfgs)) (cfgs.map (sel cfgs))).2.count (n, Msg.closeProxy) = 0 := by
    rw [List.count_eq_zero]
    intro hm
    have := addLoop_events_new _ _ _ _ _ hm
    simp at this
  rw [h0, stopEvents_eq _ (fun w hw => (hall w (List.mem_filter.mp hw).1).1),
    count_close_map _ (filter_nodup _ _ hnd)]
  simp [hasName, List.any_filter, Bool.and_comm]

theorem stopEvents_count_new (ws : List W) (n : Nat) : (stopEvents ws).count (n, Msg.newProxy) = 0 := by
  rw [List.count_eq_zero]
  intro hm
  simp only [stopEvents, List.mem_flatMap, List.mem_map] at hm
  obtain ⟨w, _, m', hm', he⟩ := hm
  simp only [step] at hm'
  split at hm' <;> simp_all

/-- exact number of NewProxy per name emitted by a reload: one iff no wrapper of that name is
    kept and the configured entry of the name (`proxyCfgsMap[name]`, the last one) exists and is
    not health-gated -/
theorem update_new_count (m : Mgr) (cfgs : List Cfg) (now : Nat) (n : Nat) :
    (updateAll m cfgs now).2.2.count (n, Msg.newProxy) =
      if hasName (m.proxies.filter (keeps cfgs)) n then 0 else startCount (lookupLast cfgs n) := by
  simp only [updateAll, addLoopNew_eq]
  rw [List.count_append, stopEvents_count_new, addLoop_count_new, Nat.zero_add, map_sel_find]

/-- every wrapper after a reload is a kept one or a new object created for the configured entry
    of its name -/
theorem update_new_wrappers (m : Mgr) (cfgs : List Cfg) (now : Nat) (w : W)
    (hw : w ∈ (updateAll m cfgs now).1.proxies) :
    (w ∈ m.proxies ∧ keeps cfgs w = true) ∨
    (w.id = m.nextId ∧ lookupLast cfgs w.cfg.name = some w.cfg ∧ w.phase ≠ .closed) := by
  simp only [updateAll, addLoopNew_eq] at hw
  rcases addLoop_mem _ _ _ _ _ hw with h1 | ⟨c, hc, he, _⟩
  · exact Or.inl (List.mem_filter.mp h1)
  · subst he
    obtain ⟨c0, hc0, rfl⟩ := List.mem_map.mp hc
    refine Or.inr ⟨start_mk_id _ _ _, ?_, start_mk_phase _ _ _⟩
    rw [start_mk_cfg, sel_name]
    exact sel_spec hc0

/-- the removed / changed wrapper objects are gone from the map (stamps of new ones are fresh) -/
theorem update_changed_gone (m : Mgr) (cfgs : List Cfg) (now : Nat) (h : Inv m) (w : W)
    (hw : w ∈ m.proxies) (hk : keeps cfgs w = false) : w ∉ (updateAll m cfgs now).1.proxies := by
  intro hmem
  rcases update_new_wrappers m cfgs now w hmem with ⟨_, hk'⟩ | ⟨hid, _, _⟩
  · rw [hk] at hk'; cases hk'
  · have := (h.2 w hw).2
    omega

/-- "converge to exactly those of the last loaded configuration": after a reload every running
    wrapper carries exactly the configured entry of its name — for EVERY configuration list -/
theorem update_running_cfgs (m : Mgr) (cfgs : List Cfg) (now : Nat) (w : W)
    (hw : w ∈ (updateAll m cfgs now).1.proxies) : lookupLast cfgs w.cfg.name = some w.cfg := by
  rcases update_new_wrappers m cfgs now w hw with ⟨_, hk⟩ | ⟨_, hl, _⟩
  · simpa [keeps] using hk
  · exact hl

/-- FULL STATEMENT "reloading the configuration that is already loaded changes nothing": no
    message, no wrapper stopped, the very same wrapper objects — for every manager state and every
    configuration list, duplicate names included -/
def ReloadIdempotentFull (upd : Mgr → List Cfg → Nat → Mgr × List W × List (Nat × Msg)) : Prop :=
  ∀ (m : Mgr) (cfgs : List Cfg) (now now' : Nat),
    (upd (upd m cfgs now).1 cfgs now').2.2 = [] ∧
    (upd (upd m cfgs now).1 cfgs now').2.1 = [] ∧
    (upd (upd m cfgs now).1 cfgs now').1.proxies = (upd m cfgs now).1.proxies

/-- the reload BEFORE fix eab68f8 violated it for a name configured twice with different
    contents: the second, identical reload stops and re-registers the proxy -/
theorem reload_dup_witness :
    (updateAllOld (updateAllOld Reconcile.init [⟨1, 0, false, false⟩, ⟨1, 1, false, false⟩] 0).1
        [⟨1, 0, false, false⟩, ⟨1, 1, false, false⟩] 10).2.2
      = [(1, .closeProxy), (1, .newProxy)] := by decide

theorem not_ReloadIdempotentFull_old : ¬ ReloadIdempotentFull updateAllOld := by
  intro h
  have := (h Reconcile.init [⟨1, 0, false, false⟩, ⟨1, 1, false, false⟩] 0 10).1
  rw [reload_dup_witness] at this
  cases this

/-- …and what ran was the FIRST entry although the diff compared with the LAST -/
theorem reload_dup_runs_first :
    ((updateAllOld Reconcile.init [⟨1, 0, false, false⟩, ⟨1, 1, false, false⟩] 0).1.proxies.map (·.cfg.variant))
      = [0] := by decide

/-- the same witness on the reload as it is now: the LAST entry runs and the identical reload is silent -/
theorem reload_dup_fixed_witness :
    ((updateAll Reconcile.init [⟨1, 0, false, false⟩, ⟨1, 1, false, false⟩] 0).1.proxies.map (·.cfg.variant)) = [1] ∧
    (updateAll (updateAll Reconcile.init [⟨1, 0, false, false⟩, ⟨1, 1, false, false⟩] 0).1
        [⟨1, 0, false, false⟩, ⟨1, 1, false, false⟩] 10).2.2 = [] := by decide

/-- THE FULL STATEMENT holds for the reload as it is now -/
theorem reload_idempotent : ReloadIdempotentFull updateAll := by
  intro m cfgs now now'
  have hall : ∀ w ∈ (updateAll m cfgs now).1.proxies, keeps cfgs w = true := by
    intro w hw
    simp [keeps, update_running_cfgs m cfgs now w hw]
  have hf : (updateAll m cfgs now).1.proxies.filter (keeps cfgs) = (updateAll m cfgs now).1.proxies :=
    List.filter_eq_self.mpr hall
  have hg : (updateAll m cfgs now).1.proxies.filter (fun w => !keeps cfgs w) = [] := by
    rw [List.filter_eq_nil_iff]
    intro w hw
    simp [hall w hw]
  have hno : addLoop (updateAll m cfgs now).1.nextId now' (updateAll m cfgs now).1.proxies (cfgs.map (sel cfgs))
      = ((updateAll m cfgs now).1.proxies, []) := by
    apply addLoop_noop
    intro c hcm
    obtain ⟨c0, hc0, rfl⟩ := List.mem_map.mp hcm
    rw [sel_name]
    exact (update_names m cfgs now c0.name).mpr ⟨c0, hc0, rfl⟩
  generalize hm1 : (updateAll m cfgs now).1 = m1 at *
  simp only [updateAll, addLoopNew_eq, hf, hg, hno, stopEvents, stopAll]
  simp

/-- the wrapper-level events delivered through the manager keep the invariant (the manager never
    delivers `stop` this way: Stop is only called by the two loops above) -/
theorem inv_deliver (m : Mgr) (n : Nat) (e : Event) (he : e ≠ .stop) (h : Inv m)
    (m' : Mgr) (ms : List Msg) (r : Res) (hd : deliver m n e = some (m', ms, r)) : Inv m' := by
  unfold deliver at hd
  split at hd
  · cases hd
  · rename_i w hf
    simp only [Option.some.injEq, Prod.mk.injEq] at hd
    obtain ⟨rfl, _, _⟩ := hd
    have hwn : w.cfg.name = n := by simpa using List.find?_some hf
    have hwm : w ∈ m.proxies := List.mem_of_find?_eq_some hf
    have hcfg : (step w e).1.cfg = w.cfg ∧ (step w e).1.id = w.id ∧ (step w e).1.phase ≠ .closed := by
      have hp := (h.2 w hwm).1
      obtain ⟨cfg, id, phase, health, ls, le⟩ := w
      cases e <;> crunch []
    obtain ⟨hnd, hall⟩ := h
    constructor
    · unfold NamesNodup
      simp only
      rw [List.pairwise_map]
      refine List.Pairwise.imp ?_ hnd
      intro a b hab
      by_cases ha : a.cfg.name = n <;> by_cases hb : b.cfg.name = n <;> simp [ha, hb, hcfg.1, hwn] <;>
        first | exact hab | (intro hx; apply hab; omega) | omega
    · intro x hx
      simp only [List.mem_map] at hx
      obtain ⟨y, hy, rfl⟩ := hx
      by_cases hyn : y.cfg.name = n
      · simp only [hyn, beq_self_eq_true, if_true]
        exact ⟨hcfg.2.2, by rw [hcfg.2.1]; exact (hall w hwm).2⟩
      · have : (y.cfg.name == n) = false := by simpa using hyn
        simp only [this]
        exact hall y hy

/-! ### the stored configuration is immutable

    `pw.Cfg` is the very object `UpdateAll` was given; the `UpdateAll` of a later reload compares it
    (`reflect.DeepEqual`) with a FRESHLY LOADED one.  The clause "unchanged entries keep running
    without re-registration" therefore needs that nothing in a wrapper's life writes into that
    object — not NewWrapper, not the monitor, not the proxy or its plugin, not a reply, not a health
    callback.  On the model: no event other than a reload changes `cfg` (or the object stamp), for
    every history; hence a reload of the loaded list is silent after ANY history of the wrappers,
    not only immediately after the load (`reload_idempotent`). -/

theorem nodup_same_name {ws : List W} (h : NamesNodup ws) {a b : W} (ha : a ∈ ws) (hb : b ∈ ws)
    (hn : a.cfg.name = b.cfg.name) : a = b := by
  induction ws with
  | nil => cases ha
  | cons c cs ih =>
    have hp := List.pairwise_cons.mp h
    rcases List.mem_cons.mp ha with rfl | ha' <;> rcases List.mem_cons.mp hb with rfl | hb'
    · rfl
    · exact absurd hn (hp.1 b hb')
    · exact absurd hn.symm (hp.1 a ha')
    · exact ih hp.2 ha' hb'

/-- no event of a wrapper's life changes the configuration it was created with, nor its identity -/
theorem step_cfg (w : W) (e : Event) : (step w e).1.cfg = w.cfg ∧ (step w e).1.id = w.id := by
  obtain ⟨cfg, id, phase, health, ls, le⟩ := w
  cases e <;> crunch []

theorem run_cfg (es : List Event) : ∀ (w : W), (run w es).1.cfg = w.cfg ∧ (run w es).1.id = w.id := by
  induction es with
  | nil => intro w; exact ⟨rfl, rfl⟩
  | cons e es ih =>
    intro w
    have h1 := step_cfg w e
    have h2 := ih (step w e).1
    simp only [run]
    exact ⟨h2.1.trans h1.1, h2.2.trans h1.2⟩

/-- (configuration, object stamp) of every wrapper in the map -/
def stored (m : Mgr) : List (Cfg × Nat) := m.proxies.map (fun w => (w.cfg, w.id))

/-- an event delivered through the manager (StartProxy, HandleWorkConn, a worker iteration, a
    monitor callback — under whichever name) leaves every stored configuration and every wrapper
    object in place -/
theorem deliver_stored (m : Mgr) (n : Nat) (e : Event) (h : Inv m)
    (m' : Mgr) (ms : List Msg) (r : Res) (hd : deliver m n e = some (m', ms, r)) : stored m' = stored m := by
  unfold deliver at hd
  split at hd
  · cases hd
  · rename_i w hf
    simp only [Option.some.injEq, Prod.mk.injEq] at hd
    obtain ⟨rfl, _, _⟩ := hd
    have hwn : w.cfg.name = n := by simpa using List.find?_some hf
    have hwm : w ∈ m.proxies := List.mem_of_find?_eq_some hf
    simp only [stored, List.map_map]
    apply List.map_congr_left
    intro x hx
    by_cases hxn : x.cfg.name = n
    · have hxw : x = w := nodup_same_name h.1 hx hwm (hxn.trans hwn.symm)
      subst hxw
      simp [Function.comp, hxn, (step_cfg x e).1, (step_cfg x e).2]
    · have : (x.cfg.name == n) = false := by simpa using hxn
      simp [Function.comp, this]

/-- a history between two reloads: events delivered under names (an event for a name that is not
    in the map is dropped, as StartProxy / HandleWorkConn do) -/
def deliverAll (m : Mgr) : List (Nat × Event) → Mgr
  | [] => m
  | (n, e) :: rest =>
    match deliver m n e with
    | some (m', _, _) => deliverAll m' rest
    | none => deliverAll m rest

/-- NO EVENT OTHER THAN A RELOAD CHANGES A STORED CONFIGURATION — for every history (the manager
    never delivers `stop` this way: Stop is only called by UpdateAll and Close) -/
theorem stored_immutable (es : List (Nat × Event)) : ∀ (m : Mgr), Inv m → (∀ x ∈ es, x.2 ≠ .stop) →
    stored (deliverAll m es) = stored m ∧ Inv (deliverAll m es) := by
  induction es with
  | nil => intro m h _; exact ⟨rfl, h⟩
  | cons x es ih =>
    intro m h hes
    obtain ⟨n, e⟩ := x
    have he : e ≠ .stop := hes (n, e) List.mem_cons_self
    have hrest : ∀ x ∈ es, x.2 ≠ .stop := fun x hx => hes x (List.mem_cons_of_mem _ hx)
    simp only [deliverAll]
    split
    · rename_i m' ms r hd
      have h' := inv_deliver m n e he h m' ms r hd
      have := ih m' h' hrest
      exact ⟨this.1.trans (deliver_stored m n e h m' ms r hd), this.2⟩
    · exact ih m h hrest

theorem stored_mem {m : Mgr} {w : W} (hw : w ∈ m.proxies) : (w.cfg, w.id) ∈ stored m :=
  List.mem_map.mpr ⟨w, hw, rfl⟩

theorem hasName_of_stored {m1 m2 : Mgr} (h : stored m1 = stored m2) (n : Nat) :
    hasName m1.proxies n = hasName m2.proxies n := by
  have h1 : ∀ m : Mgr, hasName m.proxies n = (stored m).any (fun p => p.1.name == n) := by
    intro m
    simp only [hasName, stored, List.any_map]
    rfl
  rw [h1, h1, h]

/-- "CONVERGE TO EXACTLY THOSE OF THE LAST LOADED CONFIGURATION", at every later moment: after a
    reload of `cfgs` and any history of events, every wrapper in the map carries exactly the
    configured entry of its name -/
theorem running_cfgs_history (m : Mgr) (cfgs : List Cfg) (now : Nat) (h : Inv m) (es : List (Nat × Event))
    (hes : ∀ x ∈ es, x.2 ≠ .stop) (w : W) (hw : w ∈ (deliverAll (updateAll m cfgs now).1 es).proxies) :
    lookupLast cfgs w.cfg.name = some w.cfg := by
  have hs := (stored_immutable es _ (inv_updateAll m cfgs now h) hes).1
  have hm := stored_mem hw
  rw [hs] at hm
  obtain ⟨w0, hw0, he⟩ := List.mem_map.mp hm
  have hc : w0.cfg = w.cfg := congrArg Prod.fst he
  rw [← hc]
  exact update_running_cfgs m cfgs now w0 hw0

/-- RELOADING THE LOADED CONFIGURATION IS SILENT AFTER ANY HISTORY: whatever the wrappers have gone
    through since the load (registrations, replies, errors, health changes, work connections), the
    same list loaded again sends nothing, stops nothing and keeps every wrapper object -/
theorem reload_silent_after_history (m : Mgr) (cfgs : List Cfg) (now now' : Nat) (h : Inv m)
    (es : List (Nat × Event)) (hes : ∀ x ∈ es, x.2 ≠ .stop) :
    (updateAll (deliverAll (updateAll m cfgs now).1 es) cfgs now').2.2 = [] ∧
    (updateAll (deliverAll (updateAll m cfgs now).1 es) cfgs now').2.1 = [] ∧
    (updateAll (deliverAll (updateAll m cfgs now).1 es) cfgs now').1.proxies =
      (deliverAll (updateAll m cfgs now).1 es).proxies := by
  have hs := (stored_immutable es _ (inv_updateAll m cfgs now h) hes).1
  have hall : ∀ w ∈ (deliverAll (updateAll m cfgs now).1 es).proxies, keeps cfgs w = true := by
    intro w hw
    simp [keeps, running_cfgs_history m cfgs now h es hes w hw]
  generalize hm1 : deliverAll (updateAll m cfgs now).1 es = m1 at *
  have hf : m1.proxies.filter (keeps cfgs) = m1.proxies := List.filter_eq_self.mpr hall
  have hg : m1.proxies.filter (fun w => !keeps cfgs w) = [] := by
    rw [List.filter_eq_nil_iff]
    intro w hw
    simp [hall w hw]
  have hno : addLoop m1.nextId now' m1.proxies (cfgs.map (sel cfgs)) = (m1.proxies, []) := by
    apply addLoop_noop
    intro c hcm
    obtain ⟨c0, hc0, rfl⟩ := List.mem_map.mp hcm
    rw [sel_name, hasName_of_stored hs]
    exact (update_names m cfgs now c0.name).mpr ⟨c0, hc0, rfl⟩
  simp only [updateAll, addLoopNew_eq, hf, hg, hno, stopEvents, stopAll]
  simp

example : Consistent [⟨1, 0, false, false⟩, ⟨2, 3, true, false⟩, ⟨1, 0, false, false⟩] := by decide
example : ¬ Consistent [⟨1, 0, false, false⟩, ⟨1, 1, false, false⟩] := by decide
example : Inv (updateAll (updateAll Reconcile.init [⟨1, 0, false, false⟩, ⟨2, 3, true, false⟩] 0).1
    [⟨2, 3, true, false⟩, ⟨1, 5, false, false⟩, ⟨3, 0, false, false⟩] 5).1 :=
  inv_updateAll _ _ _ (inv_updateAll _ _ _ inv_init)
example : (updateAll (updateAll Reconcile.init [⟨1, 0, false, false⟩, ⟨2, 3, true, false⟩] 0).1
    [⟨2, 3, true, false⟩, ⟨1, 5, false, false⟩, ⟨3, 0, false, false⟩] 5).2.2 =
    [(1, .closeProxy), (1, .newProxy), (3, .newProxy)] := by decide

end R

/-! # Part K — goroutines and `pw.mu`: all interleavings -/
section K
open Wrapper WrapperConc

/-- REFINEMENT, for EVERY schedule (label list) of the worker goroutine, any number of `Stop` and
    `SetRunningStatus` callers and monitor callbacks: the atomic machine of Part W, run over the
    events in the order in which their critical sections were entered (`lin`), reaches exactly the
    state the lock holder will leave behind (`fin`), and has emitted exactly the messages that are on
    the wire plus those the lock holder has decided to send but not handed over yet. -/
theorem conc_refines (w0 : W) (ls : List Label) : Ref w0 (exec (WrapperConc.init w0) ls) :=
  ref_exec w0 ls _ (ref_init w0)

/-- nobody inside a critical section and the worker not between its health load and its Lock() -/
def Quiescent (s : S) : Prop := s.hold = .free ∧ ∀ now h, s.wpc ≠ .loaded now h

/-- at every quiescent point of every schedule the wrapper and the wire are those of a SEQUENTIAL
    run of the atomic machine -/
theorem conc_quiescent_atomic (w0 : W) (ls : List Label)
    (hq : Quiescent (exec (WrapperConc.init w0) ls)) :
    (run w0 (exec (WrapperConc.init w0) ls).lin).1 = (exec (WrapperConc.init w0) ls).w ∧
    (run w0 (exec (WrapperConc.init w0) ls).lin).2.1 = (exec (WrapperConc.init w0) ls).wire := by
  have h := conc_refines w0 ls
  generalize exec (WrapperConc.init w0) ls = s at h hq
  obtain ⟨hf, hn⟩ := hq
  have hlq : hl s = s.w.health := by
    simp only [hl]
  refine ⟨?_, ?_⟩
  · rw [h.st, hlq]; simp [fin, hf]
  · rw [h.ms]; simp [fin, hf]

/-- mutual exclusion as the model has it: while any goroutine is inside its critical section — e.g.
    the worker between its phase write and the hand-over of NewProxy — `Stop`, `SetRunningStatus`
    and the worker's `Lock()` do not return -/
theorem conc_lock_excludes (s : S) (h : s.hold ≠ .free) :
    sstep s .stopLock = s ∧ (∀ now e, sstep s (.respLock now e) = s) ∧ sstep s .wLock = s := by
  refine ⟨?_, ?_, ?_⟩
  · simp only [sstep, sstepG]
  · intro now e; simp only [sstep, sstepG]
  · simp only [sstep, sstepG]
    split
    · contradiction
    · rfl

/-- "A stopped proxy sends no further registration", in WIRE ORDER and for ALL interleavings: from
    the moment Stop has written `Phase = closed` (which is before its own CloseProxy goes out),
    whatever any goroutine does afterwards, the status stays closed and nothing but CloseProxy is
    ever appended to the wire -/
theorem conc_no_newProxy_after_stop (w0 : W) (ls ls' : List Label)
    (hc : (exec (WrapperConc.init w0) ls).w.phase = .closed) :
    (exec (WrapperConc.init w0) (ls ++ ls')).w.phase = .closed ∧
    ∃ extra, (exec (WrapperConc.init w0) (ls ++ ls')).wire = (exec (WrapperConc.init w0) ls).wire ++ extra ∧
      Msg.newProxy ∉ extra := by
  rw [exec_append]
  obtain ⟨h1, extra, h2, h3⟩ := closed_exec ls' _ (sendInv_exec ls _ (sendInv_init w0)) hc
  refine ⟨h1, extra, h2, ?_⟩
  intro hm
  have := h3 _ hm
  cases this

theorem lastOf_append (p : Option Msg) (a b : List Msg) : lastOf (lastOf p a) b = lastOf p (a ++ b) := by
  unfold lastOf
  cases b with
  | nil => simp
  | cons x xs =>
    rw [List.getLast?_append]
    cases h : (x :: xs).getLast? <;> simp_all

theorem lastRun_eq (es : List Event) : ∀ (w : W) (p : Option Msg),
    lastRun p w es = lastOf p (run w es).2.1 := by
  induction es with
  | nil => intro w p; simp [lastRun, run, lastOf]
  | cons e es ih =>
    intro w p
    simp only [lastRun, run]
    rw [ih, lastOf_append]

/-- status and the server's view are in step at every quiescent point of every schedule: the LAST
    message on the wire is NewProxy iff the status is waiting/running, CloseProxy iff it is
    check-failed/closed -/
theorem conc_sync (c : Cfg) (id : Nat) (ls : List Label)
    (hq : Quiescent (exec (WrapperConc.init (mk c id)) ls)) :
    Sync (exec (WrapperConc.init (mk c id)) ls).w (lastOf none (exec (WrapperConc.init (mk c id)) ls).wire) := by
  obtain ⟨h1, h2⟩ := conc_quiescent_atomic (mk c id) ls hq
  have := sync_run c id (exec (WrapperConc.init (mk c id)) ls).lin
  rw [lastRun_eq, h1, h2] at this
  exact this

/-- the schedule of the `race` op: the worker decides to register, a reload calls Stop while the
    message is being handed over, Stop has to wait, the wire order is NewProxy, CloseProxy -/
def raceSchedule : List Label :=
  [.wWake 0, .wLock, .hold, .stopLock, .hold, .stopLock, .hold, .stopLock, .hold, .hold, .hold, .wLate]

theorem race_schedule_wire :
    (exec (WrapperConc.init (mk ⟨1, 0, false, false⟩ 1)) raceSchedule).wire = [.newProxy, .closeProxy] ∧
    (exec (WrapperConc.init (mk ⟨1, 0, false, false⟩ 1)) raceSchedule).lin = [.tick 0, .stop] ∧
    (exec (WrapperConc.init (mk ⟨1, 0, false, false⟩ 1)) raceSchedule).w.phase = .closed := by decide

/-- the theorems above discriminate: in the variant that releases the mutex between the phase write
    and the hand-over (`early`; NOT the code) the same schedule puts NewProxy on the wire AFTER the
    CloseProxy of Stop — the server keeps a proxy the client has closed -/
theorem earlyUnlock_witness :
    (execG true (WrapperConc.init (mk ⟨1, 0, false, false⟩ 1)) raceSchedule).wire = [.closeProxy, .newProxy] ∧
    (execG true (WrapperConc.init (mk ⟨1, 0, false, false⟩ 1)) raceSchedule).w.phase = .closed := by decide

/-- …so the "no registration after Stop" statement is false for that variant -/
theorem earlyUnlock_not_quiet :
    ¬ (∀ (w0 : W) (ls ls' : List Label), (execG true (WrapperConc.init w0) ls).w.phase = .closed →
        ∃ extra, (execG true (WrapperConc.init w0) (ls ++ ls')).wire =
          (execG true (WrapperConc.init w0) ls).wire ++ extra ∧ Msg.newProxy ∉ extra) := by
  intro h
  obtain ⟨extra, h1, h2⟩ := h (mk ⟨1, 0, false, false⟩ 1) (raceSchedule.take 9) (raceSchedule.drop 9) (by decide)
  have e1 : (execG true (WrapperConc.init (mk ⟨1, 0, false, false⟩ 1)) (raceSchedule.take 9 ++ raceSchedule.drop 9)).wire
      = [.closeProxy, .newProxy] := by decide
  have e2 : (execG true (WrapperConc.init (mk ⟨1, 0, false, false⟩ 1)) (raceSchedule.take 9)).wire = [.closeProxy] := by
    decide
  rw [e1, e2] at h1
  have : extra = [.newProxy] := by simpa using h1.symm
  subst this
  exact h2 (by simp)

end K

/-! # Executable predicates (run by the driver on the implementation's answers) -/
section Exec
open Wrapper Reconcile
open Health (Cb HState)

/-- CloseProxy messages the property prescribes for name `n` on a reload -/
def expectC (old : List W) (cfgs : List Cfg) (n : Nat) : Nat :=
  if old.any (fun w => w.cfg.name == n && !keeps cfgs w) then 1 else 0

/-- NewProxy messages the property prescribes for name `n` on a reload (the configured entry of a
    name is `lookupLast`; a health-gated proxy is not registered at start) -/
def expectN (old : List W) (cfgs : List Cfg) (n : Nat) : Nat :=
  if hasName (old.filter (keeps cfgs)) n then 0 else startCount (lookupLast cfgs n)

def UpdHolds (old : List W) (cfgs : List Cfg) (evs : List (Nat × Msg)) : Prop :=
  ∀ n, evs.count (n, Msg.closeProxy) = expectC old cfgs n ∧ evs.count (n, Msg.newProxy) = expectN old cfgs n

/-- the names a reload can concern -/
def updNames (old : List W) (cfgs : List Cfg) (evs : List (Nat × Msg)) : List Nat :=
  evs.map (·.1) ++ old.map (·.cfg.name) ++ cfgs.map (·.name)

def updHoldsOnEv (old : List W) (cfgs : List Cfg) (evs : List (Nat × Msg)) : Bool :=
  (updNames old cfgs evs).all (fun n =>
    evs.count (n, Msg.closeProxy) == expectC old cfgs n && evs.count (n, Msg.newProxy) == expectN old cfgs n)

theorem updHoldsOn_of_UpdHolds (old : List W) (cfgs : List Cfg) (evs : List (Nat × Msg))
    (h : UpdHolds old cfgs evs) : updHoldsOnEv old cfgs evs = true := by
  simp only [updHoldsOnEv, List.all_eq_true, Bool.and_eq_true, beq_iff_eq]
  intro n _
  exact h n

/-- the model's reload satisfies the predicate for every reachable manager and EVERY
    configuration list (so the predicate cannot raise a false alarm on conforming behaviour) -/
theorem model_UpdHolds (m : Mgr) (cfgs : List Cfg) (now : Nat) (h : Inv m) :
    UpdHolds m.proxies cfgs (updateAll m cfgs now).2.2 := by
  intro n
  exact ⟨update_close_count m cfgs now h n, update_new_count m cfgs now n⟩

def parseEv (s : String) : Option (Nat × Msg) :=
  match s.toList with
  | 'N' :: r => (String.ofList r).toNat?.map (fun n => (n, Msg.newProxy))
  | 'C' :: r => (String.ofList r).toNat?.map (fun n => (n, Msg.closeProxy))
  | _ => none

/-- predicate on the implementation's event list of an `upd` op (unparsable ⇒ false) -/
def updHoldsOn (old : List W) (cfgs : List Cfg) (evs : List String) : Bool :=
  match evs.mapM parseEv with
  | some es => updHoldsOnEv old cfgs es
  | none => false

/-- what the harness reads off the real manager with `status`: per wrapper its name and the code of the
    configuration object it holds (decoded against a pristine load of the text it came from: a code no
    list contains if anything has written into the object) -/
def statusObs (m : Mgr) : List (Nat × Nat) := m.proxies.map (fun w => (w.cfg.name, w.cfg.variant))

/-- the clause "the running proxies are exactly those of the last loaded configuration, each with
    the configured entry of its name", `cfgs` being the last loaded list -/
def statusHoldsOn (cfgs : List Cfg) (obs : List (Nat × Nat)) : Bool :=
  obs.all (fun p => (lookupLast cfgs p.1).map (·.variant) == some p.2) &&
  cfgs.all (fun c => obs.any (fun p => p.1 == c.name))

/-- the model's own status satisfies it after a reload and EVERY history of wrapper events -/
theorem model_statusHolds (m : Mgr) (cfgs : List Cfg) (now : Nat) (h : Inv m) (es : List (Nat × Event))
    (hes : ∀ x ∈ es, x.2 ≠ .stop) :
    statusHoldsOn cfgs (statusObs (deliverAll (updateAll m cfgs now).1 es)) = true := by
  have hs := (stored_immutable es _ (inv_updateAll m cfgs now h) hes).1
  simp only [statusHoldsOn, statusObs, Bool.and_eq_true, List.all_eq_true, List.any_eq_true, List.mem_map]
  constructor
  · rintro p ⟨w, hw, rfl⟩
    simp [running_cfgs_history m cfgs now h es hes w hw]
  · intro c hc
    have hn : hasName (deliverAll (updateAll m cfgs now).1 es).proxies c.name = true := by
      rw [hasName_of_stored hs]
      exact (update_names m cfgs now c.name).mpr ⟨c, hc, rfl⟩
    obtain ⟨w, hw, hwn⟩ := (hasName_iff _ _).mp hn
    exact ⟨(w.cfg.name, w.cfg.variant), ⟨w, hw, rfl⟩, by simp [hwn]⟩

/-- a result of an operation on a STOPPED wrapper is acceptable iff nothing was registered and
    no work connection was accepted -/
def stoppedQuiet (impl : String) : Bool :=
  !(impl.toList.contains 'N') && impl != "handed" && !impl.startsWith "ok"

/-! ### predicates for overlapping operations (op `race`) -/

/-- by name: the status reported after the operations and the LAST message of that name on the wire
    are in step — `Sync` read on the implementation's answer (`none` = no proxy of that name is
    configured any more; `start error` is reached both after a refusal, last message NewProxy, and
    after a local Run() failure, last message CloseProxy) -/
def raceSyncOK (seq : List Msg) (ph : Option Phase) : Bool :=
  match seq.getLast?, ph with
  | none, _ => true
  | some m, some .waitStart => m == .newProxy
  | some m, some .running => m == .newProxy
  | some _, some .startErr => true
  | some m, _ => m == .closeProxy

/-- `Sync` (proved for every schedule: `conc_sync`) implies the executable predicate -/
theorem raceSyncOK_of_Sync (w : W) (seq : List Msg) (h : Sync w (lastOf none seq)) :
    raceSyncOK seq (some w.phase) = true := by
  obtain ⟨h1, h2, h3⟩ := h
  unfold lastOf at h1 h2 h3
  unfold raceSyncOK
  cases hl : seq.getLast? <;> cases hp : w.phase <;> simp_all

/-- the wrapper whose registration was held in the transporter is closed at the end ⇒ a CloseProxy
    follows that registration on the wire (messages: kind, held?) -/
def raceStopOK (seq : List (Msg × Bool)) (aClosed : Bool) : Bool :=
  !aClosed ||
    match seq.dropWhile (fun m => !m.2) with
    | (.newProxy, _) :: rest => rest.any (fun m => m.1 == .closeProxy)
    | _ => true

/-- a wire that ends with CloseProxy — which `conc_sync` gives for every schedule that ends with the
    wrapper closed — passes it -/
theorem raceStopOK_of_last (seq : List (Msg × Bool)) (b : Bool)
    (h : (seq.map (·.1)).getLast? = some .closeProxy) : raceStopOK seq b = true := by
  unfold raceStopOK
  cases b
  · rfl
  · simp only [Bool.not_true, Bool.false_or]
    induction seq with
    | nil => simp [List.dropWhile]
    | cons m rest ih =>
      cases hr : rest with
      | nil =>
        subst hr
        obtain ⟨k, st⟩ := m
        simp at h
        subst h
        cases st <;> simp [List.dropWhile]
      | cons r rs =>
        have hlast : (rest.map (·.1)).getLast? = some .closeProxy := by
          rw [hr] at h ⊢
          simpa [List.getLast?_cons_cons] using h
        have ih' := ih hlast
        obtain ⟨k, st⟩ := m
        cases st
        · simpa [List.dropWhile, hr] using ih'
        · cases k
          · simp only [List.dropWhile, Bool.not_true]
            have hm : Msg.closeProxy ∈ rest.map (·.1) := List.mem_of_getLast? hlast
            obtain ⟨x, hx, hk⟩ := List.mem_map.mp hm
            rw [← hr]
            exact List.any_eq_true.mpr ⟨x, hx, by simp [hk]⟩
          · simp [List.dropWhile]

def cbChar : Option Cb → String
  | none => "." | some .normal => "N" | some .failed => "F"

def renderCbs (l : List (Option Cb)) : String := String.join (l.map cbChar)

/-- predicate on the callbacks the real monitor fired for a probe history -/
def healthHoldsOn (m : Nat) (hist : List Bool) (impl : String) : Bool :=
  impl == renderCbs (specCbs m hist)

theorem healthHoldsOn_sound (m : Nat) (hist : List Bool) (impl : String) :
    healthHoldsOn m hist impl = true ↔ impl = renderCbs (specCbs m hist) := by
  simp [healthHoldsOn]

/-- the repaired machine always passes the health predicate -/
theorem fixed_healthHoldsOn {m : Nat} (hm : 1 ≤ m) (hist : List Bool) :
    healthHoldsOn m hist (renderCbs (HealthFixed.run m hist).2) = true := by
  rw [healthHoldsOn_sound, fixed_run_eq_spec hm]

end Exec

end C19
end Frp
