import Frp.Lemmas.ProxyMsg
import Frp.Model.Validate
import Frp.Lemmas.ConfStr
import Frp.Lemmas.ConfNum
/-
  C18 — A proxy definition means the same in every format and on both ends.

  Part A (regenerated tie): the marshal/unmarshal tables of `Frp/Gen/ProxyMsg.lean` are re-extracted
  from pkg/config/v1/proxy.go on every run; the theorems below are about *those* tables, for every
  configuration record.
-/
namespace Frp
namespace C18
open Gen.ProxyMsg ProxyMsg ConfNum Str

/-! ## A. what the server reconstructs = what the client loaded -/

/-- hand-written expectation: the configuration fields the server acts on, per proxy type
    (server/proxy/*.go, server/control.go, server/group/*). -/
def baseFields : List CF :=
  [.cName, .cType, .cTransport_UseEncryption, .cTransport_UseCompression, .cTransport_BandwidthLimit,
   .cTransport_BandwidthLimitMode, .cLoadBalancer_Group, .cLoadBalancer_GroupKey, .cMetadatas, .cAnnotations]

def serverFields : PT → List CF
  | .tcp => baseFields ++ [.cRemotePort]
  | .udp => baseFields ++ [.cRemotePort]
  | .http => baseFields ++ [.cCustomDomains, .cSubDomain, .cLocations, .cHTTPUser, .cHTTPPassword,
      .cHostHeaderRewrite, .cRequestHeaders_Set, .cResponseHeaders_Set, .cRouteByHTTPUser]
  | .https => baseFields ++ [.cCustomDomains, .cSubDomain]
  | .tcpmux => baseFields ++ [.cCustomDomains, .cSubDomain, .cMultiplexer, .cHTTPUser, .cHTTPPassword,
      .cRouteByHTTPUser]
  | .stcp => baseFields ++ [.cSecretkey, .cAllowUsers]
  | .xtcp => baseFields ++ [.cSecretkey, .cAllowUsers]
  | .sudp => baseFields ++ [.cSecretkey, .cAllowUsers]

def clientB : Str := [99, 108, 105, 101, 110, 116]          -- "client"
def tcpB : Str := [116, 99, 112]                             -- "tcp"
def localhostB : Str := [49, 50, 55, 46, 48, 46, 48, 46, 49] -- "127.0.0.1"

/-- The two stated normalisations (everything else is carried unchanged):
    * bandwidth limit travels as text: the server holds `NewBandwidthQuantity(q.String())`
      (zero when the text is empty) — equal to `q` for every quantity that was itself parsed from
      text, see `bw_reparse`;
    * bandwidth limit mode: "" means "client" (`Complete` on the server side). -/
def norm (p : CF) (v : Value) : Value :=
  if p = .cTransport_BandwidthLimit then
    (if asStr (bwString v) = [] then .zero else bwParse (bwString v))
  else if p = .cTransport_BandwidthLimitMode then
    (if asStr v = [] then .str clientB else v)
  else v

/-- which pairing of transformations is acceptable for a field -/
def kindOK (p : CF) (mx : MX) (ux : UX) : Bool :=
  if p = .cTransport_BandwidthLimit then
    mx = .callString && (ux = .parseBandwidthIfNonEmpty || ux = .parseBandwidth)
  else if p = .cTransport_BandwidthLimitMode then mx = .copyUnlessEq clientB && ux = .copyIfNonEmpty
  else if p = .cLocalIP then false
  else mx = .copy && ux = .copy

/-- field `p` is marshalled into some message field that is unmarshalled back into `p` -/
def fieldOK (t : PT) (p : CF) : Bool :=
  (marshalTable t).any fun em => (unmarshalTable t).any fun eu =>
    em.cfg = p && eu.cfg = p && em.msg = eu.msg && kindOK p em.x eu.x

/-- facts about the regenerated tables of type `t`, decided over the whole table -/
def TableOK (t : PT) : Prop :=
  (marshalTable t).Pairwise (fun a b => a.msg ≠ b.msg) ∧          -- no message field written twice
  (unmarshalTable t).Pairwise (fun a b => a.cfg ≠ b.cfg) ∧        -- no config field assigned twice
  (⟨.mProxyType, .cType, .copy⟩ : MEntry) ∈ marshalTable t ∧      -- the type string is sent
  ∀ p ∈ serverFields t, fieldOK t p = true                        -- no server-relevant field dropped

instance (t : PT) : Decidable (TableOK t) := by unfold TableOK; infer_instance

/-- every regenerated table passes the check -/
theorem tables_ok : ∀ t : PT, TableOK t := by
  intro t; cases t <;> decide

/-- nothing is sent that the server ignores, and the server reads nothing that was not sent -/
def Covered (t : PT) : Prop :=
  (∀ em ∈ marshalTable t, ∃ eu ∈ unmarshalTable t, eu.msg = em.msg) ∧
  (∀ eu ∈ unmarshalTable t, ∃ em ∈ marshalTable t, em.msg = eu.msg)

instance (t : PT) : Decidable (Covered t) := by unfold Covered; infer_instance

theorem tables_covered : ∀ t : PT, Covered t := by
  intro t; cases t <;> decide

/-- the marshal tables write exactly the expected configuration fields (no more, no fewer) -/
theorem marshal_fields_exact : ∀ t : PT,
    (∀ e ∈ marshalTable t, e.cfg ∈ serverFields t) ∧ (marshalTable t).length = (serverFields t).length := by
  intro t; cases t <;> decide

/-- the reconstruction has the expected statement sequence (default type "tcp", new-by-type,
    unmarshal, Complete(""), validate) and `NewProxyConfigurerByType` stores the type string -/
theorem recon_shape :
    reconSteps = [.defaultType tcpB, .newByType, .unknownTypeErr, .unmarshal, .completeNoPrefix,
                  .validateForServer, .ret] ∧ newByTypeSetsType = true := by decide

/-- the registry of proxy types is the expected one -/
theorem types_exact : PT.all.map PT.bytes =
    [[116, 99, 112], [117, 100, 112], [104, 116, 116, 112], [104, 116, 116, 112, 115],
     [116, 99, 112, 109, 117, 120], [115, 116, 99, 112], [120, 116, 99, 112], [115, 117, 100, 112]] := by
  decide

theorem typeOfStr_bytes (t : PT) : typeOfStr t.bytes = some t := by cases t <;> decide
theorem bytes_ne_nil (t : PT) : t.bytes ≠ [] := by cases t <;> decide

/-- what `Complete("")` does to each field, read off the regenerated steps -/
def completeNorm (p : CF) (v : Value) : Value :=
  if p = .cLocalIP then (if asStr v = [] then .str localhostB else v)
  else if p = .cTransport_BandwidthLimitMode then (if asStr v = [] then .str clientB else v)
  else v

theorem complete_get (c : Rec CF) (p : CF) : (complete [] c).get p = completeNorm p (c.get p) := by
  simp only [complete, completeSteps, List.foldl, applyComplete, completeNorm, localhostB, clientB]
  by_cases h1 : p = .cLocalIP
  · subst h1
    by_cases a : asStr (c.get .cLocalIP) = [] <;>
      by_cases b : asStr (c.get .cTransport_BandwidthLimitMode) = [] <;> simp [a, b, Rec.get_set]
  · by_cases h2 : p = .cTransport_BandwidthLimitMode
    · subst h2
      by_cases a : asStr (c.get .cLocalIP) = [] <;>
        by_cases b : asStr (c.get .cTransport_BandwidthLimitMode) = [] <;> simp [a, b, Rec.get_set]
    · by_cases a : asStr (c.get .cLocalIP) = [] <;>
        by_cases b : asStr (c.get .cTransport_BandwidthLimitMode) = [] <;>
        simp [a, b, h1, h2, Rec.get_set]

/-- parsing the empty text leaves the zero quantity (so an unguarded parse is equivalent) -/
theorem bwParse_of_empty {v : Value} (h : asStr v = []) : bwParse v = .zero := by
  simp only [bwParse, h]; rfl

theorem zeroCfg_get (t : PT) (p : CF) (h : p ≠ .cType) : (zeroCfg t).get p = .zero := by
  simp only [zeroCfg]
  split
  · rw [Rec.get_set]; simp [h, Rec.get_empty]
  · rfl

theorem fieldOK_spec {t : PT} {p : CF} (h : fieldOK t p = true) :
    ∃ em ∈ marshalTable t, ∃ eu ∈ unmarshalTable t,
      em.cfg = p ∧ eu.cfg = p ∧ em.msg = eu.msg ∧ kindOK p em.x eu.x = true := by
  simp only [fieldOK, List.any_eq_true, Bool.and_eq_true, decide_eq_true_eq] at h
  obtain ⟨em, hem, eu, heu, ⟨⟨⟨h1, h2⟩, h3⟩, h4⟩⟩ := h
  exact ⟨em, hem, eu, heu, h1, h2, h3, h4⟩

/-- **Main theorem (all eight types).**  For every client configuration record `c` of type `t`
    (its Type field holds the type string), the server-side reconstruction of the marshalled
    message succeeds with type `t`, and on every field the server acts on it holds the client's
    value up to the two stated normalisations. -/
def RoundTrip (t : PT) (c : Rec CF) : Prop :=
  ∃ c', serverRecon (marshal (marshalTable t) c) = some (t, c') ∧
    ∀ p ∈ serverFields t, c'.get p = norm p (c.get p)

theorem roundtrip (t : PT) (c : Rec CF) (hT : c.get .cType = .str t.bytes) : RoundTrip t c := by
  unfold RoundTrip
  obtain ⟨hM, hU, hTy, hF⟩ := tables_ok t
  -- the type string arrives
  have hmt : (marshal (marshalTable t) c).get .mProxyType = .str t.bytes := by
    have := marshal_get _ c _ hM hTy
    simpa [viaMsg, hT] using this
  have hts : (if asStr ((marshal (marshalTable t) c).get .mProxyType) = [] then defaultTypeStr
      else asStr ((marshal (marshalTable t) c).get .mProxyType)) = t.bytes := by
    rw [hmt]; simp [asStr, bytes_ne_nil t]
  refine ⟨complete [] (unmarshal (unmarshalTable t)
    ((marshal (marshalTable t) c).set .mProxyType (.str t.bytes)) (zeroCfg t)), ?_, ?_⟩
  · simp only [serverRecon]
    rw [hts, typeOfStr_bytes]
  · intro p hp
    -- the message the unmarshaller sees has the same content
    have hcongr : ∀ k, ((marshal (marshalTable t) c).set .mProxyType (.str t.bytes)).get k =
        (marshal (marshalTable t) c).get k := by
      intro k; rw [Rec.get_set]; split
      · next h => rw [h, hmt]
      · rfl
    rw [complete_get, unmarshal_congr _ _ _ _ hcongr]
    obtain ⟨em, hem, eu, heu, h1, h2, h3, h4⟩ := fieldOK_spec (hF p hp)
    have hu := unmarshal_get _ (marshal (marshalTable t) c) (zeroCfg t) eu hU heu
    rw [h2, ← h3, marshal_get _ c em hM hem, h1] at hu
    rw [hu]
    simp only [kindOK] at h4
    by_cases hb : p = .cTransport_BandwidthLimit
    · subst hb
      simp only [if_true, Bool.and_eq_true, Bool.or_eq_true, decide_eq_true_eq] at h4
      rw [h4.1]
      rcases h4.2 with h5 | h5 <;> rw [h5]
      · simp [viaMsg, intoCfg, norm, completeNorm, zeroCfg_get]
      · simp only [viaMsg, intoCfg, norm, completeNorm]
        by_cases he : asStr (bwString (c.get .cTransport_BandwidthLimit)) = []
        · simp [he, bwParse_of_empty he]
        · simp [he]
    · by_cases hm : p = .cTransport_BandwidthLimitMode
      · subst hm
        simp at h4
        rw [h4.1, h4.2]
        have hz := zeroCfg_get t .cTransport_BandwidthLimitMode (by decide)
        simp only [viaMsg, intoCfg, norm, completeNorm, hz]
        by_cases hc : asStr (c.get .cTransport_BandwidthLimitMode) = clientB
        · have := asStr_ne_nil hc (by decide)
          rw [this]; simp [asStr_str, asStr_zero, clientB]
        · by_cases he : asStr (c.get .cTransport_BandwidthLimitMode) = []
          · have hne : clientB ≠ [] := by decide
            simp [he, hne, asStr_zero]
          · simp [hc, he]
      · by_cases hl : p = .cLocalIP
        · subst hl; simp at h4
        · simp only [hb, hm, hl, if_false, Bool.and_eq_true, decide_eq_true_eq] at h4
          rw [h4.1, h4.2]
          simp [viaMsg, intoCfg, norm, completeNorm, hb, hm, hl]

/-- the eight instances, one per proxy type -/
theorem roundtrip_tcp (c : Rec CF) (h : c.get .cType = .str PT.tcp.bytes) : RoundTrip .tcp c := roundtrip .tcp c h
theorem roundtrip_udp (c : Rec CF) (h : c.get .cType = .str PT.udp.bytes) : RoundTrip .udp c := roundtrip .udp c h
theorem roundtrip_http (c : Rec CF) (h : c.get .cType = .str PT.http.bytes) : RoundTrip .http c := roundtrip .http c h
theorem roundtrip_https (c : Rec CF) (h : c.get .cType = .str PT.https.bytes) : RoundTrip .https c := roundtrip .https c h
theorem roundtrip_tcpmux (c : Rec CF) (h : c.get .cType = .str PT.tcpmux.bytes) : RoundTrip .tcpmux c := roundtrip .tcpmux c h
theorem roundtrip_stcp (c : Rec CF) (h : c.get .cType = .str PT.stcp.bytes) : RoundTrip .stcp c := roundtrip .stcp c h
theorem roundtrip_xtcp (c : Rec CF) (h : c.get .cType = .str PT.xtcp.bytes) : RoundTrip .xtcp c := roundtrip .xtcp c h
theorem roundtrip_sudp (c : Rec CF) (h : c.get .cType = .str PT.sudp.bytes) : RoundTrip .sudp c := roundtrip .sudp c h

/-- the normalisations are the identity on completed, text-born values:
    any mode other than "" is kept … -/
theorem norm_mode_id (v : Value) (h : asStr v ≠ []) : norm .cTransport_BandwidthLimitMode v = v := by
  simp [norm, h]

/-- … and every field other than the two named ones is carried unchanged -/
theorem norm_other_id (p : CF) (v : Value) (h1 : p ≠ .cTransport_BandwidthLimit)
    (h2 : p ≠ .cTransport_BandwidthLimitMode) : norm p v = v := by
  simp [norm, h1, h2]

/-- the executable predicate the driver evaluates on the implementation's own reconstruction
    (values compared up to the spelling of zero values) -/
def rtHoldsOn (t : PT) (c implC : Rec CF) : Bool :=
  (serverFields t).all fun p => decide ((implC.get p).canon = (norm p (c.get p)).canon)

theorem rtHoldsOn_sound (t : PT) (c i : Rec CF) :
    rtHoldsOn t c i = true ↔ ∀ p ∈ serverFields t, (i.get p).canon = (norm p (c.get p)).canon := by
  simp [rtHoldsOn]

/-- the model's own reconstruction satisfies the predicate (so a `prop=FAILS` verdict can only
    come from the implementation) -/
theorem model_rtHoldsOn (t : PT) (c : Rec CF) (hT : c.get .cType = .str t.bytes) :
    ∃ c', serverRecon (marshal (marshalTable t) c) = some (t, c') ∧ rtHoldsOn t c c' = true := by
  obtain ⟨c', h1, h2⟩ := roundtrip t c hT
  exact ⟨c', h1, (rtHoldsOn_sound t c c').mpr (fun p hp => by rw [h2 p hp])⟩

/-! ## B. accepted by validation ⇒ documented constraints -/
open Validate

/-- ports in range -/
theorem validatePort_iff (p : Int) : validatePort p = true ↔ 0 ≤ p ∧ p ≤ 65535 := by
  simp [validatePort]

/-- predicate for the driver: a port the implementation accepted is in range -/
def portHoldsOn (p : Int) (accepted : Bool) : Bool := !accepted || (decide (0 ≤ p) && decide (p ≤ 65535))

/-- an accepted subdomain needs a subdomain host and contains neither '.' nor '*' -/
theorem subdomain_ok (host : Str) (ds : List Str) (sub : Str)
    (h : validateDomainForServer host ds sub = none) (hs : sub ≠ []) :
    host ≠ [] ∧ dot ∉ sub ∧ star ∉ sub := by
  simp only [validateDomainForServer] at h
  split at h
  · cases h
  · split at h
    · cases h
    · next hh =>
      split at h
      · cases h
      · next hc =>
        simp only [Bool.or_eq_true, List.contains_iff_mem, not_or] at hc
        exact ⟨hh, hc.1, hc.2⟩

/-- the documented constraint, at full strength: an accepted configuration has no custom domain
    inside the server's subdomain space, **whatever its letter case** (routing lower-cases). -/
def DomainsOutsideFull : Prop :=
  ∀ (host : Str) (ds : List Str) (sub : Str), validateDomainForServer host ds sub = none →
    ∀ d ∈ ds, underSubDomainHost host d = false

def exampleCom : Str := [101, 120, 97, 109, 112, 108, 101, 46, 99, 111, 109]            -- example.com
def evilUpper : Str := [101, 118, 105, 108, 46, 69, 88, 65, 77, 80, 76, 69, 46, 99, 111, 109]  -- evil.EXAMPLE.com

/-- the code as it is violates it: `evil.EXAMPLE.com` is accepted under subDomainHost
    `example.com`, and routing treats it as `evil.example.com` -/
theorem domain_witness :
    validateDomainForServer exampleCom [evilUpper] [] = none ∧
    underSubDomainHost exampleCom evilUpper = true := by decide

theorem domain_full_fails : ¬ DomainsOutsideFull := by
  intro h
  have := h exampleCom [evilUpper] [] (by decide) evilUpper (by simp)
  exact absurd this (by decide)

theorem under_spec {host d : Str} (h : underSubDomainHost host d = true) :
    host ≠ [] ∧ ∃ p, toLower d = p ++ dot :: toLower host := by
  simp only [underSubDomainHost, Bool.and_eq_true, decide_eq_true_eq, List.isSuffixOf_iff_suffix] at h
  obtain ⟨hh, p, hp⟩ := h
  exact ⟨by simpa using hh, p, hp.symm⟩

theorem toLower_ne_nil {s : Str} (h : s ≠ []) : toLower s ≠ [] := by
  cases s <;> simp_all [toLower]

/-- what holds of the code as it is: the constraint for names and subdomain host written in
    lower case (the excluded case is exactly the witness above). -/
theorem domain_outside_partial (host : Str) (ds : List Str) (sub : Str)
    (hacc : validateDomainForServer host ds sub = none)
    (d : Str) (hd : d ∈ ds) (hl : toLower d = d) (hh : toLower host = host) :
    underSubDomainHost host d = false := by
  cases hu : underSubDomainHost host d with
  | false => rfl
  | true =>
    obtain ⟨hne, p, hp⟩ := under_spec hu
    rw [hl, hh] at hp
    have hb : domainBelongs host d = true := hp ▸ belongs_of_suffix host p hne
    have : ds.any (domainBelongs host) = true := List.any_eq_true.mpr ⟨d, hd, hb⟩
    simp [validateDomainForServer, this] at hacc

/-- the repaired check (both sides lower-cased) satisfies the constraint at full strength -/
theorem domain_outside_fixed (host : Str) (ds : List Str) (sub : Str)
    (hacc : validateDomainForServerFixed host ds sub = none) (d : Str) (hd : d ∈ ds) :
    underSubDomainHost host d = false := by
  cases hu : underSubDomainHost host d with
  | false => rfl
  | true =>
    obtain ⟨hne, p, hp⟩ := under_spec hu
    have hb : domainBelongsFixed host d = true := by
      simp only [domainBelongsFixed]; rw [hp]; exact belongs_of_suffix _ p (toLower_ne_nil hne)
    have : ds.any (domainBelongsFixed host) = true := List.any_eq_true.mpr ⟨d, hd, hb⟩
    simp [validateDomainForServerFixed, this] at hacc

/-- the statement about whichever check the tree is declared to implement
    (`Validate.domainCheckIsFixed`).  While the flag is `false` this is vacuous and the operative
    theorems are `domain_witness` / `domain_outside_partial`; after the repair has been committed,
    flip the flag: the engine then replays the repaired model and this theorem is the full clause. -/
theorem domain_outside_current (hfix : domainCheckIsFixed = true) (host : Str) (ds : List Str) (sub : Str)
    (hacc : validateDomainCurrent host ds sub = none) (d : Str) (hd : d ∈ ds) :
    underSubDomainHost host d = false := by
  simp only [validateDomainCurrent, hfix, if_true] at hacc
  exact domain_outside_fixed host ds sub hacc d hd

/-- the repaired check rejects the witness -/
example : validateDomainForServerFixed exampleCom [evilUpper] [] = some .belongs := by decide
/-- non-vacuity: lower-case domains outside the host are accepted, inside are rejected -/
example : validateDomainForServer exampleCom [[97, 46, 111, 114, 103]] [] = none := by decide
example : validateDomainForServer exampleCom [[97, 46] ++ exampleCom] [] = some .belongs := by decide

/-- the property predicate the driver evaluates on the implementation's own verdict:
    "accepted ⇒ every custom domain is outside the subdomain space" -/
def domainHoldsOn (host : Str) (ds : List Str) (accepted : Bool) : Bool :=
  !accepted || ds.all (fun d => !underSubDomainHost host d)

theorem domainHoldsOn_sound (host : Str) (ds : List Str) (accepted : Bool) :
    domainHoldsOn host ds accepted = true ↔
      (accepted = true → ∀ d ∈ ds, underSubDomainHost host d = false) := by
  cases accepted <;> simp [domainHoldsOn]

/-! ## C. textual quantities round-trip -/

/-- a range as `NewPortsRangeSliceFromString` produces them and `String` prints them back:
    either a positive single port, or `start ≤ end` with non-negative bounds -/
def WFRange (r : PortsRange) : Prop :=
  (0 < r.single ∧ r.single < 2 ^ 63 ∧ r.start = 0 ∧ r.stop = 0) ∨
  (r.single = 0 ∧ 0 ≤ r.start ∧ r.start ≤ r.stop ∧ r.stop < 2 ^ 63)

instance (r : PortsRange) : Decidable (WFRange r) := by unfold WFRange; infer_instance

/-- predicate for the driver: the string the implementation printed parses back to the slice -/
def printHoldsOn (rs : List PortsRange) (out : Str) : Bool :=
  if rs ≠ [] ∧ ∀ r ∈ rs, WFRange r then decide (parseRanges out = some rs) else true

/-- predicate for the driver on the composite String-then-parse: `back` is what the
    implementation returned (none = error or a different slice) -/
def rtRangesHoldsOn (rs : List PortsRange) (back : Option (List PortsRange)) : Bool :=
  if rs ≠ [] ∧ ∀ r ∈ rs, WFRange r then decide (back = some rs) else true

/-- predicate for the driver: the reported textual form re-parses to the reported quantity -/
def bwHoldsOn (s : Str) (b : Int) : Bool :=
  match parseBW s with
  | .ok s' b' => s' = s && b' = b
  | .empty => s = [] && b = 0
  | .unsupported => true
  | .err => false

/-- one printed well-formed range parses back to itself -/
theorem parseRange_printRange (r : PortsRange) (h : WFRange r) : parseRange (printRange r) = some r := by
  obtain ⟨s, e, n⟩ := r
  rcases h with ⟨h1, h2, h3, h4⟩ | ⟨h1, h2, h3, h4⟩
  · simp only at h1 h2 h3 h4
    subst h3; subst h4
    have hn : (n.toNat : Int) = n := Int.toNat_of_nonneg (by omega)
    have hdash : dash ∉ printNat n.toNat := fun hm => (digit_facts (printNat_digits _ _ hm)).2.1 rfl
    simp only [printRange, h1, if_true]
    rw [printInt_nonneg _ (by omega)]
    simp only [parseRange, splitOn_of_not_mem dash _ hdash]
    rw [parseInt_trim_printNat _ (by omega), hn]; rfl
  · simp only at h1 h2 h3 h4
    subst h1
    have hs : (s.toNat : Int) = s := Int.toNat_of_nonneg h2
    have he : (e.toNat : Int) = e := Int.toNat_of_nonneg (by omega)
    have hd1 : dash ∉ printNat s.toNat := fun hm => (digit_facts (printNat_digits _ _ hm)).2.1 rfl
    have hd2 : dash ∉ printNat e.toNat := fun hm => (digit_facts (printNat_digits _ _ hm)).2.1 rfl
    simp only [printRange, Int.lt_irrefl, if_false]
    rw [printInt_nonneg _ h2, printInt_nonneg _ (by omega)]
    simp only [parseRange, splitOn_append dash _ _ hd1, splitOn_of_not_mem dash _ hd2]
    rw [parseInt_trim_printNat _ (by omega), parseInt_trim_printNat _ (by omega), hs, he]
    simp [Int.not_lt.mpr h3]

theorem wf_nonneg {r : PortsRange} (h : WFRange r) : 0 ≤ r.single ∧ 0 ≤ r.start ∧ 0 ≤ r.stop := by
  rcases h with ⟨h1, _, h3, h4⟩ | ⟨h1, h2, h3, _⟩ <;> omega

theorem split_join (rs : List PortsRange) (hne : rs ≠ []) (hwf : ∀ r ∈ rs, WFRange r) :
    splitOn comma (joinWith comma (rs.map printRange)) = rs.map printRange := by
  induction rs with
  | nil => exact absurd rfl hne
  | cons r rest ih =>
    have hr := wf_nonneg (hwf r (List.mem_cons_self ..))
    have hc : comma ∉ printRange r := fun hm => (printRange_chars r hr.1 hr.2.1 hr.2.2 _ hm).1 rfl
    cases rest with
    | nil => simp only [List.map, joinWith]; exact splitOn_of_not_mem comma _ hc
    | cons r2 rest2 =>
      have := ih (by simp) (fun x hx => hwf x (List.mem_cons_of_mem _ hx))
      simp only [List.map, joinWith] at this ⊢
      rw [splitOn_append comma _ _ hc, this]

theorem parseAll_map (rs : List PortsRange) (hwf : ∀ r ∈ rs, WFRange r) :
    parseAll (rs.map printRange) = some rs := by
  induction rs with
  | nil => rfl
  | cons r rest ih =>
    simp only [List.map, parseAll, parseRange_printRange r (hwf r (List.mem_cons_self ..))]
    rw [ih (fun x hx => hwf x (List.mem_cons_of_mem _ hx))]; rfl

theorem join_no_space (rs : List PortsRange) (hwf : ∀ r ∈ rs, WFRange r) :
    ∀ c ∈ joinWith comma (rs.map printRange), isSpace c = false := by
  induction rs with
  | nil => intro c hc; simp [joinWith] at hc
  | cons r rest ih =>
    have hr := wf_nonneg (hwf r (List.mem_cons_self ..))
    have h1 := printRange_chars r hr.1 hr.2.1 hr.2.2
    cases rest with
    | nil => intro c hc; simp only [List.map, joinWith] at hc; exact (h1 c hc).2
    | cons r2 rest2 =>
      intro c hc
      have ih' := ih (fun x hx => hwf x (List.mem_cons_of_mem _ hx))
      simp only [List.map, joinWith] at hc ih'
      rcases List.mem_append.mp hc with h | h
      · exact (h1 c h).2
      · rcases List.mem_cons.mp h with h | h
        · subst h; simp [comma, isSpace]
        · exact ih' c h

/-- **Port ranges round-trip through their textual form**: for every non-empty slice of
    well-formed ranges, `NewPortsRangeSliceFromString(p.String()) = p`.
    (The empty slice prints as "" which the parser rejects — stated, not hidden; callers guard it.) -/
theorem ports_roundtrip (rs : List PortsRange) (hne : rs ≠ []) (hwf : ∀ r ∈ rs, WFRange r) :
    parseRanges (printRanges rs) = some rs := by
  rw [parseRanges, printRanges, trim_of_no_space _ (join_no_space rs hwf), split_join rs hne hwf,
    parseAll_map rs hwf]

/-- the model's own round trip satisfies the composite predicate -/
theorem model_rtRangesHoldsOn (rs : List PortsRange) :
    rtRangesHoldsOn rs (parseRanges (printRanges rs)) = true := by
  simp only [rtRangesHoldsOn]
  split
  · next h => simp [ports_roundtrip rs h.1 h.2]
  · rfl

theorem ports_empty_not_roundtrip : parseRanges (printRanges []) = none := by decide

theorem printHoldsOn_sound (rs : List PortsRange) (out : Str) :
    printHoldsOn rs out = true ↔ (rs ≠ [] → (∀ r ∈ rs, WFRange r) → parseRanges out = some rs) := by
  simp only [printHoldsOn]
  split
  · next h => simp only [decide_eq_true_eq]; exact ⟨fun x _ _ => x, fun x => x h.1 h.2⟩
  · next h => simp only [true_iff]; intro a b; exact absurd ⟨a, b⟩ h

/-- the model's own printing satisfies the predicate -/
theorem model_printHoldsOn (rs : List PortsRange) : printHoldsOn rs (printRanges rs) = true :=
  (printHoldsOn_sound rs _).mpr (ports_roundtrip rs)

/-! ### bandwidth quantities -/

theorem trim_idem (s : Str) : trim (trim s) = trim s := by
  -- trim s = trimRight (trimLeft s); its head (if any) is the head of trimLeft s, not a space
  have key : ∀ t : Str, (∀ c, t.head? = some c → isSpace c = false) →
      trimLeft (trimRight t) = trimRight t ∧ trimRight (trimRight t) = trimRight t := by
    intro t ht
    constructor
    · apply dropWhile_self_of_head
      intro c hc
      -- trimRight t is a prefix of t
      have hpre : trimRight t <+: t := by
        have : (t.reverse.dropWhile isSpace) <:+ t.reverse := List.dropWhile_suffix _
        simpa [trimRight] using List.reverse_prefix.mpr this
      obtain ⟨u, hu⟩ := hpre
      cases htr : trimRight t with
      | nil => rw [htr] at hc; simp at hc
      | cons a as =>
        rw [htr] at hc hu
        simp at hc; subst hc
        exact ht a (by rw [← hu]; rfl)
    · simp only [trimRight, List.reverse_reverse, dropWhile_idem]
  have h := key (trimLeft s) (head_dropWhile s)
  simp only [trim]
  rw [h.1, h.2]

theorem bwNumber_ok {f : Str} {base : Nat} {s s' : Str} {b : Int}
    (h : bwNumber f base s = .ok s' b) : s' = s := by
  unfold bwNumber at h
  repeat' split at h
  all_goals first | (cases h; rfl) | cases h

theorem parseBWTrimmed_ok {s s' : Str} {b : Int} (h : parseBWTrimmed s = .ok s' b) : s' = s := by
  unfold parseBWTrimmed at h
  repeat' split at h
  all_goals first | exact bwNumber_ok h | cases h

/-- **Bandwidth literals round-trip**: the textual form kept by a parsed quantity re-parses to the
    same quantity, `NewBandwidthQuantity(q.String()) = q` for every `q` born from text. -/
theorem bw_reparse (s s' : Str) (b : Int) (h : parseBW s = .ok s' b) : parseBW s' = .ok s' b := by
  have hs' : s' = trim s := parseBWTrimmed_ok h
  rw [hs'] at h ⊢
  simp only [parseBW, trim_idem] at h ⊢
  exact h

theorem bwHoldsOn_sound (s : Str) (b : Int) (hs : parseBW s ≠ .unsupported) :
    bwHoldsOn s b = true ↔ (parseBW s = .ok s b ∨ (parseBW s = .empty ∧ s = [] ∧ b = 0)) := by
  simp only [bwHoldsOn]
  cases h : parseBW s with
  | ok s' b' => simp
  | empty => simp
  | err => simp
  | unsupported => exact absurd h hs

/-- the normalisation on the bandwidth field is the identity on every quantity born from text -/
theorem norm_bw_id (s s' : Str) (b : Int) (h : parseBW s = .ok s' b) (hne : s' ≠ []) :
    norm .cTransport_BandwidthLimit (.bw s' b) = .bw s' b := by
  simp [norm, bwString, hne, bwParse, bw_reparse s s' b h]

/-! ### number-range pairs (template function) -/

/-- `parseNumberRangePair` zips the two enumerations position by position and refuses
    enumerations of different length -/
theorem pair_spec (a b : Str) (xs ys : List Int)
    (ha : parseRangeNumbers a = some xs) (hb : parseRangeNumbers b = some ys) :
    (xs.length = ys.length → ∃ ps, parseNumberRangePair a b = some ps ∧
        ps.map (·.1) = xs ∧ ps.map (·.2) = ys) ∧
    (xs.length ≠ ys.length → parseNumberRangePair a b = none) := by
  simp only [parseNumberRangePair, ha, hb]
  constructor
  · intro hl
    refine ⟨xs.zip ys, by simp [hl], ?_, ?_⟩
    · exact List.map_fst_zip (by omega)
    · exact List.map_snd_zip (by omega)
  · intro hl; simp [hl]

/-- `ParseRangeNumbers` on one printed span `lo-hi` enumerates exactly lo, lo+1, …, hi -/
theorem numbersPiece_span (lo hi : Nat) (h : lo ≤ hi) (hh : hi < 2 ^ 63) :
    parseNumbersPiece (printNat lo ++ dash :: printNat hi) =
      some ((List.range (hi - lo + 1)).map (fun (k : Nat) => (lo : Int) + (k : Int))) := by
  have hd1 : dash ∉ printNat lo := fun hm => (digit_facts (printNat_digits _ _ hm)).2.1 rfl
  have hd2 : dash ∉ printNat hi := fun hm => (digit_facts (printNat_digits _ _ hm)).2.1 rfl
  simp only [parseNumbersPiece, splitOn_append dash _ _ hd1, splitOn_of_not_mem dash _ hd2]
  rw [parseInt_trim_printNat _ (by omega), parseInt_trim_printNat _ hh]
  have : ¬ ((hi : Int) < (lo : Int)) := by omega
  have h2 : ((hi : Int) - (lo : Int) + 1).toNat = hi - lo + 1 := by omega
  simp [this, h2]

/-- … and a single printed number to itself -/
theorem numbersPiece_single (n : Nat) (hh : n < 2 ^ 63) : parseNumbersPiece (printNat n) = some [(n : Int)] := by
  have hd : dash ∉ printNat n := fun hm => (digit_facts (printNat_digits _ _ hm)).2.1 rfl
  simp only [parseNumbersPiece, splitOn_of_not_mem dash _ hd]
  rw [parseInt_trim_printNat _ hh]; rfl

/-- non-vacuity -/
example : parseRanges (Str.ofString "1000-2000,3000, 4000-5000") =
    some [⟨1000, 2000, 0⟩, ⟨0, 0, 3000⟩, ⟨4000, 5000, 0⟩] := by decide +kernel
example : parseRangeNumbers (Str.ofString "6000-6002,7000") = some [6000, 6001, 6002, 7000] := by decide +kernel
example : parseBW (Str.ofString " 1.5MB ") = .ok (Str.ofString "1.5MB") 1572864 := by decide +kernel
example : parseNumberRangePair (Str.ofString "1-2") (Str.ofString "8,9") = some [(1, 8), (2, 9)] := by decide +kernel

end C18
end Frp
