import Frp.Lemmas.ProxyMsg
import Frp.Model.Validate
import Frp.Lemmas.ConfStr
import Frp.Lemmas.ConfNum
import Frp.Model.Flags
import Frp.Lemmas.TypedConf
import Frp.Lemmas.StrictLoad
/-
  C18 — A proxy definition means the same in every format and on both ends.

  Part A (regenerated tie): the marshal/unmarshal tables of `Frp/Gen/ProxyMsg.lean` are re-extracted
  from pkg/config/v1/proxy.go on every run; the theorems below are about *those* tables, for every
  configuration record.
-/
namespace Frp
namespace C18
open Gen.ProxyMsg ProxyMsg ConfNum Str

/-! ## A. what the server reconstructs = what the client loaded -/

/-- hand-written expectation: the configuration fields the server acts on, per proxy type
    (server/proxy/*.go, server/control.go, server/group/*). -/
def baseFields : List CF :=
  [.cName, .cType, .cTransport_UseEncryption, .cTransport_UseCompression, .cTransport_BandwidthLimit,
   .cTransport_BandwidthLimitMode, .cLoadBalancer_Group, .cLoadBalancer_GroupKey, .cMetadatas, .cAnnotations]

def serverFields : PT → List CF
  | .tcp => baseFields ++ [.cRemotePort]
  | .udp => baseFields ++ [.cRemotePort]
  | .http => baseFields ++ [.cCustomDomains, .cSubDomain, .cLocations, .cHTTPUser, .cHTTPPassword,
      .cHostHeaderRewrite, .cRequestHeaders_Set, .cResponseHeaders_Set, .cRouteByHTTPUser]
  | .https => baseFields ++ [.cCustomDomains, .cSubDomain]
  | .tcpmux => baseFields ++ [.cCustomDomains, .cSubDomain, .cMultiplexer, .cHTTPUser, .cHTTPPassword,
      .cRouteByHTTPUser]
  | .stcp => baseFields ++ [.cSecretkey, .cAllowUsers]
  | .xtcp => baseFields ++ [.cSecretkey, .cAllowUsers]
  | .sudp => baseFields ++ [.cSecretkey, .cAllowUsers]

def clientB : Str := [99, 108, 105, 101, 110, 116]          -- "client"
def tcpB : Str := [116, 99, 112]                             -- "tcp"
def localhostB : Str := [49, 50, 55, 46, 48, 46, 48, 46, 49] -- "127.0.0.1"

/-- The two stated normalisations (everything else is carried unchanged):
    * bandwidth limit travels as text: the server holds `NewBandwidthQuantity(q.String())`
      (zero when the text is empty) — equal to `q` for every quantity that was itself parsed from
      text, see `bw_reparse`;
    * bandwidth limit mode: "" means "client" (`Complete` on the server side). -/
def norm (p : CF) (v : Value) : Value :=
  if p = .cTransport_BandwidthLimit then
    (if asStr (bwString v) = [] then .zero else bwParse (bwString v))
  else if p = .cTransport_BandwidthLimitMode then
    (if asStr v = [] then .str clientB else v)
  else v

/-- which pairing of transformations is acceptable for a field -/
def kindOK (p : CF) (mx : MX) (ux : UX) : Bool :=
  if p = .cTransport_BandwidthLimit then
    mx = .callString && (ux = .parseBandwidthIfNonEmpty || ux = .parseBandwidth)
  else if p = .cTransport_BandwidthLimitMode then mx = .copyUnlessEq clientB && ux = .copyIfNonEmpty
  else if p = .cLocalIP then false
  else mx = .copy && ux = .copy

/-- field `p` is marshalled into some message field that is unmarshalled back into `p` -/
def fieldOK (t : PT) (p : CF) : Bool :=
  (marshalTable t).any fun em => (unmarshalTable t).any fun eu =>
    em.cfg = p && eu.cfg = p && em.msg = eu.msg && kindOK p em.x eu.x

/-- facts about the regenerated tables of type `t`, decided over the whole table -/
def TableOK (t : PT) : Prop :=
  (marshalTable t).Pairwise (fun a b => a.msg ≠ b.msg) ∧          -- no message field written twice
  (unmarshalTable t).Pairwise (fun a b => a.cfg ≠ b.cfg) ∧        -- no config field assigned twice
  (⟨.mProxyType, .cType, .copy⟩ : MEntry) ∈ marshalTable t ∧      -- the type string is sent
  ∀ p ∈ serverFields t, fieldOK t p = true                        -- no server-relevant field dropped

instance (t : PT) : Decidable (TableOK t) := by unfold TableOK; infer_instance

/-- every regenerated table passes the check -/
theorem tables_ok : ∀ t : PT, TableOK t := by
  intro t; cases t <;> decide

/-- nothing is sent that the server ignores, and the server reads nothing that was not sent -/
def Covered (t : PT) : Prop :=
  (∀ em ∈ marshalTable t, ∃ eu ∈ unmarshalTable t, eu.msg = em.msg) ∧
  (∀ eu ∈ unmarshalTable t, ∃ em ∈ marshalTable t, em.msg = eu.msg)

instance (t : PT) : Decidable (Covered t) := by unfold Covered; infer_instance

theorem tables_covered : ∀ t : PT, Covered t := by
  intro t; cases t <;> decide

/-- the marshal tables write exactly the expected configuration fields (no more, no fewer) -/
theorem marshal_fields_exact : ∀ t : PT,
    (∀ e ∈ marshalTable t, e.cfg ∈ serverFields t) ∧ (marshalTable t).length = (serverFields t).length := by
  intro t; cases t <;> decide

/-- the reconstruction has the expected statement sequence (default type "tcp", new-by-type,
    unmarshal, Complete(""), validate) and `NewProxyConfigurerByType` stores the type string -/
theorem recon_shape :
    reconSteps = [.defaultType tcpB, .newByType, .unknownTypeErr, .unmarshal, .completeNoPrefix,
                  .validateForServer, .ret] ∧ newByTypeSetsType = true := by decide

/-- the registry of proxy types is the expected one -/
theorem types_exact : PT.all.map PT.bytes =
    [[116, 99, 112], [117, 100, 112], [104, 116, 116, 112], [104, 116, 116, 112, 115],
     [116, 99, 112, 109, 117, 120], [115, 116, 99, 112], [120, 116, 99, 112], [115, 117, 100, 112]] := by
  decide

theorem typeOfStr_bytes (t : PT) : typeOfStr t.bytes = some t := by cases t <;> decide
theorem bytes_ne_nil (t : PT) : t.bytes ≠ [] := by cases t <;> decide

/-- what `Complete("")` does to each field, read off the regenerated steps -/
def completeNorm (p : CF) (v : Value) : Value :=
  if p = .cLocalIP then (if asStr v = [] then .str localhostB else v)
  else if p = .cTransport_BandwidthLimitMode then (if asStr v = [] then .str clientB else v)
  else v

theorem complete_get (c : Rec CF) (p : CF) : (complete [] c).get p = completeNorm p (c.get p) := by
  simp only [complete, completeSteps, List.foldl, applyComplete, completeNorm, localhostB, clientB]
  by_cases h1 : p = .cLocalIP
  · subst h1
    by_cases a : asStr (c.get .cLocalIP) = [] <;>
      by_cases b : asStr (c.get .cTransport_BandwidthLimitMode) = [] <;> simp [a, b, Rec.get_set]
  · by_cases h2 : p = .cTransport_BandwidthLimitMode
    · subst h2
      by_cases a : asStr (c.get .cLocalIP) = [] <;>
        by_cases b : asStr (c.get .cTransport_BandwidthLimitMode) = [] <;> simp [a, b, Rec.get_set]
    · by_cases a : asStr (c.get .cLocalIP) = [] <;>
        by_cases b : asStr (c.get .cTransport_BandwidthLimitMode) = [] <;>
        simp [a, b, h1, h2, Rec.get_set]

/-- parsing the empty text leaves the zero quantity (so an unguarded parse is equivalent) -/
theorem bwParse_of_empty {v : Value} (h : asStr v = []) : bwParse v = .zero := by
  simp only [bwParse, h]; rfl

theorem zeroCfg_get (t : PT) (p : CF) (h : p ≠ .cType) : (zeroCfg t).get p = .zero := by
  simp only [zeroCfg]
  split
  · rw [Rec.get_set]; simp [h, Rec.get_empty]
  · rfl

theorem fieldOK_spec {t : PT} {p : CF} (h : fieldOK t p = true) :
    ∃ em ∈ marshalTable t, ∃ eu ∈ unmarshalTable t,
      em.cfg = p ∧ eu.cfg = p ∧ em.msg = eu.msg ∧ kindOK p em.x eu.x = true := by
  simp only [fieldOK, List.any_eq_true, Bool.and_eq_true, decide_eq_true_eq] at h
  obtain ⟨em, hem, eu, heu, ⟨⟨⟨h1, h2⟩, h3⟩, h4⟩⟩ := h
  exact ⟨em, hem, eu, heu, h1, h2, h3, h4⟩

/-- **Main theorem (all eight types).**  For every client configuration record `c` of type `t`
    (its Type field holds the type string), the server-side reconstruction of the marshalled
    message succeeds with type `t`, and on every field the server acts on it holds the client's
    value up to the two stated normalisations. -/
def RoundTrip (t : PT) (c : Rec CF) : Prop :=
  ∃ c', serverRecon (marshal (marshalTable t) c) = some (t, c') ∧
    ∀ p ∈ serverFields t, c'.get p = norm p (c.get p)

theorem roundtrip (t : PT) (c : Rec CF) (hT : c.get .cType = .str t.bytes) : RoundTrip t c := by
  unfold RoundTrip
  obtain ⟨hM, hU, hTy, hF⟩ := tables_ok t
  -- the type string arrives
  have hmt : (marshal (marshalTable t) c).get .mProxyType = .str t.bytes := by
    have := marshal_get _ c _ hM hTy
    simpa [viaMsg, hT] using this
  have hts : (if asStr ((marshal (marshalTable t) c).get .mProxyType) = [] then defaultTypeStr
      else asStr ((marshal (marshalTable t) c).get .mProxyType)) = t.bytes := by
    rw [hmt]; simp [asStr, bytes_ne_nil t]
  refine ⟨complete [] (unmarshal (unmarshalTable t)
    ((marshal (marshalTable t) c).set .mProxyType (.str t.bytes)) (zeroCfg t)), ?_, ?_⟩
  · simp only [serverRecon]
    rw [hts, typeOfStr_bytes]
  · intro p hp
    -- the message the unmarshaller sees has the same content
    have hcongr : ∀ k, ((marshal (marshalTable t) c).set .mProxyType (.str t.bytes)).get k =
        (marshal (marshalTable t) c).get k := by
      intro k; rw [Rec.get_set]; split
      · next h => rw [h, hmt]
      · rfl
    rw [complete_get, unmarshal_congr _ _ _ _ hcongr]
    obtain ⟨em, hem, eu, heu, h1, h2, h3, h4⟩ := fieldOK_spec (hF p hp)
    have hu := unmarshal_get _ (marshal (marshalTable t) c) (zeroCfg t) eu hU heu
    rw [h2, ← h3, marshal_get _ c em hM hem, h1] at hu
    rw [hu]
    simp only [kindOK] at h4
    by_cases hb : p = .cTransport_BandwidthLimit
    · subst hb
      simp only [if_true, Bool.and_eq_true, Bool.or_eq_true, decide_eq_true_eq] at h4
      rw [h4.1]
      rcases h4.2 with h5 | h5 <;> rw [h5]
      · simp [viaMsg, intoCfg, norm, completeNorm, zeroCfg_get]
      · simp only [viaMsg, intoCfg, norm, completeNorm]
        by_cases he : asStr (bwString (c.get .cTransport_BandwidthLimit)) = []
        · simp [he, bwParse_of_empty he]
        · simp [he]
    · by_cases hm : p = .cTransport_BandwidthLimitMode
      · subst hm
        simp at h4
        rw [h4.1, h4.2]
        have hz := zeroCfg_get t .cTransport_BandwidthLimitMode (by decide)
        simp only [viaMsg, intoCfg, norm, completeNorm, hz]
        by_cases hc : asStr (c.get .cTransport_BandwidthLimitMode) = clientB
        · have := asStr_ne_nil hc (by decide)
          rw [this]; simp [asStr_str, asStr_zero, clientB]
        · by_cases he : asStr (c.get .cTransport_BandwidthLimitMode) = []
          · have hne : clientB ≠ [] := by decide
            simp [he, hne, asStr_zero]
          · simp [hc, he]
      · by_cases hl : p = .cLocalIP
        · subst hl; simp at h4
        · simp only [hb, hm, hl, if_false, Bool.and_eq_true, decide_eq_true_eq] at h4
          rw [h4.1, h4.2]
          simp [viaMsg, intoCfg, norm, completeNorm, hb, hm, hl]

/-- the eight instances, one per proxy type -/
theorem roundtrip_tcp (c : Rec CF) (h : c.get .cType = .str PT.tcp.bytes) : RoundTrip .tcp c := roundtrip .tcp c h
theorem roundtrip_udp (c : Rec CF) (h : c.get .cType = .str PT.udp.bytes) : RoundTrip .udp c := roundtrip .udp c h
theorem roundtrip_http (c : Rec CF) (h : c.get .cType = .str PT.http.bytes) : RoundTrip .http c := roundtrip .http c h
theorem roundtrip_https (c : Rec CF) (h : c.get .cType = .str PT.https.bytes) : RoundTrip .https c := roundtrip .https c h
theorem roundtrip_tcpmux (c : Rec CF) (h : c.get .cType = .str PT.tcpmux.bytes) : RoundTrip .tcpmux c := roundtrip .tcpmux c h
theorem roundtrip_stcp (c : Rec CF) (h : c.get .cType = .str PT.stcp.bytes) : RoundTrip .stcp c := roundtrip .stcp c h
theorem roundtrip_xtcp (c : Rec CF) (h : c.get .cType = .str PT.xtcp.bytes) : RoundTrip .xtcp c := roundtrip .xtcp c h
theorem roundtrip_sudp (c : Rec CF) (h : c.get .cType = .str PT.sudp.bytes) : RoundTrip .sudp c := roundtrip .sudp c h

/-- the normalisations are the identity on completed, text-born values:
    any mode other than "" is kept … -/
theorem norm_mode_id (v : Value) (h : asStr v ≠ []) : norm .cTransport_BandwidthLimitMode v = v := by
  simp [norm, h]

/-- … and every field other than the two named ones is carried unchanged -/
theorem norm_other_id (p : CF) (v : Value) (h1 : p ≠ .cTransport_BandwidthLimit)
    (h2 : p ≠ .cTransport_BandwidthLimitMode) : norm p v = v := by
  simp [norm, h1, h2]

/-- the executable predicate the driver evaluates on the implementation's own reconstruction
    (values compared up to the spelling of zero values) -/
def rtHoldsOn (t : PT) (c implC : Rec CF) : Bool :=
  (serverFields t).all fun p => decide ((implC.get p).canon = (norm p (c.get p)).canon)

theorem rtHoldsOn_sound (t : PT) (c i : Rec CF) :
    rtHoldsOn t c i = true ↔ ∀ p ∈ serverFields t, (i.get p).canon = (norm p (c.get p)).canon := by
  simp [rtHoldsOn]

/-- the model's own reconstruction satisfies the predicate (so a `prop=FAILS` verdict can only
    come from the implementation) -/
theorem model_rtHoldsOn (t : PT) (c : Rec CF) (hT : c.get .cType = .str t.bytes) :
    ∃ c', serverRecon (marshal (marshalTable t) c) = some (t, c') ∧ rtHoldsOn t c c' = true := by
  obtain ⟨c', h1, h2⟩ := roundtrip t c hT
  exact ⟨c', h1, (rtHoldsOn_sound t c c').mpr (fun p hp => by rw [h2 p hp])⟩

/-! ## B. accepted by validation ⇒ documented constraints -/
open Validate

/-- ports in range -/
theorem validatePort_iff (p : Int) : validatePort p = true ↔ 0 ≤ p ∧ p ≤ 65535 := by
  simp [validatePort]

/-- predicate for the driver: a port the implementation accepted is in range -/
def portHoldsOn (p : Int) (accepted : Bool) : Bool := !accepted || (decide (0 ≤ p) && decide (p ≤ 65535))

/-- an accepted subdomain needs a subdomain host and contains neither '.' nor '*' -/
theorem subdomain_ok (host : Str) (ds : List Str) (sub : Str)
    (h : validateDomainForServer host ds sub = none) (hs : sub ≠ []) :
    host ≠ [] ∧ dot ∉ sub ∧ star ∉ sub := by
  simp only [validateDomainForServer] at h
  split at h
  · cases h
  · split at h
    · cases h
    · next hh =>
      split at h
      · cases h
      · next hc =>
        simp only [Bool.or_eq_true, List.contains_iff_mem, not_or] at hc
        exact ⟨hh, hc.1, hc.2⟩

/-- the documented constraint, at full strength: an accepted configuration has no custom domain
    inside the server's subdomain space, **whatever its letter case** (routing lower-cases). -/
def DomainsOutsideFull : Prop :=
  ∀ (host : Str) (ds : List Str) (sub : Str), validateDomainForServer host ds sub = none →
    ∀ d ∈ ds, underSubDomainHost host d = false

def exampleCom : Str := [101, 120, 97, 109, 112, 108, 101, 46, 99, 111, 109]            -- example.com
def evilUpper : Str := [101, 118, 105, 108, 46, 69, 88, 65, 77, 80, 76, 69, 46, 99, 111, 109]  -- evil.EXAMPLE.com

/-- the code as it is violates it: `evil.EXAMPLE.com` is accepted under subDomainHost
    `example.com`, and routing treats it as `evil.example.com` -/
theorem domain_witness :
    validateDomainForServer exampleCom [evilUpper] [] = none ∧
    underSubDomainHost exampleCom evilUpper = true := by decide

theorem domain_full_fails : ¬ DomainsOutsideFull := by
  intro h
  have := h exampleCom [evilUpper] [] (by decide) evilUpper (by simp)
  exact absurd this (by decide)

theorem under_spec {host d : Str} (h : underSubDomainHost host d = true) :
    host ≠ [] ∧ ∃ p, toLower d = p ++ dot :: toLower host := by
  simp only [underSubDomainHost, Bool.and_eq_true, decide_eq_true_eq, List.isSuffixOf_iff_suffix] at h
  obtain ⟨hh, p, hp⟩ := h
  exact ⟨by simpa using hh, p, hp.symm⟩

theorem toLower_ne_nil {s : Str} (h : s ≠ []) : toLower s ≠ [] := by
  cases s <;> simp_all [toLower]

/-- what holds of the code as it is: the constraint for names and subdomain host written in
    lower case (the excluded case is exactly the witness above). -/
theorem domain_outside_partial (host : Str) (ds : List Str) (sub : Str)
    (hacc : validateDomainForServer host ds sub = none)
    (d : Str) (hd : d ∈ ds) (hl : toLower d = d) (hh : toLower host = host) :
    underSubDomainHost host d = false := by
  cases hu : underSubDomainHost host d with
  | false => rfl
  | true =>
    obtain ⟨hne, p, hp⟩ := under_spec hu
    rw [hl, hh] at hp
    have hb : domainBelongs host d = true := hp ▸ belongs_of_suffix host p hne
    have : ds.any (domainBelongs host) = true := List.any_eq_true.mpr ⟨d, hd, hb⟩
    simp [validateDomainForServer, this] at hacc

/-- the repaired check (both sides lower-cased) satisfies the constraint at full strength -/
theorem domain_outside_fixed (host : Str) (ds : List Str) (sub : Str)
    (hacc : validateDomainForServerFixed host ds sub = none) (d : Str) (hd : d ∈ ds) :
    underSubDomainHost host d = false := by
  cases hu : underSubDomainHost host d with
  | false => rfl
  | true =>
    obtain ⟨hne, p, hp⟩ := under_spec hu
    have hb : domainBelongsFixed host d = true := by
      simp only [domainBelongsFixed]; rw [hp]; exact belongs_of_suffix _ p (toLower_ne_nil hne)
    have : ds.any (domainBelongsFixed host) = true := List.any_eq_true.mpr ⟨d, hd, hb⟩
    simp [validateDomainForServerFixed, this] at hacc

/-- the statement about whichever check the tree is declared to implement
    (`Validate.domainCheckIsFixed`).  While the flag is `false` this is vacuous and the operative
    theorems are `domain_witness` / `domain_outside_partial`; after the repair has been committed,
    flip the flag: the engine then replays the repaired model and this theorem is the full clause. -/
theorem domain_outside_current (hfix : domainCheckIsFixed = true) (host : Str) (ds : List Str) (sub : Str)
    (hacc : validateDomainCurrent host ds sub = none) (d : Str) (hd : d ∈ ds) :
    underSubDomainHost host d = false := by
  simp only [validateDomainCurrent, hfix, if_true] at hacc
  exact domain_outside_fixed host ds sub hacc d hd

/-- the repaired check rejects the witness -/
example : validateDomainForServerFixed exampleCom [evilUpper] [] = some .belongs := by decide
/-- non-vacuity: lower-case domains outside the host are accepted, inside are rejected -/
example : validateDomainForServer exampleCom [[97, 46, 111, 114, 103]] [] = none := by decide
example : validateDomainForServer exampleCom [[97, 46] ++ exampleCom] [] = some .belongs := by decide

/-- the property predicate the driver evaluates on the implementation's own verdict:
    "accepted ⇒ every custom domain is outside the subdomain space" -/
def domainHoldsOn (host : Str) (ds : List Str) (accepted : Bool) : Bool :=
  !accepted || ds.all (fun d => !underSubDomainHost host d)

theorem domainHoldsOn_sound (host : Str) (ds : List Str) (accepted : Bool) :
    domainHoldsOn host ds accepted = true ↔
      (accepted = true → ∀ d ∈ ds, underSubDomainHost host d = false) := by
  cases accepted <;> simp [domainHoldsOn]

/-! ## C. textual quantities round-trip -/

/-- a range as `NewPortsRangeSliceFromString` produces them and `String` prints them back:
    either a positive single port, or `start ≤ end` with non-negative bounds -/
def WFRange (r : PortsRange) : Prop :=
  (0 < r.single ∧ r.single < 2 ^ 63 ∧ r.start = 0 ∧ r.stop = 0) ∨
  (r.single = 0 ∧ 0 ≤ r.start ∧ r.start ≤ r.stop ∧ r.stop < 2 ^ 63)

instance (r : PortsRange) : Decidable (WFRange r) := by unfold WFRange; infer_instance

/-- predicate for the driver: the string the implementation printed parses back to the slice -/
def printHoldsOn (rs : List PortsRange) (out : Str) : Bool :=
  if rs ≠ [] ∧ ∀ r ∈ rs, WFRange r then decide (parseRanges out = some rs) else true

/-- predicate for the driver on the composite String-then-parse: `back` is what the
    implementation returned (none = error or a different slice) -/
def rtRangesHoldsOn (rs : List PortsRange) (back : Option (List PortsRange)) : Bool :=
  if rs ≠ [] ∧ ∀ r ∈ rs, WFRange r then decide (back = some rs) else true

/-- predicate for the driver: the reported textual form re-parses to the reported quantity -/
def bwHoldsOn (s : Str) (b : Int) : Bool :=
  match parseBW s with
  | .ok s' b' => s' = s && b' = b
  | .empty => s = [] && b = 0
  | .unsupported => true
  | .err => false

/-- one printed well-formed range parses back to itself -/
theorem parseRange_printRange (r : PortsRange) (h : WFRange r) : parseRange (printRange r) = some r := by
  obtain ⟨s, e, n⟩ := r
  rcases h with ⟨h1, h2, h3, h4⟩ | ⟨h1, h2, h3, h4⟩
  · simp only at h1 h2 h3 h4
    subst h3; subst h4
    have hn : (n.toNat : Int) = n := Int.toNat_of_nonneg (by omega)
    have hdash : dash ∉ printNat n.toNat := fun hm => (digit_facts (printNat_digits _ _ hm)).2.1 rfl
    simp only [printRange, h1, if_true]
    rw [printInt_nonneg _ (by omega)]
    simp only [parseRange, splitOn_of_not_mem dash _ hdash]
    rw [parseInt_trim_printNat _ (by omega), hn]; rfl
  · simp only at h1 h2 h3 h4
    subst h1
    have hs : (s.toNat : Int) = s := Int.toNat_of_nonneg h2
    have he : (e.toNat : Int) = e := Int.toNat_of_nonneg (by omega)
    have hd1 : dash ∉ printNat s.toNat := fun hm => (digit_facts (printNat_digits _ _ hm)).2.1 rfl
    have hd2 : dash ∉ printNat e.toNat := fun hm => (digit_facts (printNat_digits _ _ hm)).2.1 rfl
    simp only [printRange, Int.lt_irrefl, if_false]
    rw [printInt_nonneg _ h2, printInt_nonneg _ (by omega)]
    simp only [parseRange, splitOn_append dash _ _ hd1, splitOn_of_not_mem dash _ hd2]
    rw [parseInt_trim_printNat _ (by omega), parseInt_trim_printNat _ (by omega), hs, he]
    simp [Int.not_lt.mpr h3]

theorem wf_nonneg {r : PortsRange} (h : WFRange r) : 0 ≤ r.single ∧ 0 ≤ r.start ∧ 0 ≤ r.stop := by
  rcases h with ⟨h1, _, h3, h4⟩ | ⟨h1, h2, h3, _⟩ <;> omega

theorem split_join (rs : List PortsRange) (hne : rs ≠ []) (hwf : ∀ r ∈ rs, WFRange r) :
    splitOn comma (joinWith comma (rs.map printRange)) = rs.map printRange := by
  induction rs with
  | nil => exact absurd rfl hne
  | cons r rest ih =>
    have hr := wf_nonneg (hwf r (List.mem_cons_self ..))
    have hc : comma ∉ printRange r := fun hm => (printRange_chars r hr.1 hr.2.1 hr.2.2 _ hm).1 rfl
    cases rest with
    | nil => simp only [List.map, joinWith]; exact splitOn_of_not_mem comma _ hc
    | cons r2 rest2 =>
      have := ih (by simp) (fun x hx => hwf x (List.mem_cons_of_mem _ hx))
      simp only [List.map, joinWith] at this ⊢
      rw [splitOn_append comma _ _ hc, this]

theorem parseAll_map (rs : List PortsRange) (hwf : ∀ r ∈ rs, WFRange r) :
    parseAll (rs.map printRange) = some rs := by
  induction rs with
  | nil => rfl
  | cons r rest ih =>
    simp only [List.map, parseAll, parseRange_printRange r (hwf r (List.mem_cons_self ..))]
    rw [ih (fun x hx => hwf x (List.mem_cons_of_mem _ hx))]; rfl

theorem join_no_space (rs : List PortsRange) (hwf : ∀ r ∈ rs, WFRange r) :
    ∀ c ∈ joinWith comma (rs.map printRange), isSpace c = false := by
  induction rs with
  | nil => intro c hc; simp [joinWith] at hc
  | cons r rest ih =>
    have hr := wf_nonneg (hwf r (List.mem_cons_self ..))
    have h1 := printRange_chars r hr.1 hr.2.1 hr.2.2
    cases rest with
    | nil => intro c hc; simp only [List.map, joinWith] at hc; exact (h1 c hc).2
    | cons r2 rest2 =>
      intro c hc
      have ih' := ih (fun x hx => hwf x (List.mem_cons_of_mem _ hx))
      simp only [List.map, joinWith] at hc ih'
      rcases List.mem_append.mp hc with h | h
      · exact (h1 c h).2
      · rcases List.mem_cons.mp h with h | h
        · subst h; simp [comma, isSpace]
        · exact ih' c h

/-- **Port ranges round-trip through their textual form**: for every non-empty slice of
    well-formed ranges, `NewPortsRangeSliceFromString(p.String()) = p`.
    (The empty slice prints as "" which the parser rejects — stated, not hidden; callers guard it.) -/
theorem ports_roundtrip (rs : List PortsRange) (hne : rs ≠ []) (hwf : ∀ r ∈ rs, WFRange r) :
    parseRanges (printRanges rs) = some rs := by
  rw [parseRanges, printRanges, trim_of_no_space _ (join_no_space rs hwf), split_join rs hne hwf,
    parseAll_map rs hwf]

/-- the model's own round trip satisfies the composite predicate -/
theorem model_rtRangesHoldsOn (rs : List PortsRange) :
    rtRangesHoldsOn rs (parseRanges (printRanges rs)) = true := by
  simp only [rtRangesHoldsOn]
  split
  · next h => simp [ports_roundtrip rs h.1 h.2]
  · rfl

theorem ports_empty_not_roundtrip : parseRanges (printRanges []) = none := by decide

theorem printHoldsOn_sound (rs : List PortsRange) (out : Str) :
    printHoldsOn rs out = true ↔ (rs ≠ [] → (∀ r ∈ rs, WFRange r) → parseRanges out = some rs) := by
  simp only [printHoldsOn]
  split
  · next h => simp only [decide_eq_true_eq]; exact ⟨fun x _ _ => x, fun x => x h.1 h.2⟩
  · next h => simp only [true_iff]; intro a b; exact absurd ⟨a, b⟩ h

/-- the model's own printing satisfies the predicate -/
theorem model_printHoldsOn (rs : List PortsRange) : printHoldsOn rs (printRanges rs) = true :=
  (printHoldsOn_sound rs _).mpr (ports_roundtrip rs)

/-! ### bandwidth quantities -/

theorem trim_idem (s : Str) : trim (trim s) = trim s := by
  -- trim s = trimRight (trimLeft s); its head (if any) is the head of trimLeft s, not a space
  have key : ∀ t : Str, (∀ c, t.head? = some c → isSpace c = false) →
      trimLeft (trimRight t) = trimRight t ∧ trimRight (trimRight t) = trimRight t := by
    intro t ht
    constructor
    · apply dropWhile_self_of_head
      intro c hc
      -- trimRight t is a prefix of t
      have hpre : trimRight t <+: t := by
        have : (t.reverse.dropWhile isSpace) <:+ t.reverse := List.dropWhile_suffix _
        simpa [trimRight] using List.reverse_prefix.mpr this
      obtain ⟨u, hu⟩ := hpre
      cases htr : trimRight t with
      | nil => rw [htr] at hc; simp at hc
      | cons a as =>
        rw [htr] at hc hu
        simp at hc; subst hc
        exact ht a (by rw [← hu]; rfl)
    · simp only [trimRight, List.reverse_reverse, dropWhile_idem]
  have h := key (trimLeft s) (head_dropWhile s)
  simp only [trim]
  rw [h.1, h.2]

theorem bwNumber_ok {f : Str} {base : Nat} {s s' : Str} {b : Int}
    (h : bwNumber f base s = .ok s' b) : s' = s := by
  unfold bwNumber at h
  repeat' split at h
  all_goals first | (cases h; rfl) | cases h

theorem parseBWTrimmed_ok {s s' : Str} {b : Int} (h : parseBWTrimmed s = .ok s' b) : s' = s := by
  unfold parseBWTrimmed at h
  repeat' split at h
  all_goals first | exact bwNumber_ok h | cases h

/-- **Bandwidth literals round-trip**: the textual form kept by a parsed quantity re-parses to the
    same quantity, `NewBandwidthQuantity(q.String()) = q` for every `q` born from text. -/
theorem bw_reparse (s s' : Str) (b : Int) (h : parseBW s = .ok s' b) : parseBW s' = .ok s' b := by
  have hs' : s' = trim s := parseBWTrimmed_ok h
  rw [hs'] at h ⊢
  simp only [parseBW, trim_idem] at h ⊢
  exact h

theorem bwHoldsOn_sound (s : Str) (b : Int) (hs : parseBW s ≠ .unsupported) :
    bwHoldsOn s b = true ↔ (parseBW s = .ok s b ∨ (parseBW s = .empty ∧ s = [] ∧ b = 0)) := by
  simp only [bwHoldsOn]
  cases h : parseBW s with
  | ok s' b' => simp
  | empty => simp
  | err => simp
  | unsupported => exact absurd h hs

/-- the normalisation on the bandwidth field is the identity on every quantity born from text -/
theorem norm_bw_id (s s' : Str) (b : Int) (h : parseBW s = .ok s' b) (hne : s' ≠ []) :
    norm .cTransport_BandwidthLimit (.bw s' b) = .bw s' b := by
  simp [norm, bwString, hne, bwParse, bw_reparse s s' b h]

/-! ### number-range pairs (template function) -/

/-- `parseNumberRangePair` zips the two enumerations position by position and refuses
    enumerations of different length -/
theorem pair_spec (a b : Str) (xs ys : List Int)
    (ha : parseRangeNumbers a = some xs) (hb : parseRangeNumbers b = some ys) :
    (xs.length = ys.length → ∃ ps, parseNumberRangePair a b = some ps ∧
        ps.map (·.1) = xs ∧ ps.map (·.2) = ys) ∧
    (xs.length ≠ ys.length → parseNumberRangePair a b = none) := by
  simp only [parseNumberRangePair, ha, hb]
  constructor
  · intro hl
    refine ⟨xs.zip ys, by simp [hl], ?_, ?_⟩
    · exact List.map_fst_zip (by omega)
    · exact List.map_snd_zip (by omega)
  · intro hl; simp [hl]

/-- `ParseRangeNumbers` on one printed span `lo-hi` enumerates exactly lo, lo+1, …, hi -/
theorem numbersPiece_span (lo hi : Nat) (h : lo ≤ hi) (hh : hi < 2 ^ 63) :
    parseNumbersPiece (printNat lo ++ dash :: printNat hi) =
      some ((List.range (hi - lo + 1)).map (fun (k : Nat) => (lo : Int) + (k : Int))) := by
  have hd1 : dash ∉ printNat lo := fun hm => (digit_facts (printNat_digits _ _ hm)).2.1 rfl
  have hd2 : dash ∉ printNat hi := fun hm => (digit_facts (printNat_digits _ _ hm)).2.1 rfl
  simp only [parseNumbersPiece, splitOn_append dash _ _ hd1, splitOn_of_not_mem dash _ hd2]
  rw [parseInt_trim_printNat _ (by omega), parseInt_trim_printNat _ hh]
  have : ¬ ((hi : Int) < (lo : Int)) := by omega
  have h2 : ((hi : Int) - (lo : Int) + 1).toNat = hi - lo + 1 := by omega
  simp [this, h2]

/-- … and a single printed number to itself -/
theorem numbersPiece_single (n : Nat) (hh : n < 2 ^ 63) : parseNumbersPiece (printNat n) = some [(n : Int)] := by
  have hd : dash ∉ printNat n := fun hm => (digit_facts (printNat_digits _ _ hm)).2.1 rfl
  simp only [parseNumbersPiece, splitOn_of_not_mem dash _ hd]
  rw [parseInt_trim_printNat _ hh]; rfl

/-- non-vacuity -/
example : parseRanges (Str.ofString "1000-2000,3000, 4000-5000") =
    some [⟨1000, 2000, 0⟩, ⟨0, 0, 3000⟩, ⟨4000, 5000, 0⟩] := by decide +kernel
example : parseRangeNumbers (Str.ofString "6000-6002,7000") = some [6000, 6001, 6002, 7000] := by decide +kernel
example : parseBW (Str.ofString " 1.5MB ") = .ok (Str.ofString "1.5MB") 1572864 := by decide +kernel
example : parseNumberRangePair (Str.ofString "1-2") (Str.ofString "8,9") = some [(1, 8), (2, 9)] := by decide +kernel


/-! ## D. command-line flags: the documented names are bound to the fields the other paths set

  The registrations are regenerated from pkg/config/flags.go on every run (`Frp/Gen/Flags.lean`);
  the expectation below is hand-written from `frpc <type> --help`, `frps --help` and the README. -/
section FlagsPart
open Gen.Flags Flags

/-- a documented flag -/
def mk (name short target : String) (k : Kind) (dflt : String) (ssh persistent : Bool) : Reg :=
  ⟨Str.ofString name, Str.ofString short, Str.ofString target, k, Str.ofString dflt, ssh, persistent⟩

def expProxyBase : List Reg := [
  mk "proxy_name" "n" "Name" .str "" true false,
  mk "metadatas" "" "Metadatas" .strMap "" true false,
  mk "annotations" "" "Annotations" .strMap "" true false,
  mk "local_ip" "i" "LocalIP" .str "127.0.0.1" false false,
  mk "local_port" "l" "LocalPort" .int "0" false false,
  mk "ue" "" "Transport.UseEncryption" .bool "false" false false,
  mk "uc" "" "Transport.UseCompression" .bool "false" false false,
  mk "bandwidth_limit_mode" "" "Transport.BandwidthLimitMode" .str "client" false false,
  mk "bandwidth_limit" "" "Transport.BandwidthLimit" .bandwidth "" false false ]

def expDomain : List Reg := [
  mk "custom_domain" "d" "CustomDomains" .strSlice "" true false,
  mk "sd" "" "SubDomain" .str "" true false ]

def expRemotePort : List Reg := [ mk "remote_port" "r" "RemotePort" .int "0" true false ]
def expSecret : List Reg := [
  mk "sk" "" "Secretkey" .str "" true false,
  mk "allow_users" "" "AllowUsers" .strSlice "" true false ]

def expProxyTyped : PT → List Reg
  | .tcp => expRemotePort
  | .udp => expRemotePort
  | .http => expDomain ++ [
      mk "locations" "" "Locations" .strSlice "" true false,
      mk "http_user" "" "HTTPUser" .str "" true false,
      mk "http_pwd" "" "HTTPPassword" .str "" true false,
      mk "host_header_rewrite" "" "HostHeaderRewrite" .str "" true false ]
  | .https => expDomain
  | .tcpmux => expDomain ++ [
      mk "mux" "" "Multiplexer" .str "" true false,
      mk "http_user" "" "HTTPUser" .str "" true false,
      mk "http_pwd" "" "HTTPPassword" .str "" true false ]
  | .stcp => expSecret
  | .xtcp => expSecret
  | .sudp => expSecret

def expProxyRegs (t : PT) : List Reg := expProxyBase ++ expProxyTyped t

def expVisitor : List Reg := [
  mk "visitor_name" "n" "Name" .str "" true false,
  mk "ue" "" "Transport.UseEncryption" .bool "false" true false,
  mk "uc" "" "Transport.UseCompression" .bool "false" true false,
  mk "sk" "" "SecretKey" .str "" true false,
  mk "server_name" "" "ServerName" .str "" true false,
  mk "server-user" "" "ServerUser" .str "" true false,
  mk "bind_addr" "" "BindAddr" .str "" true false,
  mk "bind_port" "" "BindPort" .int "0" true false ]

def expClient : List Reg := [
  mk "server_addr" "s" "ServerAddr" .str "127.0.0.1" false true,
  mk "server_port" "P" "ServerPort" .int "7000" false true,
  mk "protocol" "p" "Transport.Protocol" .str "tcp" false true,
  mk "log_level" "" "Log.Level" .str "info" false true,
  mk "log_file" "" "Log.To" .str "console" false true,
  mk "log_max_days" "" "Log.MaxDays" .int64 "3" false true,
  mk "disable_log_color" "" "Log.DisablePrintColor" .bool "false" false true,
  mk "tls_server_name" "" "Transport.TLS.ServerName" .str "" false true,
  mk "dns_server" "" "DNSServer" .str "" false true,
  mk "tls_enable" "" "Transport.TLS.Enable" .boolPtr "true" false true,
  mk "user" "u" "User" .str "" true true,
  mk "token" "t" "Auth.Token" .str "" true true ]

def expServer : List Reg := [
  mk "bind_addr" "" "BindAddr" .str "0.0.0.0" true true,
  mk "bind_port" "p" "BindPort" .int "7000" true true,
  mk "kcp_bind_port" "" "KCPBindPort" .int "0" true true,
  mk "quic_bind_port" "" "QUICBindPort" .int "0" true true,
  mk "proxy_bind_addr" "" "ProxyBindAddr" .str "0.0.0.0" true true,
  mk "vhost_http_port" "" "VhostHTTPPort" .int "0" true true,
  mk "vhost_https_port" "" "VhostHTTPSPort" .int "0" true true,
  mk "vhost_http_timeout" "" "VhostHTTPTimeout" .int64 "60" true true,
  mk "dashboard_addr" "" "WebServer.Addr" .str "0.0.0.0" true true,
  mk "dashboard_port" "" "WebServer.Port" .int "0" true true,
  mk "dashboard_user" "" "WebServer.User" .str "admin" true true,
  mk "dashboard_pwd" "" "WebServer.Password" .str "admin" true true,
  mk "enable_prometheus" "" "EnablePrometheus" .bool "false" true true,
  mk "log_file" "" "Log.To" .str "console" true true,
  mk "log_level" "" "Log.Level" .str "info" true true,
  mk "log_max_days" "" "Log.MaxDays" .int64 "3" true true,
  mk "disable_log_color" "" "Log.DisablePrintColor" .bool "false" true true,
  mk "token" "t" "Auth.Token" .str "" true true,
  mk "subdomain_host" "" "SubDomainHost" .str "" true true,
  mk "allow_ports" "" "AllowPorts" .portsRange "" true true,
  mk "max_ports_per_client" "" "MaxPortsPerClient" .int64 "0" true true,
  mk "tls_only" "" "Transport.TLS.Force" .bool "false" true true,
  mk "dashboard_tls_cert_file" "" "local:webServerTLS.CertFile" .str "" true true,
  mk "dashboard_tls_key_file" "" "local:webServerTLS.KeyFile" .str "" true true,
  mk "dashboard_tls_mode" "" "WebServer.TLS" .boolFunc "local:webServerTLS" true true ]

/-- every documented flag is registered with the documented shorthand, field, kind, default and
    ssh-mode / persistence attributes (further flags may exist) -/
theorem flags_documented :
    (∀ t : PT, ∀ e ∈ expProxyRegs t, e ∈ proxyRegs t) ∧ (∀ e ∈ expVisitor, e ∈ visitorBase) ∧
    (∀ e ∈ expClient, e ∈ clientCommon) ∧ (∀ e ∈ expServer, e ∈ server) := by
  refine ⟨?_, by decide +kernel, by decide +kernel, by decide +kernel⟩
  intro t; cases t <;> decide +kernel

/-- the commands as documented -/
def expProxyCmd (t : PT) (ssh : Bool) : List Bound := active ssh (bindClient expClient ++ bindPlain (expProxyRegs t))
def expVisitorCmd : List Bound := bindPlain expVisitor ++ (bindClient expClient).filter (·.reg.persistent)
def expServerCmd : List Bound := bindPlain expServer

def longNames (bs : List Bound) : List Str := bs.map fun b => normName b.reg.name
def shortNames (bs : List Bound) : List Str := (bs.map (·.reg.short)).filter (· ≠ [])
def keysOf (bs : List Bound) : List Str := bs.map (·.key)

/-- on every command: flag names are unique after normalisation, shorthands are unique, and no
    two flags are bound to one field -/
def CmdOK (bs : List Bound) : Prop := (longNames bs).Nodup ∧ (shortNames bs).Nodup ∧ (keysOf bs).Nodup

instance (bs : List Bound) : Decidable (CmdOK bs) := by unfold CmdOK; infer_instance

theorem flag_names_unique :
    (∀ (t : PT) (ssh : Bool), CmdOK (proxyCmd t ssh)) ∧ CmdOK visitorCmd ∧ CmdOK serverCmd := by
  refine ⟨?_, by decide +kernel, by decide +kernel⟩
  intro t ssh; cases t <;> cases ssh <;> decide +kernel

/-- looking a documented name (either spelling of the word separator) or shorthand up on the real
    command yields exactly the documented binding -/
def lookupsOK (real exp : List Bound) : Bool :=
  exp.all fun b =>
    findBound real ⟨.eq, b.reg.name, []⟩ == some b &&
    findBound real ⟨.eq, normName b.reg.name, []⟩ == some b &&
    (b.reg.short == [] || findBound real ⟨.shEq, b.reg.short, []⟩ == some b)

theorem flag_lookup_documented :
    (∀ (t : PT) (ssh : Bool), lookupsOK (proxyCmd t ssh) (expProxyCmd t ssh) = true) ∧
    lookupsOK visitorCmd expVisitorCmd = true ∧ lookupsOK serverCmd expServerCmd = true := by
  refine ⟨?_, by decide +kernel, by decide +kernel⟩
  intro t ssh; cases t <;> cases ssh <;> decide +kernel

/-- hand-written expectation: the flag that configures a field the client sends to the server -/
def flagOfField : CF → Option String
  | .cName => some "proxy_name"
  | .cMetadatas => some "metadatas"
  | .cAnnotations => some "annotations"
  | .cTransport_UseEncryption => some "ue"
  | .cTransport_UseCompression => some "uc"
  | .cTransport_BandwidthLimit => some "bandwidth_limit"
  | .cTransport_BandwidthLimitMode => some "bandwidth_limit_mode"
  | .cRemotePort => some "remote_port"
  | .cCustomDomains => some "custom_domain"
  | .cSubDomain => some "sd"
  | .cLocations => some "locations"
  | .cHTTPUser => some "http_user"
  | .cHTTPPassword => some "http_pwd"
  | .cHostHeaderRewrite => some "host_header_rewrite"
  | .cMultiplexer => some "mux"
  | .cSecretkey => some "sk"
  | .cAllowUsers => some "allow_users"
  | _ => none      -- Type, LoadBalancer.*, RequestHeaders.Set, ResponseHeaders.Set, RouteByHTTPUser, LocalIP

/-- every field `MarshalToMsg` sends: if it has a documented flag, that flag is registered for the
    type and bound to this very field; if it has none, no flag writes it -/
def sentFieldsBound (t : PT) : Bool :=
  (marshalTable t).all fun e =>
    match flagOfField e.cfg with
    | some n => (proxyRegs t).any fun r => r.name == Str.ofString n && r.target == TypedConf.cfKey e.cfg
    | none => (proxyRegs t).all fun r => r.target != TypedConf.cfKey e.cfg

theorem sent_fields_bound : ∀ t : PT, sentFieldsBound t = true := by
  intro t; cases t <;> decide +kernel

/-- one `--name=value` on a command whose lookup finds `b`: the bound field, and only it, changes,
    to what the value syntax of the flag's kind yields -/
theorem flag_sets_bound_field (bs : List Bound) (p last : Bool) (st : St) (name val : Str) (b : Bound) (v : Value)
    (hf : findBound bs ⟨.eq, name, val⟩ = some b)
    (hv : setValue b.reg.kind p (st.cfg.get b.key) (st.changed.contains b.key) val = .ok v) :
    ∃ st', Flags.step bs p last st ⟨.eq, name, val⟩ = .ok st' ∧ st'.cfg.get b.key = v ∧
      ∀ k, k ≠ b.key → st'.cfg.get k = st.cfg.get k := by
  refine ⟨⟨st.cfg.set b.key v, b.key :: st.changed⟩, ?_, ?_, ?_⟩
  · simp only [Flags.step, hf, hv]
  · simp [Rec.get_set]
  · intro k hk; simp [Rec.get_set, hk]

/-- flag defaults against what `Complete` gives an absent key of a configuration file
    (pkg/config/v1: ClientCommonConfig.Complete, ServerConfig.Complete, LogConfig.Complete,
    WebServerConfig.Complete, TLSClientConfig.Complete, ProxyBaseConfig.Complete) -/
def fileDefaults : List (String × Value) := [
  ("Client.ServerAddr", .str (Str.ofString "0.0.0.0")), ("Client.ServerPort", .int 7000),
  ("Client.Transport.Protocol", .str (Str.ofString "tcp")), ("Client.Log.Level", .str (Str.ofString "info")),
  ("Client.Log.To", .str (Str.ofString "console")), ("Client.Log.MaxDays", .int 3),
  ("Client.Transport.TLS.Enable", .bool true),
  ("LocalIP", .str localhostB), ("Transport.BandwidthLimitMode", .str clientB),
  ("Server.BindAddr", .str (Str.ofString "0.0.0.0")), ("Server.BindPort", .int 7000),
  ("Server.ProxyBindAddr", .str (Str.ofString "0.0.0.0")),        -- = BindAddr
  ("Server.VhostHTTPTimeout", .int 60), ("Server.WebServer.Addr", .str (Str.ofString "127.0.0.1")),
  ("Server.Log.Level", .str (Str.ofString "info")), ("Server.Log.To", .str (Str.ofString "console")),
  ("Server.Log.MaxDays", .int 3) ]

def fileDefault (k : Str) : Value :=
  match fileDefaults.find? (fun e => Str.ofString e.1 = k) with
  | some e => e.2
  | none => .zero

/-- nil and empty collections are one value -/
def canonE (v : Value) : Value :=
  match v.canon with
  | .strs [] => .zero
  | .smap [] => .zero
  | w => w

/-- the flags whose default differs from the file default of the field they are bound to -/
def defaultMismatches (pfx : String) (rs : List Reg) : List Str :=
  (rs.filter fun r => canonE (defaultValue r.kind r.dflt) != canonE (fileDefault (Str.ofString pfx ++ r.target))).map (·.name)

/-- **defaults are applied identically** holds for every flag except four (recorded findings
    C18-flag-default-*): `server_addr` (127.0.0.1 on the command line, 0.0.0.0 in a file),
    `dashboard_addr` (0.0.0.0 / 127.0.0.1), `dashboard_user` and `dashboard_pwd` (admin / empty) -/
theorem flag_default_mismatches :
    defaultMismatches "Client." clientCommon = [Str.ofString "server_addr"] ∧
    defaultMismatches "Server." server = [Str.ofString "dashboard_addr", Str.ofString "dashboard_user", Str.ofString "dashboard_pwd"] ∧
    (∀ t : PT, defaultMismatches "" (proxyRegs t) = []) ∧ defaultMismatches "" visitorBase = [] := by
  refine ⟨by decide +kernel, by decide +kernel, ?_, by decide +kernel⟩
  intro t; cases t <;> decide +kernel

def argEq (name val : String) : Arg := ⟨.eq, Str.ofString name, Str.ofString val⟩
def tlsArgs : List Arg := [argEq "dashboard_tls_mode" "true", argEq "dashboard_tls_cert_file" "c.pem"]
def certKey : Str := Str.ofString "WebServer.TLS.CertFile"

def readAfter (bs : List Bound) (parsesArg : Bool) (args : List Arg) (k : Str) : Option Value :=
  match run bs parsesArg args with
  | .ok r => some (readKey bs r k)
  | _ => none

/-- the flag that never took effect on the pinned tree (finding C18-dashboard-tls-mode-flag, repaired
    in /repo): with a `Set` that ignores its argument `--dashboard_tls_mode=true
    --dashboard_tls_cert_file=c.pem` leaves WebServer.TLS nil; a Set that parses its argument
    publishes the certificate file -/
theorem dashboard_tls_flag_witness :
    readAfter serverCmd false tlsArgs certKey = some .zero ∧
    readAfter serverCmd true tlsArgs certKey = some (.str (Str.ofString "c.pem")) := by decide +kernel

/-- the code as it is now (regenerated fact): `Set` parses its argument, and the flag takes effect -/
theorem dashboard_tls_flag_fixed :
    boolFuncIgnoresArg = false ∧
    readAfter serverCmd (!boolFuncIgnoresArg) tlsArgs certKey = some (.str (Str.ofString "c.pem")) := by decide +kernel

/-- predicate for the driver: the implementation's structs after parsing agree, on every listed field,
    with the documented binding (`exp` = the run over the documented table) -/
def flHoldsOn (exp : Res) (bs : List Bound) (keys : List Str) (impl : Option (Rec Str)) : Option Bool :=
  match exp, impl with
  | .ok r, some i => some (keys.all fun k => canonE (i.get k) == canonE (readKey bs r k))
  | .ok _, none => some false
  | .err, some _ => some false
  | .err, none => some true
  | .unsupported _, _ => none

theorem flHoldsOn_sound (r : Rec Str) (bs : List Bound) (keys : List Str) (i : Rec Str) :
    flHoldsOn (.ok r) bs keys (some i) = some true ↔ ∀ k ∈ keys, canonE (i.get k) = canonE (readKey bs r k) := by
  simp [flHoldsOn]

end FlagsPart

/-! ## E. typed (un)marshallers and the defaults of visitor / proxy definitions

  `Frp/Gen/TypedConf.lean` is regenerated from pkg/config/v1/visitor.go and proxy.go. -/
section TypedPart
open Gen.TypedConf TypedConf

/-- both `UnmarshalJSON` have the expected statement sequence: null is an error, the discriminator
    is read from the key "type" and stored, the configurer is created by type, unknown types are an
    error, the decoder honours the strict switch, the decoded configurer is stored; `MarshalJSON`
    marshals the configurer -/
def expUnmarshal : List UStep :=
  [.nullIsError, .declTypeStruct, .peekType, .storeType, .newByType, .unknownTypeErr, .newDecoder,
   .strictSwitch, .decode, .storeConfigurer, .ret]

theorem typed_unmarshal_shape :
    proxyUnmarshalJSON = expUnmarshal ∧ visitorUnmarshalJSON = expUnmarshal ∧
    proxyMarshalsConfigurer = true ∧ visitorMarshalsConfigurer = true ∧ newVisitorByTypeSetsType = true := by decide

theorem visitor_types_exact : VT.all.map VT.bytes = [[115, 116, 99, 112], [120, 116, 99, 112], [115, 117, 100, 112]] := by
  decide

def kName : Str := [78, 97, 109, 101]
def kBindAddr : Str := [66, 105, 110, 100, 65, 100, 100, 114]
def kServerName : Str := [83, 101, 114, 118, 101, 114, 78, 97, 109, 101]
def kServerUser : Str := [83, 101, 114, 118, 101, 114, 85, 115, 101, 114]
def kProtocol : Str := [80, 114, 111, 116, 111, 99, 111, 108]
def kMaxRetriesAnHour : Str := [77, 97, 120, 82, 101, 116, 114, 105, 101, 115, 65, 110, 72, 111, 117, 114]
def kMinRetryInterval : Str := [77, 105, 110, 82, 101, 116, 114, 121, 73, 110, 116, 101, 114, 118, 97, 108]
def kFallbackTimeoutMs : Str := [70, 97, 108, 108, 98, 97, 99, 107, 84, 105, 109, 101, 111, 117, 116, 77, 115]
def kFallbackTo : Str := [70, 97, 108, 108, 98, 97, 99, 107, 84, 111]
def kLocalIP : Str := [76, 111, 99, 97, 108, 73, 80]
def kBwMode : Str := [84, 114, 97, 110, 115, 112, 111, 114, 116, 46, 66, 97, 110, 100, 119, 105, 100, 116, 104, 76, 105, 109, 105, 116, 77, 111, 100, 101]
def quicB : Str := [113, 117, 105, 99]

/-- hand-written expectation: the documented defaults of a visitor definition -/
def expVisitorSteps : VT → List VStep
  | .xtcp => [.emptyOrStr kBindAddr localhostB, .userPrefix kName, .qualify kServerName kServerUser,
      .emptyOrStr kProtocol quicB, .emptyOrInt kMaxRetriesAnHour 8, .emptyOrInt kMinRetryInterval 90,
      .emptyOrInt kFallbackTimeoutMs 1000, .userPrefixIfSet kFallbackTo]
  | _ => [.emptyOrStr kBindAddr localhostB, .userPrefix kName, .qualify kServerName kServerUser]

theorem visitor_steps_expected : ∀ t : VT, visitorSteps t = expVisitorSteps t := by
  intro t; cases t <;> decide

theorem visitor_steps_indep : ∀ t : VT, Indep (expVisitorSteps t) := by
  intro t; cases t <;> decide

/-- **Defaults of a visitor definition, closed form.**  Whatever path produced the record `c`,
    after `Complete` every field holds what its own documented rule computes from `c`:
    BindAddr defaults to 127.0.0.1, Name gets the user prefix, ServerName is qualified by ServerUser
    or else gets the user prefix, and for xtcp Protocol = quic, MaxRetriesAnHour = 8,
    MinRetryInterval = 90, FallbackTimeoutMs = 1000, a set FallbackTo gets the user prefix;
    every other field is unchanged. -/
theorem visitor_complete_closed (t : VT) (user : Str) (c : Rec Str) (k : Str) :
    (visitorComplete t user c).get k = closedForm user (expVisitorSteps t) c k := by
  rw [visitorComplete, visitor_steps_expected]
  exact runSteps_closed user _ c k (visitor_steps_indep t)

theorem visitor_name (t : VT) (user : Str) (c : Rec Str) :
    (visitorComplete t user c).get kName = .str (namePrefix user ++ asStr (c.get kName)) := by
  rw [visitor_complete_closed]; cases t <;> rfl

theorem visitor_bind_addr (t : VT) (user : Str) (c : Rec Str) :
    (visitorComplete t user c).get kBindAddr =
      if asStr (c.get kBindAddr) = [] then .str localhostB else c.get kBindAddr := by
  rw [visitor_complete_closed]
  cases t <;> simp [closedForm, expVisitorSteps, TypedConf.target, newVal, kBindAddr] <;> split <;> simp_all

theorem visitor_server_name (t : VT) (user : Str) (c : Rec Str) :
    (visitorComplete t user c).get kServerName =
      if asStr (c.get kServerUser) ≠ [] then .str (asStr (c.get kServerUser) ++ Str.dot :: asStr (c.get kServerName))
      else .str (namePrefix user ++ asStr (c.get kServerName)) := by
  rw [visitor_complete_closed]
  cases t <;> simp [closedForm, expVisitorSteps, List.find?, TypedConf.target, newVal, kBindAddr, kName, kServerName] <;>
    split <;> simp_all

theorem xtcp_visitor_defaults (user : Str) (c : Rec Str) :
    (asStr (c.get kProtocol) = [] → (visitorComplete .xtcp user c).get kProtocol = .str quicB) ∧
    (asInt (c.get kMaxRetriesAnHour) = 0 → (visitorComplete .xtcp user c).get kMaxRetriesAnHour = .int 8) ∧
    (asInt (c.get kMinRetryInterval) = 0 → (visitorComplete .xtcp user c).get kMinRetryInterval = .int 90) ∧
    (asInt (c.get kFallbackTimeoutMs) = 0 → (visitorComplete .xtcp user c).get kFallbackTimeoutMs = .int 1000) := by
  refine ⟨?_, ?_, ?_, ?_⟩ <;> intro h <;> rw [visitor_complete_closed] <;>
    simp only [kProtocol, kMaxRetriesAnHour, kMinRetryInterval, kFallbackTimeoutMs] at h ⊢ <;>
    simp [closedForm, expVisitorSteps, List.find?, TypedConf.target, newVal, h, kBindAddr, kName, kServerName,
      kProtocol, kMaxRetriesAnHour, kMinRetryInterval, kFallbackTimeoutMs]

/-- fields no rule mentions are what was loaded -/
theorem visitor_other_fields (t : VT) (user : Str) (c : Rec Str) (k : Str)
    (h : ∀ s ∈ expVisitorSteps t, TypedConf.target s ≠ k) : (visitorComplete t user c).get k = c.get k := by
  rw [visitor_complete_closed]
  simp only [closedForm]
  rw [List.find?_eq_none.mpr]
  intro s hs; simpa using h s hs

/-- what `ProxyBaseConfig.Complete(user)` makes of each field (path-keyed records) -/
def proxySpec (user : Str) (c : Rec Str) (k : Str) : Value :=
  if k = kName then (if user = [] then c.get kName else .str (user ++ Str.dot :: asStr (c.get kName)))
  else if k = kLocalIP then (if asStr (c.get kLocalIP) = [] then .str localhostB else c.get kLocalIP)
  else if k = kBwMode then (if asStr (c.get kBwMode) = [] then .str clientB else c.get kBwMode)
  else c.get k

theorem cfKey_localIP : cfKey .cLocalIP = kLocalIP := by decide +kernel
theorem cfKey_bwMode : cfKey .cTransport_BandwidthLimitMode = kBwMode := by decide +kernel

/-- **Defaults of a proxy definition** (file, flag and in-memory paths all end in this call):
    the user prefix on Name, LocalIP = 127.0.0.1, BandwidthLimitMode = client, nothing else -/
theorem proxy_complete_get (user : Str) (c : Rec Str) (k : Str) :
    (proxyComplete user c).get k = proxySpec user c k := by
  simp only [proxyComplete, completeSteps, List.foldl, applyPS, cfKey_localIP, cfKey_bwMode, nameKey, proxySpec,
    localhostB, clientB, kName, kLocalIP, kBwMode]
  by_cases hu : user = [] <;> by_cases a : asStr (c.get [76, 111, 99, 97, 108, 73, 80]) = [] <;>
    by_cases b : asStr (c.get [84, 114, 97, 110, 115, 112, 111, 114, 116, 46, 66, 97, 110, 100, 119, 105, 100, 116, 104, 76, 105, 109, 105, 116, 77, 111, 100, 101]) = [] <;>
    by_cases h1 : k = [78, 97, 109, 101] <;> by_cases h2 : k = [76, 111, 99, 97, 108, 73, 80] <;>
    by_cases h3 : k = [84, 114, 97, 110, 115, 112, 111, 114, 116, 46, 66, 97, 110, 100, 119, 105, 100, 116, 104, 76, 105, 109, 105, 116, 77, 111, 100, 101] <;>
    simp_all [Rec.get_set]

/-- **Complete is a fixpoint on its own result (proxies).**  Applying `Complete("")` to a completed proxy
    definition — any type, any user — changes no field: a consumer that "completes" a loaded configuration
    again (or re-derives defaults from it) must find it exactly as the loader left it -/
theorem proxy_complete_idem (user : Str) (c : Rec Str) (k : Str) :
    (proxyComplete [] (proxyComplete user c)).get k = (proxyComplete user c).get k := by
  rw [proxy_complete_get [] (proxyComplete user c) k]
  have hne1 : kLocalIP ≠ kName := by decide
  have hne2 : kBwMode ≠ kName := by decide
  have hne3 : kBwMode ≠ kLocalIP := by decide
  simp only [proxySpec, proxy_complete_get, if_true, hne1, hne2, hne3, if_false]
  by_cases h1 : k = kName
  · simp [h1]
  · by_cases h2 : k = kLocalIP
    · simp only [h1, h2, if_true, if_false, hne1]
      by_cases a : asStr (c.get kLocalIP) = []
      · simp only [a, if_true]; simp [asStr, localhostB]
      · simp only [a, if_false]
    · by_cases h3 : k = kBwMode
      · simp only [h3, if_true, if_false, hne2, hne3]
        by_cases b : asStr (c.get kBwMode) = []
        · simp only [b, if_true]; simp [asStr, clientB]
        · simp only [b, if_false]
      · simp [h1, h2, h3]

/-- **Complete is a fixpoint on its own result (visitors)**, for every visitor type, whenever the visitor
    does not name another user's server (`ServerUser` empty) -/
theorem visitor_complete_idem (t : VT) (user : Str) (c : Rec Str) (k : Str)
    (h : asStr (c.get kServerUser) = []) :
    (visitorComplete t [] (visitorComplete t user c)).get k = (visitorComplete t user c).get k := by
  rw [visitor_complete_closed t [] _ k]
  apply closedForm_idem user _ c _ k (fun k => visitor_complete_closed t user c k)
  intro s hs f g e
  subst e
  have hg : g = kServerUser := by
    cases t <;> simp [expVisitorSteps] at hs <;> exact hs.2
  subst hg
  refine ⟨?_, h⟩
  cases t <;> decide

/-- … and why nobody but the loader may apply it: with `ServerUser` set, a second `Complete` qualifies
    the server name once more (`u.u.srv`) -/
theorem visitor_complete_twice_witness :
    (visitorComplete .stcp [] (visitorComplete .stcp [] ⟨[(kServerName, .str [115]), (kServerUser, .str [117])]⟩)).get kServerName
      ≠ (visitorComplete .stcp [] ⟨[(kServerName, .str [115]), (kServerUser, .str [117])]⟩).get kServerName := by
  decide +kernel

/-- predicate for the driver: on every listed field the implementation's completed definition holds
    what the documented rules compute from the logical definition (`spec`), up to the stated value
    normalisation of the path -/
def cfHoldsOn (spec : Str → Value) (nrm : Value → Value) (keys : List Str) (impl : Rec Str) : Bool :=
  keys.all fun k => nrm (impl.get k).canon == nrm (spec k).canon

theorem cfHoldsOn_sound (spec : Str → Value) (nrm : Value → Value) (keys : List Str) (impl : Rec Str) :
    cfHoldsOn spec nrm keys impl = true ↔ ∀ k ∈ keys, nrm (impl.get k).canon = nrm (spec k).canon := by
  simp [cfHoldsOn]

/-- the model's own completion satisfies the predicate -/
theorem model_cfHoldsOn_visitor (t : VT) (user : Str) (c : Rec Str) (nrm : Value → Value) (keys : List Str) :
    cfHoldsOn (closedForm user (expVisitorSteps t) c) nrm keys (visitorComplete t user c) = true := by
  rw [cfHoldsOn_sound]; intro k _; rw [visitor_complete_closed]

theorem model_cfHoldsOn_proxy (user : Str) (c : Rec Str) (nrm : Value → Value) (keys : List Str) :
    cfHoldsOn (proxySpec user c) nrm keys (proxyComplete user c) = true := by
  rw [cfHoldsOn_sound]; intro k _; rw [proxy_complete_get]

end TypedPart

/-! ## F. client-side validation: accepted ⇒ documented constraints -/
section ValidatePart

theorem mem_of_contains {l : List Str} {x : Str} (h : ¬ ((!l.contains x) = true)) : x ∈ l := by
  by_cases hm : x ∈ l
  · exact hm
  · exact absurd (by simp [hm]) h

/-- `validateProxyBaseConfigForClient` as the code has it is the first error of five independent block
    validators, in this order: name, transport, local address, health check, plugin options -/
theorem client_base_blocks (c : ProxyView) :
    validateProxyBaseForClient c =
      firstErr [validateNameBlock c, validateTransportBlock c, validateLocalBlock c, validateHealthBlock c,
        validatePluginBlock c] := by
  simp only [validateProxyBaseForClient, validateNameBlock, validateTransportBlock, validateLocalBlock,
    validateHealthBlock, validatePluginBlock]
  repeat' split
  all_goals simp_all [firstErr]

theorem firstErr_none (l : List (Option ClientErr)) : firstErr l = none ↔ ∀ x ∈ l, x = none := by
  induction l with
  | nil => simp [firstErr]
  | cons x xs ih =>
    cases x with
    | none => simp [firstErr, ih]
    | some e => simp [firstErr]

/-- **client validation = conjunction of the block validators**: a definition is accepted exactly when
    every block, judged on its own fields alone, is — whatever the other blocks contain (in particular
    the health check is judged whether or not a plugin serves the proxy) -/
theorem client_accept_iff_blocks (k : PKind) (c : ProxyView) :
    validateProxyForClient k c = none ↔
      validateNameBlock c = none ∧ validateTransportBlock c = none ∧ validateLocalBlock c = none ∧
      validateHealthBlock c = none ∧ validatePluginBlock c = none ∧ validateTypeBlock k c = none := by
  simp only [validateProxyForClient, client_base_blocks]
  cases h : firstErr [validateNameBlock c, validateTransportBlock c, validateLocalBlock c, validateHealthBlock c,
      validatePluginBlock c] with
  | none =>
    have := (firstErr_none _).mp h
    simp only [List.mem_cons, List.not_mem_nil, or_false, forall_eq_or_imp, forall_eq] at this
    obtain ⟨h1, h2, h3, h4, h5⟩ := this
    simp [h1, h2, h3, h4, h5]
  | some e =>
    have hn : ¬ (∀ x ∈ [validateNameBlock c, validateTransportBlock c, validateLocalBlock c, validateHealthBlock c,
        validatePluginBlock c], x = none) := by
      intro hh; rw [(firstErr_none _).mpr hh] at h; cases h
    simp only [List.mem_cons, List.not_mem_nil, or_false, forall_eq_or_imp, forall_eq] at hn
    constructor
    · intro hh; cases hh
    · intro ⟨h1, h2, h3, h4, h5, _⟩; exact absurd ⟨h1, h2, h3, h4, h5⟩ hn

/-- each block validator reads its own fields only: two definitions that agree on a block's fields get the
    same verdict from that block, whatever their other blocks are -/
theorem client_blocks_indep (c d : ProxyView) :
    (c.name = d.name → validateNameBlock c = validateNameBlock d) ∧
    (c.proxyProtocolVersion = d.proxyProtocolVersion → c.bandwidthLimitMode = d.bandwidthLimitMode →
      validateTransportBlock c = validateTransportBlock d) ∧
    (c.pluginType = d.pluginType → c.localPort = d.localPort → validateLocalBlock c = validateLocalBlock d) ∧
    (c.healthCheckType = d.healthCheckType → c.healthCheckPath = d.healthCheckPath →
      validateHealthBlock c = validateHealthBlock d) ∧
    (c.pluginType = d.pluginType → c.pluginLocalAddr = d.pluginLocalAddr → c.pluginLocalPath = d.pluginLocalPath →
      c.pluginUnixPath = d.pluginUnixPath → validatePluginBlock c = validatePluginBlock d) := by
  refine ⟨?_, ?_, ?_, ?_, ?_⟩
  · intro h; simp only [validateNameBlock, h]
  · intro h1 h2; simp only [validateTransportBlock, h1, h2]
  · intro h1 h2; simp only [validateLocalBlock, h1, h2]
  · intro h1 h2; simp only [validateHealthBlock, h1, h2]
  · intro h1 h2 h3 h4; simp only [validatePluginBlock, pluginRequired, h1, h2, h3, h4]

/-- the health-check block, spelled out -/
theorem health_block_none (c : ProxyView) :
    validateHealthBlock c = none ↔
      c.healthCheckType ∈ [[], sTcp, sHttp] ∧ (c.healthCheckType = sHttp → c.healthCheckPath ≠ []) := by
  simp only [validateHealthBlock]
  split
  · rename_i h
    constructor
    · intro hh; cases hh
    · intro ⟨hm, _⟩; exact absurd (List.contains_iff_mem.mpr hm) (by simpa using h)
  · rename_i h
    have hm := mem_of_contains h
    split
    · rename_i h2
      constructor
      · intro hh; cases hh
      · intro ⟨_, hp⟩; simp only [Bool.and_eq_true, decide_eq_true_eq] at h2; exact absurd h2.2 (hp h2.1)
    · rename_i h2
      constructor
      · intro _; refine ⟨hm, ?_⟩; intro ht hp; simp [ht, hp] at h2
      · intro _; rfl

/-- the plugin block, spelled out: a plugin that needs a target has one -/
theorem plugin_block_none (c : ProxyView) :
    validatePluginBlock c = none ↔ (c.pluginType ≠ [] → pluginRequired c ≠ some []) := by
  simp only [validatePluginBlock]
  split
  · rename_i h
    cases hr : pluginRequired c with
    | none => simp
    | some v =>
      cases v with
      | nil => simp [h]
      | cons x xs => simp
  · rename_i h; simp [h]

/-- a proxy definition accepted by `ValidateProxyConfigurerForClient` has a name, an allowed proxy
    protocol version, bandwidth mode and health check type (with a path for http) — with or without a
    plugin —, a local port in range unless a plugin serves it, the target option its plugin needs,
    a domain for the vhost types, and the one supported multiplexer -/
theorem client_accept (k : PKind) (c : ProxyView) (h : validateProxyForClient k c = none) :
    c.name ≠ [] ∧ c.proxyProtocolVersion ∈ [[], sV1, sV2] ∧ c.bandwidthLimitMode ∈ [sClient, sServer] ∧
    (c.pluginType = [] → 0 ≤ c.localPort ∧ c.localPort ≤ 65535) ∧
    c.healthCheckType ∈ [[], sTcp, sHttp] ∧ (c.healthCheckType = sHttp → c.healthCheckPath ≠ []) ∧
    ((k = .http ∨ k = .https ∨ k = .tcpmux) → c.subDomain ≠ [] ∨ c.customDomains ≠ []) ∧
    (k = .tcpmux → c.multiplexer = sHttpConnect) ∧
    (c.pluginType ≠ [] → pluginRequired c ≠ some []) := by
  obtain ⟨b1, b2, b3, b4, b5, b6⟩ := (client_accept_iff_blocks k c).mp h
  obtain ⟨a5, a6⟩ := (health_block_none c).mp b4
  have a9 := (plugin_block_none c).mp b5
  have a1 : c.name ≠ [] := by
    simp only [validateNameBlock] at b1
    split at b1
    · cases b1
    · assumption
  have a23 : c.proxyProtocolVersion ∈ [[], sV1, sV2] ∧ c.bandwidthLimitMode ∈ [sClient, sServer] := by
    simp only [validateTransportBlock] at b2
    split at b2; · cases b2
    split at b2; · cases b2
    rename_i h2 h3
    exact ⟨mem_of_contains h2, mem_of_contains h3⟩
  have a4 : c.pluginType = [] → 0 ≤ c.localPort ∧ c.localPort ≤ 65535 := by
    intro hp
    simp only [validateLocalBlock] at b3
    split at b3
    · cases b3
    · rename_i h4
      have : validatePort c.localPort = true := by
        cases hv : validatePort c.localPort with
        | true => rfl
        | false => simp [hp, hv] at h4
      exact (validatePort_iff _).mp this
  have hdom : ∀ c : ProxyView, validateDomainForClient c = none → c.subDomain ≠ [] ∨ c.customDomains ≠ [] := by
    intro c hd
    simp only [validateDomainForClient] at hd
    split at hd
    · cases hd
    · rename_i hn
      by_cases hs : c.subDomain = []
      · right; intro hc; simp [hs, hc] at hn
      · left; exact hs
  refine ⟨a1, a23.1, a23.2, a4, a5, a6, ?_, ?_, a9⟩
  · intro hk
    rcases hk with hk | hk | hk <;> subst hk <;> simp only [validateTypeBlock] at b6
    · exact hdom c b6
    · exact hdom c b6
    · cases hd : validateDomainForClient c with
      | none => exact hdom c hd
      | some e => simp [hd] at b6
  · intro hk; subst hk
    simp only [validateTypeBlock] at b6
    cases hd : validateDomainForClient c with
    | some e => simp [hd] at b6
    | none =>
      simp only [hd] at b6
      split at b6
      · cases b6
      · rename_i hm; simpa using hm

/-- an accepted visitor definition has a name, a server name, a bind port, and for xtcp kcp or quic -/
theorem visitor_accept (x : Bool) (name sname : Str) (port : Int) (proto : Str)
    (h : validateVisitor x name sname port proto = none) :
    name ≠ [] ∧ sname ≠ [] ∧ port ≠ 0 ∧ (x = true → proto ∈ [sKcp, sQuic]) := by
  simp only [validateVisitor] at h
  split at h; · cases h
  split at h; · cases h
  split at h; · cases h
  split at h; · cases h
  rename_i h1 h2 h3 h4
  refine ⟨h1, h2, h3, ?_⟩
  intro hx; subst hx; exact mem_of_contains (by simpa using h4)

theorem append_nil_iff {α : Type} (a b : List α) : a ++ b = [] ↔ a = [] ∧ b = [] := by
  cases a <;> simp

/-- a server configuration accepted by `ValidateServerConfig` has every port in range, an allowed
    auth method and log level, only allowed additional scopes, and a complete dashboard TLS pair -/
theorem server_accept (c : ServerView) (h : validateServer c = []) :
    authMethods.contains c.authMethod = true ∧ c.scopes.all (authScopes.contains ·) = true ∧
    logLevels.contains c.logLevel = true ∧
    (∀ cert key, c.webTLS = some (cert, key) → cert ≠ [] ∧ key ≠ []) ∧
    validatePort c.webPort = true ∧ validatePort c.bindPort = true ∧ validatePort c.kcpBindPort = true ∧
    validatePort c.quicBindPort = true ∧ validatePort c.vhostHTTPPort = true ∧
    validatePort c.vhostHTTPSPort = true ∧ validatePort c.tcpmuxPort = true := by
  simp only [validateServer, append_nil_iff] at h
  obtain ⟨⟨⟨⟨⟨⟨⟨⟨⟨h1, h2⟩, h3⟩, h4⟩, h5⟩, h6⟩, h7⟩, h8⟩, h9⟩, h10⟩ := h
  have pe : ∀ (p : Int) (i : Nat), portErr p i = [] → validatePort p = true := by
    intro p i hp; simp only [portErr] at hp; split at hp
    · assumption
    · cases hp
  have hweb : (∀ cert key, c.webTLS = some (cert, key) → cert ≠ [] ∧ key ≠ []) ∧ validatePort c.webPort = true := by
    simp only [validateWebServer] at h4
    cases ht : c.webTLS with
    | none =>
      simp only [ht] at h4
      refine ⟨(by intro _ _ hh; cases hh), ?_⟩
      split at h4
      · assumption
      · cases h4
    | some ck =>
      obtain ⟨cert, key⟩ := ck
      simp only [ht] at h4
      split at h4; · cases h4
      split at h4; · cases h4
      rename_i hc hk
      split at h4
      · rename_i hp; exact ⟨(by intro a b hh; cases hh; exact ⟨hc, hk⟩), hp⟩
      · cases h4
  refine ⟨?_, ?_, ?_, hweb.1, hweb.2, pe _ _ h5, pe _ _ h6, pe _ _ h7, pe _ _ h8, pe _ _ h9, pe _ _ h10⟩
  · split at h1
    · assumption
    · cases h1
  · split at h2
    · assumption
    · cases h2
  · split at h3
    · assumption
    · cases h3

/-- non-vacuity -/
example : validateProxyForClient .tcpmux ⟨[97], [], sClient, [], 80, [], [], [97], [], sHttpConnect, [], [], []⟩ = none := by decide
example : validateProxyForClient .http ⟨[97], [], sClient, [], 80, [], [], [], [], [], [], [], []⟩ = some .domains := by decide
/-- a plugin does not excuse the health check (type `udp`; `http` without a path), nor a health check the plugin -/
example : validateProxyForClient .tcp ⟨[97], [], sClient, sUnixDomainSocket, 0, [117, 100, 112], [], [], [], [], [], [], [47]⟩ = some .hctype := by decide
example : validateProxyForClient .tcp ⟨[97], [], sClient, sUnixDomainSocket, 0, sHttp, [], [], [], [], [], [], [47]⟩ = some .hcpath := by decide
example : validateProxyForClient .tcp ⟨[97], [], sClient, sUnixDomainSocket, 0, sTcp, [], [], [], [], [], [], []⟩ = some .plugin := by decide
example : validateProxyForClient .tcp ⟨[97], [], sClient, sUnixDomainSocket, 70000, sTcp, [], [], [], [], [], [], [47]⟩ = none := by decide
example : validateVisitor true [97] [98] 9000 sQuic = none := by decide
example : validateServer ⟨[116, 111, 107, 101, 110], [], [105, 110, 102, 111], none, 0, 7000, 0, 0, 80, 443, 0⟩ = [] := by decide

/-- `parseNumberRange` (template function) is `util.ParseRangeNumbers`: see `numbersPiece_span`,
    `numbersPiece_single`; `BandwidthQuantity.Equal` compares the byte counts -/
def bwEqual (a b : Str) : Option Bool :=
  let bytes := fun (r : BW) => match r with | .ok _ n => some n | .empty => some 0 | _ => none
  match bytes (parseBW a), bytes (parseBW b) with
  | some x, some y => some (x == y)
  | _, _ => none

/-- predicates for the driver: what an accepting verdict of the implementation must imply -/
def clientHoldsOn (k : PKind) (c : ProxyView) (accepted : Bool) : Bool :=
  !accepted || (c.name != [] && [[], sV1, sV2].contains c.proxyProtocolVersion &&
    [sClient, sServer].contains c.bandwidthLimitMode && (c.pluginType != [] || validatePort c.localPort) &&
    [[], sTcp, sHttp].contains c.healthCheckType && !(c.healthCheckType == sHttp && c.healthCheckPath == []) &&
    (!(k == .http || k == .https || k == .tcpmux) || c.subDomain != [] || c.customDomains != []) &&
    (k != .tcpmux || c.multiplexer == sHttpConnect) &&
    (c.pluginType == [] || pluginRequired c != some []))

def visitorHoldsOn (x : Bool) (name sname : Str) (port : Int) (proto : Str) (accepted : Bool) : Bool :=
  !accepted || (name != [] && sname != [] && port != 0 && (!x || [sKcp, sQuic].contains proto))

def serverHoldsOn (c : ServerView) (accepted : Bool) : Bool :=
  !accepted || (authMethods.contains c.authMethod && c.scopes.all (authScopes.contains ·) && logLevels.contains c.logLevel &&
    (match c.webTLS with | some (cert, key) => cert != [] && key != [] | none => true) &&
    [c.webPort, c.bindPort, c.kcpBindPort, c.quicBindPort, c.vhostHTTPPort, c.vhostHTTPSPort, c.tcpmuxPort].all validatePort)

/-- whatever the model accepts satisfies the predicates (a `prop=FAILS` can only come from the implementation) -/
theorem model_clientHoldsOn (k : PKind) (c : ProxyView) :
    clientHoldsOn k c (validateProxyForClient k c == none) = true := by
  cases h : validateProxyForClient k c with
  | some e => simp [clientHoldsOn]
  | none =>
    obtain ⟨h1, h2, h3, h4, h5, h6, h7, h8, h9⟩ := client_accept k c h
    have e1 : (c.name != []) = true := by simpa using h1
    have e2 : [[], sV1, sV2].contains c.proxyProtocolVersion = true := List.contains_iff_mem.mpr h2
    have e3 : [sClient, sServer].contains c.bandwidthLimitMode = true := List.contains_iff_mem.mpr h3
    have e4 : (c.pluginType != [] || validatePort c.localPort) = true := by
      by_cases hp : c.pluginType = []
      · have := (validatePort_iff _).mpr (h4 hp); simp [this]
      · simp [hp]
    have e5 : [[], sTcp, sHttp].contains c.healthCheckType = true := List.contains_iff_mem.mpr h5
    have e6 : (!(c.healthCheckType == sHttp && c.healthCheckPath == [])) = true := by
      by_cases ht : c.healthCheckType = sHttp
      · have := h6 ht; simp [ht, this]
      · simp [ht]
    have e7 : (!(k == .http || k == .https || k == .tcpmux) || c.subDomain != [] || c.customDomains != []) = true := by
      by_cases hk : k = .http ∨ k = .https ∨ k = .tcpmux
      · rcases h7 hk with hs | hs <;> simp [hs]
      · have : (k == .http || k == .https || k == .tcpmux) = false := by
          simp only [not_or] at hk; simp [hk.1, hk.2.1, hk.2.2]
        simp [this]
    have e8 : (k != .tcpmux || c.multiplexer == sHttpConnect) = true := by
      by_cases hk : k = .tcpmux
      · simp [h8 hk]
      · simp [hk]
    have e9 : (c.pluginType == [] || pluginRequired c != some []) = true := by
      by_cases hp : c.pluginType = []
      · simp [hp]
      · have := h9 hp; simp [this]
    simp only [clientHoldsOn, e1, e2, e3, e4, e5, e6, e7, e8, e9]; rfl

theorem model_visitorHoldsOn (x : Bool) (name sname : Str) (port : Int) (proto : Str) :
    visitorHoldsOn x name sname port proto (validateVisitor x name sname port proto == none) = true := by
  cases h : validateVisitor x name sname port proto with
  | some e => simp [visitorHoldsOn]
  | none =>
    obtain ⟨h1, h2, h3, h4⟩ := visitor_accept x name sname port proto h
    have e4 : (!x || [sKcp, sQuic].contains proto) = true := by
      cases x with
      | false => rfl
      | true => simpa using h4 rfl
    simp only [visitorHoldsOn, e4]; simp [h1, h2, h3]

theorem model_serverHoldsOn (c : ServerView) : serverHoldsOn c (validateServer c == []) = true := by
  cases h : validateServer c with
  | cons e es => simp [serverHoldsOn]
  | nil =>
    obtain ⟨h1, h2, h3, h4, h5, h6, h7, h8, h9, h10, h11⟩ := server_accept c h
    have e4 : (match c.webTLS with | some (cert, key) => cert != [] && key != [] | none => true) = true := by
      cases ht : c.webTLS with
      | none => rfl
      | some ck => obtain ⟨cert, key⟩ := ck; have := h4 cert key ht; simp [this.1, this.2]
    simp only [serverHoldsOn, h1, h2, h3, e4]
    simp [h5, h6, h7, h8, h9, h10, h11]

/-! ### the common validators block by block (server, client common, the web server they share) -/

/-- `validateWebServerConfig` as the code has it = the first non-empty of its two blocks -/
theorem web_blocks (tls : Option (Str × Str)) (port : Int) :
    validateWebServer tls port = if webTLSBlock tls = [] then webPortBlock port else webTLSBlock tls := by
  cases tls with
  | none => simp [validateWebServer, webTLSBlock, webPortBlock, portErr]
  | some ck =>
    obtain ⟨cert, key⟩ := ck
    simp only [validateWebServer, webTLSBlock, webPortBlock, portErr]
    by_cases hc : cert = []
    · simp [hc]
    · by_cases hk : key = []
      · simp [hc, hk]
      · simp [hc, hk]

/-- **the web server is accepted exactly when both of its blocks are**: the certificate pair (if the section
    is there) AND the port range — a complete `webServer.tls` section does not excuse the port -/
theorem web_accept_iff_blocks (tls : Option (Str × Str)) (port : Int) :
    validateWebServer tls port = [] ↔ webTLSBlock tls = [] ∧ webPortBlock port = [] := by
  rw [web_blocks]
  by_cases h : webTLSBlock tls = []
  · simp [h]
  · simp [h]

/-- whatever `webServer.tls` holds, an accepted web server has its port in 0..65535 -/
theorem web_port_checked (tls : Option (Str × Str)) (port : Int) (h : validateWebServer tls port = []) :
    0 ≤ port ∧ port ≤ 65535 := by
  have hp := ((web_accept_iff_blocks tls port).mp h).2
  simp only [webPortBlock, portErr] at hp
  split at hp
  · rename_i hv; exact (validatePort_iff port).mp hv
  · cases hp

theorem portErr_nil (p : Int) (i : Nat) : portErr p i = [] ↔ validatePort p = true := by
  simp only [portErr]; split <;> simp_all

/-- **server validation = conjunction of its blocks** (auth method, additional scopes, log level, the two web
    server blocks, six port fields), each judged on its own field(s) alone -/
theorem server_accept_iff_blocks (c : ServerView) :
    validateServer c = [] ↔
      authBlock c.authMethod = [] ∧ scopesBlock c.scopes = [] ∧ logBlock c.logLevel = [] ∧
      webTLSBlock c.webTLS = [] ∧ webPortBlock c.webPort = [] ∧
      portErr c.bindPort 1 = [] ∧ portErr c.kcpBindPort 2 = [] ∧ portErr c.quicBindPort 3 = [] ∧
      portErr c.vhostHTTPPort 4 = [] ∧ portErr c.vhostHTTPSPort 5 = [] ∧ portErr c.tcpmuxPort 6 = [] := by
  simp only [validateServer, append_nil_iff, web_accept_iff_blocks, authBlock, scopesBlock, logBlock]
  constructor
  · intro ⟨⟨⟨⟨⟨⟨⟨⟨⟨h1, h2⟩, h3⟩, h4, h4'⟩, h5⟩, h6⟩, h7⟩, h8⟩, h9⟩, h10⟩
    exact ⟨h1, h2, h3, h4, h4', h5, h6, h7, h8, h9, h10⟩
  · intro ⟨h1, h2, h3, h4, h4', h5, h6, h7, h8, h9, h10⟩
    exact ⟨⟨⟨⟨⟨⟨⟨⟨⟨h1, h2⟩, h3⟩, h4, h4'⟩, h5⟩, h6⟩, h7⟩, h8⟩, h9⟩, h10⟩

/-- **client common validation = conjunction of its blocks** -/
theorem clientcommon_accept_iff_blocks (c : ClientCommonView) :
    validateClientCommon c = [] ↔
      authBlock c.authMethod = [] ∧ scopesBlock c.scopes = [] ∧ logBlock c.logLevel = [] ∧
      webTLSBlock c.webTLS = [] ∧ webPortBlock c.webPort = [] ∧
      heartbeatBlock c.hbTimeout c.hbInterval = [] ∧ protocolBlock c.protocol = [] := by
  simp only [validateClientCommon, append_nil_iff, web_accept_iff_blocks, authBlock, scopesBlock, logBlock,
    heartbeatBlock, protocolBlock]
  constructor
  · intro ⟨⟨⟨⟨⟨h1, h2⟩, h3⟩, h4, h4'⟩, h5⟩, h6⟩
    exact ⟨h1, h2, h3, h4, h4', h5, h6⟩
  · intro ⟨h1, h2, h3, h4, h4', h5, h6⟩
    exact ⟨⟨⟨⟨⟨h1, h2⟩, h3⟩, h4, h4'⟩, h5⟩, h6⟩

/-- a client common configuration accepted by `ValidateClientCommonConfig` respects the documented
    constraints: allowed auth method / scopes / log level / transport protocol, a complete admin TLS pair, the
    admin port in range (with or without the TLS section), heartbeat timeout not below the interval -/
theorem clientcommon_accept (c : ClientCommonView) (h : validateClientCommon c = []) :
    c.authMethod ∈ authMethods ∧ (∀ s ∈ c.scopes, s ∈ authScopes) ∧ c.logLevel ∈ logLevels ∧
    (∀ cert key, c.webTLS = some (cert, key) → cert ≠ [] ∧ key ≠ []) ∧
    (0 ≤ c.webPort ∧ c.webPort ≤ 65535) ∧
    (0 < c.hbTimeout → 0 < c.hbInterval → c.hbInterval ≤ c.hbTimeout) ∧
    c.protocol ∈ transportProtocols := by
  obtain ⟨h1, h2, h3, h4, h5, h6, h7⟩ := (clientcommon_accept_iff_blocks c).mp h
  refine ⟨?_, ?_, ?_, ?_, ?_, ?_, ?_⟩
  · simp only [authBlock] at h1; split at h1
    · rename_i hm; exact List.contains_iff_mem.mp hm
    · cases h1
  · simp only [scopesBlock] at h2; split at h2
    · rename_i hm; intro s hs; exact List.contains_iff_mem.mp (List.all_eq_true.mp hm s hs)
    · cases h2
  · simp only [logBlock] at h3; split at h3
    · rename_i hm; exact List.contains_iff_mem.mp hm
    · cases h3
  · intro cert key ht
    simp only [webTLSBlock, ht] at h4
    split at h4; · cases h4
    split at h4; · cases h4
    rename_i hc hk; exact ⟨hc, hk⟩
  · simp only [webPortBlock, portErr] at h5; split at h5
    · rename_i hv; exact (validatePort_iff _).mp hv
    · cases h5
  · intro ht hi
    simp only [heartbeatBlock] at h6
    split at h6
    · cases h6
    · rename_i hn
      simp only [Bool.and_eq_true, decide_eq_true_eq, not_and] at hn
      have := hn ⟨ht, hi⟩
      omega
  · simp only [protocolBlock] at h7; split at h7
    · rename_i hm; exact List.contains_iff_mem.mp hm
    · cases h7

example : validateClientCommon ⟨[116, 111, 107, 101, 110], [], [105, 110, 102, 111], none, 7400, 90, 30, sTcp⟩ = [] := by decide
example : validateClientCommon ⟨[116, 111, 107, 101, 110], [], [105, 110, 102, 111], some ([99], [107]), 70000, 0, 0, sTcp⟩ = [.port 0] := by decide
example : validateServer ⟨[116, 111, 107, 101, 110], [], [105, 110, 102, 111], some ([99], [107]), 70000, 7000, 0, 0, 80, 443, 0⟩ = [.port 0] := by decide

/-- predicate for the driver: what an accepting verdict of `ValidateClientCommonConfig` must imply -/
def clientCommonHoldsOn (c : ClientCommonView) (accepted : Bool) : Bool :=
  !accepted || (authMethods.contains c.authMethod && c.scopes.all (authScopes.contains ·) && logLevels.contains c.logLevel &&
    (match c.webTLS with | some (cert, key) => cert != [] && key != [] | none => true) &&
    validatePort c.webPort && !(0 < c.hbTimeout && 0 < c.hbInterval && decide (c.hbTimeout < c.hbInterval)) &&
    transportProtocols.contains c.protocol)

theorem model_clientCommonHoldsOn (c : ClientCommonView) :
    clientCommonHoldsOn c (validateClientCommon c == []) = true := by
  cases h : validateClientCommon c with
  | cons e es => simp [clientCommonHoldsOn]
  | nil =>
    obtain ⟨h1, h2, h3, h4, h5, h6, h7⟩ := clientcommon_accept c h
    have e1 : authMethods.contains c.authMethod = true := List.contains_iff_mem.mpr h1
    have e2 : c.scopes.all (authScopes.contains ·) = true :=
      List.all_eq_true.mpr fun s hs => List.contains_iff_mem.mpr (h2 s hs)
    have e3 : logLevels.contains c.logLevel = true := List.contains_iff_mem.mpr h3
    have e4 : (match c.webTLS with | some (cert, key) => cert != [] && key != [] | none => true) = true := by
      cases ht : c.webTLS with
      | none => rfl
      | some ck => obtain ⟨cert, key⟩ := ck; have := h4 cert key ht; simp [this.1, this.2]
    have e5 : validatePort c.webPort = true := (validatePort_iff _).mpr h5
    have e6 : (!(0 < c.hbTimeout && 0 < c.hbInterval && decide (c.hbTimeout < c.hbInterval))) = true := by
      by_cases ht : 0 < c.hbTimeout
      · by_cases hi : 0 < c.hbInterval
        · have := h6 ht hi
          have hn : ¬ (c.hbTimeout < c.hbInterval) := by omega
          simp [hn]
        · simp [hi]
      · simp [ht]
    have e7 : transportProtocols.contains c.protocol = true := List.contains_iff_mem.mpr h7
    simp only [clientCommonHoldsOn, e1, e2, e3, e4, e5, e6, e7]; rfl

end ValidatePart

/-! ## G. strict mode is a property of each load, whatever else is loading -/
section StrictPart
open StrictLoad

/-- regenerated fact: `LoadConfigure` takes the mutex, writes the switch, decodes the document and only then
    releases the mutex (pkg/config/load.go as it is now) -/
theorem load_section_held : Gen.TypedConf.loadConfigureEvents = heldEvents := by decide

/-- the verdict of a load taken on its own: rejected exactly when the load is strict and an unknown key
    sits at the top level or in any nested element -/
theorem strict_every_level (l : Load) :
    rejects l = true ↔ l.strict = true ∧ (l.top = true ∨ ∃ e ∈ l.nested, e = true) := by
  simp [rejects]

/-- **The verdict of a load depends only on its own document and its own strictness.**  Any number of
    `LoadConfigure` calls (the regenerated event sequence) started with any value of the switch and
    interleaved in any order: a load that has finished has rejected its document exactly when it would
    have done so alone — a strict load rejects an unknown key at every nesting level, a lenient load never
    fails because of one, whatever the strictness of the loads it overlaps with. -/
theorem strict_verdict_own (flag0 : Bool) (loads : List Load) (sched : List Nat) (i : Nat) (t : Thread)
    (h : (run (init Gen.TypedConf.loadConfigureEvents flag0 loads) sched).threads[i]? = some t)
    (hd : t.rest = []) :
    loads[i]? = some t.load ∧ t.rejected = rejects t.load := by
  rw [load_section_held] at h
  constructor
  · have hl := loads_run (init heldEvents flag0 loads) sched
    have : ((run (init heldEvents flag0 loads) sched).threads.map (·.load))[i]? = some t.load := by
      rw [List.getElem?_map, h]; rfl
    rw [hl] at this
    simpa [init, List.map_map, Function.comp_def] using this
  · have hinv := inv_run _ sched (inv_init flag0 loads) i t h
    split at hinv
    · rcases hinv with ⟨h1, _⟩ | ⟨_, h1, _⟩ | ⟨_, done, todo, _, h1, _⟩
      · rw [hd] at h1; cases h1
      · rw [hd] at h1; cases h1
      · rw [hd] at h1
        cases todo <;> simp at h1
    · rcases hinv with ⟨h1, _⟩ | ⟨_, h2⟩
      · rw [hd, program_held] at h1; cases h1
      · exact h2

/-- why the critical section matters: with the document decoded after the mutex has been released, a
    strict load that overlaps with a lenient one accepts a document whose nested element has an unknown key
    (thread 0 strict: lock, write, unlock; thread 1 lenient: lock, write; thread 0 decodes) -/
theorem strict_unheld_witness :
    ∃ t, (run (init unheldEvents false [⟨true, false, [true]⟩, ⟨false, false, []⟩]) [0, 0, 0, 1, 1, 0, 0]).threads[0]? = some t ∧
      t.rest = [] ∧ t.load.strict = true ∧ t.load.nested.any id = true ∧ t.rejected = false := by
  refine ⟨⟨⟨true, false, [true]⟩, [], false⟩, ?_⟩
  decide

/-- non-vacuity: the same two loads and schedule under the real event sequence — thread 1 is blocked until
    thread 0 has finished, and both end with their own verdicts -/
example : (run (init Gen.TypedConf.loadConfigureEvents false [⟨true, false, [true]⟩, ⟨false, false, []⟩])
    [0, 0, 0, 1, 1, 0, 0, 1, 1, 1, 1]).threads.map (fun t => (t.rest, t.rejected)) = [([], true), ([], false)] := by
  decide

/-- predicate for the driver: the verdicts the implementation gave (true = rejected), one per load, are the
    loads' own verdicts -/
def strictHoldsOn (loads : List Load) (verdicts : List Bool) : Bool := verdicts == loads.map rejects

theorem strictHoldsOn_sound (loads : List Load) (verdicts : List Bool) :
    strictHoldsOn loads verdicts = true ↔ verdicts = loads.map rejects := by
  simp [strictHoldsOn]

end StrictPart

end C18
end Frp
