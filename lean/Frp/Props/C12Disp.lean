import Frp.Props.C12Res
import Frp.Model.SessDisp
/-
  C12 — what the session teardown relies on in the message dispatcher (pkg/msg/handler.go), proved instead of
  assumed.

  `Sess.step … (.dispDone n)` is enabled only when no handler of session `n` is running: every theorem of
  Props/C12.lean / C12Res.lean about the teardown ("a session's proxies belong to a live session", "the previous
  session is completely torn down before the new login is acknowledged", "the client's own earlier registrations never
  block its new ones") rests on it.  `SessDisp` (Model/SessDisp.lean) is the product of the session model with the
  dispatcher as a small-step system — read loop, send loop, Send, Done, the worker's `<-Done()` — in which the worker
  needs nothing but a closed done channel.  Here:

    * (Props/C12DispCode.lean) `dispatcher_code_shape`, `code_cfg_is_frp` — the regenerated facts (Frp/Gen/DispFacts.lean, translate/gen_dispfacts.go):
      `doneCh` is closed in exactly one place, at the top of readLoop's `for` body after a failed ReadMsg and followed by
      `return`; it is handed out by Done() only to `<-` of the two workers; handlers are called by the read loop itself as
      plain statements; Run starts the send loop and the read loop and nothing else; the send loop drops the write error;
    * for a dispatcher of that shape, for EVERY interleaving of the labels of any number of sessions with reads, failed
      reads, Sends from anywhere, writes (failing or not), send-loop exits and workers:
        `done_only_after_read_loop`   Done() fires only after the read loop has returned,
        `no_handler_after_done`       from then on no handler of the session is running and none is ever entered,
        `teardown_without_handler`    while the worker tears the session down no handler of the session is in flight,
        `write_failure_changes_nothing` a failed write changes neither the session tables nor the done channel,
        `disp_refines_sess`           every reachable state of the product is a reachable state of `Sess`: all theorems of
                                      Props/C12.lean and C12Res.lean hold for it (`disp_named_is_live`,
                                      `disp_entry_holder_open`, `disp_teardown_releases_all`, `disp_own_run_never_blocks`);
    * witnesses that the hypothesis is needed: with a send loop that closes `doneCh` on a failed write
      (`send_err_stops_orphan_witness`), or with handlers that run outside the read loop (`async_handlers_orphan_witness`),
      a reachable state has a name (and a visitor listener) held by a session that has closed its done channel and been
      deleted — and the client's re-login with the same run id is refused its own name (`…_blocks_own_relogin`).
-/
namespace Frp
namespace C12
open Sess SessDisp

/-! ### two facts about `Sess.step` -/

/-- a closed connection stays closed -/
theorem closed_mono {S S' : Sess.St} {l : Sess.Label} {n : Nat} (h : Sess.step S l = some S')
    (hc : S.closed.get n = true) : S'.closed.get n = true := by
  cases l <;> simp only [Sess.step] at h <;> (repeat' split at h) <;> (try cases h) <;>
    simp_all [Tbl.get_set] <;> (try split) <;> simp_all

/-- a handler is entered by the labels `regExist` / `closeReq` only: any other label leaves an idle handler idle -/
theorem hp_idle_kept {S S' : Sess.St} {l : Sess.Label} {n : Nat} (h : Sess.step S l = some S')
    (hi : (S.s n).hp = .idle) (hs : startsHandler l ≠ some n) : (S'.s n).hp = .idle := by
  cases l <;> simp only [Sess.step] at h <;> simp only [startsHandler] at hs <;>
    (repeat' split at h) <;> (try cases h) <;> simp_all <;> (try split) <;> simp_all

/-! ### the invariant of the dispatcher -/

/-- done ⇒ the read loop has returned; the read loop has returned ⇒ no handler is running and the connection is closed -/
def DInv (D : SessDisp.St) : Prop :=
  ∀ n, ((D.dr n).done = true → (D.dr n).rdRet = true) ∧
       ((D.dr n).rdRet = true → (D.S.s n).hp = .idle ∧ D.S.closed.get n = true)

@[simp] theorem dr_updD (D : SessDisp.St) (n m : Nat) (f : DRec → DRec) :
    (D.updD n f).dr m = if m = n then f (D.dr n) else D.dr m := by
  simp only [SessDisp.St.dr, SessDisp.St.updD, Tbl.get_set]

@[simp] theorem updD_S (D : SessDisp.St) (n : Nat) (f : DRec → DRec) : (D.updD n f).S = D.S := rfl

@[simp] theorem dr_withS (D : SessDisp.St) (S' : Sess.St) (m : Nat) :
    SessDisp.St.dr { D with S := S' } m = D.dr m := rfl

theorem dinv_init : DInv SessDisp.init := by
  intro n
  simp [SessDisp.init, SessDisp.St.dr, Tbl.get, look]

theorem dinv_step {c : Cfg} (hin : c.inline = true) (hse : c.sendErrStops = false)
    {D D' : SessDisp.St} {l : SessDisp.Label} (hI : DInv D) (h : SessDisp.step c D l = some D') : DInv D' := by
  cases l with
  | sess sl =>
    simp only [SessDisp.step] at h
    by_cases hd : isDispDone sl = true
    · simp [hd] at h
    by_cases hb : blocked D sl = true
    · simp [hb] at h
    rw [if_neg hd, if_neg hb] at h
    cases hs : Sess.step D.S sl with
    | none => simp [hs] at h
    | some S' =>
      simp only [hs, Option.map_some, Option.some.injEq] at h
      subst h
      intro n
      refine ⟨(hI n).1, ?_⟩
      intro hr
      have ⟨hi, hc⟩ := (hI n).2 hr
      refine ⟨hp_idle_kept hs hi ?_, closed_mono hs hc⟩
      intro he
      apply hb
      simp only [dr_withS] at hr
      simp [blocked, he, hr]
  | readErr n =>
    simp only [SessDisp.step] at h
    split at h
    · rename_i hg
      cases h
      intro m
      by_cases hm : m = n
      · subst hm
        simp only [dr_updD, if_true, updD_S]
        exact ⟨fun _ => trivial, fun _ => ⟨hg.2.2.2 hin, hg.2.1⟩⟩
      · simp only [dr_updD, if_neg hm, updD_S]; exact hI m
    · cases h
  | send n =>
    simp only [SessDisp.step] at h
    split at h
    · cases h
      intro m
      by_cases hm : m = n
      · subst hm; simp only [dr_updD, if_true, updD_S]; exact hI m
      · simp only [dr_updD, if_neg hm, updD_S]; exact hI m
    · cases h
  | write n =>
    simp only [SessDisp.step, hse] at h
    split at h
    · split at h
      · simp only [Bool.false_eq_true, if_false] at h
        cases h
        intro m
        by_cases hm : m = n
        · subst hm; simp only [dr_updD, if_true, updD_S]; exact hI m
        · simp only [dr_updD, if_neg hm, updD_S]; exact hI m
      · cases h
        intro m
        by_cases hm : m = n
        · subst hm; simp only [dr_updD, if_true, updD_S]; exact hI m
        · simp only [dr_updD, if_neg hm, updD_S]; exact hI m
    · cases h
  | sendLoopExit n =>
    simp only [SessDisp.step] at h
    split at h
    · cases h
      intro m
      by_cases hm : m = n
      · subst hm; simp only [dr_updD, if_true, updD_S]; exact hI m
      · simp only [dr_updD, if_neg hm, updD_S]; exact hI m
    · cases h
  | workerDone n =>
    simp only [SessDisp.step] at h
    split at h
    · cases h
      intro m
      refine ⟨(hI m).1, ?_⟩
      intro hr
      have ⟨hi, hc⟩ := (hI m).2 hr
      simp only [dr_withS] at hr
      by_cases hm : m = n
      · subst hm; simp [passDone, hi, hc]
      · simp [passDone, hm, hi, hc]
    · cases h

theorem dinv_run {c : Cfg} (hin : c.inline = true) (hse : c.sendErrStops = false) {ls : List SessDisp.Label} :
    ∀ {D D' : SessDisp.St}, SessDisp.run c D ls = some D' → DInv D → DInv D' := by
  induction ls with
  | nil => intro D D' h hI; simp only [SessDisp.run, Option.some.injEq] at h; subst h; exact hI
  | cons l ls ih =>
    intro D D' h hI
    simp only [SessDisp.run] at h
    cases hs : SessDisp.step c D l with
    | none => simp [hs] at h
    | some D1 => simp only [hs] at h; exact ih h (dinv_step hin hse hI hs)

theorem reachable_dinv {c : Cfg} (hin : c.inline = true) (hse : c.sendErrStops = false) {D : SessDisp.St}
    (hR : SessDisp.Reachable c D) : DInv D := by
  obtain ⟨ls, h⟩ := hR
  exact dinv_run hin hse h dinv_init

/-! ### what the teardown relies on -/

/-- **Done() fires only after the read loop has returned** -/
theorem done_only_after_read_loop {c : Cfg} (hin : c.inline = true) (hse : c.sendErrStops = false)
    {D : SessDisp.St} (hR : SessDisp.Reachable c D) {n : Nat} (hd : (D.dr n).done = true) :
    (D.dr n).rdRet = true :=
  (reachable_dinv hin hse hR n).1 hd

/-- **no handler runs after Done**: once the done channel is closed no handler of the session is running, and no
    label that enters a handler of the session is enabled any more -/
theorem no_handler_after_done {c : Cfg} (hin : c.inline = true) (hse : c.sendErrStops = false)
    {D : SessDisp.St} (hR : SessDisp.Reachable c D) {n : Nat} (hd : (D.dr n).done = true) :
    (D.S.s n).hp = .idle ∧
    ∀ sl, startsHandler sl = some n → SessDisp.step c D (.sess sl) = none := by
  have hI := reachable_dinv hin hse hR n
  have hr := hI.1 hd
  refine ⟨(hI.2 hr).1, ?_⟩
  intro sl hs
  simp [SessDisp.step, blocked, hs, hr]

/-- one step of the product is one step of the session model, or leaves the session tables alone -/
theorem refines_step {c : Cfg} {D D' : SessDisp.St} {l : SessDisp.Label} (hI : DInv D)
    (h : SessDisp.step c D l = some D') :
    match proj l with
    | some sl => Sess.step D.S sl = some D'.S
    | none => D'.S = D.S := by
  cases l with
  | sess sl =>
    simp only [SessDisp.step] at h
    by_cases hd : isDispDone sl = true
    · simp [hd] at h
    by_cases hb : blocked D sl = true
    · simp [hb] at h
    rw [if_neg hd, if_neg hb] at h
    cases hs : Sess.step D.S sl with
    | none => simp [hs] at h
    | some S' =>
      simp only [hs, Option.map_some, Option.some.injEq] at h
      subst h
      simpa [proj] using hs
  | readErr n => simp only [SessDisp.step] at h; split at h <;> cases h; simp [proj]
  | send n => simp only [SessDisp.step] at h; split at h <;> cases h; simp [proj]
  | write n =>
    simp only [SessDisp.step] at h
    (repeat' split at h) <;> cases h <;> simp [proj]
  | sendLoopExit n => simp only [SessDisp.step] at h; split at h <;> cases h; simp [proj]
  | workerDone n =>
    simp only [SessDisp.step] at h
    split at h
    · rename_i hg
      cases h
      have hr := (hI n).1 hg.2
      have ⟨hi, hc⟩ := (hI n).2 hr
      simp [proj, Sess.step, hg.1, hi, hc, passDone]
    · cases h

theorem refines_run {c : Cfg} (hin : c.inline = true) (hse : c.sendErrStops = false) {ls : List SessDisp.Label} :
    ∀ {D D' : SessDisp.St}, SessDisp.run c D ls = some D' → DInv D → Sess.Reachable D.S → Sess.Reachable D'.S := by
  induction ls with
  | nil => intro D D' h _ hS; simp only [SessDisp.run, Option.some.injEq] at h; subst h; exact hS
  | cons l ls ih =>
    intro D D' h hI hS
    simp only [SessDisp.run] at h
    cases hs : SessDisp.step c D l with
    | none => simp [hs] at h
    | some D1 =>
      simp only [hs] at h
      have hr := refines_step hI hs
      have hS1 : Sess.Reachable D1.S := by
        cases hp : proj l with
        | none => simp only [hp] at hr; rw [hr]; exact hS
        | some sl => simp only [hp] at hr; exact reachable_step hS hr
      exact ih h (dinv_step hin hse hI hs) hS1

/-- **the product refines the session model**: whatever the dispatcher, the peers of the proxies (Send) and the
    connection (failing writes) do in between, the session tables only ever move by labels of `Sess` -/
theorem disp_refines_sess {c : Cfg} (hin : c.inline = true) (hse : c.sendErrStops = false) {D : SessDisp.St}
    (hR : SessDisp.Reachable c D) : Sess.Reachable D.S := by
  obtain ⟨ls, h⟩ := hR
  exact refines_run hin hse h dinv_init ⟨[], rfl⟩

/-- **no handler is in flight while the worker tears the session down** (and afterwards) -/
theorem teardown_without_handler {c : Cfg} (hin : c.inline = true) (hse : c.sendErrStops = false) {D : SessDisp.St}
    (hR : SessDisp.Reachable c D) {n : Nat} (hp : (D.S.s n).phase ≠ .running) : (D.S.s n).hp = .idle := by
  have hN := (reachable_inv (disp_refines_sess hin hse hR)).1 n 0
  simp only [NGood] at hN
  exact Classical.byContradiction (fun hc => hp (hN.1 hc))

/-- a write that fails (the peer is gone while frps has something to say) changes nothing: not the session tables,
    not the done channel, not the read loop -/
theorem write_failure_changes_nothing {c : Cfg} (hse : c.sendErrStops = false) {D D' : SessDisp.St} {n : Nat}
    (h : SessDisp.step c D (.write n) = some D') :
    D'.S = D.S ∧ ∀ m, (D'.dr m).done = (D.dr m).done ∧ (D'.dr m).rdRet = (D.dr m).rdRet := by
  simp only [SessDisp.step, hse] at h
  (repeat' split at h) <;> (try cases h) <;>
    (refine ⟨rfl, fun m => ?_⟩; by_cases hm : m = n <;> simp_all)

/-- a session's proxies belong to a live session — in the product -/
theorem disp_named_is_live {c : Cfg} (hin : c.inline = true) (hse : c.sendErrStops = false) {D : SessDisp.St}
    (hR : SessDisp.Reachable c D) {s p : Nat} (h : D.S.names.get p = some s) :
    (D.S.s s).phase.live = true ∧ ((D.S.s s).hp = .added p ∨ Holds D.S s p) :=
  named_is_live (disp_refines_sess hin hse hR) h

/-- a session that has closed its done channel holds no name, no visitor listener and no nat hole entry — in the product -/
theorem disp_teardown_releases_all {c : Cfg} (hin : c.inline = true) (hse : c.sendErrStops = false) {D : SessDisp.St}
    (hR : SessDisp.Reachable c D) {t : Nat} (hd : (D.S.s t).phase = .done) (p : Nat) :
    D.S.vis.get p ≠ some t ∧ D.S.nat.get p ≠ some t ∧ D.S.names.get p ≠ some t :=
  teardown_releases_all (disp_refines_sess hin hse hR) hd p

/-- the client's own earlier registrations never block its new ones — in the product -/
theorem disp_own_run_never_blocks {c : Cfg} (hin : c.inline = true) (hse : c.sendErrStops = false) {D : SessDisp.St}
    (hR : SessDisp.Reachable c D) {n t p : Nat} (hn : (D.S.s n).phase = .running) (ht : D.S.names.get p = some t)
    (hr : (D.S.s t).rid = (D.S.s n).rid) : t = n :=
  own_run_never_blocks (disp_refines_sess hin hse hR) hn ht hr

/-! ### the hypothesis is needed: witnesses -/

/-- session 1 (run id 7) owns the stcp proxy 1 and is inside the handler of a NewProxy for name 2 (past the Exist check)
    when its connection breaks; a visitor of proxy 1 makes frps write a ReqWorkConn … -/
def orphanPrefix : List SessDisp.Label :=
  [.sess (.login 1 7 false), .sess (.add 1), .sess (.start 1),
   .sess (.regExist 1 1), .sess (.regRun 1 1 .vis true), .sess (.regAdd 1 1), .sess (.regOwn 1 1),
   .sess (.regExist 1 2), .sess (.connClose 1), .send 1]

/-- … the teardown runs over a `ctl.proxies` without name 2, the session is deleted, and THEN the handler goes on -/
def orphanTeardown : List SessDisp.Label :=
  [.workerDone 1, .sess (.drain 1), .sess (.closeProxy 1 1), .sess (.done 1), .sess (.del 1),
   .sess (.regRun 1 2 .vis true), .sess (.regAdd 1 2), .sess (.regOwn 1 2)]

/-- the client logs in again with its run id and registers name 2 again -/
def orphanRelogin : List SessDisp.Label := [.sess (.login 2 7 false), .sess (.add 2), .sess (.start 2)]

/-- the failed write is what ends the dispatcher -/
def sendErrTrace : List SessDisp.Label := orphanPrefix ++ [.write 1] ++ orphanTeardown ++ orphanRelogin

/-- the read loop sees the closed connection while the handler runs elsewhere -/
def asyncTrace : List SessDisp.Label := orphanPrefix ++ [.readErr 1] ++ orphanTeardown ++ orphanRelogin

/-- name 2 and its visitor listener belong to session 1, which has closed its done channel and is gone from the run-id
    table; session 2 of the same run id is acknowledged -/
def orphaned (D : SessDisp.St) : Bool :=
  D.S.names.get 2 == some 1 && D.S.vis.get 2 == some 1 && decide ((D.S.s 1).phase = .done) &&
  (D.S.s 1).deleted && D.S.byRun.get 7 == some 2 && decide ((D.S.s 2).phase = .running)

theorem send_err_stops_orphan_witness :
    (SessDisp.run ⟨true, true⟩ SessDisp.init sendErrTrace).map orphaned = some true := by decide +kernel

theorem async_handlers_orphan_witness :
    (SessDisp.run ⟨false, false⟩ SessDisp.init asyncTrace).map orphaned = some true := by decide +kernel

/-- neither trace is a run of frp's shape: the write changes nothing, and the read loop is inside the handler -/
theorem orphan_traces_not_frp :
    SessDisp.run Cfg.frp SessDisp.init sendErrTrace = none ∧ SessDisp.run Cfg.frp SessDisp.init asyncTrace = none := by
  decide +kernel

/-- in the orphaned state the client's own re-login is refused its own earlier name -/
theorem send_err_stops_blocks_own_relogin :
    (SessDisp.run ⟨true, true⟩ SessDisp.init sendErrTrace).map (fun D => Sess.res D.S (.regExist 2 2)) = some .refused := by
  decide +kernel

theorem async_handlers_blocks_own_relogin :
    (SessDisp.run ⟨false, false⟩ SessDisp.init asyncTrace).map (fun D => Sess.res D.S (.regExist 2 2)) = some .refused := by
  decide +kernel

/-! ### non-vacuity: frp's shape does run, with failed writes in the middle of a handler -/

/-- the same story under frp's shape: the write fails, nothing moves; the handler finishes, THEN the read loop sees the
    error, the worker tears down both proxies, and the re-login registers name 2 -/
def frpTrace : List SessDisp.Label :=
  orphanPrefix ++ [.write 1, .sess (.regRun 1 2 .vis true), .sess (.regAdd 1 2), .sess (.regOwn 1 2), .readErr 1,
    .sendLoopExit 1, .workerDone 1, .sess (.drain 1), .sess (.closeProxy 1 2), .sess (.closeProxy 1 1), .sess (.done 1),
    .sess (.del 1)] ++ orphanRelogin ++ [.sess (.regExist 2 2)]

theorem frp_trace_runs :
    (SessDisp.run Cfg.frp SessDisp.init frpTrace).map
      (fun D => (D.dr 1).werrs == 1 && D.S.names.get 2 == none && D.S.names.get 1 == none && D.S.vis.get 2 == none &&
        decide ((D.S.s 2).hp = .checked 2)) = some true := by decide +kernel

end C12
end Frp
