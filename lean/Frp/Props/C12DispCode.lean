import Frp.Props.C12Disp
import Frp.Gen.DispFacts
/-
  C12 — the tie between the dispatcher model (Model/SessDisp.lean, Props/C12Disp.lean) and pkg/msg/handler.go:
  the regenerated facts Frp/Gen/DispFacts.lean (translate/gen_dispfacts.go, go/ast) have exactly the shape the model
  was written from, and the model's two parameters, READ OFF THE FACTS, are frp's.  A dispatcher whose send loop can
  close the done channel, whose done channel is closed anywhere but at the top of the read loop after a failed ReadMsg,
  whose done channel escapes to somebody who could close it, or whose handlers are started with `go` / handed to another
  loop makes these two theorems fail (the theorems of Props/C12Disp.lean then say nothing about the code any more).
-/
namespace Frp
namespace C12
open Sess SessDisp

/-! ### the facts about the source -/

/-- the shape of pkg/msg/handler.go the model `SessDisp` was written from, statement by statement -/
def dispatcherCodeShape : Bool :=
  Gen.DispFacts.doneChUses ==
    [("NewDispatcher", "init"), ("sendLoop", "recv"), ("readLoop", "close"), ("Send", "recv"), ("Done", "return")] &&
  Gen.DispFacts.doneCallers.all (fun e => e.2 == "recv") &&
  Gen.DispFacts.runSpawns == ["sendLoop", "readLoop"] && Gen.DispFacts.runOther.isEmpty &&
  Gen.DispFacts.readLoopStmts ==
    ["m, err := ReadMsg(d.rw)",
     "if err != nil { close(d.doneCh) return }",
     "if handler, ok := d.msgHandlers[reflect.TypeOf(m)]; ok { handler(m) } else if d.defaultHandler != nil { d.defaultHandler(m) }"] &&
  Gen.DispFacts.readLoopOuter.isEmpty && Gen.DispFacts.readLoopSpawns.isEmpty &&
  Gen.DispFacts.handlerCalls == [("handler", "stmt"), ("d.defaultHandler", "stmt")] &&
  Gen.DispFacts.sendLoopStmts ==
    ["for { select { case <-d.doneCh: return case m := <-d.sendCh: _ = WriteMsg(d.rw, m) } }"] &&
  Gen.DispFacts.sendLoopCalls == ["WriteMsg"] && Gen.DispFacts.writeErrDropped &&
  Gen.DispFacts.sendStmts == ["select { case <-d.doneCh: return io.EOF case d.sendCh <- m: return nil }"] &&
  Gen.DispFacts.doneStmts == ["return d.doneCh"]

theorem dispatcher_code_shape : dispatcherCodeShape = true := by decide +kernel

/-- the two parameters of the model, read off the facts: handlers are called by the read loop itself (every call of a
    handler in readLoop is a plain statement, readLoop spawns nothing, Run starts nothing but the two loops); the send
    loop can close the done channel (some function other than readLoop closes `doneCh`, the channel escapes, or the
    write error is looked at) -/
def codeCfg : Cfg :=
  { inline := Gen.DispFacts.readLoopSpawns.isEmpty && !Gen.DispFacts.handlerCalls.isEmpty &&
      Gen.DispFacts.handlerCalls.all (fun e => e.2 == "stmt") && Gen.DispFacts.runSpawns == ["sendLoop", "readLoop"],
    sendErrStops := Gen.DispFacts.doneChUses.any (fun e => (e.2 == "close" && e.1 != "readLoop") || e.2 == "other") ||
      Gen.DispFacts.doneCallers.any (fun e => e.2 != "recv") || !Gen.DispFacts.writeErrDropped }

theorem code_cfg_is_frp : codeCfg = Cfg.frp := by decide +kernel

/-- … and for the code as it is (the regenerated facts) -/
theorem code_disp_refines_sess {D : SessDisp.St} (hR : SessDisp.Reachable codeCfg D) : Sess.Reachable D.S := by
  rw [code_cfg_is_frp] at hR
  exact disp_refines_sess rfl rfl hR

theorem code_no_handler_after_done {D : SessDisp.St} (hR : SessDisp.Reachable codeCfg D) {n : Nat}
    (hd : (D.dr n).done = true) : (D.dr n).rdRet = true ∧ (D.S.s n).hp = .idle := by
  rw [code_cfg_is_frp] at hR
  exact ⟨done_only_after_read_loop rfl rfl hR hd, (no_handler_after_done rfl rfl hR hd).1⟩

end C12
end Frp
