import Frp.Model.AuthGate
import Frp.Lemmas.AuthGate
import Frp.Gen.AuthGateFacts
/-
  C04 - No session, proxy or work connection without valid client credentials.

  All statements are about `Frp.AuthGate` (the model of handleConnection / RegisterControl /
  RegisterWorkConn / handlePing as the code is now) and hold for EVERY plugin behaviour `P`, every
  `Prim` (`H` = util.GetAuthKey, `oidcVerify` = go-oidc Verify: nothing assumed about either), every
  configuration, every server state and every message.  `fx` is the repair switch
  (`workVerifierIsFixed`, `false` = code as it is); theorems quantified over `fx` hold for both.

  "accepted key" means exactly: token method `key = H token ts`; OIDC `oidcVerify key = some sub`
  (login) / `… ∧ sub ∈ subjectsFromLogin` (ping, work connection).  No cryptographic claim.
-/
namespace Frp
namespace C04
open AuthGate

variable {fx : Bool} {P : Plugins} {pr : Prim} {cfg : Cfg} {srv srv' : Srv} {internal : Bool}
  {conn : ConnId} {out : Out}

/-! ## 1. Login -/

/-- the login the plugin chain handed on was accepted by the verifier RegisterControl selected -/
def LoginAccepted (P : Plugins) (pr : Prim) (cfg : Cfg) (srv : Srv) (internal : Bool) (m : Login) : Prop :=
  ∃ m', P.login m = some m' ∧ (verifyLogin pr cfg srv.subjects (verifierFor internal m') m').isSome = true

/-- a login is answered with success only if it was accepted; the reported run id is the effective one -/
theorem login_needs_key {m : Login} {rid : RunId}
    (h : (handleFirstG fx P pr cfg srv internal conn (.login m)).2.reply = .loginOk rid) :
    ∃ m', P.login m = some m' ∧ rid = effRunId m' ∧
      (verifyLogin pr cfg srv.subjects (verifierFor internal m') m').isSome = true := by
  simp only [handleFirstG] at h
  cases hp : P.login m with
  | none => simp [hp] at h
  | some m' =>
    simp only [hp, registerControl] at h
    cases hv : verifyLogin pr cfg srv.subjects (verifierFor internal m') m' with
    | none => simp [hv] at h
    | some sj =>
      simp only [hv] at h
      refine ⟨m', rfl, ?_, by rw [hv]; rfl⟩
      injection h with h
      exact h.symm

/-- a login that is not accepted: `LoginResp{Error}`, connection closed, server state unchanged -/
theorem login_refused {m : Login} (h : ¬ LoginAccepted P pr cfg srv internal m) :
    handleFirstG fx P pr cfg srv internal conn (.login m) = (srv, { reply := .loginErr, closed := true }) := by
  simp only [handleFirstG]
  cases hp : P.login m with
  | none => rfl
  | some m' =>
    simp only [registerControl]
    cases hv : verifyLogin pr cfg srv.subjects (verifierFor internal m') m' with
    | none => rfl
    | some sj => exact absurd ⟨m', hp, by simp [hv]⟩ h

/-- token method, network listener: success ⇒ the key equals `H token ts` (of the login the plugins handed on) -/
theorem login_token_network {m : Login} {rid : RunId} (hm : cfg.method = .token)
    (h : (handleFirstG fx P pr cfg srv false conn (.login m)).2.reply = .loginOk rid) :
    ∃ m', P.login m = some m' ∧ m'.key = pr.H cfg.token m'.ts := by
  obtain ⟨m', hp, _, hv⟩ := login_needs_key h
  refine ⟨m', hp, ?_⟩
  have hk : verifierFor false m' = .cfg := rfl
  rw [hk] at hv
  simp only [verifyLogin, hm] at hv
  by_cases e : pr.H cfg.token m'.ts = m'.key
  · exact e.symm
  · simp [e] at hv

/-- OIDC method, network listener: success ⇒ go-oidc accepted the key, and its subject is recorded -/
theorem login_oidc_network {m : Login} {rid : RunId} (hm : cfg.method = .oidc)
    (h : (handleFirstG fx P pr cfg srv false conn (.login m)).2.reply = .loginOk rid) :
    ∃ m' sub, P.login m = some m' ∧ pr.oidcVerify m'.key = some sub ∧
      sub ∈ (handleFirstG fx P pr cfg srv false conn (.login m)).1.subjects := by
  obtain ⟨m', hp, _, hv⟩ := login_needs_key h
  have hk : verifierFor false m' = .cfg := rfl
  rw [hk] at hv
  simp only [verifyLogin, hm] at hv
  cases ho : pr.oidcVerify m'.key with
  | none => simp [ho] at hv
  | some sub =>
    refine ⟨m', sub, hp, ho, ?_⟩
    simp only [handleFirstG, hp, registerControl, hk, verifyLogin, hm, ho]
    by_cases hs : sub ∈ srv.subjects
    · simp [hs]
    · simp [hs]

/-- RegisterControl from a network listener: the outcome (state AND reply) is the same whatever the
    peer put into `client_spec.always_auth_pass`, for all other fields -/
theorem aap_irrelevant_from_network (m : Login) (b : Bool) :
    registerControl pr cfg srv false conn { m with aap := b } = registerControl pr cfg srv false conn m := by
  simp only [registerControl, verifierFor, Bool.false_and, effRunId, verifyLogin]
  rfl

/-- a plugin chain whose verdict and rewrites do not depend on the flag -/
def PluginAapBlind (P : Plugins) : Prop :=
  ∀ m b, (P.login { m with aap := b }).map (fun x => { x with aap := false })
        = (P.login m).map (fun x => { x with aap := false })

theorem id_aapBlind : PluginAapBlind Plugins.id := by
  intro m b; rfl

/-- whole first-message handler, network listener: same outcome for both values of the flag -/
theorem login_aap_irrelevant (hP : PluginAapBlind P) (m : Login) (b : Bool) :
    handleFirstG fx P pr cfg srv false conn (.login { m with aap := b })
      = handleFirstG fx P pr cfg srv false conn (.login m) := by
  have h := hP m b
  simp only [handleFirstG]
  cases h1 : P.login { m with aap := b } with
  | none =>
    cases h2 : P.login m with
    | none => rfl
    | some y => simp [h1, h2] at h
  | some x =>
    cases h2 : P.login m with
    | none => simp [h1, h2] at h
    | some y =>
      simp only [h1, h2, Option.map_some, Option.some.injEq] at h
      have ex := aap_irrelevant_from_network (pr := pr) (cfg := cfg) (srv := srv) (conn := conn) x false
      have ey := aap_irrelevant_from_network (pr := pr) (cfg := cfg) (srv := srv) (conn := conn) y false
      show registerControl pr cfg srv false conn x = registerControl pr cfg srv false conn y
      rw [← ex, ← ey, h]

/-- who can get the always-pass verifier: only a login on the internal listener carrying the flag -/
theorem alwaysPass_iff (m : Login) : verifierFor internal m = .alwaysPass ↔ internal = true ∧ m.aap = true := by
  unfold verifierFor
  cases internal <;> cases m.aap <;> simp

/-- events that are not a login on the internal listener -/
def NoInternalLogin : Ev → Prop
  | .first true _ (.login _) => False
  | _ => True

theorem step_allCfg {e : Ev} (he : NoInternalLogin e) (h : AllCfg srv) :
    AllCfg (stepG fx P pr cfg srv e).1 := by
  cases e with
  | first i c m =>
    cases m with
    | login m =>
      cases i with
      | true => exact absurd he (by simp [NoInternalLogin])
      | false =>
        simp only [stepG, handleFirstG]
        cases P.login m with
        | none => exact h
        | some m' =>
          simp only [registerControl]
          cases verifyLogin pr cfg srv.subjects (verifierFor false m') m' with
          | none => exact h
          | some sj =>
            intro s hs
            simp only [List.mem_append, List.mem_filter, List.mem_singleton] at hs
            rcases hs with hs | hs
            · exact h s hs.1
            · subst hs; simp [verifierFor]
    | work m =>
      simp only [stepG, handleFirstG, registerWork]
      split
      · exact h
      · split
        · exact h
        · split
          · split
            · exact allCfg_updSession (fun _ => rfl) h
            · exact h
          · exact h
    | visitor rid ok =>
      simp only [stepG, handleFirstG]
      split
      · exact h
      · split <;> exact h
    | other => exact h
    | garbage => exact h
  | ping c m =>
    simp only [stepG, handlePing]
    split
    · exact h
    · split
      · exact h
      · split
        · exact allCfg_updSession (fun _ => rfl) h
        · exact h
  | newProxy c n =>
    simp only [stepG, handleNewProxy]
    split
    · exact h
    · split
      · exact h
      · exact allCfg_updSession (fun _ => rfl) h
  | drop c =>
    simp only [stepG, sessionEnd]
    intro s hs
    exact h s (List.mem_filter.mp hs).1

/-- over EVERY history without a login on the internal listener (whatever the peers send, incl. the
    flag), no session ever holds the always-pass verifier -/
theorem network_never_alwaysPass (evs : List Ev) (hn : ∀ e ∈ evs, NoInternalLogin e) (h : AllCfg srv) :
    AllCfg (runG fx P pr cfg srv evs) := by
  induction evs generalizing srv with
  | nil => exact h
  | cons e rest ih =>
    simp only [runG, List.foldl_cons]
    exact ih (fun x hx => hn x (List.mem_cons_of_mem _ hx)) (step_allCfg (hn e List.mem_cons_self) h)

/-! ## 2. Heartbeats -/

/-- what handlePing does, completely: `Pong{}` and a refreshed `lastPing` iff the plugins pass it and
    the session's verifier accepts; otherwise `Pong{Error}` and NOTHING changes.  The session is not
    closed by an invalid ping (it ends when the heartbeat timeout fires on the stale `lastPing`). -/
theorem ping_cases {s : Session} {m : Ping} (hs : byCtl srv conn = some s) :
    (∃ m', P.ping m = some m' ∧ verifyPing pr cfg srv.subjects s.vk m' = true ∧
        handlePing P pr cfg srv conn m =
          (updSession srv s.runId (fun x => { x with lastPing := x.lastPing + 1 }),
           { reply := .pongOk, closed := false }))
    ∨ ((∀ m', P.ping m = some m' → verifyPing pr cfg srv.subjects s.vk m' = false) ∧
        handlePing P pr cfg srv conn m = (srv, { reply := .pongErr, closed := false })) := by
  simp only [handlePing, hs]
  cases hp : P.ping m with
  | none => exact Or.inr ⟨by simp, rfl⟩
  | some m' =>
    by_cases hv : verifyPing pr cfg srv.subjects s.vk m' = true
    · exact Or.inl ⟨m', rfl, hv, by simp [hv]⟩
    · refine Or.inr ⟨?_, by simp [hv]⟩
      intro m'' e
      cases e
      simpa using hv

/-- HeartBeats scope on, ordinary session: a ping whose key is not accepted leaves the whole server
    state (hence `lastPing`) unchanged and is answered with `Pong{Error}` -/
theorem ping_scope {s : Session} {m m' : Ping} (hs : byCtl srv conn = some s) (hk : s.vk = .cfg)
    (hb : cfg.hb = true) (hp : P.ping m = some m')
    (hbad : keyOk pr cfg srv.subjects m'.ts m'.key = false) :
    handlePing P pr cfg srv conn m = (srv, { reply := .pongErr, closed := false }) := by
  simp [handlePing, hs, hp, verifyPing, hk, hb, hbad]

/-- token reading of `ping_scope` -/
theorem ping_scope_token {s : Session} {m m' : Ping} (hs : byCtl srv conn = some s) (hk : s.vk = .cfg)
    (hb : cfg.hb = true) (hm : cfg.method = .token) (hp : P.ping m = some m')
    (hbad : m'.key ≠ pr.H cfg.token m'.ts) :
    handlePing P pr cfg srv conn m = (srv, { reply := .pongErr, closed := false }) := by
  apply ping_scope hs hk hb hp
  simp only [keyOk, hm, decide_eq_false_iff_not]
  exact fun e => hbad e.symm

/-- `lastPing` of a session moves only by an accepted ping on its own control connection -/
theorem ping_moved_needs_key {m : Ping}
    (h : (handlePing P pr cfg srv conn m).1 ≠ srv) :
    ∃ s m', byCtl srv conn = some s ∧ P.ping m = some m' ∧
      (s.vk = .alwaysPass ∨ cfg.hb = false ∨ keyOk pr cfg srv.subjects m'.ts m'.key = true) := by
  cases hs : byCtl srv conn with
  | none => simp [handlePing, hs] at h
  | some s =>
    rcases ping_cases (P := P) (pr := pr) (cfg := cfg) (m := m) hs with ⟨m', hp, hv, _⟩ | ⟨_, e⟩
    · refine ⟨s, m', rfl, hp, ?_⟩
      simp only [verifyPing] at hv
      cases hk : s.vk with
      | alwaysPass => exact Or.inl rfl
      | cfg =>
        simp only [hk, Bool.or_eq_true, Bool.not_eq_true'] at hv
        exact Or.inr hv
    · rw [e] at h; exact absurd rfl h

/-! ## 3. Work connections -/

/-- a work connection stays open (is pooled) only if: the run id names a live session, the plugins
    passed it, the verifier used accepts it, and the pool has room.  `workVerifier` = the SESSION's
    verifier in the code as it is. -/
theorem workconn_scope_partial {m : WorkConn}
    (h : (registerWork fx P pr cfg srv internal conn m).2.closed = false) :
    ∃ s m', lookup srv m.runId = some s ∧ P.work m = some m' ∧ s.pool.length < s.poolCap ∧
      (workVerifier fx internal s = .alwaysPass ∨ cfg.wc = false ∨
        keyOk pr cfg srv.subjects m'.ts m'.key = true) ∧
      (registerWork fx P pr cfg srv internal conn m).1 =
        updSession srv s.runId (fun x => { x with pool := x.pool ++ [conn] }) := by
  simp only [registerWork] at h ⊢
  cases hl : lookup srv m.runId with
  | none => simp [hl] at h
  | some s =>
    simp only [hl] at h ⊢
    cases hp : P.work m with
    | none => simp [hp] at h
    | some m' =>
      simp only [hp] at h ⊢
      by_cases hv : verifyWork pr cfg srv.subjects (workVerifier fx internal s) m' = true
      · simp only [hv, if_true] at h ⊢
        by_cases hc : s.pool.length < s.poolCap
        · simp only [hc, if_true]
          refine ⟨s, m', rfl, rfl, hc, ?_, rfl⟩
          simp only [verifyWork] at hv
          cases hk : workVerifier fx internal s with
          | alwaysPass => exact Or.inl rfl
          | cfg =>
            simp only [hk, Bool.or_eq_true, Bool.not_eq_true'] at hv
            exact Or.inr hv
        · simp [hc] at h
      · simp [hv] at h

/-- otherwise it is refused: closed, and the server state is unchanged (unknown run id: no reply at
    all; plugin/verifier refusal: `StartWorkConn{Error}`; pool full: no reply) -/
theorem workconn_refused {m : WorkConn}
    (h : (registerWork fx P pr cfg srv internal conn m).2.closed = true) :
    (registerWork fx P pr cfg srv internal conn m).1 = srv := by
  simp only [registerWork] at h ⊢
  cases hl : lookup srv m.runId with
  | none => rfl
  | some s =>
    simp only [hl] at h ⊢
    cases hp : P.work m with
    | none => rfl
    | some m' =>
      simp only [hp] at h ⊢
      by_cases hv : verifyWork pr cfg srv.subjects (workVerifier fx internal s) m' = true
      · simp only [hv, if_true] at h ⊢
        by_cases hc : s.pool.length < s.poolCap
        · simp [hc] at h
        · simp [hc]
      · simp [hv]

theorem workconn_unknown_runid {m : WorkConn} (h : lookup srv m.runId = none) :
    registerWork fx P pr cfg srv internal conn m = (srv, { reply := .none, closed := true }) := by
  simp [registerWork, h]

/-- the property's clause at full strength: with the NewWorkConns scope on, a work connection arriving
    on a NETWORK listener is pooled only with an accepted key -/
def WorkconnScopeFull (fx : Bool) : Prop :=
  ∀ (P : Plugins) (pr : Prim) (cfg : Cfg) (srv : Srv) (conn : ConnId) (m : WorkConn),
    cfg.wc = true → (registerWork fx P pr cfg srv false conn m).2.closed = false →
    ∃ s m', lookup srv m.runId = some s ∧ P.work m = some m' ∧
      keyOk pr cfg srv.subjects m'.ts m'.key = true

/-- it holds in every state without always-pass sessions - by `network_never_alwaysPass` every state
    reached without logins on the internal (ssh gateway) listener -/
theorem workconn_scope_no_gateway {m : WorkConn} (hall : AllCfg srv) (hw : cfg.wc = true)
    (h : (registerWork fx P pr cfg srv false conn m).2.closed = false) :
    ∃ s m', lookup srv m.runId = some s ∧ P.work m = some m' ∧
      keyOk pr cfg srv.subjects m'.ts m'.key = true := by
  obtain ⟨s, m', hl, hp, _, hor, _⟩ := workconn_scope_partial h
  refine ⟨s, m', hl, hp, ?_⟩
  have hk := hall s (lookup_mem hl).1
  rcases hor with h1 | h1 | h1
  · simp only [workVerifier] at h1
    split at h1
    · cases h1
    · rw [hk] at h1; cases h1
  · rw [hw] at h1; cases h1
  · exact h1

def witPrim : Prim := { H := fun _ _ => [1], oidcVerify := fun _ => none }
def witCfg : Cfg := { method := .token, hb := false, wc := true, token := [116], maxPool := 5 }
/-- a session the ssh gateway's virtual client created with `AlwaysAuthPass` (ssh did the authentication) -/
def witSrv : Srv :=
  { sessions := [{ runId := [114], ctl := 0, vk := .alwaysPass, poolCap := 10, pool := [], proxies := [], lastPing := 0 }],
    subjects := [] }

/-- CODE AS IT IS: the full clause fails.  A peer on a network listener that names the run id of an
    ssh-gateway session gets its work connection pooled with a wrong key although the scope is on
    (`RegisterWorkConn` verifies with `ctl.authVerifier`, the always-pass verifier of that session). -/
theorem workconn_scope_witness : ¬ WorkconnScopeFull false := by
  intro h
  have := h Plugins.id witPrim witCfg witSrv 7 { runId := [114], ts := 0, key := [] } rfl (by decide)
  obtain ⟨s, m', _, hp, hk⟩ := this
  simp only [Plugins.id, Option.some.injEq] at hp
  subst hp
  revert hk
  simp [keyOk, witCfg, witPrim]

/-- REPAIRED (`workVerifierIsFixed := true`): the full clause holds in every state -/
theorem workconn_scope_fixed : WorkconnScopeFull true := by
  intro P pr cfg srv conn m hw h
  obtain ⟨s, m', hl, hp, _, hor, _⟩ := workconn_scope_partial h
  refine ⟨s, m', hl, hp, ?_⟩
  rcases hor with h1 | h1 | h1
  · simp [workVerifier] at h1
  · rw [hw] at h1; cases h1
  · exact h1

/-! ## 4. Refused attempts leave nothing behind -/

/-- a first message whose connection the server closes changes nothing: sessions (with their pools,
    proxies, lastPing) and the OIDC subject list are literally the same -/
theorem first_refused_unchanged {i : Bool} {c : ConnId} {m : First}
    (h : (handleFirstG fx P pr cfg srv i c m).2.closed = true) :
    (handleFirstG fx P pr cfg srv i c m).1 = srv := by
  cases m with
  | login m =>
    simp only [handleFirstG] at h ⊢
    cases hp : P.login m with
    | none => rfl
    | some m' =>
      simp only [hp, registerControl] at h ⊢
      cases hv : verifyLogin pr cfg srv.subjects (verifierFor i m') m' with
      | none => rfl
      | some sj => simp [hv] at h
  | work m => exact workconn_refused h
  | visitor rid ok =>
    simp only [handleFirstG]
    split
    · rfl
    · split <;> rfl
  | other => rfl
  | garbage => rfl

/-- refused first messages as (listener kind, connection, message) -/
abbrev Attempt := Bool × ConnId × First

def attemptEv (a : Attempt) : Ev := .first a.1 a.2.1 a.2.2

/-- `a` is refused by the server in state `srv` -/
def Refused (fx : Bool) (P : Plugins) (pr : Prim) (cfg : Cfg) (srv : Srv) (a : Attempt) : Prop :=
  (handleFirstG fx P pr cfg srv a.1 a.2.1 a.2.2).2.closed = true

/-- EVERY sequence of attempts, of any length, each of which the server refuses, leaves the server
    state exactly as it was (so every existing session, its proxies, pool and lastPing are untouched,
    and each attempt is refused in the very same state) -/
theorem refused_no_residue (as : List Attempt) (h : ∀ a ∈ as, Refused fx P pr cfg srv a) :
    runG fx P pr cfg srv (as.map attemptEv) = srv := by
  induction as with
  | nil => rfl
  | cons a rest ih =>
    have ha := h a List.mem_cons_self
    simp only [runG, List.map_cons, List.foldl_cons, attemptEv, stepG]
    rw [first_refused_unchanged ha]
    exact ih (fun x hx => h x (List.mem_cons_of_mem _ hx))

/-- same, with refusal judged along the run (each attempt in the state its predecessors left) -/
def RefusedAlong (fx : Bool) (P : Plugins) (pr : Prim) (cfg : Cfg) : Srv → List Attempt → Prop
  | _, [] => True
  | srv, a :: rest => Refused fx P pr cfg srv a ∧
      RefusedAlong fx P pr cfg (handleFirstG fx P pr cfg srv a.1 a.2.1 a.2.2).1 rest

theorem refused_along_no_residue (as : List Attempt) (h : RefusedAlong fx P pr cfg srv as) :
    runG fx P pr cfg srv (as.map attemptEv) = srv := by
  induction as generalizing srv with
  | nil => rfl
  | cons a rest ih =>
    obtain ⟨ha, hr⟩ := h
    simp only [runG, List.map_cons, List.foldl_cons, attemptEv, stepG]
    rw [first_refused_unchanged ha] at hr ⊢
    exact ih hr

/-- even an ACCEPTED login touches no session with another run id -/
theorem login_others_untouched {m m' : Login} {s : Session} (hp : P.login m = some m')
    (hs : s ∈ srv.sessions) (hne : s.runId ≠ effRunId m') :
    s ∈ (handleFirstG fx P pr cfg srv internal conn (.login m)).1.sessions := by
  simp only [handleFirstG, hp, registerControl]
  cases verifyLogin pr cfg srv.subjects (verifierFor internal m') m' with
  | none => exact hs
  | some sj =>
    simp only [List.mem_append, List.mem_filter, List.mem_singleton]
    exact Or.inl ⟨hs, by simpa using hne⟩

/-- even an ACCEPTED work connection touches no session with another run id -/
theorem work_others_untouched {m : WorkConn} {s : Session}
    (hs : s ∈ srv.sessions) (hne : s.runId ≠ m.runId) :
    s ∈ (handleFirstG fx P pr cfg srv internal conn (.work m)).1.sessions := by
  by_cases h : (registerWork fx P pr cfg srv internal conn m).2.closed = true
  · simp only [handleFirstG]; rw [workconn_refused h]; exact hs
  · obtain ⟨t, _, hl, _, _, _, e⟩ := workconn_scope_partial (by simpa using h)
    simp only [handleFirstG]; rw [e]
    exact other_mem_updSession hs (by rw [(lookup_mem hl).2]; exact hne)

/-! ## 5. Where table entries come from (one step, every event) -/

/-- a control connection appears in the session table only by an accepted login on that connection -/
theorem new_session_only_by_login {e : Ev} {c : ConnId}
    (hnew : c ∈ ctls (stepG fx P pr cfg srv e).1) (hold : c ∉ ctls srv) :
    ∃ i m, e = .first i c (.login m) ∧ LoginAccepted P pr cfg srv i m := by
  cases e with
  | first i c' m =>
    cases m with
    | login m =>
      simp only [stepG, handleFirstG] at hnew
      cases hp : P.login m with
      | none => simp only [hp] at hnew; exact absurd hnew hold
      | some m' =>
        simp only [hp, registerControl] at hnew
        cases hv : verifyLogin pr cfg srv.subjects (verifierFor i m') m' with
        | none => simp only [hv] at hnew; exact absurd hnew hold
        | some sj =>
          simp only [hv, ctls, List.map_append, List.mem_append, List.mem_map, List.mem_filter,
            List.mem_singleton] at hnew
          rcases hnew with ⟨s, ⟨hs, _⟩, e⟩ | ⟨s, hs, e⟩
          · exact absurd (List.mem_map.mpr ⟨s, hs, e⟩) hold
          · subst hs
            simp only at e
            subst e
            exact ⟨i, m, rfl, m', hp, by simp [hv]⟩
    | work m =>
      simp only [stepG, handleFirstG] at hnew
      by_cases h : (registerWork fx P pr cfg srv i c' m).2.closed = true
      · rw [workconn_refused h] at hnew; exact absurd hnew hold
      · obtain ⟨t, _, _, _, _, _, e⟩ := workconn_scope_partial (by simpa using h)
        rw [e] at hnew
        exact absurd (mem_ctls_updSession hnew (fun _ => rfl)) hold
    | visitor rid ok =>
      have : (stepG fx P pr cfg srv (.first i c' (.visitor rid ok))).1 = srv := by
        simp only [stepG, handleFirstG]
        split
        · rfl
        · split <;> rfl
      rw [this] at hnew; exact absurd hnew hold
    | other => exact absurd hnew hold
    | garbage => exact absurd hnew hold
  | ping c' m =>
    simp only [stepG, handlePing] at hnew
    split at hnew
    · exact absurd hnew hold
    · split at hnew
      · exact absurd hnew hold
      · split at hnew
        · exact absurd (mem_ctls_updSession hnew (fun _ => rfl)) hold
        · exact absurd hnew hold
  | newProxy c' n =>
    simp only [stepG, handleNewProxy] at hnew
    split at hnew
    · exact absurd hnew hold
    · split at hnew
      · exact absurd hnew hold
      · exact absurd (mem_ctls_updSession hnew (fun _ => rfl)) hold
  | drop c' =>
    simp only [stepG, sessionEnd, ctls, List.mem_map, List.mem_filter] at hnew
    obtain ⟨s, ⟨hs, _⟩, e⟩ := hnew
    exact absurd (List.mem_map.mpr ⟨s, hs, e⟩) hold

/-- a proxy is registered only on the control connection of a live (hence logged-in) session -/
theorem proxy_needs_session {name : Str}
    (h : (handleNewProxy srv conn name).2.reply = .proxyOk) : ∃ s, byCtl srv conn = some s := by
  simp only [handleNewProxy] at h
  cases hs : byCtl srv conn with
  | none => simp [hs] at h
  | some s => exact ⟨s, rfl⟩

/-! ## 6. The executable predicate the driver evaluates on the implementation's own results -/

/-- what the harness observed of the real frps (all booleans computed by the harness independently of
    frp: `kv` with its own crypto/md5, table lookups in the dump taken before the op) -/
inductive Obs
  | sessionCreated (internal aap kv : Bool)
      -- a login was answered with success / a session appeared; kv = key accepted by the configured method
  | pooled (known internal sessAp scope kv : Bool)
      -- a work connection was pooled; known = run id in the table; sessAp = that session holds always-pass
  | pingMoved (sessAp scope kv : Bool)       -- lastPing of the session changed
  | refused (same : Bool)                    -- the attempt was refused; same = tables after = tables before
  deriving DecidableEq, Repr

def holdsOn : Obs → Bool
  | .sessionCreated i a kv => kv || (i && a)
  | .pooled known i ap sc kv => known && (!sc || kv || (i && ap))
  | .pingMoved ap sc kv => ap || !sc || kv
  | .refused same => same

def Spec : Obs → Prop
  | .sessionCreated i a kv => kv = true ∨ (i = true ∧ a = true)
  | .pooled known i ap sc kv => known = true ∧ (sc = false ∨ kv = true ∨ (i = true ∧ ap = true))
  | .pingMoved ap sc kv => ap = true ∨ sc = false ∨ kv = true
  | .refused same => same = true

theorem holdsOn_sound (o : Obs) : holdsOn o = true ↔ Spec o := by
  cases o <;> simp [holdsOn, Spec] <;> (try (rename_i a b c; cases a <;> cases b <;> cases c <;> simp))

/-- the model's own successful token login satisfies the predicate (network or internal) -/
theorem model_holdsOn_login {m : Login} {rid : RunId} (hm : cfg.method = .token)
    (h : (handleFirstG fx Plugins.id pr cfg srv internal conn (.login m)).2.reply = .loginOk rid) :
    holdsOn (.sessionCreated internal m.aap (decide (pr.H cfg.token m.ts = m.key))) = true := by
  obtain ⟨m', hp, _, hv⟩ := login_needs_key h
  simp only [Plugins.id, Option.some.injEq] at hp
  subst hp
  simp only [holdsOn, Bool.or_eq_true, decide_eq_true_eq, Bool.and_eq_true]
  by_cases hk : verifierFor internal m = .alwaysPass
  · exact Or.inr ((alwaysPass_iff m).mp hk)
  · have hk' : verifierFor internal m = .cfg := by
      cases h' : verifierFor internal m with
      | cfg => rfl
      | alwaysPass => exact absurd h' hk
    rw [hk'] at hv
    simp only [verifyLogin, hm] at hv
    by_cases e : pr.H cfg.token m.ts = m.key
    · exact Or.inl e
    · simp [e] at hv

/-- the model's accepted ping satisfies the predicate -/
theorem model_holdsOn_ping {m : Ping} {s : Session} (hs : byCtl srv conn = some s)
    (h : (handlePing Plugins.id pr cfg srv conn m).1 ≠ srv) :
    holdsOn (.pingMoved (decide (s.vk = .alwaysPass)) cfg.hb (keyOk pr cfg srv.subjects m.ts m.key)) = true := by
  obtain ⟨s', m', hs', hp, hor⟩ := ping_moved_needs_key h
  simp only [Plugins.id, Option.some.injEq] at hp
  subst hp
  rw [hs] at hs'
  cases hs'
  simp only [holdsOn, Bool.or_eq_true, decide_eq_true_eq, Bool.not_eq_true']
  rcases hor with h1 | h1 | h1
  · exact Or.inl (Or.inl h1)
  · exact Or.inl (Or.inr h1)
  · exact Or.inr h1

/-- the REPAIRED model's pooled work connection satisfies the predicate in every state; the model of
    the code as it is does so in states without always-pass sessions (see `workconn_scope_witness`) -/
theorem model_holdsOn_work_fixed {m : WorkConn}
    (h : (registerWork true Plugins.id pr cfg srv internal conn m).2.closed = false) :
    ∃ s, lookup srv m.runId = some s ∧
      holdsOn (.pooled true internal (decide (s.vk = .alwaysPass)) cfg.wc
        (keyOk pr cfg srv.subjects m.ts m.key)) = true := by
  obtain ⟨s, m', hl, hp, _, hor, _⟩ := workconn_scope_partial h
  simp only [Plugins.id, Option.some.injEq] at hp
  subst hp
  refine ⟨s, hl, ?_⟩
  simp only [holdsOn, Bool.true_and, Bool.or_eq_true, Bool.not_eq_true', Bool.and_eq_true, decide_eq_true_eq]
  rcases hor with h1 | h1 | h1
  · simp only [workVerifier, Bool.true_and] at h1
    cases internal with
    | false => simp at h1
    | true => simp at h1; exact Or.inr ⟨rfl, h1⟩
  · exact Or.inl (Or.inl h1)
  · exact Or.inl (Or.inr h1)

theorem model_holdsOn_work_no_gateway {m : WorkConn} (hall : AllCfg srv)
    (h : (registerWork false Plugins.id pr cfg srv internal conn m).2.closed = false) :
    ∃ s, lookup srv m.runId = some s ∧
      holdsOn (.pooled true internal (decide (s.vk = .alwaysPass)) cfg.wc
        (keyOk pr cfg srv.subjects m.ts m.key)) = true := by
  obtain ⟨s, m', hl, hp, _, hor, _⟩ := workconn_scope_partial h
  simp only [Plugins.id, Option.some.injEq] at hp
  subst hp
  refine ⟨s, hl, ?_⟩
  have hk := hall s (lookup_mem hl).1
  simp only [holdsOn, Bool.true_and, Bool.or_eq_true, Bool.not_eq_true', Bool.and_eq_true, decide_eq_true_eq]
  rcases hor with h1 | h1 | h1
  · simp only [workVerifier, Bool.false_and] at h1
    rw [hk] at h1; simp at h1
  · exact Or.inl (Or.inl h1)
  · exact Or.inl (Or.inr h1)

/-! ## 7. Source facts (regenerated from /repo by translate/gen_authfacts.go on every run)

  The model takes `internal` as an input; these pin, against the source as it is now, who supplies it
  and who can set the flag:
  * the bypass is selected under exactly `internal && loginMsg.ClientSpec.AlwaysAuthPass`, and that is the
    only read of the field and the only use of `auth.AlwaysPassVerifier` outside pkg/auth;
  * `internal = true` is passed only for `svr.sshTunnelListener`; every other listener passes `false`
    (quic: the literal `false` at handleConnection) and the flag is only forwarded below that;
  * the only code that gives `AlwaysAuthPass` a value is the ssh gateway's virtual client,
    `!s.sc.NoClientAuth`, and `NoClientAuth` is `cfg.AuthorizedKeysFile == ""` - i.e. the exemption is
    granted exactly when the ssh server itself authenticated the user by public key.
  A change of any of these makes this theorem fail to check (the check then reports a broken obligation). -/
open Frp.Gen.AuthGateFacts in
theorem source_facts :
    bypassCond = "internal && loginMsg.ClientSpec.AlwaysAuthPass" ∧
    internalCalls =
      [("HandleListener svr.kcpListener", "false"), ("HandleListener svr.listener", "false"),
       ("HandleListener svr.sshTunnelListener", "true"), ("HandleListener svr.tlsListener", "false"),
       ("HandleListener svr.websocketListener", "false"), ("RegisterControl", "internal"),
       ("handleConnection", "false"), ("handleConnection", "internal"), ("handleConnection", "internal")] ∧
    aapWrites = [("pkg/ssh/server.go", "!s.sc.NoClientAuth")] ∧
    aapReads = ["server/service.go"] ∧
    noClientAuth = ["cfg.AuthorizedKeysFile == \"\""] ∧
    alwaysPassRefs = ["server/service.go"] ∧
    putConnFiles.contains "pkg/ssh/server.go" = true := by
  decide

/-! ## Non-vacuity -/

def exPrim : Prim := { H := fun tok ts => tok ++ [ts.toNat], oidcVerify := fun k => if k = [] then none else some k }
def exCfg : Cfg := { method := .token, hb := true, wc := true, token := [116], maxPool := 5 }
def goodLogin : Login := { runId := [], ts := 7, key := [116, 7], aap := false, poolCount := 1, genId := [97] }
def badLogin : Login := { goodLogin with key := [0], aap := true }
def exSrv : Srv := (handleFirst Plugins.id exPrim exCfg Srv.empty false 1 (.login goodLogin)).1

-- a good login creates a session; a bad one (flag set, from the network) is refused and closed
example : (handleFirst Plugins.id exPrim exCfg Srv.empty false 1 (.login goodLogin)).2
    = { reply := .loginOk [97], closed := false } := by decide
example : exSrv.sessions.length = 1 := by decide
example : (handleFirst Plugins.id exPrim exCfg exSrv false 2 (.login badLogin)).2
    = { reply := .loginErr, closed := true } := by decide
-- the same bad login on the internal listener is accepted (always-pass) - the hypothesis
-- `internal = false` of the network theorems is what excludes it
example : (handleFirst Plugins.id exPrim exCfg exSrv true 2 (.login badLogin)).2.closed = false := by decide
example : ¬ AllCfg (handleFirst Plugins.id exPrim exCfg exSrv true 2 (.login badLogin)).1 := by
  intro h
  have := h { runId := [97], ctl := 2, vk := .alwaysPass, poolCap := 11, pool := [], proxies := [], lastPing := 0 }
    (by decide)
  cases this
example : AllCfg exSrv := by
  intro s hs
  have : s = { runId := [97], ctl := 1, vk := .cfg, poolCap := 11, pool := [], proxies := [], lastPing := 0 } := by
    simpa [exSrv, handleFirst, handleFirstG, Plugins.id, registerControl, verifyLogin, verifierFor, exCfg,
      exPrim, goodLogin, effRunId, Srv.empty] using hs
  rw [this]
-- ping: valid key accepted and counted, invalid key answered with an error, state unchanged
example : (handlePing Plugins.id exPrim exCfg exSrv 1 { ts := 3, key := [116, 3] }).2.reply = .pongOk := by decide
example : handlePing Plugins.id exPrim exCfg exSrv 1 { ts := 3, key := [9] }
    = (exSrv, { reply := .pongErr, closed := false }) := by decide
-- work connection: valid key pooled; bad key and unknown run id refused
example : (handleFirst Plugins.id exPrim exCfg exSrv false 5 (.work { runId := [97], ts := 2, key := [116, 2] })).2
    = { reply := .none, closed := false } := by decide
example : (handleFirst Plugins.id exPrim exCfg exSrv false 5 (.work { runId := [97], ts := 2, key := [1] })).2
    = { reply := .startWorkErr, closed := true } := by decide
example : (handleFirst Plugins.id exPrim exCfg exSrv false 5 (.work { runId := [98], ts := 2, key := [116, 2] })).2
    = { reply := .none, closed := true } := by decide
-- a refused burst (three different kinds) satisfies the hypothesis of `refused_no_residue`
example : ∀ a ∈ ([(false, 5, .login badLogin), (false, 6, .work { runId := [98], ts := 2, key := [] }),
      (false, 7, .other)] : List Attempt), Refused false Plugins.id exPrim exCfg exSrv a := by
  intro a ha
  simp only [List.mem_cons, List.not_mem_nil, or_false] at ha
  rcases ha with rfl | rfl | rfl <;> (show (_ : Bool) = true) <;> decide
-- the witness of §3 really pools the connection
example : (registerWork false Plugins.id witPrim witCfg witSrv false 7 { runId := [114], ts := 0, key := [] }).1.sessions.map (·.pool)
    = [[7]] := by decide

end C04
end Frp
