import Frp.Model.AuthGate
import Frp.Lemmas.AuthGate
import Frp.Gen.AuthGateFacts
/-
  C04 - No session, proxy or work connection without valid client credentials.

  All statements are about `Frp.AuthGate` (the model of handleConnection / RegisterControl /
  RegisterWorkConn / handlePing as the code is now) and hold for EVERY plugin behaviour `P`, every
  `Prim` (`H` = util.GetAuthKey; `jwtClaims` / `jwtSigOk` = go-oidc's JWT parsing and signature check; `now`:
  nothing assumed about any of them), every
  configuration, every server state and every message.  `fx` is the repair switch
  (`workVerifierIsFixed`, `false` = code as it is); theorems quantified over `fx` hold for both.

  "accepted key" means exactly: token method `key = H token ts`; OIDC `oidcVerify pr cfg.oidc key = some sub`
  (login) / `… ∧ sub ∈ subjectsFromLogin` (ping, work connection), where `oidcVerify` is the claim-level
  decision of go-oidc under the configuration `auth.NewTokenVerifier` builds (§8: `TokenValid`).  No
  cryptographic claim: "signed by a key the provider publishes" is the abstract `jwtSigOk`.
-/
namespace Frp
namespace C04
open AuthGate

variable {fx : Bool} {P : Plugins} {pr : Prim} {cfg : Cfg} {srv srv' : Srv} {internal : Bool}
  {conn : ConnId} {out : Out}

/-! ## 1. Login -/

/-- the login the plugin chain handed on was accepted by the verifier RegisterControl selected -/
def LoginAccepted (P : Plugins) (pr : Prim) (cfg : Cfg) (srv : Srv) (internal : Bool) (m : Login) : Prop :=
  ∃ m', P.login m = some m' ∧ (verifyLogin pr cfg srv.subjects (verifierFor internal m') m').isSome = true

/-- a login is answered with success only if it was accepted; the reported run id is the effective one -/
theorem login_needs_key {m : Login} {rid : RunId}
    (h : (handleFirstG fx P pr cfg srv internal conn (.login m)).2.reply = .loginOk rid) :
    ∃ m', P.login m = some m' ∧ rid = effRunId m' ∧
      (verifyLogin pr cfg srv.subjects (verifierFor internal m') m').isSome = true := by
  simp only [handleFirstG] at h
  cases hp : P.login m with
  | none => simp [hp] at h
  | some m' =>
    simp only [hp, registerControl] at h
    cases hv : verifyLogin pr cfg srv.subjects (verifierFor internal m') m' with
    | none => simp [hv] at h
    | some sj =>
      simp only [hv] at h
      refine ⟨m', rfl, ?_, by rw [hv]; rfl⟩
      injection h with h
      exact h.symm

/-- a login that is not accepted: `LoginResp{Error}`, connection closed, server state unchanged -/
theorem login_refused {m : Login} (h : ¬ LoginAccepted P pr cfg srv internal m) :
    handleFirstG fx P pr cfg srv internal conn (.login m) = (srv, { reply := .loginErr, closed := true }) := by
  simp only [handleFirstG]
  cases hp : P.login m with
  | none => rfl
  | some m' =>
    simp only [registerControl]
    cases hv : verifyLogin pr cfg srv.subjects (verifierFor internal m') m' with
    | none => rfl
    | some sj => exact absurd ⟨m', hp, by simp [hv]⟩ h

/-- token method, network listener: success ⇒ the key equals `H token ts` (of the login the plugins handed on) -/
theorem login_token_network {m : Login} {rid : RunId} (hm : cfg.method = .token)
    (h : (handleFirstG fx P pr cfg srv false conn (.login m)).2.reply = .loginOk rid) :
    ∃ m', P.login m = some m' ∧ m'.key = pr.H cfg.token m'.ts := by
  obtain ⟨m', hp, _, hv⟩ := login_needs_key h
  refine ⟨m', hp, ?_⟩
  have hk : verifierFor false m' = .cfg := rfl
  rw [hk] at hv
  simp only [verifyLogin, hm] at hv
  by_cases e : pr.H cfg.token m'.ts = m'.key
  · exact e.symm
  · simp [e] at hv

/-- OIDC method, network listener: success ⇒ go-oidc accepted the key, and its subject is recorded -/
theorem login_oidc_network {m : Login} {rid : RunId} (hm : cfg.method = .oidc)
    (h : (handleFirstG fx P pr cfg srv false conn (.login m)).2.reply = .loginOk rid) :
    ∃ m' sub, P.login m = some m' ∧ oidcVerify pr cfg.oidc m'.key = some sub ∧
      sub ∈ (handleFirstG fx P pr cfg srv false conn (.login m)).1.subjects := by
  obtain ⟨m', hp, _, hv⟩ := login_needs_key h
  have hk : verifierFor false m' = .cfg := rfl
  rw [hk] at hv
  simp only [verifyLogin, hm] at hv
  cases ho : oidcVerify pr cfg.oidc m'.key with
  | none => simp [ho] at hv
  | some sub =>
    refine ⟨m', sub, hp, ho, ?_⟩
    simp only [handleFirstG, hp, registerControl, hk, verifyLogin, hm, ho]
    by_cases hs : sub ∈ srv.subjects
    · simp [hs]
    · simp [hs]

/-- RegisterControl from a network listener: the outcome (state AND reply) is the same whatever the
    peer put into `client_spec.always_auth_pass`, for all other fields -/
theorem aap_irrelevant_from_network (m : Login) (b : Bool) :
    registerControl pr cfg srv false conn { m with aap := b } = registerControl pr cfg srv false conn m := by
  simp only [registerControl, verifierFor, Bool.false_and, effRunId, verifyLogin]
  rfl

/-- a plugin chain whose verdict and rewrites do not depend on the flag -/
def PluginAapBlind (P : Plugins) : Prop :=
  ∀ m b, (P.login { m with aap := b }).map (fun x => { x with aap := false })
        = (P.login m).map (fun x => { x with aap := false })

theorem id_aapBlind : PluginAapBlind Plugins.id := by
  intro m b; rfl

/-- whole first-message handler, network listener: same outcome for both values of the flag -/
theorem login_aap_irrelevant (hP : PluginAapBlind P) (m : Login) (b : Bool) :
    handleFirstG fx P pr cfg srv false conn (.login { m with aap := b })
      = handleFirstG fx P pr cfg srv false conn (.login m) := by
  have h := hP m b
  simp only [handleFirstG]
  cases h1 : P.login { m with aap := b } with
  | none =>
    cases h2 : P.login m with
    | none => rfl
    | some y => simp [h1, h2] at h
  | some x =>
    cases h2 : P.login m with
    | none => simp [h1, h2] at h
    | some y =>
      simp only [h1, h2, Option.map_some, Option.some.injEq] at h
      have ex := aap_irrelevant_from_network (pr := pr) (cfg := cfg) (srv := srv) (conn := conn) x false
      have ey := aap_irrelevant_from_network (pr := pr) (cfg := cfg) (srv := srv) (conn := conn) y false
      show registerControl pr cfg srv false conn x = registerControl pr cfg srv false conn y
      rw [← ex, ← ey, h]

/-- who can get the always-pass verifier: only a login on the internal listener carrying the flag -/
theorem alwaysPass_iff (m : Login) : verifierFor internal m = .alwaysPass ↔ internal = true ∧ m.aap = true := by
  unfold verifierFor
  cases internal <;> cases m.aap <;> simp

/-- events that are not a login on the internal listener -/
def NoInternalLogin : Ev → Prop
  | .first true _ (.login _) => False
  | _ => True

/-- events that cannot select the always-pass verifier: everything except a login on the internal
    listener that carries the flag when the plugins hand it on -/
def NoBypassLogin (P : Plugins) : Ev → Prop
  | .first true _ (.login m) => ∀ m', P.login m = some m' → m'.aap = false
  | _ => True

theorem noBypass_of_noInternal {e : Ev} (he : NoInternalLogin e) : NoBypassLogin P e := by
  cases e with
  | first i c m =>
    cases m with
    | login m =>
      cases i with
      | true => exact absurd he (by simp [NoInternalLogin])
      | false => trivial
    | work m => cases i <;> trivial
    | visitor r v => cases i <;> trivial
    | other => cases i <;> trivial
    | garbage => cases i <;> trivial
  | ping c m => trivial
  | newProxy c n => trivial
  | closeProxy c n => trivial
  | drop c => trivial
  | user n => trivial

theorem step_allCfg {e : Ev} (he : NoBypassLogin P e) (h : AllCfg srv) :
    AllCfg (stepG fx P pr cfg srv e).1 := by
  cases e with
  | first i c m =>
    cases m with
    | login m =>
      cases i with
      | true =>
        simp only [stepG, handleFirstG]
        cases hp : P.login m with
        | none => exact h
        | some m' =>
          have ha : m'.aap = false := he m' hp
          simp only [registerControl]
          cases verifyLogin pr cfg srv.subjects (verifierFor true m') m' with
          | none => exact h
          | some sj =>
            intro s hs
            simp only [List.mem_append, List.mem_filter, List.mem_singleton] at hs
            rcases hs with hs | hs
            · exact h s hs.1
            · subst hs; simp [verifierFor, ha]
      | false =>
        simp only [stepG, handleFirstG]
        cases P.login m with
        | none => exact h
        | some m' =>
          simp only [registerControl]
          cases verifyLogin pr cfg srv.subjects (verifierFor false m') m' with
          | none => exact h
          | some sj =>
            intro s hs
            simp only [List.mem_append, List.mem_filter, List.mem_singleton] at hs
            rcases hs with hs | hs
            · exact h s hs.1
            · subst hs; simp [verifierFor]
    | work m =>
      simp only [stepG, handleFirstG, registerWork]
      split
      · exact h
      · split
        · exact h
        · split
          · split
            · exact allCfg_updSession (fun _ => rfl) h
            · exact h
          · exact h
    | visitor rid ok =>
      simp only [stepG, handleFirstG]
      split
      · exact h
      · split <;> exact h
    | other => exact h
    | garbage => exact h
  | ping c m =>
    simp only [stepG, handlePing]
    split
    · exact h
    · split
      · exact h
      · split
        · exact allCfg_updSession (fun _ => rfl) h
        · exact h
  | newProxy c n =>
    simp only [stepG, handleNewProxy]
    split
    · exact h
    · split
      · exact h
      · exact allCfg_updSession (fun _ => rfl) h
  | closeProxy c n =>
    simp only [stepG, handleCloseProxy]
    split
    · exact h
    · exact allCfg_updSession (fun _ => rfl) h
  | drop c =>
    simp only [stepG, sessionEnd]
    intro s hs
    exact h s (List.mem_filter.mp hs).1
  | user n =>
    simp only [stepG, takeWork]
    split
    · exact h
    · split
      · exact h
      · exact allCfg_updSession (fun _ => rfl) h

/-- over EVERY history without a login on the internal listener (whatever the peers send, incl. the
    flag), no session ever holds the always-pass verifier -/
theorem network_never_alwaysPass (evs : List Ev) (hn : ∀ e ∈ evs, NoInternalLogin e) (h : AllCfg srv) :
    AllCfg (runG fx P pr cfg srv evs) := by
  induction evs generalizing srv with
  | nil => exact h
  | cons e rest ih =>
    simp only [runG, List.foldl_cons]
    exact ih (fun x hx => hn x (List.mem_cons_of_mem _ hx))
      (step_allCfg (noBypass_of_noInternal (hn e List.mem_cons_self)) h)

/-! ## 2. Heartbeats -/

/-- what handlePing does, completely: `Pong{}` and a refreshed `lastPing` iff the plugins pass it and
    the session's verifier accepts; otherwise `Pong{Error}` and NOTHING changes.  The session is not
    closed by an invalid ping (it ends when the heartbeat timeout fires on the stale `lastPing`). -/
theorem ping_cases {s : Session} {m : Ping} (hs : byCtl srv conn = some s) :
    (∃ m', P.ping m = some m' ∧ verifyPing pr cfg srv.subjects s.vk m' = true ∧
        handlePing P pr cfg srv conn m =
          (updSession srv s.runId (fun x => { x with lastPing := x.lastPing + 1 }),
           { reply := .pongOk, closed := false }))
    ∨ ((∀ m', P.ping m = some m' → verifyPing pr cfg srv.subjects s.vk m' = false) ∧
        handlePing P pr cfg srv conn m = (srv, { reply := .pongErr, closed := false })) := by
  simp only [handlePing, hs]
  cases hp : P.ping m with
  | none => exact Or.inr ⟨by simp, rfl⟩
  | some m' =>
    by_cases hv : verifyPing pr cfg srv.subjects s.vk m' = true
    · exact Or.inl ⟨m', rfl, hv, by simp [hv]⟩
    · refine Or.inr ⟨?_, by simp [hv]⟩
      intro m'' e
      cases e
      simpa using hv

/-- HeartBeats scope on, ordinary session: a ping whose key is not accepted leaves the whole server
    state (hence `lastPing`) unchanged and is answered with `Pong{Error}` -/
theorem ping_scope {s : Session} {m m' : Ping} (hs : byCtl srv conn = some s) (hk : s.vk = .cfg)
    (hb : cfg.hb = true) (hp : P.ping m = some m')
    (hbad : keyOk pr cfg srv.subjects m'.ts m'.key = false) :
    handlePing P pr cfg srv conn m = (srv, { reply := .pongErr, closed := false }) := by
  simp [handlePing, hs, hp, verifyPing, hk, hb, hbad]

/-- token reading of `ping_scope` -/
theorem ping_scope_token {s : Session} {m m' : Ping} (hs : byCtl srv conn = some s) (hk : s.vk = .cfg)
    (hb : cfg.hb = true) (hm : cfg.method = .token) (hp : P.ping m = some m')
    (hbad : m'.key ≠ pr.H cfg.token m'.ts) :
    handlePing P pr cfg srv conn m = (srv, { reply := .pongErr, closed := false }) := by
  apply ping_scope hs hk hb hp
  simp only [keyOk, hm, decide_eq_false_iff_not]
  exact fun e => hbad e.symm

/-- `lastPing` of a session moves only by an accepted ping on its own control connection -/
theorem ping_moved_needs_key {m : Ping}
    (h : (handlePing P pr cfg srv conn m).1 ≠ srv) :
    ∃ s m', byCtl srv conn = some s ∧ P.ping m = some m' ∧
      (s.vk = .alwaysPass ∨ cfg.hb = false ∨ keyOk pr cfg srv.subjects m'.ts m'.key = true) := by
  cases hs : byCtl srv conn with
  | none => simp [handlePing, hs] at h
  | some s =>
    rcases ping_cases (P := P) (pr := pr) (cfg := cfg) (m := m) hs with ⟨m', hp, hv, _⟩ | ⟨_, e⟩
    · refine ⟨s, m', rfl, hp, ?_⟩
      simp only [verifyPing] at hv
      cases hk : s.vk with
      | alwaysPass => exact Or.inl rfl
      | cfg =>
        simp only [hk, Bool.or_eq_true, Bool.not_eq_true'] at hv
        exact Or.inr hv
    · rw [e] at h; exact absurd rfl h

/-! ## 3. Work connections -/

/-- a work connection stays open (is pooled) only if: the run id names a live session, the plugins
    passed it, the verifier used accepts it, and the pool has room.  `workVerifier` = the SESSION's
    verifier in the code as it is. -/
theorem workconn_scope_partial {m : WorkConn}
    (h : (registerWork fx P pr cfg srv internal conn m).2.closed = false) :
    ∃ s m', lookup srv m.runId = some s ∧ P.work m = some m' ∧ s.pool.length < s.poolCap ∧
      (workVerifier fx internal s = .alwaysPass ∨ cfg.wc = false ∨
        keyOk pr cfg srv.subjects m'.ts m'.key = true) ∧
      (registerWork fx P pr cfg srv internal conn m).1 =
        updSession srv s.runId (fun x => { x with pool := x.pool ++ [conn] }) := by
  simp only [registerWork] at h ⊢
  cases hl : lookup srv m.runId with
  | none => simp [hl] at h
  | some s =>
    simp only [hl] at h ⊢
    cases hp : P.work m with
    | none => simp [hp] at h
    | some m' =>
      simp only [hp] at h ⊢
      by_cases hv : verifyWork pr cfg srv.subjects (workVerifier fx internal s) m' = true
      · simp only [hv, if_true] at h ⊢
        by_cases hc : s.pool.length < s.poolCap
        · simp only [hc, if_true]
          refine ⟨s, m', rfl, rfl, hc, ?_, rfl⟩
          simp only [verifyWork] at hv
          cases hk : workVerifier fx internal s with
          | alwaysPass => exact Or.inl rfl
          | cfg =>
            simp only [hk, Bool.or_eq_true, Bool.not_eq_true'] at hv
            exact Or.inr hv
        · simp [hc] at h
      · simp [hv] at h

/-- otherwise it is refused: closed, and the server state is unchanged (unknown run id: no reply at
    all; plugin/verifier refusal: `StartWorkConn{Error}`; pool full: no reply) -/
theorem workconn_refused {m : WorkConn}
    (h : (registerWork fx P pr cfg srv internal conn m).2.closed = true) :
    (registerWork fx P pr cfg srv internal conn m).1 = srv := by
  simp only [registerWork] at h ⊢
  cases hl : lookup srv m.runId with
  | none => rfl
  | some s =>
    simp only [hl] at h ⊢
    cases hp : P.work m with
    | none => rfl
    | some m' =>
      simp only [hp] at h ⊢
      by_cases hv : verifyWork pr cfg srv.subjects (workVerifier fx internal s) m' = true
      · simp only [hv, if_true] at h ⊢
        by_cases hc : s.pool.length < s.poolCap
        · simp [hc] at h
        · simp [hc]
      · simp [hv]

theorem workconn_unknown_runid {m : WorkConn} (h : lookup srv m.runId = none) :
    registerWork fx P pr cfg srv internal conn m = (srv, { reply := .none, closed := true }) := by
  simp [registerWork, h]

/-- the property's clause at full strength: with the NewWorkConns scope on, a work connection arriving
    on a NETWORK listener is pooled only with an accepted key -/
def WorkconnScopeFull (fx : Bool) : Prop :=
  ∀ (P : Plugins) (pr : Prim) (cfg : Cfg) (srv : Srv) (conn : ConnId) (m : WorkConn),
    cfg.wc = true → (registerWork fx P pr cfg srv false conn m).2.closed = false →
    ∃ s m', lookup srv m.runId = some s ∧ P.work m = some m' ∧
      keyOk pr cfg srv.subjects m'.ts m'.key = true

/-- it holds in every state without always-pass sessions - by `network_never_alwaysPass` every state
    reached without logins on the internal (ssh gateway) listener -/
theorem workconn_scope_no_gateway {m : WorkConn} (hall : AllCfg srv) (hw : cfg.wc = true)
    (h : (registerWork fx P pr cfg srv false conn m).2.closed = false) :
    ∃ s m', lookup srv m.runId = some s ∧ P.work m = some m' ∧
      keyOk pr cfg srv.subjects m'.ts m'.key = true := by
  obtain ⟨s, m', hl, hp, _, hor, _⟩ := workconn_scope_partial h
  refine ⟨s, m', hl, hp, ?_⟩
  have hk := hall s (lookup_mem hl).1
  rcases hor with h1 | h1 | h1
  · simp only [workVerifier] at h1
    split at h1
    · cases h1
    · rw [hk] at h1; cases h1
  · rw [hw] at h1; cases h1
  · exact h1

def witPrim : Prim := { H := fun _ _ => [1], jwtClaims := fun _ => none, jwtSigOk := fun _ => false, now := 0 }
def witCfg : Cfg := { method := .token, hb := false, wc := true, token := [116], maxPool := 5 }
/-- a session the ssh gateway's virtual client created with `AlwaysAuthPass` (ssh did the authentication) -/
def witSrv : Srv :=
  { sessions := [{ runId := [114], ctl := 0, vk := .alwaysPass, poolCap := 10, pool := [], proxies := [], lastPing := 0 }],
    subjects := [] }

/-- CODE AS IT IS: the full clause fails.  A peer on a network listener that names the run id of an
    ssh-gateway session gets its work connection pooled with a wrong key although the scope is on
    (`RegisterWorkConn` verifies with `ctl.authVerifier`, the always-pass verifier of that session). -/
theorem workconn_scope_witness : ¬ WorkconnScopeFull false := by
  intro h
  have := h Plugins.id witPrim witCfg witSrv 7 { runId := [114], ts := 0, key := [] } rfl (by decide)
  obtain ⟨s, m', _, hp, hk⟩ := this
  simp only [Plugins.id, Option.some.injEq] at hp
  subst hp
  revert hk
  simp [keyOk, witCfg, witPrim]

/-- REPAIRED (`workVerifierIsFixed := true`): the full clause holds in every state -/
theorem workconn_scope_fixed : WorkconnScopeFull true := by
  intro P pr cfg srv conn m hw h
  obtain ⟨s, m', hl, hp, _, hor, _⟩ := workconn_scope_partial h
  refine ⟨s, m', hl, hp, ?_⟩
  rcases hor with h1 | h1 | h1
  · simp [workVerifier] at h1
  · rw [hw] at h1; cases h1
  · exact h1

/-! ## 2a. `lastPing` is refreshed by accepted heartbeats only - every event, every history

  server/control.go: `lastPing.Store` is called in `NewControl` and, after `VerifyPing` succeeded, in `handlePing`
  (regenerated source facts `lastPingStores`, `handlePingOrder`).  No other message on the control connection
  (NewProxy, CloseProxy), no first message of another connection naming the session (work / visitor connection,
  refused login) and no user connection touches it. -/

/-- the liveness record (run id, control connection, lastPing) of `s'` is that of a session of `srv` -/
def Kept (srv : Srv) (s' : Session) : Prop :=
  ∃ s ∈ srv.sessions, s.runId = s'.runId ∧ s.ctl = s'.ctl ∧ s.lastPing = s'.lastPing

theorem kept_updSession {rid : RunId} {f : Session → Session} {s' : Session}
    (h : s' ∈ (updSession srv rid f).sessions)
    (hf : ∀ x, (f x).runId = x.runId ∧ (f x).ctl = x.ctl ∧ (f x).lastPing = x.lastPing) : Kept srv s' := by
  obtain ⟨s, hs, e⟩ := mem_updSession h
  subst e
  refine ⟨s, hs, ?_⟩
  split
  · obtain ⟨a, b, c⟩ := hf s
    exact ⟨a.symm, b.symm, c.symm⟩
  · exact ⟨rfl, rfl, rfl⟩

/-- event `e` is a heartbeat that the plugins passed and the session's verifier accepted, on the control
    connection of a session with run id `rid` -/
def AcceptedPingOn (P : Plugins) (pr : Prim) (cfg : Cfg) (srv : Srv) (e : Ev) (rid : RunId) : Prop :=
  ∃ c m s m', e = .ping c m ∧ byCtl srv c = some s ∧ s.runId = rid ∧ P.ping m = some m' ∧
    verifyPing pr cfg srv.subjects s.vk m' = true

/-- ONE STEP, EVERY EVENT: a session of the state afterwards either has the liveness record of a session before,
    or is a fresh session of an accepted login (`lastPing` = the moment of `NewControl`), or the event is an
    accepted heartbeat on a session with its run id and `lastPing` moved by exactly that one -/
theorem lastPing_step {e : Ev} {s' : Session} (h : s' ∈ (stepG fx P pr cfg srv e).1.sessions) :
    Kept srv s'
    ∨ (s'.lastPing = 0 ∧ ∃ i m, e = .first i s'.ctl (.login m) ∧ LoginAccepted P pr cfg srv i m)
    ∨ (AcceptedPingOn P pr cfg srv e s'.runId ∧
        ∃ t ∈ srv.sessions, t.runId = s'.runId ∧ t.ctl = s'.ctl ∧ s'.lastPing = t.lastPing + 1) := by
  have keep : s' ∈ srv.sessions → Kept srv s' := fun hs => ⟨s', hs, rfl, rfl, rfl⟩
  cases e with
  | first i c m =>
    cases m with
    | login m =>
      simp only [stepG, handleFirstG] at h
      cases hp : P.login m with
      | none => simp only [hp] at h; exact Or.inl (keep h)
      | some m' =>
        simp only [hp, registerControl] at h
        cases hv : verifyLogin pr cfg srv.subjects (verifierFor i m') m' with
        | none => simp only [hv] at h; exact Or.inl (keep h)
        | some sj =>
          simp only [hv, List.mem_append, List.mem_filter, List.mem_singleton] at h
          rcases h with ⟨hs, _⟩ | hs
          · exact Or.inl (keep hs)
          · subst hs
            exact Or.inr (Or.inl ⟨rfl, i, m, rfl, m', hp, by simp [hv]⟩)
    | work m =>
      left
      simp only [stepG, handleFirstG] at h
      by_cases hc : (registerWork fx P pr cfg srv i c m).2.closed = true
      · rw [workconn_refused hc] at h; exact keep h
      · obtain ⟨t, _, _, _, _, _, e⟩ := workconn_scope_partial (by simpa using hc)
        rw [e] at h
        exact kept_updSession h (fun _ => ⟨rfl, rfl, rfl⟩)
    | visitor rid ok =>
      left
      have : (stepG fx P pr cfg srv (.first i c (.visitor rid ok))).1 = srv := by
        simp only [stepG, handleFirstG]
        split
        · rfl
        · split <;> rfl
      rw [this] at h; exact keep h
    | other => exact Or.inl (keep h)
    | garbage => exact Or.inl (keep h)
  | ping c m =>
    cases hs : byCtl srv c with
    | none =>
      left
      simp only [stepG, handlePing, hs] at h
      exact keep h
    | some s =>
      rcases ping_cases (P := P) (pr := pr) (cfg := cfg) (m := m) hs with ⟨m', hp, hv, e⟩ | ⟨_, e⟩
      · simp only [stepG, e] at h
        obtain ⟨t, ht, et⟩ := mem_updSession h
        by_cases hr : t.runId = s.runId
        · rw [if_pos hr] at et
          subst et
          exact Or.inr (Or.inr ⟨⟨c, m, s, m', rfl, hs, hr.symm, hp, hv⟩, t, ht, rfl, rfl, rfl⟩)
        · rw [if_neg hr] at et
          subst et
          exact Or.inl (keep ht)
      · simp only [stepG, e] at h
        exact Or.inl (keep h)
  | newProxy c n =>
    left
    simp only [stepG, handleNewProxy] at h
    split at h
    · exact keep h
    · split at h
      · exact keep h
      · exact kept_updSession h (fun _ => ⟨rfl, rfl, rfl⟩)
  | closeProxy c n =>
    left
    simp only [stepG, handleCloseProxy] at h
    split at h
    · exact keep h
    · exact kept_updSession h (fun _ => ⟨rfl, rfl, rfl⟩)
  | drop c =>
    left
    simp only [stepG, sessionEnd, List.mem_filter] at h
    exact keep h.1
  | user n =>
    left
    simp only [stepG, takeWork] at h
    split at h
    · exact keep h
    · split at h
      · exact keep h
      · exact kept_updSession h (fun _ => ⟨rfl, rfl, rfl⟩)

/-- OVER EVERY HISTORY in which no heartbeat is accepted on run id `rid` (invalid heartbeats, NewProxy / CloseProxy
    requests, work and visitor connections, refused logins, user connections - in any number and order): the
    `lastPing` of a session with that run id is still the one a session with that run id started the history
    with, or that of its own login (0).  "Heartbeats without a valid key do not keep a session alive", and nothing
    else does either. -/
theorem lastPing_frozen_without_valid_ping (evs : List Ev) {rid : RunId}
    (hno : ∀ pre e post, evs = pre ++ e :: post → ¬ AcceptedPingOn P pr cfg (runG fx P pr cfg srv pre) e rid)
    {s' : Session} (h : s' ∈ (runG fx P pr cfg srv evs).sessions) (hr : s'.runId = rid) :
    s'.lastPing = 0 ∨ ∃ s ∈ srv.sessions, s.runId = rid ∧ s.lastPing = s'.lastPing := by
  induction evs generalizing srv with
  | nil => exact Or.inr ⟨s', h, hr, rfl⟩
  | cons e rest ih =>
    simp only [runG, List.foldl_cons] at h
    have hno' : ∀ pre e' post, rest = pre ++ e' :: post →
        ¬ AcceptedPingOn P pr cfg (runG fx P pr cfg (stepG fx P pr cfg srv e).1 pre) e' rid := by
      intro pre e' post he
      have := hno (e :: pre) e' post (by rw [he]; rfl)
      simpa only [runG, List.foldl_cons] using this
    rcases ih hno' h with h0 | ⟨s1, hs1, hr1, hl1⟩
    · exact Or.inl h0
    · rcases lastPing_step hs1 with ⟨s, hs, e1, _, e3⟩ | ⟨h0, _⟩ | ⟨hacc, _⟩
      · exact Or.inr ⟨s, hs, by rw [e1, hr1], by rw [e3, hl1]⟩
      · exact Or.inl (by rw [← hl1]; exact h0)
      · rw [hr1] at hacc
        exact absurd hacc (hno [] e rest rfl)

/-! ## 2b. The key function: what "a valid key" proves

  `Prim.H` = util.GetAuthKey is abstract.  Everything above says "accepted ⇒ key = H token ts".  That this means
  "the peer knows the token" needs one ASSUMPTION about the function: for a fixed timestamp, different tokens give
  different keys (`KeyInjective`).  It is an assumption about MD5 over token ++ decimal(ts) (no collision is
  known between such strings; MD5 is not injective on all strings) and is EVALUATED on the implementation by the
  engine (ops `authkey` / `authkey2`: util.GetAuthKey against two independent MD5s, tokens of 0 … 200 bytes,
  proper prefixes and extensions of one another, multi-byte UTF-8, all magnitudes of timestamps).  Under it a key
  computed from ANY other token - a prefix, an extension, a token that differs in one byte - is refused on all
  three paths. -/

def KeyInjective (H : Str → Int → Key) : Prop := ∀ a b ts, H a ts = H b ts → a = b

/-- a login accepted from a network listener carries the key of the configured token and of no other token -/
theorem login_proves_token (hinj : KeyInjective pr.H) (hm : cfg.method = .token) {m : Login} {rid : RunId}
    (h : (handleFirstG fx Plugins.id pr cfg srv false conn (.login m)).2.reply = .loginOk rid) {tok : Str}
    (hk : m.key = pr.H tok m.ts) : tok = cfg.token := by
  obtain ⟨m', hp, e⟩ := login_token_network hm h
  simp only [Plugins.id, Option.some.injEq] at hp
  subst hp
  exact hinj _ _ _ (hk.symm.trans e)

/-- … so a login whose key was computed from another token is refused and changes nothing (the flag does not help) -/
theorem other_token_login_refused (hinj : KeyInjective pr.H) (hm : cfg.method = .token) {tok : Str}
    (hne : tok ≠ cfg.token) (m : Login) :
    handleFirstG fx Plugins.id pr cfg srv false conn (.login { m with key := pr.H tok m.ts })
      = (srv, { reply := .loginErr, closed := true }) := by
  apply login_refused
  rintro ⟨m', hp, hv⟩
  simp only [Plugins.id, Option.some.injEq] at hp
  subst hp
  have hk : verifierFor false { m with key := pr.H tok m.ts } = .cfg := rfl
  rw [hk] at hv
  simp only [verifyLogin, hm] at hv
  by_cases e : pr.H cfg.token m.ts = pr.H tok m.ts
  · exact hne (hinj _ _ _ e).symm
  · simp [e] at hv

/-- HeartBeats scope on: a heartbeat whose key was computed from another token changes nothing -/
theorem other_token_ping_refused (hinj : KeyInjective pr.H) (hm : cfg.method = .token) (hb : cfg.hb = true)
    {s : Session} (hs : byCtl srv conn = some s) (hk : s.vk = .cfg) {tok : Str} (hne : tok ≠ cfg.token) (ts : Int) :
    handlePing Plugins.id pr cfg srv conn { ts := ts, key := pr.H tok ts }
      = (srv, { reply := .pongErr, closed := false }) := by
  apply ping_scope_token hs hk hb hm (m' := { ts := ts, key := pr.H tok ts }) rfl
  exact fun e => hne (hinj _ _ _ e)

/-- NewWorkConns scope on: a work connection from the network whose key was computed from another token is refused
    (closed, nothing pooled, state unchanged), whatever session it names -/
theorem other_token_work_refused (hinj : KeyInjective pr.H) (hm : cfg.method = .token) (hw : cfg.wc = true)
    {tok : Str} (hne : tok ≠ cfg.token) (rid : RunId) (ts : Int) :
    (registerWork true Plugins.id pr cfg srv false conn { runId := rid, ts := ts, key := pr.H tok ts }).2.closed = true ∧
    (registerWork true Plugins.id pr cfg srv false conn { runId := rid, ts := ts, key := pr.H tok ts }).1 = srv := by
  have hc : (registerWork true Plugins.id pr cfg srv false conn { runId := rid, ts := ts, key := pr.H tok ts }).2.closed
      = true := by
    cases hcl : (registerWork true Plugins.id pr cfg srv false conn
        { runId := rid, ts := ts, key := pr.H tok ts }).2.closed with
    | true => rfl
    | false =>
      obtain ⟨s, m', _, hp, _, hor, _⟩ := workconn_scope_partial hcl
      simp only [Plugins.id, Option.some.injEq] at hp
      subst hp
      rcases hor with h1 | h1 | h1
      · simp [workVerifier] at h1
      · rw [hw] at h1; cases h1
      · simp only [keyOk, hm, decide_eq_true_eq] at h1
        exact absurd (hinj _ _ _ h1).symm hne
  exact ⟨hc, workconn_refused hc⟩

/-! ## 4. Refused attempts leave nothing behind -/

/-- a first message whose connection the server closes changes nothing: sessions (with their pools,
    proxies, lastPing) and the OIDC subject list are literally the same -/
theorem first_refused_unchanged {i : Bool} {c : ConnId} {m : First}
    (h : (handleFirstG fx P pr cfg srv i c m).2.closed = true) :
    (handleFirstG fx P pr cfg srv i c m).1 = srv := by
  cases m with
  | login m =>
    simp only [handleFirstG] at h ⊢
    cases hp : P.login m with
    | none => rfl
    | some m' =>
      simp only [hp, registerControl] at h ⊢
      cases hv : verifyLogin pr cfg srv.subjects (verifierFor i m') m' with
      | none => rfl
      | some sj => simp [hv] at h
  | work m => exact workconn_refused h
  | visitor rid ok =>
    simp only [handleFirstG]
    split
    · rfl
    · split <;> rfl
  | other => rfl
  | garbage => rfl

/-- refused first messages as (listener kind, connection, message) -/
abbrev Attempt := Bool × ConnId × First

def attemptEv (a : Attempt) : Ev := .first a.1 a.2.1 a.2.2

/-- `a` is refused by the server in state `srv` -/
def Refused (fx : Bool) (P : Plugins) (pr : Prim) (cfg : Cfg) (srv : Srv) (a : Attempt) : Prop :=
  (handleFirstG fx P pr cfg srv a.1 a.2.1 a.2.2).2.closed = true

/-- EVERY sequence of attempts, of any length, each of which the server refuses, leaves the server
    state exactly as it was (so every existing session, its proxies, pool and lastPing are untouched,
    and each attempt is refused in the very same state) -/
theorem refused_no_residue (as : List Attempt) (h : ∀ a ∈ as, Refused fx P pr cfg srv a) :
    runG fx P pr cfg srv (as.map attemptEv) = srv := by
  induction as with
  | nil => rfl
  | cons a rest ih =>
    have ha := h a List.mem_cons_self
    simp only [runG, List.map_cons, List.foldl_cons, attemptEv, stepG]
    rw [first_refused_unchanged ha]
    exact ih (fun x hx => h x (List.mem_cons_of_mem _ hx))

/-- same, with refusal judged along the run (each attempt in the state its predecessors left) -/
def RefusedAlong (fx : Bool) (P : Plugins) (pr : Prim) (cfg : Cfg) : Srv → List Attempt → Prop
  | _, [] => True
  | srv, a :: rest => Refused fx P pr cfg srv a ∧
      RefusedAlong fx P pr cfg (handleFirstG fx P pr cfg srv a.1 a.2.1 a.2.2).1 rest

theorem refused_along_no_residue (as : List Attempt) (h : RefusedAlong fx P pr cfg srv as) :
    runG fx P pr cfg srv (as.map attemptEv) = srv := by
  induction as generalizing srv with
  | nil => rfl
  | cons a rest ih =>
    obtain ⟨ha, hr⟩ := h
    simp only [runG, List.map_cons, List.foldl_cons, attemptEv, stepG]
    rw [first_refused_unchanged ha] at hr ⊢
    exact ih hr

/-- even an ACCEPTED login touches no session with another run id -/
theorem login_others_untouched {m m' : Login} {s : Session} (hp : P.login m = some m')
    (hs : s ∈ srv.sessions) (hne : s.runId ≠ effRunId m') :
    s ∈ (handleFirstG fx P pr cfg srv internal conn (.login m)).1.sessions := by
  simp only [handleFirstG, hp, registerControl]
  cases verifyLogin pr cfg srv.subjects (verifierFor internal m') m' with
  | none => exact hs
  | some sj =>
    simp only [List.mem_append, List.mem_filter, List.mem_singleton]
    exact Or.inl ⟨hs, by simpa using hne⟩

/-- even an ACCEPTED work connection touches no session with another run id -/
theorem work_others_untouched {m : WorkConn} {s : Session}
    (hs : s ∈ srv.sessions) (hne : s.runId ≠ m.runId) :
    s ∈ (handleFirstG fx P pr cfg srv internal conn (.work m)).1.sessions := by
  by_cases h : (registerWork fx P pr cfg srv internal conn m).2.closed = true
  · simp only [handleFirstG]; rw [workconn_refused h]; exact hs
  · obtain ⟨t, _, hl, _, _, _, e⟩ := workconn_scope_partial (by simpa using h)
    simp only [handleFirstG]; rw [e]
    exact other_mem_updSession hs (by rw [(lookup_mem hl).2]; exact hne)

/-! ## 5. Where table entries come from (one step, every event) -/

/-- a control connection appears in the session table only by an accepted login on that connection -/
theorem new_session_only_by_login {e : Ev} {c : ConnId}
    (hnew : c ∈ ctls (stepG fx P pr cfg srv e).1) (hold : c ∉ ctls srv) :
    ∃ i m, e = .first i c (.login m) ∧ LoginAccepted P pr cfg srv i m := by
  cases e with
  | first i c' m =>
    cases m with
    | login m =>
      simp only [stepG, handleFirstG] at hnew
      cases hp : P.login m with
      | none => simp only [hp] at hnew; exact absurd hnew hold
      | some m' =>
        simp only [hp, registerControl] at hnew
        cases hv : verifyLogin pr cfg srv.subjects (verifierFor i m') m' with
        | none => simp only [hv] at hnew; exact absurd hnew hold
        | some sj =>
          simp only [hv, ctls, List.map_append, List.mem_append, List.mem_map, List.mem_filter,
            List.mem_singleton] at hnew
          rcases hnew with ⟨s, ⟨hs, _⟩, e⟩ | ⟨s, hs, e⟩
          · exact absurd (List.mem_map.mpr ⟨s, hs, e⟩) hold
          · subst hs
            simp only at e
            subst e
            exact ⟨i, m, rfl, m', hp, by simp [hv]⟩
    | work m =>
      simp only [stepG, handleFirstG] at hnew
      by_cases h : (registerWork fx P pr cfg srv i c' m).2.closed = true
      · rw [workconn_refused h] at hnew; exact absurd hnew hold
      · obtain ⟨t, _, _, _, _, _, e⟩ := workconn_scope_partial (by simpa using h)
        rw [e] at hnew
        exact absurd (mem_ctls_updSession hnew (fun _ => rfl)) hold
    | visitor rid ok =>
      have : (stepG fx P pr cfg srv (.first i c' (.visitor rid ok))).1 = srv := by
        simp only [stepG, handleFirstG]
        split
        · rfl
        · split <;> rfl
      rw [this] at hnew; exact absurd hnew hold
    | other => exact absurd hnew hold
    | garbage => exact absurd hnew hold
  | ping c' m =>
    simp only [stepG, handlePing] at hnew
    split at hnew
    · exact absurd hnew hold
    · split at hnew
      · exact absurd hnew hold
      · split at hnew
        · exact absurd (mem_ctls_updSession hnew (fun _ => rfl)) hold
        · exact absurd hnew hold
  | newProxy c' n =>
    simp only [stepG, handleNewProxy] at hnew
    split at hnew
    · exact absurd hnew hold
    · split at hnew
      · exact absurd hnew hold
      · exact absurd (mem_ctls_updSession hnew (fun _ => rfl)) hold
  | closeProxy c' n =>
    simp only [stepG, handleCloseProxy] at hnew
    split at hnew
    · exact absurd hnew hold
    · exact absurd (mem_ctls_updSession hnew (fun _ => rfl)) hold
  | drop c' =>
    simp only [stepG, sessionEnd, ctls, List.mem_map, List.mem_filter] at hnew
    obtain ⟨s, ⟨hs, _⟩, e⟩ := hnew
    exact absurd (List.mem_map.mpr ⟨s, hs, e⟩) hold
  | user n =>
    simp only [stepG, takeWork] at hnew
    split at hnew
    · exact absurd hnew hold
    · split at hnew
      · exact absurd hnew hold
      · exact absurd (mem_ctls_updSession hnew (fun _ => rfl)) hold

/-- a proxy is registered only on the control connection of a live (hence logged-in) session -/
theorem proxy_needs_session {name : Str}
    (h : (handleNewProxy srv conn name).2.reply = .proxyOk) : ∃ s, byCtl srv conn = some s := by
  simp only [handleNewProxy] at h
  cases hs : byCtl srv conn with
  | none => simp [hs] at h
  | some s => exact ⟨s, rfl⟩

/-! ## 5a. OIDC at claim level (pkg/auth/oidc.go NewTokenVerifier + go-oidc Verify)

  `oidcVerify` is no longer an abstract function: it is go-oidc's decision over the claims of the token under
  the `oidc.Config` that `auth.NewTokenVerifier` builds from `auth.oidc.{issuer, audience, skipExpiryCheck,
  skipIssuerCheck}`.  Abstract: JWT parsing (`jwtClaims`) and "signed, with a supported algorithm, by a key
  the provider's JWKS publishes, over exactly this payload" (`jwtSigOk`). -/

/-- what a key must be for the configured OIDC verifier to accept it, `c` = its claims -/
def TokenValid (pr : Prim) (oc : OidcCfg) (key : Key) (c : Claims) : Prop :=
  pr.jwtClaims key = some c ∧ pr.jwtSigOk key = true ∧
  (oc.skipIssuer = true ∨ c.iss = oc.issuer ∨ (oc.issuer = googleIss ∧ c.iss = googleIssNoScheme)) ∧
  (oc.audience = [] ∨ oc.audience ∈ c.aud) ∧
  (oc.skipExpiry = true ∨ (¬ c.exp < pr.now ∧ ∀ n, c.nbf = some n → ¬ pr.now + nbfLeeway < n))

theorem timeOk_iff {oc : OidcCfg} {now : Int} {c : Claims} :
    timeOk oc now c = true ↔
      (oc.skipExpiry = true ∨ (¬ c.exp < now ∧ ∀ n, c.nbf = some n → ¬ now + nbfLeeway < n)) := by
  unfold timeOk
  cases hn : c.nbf with
  | none => simp
  | some n => simp

/-- the verifier accepts a key with subject `sub` iff the key is a valid token whose `sub` claim is `sub` -/
theorem oidcVerify_iff {oc : OidcCfg} {key : Key} {sub : Subject} :
    oidcVerify pr oc key = some sub ↔ ∃ c, TokenValid pr oc key c ∧ c.sub = sub := by
  unfold oidcVerify TokenValid
  cases hc : pr.jwtClaims key with
  | none => simp
  | some c =>
    simp only [Option.some.injEq]
    constructor
    · intro h
      split at h
      · rename_i hcond
        simp only [Bool.and_eq_true] at hcond
        obtain ⟨⟨⟨hi, ha⟩, ht⟩, hs⟩ := hcond
        refine ⟨c, ⟨rfl, hs, ?_, ?_, timeOk_iff.mp ht⟩, by simpa using h⟩
        · simp only [issOk, Bool.or_eq_true, Bool.and_eq_true, decide_eq_true_eq] at hi
          rcases hi with (hi | hi) | hi
          · exact Or.inl hi
          · exact Or.inr (Or.inl hi)
          · exact Or.inr (Or.inr hi)
        · simpa [audOk] using ha
      · cases h
    · rintro ⟨c', ⟨hc', hs, hi, ha, ht⟩, hsub⟩
      cases hc'
      have hcond : (issOk oc c && audOk oc c && timeOk oc pr.now c && pr.jwtSigOk key) = true := by
        simp only [Bool.and_eq_true]
        refine ⟨⟨⟨?_, ?_⟩, timeOk_iff.mpr ht⟩, hs⟩
        · simp only [issOk, Bool.or_eq_true, Bool.and_eq_true, decide_eq_true_eq]
          rcases hi with hi | hi | hi
          · exact Or.inl (Or.inl hi)
          · exact Or.inl (Or.inr hi)
          · exact Or.inr hi
        · simpa [audOk] using ha
      simp [hcond, hsub]

/-- the ordinary configuration (no skip option, an audience configured, a non-Google issuer): a valid token
    names exactly the configured issuer, lists the configured audience, is not expired and not used before
    its time (5 min leeway) - "a token the provider issued for this audience" -/
theorem tokenValid_strict {oc : OidcCfg} {key : Key} {c : Claims} (h : TokenValid pr oc key c)
    (hi : oc.skipIssuer = false) (he : oc.skipExpiry = false) (ha : oc.audience ≠ []) (hg : oc.issuer ≠ googleIss) :
    pr.jwtSigOk key = true ∧ c.iss = oc.issuer ∧ oc.audience ∈ c.aud ∧ ¬ c.exp < pr.now ∧
      ∀ n, c.nbf = some n → ¬ pr.now + nbfLeeway < n := by
  obtain ⟨_, hs, h1, h2, h3⟩ := h
  refine ⟨hs, ?_, ?_, ?_⟩
  · rcases h1 with h1 | h1 | h1
    · rw [hi] at h1; cases h1
    · exact h1
    · exact absurd h1.1 hg
  · rcases h2 with h2 | h2
    · exact absurd h2 ha
    · exact h2
  · rcases h3 with h3 | h3
    · rw [he] at h3; cases h3
    · exact h3

/-- OIDC, network listener: a session is created only for a valid token, and its subject is then among
    `subjectsFromLogin` -/
theorem oidc_login_claims {m : Login} {rid : RunId} (hm : cfg.method = .oidc)
    (h : (handleFirstG fx P pr cfg srv false conn (.login m)).2.reply = .loginOk rid) :
    ∃ m' c, P.login m = some m' ∧ TokenValid pr cfg.oidc m'.key c ∧
      c.sub ∈ (handleFirstG fx P pr cfg srv false conn (.login m)).1.subjects := by
  obtain ⟨m', sub, hp, hv, hs⟩ := login_oidc_network hm h
  obtain ⟨c, hc, e⟩ := oidcVerify_iff.mp hv
  exact ⟨m', c, hp, hc, by rw [e]; exact hs⟩

theorem keyOk_oidc {subs : List Subject} {ts : Int} {key : Key} (hm : cfg.method = .oidc)
    (h : keyOk pr cfg subs ts key = true) : ∃ c, TokenValid pr cfg.oidc key c ∧ c.sub ∈ subs := by
  simp only [keyOk, hm, oidcPost] at h
  cases hv : oidcVerify pr cfg.oidc key with
  | none => simp [hv] at h
  | some sub =>
    simp only [hv, decide_eq_true_eq] at h
    obtain ⟨c, hc, e⟩ := oidcVerify_iff.mp hv
    exact ⟨c, hc, by rw [e]; exact h⟩

/-- OIDC with the HeartBeats scope, ordinary session: `lastPing` moves only for a valid token whose subject
    some accepted login put into `subjectsFromLogin` (the list is per SERVER, not per session, and is never
    shortened: the subject of ANY earlier login is good for a ping on ANY session) -/
theorem oidc_ping_claims {m : Ping} {s : Session} (hm : cfg.method = .oidc) (hb : cfg.hb = true)
    (hs : byCtl srv conn = some s) (hk : s.vk = .cfg)
    (h : (handlePing P pr cfg srv conn m).1 ≠ srv) :
    ∃ m' c, P.ping m = some m' ∧ TokenValid pr cfg.oidc m'.key c ∧ c.sub ∈ srv.subjects := by
  obtain ⟨s', m', hs', hp, hor⟩ := ping_moved_needs_key h
  rw [hs] at hs'
  cases hs'
  rcases hor with h1 | h1 | h1
  · rw [hk] at h1; cases h1
  · rw [hb] at h1; cases h1
  · obtain ⟨c, hc, hsub⟩ := keyOk_oidc hm h1
    exact ⟨m', c, hp, hc, hsub⟩

/-- OIDC with the NewWorkConns scope: a work connection from a network listener is pooled only with a valid
    token of a logged-in subject (code as it is now, `workVerifierIsFixed`; every state) -/
theorem oidc_work_claims {m : WorkConn} (hm : cfg.method = .oidc) (hw : cfg.wc = true)
    (h : (registerWork true P pr cfg srv false conn m).2.closed = false) :
    ∃ s m' c, lookup srv m.runId = some s ∧ P.work m = some m' ∧ TokenValid pr cfg.oidc m'.key c ∧
      c.sub ∈ srv.subjects := by
  obtain ⟨s, m', hl, hp, hk⟩ := workconn_scope_fixed P pr cfg srv conn m hw h
  obtain ⟨c, hc, hsub⟩ := keyOk_oidc hm hk
  exact ⟨s, m', c, hl, hp, hc, hsub⟩

/-- `sub` entered `subjectsFromLogin` by this event: a login verified by the configured OIDC verifier -/
def LoginOf (P : Plugins) (pr : Prim) (cfg : Cfg) (sub : Subject) (e : Ev) : Prop :=
  ∃ i c m m', e = .first i c (.login m) ∧ P.login m = some m' ∧ verifierFor i m' = .cfg ∧
    cfg.method = .oidc ∧ oidcVerify pr cfg.oidc m'.key = some sub

theorem verifyLogin_subjects {subs subs' : List Subject} {vk : VKind} {m : Login} {sub : Subject}
    (h : verifyLogin pr cfg subs vk m = some subs') (hs : sub ∈ subs') :
    sub ∈ subs ∨ (vk = .cfg ∧ cfg.method = .oidc ∧ oidcVerify pr cfg.oidc m.key = some sub) := by
  unfold verifyLogin at h
  cases vk with
  | alwaysPass => simp only [Option.some.injEq] at h; subst h; exact Or.inl hs
  | cfg =>
    cases hm : cfg.method with
    | token =>
      simp only [hm] at h
      split at h
      · simp only [Option.some.injEq] at h; subst h; exact Or.inl hs
      · cases h
    | oidc =>
      simp only [hm] at h
      cases hv : oidcVerify pr cfg.oidc m.key with
      | none => simp [hv] at h
      | some sb =>
        simp only [hv, Option.some.injEq] at h
        subst h
        split at hs
        · exact Or.inl hs
        · simp only [List.mem_append, List.mem_singleton] at hs
          rcases hs with hs | hs
          · exact Or.inl hs
          · subst hs; exact Or.inr ⟨rfl, rfl, rfl⟩

theorem step_subjects {e : Ev} {sub : Subject} (h : sub ∈ (stepG fx P pr cfg srv e).1.subjects) :
    sub ∈ srv.subjects ∨ LoginOf P pr cfg sub e := by
  cases e with
  | first i c m =>
    cases m with
    | login m =>
      simp only [stepG, handleFirstG] at h
      cases hp : P.login m with
      | none => simp only [hp] at h; exact Or.inl h
      | some m' =>
        simp only [hp, registerControl] at h
        cases hv : verifyLogin pr cfg srv.subjects (verifierFor i m') m' with
        | none => simp only [hv] at h; exact Or.inl h
        | some sj =>
          simp only [hv] at h
          rcases verifyLogin_subjects hv h with h1 | ⟨h1, h2, h3⟩
          · exact Or.inl h1
          · exact Or.inr ⟨i, c, m, m', rfl, hp, h1, h2, h3⟩
    | work m =>
      left
      simp only [stepG, handleFirstG] at h
      by_cases hc : (registerWork fx P pr cfg srv i c m).2.closed = true
      · rw [workconn_refused hc] at h; exact h
      · obtain ⟨t, _, _, _, _, _, e⟩ := workconn_scope_partial (by simpa using hc)
        rw [e] at h; exact h
    | visitor rid ok =>
      left
      have : (stepG fx P pr cfg srv (.first i c (.visitor rid ok))).1 = srv := by
        simp only [stepG, handleFirstG]
        split
        · rfl
        · split <;> rfl
      rw [this] at h; exact h
    | other => exact Or.inl h
    | garbage => exact Or.inl h
  | ping c m =>
    left
    simp only [stepG, handlePing] at h
    split at h
    · exact h
    · split at h
      · exact h
      · split at h <;> exact h
  | newProxy c n =>
    left
    simp only [stepG, handleNewProxy] at h
    split at h
    · exact h
    · split at h <;> exact h
  | closeProxy c n =>
    left
    simp only [stepG, handleCloseProxy] at h
    split at h <;> exact h
  | drop c => exact Or.inl h
  | user n =>
    left
    simp only [stepG, takeWork] at h
    split at h
    · exact h
    · split at h <;> exact h

/-- over EVERY history: a subject is in `subjectsFromLogin` only if it was there at the start or some
    login in the history was verified (by the configured verifier) with a token of that subject - so the
    subject a ping / work connection must carry is the subject of an accepted login -/
theorem subjects_only_from_logins (evs : List Ev) {sub : Subject}
    (h : sub ∈ (runG fx P pr cfg srv evs).subjects) :
    sub ∈ srv.subjects ∨ ∃ e ∈ evs, LoginOf P pr cfg sub e := by
  induction evs generalizing srv with
  | nil => exact Or.inl h
  | cons e rest ih =>
    simp only [runG, List.foldl_cons] at h
    rcases ih h with h1 | ⟨e', he', hl⟩
    · rcases step_subjects h1 with h2 | h2
      · exact Or.inl h2
      · exact Or.inr ⟨e, List.mem_cons_self, h2⟩
    · exact Or.inr ⟨e', List.mem_cons_of_mem _ he', hl⟩

/-! ## 5c. Time and the provider's key set: no verdict is remembered

  The histories above run with ONE `Prim`.  Here every message arrives at its own `Moment` (clock, JWKS document
  served at that time) and the verifier's key cache is state (`AuthGate.stepT` / `runT`).  Because every theorem
  of this file holds for all `Prim`, it holds at every moment with `primAt pt (mo.idp cache)`; what is added is
  (1) acceptance is decided by the token, the moment, the cache and the login subjects - not by the session table
  and not by what was accepted before (`*_depends`), (2) a token that is not valid NOW is refused after EVERY
  history, including histories in which the very same token was accepted any number of times
  (`replay_refused_after_any_history`), with the two ways a token stops being valid spelled out (`expired_none`,
  `unpublished_none`, `rotated_key_refused`), (3) the cache only ever holds keys the provider published
  (`cache_provenance`). -/

theorem sigOkAt_iff {pt : PrimT} {w : Idp} {key : Key} :
    sigOkAt pt w key = true ↔ pt.jwsOk key = true ∧
      ((∃ j ∈ w.cache, pt.sigBy key j = true) ∨ ∃ ks, w.jwks = some ks ∧ ∃ j ∈ ks, pt.sigBy key j = true) := by
  unfold sigOkAt
  cases hj : w.jwks with
  | none => simp [List.any_eq_true]
  | some ks => simp [List.any_eq_true]

/-- expired now (and the operator did not switch the check off): not accepted, whatever keys are cached or published -/
theorem expired_none {pt : PrimT} {w : Idp} {oc : OidcCfg} {key : Key} {c : Claims}
    (hc : pt.jwtClaims key = some c) (he : oc.skipExpiry = false) (hx : c.exp < w.now) :
    oidcVerify (primAt pt w) oc key = none := by
  simp [oidcVerify, primAt, hc, timeOk, he, hx]

/-- signed by no key that is cached or published now: not accepted, whatever its claims say -/
theorem unpublished_none {pt : PrimT} {w : Idp} {oc : OidcCfg} {key : Key}
    (h1 : ∀ j ∈ w.cache, pt.sigBy key j = false)
    (h2 : ∀ ks, w.jwks = some ks → ∀ j ∈ ks, pt.sigBy key j = false) :
    oidcVerify (primAt pt w) oc key = none := by
  have hs : sigOkAt pt w key = false := by
    cases h : sigOkAt pt w key with
    | false => rfl
    | true =>
      obtain ⟨_, hor⟩ := sigOkAt_iff.mp h
      rcases hor with ⟨j, hj, e⟩ | ⟨ks, hk, j, hj, e⟩
      · rw [h1 j hj] at e; cases e
      · rw [h2 ks hk j hj] at e; cases e
  unfold oidcVerify
  cases hc : (primAt pt w).jwtClaims key with
  | none => rfl
  | some c =>
    have : (primAt pt w).jwtSigOk key = false := hs
    simp [this]

/-- OIDC, network listener: a login whose key the verifier does not accept NOW is refused, nothing changes -/
theorem stale_login_refused {m m' : Login} (hm : cfg.method = .oidc) (hp : P.login m = some m')
    (hv : oidcVerify pr cfg.oidc m'.key = none) :
    handleFirstG fx P pr cfg srv false conn (.login m) = (srv, { reply := .loginErr, closed := true }) := by
  apply login_refused
  rintro ⟨m'', hp', hs⟩
  rw [hp] at hp'
  cases hp'
  have hk : verifierFor false m' = .cfg := rfl
  rw [hk] at hs
  simp [verifyLogin, hm, hv] at hs

/-- OIDC, HeartBeats scope, ordinary session: a ping whose key is not accepted NOW moves nothing -/
theorem stale_ping_refused {s : Session} {m m' : Ping} (hm : cfg.method = .oidc) (hs : byCtl srv conn = some s)
    (hk : s.vk = .cfg) (hb : cfg.hb = true) (hp : P.ping m = some m')
    (hv : oidcVerify pr cfg.oidc m'.key = none) :
    handlePing P pr cfg srv conn m = (srv, { reply := .pongErr, closed := false }) := by
  apply ping_scope hs hk hb hp
  simp [keyOk, hm, oidcPost, hv]

/-- OIDC, NewWorkConns scope, network listener: a work connection whose key is not accepted NOW is closed,
    nothing changes -/
theorem stale_work_refused {m : WorkConn} (hm : cfg.method = .oidc) (hw : cfg.wc = true)
    (hv : ∀ m', P.work m = some m' → oidcVerify pr cfg.oidc m'.key = none) :
    (registerWork true P pr cfg srv false conn m).2.closed = true ∧
      (registerWork true P pr cfg srv false conn m).1 = srv := by
  have hc : (registerWork true P pr cfg srv false conn m).2.closed = true := by
    cases h : (registerWork true P pr cfg srv false conn m).2.closed with
    | true => rfl
    | false =>
      obtain ⟨s, m', _, hp, hk⟩ := workconn_scope_fixed P pr cfg srv conn m hw h
      simp [keyOk, hm, oidcPost, hv m' hp] at hk
  exact ⟨hc, workconn_refused hc⟩

/-- THE CLAUSE OVER TIMED HISTORIES.  Take any history `evs` - every message at its own moment, the key cache
    evolving as go-oidc's does, the same token possibly accepted in it any number of times - and any later moment
    `mo` at which the verifier does not accept `key` (expired: `expired_none`; its signing key gone from cache and
    JWKS: `unpublished_none` / `rotated_key_refused`).  Then at `mo`: a login with `key` is refused, a heartbeat
    with `key` (scope on) moves nothing, a work connection with `key` (scope on) is closed - and frps's tables
    are unchanged each time. -/
theorem replay_refused_after_any_history {pt : PrimT} (evs : List (Moment × Ev)) (st0 : TSrv) (mo : Moment)
    {key : Key} (hm : cfg.method = .oidc)
    (hv : oidcVerify (primAt pt (mo.idp (runT true P pt cfg st0 evs).cache)) cfg.oidc key = none) :
    let st := runT true P pt cfg st0 evs
    (∀ c m m', P.login m = some m' → m'.key = key →
        (stepT true P pt cfg st mo (.first false c (.login m))).1.srv = st.srv ∧
        (stepT true P pt cfg st mo (.first false c (.login m))).2 = { reply := .loginErr, closed := true }) ∧
    (∀ c s m m', byCtl st.srv c = some s → s.vk = .cfg → cfg.hb = true → P.ping m = some m' → m'.key = key →
        (stepT true P pt cfg st mo (.ping c m)).1.srv = st.srv ∧
        (stepT true P pt cfg st mo (.ping c m)).2 = { reply := .pongErr, closed := false }) ∧
    (∀ c m, cfg.wc = true → (∀ m', P.work m = some m' → m'.key = key) →
        (stepT true P pt cfg st mo (.first false c (.work m))).1.srv = st.srv ∧
        (stepT true P pt cfg st mo (.first false c (.work m))).2.closed = true) := by
  intro st
  refine ⟨?_, ?_, ?_⟩
  · intro c m m' hp hk
    subst hk
    have h := stale_login_refused (fx := true) (srv := st.srv) (conn := c) hm hp hv
    simp only [stepT, stepG]
    rw [h]
    exact ⟨rfl, rfl⟩
  · intro c s m m' hs hk hb hp hkey
    subst hkey
    have h := stale_ping_refused (srv := st.srv) (conn := c) hm hs hk hb hp hv
    simp only [stepT, stepG]
    rw [h]
    exact ⟨rfl, rfl⟩
  · intro c m hw hk
    have h := stale_work_refused (srv := st.srv) (conn := c) (m := m) hm hw
      (fun m' hp => by rw [hk m' hp]; exact hv)
    simp only [stepT, stepG, handleFirstG]
    exact ⟨h.2, h.1⟩

theorem cacheAfterVerify_mem {pt : PrimT} {oc : OidcCfg} {w : Idp} {key : Key} {j : Jwk}
    (h : j ∈ cacheAfterVerify pt oc w key) : j ∈ w.cache ∨ ∃ ks, w.jwks = some ks ∧ j ∈ ks := by
  unfold cacheAfterVerify at h
  split at h
  · exact Or.inl h
  · split at h
    · unfold cacheAfterSig at h
      split at h
      · exact Or.inl h
      · split at h
        · rename_i ks hk
          exact Or.inr ⟨ks, hk, h⟩
        · exact Or.inl h
    · exact Or.inl h

theorem cache_step {pt : PrimT} {st : TSrv} {mo : Moment} {e : Ev} {j : Jwk}
    (h : j ∈ (stepT fx P pt cfg st mo e).1.cache) : j ∈ st.cache ∨ ∃ ks, mo.jwks = some ks ∧ j ∈ ks := by
  simp only [stepT] at h
  split at h
  · exact cacheAfterVerify_mem h
  · exact Or.inl h

/-- over every timed history: a key is in the verifier's cache only if it was there at the start or the
    provider's JWKS document listed it at some moment of the history -/
theorem cache_provenance {pt : PrimT} (evs : List (Moment × Ev)) {st : TSrv} {j : Jwk}
    (h : j ∈ (runT fx P pt cfg st evs).cache) :
    j ∈ st.cache ∨ ∃ me ∈ evs, ∃ ks, me.1.jwks = some ks ∧ j ∈ ks := by
  induction evs generalizing st with
  | nil => exact Or.inl h
  | cons me rest ih =>
    simp only [runT, List.foldl_cons] at h
    rcases ih h with h1 | ⟨me', hme, ks, hk, hj⟩
    · rcases cache_step h1 with h2 | ⟨ks, hk, hj⟩
      · exact Or.inl h2
      · exact Or.inr ⟨me, List.mem_cons_self, ks, hk, hj⟩
    · exact Or.inr ⟨me', List.mem_cons_of_mem _ hme, ks, hk, hj⟩

/-- key rotation: a token signed by a key that was not cached when the history began and that the provider
    published at no moment of the history and does not publish now is not accepted - whatever else happened -/
theorem rotated_key_refused {pt : PrimT} (evs : List (Moment × Ev)) (st0 : TSrv) (mo : Moment) {key : Key}
    (h0 : ∀ j ∈ st0.cache, pt.sigBy key j = false)
    (hh : ∀ me ∈ evs, ∀ ks, me.1.jwks = some ks → ∀ j ∈ ks, pt.sigBy key j = false)
    (hnow : ∀ ks, mo.jwks = some ks → ∀ j ∈ ks, pt.sigBy key j = false) :
    oidcVerify (primAt pt (mo.idp (runT fx P pt cfg st0 evs).cache)) cfg.oidc key = none := by
  apply unpublished_none
  · intro j hj
    rcases cache_provenance evs hj with h1 | ⟨me, hme, ks, hk, hjk⟩
    · exact h0 j h1
    · exact hh me hme ks hk j hjk
  · exact hnow

theorem verifyLogin_isSome_indep {s₁ s₂ : List Subject} {vk : VKind} {m : Login} :
    (verifyLogin pr cfg s₁ vk m).isSome = (verifyLogin pr cfg s₂ vk m).isSome := by
  unfold verifyLogin
  cases vk with
  | alwaysPass => rfl
  | cfg =>
    cases cfg.method with
    | token => simp only; split <;> rfl
    | oidc => simp only; cases oidcVerify pr cfg.oidc m.key <;> rfl

/-- the answer to a login does not depend on the server's state at all: it is a function of the message, the
    configuration and the primitives of the moment -/
theorem login_reply_depends (srv₁ srv₂ : Srv) (c₁ c₂ : ConnId) (m : Login) :
    (handleFirstG fx P pr cfg srv₁ internal c₁ (.login m)).2 =
      (handleFirstG fx P pr cfg srv₂ internal c₂ (.login m)).2 := by
  simp only [handleFirstG]
  cases P.login m with
  | none => rfl
  | some m' =>
    simp only [registerControl]
    have h := verifyLogin_isSome_indep (pr := pr) (cfg := cfg) (s₁ := srv₁.subjects) (s₂ := srv₂.subjects)
      (vk := verifierFor internal m') (m := m')
    cases h1 : verifyLogin pr cfg srv₁.subjects (verifierFor internal m') m' with
    | none =>
      cases h2 : verifyLogin pr cfg srv₂.subjects (verifierFor internal m') m' with
      | none => rfl
      | some _ => simp [h1, h2] at h
    | some _ =>
      cases h2 : verifyLogin pr cfg srv₂.subjects (verifierFor internal m') m' with
      | none => simp [h1, h2] at h
      | some _ => rfl

theorem keyOk_congr {a b : List Subject} (h : ∀ x, x ∈ a ↔ x ∈ b) (ts : Int) (key : Key) :
    keyOk pr cfg a ts key = keyOk pr cfg b ts key := by
  unfold keyOk
  cases cfg.method with
  | token => rfl
  | oidc =>
    simp only [oidcPost]
    cases oidcVerify pr cfg.oidc key with
    | none => rfl
    | some sub => simp only; rw [decide_eq_decide]; exact h sub

/-- the answer to a heartbeat depends on: the message, the moment's primitives, which verifier the session holds
    and WHICH SUBJECTS have logged in - nothing else of the server's state or past -/
theorem ping_reply_depends {srv₁ srv₂ : Srv} {c₁ c₂ : ConnId} {s₁ s₂ : Session}
    (h1 : byCtl srv₁ c₁ = some s₁) (h2 : byCtl srv₂ c₂ = some s₂) (hv : s₁.vk = s₂.vk)
    (hs : ∀ x, x ∈ srv₁.subjects ↔ x ∈ srv₂.subjects) (m : Ping) :
    (handlePing P pr cfg srv₁ c₁ m).2 = (handlePing P pr cfg srv₂ c₂ m).2 := by
  simp only [handlePing, h1, h2]
  cases P.ping m with
  | none => rfl
  | some m' =>
    have e : verifyPing pr cfg srv₁.subjects s₁.vk m' = verifyPing pr cfg srv₂.subjects s₂.vk m' := by
      rw [hv]; unfold verifyPing
      cases s₂.vk with
      | alwaysPass => rfl
      | cfg => simp only; rw [keyOk_congr hs]
    simp only [e]
    split <;> rfl

/-- the fate of a work connection depends on: the message, the moment's primitives, the verifier of the session
    it names, whether that session's pool has room, and which subjects have logged in -/
theorem work_reply_depends {srv₁ srv₂ : Srv} {c₁ c₂ : ConnId} {s₁ s₂ : Session} {m : WorkConn}
    (h1 : lookup srv₁ m.runId = some s₁) (h2 : lookup srv₂ m.runId = some s₂) (hv : s₁.vk = s₂.vk)
    (hroom : s₁.pool.length < s₁.poolCap ↔ s₂.pool.length < s₂.poolCap)
    (hs : ∀ x, x ∈ srv₁.subjects ↔ x ∈ srv₂.subjects) :
    (registerWork fx P pr cfg srv₁ internal c₁ m).2 = (registerWork fx P pr cfg srv₂ internal c₂ m).2 := by
  simp only [registerWork, h1, h2]
  cases P.work m with
  | none => rfl
  | some m' =>
    have e : verifyWork pr cfg srv₁.subjects (workVerifier fx internal s₁) m'
        = verifyWork pr cfg srv₂.subjects (workVerifier fx internal s₂) m' := by
      have : workVerifier fx internal s₁ = workVerifier fx internal s₂ := by simp only [workVerifier, hv]
      rw [this]; unfold verifyWork
      cases workVerifier fx internal s₂ with
      | alwaysPass => rfl
      | cfg => simp only; rw [keyOk_congr hs]
    simp only [e]
    split
    · by_cases hr : s₁.pool.length < s₁.poolCap
      · simp [hr, hroom.mp hr]
      · have hr2 : ¬ s₂.pool.length < s₂.poolCap := fun h => hr (hroom.mpr h)
        simp [hr, hr2]
    · rfl

/-- THE SAME OVER TIMED HISTORIES.  Two histories whatsoever (`evs₁`, `evs₂` from any states - in one of them the
    token may have been accepted a hundred times, in the other never) that leave go-oidc with the same cached keys:
    a login arriving at the same moment gets the same answer. -/
theorem timed_login_depends {pt : PrimT} (evs₁ evs₂ : List (Moment × Ev)) (st₁ st₂ : TSrv) (mo : Moment)
    (c₁ c₂ : ConnId) (m : Login)
    (hc : (runT fx P pt cfg st₁ evs₁).cache = (runT fx P pt cfg st₂ evs₂).cache) :
    (stepT fx P pt cfg (runT fx P pt cfg st₁ evs₁) mo (.first internal c₁ (.login m))).2 =
      (stepT fx P pt cfg (runT fx P pt cfg st₂ evs₂) mo (.first internal c₂ (.login m))).2 := by
  simp only [stepT, stepG, hc]
  exact login_reply_depends _ _ _ _ _

/-- … a heartbeat: the same answer if, besides the cached keys, the two sessions hold the same kind of verifier and
    the same subjects have logged in -/
theorem timed_ping_depends {pt : PrimT} (evs₁ evs₂ : List (Moment × Ev)) (st₁ st₂ : TSrv) (mo : Moment)
    {c₁ c₂ : ConnId} {s₁ s₂ : Session} (m : Ping)
    (hc : (runT fx P pt cfg st₁ evs₁).cache = (runT fx P pt cfg st₂ evs₂).cache)
    (h1 : byCtl (runT fx P pt cfg st₁ evs₁).srv c₁ = some s₁) (h2 : byCtl (runT fx P pt cfg st₂ evs₂).srv c₂ = some s₂)
    (hv : s₁.vk = s₂.vk)
    (hs : ∀ x, x ∈ (runT fx P pt cfg st₁ evs₁).srv.subjects ↔ x ∈ (runT fx P pt cfg st₂ evs₂).srv.subjects) :
    (stepT fx P pt cfg (runT fx P pt cfg st₁ evs₁) mo (.ping c₁ m)).2 =
      (stepT fx P pt cfg (runT fx P pt cfg st₂ evs₂) mo (.ping c₂ m)).2 := by
  simp only [stepT, stepG, hc]
  exact ping_reply_depends h1 h2 hv hs m

/-- … a work connection: additionally whether the named session's pool has room -/
theorem timed_work_depends {pt : PrimT} (evs₁ evs₂ : List (Moment × Ev)) (st₁ st₂ : TSrv) (mo : Moment)
    {c₁ c₂ : ConnId} {s₁ s₂ : Session} {m : WorkConn}
    (hc : (runT fx P pt cfg st₁ evs₁).cache = (runT fx P pt cfg st₂ evs₂).cache)
    (h1 : lookup (runT fx P pt cfg st₁ evs₁).srv m.runId = some s₁)
    (h2 : lookup (runT fx P pt cfg st₂ evs₂).srv m.runId = some s₂) (hv : s₁.vk = s₂.vk)
    (hroom : s₁.pool.length < s₁.poolCap ↔ s₂.pool.length < s₂.poolCap)
    (hs : ∀ x, x ∈ (runT fx P pt cfg st₁ evs₁).srv.subjects ↔ x ∈ (runT fx P pt cfg st₂ evs₂).srv.subjects) :
    (stepT fx P pt cfg (runT fx P pt cfg st₁ evs₁) mo (.first internal c₁ (.work m))).2 =
      (stepT fx P pt cfg (runT fx P pt cfg st₂ evs₂) mo (.first internal c₂ (.work m))).2 := by
  simp only [stepT, stepG, hc, handleFirstG]
  exact work_reply_depends h1 h2 hv hroom hs

/-- refused attempts at ANY moments (clock and key set changing between them, the key cache refreshed by them):
    frps's tables stay what they were -/
theorem refused_no_residue_timed {pt : PrimT} (as : List (Moment × Attempt)) (st : TSrv)
    (h : ∀ a ∈ as, ∀ cache, Refused fx P (primAt pt (a.1.idp cache)) cfg st.srv a.2) :
    (runT fx P pt cfg st (as.map (fun a => (a.1, attemptEv a.2)))).srv = st.srv := by
  induction as generalizing st with
  | nil => rfl
  | cons a rest ih =>
    have ha := h a List.mem_cons_self st.cache
    have e : (stepT fx P pt cfg st a.1 (attemptEv a.2)).1.srv = st.srv := by
      simp only [stepT, attemptEv, stepG]
      exact first_refused_unchanged ha
    simp only [runT, List.map_cons, List.foldl_cons]
    have := ih (stepT fx P pt cfg st a.1 (attemptEv a.2)).1
      (fun x hx cache => by rw [e]; exact h x (List.mem_cons_of_mem _ hx) cache)
    simp only [runT] at this
    rw [this, e]

/-! ## 5d. User connections are served by checked work connections only -/

theorem pooled_updSession_sub {rid : RunId} {f : Session → Session} {d : ConnId}
    (hf : ∀ x, ∀ y ∈ (f x).pool, y ∈ x.pool) (h : d ∈ pooled (updSession srv rid f)) : d ∈ pooled srv := by
  simp only [pooled, List.mem_flatMap] at h ⊢
  obtain ⟨t, ht, hd⟩ := h
  obtain ⟨s, hs, e⟩ := mem_updSession ht
  subst e
  split at hd
  · exact ⟨s, hs, hf s d hd⟩
  · exact ⟨s, hs, hd⟩

/-- `Control.GetWorkConn`: what a user connection is joined with was in the pool -/
theorem user_served_from_pool {name : Str} {c : ConnId} (h : (takeWork srv name).2 = some c) : c ∈ pooled srv := by
  unfold takeWork at h
  cases ho : proxyOwner srv name with
  | none => simp [ho] at h
  | some s =>
    simp only [ho] at h
    cases hp : s.pool with
    | nil => simp [hp] at h
    | cons x rest =>
      simp only [hp, Option.some.injEq] at h
      subst h
      simp only [pooled, List.mem_flatMap]
      exact ⟨s, List.mem_of_find?_eq_some ho, by rw [hp]; exact List.mem_cons_self⟩

/-- one step, every event: a connection is in some pool afterwards only if it was before or this very event is
    a work connection on it that the server kept open (i.e. that passed `workconn_scope_partial`'s conditions) -/
theorem pooled_step {e : Ev} {c : ConnId} (h : c ∈ pooled (stepG fx P pr cfg srv e).1) :
    c ∈ pooled srv ∨ ∃ i m, e = .first i c (.work m) ∧ (registerWork fx P pr cfg srv i c m).2.closed = false := by
  cases e with
  | first i c' m =>
    cases m with
    | login m =>
      left
      simp only [stepG, handleFirstG] at h
      cases hp : P.login m with
      | none => simp only [hp] at h; exact h
      | some m' =>
        simp only [hp, registerControl] at h
        cases hv : verifyLogin pr cfg srv.subjects (verifierFor i m') m' with
        | none => simp only [hv] at h; exact h
        | some sj =>
          simp only [hv, pooled, List.flatMap_append, List.mem_append, List.mem_flatMap, List.mem_filter,
            List.mem_singleton] at h
          rcases h with ⟨s, ⟨hs, _⟩, hc⟩ | ⟨s, hs, hc⟩
          · simp only [pooled, List.mem_flatMap]; exact ⟨s, hs, hc⟩
          · subst hs; simp at hc
    | work m =>
      simp only [stepG, handleFirstG] at h
      by_cases hc : (registerWork fx P pr cfg srv i c' m).2.closed = true
      · rw [workconn_refused hc] at h; exact Or.inl h
      · have hc' : (registerWork fx P pr cfg srv i c' m).2.closed = false := by simpa using hc
        obtain ⟨t, _, _, _, _, _, e⟩ := workconn_scope_partial hc'
        rw [e] at h
        rcases pooled_updSession_mem h with h1 | h1
        · exact Or.inl h1
        · subst h1; exact Or.inr ⟨i, m, rfl, hc'⟩
    | visitor rid ok =>
      left
      have : (stepG fx P pr cfg srv (.first i c' (.visitor rid ok))).1 = srv := by
        simp only [stepG, handleFirstG]
        split
        · rfl
        · split <;> rfl
      rw [this] at h; exact h
    | other => exact Or.inl h
    | garbage => exact Or.inl h
  | ping c' m =>
    left
    simp only [stepG, handlePing] at h
    split at h
    · exact h
    · split at h
      · exact h
      · split at h
        · exact pooled_updSession_sub (f := fun x => { x with lastPing := x.lastPing + 1 }) (fun _ _ hy => hy) h
        · exact h
  | newProxy c' n =>
    left
    simp only [stepG, handleNewProxy] at h
    split at h
    · exact h
    · split at h
      · exact h
      · exact pooled_updSession_sub (f := fun x => { x with proxies := x.proxies ++ [n] }) (fun _ _ hy => hy) h
  | closeProxy c' n =>
    left
    simp only [stepG, handleCloseProxy] at h
    split at h
    · exact h
    · exact pooled_updSession_sub (f := fun x => { x with proxies := x.proxies.filter (fun k => k ≠ n) })
        (fun _ _ hy => hy) h
  | drop c' =>
    left
    simp only [stepG, sessionEnd, pooled, List.mem_flatMap, List.mem_filter] at h ⊢
    obtain ⟨s, ⟨hs, _⟩, hc⟩ := h
    exact ⟨s, hs, hc⟩
  | user n =>
    left
    simp only [stepG, takeWork] at h
    split at h
    · exact h
    · split at h
      · exact h
      · exact pooled_updSession_sub (fun _ _ hy => List.mem_of_mem_drop hy) h

/-- over EVERY history (logins, heartbeats, proxies, drops, user connections, refused attempts of any number): a
    connection sits in a pool only if it did at the start or the history contains a work connection on it that
    the server accepted in the state it was in at that point -/
theorem pooled_only_by_accepted_work (evs : List Ev) {c : ConnId} (h : c ∈ pooled (runG fx P pr cfg srv evs)) :
    c ∈ pooled srv ∨ ∃ pre post i m, evs = pre ++ .first i c (.work m) :: post ∧
      (registerWork fx P pr cfg (runG fx P pr cfg srv pre) i c m).2.closed = false := by
  induction evs generalizing srv with
  | nil => exact Or.inl h
  | cons e rest ih =>
    simp only [runG, List.foldl_cons] at h
    rcases ih h with h1 | ⟨pre, post, i, m, he, hc⟩
    · rcases pooled_step h1 with h2 | ⟨i, m, he, hc⟩
      · exact Or.inl h2
      · exact Or.inr ⟨[], rest, i, m, by rw [he]; rfl, hc⟩
    · refine Or.inr ⟨e :: pre, post, i, m, by rw [he]; rfl, ?_⟩
      simpa only [runG, List.foldl_cons] using hc

/-- … hence a user connection is only ever joined with a work connection that passed the check -/
theorem user_served_by_checked_conn (evs : List Ev) {name : Str} {c : ConnId} (h0 : pooled srv = [])
    (h : (takeWork (runG fx P pr cfg srv evs) name).2 = some c) :
    ∃ pre post i m, evs = pre ++ .first i c (.work m) :: post ∧
      (registerWork fx P pr cfg (runG fx P pr cfg srv pre) i c m).2.closed = false := by
  rcases pooled_only_by_accepted_work evs (user_served_from_pool h) with h1 | h1
  · rw [h0] at h1; cases h1
  · exact h1

/-! ## 5b. The ssh tunnel gateway: the only producer of `internal = true` (pkg/ssh, pkg/virtual) -/

theorem akLookup_aux {l : List (PubKey × Str)} {k : PubKey} {acc : Option Str} {u : Str}
    (h : l.foldl (fun acc e => if e.1 = k then some e.2 else acc) acc = some u) :
    acc = some u ∨ (k, u) ∈ l := by
  induction l generalizing acc with
  | nil => exact Or.inl h
  | cons e rest ih =>
    simp only [List.foldl_cons] at h
    rcases ih h with h1 | h1
    · by_cases hk : e.1 = k
      · simp only [hk, if_true, Option.some.injEq] at h1
        right
        have : e = (k, u) := by cases e; simp_all
        rw [this]; exact List.mem_cons_self
      · simp only [hk, if_false] at h1; exact Or.inl h1
    · exact Or.inr (List.mem_cons_of_mem _ h1)

/-- the user `loadAuthorizedKeysFromFile` yields for a key stands in the file next to that key -/
theorem akLookup_mem {l : List (PubKey × Str)} {k : PubKey} {u : Str} (h : akLookup l k = some u) :
    (k, u) ∈ l := by
  rcases akLookup_aux h with h1 | h1
  · cases h1
  · exact h1

/-- ANY `ssh.ServerConfig` with NoClientAuth off and no password / keyboard-interactive / gssapi callback: the only
    request golang.org/x/crypto/ssh can accept is a publickey request for a key the PublicKeyCallback accepts,
    signed by the client.  (Which fields NewGateway sets is a regenerated source fact: `sshCfgWrites`.) -/
theorem ssh_only_pubkey_can_authenticate {sc : SshSrvCfg} {a : SshAuth} {u : Str}
    (hn : sc.noClientAuth = false) (hp : sc.passwordCb = none) (hk : sc.kbdCb = none) (hg : sc.gssapi = none)
    (h : sshTry sc a = .ok u) : ∃ k f, a = .pubkey k true ∧ sc.pubkeyCb = some f ∧ f k = some u := by
  cases a with
  | none => simp [sshTry, hn] at h
  | password pw => simp [sshTry, hp] at h
  | kbd ans => simp [sshTry, hk] at h
  | gssapi => simp [sshTry, hg] at h
  | pubkey k proved =>
    simp only [sshTry] at h
    cases hf : sc.pubkeyCb with
    | none => simp [hf] at h
    | some f =>
      simp only [hf] at h
      cases hu : f k with
      | none => simp [hu] at h
      | some u' =>
        simp only [hu] at h
        cases proved with
        | false => simp at h
        | true =>
          simp only [if_true, SshTry.ok.injEq] at h
          subst h
          exact ⟨k, f, rfl, rfl, hu⟩

/-- the gateway's configuration, authorizedKeysFile configured or not: a password (ANY password, also the empty
    one or the frp token), a keyboard-interactive exchange (any answers) and gssapi never authenticate -/
theorem gw_ssh_other_methods_fail (akSet : Bool) (file : Option (List (PubKey × Str))) (pw : Str) (ans : List Str) :
    sshTry (gwSshCfg akSet file) (.password pw) = .fail ∧ sshTry (gwSshCfg akSet file) (.kbd ans) = .fail ∧
    sshTry (gwSshCfg akSet file) .gssapi = .fail := ⟨rfl, rfl, rfl⟩

/-- whatever a client sends, in whatever order and number: the user-auth loop lets it in only through ONE of its
    requests that was accepted (failures, retries and the 6-failure limit never add a way in) -/
theorem sshAuthLoop_ok {sc : SshSrvCfg} {f nc : Nat} {reqs : List SshAuth} {u : Str}
    (h : sshAuthLoop sc f nc reqs = some u) : ∃ a ∈ reqs, sshTry sc a = .ok u := by
  induction reqs generalizing f nc with
  | nil => simp [sshAuthLoop] at h
  | cons a rest ih =>
    simp only [sshAuthLoop] at h
    split at h
    · cases h
    · cases ht : sshTry sc a with
      | ok u' =>
        simp only [ht, Option.some.injEq] at h
        subst h
        exact ⟨a, List.mem_cons_self, ht⟩
      | abort => simp [ht] at h
      | fail =>
        simp only [ht] at h
        obtain ⟨b, hb, e⟩ := ih h
        exact ⟨b, List.mem_cons_of_mem _ hb, e⟩

/-- authorizedKeysFile configured: the ssh handshake succeeds only for a client that PROVES possession of
    the private key of a key that is listed in the file as it is read at that moment - whatever else it tries
    (none, passwords, keyboard-interactive, gssapi, other keys, listed keys it cannot sign for) -/
theorem ssh_handshake_needs_key {file : Option (List (PubKey × Str))} {reqs : List SshAuth} {u : Str}
    (h : sshHandshake true file reqs = some u) :
    ∃ k l, .pubkey k true ∈ reqs ∧ file = some l ∧ (k, u) ∈ l := by
  obtain ⟨a, ha, ht⟩ := sshAuthLoop_ok h
  obtain ⟨k, f, e, hf, hu⟩ := ssh_only_pubkey_can_authenticate (sc := gwSshCfg true file) rfl rfl rfl rfl ht
  subst e
  simp only [gwSshCfg, Option.some.injEq] at hf
  subst hf
  cases file with
  | none => simp [pubkeyCallback] at hu
  | some l => exact ⟨k, l, ha, rfl, akLookup_mem hu⟩

/-- a client whose ssh handshake fails reaches nothing: no connection on the internal listener, the server
    state is literally unchanged (no session, no proxy, no work connection) -/
theorem gw_refused_unchanged {akSet : Bool} {t : Tunnel} (h : sshHandshake akSet t.file t.reqs = none) :
    gwTunnel fx P pr cfg akSet srv t = (srv, .authFail) := by
  simp [gwTunnel, h]

/-- authorizedKeysFile configured and the client has no authorized key it can sign for: no session -/
theorem gw_unauthorized_no_session {t : Tunnel}
    (h : ¬ ∃ k l u, .pubkey k true ∈ t.reqs ∧ t.file = some l ∧ (k, u) ∈ l) :
    gwTunnel fx P pr cfg true srv t = (srv, .authFail) := by
  apply gw_refused_unchanged
  cases hh : sshHandshake true t.file t.reqs with
  | none => rfl
  | some u =>
    obtain ⟨k, l, h1, h2, h3⟩ := ssh_handshake_needs_key hh
    exact absurd ⟨k, l, u, h1, h2, h3⟩ h

/-- a tunnel comes up only if the handshake succeeded, the command parsed and the login of the virtual
    client was accepted by the verifier RegisterControl selected for it -/
theorem gw_up_needs {akSet : Bool} {t : Tunnel} {rid : RunId} {name : Str}
    (h : (gwTunnel fx P pr cfg akSet srv t).2 = .up rid name) :
    ∃ pu c, sshHandshake akSet t.file t.reqs = some pu ∧ t.cmd = some c ∧
      LoginAccepted P pr cfg srv true (gwLogin pr akSet t c) ∧ name = gwProxyName (gwUser pu c) c.name := by
  unfold gwTunnel at h
  cases hh : sshHandshake akSet t.file t.reqs with
  | none => simp [hh] at h
  | some pu =>
    cases hc : t.cmd with
    | none => simp [hh, hc] at h
    | some c =>
      simp only [hh, hc] at h
      cases hr : (handleFirstG fx P pr cfg srv true t.conn (.login (gwLogin pr akSet t c))).2.reply with
      | loginOk rid' =>
        simp only [hr] at h
        obtain ⟨m', hp, _, hv⟩ := login_needs_key hr
        refine ⟨pu, c, rfl, rfl, ⟨m', hp, hv⟩, ?_⟩
        split at h
        · injection h with _ h2
          exact h2.symm
        · cases h
      | none => simp [hr] at h
      | loginErr => simp [hr] at h
      | startWorkErr => simp [hr] at h
      | visitorOk => simp [hr] at h
      | visitorErr => simp [hr] at h
      | pongOk => simp [hr] at h
      | pongErr => simp [hr] at h
      | proxyOk => simp [hr] at h
      | proxyErr => simp [hr] at h

/-- authorizedKeysFile NOT configured (ssh lets everybody in): the virtual client does not claim the
    exemption, so with token auth a tunnel comes up only when the command carried the right `--token` -/
theorem gw_noauth_needs_token {t : Tunnel} {rid : RunId} {name : Str} (hm : cfg.method = .token)
    (h : (gwTunnel fx Plugins.id pr cfg false srv t).2 = .up rid name) :
    ∃ c, t.cmd = some c ∧ pr.H c.token t.ts = pr.H cfg.token t.ts := by
  obtain ⟨pu, c, _, hc, ⟨m', hp, hv⟩, _⟩ := gw_up_needs h
  simp only [Plugins.id, Option.some.injEq] at hp
  subst hp
  refine ⟨c, hc, ?_⟩
  have hk : verifierFor true (gwLogin pr false t c) = .cfg := rfl
  rw [hk] at hv
  simp only [verifyLogin, hm] at hv
  by_cases e : pr.H cfg.token (gwLogin pr false t c).ts = (gwLogin pr false t c).key
  · exact e.symm
  · simp [e] at hv

/-- nothing that arrives on a network listener is ever handled with `internal = true` -/
theorem net_never_internal (e : NetEv) (c : ConnId) (m : First) : e.toEv ≠ .first true c m := by
  cases e <;> simp [NetEv.toEv]

/-- a plugin chain that does not switch the flag on -/
def PluginNoAap (P : Plugins) : Prop := ∀ m m', P.login m = some m' → m.aap = false → m'.aap = false

theorem id_noAap : PluginNoAap Plugins.id := by
  intro m m' h ha
  simp only [Plugins.id, Option.some.injEq] at h
  subst h; exact ha

/-- this tunnel is entitled to the exemption: authorizedKeysFile configured AND the ssh handshake succeeded
    (by `ssh_handshake_needs_key`: with a listed key the client proved to own) -/
def TunnelAuthorized (akSet : Bool) (t : Tunnel) : Prop :=
  akSet = true ∧ (sshHandshake akSet t.file t.reqs).isSome = true

theorem gw_allCfg {akSet : Bool} {t : Tunnel} (hP : PluginNoAap P) (hn : ¬ TunnelAuthorized akSet t)
    (h : AllCfg srv) : AllCfg (gwTunnel fx P pr cfg akSet srv t).1 := by
  unfold gwTunnel
  cases hh : sshHandshake akSet t.file t.reqs with
  | none => exact h
  | some pu =>
    have hak : akSet = false := by
      cases akSet with
      | false => rfl
      | true => exact absurd ⟨rfl, by simp [hh]⟩ hn
    cases hc : t.cmd with
    | none => exact h
    | some c =>
      have h1 : AllCfg (handleFirstG fx P pr cfg srv true t.conn (.login (gwLogin pr akSet t c))).1 :=
        step_allCfg (fx := fx) (pr := pr) (cfg := cfg) (e := .first true t.conn (.login (gwLogin pr akSet t c)))
          (fun m' hp => hP _ m' hp (by simp [gwLogin, hak])) h
      cases hr : (handleFirstG fx P pr cfg srv true t.conn (.login (gwLogin pr akSet t c))).2.reply with
      | loginOk rid =>
        simp only [hr]
        have h2 := step_allCfg (fx := fx) (P := P) (pr := pr) (cfg := cfg)
          (e := .newProxy t.conn (gwProxyName (gwUser pu c) c.name)) trivial h1
        cases hr2 : (handleNewProxy (handleFirstG fx P pr cfg srv true t.conn (.login (gwLogin pr akSet t c))).1
            t.conn (gwProxyName (gwUser pu c) c.name)).2.reply with
        | proxyOk =>
          simp only
          exact step_allCfg (fx := fx) (P := P) (pr := pr) (cfg := cfg)
            (e := .first true t.wconn (.work { runId := rid, ts := 0, key := [] })) trivial h2
        | _ =>
          simp only
          exact step_allCfg (fx := fx) (P := P) (pr := pr) (cfg := cfg) (e := .drop t.conn) trivial h2
      | _ => simp only [hr]; exact h1

/-- THE SYSTEM, over every history of network events (any peer, any message, any claimed flag) and ssh
    tunnels (any client, any authorized_keys content at the time): if no tunnel in the history was
    entitled to the exemption, no session ever holds the always-pass verifier.  Contrapositive: an
    always-pass session exists only after an ssh client proved an authorized key. -/
theorem sys_alwaysPass_only_by_authorized_key {akSet : Bool} (evs : List SysEv) (hP : PluginNoAap P)
    (hn : ∀ t, SysEv.ssh t ∈ evs → ¬ TunnelAuthorized akSet t) (h : AllCfg srv) :
    AllCfg (sysRun fx P pr cfg akSet srv evs) := by
  induction evs generalizing srv with
  | nil => exact h
  | cons e rest ih =>
    simp only [sysRun, List.foldl_cons]
    apply ih (fun t ht => hn t (List.mem_cons_of_mem _ ht))
    cases e with
    | net e =>
      simp only [sysStep]
      apply step_allCfg _ h
      cases e <;> trivial
    | ssh t => exact gw_allCfg hP (hn t List.mem_cons_self) h

/-! ## 6. The executable predicate the driver evaluates on the implementation's own results -/

/-- what the harness observed of the real frps (all booleans computed by the harness independently of
    frp: `kv` with its own crypto/md5, table lookups in the dump taken before the op) -/
inductive Obs
  | sessionCreated (internal aap kv : Bool)
      -- a login was answered with success / a session appeared; kv = key accepted by the configured method
  | pooled (known internal sessAp scope kv : Bool)
      -- a work connection was pooled; known = run id in the table; sessAp = that session holds always-pass
  | pingMoved (sessAp scope kv : Bool)       -- lastPing of the session changed
  | refused (same : Bool)                    -- the attempt was refused; same = tables after = tables before
  | sshSession (akSet authorized kv ap : Bool)
      -- a session appeared for an ssh client of the gateway; akSet = authorizedKeysFile configured; authorized =
      -- the client proved a key listed in the file at that moment; kv = its command carried the configured
      -- token; ap = the session holds the always-pass verifier
  | userServed (fromPool : Bool)
      -- a user connection was joined with a work connection; fromPool = that connection was in the pool of the
      -- session owning the proxy (so, by `pooled_only_by_accepted_work`, it passed the work-connection check)
  | lastPingMoved (byPing : Bool)
      -- `Control.lastPing` of a session changed while an operation ran; byPing = the operation was a heartbeat on
      -- that session's control connection (whose key `pingMoved` judges)
  | keyFn (agrees : Bool)
      -- util.GetAuthKey(token, ts) was evaluated; agrees = it is hex(md5(token ++ decimal ts)) as computed by two
      -- MD5 implementations that are not frp's (crypto/md5 in the harness, Frp.Md5 in the driver)
  | keyInj (sameToken sameKey : Bool)
      -- util.GetAuthKey was evaluated for two tokens and one timestamp
  deriving DecidableEq, Repr

def holdsOn : Obs → Bool
  | .sessionCreated i a kv => kv || (i && a)
  | .pooled known i ap sc kv => known && (!sc || kv || (i && ap))
  | .pingMoved ap sc kv => ap || !sc || kv
  | .refused same => same
  | .sshSession akSet au kv ap => (if akSet then au else kv) && (!ap || (akSet && au))
  | .userServed fromPool => fromPool
  | .lastPingMoved byPing => byPing
  | .keyFn agrees => agrees
  | .keyInj sameToken sameKey => !sameKey || sameToken

def Spec : Obs → Prop
  | .sessionCreated i a kv => kv = true ∨ (i = true ∧ a = true)
  | .pooled known i ap sc kv => known = true ∧ (sc = false ∨ kv = true ∨ (i = true ∧ ap = true))
  | .pingMoved ap sc kv => ap = true ∨ sc = false ∨ kv = true
  | .refused same => same = true
  | .sshSession akSet au kv ap =>
    ((akSet = true ∧ au = true) ∨ (akSet = false ∧ kv = true)) ∧ (ap = true → akSet = true ∧ au = true)
  | .userServed fromPool => fromPool = true
  | .lastPingMoved byPing => byPing = true
  | .keyFn agrees => agrees = true
  | .keyInj sameToken sameKey => sameKey = true → sameToken = true

theorem holdsOn_sound (o : Obs) : holdsOn o = true ↔ Spec o := by
  cases o with
  | sshSession a b c d => cases a <;> cases b <;> cases c <;> cases d <;> simp [holdsOn, Spec]
  | sessionCreated a b c => cases a <;> cases b <;> cases c <;> simp [holdsOn, Spec]
  | pooled a b c d e => cases a <;> cases b <;> cases c <;> cases d <;> cases e <;> simp [holdsOn, Spec]
  | pingMoved a b c => cases a <;> cases b <;> cases c <;> simp [holdsOn, Spec]
  | refused a => simp [holdsOn, Spec]
  | userServed a => simp [holdsOn, Spec]
  | lastPingMoved a => simp [holdsOn, Spec]
  | keyFn a => simp [holdsOn, Spec]
  | keyInj a b => cases a <;> cases b <;> simp [holdsOn, Spec]

/-- the model's own steps satisfy the liveness predicate: a session whose liveness record is new and not that of a
    fresh login was moved by a heartbeat -/
theorem model_holdsOn_lastPing {e : Ev} {s' : Session} (h : s' ∈ (stepG fx P pr cfg srv e).1.sessions)
    (hk : ¬ Kept srv s') (hf : s'.lastPing ≠ 0) :
    holdsOn (.lastPingMoved (match e with | .ping _ _ => true | _ => false)) = true := by
  rcases lastPing_step h with h1 | ⟨h0, _⟩ | ⟨⟨c, m, _, _, he, _⟩, _⟩
  · exact absurd h1 hk
  · exact absurd h0 hf
  · subst he; rfl

/-- under the assumption about the key function the injectivity predicate holds for every pair of tokens -/
theorem model_holdsOn_keyInj {H : Str → Int → Key} (hinj : KeyInjective H) (a b : Str) (ts : Int) :
    holdsOn (.keyInj (decide (a = b)) (decide (H a ts = H b ts))) = true := by
  by_cases e : H a ts = H b ts
  · simp [holdsOn, hinj a b ts e]
  · simp [holdsOn, e]

/-- the model's own user connection satisfies the predicate -/
theorem model_holdsOn_user {name : Str} {c : ConnId} (h : (takeWork srv name).2 = some c) :
    holdsOn (.userServed (decide (c ∈ pooled srv))) = true := by
  simp [holdsOn, user_served_from_pool h]

/-- the model's own successful OIDC login satisfies the predicate with `kv` = the claim-level decision -/
theorem model_holdsOn_login_oidc {m : Login} {rid : RunId} (hm : cfg.method = .oidc)
    (h : (handleFirstG fx Plugins.id pr cfg srv internal conn (.login m)).2.reply = .loginOk rid) :
    holdsOn (.sessionCreated internal m.aap (oidcVerify pr cfg.oidc m.key).isSome) = true := by
  obtain ⟨m', hp, _, hv⟩ := login_needs_key h
  simp only [Plugins.id, Option.some.injEq] at hp
  subst hp
  simp only [holdsOn, Bool.or_eq_true, Bool.and_eq_true]
  by_cases hk : verifierFor internal m = .alwaysPass
  · exact Or.inr ((alwaysPass_iff m).mp hk)
  · have hk' : verifierFor internal m = .cfg := by
      cases h' : verifierFor internal m with
      | cfg => rfl
      | alwaysPass => exact absurd h' hk
    rw [hk'] at hv
    simp only [verifyLogin, hm] at hv
    cases ho : oidcVerify pr cfg.oidc m.key with
    | none => simp [ho] at hv
    | some sub => exact Or.inl rfl

/-- the model's own tunnel that comes up satisfies the ssh predicate (token method, no plugin) -/
theorem model_holdsOn_ssh {akSet : Bool} {t : Tunnel} {rid : RunId} {name : Str} (hm : cfg.method = .token)
    (h : (gwTunnel fx Plugins.id pr cfg akSet srv t).2 = .up rid name) :
    ∃ c, t.cmd = some c ∧
      holdsOn (.sshSession akSet (sshHandshake akSet t.file t.reqs).isSome
        (decide (pr.H c.token t.ts = pr.H cfg.token t.ts)) akSet) = true := by
  cases akSet with
  | true =>
    obtain ⟨pu, c, hh, hc, _, _⟩ := gw_up_needs h
    exact ⟨c, hc, by simp [holdsOn, hh]⟩
  | false =>
    obtain ⟨c, hc, hk⟩ := gw_noauth_needs_token hm h
    exact ⟨c, hc, by simp [holdsOn, hk]⟩

/-- the model's own successful token login satisfies the predicate (network or internal) -/
theorem model_holdsOn_login {m : Login} {rid : RunId} (hm : cfg.method = .token)
    (h : (handleFirstG fx Plugins.id pr cfg srv internal conn (.login m)).2.reply = .loginOk rid) :
    holdsOn (.sessionCreated internal m.aap (decide (pr.H cfg.token m.ts = m.key))) = true := by
  obtain ⟨m', hp, _, hv⟩ := login_needs_key h
  simp only [Plugins.id, Option.some.injEq] at hp
  subst hp
  simp only [holdsOn, Bool.or_eq_true, decide_eq_true_eq, Bool.and_eq_true]
  by_cases hk : verifierFor internal m = .alwaysPass
  · exact Or.inr ((alwaysPass_iff m).mp hk)
  · have hk' : verifierFor internal m = .cfg := by
      cases h' : verifierFor internal m with
      | cfg => rfl
      | alwaysPass => exact absurd h' hk
    rw [hk'] at hv
    simp only [verifyLogin, hm] at hv
    by_cases e : pr.H cfg.token m.ts = m.key
    · exact Or.inl e
    · simp [e] at hv

/-- the model's accepted ping satisfies the predicate -/
theorem model_holdsOn_ping {m : Ping} {s : Session} (hs : byCtl srv conn = some s)
    (h : (handlePing Plugins.id pr cfg srv conn m).1 ≠ srv) :
    holdsOn (.pingMoved (decide (s.vk = .alwaysPass)) cfg.hb (keyOk pr cfg srv.subjects m.ts m.key)) = true := by
  obtain ⟨s', m', hs', hp, hor⟩ := ping_moved_needs_key h
  simp only [Plugins.id, Option.some.injEq] at hp
  subst hp
  rw [hs] at hs'
  cases hs'
  simp only [holdsOn, Bool.or_eq_true, decide_eq_true_eq, Bool.not_eq_true']
  rcases hor with h1 | h1 | h1
  · exact Or.inl (Or.inl h1)
  · exact Or.inl (Or.inr h1)
  · exact Or.inr h1

/-- the REPAIRED model's pooled work connection satisfies the predicate in every state; the model of
    the code as it is does so in states without always-pass sessions (see `workconn_scope_witness`) -/
theorem model_holdsOn_work_fixed {m : WorkConn}
    (h : (registerWork true Plugins.id pr cfg srv internal conn m).2.closed = false) :
    ∃ s, lookup srv m.runId = some s ∧
      holdsOn (.pooled true internal (decide (s.vk = .alwaysPass)) cfg.wc
        (keyOk pr cfg srv.subjects m.ts m.key)) = true := by
  obtain ⟨s, m', hl, hp, _, hor, _⟩ := workconn_scope_partial h
  simp only [Plugins.id, Option.some.injEq] at hp
  subst hp
  refine ⟨s, hl, ?_⟩
  simp only [holdsOn, Bool.true_and, Bool.or_eq_true, Bool.not_eq_true', Bool.and_eq_true, decide_eq_true_eq]
  rcases hor with h1 | h1 | h1
  · simp only [workVerifier, Bool.true_and] at h1
    cases internal with
    | false => simp at h1
    | true => simp at h1; exact Or.inr ⟨rfl, h1⟩
  · exact Or.inl (Or.inl h1)
  · exact Or.inl (Or.inr h1)

theorem model_holdsOn_work_no_gateway {m : WorkConn} (hall : AllCfg srv)
    (h : (registerWork false Plugins.id pr cfg srv internal conn m).2.closed = false) :
    ∃ s, lookup srv m.runId = some s ∧
      holdsOn (.pooled true internal (decide (s.vk = .alwaysPass)) cfg.wc
        (keyOk pr cfg srv.subjects m.ts m.key)) = true := by
  obtain ⟨s, m', hl, hp, _, hor, _⟩ := workconn_scope_partial h
  simp only [Plugins.id, Option.some.injEq] at hp
  subst hp
  refine ⟨s, hl, ?_⟩
  have hk := hall s (lookup_mem hl).1
  simp only [holdsOn, Bool.true_and, Bool.or_eq_true, Bool.not_eq_true', Bool.and_eq_true, decide_eq_true_eq]
  rcases hor with h1 | h1 | h1
  · simp only [workVerifier, Bool.false_and] at h1
    rw [hk] at h1; simp at h1
  · exact Or.inl (Or.inl h1)
  · exact Or.inl (Or.inr h1)

/-! ## 7. Source facts (regenerated from /repo by translate/gen_authfacts.go on every run)

  The model takes `internal` as an input; these pin, against the source as it is now, who supplies it
  and who can set the flag:
  * the bypass is selected under exactly `internal && loginMsg.ClientSpec.AlwaysAuthPass`, and that is the
    only read of the field and the only use of `auth.AlwaysPassVerifier` outside pkg/auth;
  * `internal = true` is passed only for `svr.sshTunnelListener`; every other listener passes `false`
    (quic: the literal `false` at handleConnection) and the flag is only forwarded below that;
  * the only code that gives `AlwaysAuthPass` a value is the ssh gateway's virtual client,
    `!s.sc.NoClientAuth`, and `NoClientAuth` is `cfg.AuthorizedKeysFile == ""` - i.e. the exemption is
    granted exactly when the ssh server itself authenticated the user by public key.
  A change of any of these makes this theorem fail to check (the check then reports a broken obligation). -/
open Frp.Gen.AuthGateFacts in
theorem source_facts :
    bypassCond = "internal && loginMsg.ClientSpec.AlwaysAuthPass" ∧
    internalCalls =
      [("HandleListener svr.kcpListener", "false"), ("HandleListener svr.listener", "false"),
       ("HandleListener svr.sshTunnelListener", "true"), ("HandleListener svr.tlsListener", "false"),
       ("HandleListener svr.websocketListener", "false"), ("RegisterControl", "internal"),
       ("handleConnection", "false"), ("handleConnection", "internal"), ("handleConnection", "internal")] ∧
    aapWrites = [("pkg/ssh/server.go", "!s.sc.NoClientAuth")] ∧
    aapReads = ["server/service.go"] ∧
    noClientAuth = ["cfg.AuthorizedKeysFile == \"\""] ∧
    alwaysPassRefs = ["server/service.go"] ∧
    putConnFiles.contains "pkg/ssh/server.go" = true := by
  decide

/- the gateway side of the same tie (what `gwTunnel` / `SysEv` assume about the code):
  * the listener handled with `internal = true` is created in NewService, handed to `ssh.NewGateway` and to
    `HandleListener(…, true)`, compared with nil and closed - nothing else in server/ gets hold of it;
  * inside pkg/ssh that listener is only passed on to `NewTunnelServer` and fed by `PutConn(conn)` with the
    connections of the tunnel's own virtual client (pkg/virtual `pipeConnector.Connect`);
  * `TunnelServer.Run` performs `ssh.NewServerConn` first and returns on its error before the virtual client
    exists (no handshake ⇒ nothing reaches frps: `gw_refused_unchanged`);
  * `PublicKeyCallback` reads authorized_keys anew, answers an error when that fails or the offered key is
    not in the map, and otherwise the permissions with the user of that key (`pubkeyCallback`). -/
open Frp.Gen.AuthGateFacts in
theorem source_facts_gateway :
    sshListenerRefs =
      ["declared *netpkg.InternalListener",
       "ssh.NewGateway(cfg.SSHTunnelGateway, cfg.ProxyBindAddr, svr.sshTunnelListener)",
       "sshTunnelListener: netpkg.NewInternalListener()", "svr.HandleListener(svr.sshTunnelListener, true)",
       "svr.sshTunnelListener != nil", "svr.sshTunnelListener.Close()"] ∧
    gwListenerUses =
      ["NewTunnelServer(conn, g.sshConfig, g.peerServerListener)", "declared *netpkg.InternalListener",
       "peerServerListener: peerServerListener", "s.peerServerListener.PutConn(conn)"] ∧
    gwPutConns =
      [("pkg/ssh/server.go", "s.peerServerListener.PutConn(conn)"),
       ("pkg/virtual/client.go", "pc.peerListener.PutConn(c1)")] ∧
    gwRunCalls =
      ["after handshake: if err != nil { return err }", "ssh.NewServerConn", "virtual.NewClient",
       "s.peerServerListener.PutConn"] ∧
    pubkeyCallbackSrc =
      [("assign", "authorizedKeysMap, err := loadAuthorizedKeysFromFile(cfg.AuthorizedKeysFile)"),
       ("return if err != nil", "nil, fmt.Errorf(…)"),
       ("assign", "user, ok := authorizedKeysMap[string(key.Marshal())]"),
       ("return if !ok", "nil, fmt.Errorf(…)"),
       ("return if ", "&ssh.Permissions{ Extensions: map[string]string{ \"user\": user, }, }, nil")] := by
  decide

/- where `internal` comes from (the model takes it as an input of every first message; `NetEv` has none):
  * `internal bool` is a PARAMETER of HandleListener, handleConnection, RegisterControl and RegisterWorkConn; every
    identifier `internal` in server/ is such a parameter declaration or a use that resolves to one - it is never
    assigned, redeclared or computed inside a function body;
  * the two identifiers of the bypass condition are parameters of RegisterControl;
  * no function or function literal of server/ takes a net.Conn / net.Listener / net.Addr and returns a bool (nothing
    classifies a connection as internal by looking at it - e.g. at the type of its RemoteAddr());
  * together with `source_facts.internalCalls` (each listener's handler passes a literal, the flag is only handed
    down below that): the value is decided by WHICH accept loop took the connection, for every transport;
  * RegisterWorkConn puts the configured verifier in charge under exactly `!internal`. -/
open Frp.Gen.AuthGateFacts in
theorem source_facts_internal_provenance :
    internalParams =
      [("HandleListener", "l net.Listener, internal bool"), ("HandleQUICListener", "l *quic.Listener"),
       ("RegisterControl", "ctlConn net.Conn, loginMsg *msg.Login, internal bool"),
       ("RegisterWorkConn", "conn net.Conn"),
       ("RegisterWorkConn", "workConn net.Conn, newMsg *msg.NewWorkConn, internal bool"),
       ("handleConnection", "ctx context.Context, conn net.Conn, internal bool")] ∧
    internalIdents =
      [("HandleListener", "param"), ("HandleListener", "use:param"), ("RegisterControl", "param"),
       ("RegisterControl", "use:param"), ("RegisterWorkConn", "param"), ("RegisterWorkConn", "use:param"),
       ("handleConnection", "param"), ("handleConnection", "use:param")] ∧
    bypassIdents = [("internal", "param"), ("loginMsg", "param")] ∧
    connBoolFuncs = [] ∧
    workCfgCond = ["!internal"] := by
  decide

/- which ssh methods can authenticate at the gateway (what `gwSshCfg` assumes about the code):
  * the only `ssh.ServerConfig` in the tree is the empty literal of NewGateway; the only authentication fields it is
    ever given are `NoClientAuth = cfg.AuthorizedKeysFile == ""` and a `PublicKeyCallback` - no PasswordCallback,
    KeyboardInteractiveCallback, NoClientAuthCallback, GSSAPIWithMICConfig, MaxAuthTries;
  * of the permissions the ssh layer returns, TunnelServer.Run reads the "user" extension only, and the only
    field of the virtual client's configuration it overrides is `User` (the token comes from the command line). -/
open Frp.Gen.AuthGateFacts in
theorem source_facts_ssh_methods :
    sshCfgLits = ["pkg/ssh/gateway.go: ssh.ServerConfig{}"] ∧
    sshCfgWrites =
      [("pkg/ssh/gateway.go sshConfig.NoClientAuth", "cfg.AuthorizedKeysFile == \"\""),
       ("pkg/ssh/gateway.go sshConfig.PublicKeyCallback", "func")] ∧
    gwPermUses = ["Run: sshConn.Permissions", "Run: sshConn.Permissions.Extensions[\"user\"]"] ∧
    gwClientCfgWrites =
      [("clientCfg.User", "util.EmptyOr(sshConn.Permissions.Extensions[\"user\"], clientCfg.User)")] := by
  decide

/-- the model's gateway configuration is the one these facts describe -/
theorem gwSshCfg_fields (akSet : Bool) (file : Option (List (PubKey × Str))) :
    (gwSshCfg akSet file).noClientAuth = !akSet ∧ (gwSshCfg akSet file).noClientAuthCb = none ∧
    (gwSshCfg akSet file).passwordCb = none ∧ (gwSshCfg akSet file).kbdCb = none ∧
    (gwSshCfg akSet file).gssapi = none ∧ (gwSshCfg akSet file).pubkeyCb.isSome = true :=
  ⟨rfl, rfl, rfl, rfl, rfl, rfl⟩

/- liveness and the key function:
  * `lastPing.Store` is called in NewControl and in handlePing only, in handlePing after the plugin call and
    `VerifyPing`, behind the `return` of the error branch (`handlePing`, `lastPing_step`);
  * util.GetAuthKey hashes the WHOLE token followed by the decimal timestamp with MD5 and returns the hex digest
    (what the engine's two independent MD5s compute; `Prim.H`); pkg/auth/token.go compares / sets keys with
    exactly that function of the configured token and the message's own timestamp. -/
open Frp.Gen.AuthGateFacts in
theorem source_facts_liveness_key :
    lastPingStores =
      [("NewControl", "ctl.lastPing.Store(time.Now())"), ("handlePing", "ctl.lastPing.Store(time.Now())")] ∧
    handlePingOrder =
      ["pluginManager.Ping", "if err == nil", "ctl.authVerifier.VerifyPing", "if err != nil", "return",
       "lastPing.Store"] ∧
    authKeySrc =
      ["func(token string, timestamp int64) (key string)", "md5Ctx := md5.New()", "md5Ctx.Write([]byte(token))",
       "md5Ctx.Write([]byte(strconv.FormatInt(timestamp, 10)))", "data := md5Ctx.Sum(nil)",
       "return hex.EncodeToString(data)"] ∧
    authKeyUses =
      [("SetLogin", "util.GetAuthKey(auth.token, loginMsg.Timestamp)"),
       ("SetNewWorkConn", "util.GetAuthKey(auth.token, newWorkConnMsg.Timestamp)"),
       ("SetPing", "util.GetAuthKey(auth.token, pingMsg.Timestamp)"),
       ("VerifyLogin", "util.GetAuthKey(auth.token, m.Timestamp)"),
       ("VerifyNewWorkConn", "util.GetAuthKey(auth.token, m.Timestamp)"),
       ("VerifyPing", "util.GetAuthKey(auth.token, m.Timestamp)")] := by
  decide

/-! ## Non-vacuity -/

def exPrim : Prim :=
  { H := fun tok ts => tok ++ [ts.toNat],
    jwtClaims := fun k => if k = [] then none else some { iss := [105], aud := [[97]], sub := k, exp := 100, nbf := none },
    jwtSigOk := fun k => k.length < 3, now := 50 }
def exCfg : Cfg := { method := .token, hb := true, wc := true, token := [116], maxPool := 5 }
def goodLogin : Login := { runId := [], ts := 7, key := [116, 7], aap := false, poolCount := 1, genId := [97] }
def badLogin : Login := { goodLogin with key := [0], aap := true }
def exSrv : Srv := (handleFirst Plugins.id exPrim exCfg Srv.empty false 1 (.login goodLogin)).1

-- a good login creates a session; a bad one (flag set, from the network) is refused and closed
example : (handleFirst Plugins.id exPrim exCfg Srv.empty false 1 (.login goodLogin)).2
    = { reply := .loginOk [97], closed := false } := by decide
example : exSrv.sessions.length = 1 := by decide
example : (handleFirst Plugins.id exPrim exCfg exSrv false 2 (.login badLogin)).2
    = { reply := .loginErr, closed := true } := by decide
-- the same bad login on the internal listener is accepted (always-pass) - the hypothesis
-- `internal = false` of the network theorems is what excludes it
example : (handleFirst Plugins.id exPrim exCfg exSrv true 2 (.login badLogin)).2.closed = false := by decide
example : ¬ AllCfg (handleFirst Plugins.id exPrim exCfg exSrv true 2 (.login badLogin)).1 := by
  intro h
  have := h { runId := [97], ctl := 2, vk := .alwaysPass, poolCap := 11, pool := [], proxies := [], lastPing := 0 }
    (by decide)
  cases this
example : AllCfg exSrv := by
  intro s hs
  have : s = { runId := [97], ctl := 1, vk := .cfg, poolCap := 11, pool := [], proxies := [], lastPing := 0 } := by
    simpa [exSrv, handleFirst, handleFirstG, Plugins.id, registerControl, verifyLogin, verifierFor, exCfg,
      exPrim, goodLogin, effRunId, Srv.empty] using hs
  rw [this]
-- ping: valid key accepted and counted, invalid key answered with an error, state unchanged
example : (handlePing Plugins.id exPrim exCfg exSrv 1 { ts := 3, key := [116, 3] }).2.reply = .pongOk := by decide
example : handlePing Plugins.id exPrim exCfg exSrv 1 { ts := 3, key := [9] }
    = (exSrv, { reply := .pongErr, closed := false }) := by decide
-- work connection: valid key pooled; bad key and unknown run id refused
example : (handleFirst Plugins.id exPrim exCfg exSrv false 5 (.work { runId := [97], ts := 2, key := [116, 2] })).2
    = { reply := .none, closed := false } := by decide
example : (handleFirst Plugins.id exPrim exCfg exSrv false 5 (.work { runId := [97], ts := 2, key := [1] })).2
    = { reply := .startWorkErr, closed := true } := by decide
example : (handleFirst Plugins.id exPrim exCfg exSrv false 5 (.work { runId := [98], ts := 2, key := [116, 2] })).2
    = { reply := .none, closed := true } := by decide
-- a refused burst (three different kinds) satisfies the hypothesis of `refused_no_residue`
example : ∀ a ∈ ([(false, 5, .login badLogin), (false, 6, .work { runId := [98], ts := 2, key := [] }),
      (false, 7, .other)] : List Attempt), Refused false Plugins.id exPrim exCfg exSrv a := by
  intro a ha
  simp only [List.mem_cons, List.not_mem_nil, or_false] at ha
  rcases ha with rfl | rfl | rfl <;> (show (_ : Bool) = true) <;> decide
-- the witness of §3 really pools the connection
example : (registerWork false Plugins.id witPrim witCfg witSrv false 7 { runId := [114], ts := 0, key := [] }).1.sessions.map (·.pool)
    = [[7]] := by decide


-- Google's scheme-less issuer is let through for Google only
example : oidcVerify { exPrim with jwtClaims := fun _ => some { iss := googleIssNoScheme, aud := [[97]], sub := [7], exp := 100, nbf := none } }
    { issuer := googleIss, audience := [97] } [7] = some [7] := by decide
example : googleIss = Str.ofString "https://accounts.google.com" ∧
    googleIssNoScheme = Str.ofString "accounts.google.com" := by decide +kernel
-- OIDC, claim level: issuer [105], audience [97], now 50; exPrim's tokens carry iss [105], aud [[97]], exp 100
def exOidc : Cfg :=
  { method := .oidc, hb := true, wc := true, token := [], maxPool := 5,
    oidc := { issuer := [105], audience := [97], skipExpiry := false, skipIssuer := false } }
example : oidcVerify exPrim exOidc.oidc [7] = some [7] := by decide
example : TokenValid exPrim exOidc.oidc [7] { iss := [105], aud := [[97]], sub := [7], exp := 100, nbf := none } := by
  refine ⟨rfl, rfl, Or.inr (Or.inl rfl), Or.inr (by decide), Or.inr ⟨by decide, ?_⟩⟩
  intro n hn; cases hn
-- another audience, another issuer, a later `now` (expired), a bad signature: refused
example : oidcVerify exPrim { exOidc.oidc with audience := [98] } [7] = none := by decide
example : oidcVerify exPrim { exOidc.oidc with issuer := [106] } [7] = none := by decide
example : oidcVerify { exPrim with now := 101 } exOidc.oidc [7] = none := by decide
example : oidcVerify exPrim exOidc.oidc [7, 7, 7] = none := by decide
-- ... unless the operator switched the check off
example : oidcVerify exPrim { exOidc.oidc with issuer := [106], skipIssuer := true } [7] = some [7] := by decide
example : oidcVerify { exPrim with now := 101 } { exOidc.oidc with skipExpiry := true } [7] = some [7] := by decide
-- login as [7]; a ping with a token of subject [8] is refused, with [7] accepted
def exOSrv : Srv := (handleFirst Plugins.id exPrim exOidc Srv.empty false 1
  (.login { runId := [], ts := 0, key := [7], aap := false, poolCount := 0, genId := [97] })).1
example : exOSrv.subjects = [[7]] := by decide
example : (handlePing Plugins.id exPrim exOidc exOSrv 1 { ts := 0, key := [8] }).2.reply = .pongErr := by decide
example : (handlePing Plugins.id exPrim exOidc exOSrv 1 { ts := 0, key := [7] }).2.reply = .pongOk := by decide

-- TIME.  exPrimT: tokens carry exp 100; token [7] is signed by JWK 1, token [8] by JWK 2.
def exPrimT : PrimT :=
  { H := fun tok ts => tok ++ [ts.toNat],
    jwtClaims := fun k => if k = [] then none else some { iss := [105], aud := [[97]], sub := k, exp := 100, nbf := none },
    jwsOk := fun _ => true, sigBy := fun k j => (k = [7] && j = 1) || (k = [8] && j = 2) }
def exLoginT (k : Key) : Ev := .first false 1 (.login { runId := [], ts := 0, key := k, aap := false, poolCount := 0, genId := [97] })
def exT0 : TSrv := { srv := Srv.empty, cache := [] }
-- at time 50 with JWK 1 published: login accepted (cache filled), ping and work connection accepted
def exT1 : TSrv := runT true Plugins.id exPrimT exOidc exT0
  [({ now := 50, jwks := some [1] }, exLoginT [7]), ({ now := 60, jwks := some [1] }, .ping 1 { ts := 0, key := [7] }),
   ({ now := 70, jwks := some [1] }, .first false 2 (.work { runId := [97], ts := 0, key := [7] }))]
example : exT1.cache = [1] ∧ exT1.srv.subjects = [[7]] ∧ exT1.srv.sessions.map (fun s => (s.pool, s.lastPing)) = [([2], 1)] := by
  decide
-- the very same token at time 100 (= exp) still passes, at 101 it is refused on all three paths - although it was
-- accepted three times before; nothing changes
example : (stepT true Plugins.id exPrimT exOidc exT1 { now := 100, jwks := some [1] } (.ping 1 { ts := 0, key := [7] })).2.reply = .pongOk := by
  decide
example : stepT true Plugins.id exPrimT exOidc exT1 { now := 101, jwks := some [1] } (.ping 1 { ts := 0, key := [7] })
    = (exT1, { reply := .pongErr, closed := false }) := by decide
example : stepT true Plugins.id exPrimT exOidc exT1 { now := 101, jwks := some [1] } (exLoginT [7])
    = (exT1, { reply := .loginErr, closed := true }) := by decide
example : stepT true Plugins.id exPrimT exOidc exT1 { now := 101, jwks := some [1] } (.first false 3 (.work { runId := [97], ts := 0, key := [7] }))
    = (exT1, { reply := .startWorkErr, closed := true }) := by decide
example : oidcVerify (primAt exPrimT (Moment.idp { now := 101, jwks := some [1] } exT1.cache)) exOidc.oidc [7] = none :=
  expired_none (c := { iss := [105], aud := [[97]], sub := [7], exp := 100, nbf := none }) rfl rfl
    (show (100 : Int) < 101 by decide)
-- KEY ROTATION.  The provider now publishes JWK 2 only.  Token [7] still verifies with the CACHED key 1 ...
example : (stepT true Plugins.id exPrimT exOidc exT1 { now := 80, jwks := some [2] } (.ping 1 { ts := 0, key := [7] })).2.reply = .pongOk := by
  decide
-- ... until a token signed with the new key makes go-oidc fetch the key set again: the cache becomes [2] and the
-- old token is refused from then on
def exT2 : TSrv := (stepT true Plugins.id exPrimT exOidc exT1 { now := 80, jwks := some [2] }
  (.first false 5 (.login { runId := [], ts := 0, key := [8], aap := false, poolCount := 0, genId := [98] }))).1
example : exT2.cache = [2] ∧ exT2.srv.sessions.length = 2 := by decide
example : (stepT true Plugins.id exPrimT exOidc exT2 { now := 81, jwks := some [2] } (.ping 1 { ts := 0, key := [7] })).2.reply = .pongErr := by
  decide
-- the key set cannot be fetched: cached keys go on working, everything else is refused and the cache stays
example : (stepT true Plugins.id exPrimT exOidc exT1 { now := 80, jwks := none } (exLoginT [8])) = (exT1, { reply := .loginErr, closed := true }) := by
  decide
-- a user connection takes the head of the pool of the session that owns the proxy
example : (takeWork { sessions := [{ runId := [97], ctl := 1, vk := .cfg, poolCap := 11, pool := [4, 5], proxies := [[117]], lastPing := 0 }], subjects := [] } [117]).2 = some 4 := by
  decide

-- ssh gateway: authorized_keys lists key [65] twice (the later line, user [122], wins) and [66] without a user
def exFile : Option (List (PubKey × Str)) := some [([65], [97]), ([66], []), ([65], [122])]
def exTunnel (a : SshAuth) (tok : Str) : Tunnel :=
  { reqs := [.none, a], file := exFile, cmd := some { name := [112], user := [], token := tok }, conn := 9, wconn := 10,
    ts := 3, genId := [103] }
example : sshHandshake true exFile [.none, .pubkey [65] true] = some [122] := by decide
example : sshHandshake true exFile [.none, .pubkey [65] false] = none := by decide
example : sshHandshake true exFile [.none, .pubkey [67] true] = none := by decide
example : sshHandshake true exFile [.none] = none := by decide
example : sshHandshake true none [.none, .pubkey [65] true] = none := by decide
-- every other method fails and the client may go on: password (any), keyboard-interactive, gssapi, an unknown key,
-- then the listed key it can sign for
example : sshHandshake true exFile [.none, .password [116], .password [], .kbd [[116]], .gssapi, .pubkey [67] true,
    .pubkey [66] true] = some [] := by decide
-- … but only six failures are tolerated (`MaxAuthTries`), and a bad signature ends the connection
example : sshHandshake true exFile [.none, .password [1], .password [2], .password [3], .password [4], .password [5],
    .password [6], .pubkey [66] true] = none := by decide
example : sshHandshake true exFile [.none, .pubkey [65] false, .pubkey [66] true] = none := by decide
example : sshHandshake true exFile [.none, .password [116], .kbd [], .gssapi] = none := by decide
-- NoClientAuth: the first request of every client ("none") is accepted, without permissions
example : sshHandshake false none [.none, .password [116]] = some [] := by decide
example : sshHandshake false none [.password [116], .kbd [], .gssapi, .pubkey [65] true] = none := by decide
-- an authorized client: tunnel up, always-pass session, proxy named user.name, the keyless work connection pooled
example : (gwTunnel true Plugins.id exPrim exCfg true exSrv (exTunnel (.pubkey [65] true) [])).2
    = .up [103] [122, 46, 112] := by decide
example : ((gwTunnel true Plugins.id exPrim exCfg true exSrv (exTunnel (.pubkey [65] true) [])).1.sessions.map
    (fun s => (s.vk, s.pool, s.proxies))) = [(.cfg, [], []), (.alwaysPass, [10], [[122, 46, 112]])] := by decide
-- an unknown key: nothing happens
example : gwTunnel true Plugins.id exPrim exCfg true exSrv (exTunnel (.pubkey [67] true) []) = (exSrv, .authFail) := by
  decide
-- no authorized_keys file configured: everybody passes ssh, the token decides; the session is an ordinary one
-- and (NewWorkConns scope on) the keyless work connection of the virtual client is refused
example : (gwTunnel true Plugins.id exPrim exCfg false exSrv (exTunnel .none [])).2 = .closed := by decide
example : (gwTunnel true Plugins.id exPrim exCfg false exSrv (exTunnel .none [116])).2 = .up [103] [112] := by decide
example : ((gwTunnel true Plugins.id exPrim exCfg false exSrv (exTunnel .none [116])).1.sessions.map
    (fun s => (s.vk, s.pool))) = [(.cfg, []), (.cfg, [])] := by decide
example : ¬ TunnelAuthorized false (exTunnel .none [116]) := by intro h; cases h.1
example : ¬ TunnelAuthorized true (exTunnel (.pubkey [67] true) []) := by
  intro h; have := h.2; revert this; decide

-- round 4: key function, liveness, CloseProxy

-- the assumption about the key function is satisfiable: the example `H` (token ++ [ts]) is injective in the token
example : KeyInjective exPrim.H := by
  intro a b ts h
  exact List.append_cancel_right h
-- … and under it the key of a PREFIX of the token is refused although the token's own key is accepted
example : (handleFirst Plugins.id exPrim { exCfg with token := [116, 111, 107] } Srv.empty false 1
    (.login { goodLogin with key := exPrim.H [116, 111] 7 })).2 = { reply := .loginErr, closed := true } := by decide
example : (handleFirst Plugins.id exPrim { exCfg with token := [116, 111, 107] } Srv.empty false 1
    (.login { goodLogin with key := exPrim.H [116, 111, 107] 7 })).2.reply = .loginOk [97] := by decide
-- a history of an invalid heartbeat, NewProxy, CloseProxy, a refused work connection and a refused login naming the
-- session: lastPing stays where it was; one valid heartbeat moves it
example : (run Plugins.id exPrim exCfg exSrv
    [.ping 1 { ts := 3, key := [9] }, .newProxy 1 [112], .closeProxy 1 [112], .closeProxy 1 [113],
     .first false 7 (.work { runId := [97], ts := 2, key := [1] }),
     .first false 8 (.login { badLogin with runId := [97] })]).sessions.map (fun s => (s.lastPing, s.proxies)) = [(0, [])] := by
  decide
example : (run Plugins.id exPrim exCfg exSrv
    [.newProxy 1 [112], .ping 1 { ts := 3, key := [116, 3] }]).sessions.map (fun s => (s.lastPing, s.proxies))
    = [(1, [[112]])] := by decide
example : ¬ AcceptedPingOn Plugins.id exPrim exCfg exSrv (.ping 1 { ts := 3, key := [9] }) [97] := by
  rintro ⟨c, m, s, m', he, hs, _, hp, hv⟩
  cases he
  simp only [Plugins.id, Option.some.injEq] at hp
  subst hp
  have hb : byCtl exSrv 1 = exSrv.sessions.head? := by decide
  have hh : exSrv.sessions.head? =
      some ⟨[97], 1, .cfg, 11, [], [], 0⟩ := by decide
  rw [hh] at hb
  rw [hb] at hs
  cases hs
  revert hv
  decide

end C04
end Frp
