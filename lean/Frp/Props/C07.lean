import Frp.Model.HttpAuth
/-
  C07 — Password-protected endpoints serve only requests carrying the exact credentials.

  Model: Frp/Model/HttpAuth.lean.  Statements hold for EVERY route table, every request.
-/
namespace Frp
namespace C07
open Str Router HttpAuth

/-- the request presents exactly the credentials configured for route `id`
    (or the route is not protected) -/
def CredsOK (T : Table) (id : Nat) (auth : Option (Str × Str)) : Prop :=
  let c := T.credsOf id
  (c.user = [] ∧ c.pass = []) ∨ auth = some (c.user, c.pass)

instance (T : Table) (id : Nat) (auth : Option (Str × Str)) : Decidable (CredsOK T id auth) := by
  unfold CredsOK; infer_instance

theorem checkAuth_true {T : Table} {domain loc ru user pass : Str} {r : Route}
    (hr : getVhost T.R domain loc ru = some r) (hc : checkAuth T domain loc ru user pass = true) :
    ((T.credsOf r.payload).user = [] ∧ (T.credsOf r.payload).pass = []) ∨
    ((T.credsOf r.payload).user = user ∧ (T.credsOf r.payload).pass = pass) := by
  unfold checkAuth at hc
  rw [hr] at hc
  simpa using hc

/-- **http proxies**: whatever the route table and the request (origin-form or absolute-form, any
    combination of Authorization / Proxy-Authorization), a request is forwarded to a route only if
    it presents exactly that route's user name and password. -/
theorem serve_sound (T : Table) (q : Req) (id : Nat) (h : serve T q = .forward id) :
    CredsOK T id q.auth := by
  unfold serve at h
  split at h
  rename_i user pass hup
  split at h
  · cases h
  · rename_i hc
    have hc' : checkAuth T (canon q.host) q.path (routeUser q) user pass = true := by simpa using hc
    unfold forwardOf at h
    split at h
    · rename_i r hr
      have hid : r.payload = id := by injection h
      subst hid
      unfold CredsOK
      simp only
      rcases checkAuth_true hr hc' with hp | hp
      · exact Or.inl hp
      · cases hq : q.auth with
        | none =>
          rw [hq] at hup
          simp only [Prod.mk.injEq] at hup
          obtain ⟨rfl, rfl⟩ := hup
          exact Or.inl hp
        | some p =>
          rw [hq] at hup
          subst hup
          right; rw [hp.1, hp.2]
    · cases h

/-- **same route**: the route whose credentials were checked is the route forwarded to -/
theorem serve_same_route (T : Table) (q : Req) (id : Nat) (h : serve T q = .forward id) :
    ∃ r, getVhost T.R (canon q.host) q.path (routeUser q) = some r ∧ r.payload = id ∧
      checkAuth T (canon q.host) q.path (routeUser q)
        (match q.auth with | some p => p.1 | none => []) (match q.auth with | some p => p.2 | none => []) = true := by
  unfold serve at h
  split at h
  rename_i user pass hup
  split at h
  · cases h
  · rename_i hc
    unfold forwardOf at h
    split at h
    · rename_i r hr
      refine ⟨r, hr, by injection h, ?_⟩
      have : (match q.auth with | some p => p.1 | none => []) = user ∧
             (match q.auth with | some p => p.2 | none => []) = pass := by
        cases hq : q.auth with
        | none => rw [hq] at hup; simp only [Prod.mk.injEq] at hup; exact ⟨hup.1, hup.2⟩
        | some p => rw [hq] at hup; subst hup; exact ⟨rfl, rfl⟩
      rw [this.1, this.2]
      simpa using hc
    · cases h

/-- requests that fail the check reach no backend: the answer is the 401 challenge -/
theorem serve_unauthorized (T : Table) (q : Req)
    (h : checkAuth T (canon q.host) q.path (routeUser q)
        (match q.auth with | some p => p.1 | none => []) (match q.auth with | some p => p.2 | none => []) = false) :
    serve T q = .unauthorized := by
  unfold serve
  cases hq : q.auth with
  | none => rw [hq] at h; simp only at h ⊢; simp [h]
  | some p => rw [hq] at h; simp only at h ⊢; simp [h]

/-! ### the pinned tree (c9fd674) violated the property: witness -/

def s (x : String) : Str := Str.ofString x

/-- one user-routed, password-protected route -/
def wTable : Table :=
  { R := (add Router.empty (s "h.example.com") (s "/") (s "alice") 1).1
    creds := [(1, ⟨s "alice", s "secret"⟩)] }

/-- absolute-form request, no Authorization, Proxy-Authorization naming the route's user -/
def wReq : Req :=
  { host := s "h.example.com", urlHost := s "h.example.com", path := s "/", auth := none,
    pauth := some (s "alice", s "anything") }

/-- the old `ServeHTTP` forwards the witness request to the protected route without its password -/
theorem serveOld_witness : serveOld wTable wReq = .forward 1 ∧ ¬ CredsOK wTable 1 wReq.auth := by
  decide +kernel

/-- the repaired `ServeHTTP` answers the same request with the challenge -/
theorem serve_witness_fixed : serve wTable wReq = .unauthorized := by decide +kernel

/-! ### tcpmux, middleware, http_proxy plugin -/

/-- **tcpmux**: a CONNECT is handed to a listener configured with a user name only if the request
    carries exactly its user name and password -/
theorem muxHandle_sound (T : Table) (q : ConnectReq) (id : Nat) (h : muxHandle T q = .accept id)
    (hprot : (T.credsOf id).user ≠ []) :
    q.pauth = some ((T.credsOf id).user, (T.credsOf id).pass) := by
  unfold muxHandle at h
  split at h
  rename_i u p hup
  split at h
  · cases h
  · rename_i r hr
    simp only at h
    split at h
    · split at h
      · rename_i _ hc
        have hid : r.payload = id := by injection h
        subst hid
        cases hq : q.pauth with
        | none =>
          rw [hq] at hup
          simp only [Prod.mk.injEq] at hup
          obtain ⟨rfl, rfl⟩ := hup
          exact absurd hc.1 hprot
        | some x => rw [hq] at hup; subst hup; rw [hc.1, hc.2]
      · cases h
    · rename_i hne
      have hid : r.payload = id := by injection h
      subst hid
      exact absurd (by simpa using hne) hprot

/-- **middleware** (dashboard, admin API, static_file): next handler runs iff unprotected or the
    exact credentials are presented -/
theorem middleware_iff (cfg : Creds) (auth : Option (Str × Str)) :
    middleware cfg auth = true ↔
      (cfg.user = [] ∧ cfg.pass = []) ∨ auth = some (cfg.user, cfg.pass) := by
  unfold middleware
  cases auth with
  | none => simp
  | some p => obtain ⟨u, pw⟩ := p; simp

/-- **http_proxy plugin** -/
theorem pluginAuth_iff (cfg : Creds) (pair : Option (Str × Str)) :
    pluginAuth cfg pair = true ↔
      (cfg.user = [] ∧ cfg.pass = []) ∨ pair = some (cfg.user, cfg.pass) := by
  unfold pluginAuth
  cases pair with
  | none => simp
  | some p => obtain ⟨u, pw⟩ := p; simp

/-! ### the request on the wire: percent-decoding only, same path for check and forwarding -/

/-- **http proxies, wire level**: for every route table and every request target as sent
    (percent-encoded, with dot segments, empty segments, …) the backend of route `id` is reached only
    with exactly that route's credentials.  A target that does not decode reaches no handler. -/
theorem serveWire_sound (T : Table) (w : WireReq) (id : Nat) (h : serveWire T w = some (.forward id)) :
    CredsOK T id w.auth := by
  unfold serveWire at h
  cases hp : w.parse with
  | none => rw [hp] at h; cases h
  | some q =>
    rw [hp] at h
    simp only [Option.map_some, Option.some.injEq] at h
    have hq : q.auth = w.auth := by
      unfold WireReq.parse at hp
      cases hu : unescapePath w.target with
      | none => rw [hu] at hp; cases hp
      | some p => rw [hu] at hp; simp only [Option.map_some, Option.some.injEq] at hp; rw [← hp]
    rw [← hq]
    exact serve_sound T q id h

theorem getVhost_prefix {R : Routers} {host path user : Str} {r : Route}
    (h : getVhost R host path user = some r) : hasPrefix path r.location = true := by
  unfold getVhost at h
  obtain ⟨d, _, hd⟩ := List.exists_of_findSome?_eq_some h
  unfold findRouter at hd
  have key : ∀ u, Router.get R d path u = some r → hasPrefix path r.location = true := by
    intro u hu
    unfold Router.get at hu
    exact List.find?_some (p := fun (x : Route) => hasPrefix path x.location) hu
  split at hd
  · rename_i r' hr'
    cases hd
    exact key _ hr'
  · exact key _ hd

/-- **no path normalisation between check and forwarding**: the route a request is forwarded to is
    selected by `req.URL.Path` exactly as received (its location is a prefix of that path), and it is
    the route `CheckAuth` looked at (`serve_same_route`).  A dot segment, an empty segment or an
    encoded separator in the target therefore cannot steer the request to a location whose
    credentials were not checked. -/
theorem serve_forward_prefix (T : Table) (q : Req) (id : Nat) (h : serve T q = .forward id) :
    ∃ r, getVhost T.R (canon q.host) q.path (routeUser q) = some r ∧ r.payload = id ∧
      hasPrefix q.path r.location = true := by
  obtain ⟨r, hr, hid, _⟩ := serve_same_route T q id h
  exact ⟨r, hr, hid, getVhost_prefix hr⟩

/-- decoding is the identity on targets without `%` (so the wire-level statement specialises to the
    older one) and rejects a dangling escape -/
example : unescapePath (s "/b/../a//x") = some (s "/b/../a//x") := by decide +kernel
example : unescapePath (s "/b/%2e%2E/a%2fx") = some (s "/b/../a/x") := by decide +kernel
example : unescapePath (s "/a%2") = none := by decide +kernel
example : unescapePath (s "/a%zz") = none := by decide +kernel

/-- an open "/" route and a protected "/a" route on one host -/
def pTable : Table :=
  { R := (add (add Router.empty (s "h.example.com") (s "/") [] 1).1 (s "h.example.com") (s "/a") [] 2).1
    creds := [(2, ⟨s "alice", s "secret"⟩)] }

def pReq (t : String) (a : Option (Str × Str)) : WireReq :=
  { host := s "h.example.com", proxied := false, target := s t, auth := a, pauth := none }

/-- non-vacuity: targets that a path cleaner would map below "/a" are served by the open route, the
    protected one answers the challenge without, and forwards with, its credentials -/
example : serveWire pTable (pReq "/b/../a/x" none) = some (.forward 1) := by decide +kernel
example : serveWire pTable (pReq "//a/x" none) = some (.forward 1) := by decide +kernel
example : serveWire pTable (pReq "/%61/x" none) = some .unauthorized := by decide +kernel
example : serveWire pTable (pReq "/a/../b" none) = some .unauthorized := by decide +kernel
example : serveWire pTable (pReq "/a/../b" (some (s "alice", s "secret"))) = some (.forward 2) := by decide +kernel
example : serveWire pTable (pReq "/a/%" none) = none := by decide +kernel

/-! ### http_proxy plugin: the dispatch of a whole work connection -/

/-- the request presents exactly the plugin's credentials (or the plugin is not protected) -/
def PlCredsOK (cfg : Creds) (pair : Option (Str × Str)) : Prop :=
  (cfg.user = [] ∧ cfg.pass = []) ∨ pair = some (cfg.user, cfg.pass)

instance (cfg : Creds) (pair : Option (Str × Str)) : Decidable (PlCredsOK cfg pair) := by
  unfold PlCredsOK; infer_instance

/-- **ServeHTTP**: neither `ConnectHandler` nor `HTTPHandler` runs unless `Auth` accepted, whatever
    the method -/
theorem pluginServeHTTP_reaches (cfg : Creds) (q : PlReq) (h : (pluginServeHTTP cfg q).reaches = true) :
    PlCredsOK cfg q.pair := by
  unfold pluginServeHTTP at h
  split at h
  · cases h
  · rename_i ha
    exact (pluginAuth_iff cfg q.pair).mp (by simpa using ha)

/-- **handleConnectReq**: the target is dialled only if `Auth` accepted -/
theorem pluginHandleConnect_reaches (cfg : Creds) (q : PlReq) (h : (pluginHandleConnect cfg q).reaches = true) :
    PlCredsOK cfg q.pair := by
  unfold pluginHandleConnect at h
  split at h
  · cases h
  · rename_i ha
    exact (pluginAuth_iff cfg q.pair).mp (by simpa using ha)

theorem pluginServeConn_sound (cfg : Creds) (qs : List PlReq) :
    ∀ p ∈ List.zip qs (pluginServeConn cfg qs), p.2.reaches = true → PlCredsOK cfg p.1.pair := by
  induction qs with
  | nil => intro p hp; simp [pluginServeConn] at hp
  | cons q rest ih =>
    intro p hp hr
    simp only [pluginServeConn, List.zip_cons_cons, List.mem_cons] at hp
    rcases hp with rfl | hp
    · exact pluginServeHTTP_reaches cfg q hr
    · split at hp
      · simp at hp
      · exact ih p hp hr

/-- **Handle, whole connection**: for every sequence of requests on one work connection (CONNECT
    first, CONNECT after other requests, any casing of the method, any credentials on each request)
    the i-th request reaches a target only if that very request carries exactly the configured
    user name and password — credentials of an earlier request of the connection do not count. -/
theorem pluginHandle_sound (cfg : Creds) (qs : List PlReq) :
    ∀ p ∈ List.zip qs (pluginHandle cfg qs), p.2.reaches = true → PlCredsOK cfg p.1.pair := by
  cases qs with
  | nil => intro p hp; simp [pluginHandle] at hp
  | cons q rest =>
    intro p hp hr
    by_cases hs : sniffConnect q.method = true
    · simp only [pluginHandle, hs, if_true, List.zip_cons_cons, List.mem_cons] at hp
      rcases hp with rfl | hp
      · exact pluginHandleConnect_reaches cfg q hr
      · simp at hp
    · simp only [pluginHandle, hs] at hp
      exact pluginServeConn_sound cfg (q :: rest) p hp hr

/-- requests without the exact credentials are answered with the challenge (connection kept) or are
    refused and the connection closed; nothing else -/
theorem pluginHandle_refuses (cfg : Creds) (qs : List PlReq) :
    ∀ p ∈ List.zip qs (pluginHandle cfg qs), ¬ PlCredsOK cfg p.1.pair →
      p.2 = .challenge ∨ p.2 = .refuseClose := by
  intro p hp hn
  have h := pluginHandle_sound cfg qs p hp
  cases hp2 : p.2 with
  | challenge => exact Or.inl rfl
  | refuseClose => exact Or.inr rfl
  | tunnel => rw [hp2] at h; exact absurd (h rfl) hn
  | fetch => rw [hp2] at h; exact absurd (h rfl) hn

/-- a CONNECT that opens the work connection without the credentials: 407 and the connection is
    closed (no further request of that connection is read) -/
theorem pluginHandle_first_connect_refused (cfg : Creds) (q : PlReq) (rest : List PlReq)
    (hs : sniffConnect q.method = true) (hn : ¬ PlCredsOK cfg q.pair) :
    pluginHandle cfg (q :: rest) = [.refuseClose] := by
  have ha : pluginAuth cfg q.pair = false := by
    cases h : pluginAuth cfg q.pair with
    | false => rfl
    | true => exact absurd ((pluginAuth_iff cfg q.pair).mp h) hn
  simp [pluginHandle, hs, pluginHandleConnect, ha]

def plCfg : Creds := ⟨s "u", s "p"⟩
def plGood : Option (Str × Str) := some (s "u", s "p")

/-- non-vacuity: the sequences of the kind "plain request, then CONNECT" -/
example : pluginHandle plCfg [⟨s "GET", none⟩, ⟨s "CONNECT", none⟩] = [.challenge, .challenge] := by decide +kernel
example : pluginHandle plCfg [⟨s "GET", plGood⟩, ⟨s "CONNECT", none⟩, ⟨s "CONNECT", plGood⟩, ⟨s "GET", plGood⟩] =
    [.fetch, .challenge, .tunnel] := by decide +kernel
example : pluginHandle plCfg [⟨s "connect", none⟩, ⟨s "GET", plGood⟩] = [.refuseClose] := by decide +kernel
example : pluginHandle plCfg [⟨s "OPTIONS", plGood⟩, ⟨s "connect", plGood⟩] = [.fetch, .fetch] := by decide +kernel
example : pluginHandle plCfg [⟨s "CONNECT", plGood⟩] = [.tunnel] := by decide +kernel

/-! ### executable predicate for implementation traces -/

/-- what the implementation answered for request `q` respects the property -/
def holdsOn (T : Table) (q : Req) (r : Resp) : Bool :=
  match r with
  | .forward id => decide (CredsOK T id q.auth)
  | _ => true

theorem holdsOn_sound (T : Table) (q : Req) (r : Resp) :
    holdsOn T q r = true ↔ (∀ id, r = .forward id → CredsOK T id q.auth) := by
  cases r with
  | forward id => simp [holdsOn]
  | unauthorized => simp [holdsOn]
  | notFound => simp [holdsOn]

theorem model_holdsOn (T : Table) (q : Req) : holdsOn T q (serve T q) = true :=
  (holdsOn_sound T q _).mpr (fun id h => serve_sound T q id h)

/-- wire-level predicate: `none` = the server answered 400 itself -/
def holdsOnWire (T : Table) (w : WireReq) (r : Option Resp) : Bool :=
  match r with
  | some (.forward id) => decide (CredsOK T id w.auth)
  | _ => true

theorem holdsOnWire_sound (T : Table) (w : WireReq) (r : Option Resp) :
    holdsOnWire T w r = true ↔ (∀ id, r = some (.forward id) → CredsOK T id w.auth) := by
  cases r with
  | none => simp [holdsOnWire]
  | some r =>
    cases r with
    | forward id => simp [holdsOnWire]
    | unauthorized => simp [holdsOnWire]
    | notFound => simp [holdsOnWire]

theorem model_holdsOnWire (T : Table) (w : WireReq) : holdsOnWire T w (serveWire T w) = true :=
  (holdsOnWire_sound T w _).mpr (fun id h => serveWire_sound T w id h)

/-- http_proxy plugin, one work connection: `reached[i]` = the target saw the i-th request (its
    tunnel or its forwarded request), as observed at the target -/
def plHoldsOn (cfg : Creds) : List PlReq → List Bool → Bool
  | q :: qs, r :: rs => (!r || decide (PlCredsOK cfg q.pair)) && plHoldsOn cfg qs rs
  | _, _ => true

theorem plHoldsOn_sound (cfg : Creds) (qs : List PlReq) (rs : List Bool) :
    plHoldsOn cfg qs rs = true ↔ (∀ p ∈ List.zip qs rs, p.2 = true → PlCredsOK cfg p.1.pair) := by
  induction qs generalizing rs with
  | nil => simp [plHoldsOn]
  | cons q qs ih =>
    cases rs with
    | nil => simp [plHoldsOn]
    | cons r rs =>
      simp only [plHoldsOn, Bool.and_eq_true, List.zip_cons_cons, List.mem_cons, ih rs]
      constructor
      · intro ⟨h1, h2⟩ p hp hr
        rcases hp with rfl | hp
        · simp only at hr
          subst hr
          simpa using h1
        · exact h2 p hp hr
      · intro h
        refine ⟨?_, fun p hp hr => h p (Or.inr hp) hr⟩
        cases r with
        | false => simp
        | true => simpa using h (q, true) (Or.inl rfl) rfl

theorem model_plHoldsOn (cfg : Creds) (qs : List PlReq) :
    plHoldsOn cfg qs ((pluginHandle cfg qs).map PlAct.reaches) = true := by
  rw [plHoldsOn_sound]
  intro p hp hr
  rw [List.zip_map_right] at hp
  obtain ⟨p', hp', rfl⟩ := List.mem_map.mp hp
  exact pluginHandle_sound cfg qs p' hp' hr

/-! non-vacuity: a protected route is reached with the right credentials -/
example : serve wTable { wReq with auth := some (s "alice", s "secret") } = .forward 1 := by decide +kernel
example : serve wTable { wReq with auth := some (s "alice", s "wrong") } = .unauthorized := by decide +kernel

end C07
end Frp
