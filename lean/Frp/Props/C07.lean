import Frp.Model.HttpAuth
import Frp.Model.WebAuth
import Frp.Lemmas.Base64
/-
  C07 — Password-protected endpoints serve only requests carrying the exact credentials.

  Model: Frp/Model/HttpAuth.lean.  Statements hold for EVERY route table, every request.
-/
namespace Frp
namespace C07
open Str Router HttpAuth

/-- the request presents exactly the credentials configured for route `id`
    (or the route is not protected) -/
def CredsOK (T : Table) (id : Nat) (auth : Option (Str × Str)) : Prop :=
  let c := T.credsOf id
  (c.user = [] ∧ c.pass = []) ∨ auth = some (c.user, c.pass)

instance (T : Table) (id : Nat) (auth : Option (Str × Str)) : Decidable (CredsOK T id auth) := by
  unfold CredsOK; infer_instance

theorem checkAuth_true {T : Table} {domain loc ru user pass : Str} {r : Route}
    (hr : getVhost T.R domain loc ru = some r) (hc : checkAuth T domain loc ru user pass = true) :
    ((T.credsOf r.payload).user = [] ∧ (T.credsOf r.payload).pass = []) ∨
    ((T.credsOf r.payload).user = user ∧ (T.credsOf r.payload).pass = pass) := by
  unfold checkAuth at hc
  rw [hr] at hc
  simpa using hc

/-- **http proxies**: whatever the route table and the request (origin-form or absolute-form, any
    combination of Authorization / Proxy-Authorization), a request is forwarded to a route only if
    it presents exactly that route's user name and password. -/
theorem serve_sound (T : Table) (q : Req) (id : Nat) (h : serve T q = .forward id) :
    CredsOK T id q.auth := by
  unfold serve at h
  split at h
  rename_i user pass hup
  split at h
  · cases h
  · rename_i hc
    have hc' : checkAuth T (canon q.host) q.path (routeUser q) user pass = true := by simpa using hc
    unfold forwardOf at h
    split at h
    · rename_i r hr
      have hid : r.payload = id := by injection h
      subst hid
      unfold CredsOK
      simp only
      rcases checkAuth_true hr hc' with hp | hp
      · exact Or.inl hp
      · cases hq : q.auth with
        | none =>
          rw [hq] at hup
          simp only [Prod.mk.injEq] at hup
          obtain ⟨rfl, rfl⟩ := hup
          exact Or.inl hp
        | some p =>
          rw [hq] at hup
          subst hup
          right; rw [hp.1, hp.2]
    · cases h

/-- **same route**: the route whose credentials were checked is the route forwarded to -/
theorem serve_same_route (T : Table) (q : Req) (id : Nat) (h : serve T q = .forward id) :
    ∃ r, getVhost T.R (canon q.host) q.path (routeUser q) = some r ∧ r.payload = id ∧
      checkAuth T (canon q.host) q.path (routeUser q)
        (match q.auth with | some p => p.1 | none => []) (match q.auth with | some p => p.2 | none => []) = true := by
  unfold serve at h
  split at h
  rename_i user pass hup
  split at h
  · cases h
  · rename_i hc
    unfold forwardOf at h
    split at h
    · rename_i r hr
      refine ⟨r, hr, by injection h, ?_⟩
      have : (match q.auth with | some p => p.1 | none => []) = user ∧
             (match q.auth with | some p => p.2 | none => []) = pass := by
        cases hq : q.auth with
        | none => rw [hq] at hup; simp only [Prod.mk.injEq] at hup; exact ⟨hup.1, hup.2⟩
        | some p => rw [hq] at hup; subst hup; exact ⟨rfl, rfl⟩
      rw [this.1, this.2]
      simpa using hc
    · cases h

/-- requests that fail the check reach no backend: the answer is the 401 challenge -/
theorem serve_unauthorized (T : Table) (q : Req)
    (h : checkAuth T (canon q.host) q.path (routeUser q)
        (match q.auth with | some p => p.1 | none => []) (match q.auth with | some p => p.2 | none => []) = false) :
    serve T q = .unauthorized := by
  unfold serve
  cases hq : q.auth with
  | none => rw [hq] at h; simp only at h ⊢; simp [h]
  | some p => rw [hq] at h; simp only at h ⊢; simp [h]

/-! ### the pinned tree (c9fd674) violated the property: witness -/

def s (x : String) : Str := Str.ofString x

/-- one user-routed, password-protected route -/
def wTable : Table :=
  { R := (add Router.empty (s "h.example.com") (s "/") (s "alice") 1).1
    creds := [(1, ⟨s "alice", s "secret"⟩)] }

/-- absolute-form request, no Authorization, Proxy-Authorization naming the route's user -/
def wReq : Req :=
  { host := s "h.example.com", urlHost := s "h.example.com", path := s "/", auth := none,
    pauth := some (s "alice", s "anything") }

/-- the old `ServeHTTP` forwards the witness request to the protected route without its password -/
theorem serveOld_witness : serveOld wTable wReq = .forward 1 ∧ ¬ CredsOK wTable 1 wReq.auth := by
  decide +kernel

/-- the repaired `ServeHTTP` answers the same request with the challenge -/
theorem serve_witness_fixed : serve wTable wReq = .unauthorized := by decide +kernel

/-! ### tcpmux, middleware, http_proxy plugin -/

/-- **tcpmux**: a CONNECT is handed to a listener configured with a user name only if the request
    carries exactly its user name and password -/
theorem muxHandle_sound (T : Table) (q : ConnectReq) (id : Nat) (h : muxHandle T q = .accept id)
    (hprot : (T.credsOf id).user ≠ []) :
    q.pauth = some ((T.credsOf id).user, (T.credsOf id).pass) := by
  unfold muxHandle at h
  split at h
  rename_i u p hup
  split at h
  · cases h
  · rename_i r hr
    simp only at h
    split at h
    · split at h
      · rename_i _ hc
        have hid : r.payload = id := by injection h
        subst hid
        cases hq : q.pauth with
        | none =>
          rw [hq] at hup
          simp only [Prod.mk.injEq] at hup
          obtain ⟨rfl, rfl⟩ := hup
          exact absurd hc.1 hprot
        | some x => rw [hq] at hup; subst hup; rw [hc.1, hc.2]
      · cases h
    · rename_i hne
      have hid : r.payload = id := by injection h
      subst hid
      exact absurd (by simpa using hne) hprot

/-- **middleware** (dashboard, admin API, static_file): next handler runs iff unprotected or the
    exact credentials are presented -/
theorem middleware_iff (cfg : Creds) (auth : Option (Str × Str)) :
    middleware cfg auth = true ↔
      (cfg.user = [] ∧ cfg.pass = []) ∨ auth = some (cfg.user, cfg.pass) := by
  unfold middleware
  cases auth with
  | none => simp
  | some p => obtain ⟨u, pw⟩ := p; simp

/-- **http_proxy plugin** -/
theorem pluginAuth_iff (cfg : Creds) (pair : Option (Str × Str)) :
    pluginAuth cfg pair = true ↔
      (cfg.user = [] ∧ cfg.pass = []) ∨ pair = some (cfg.user, cfg.pass) := by
  unfold pluginAuth
  cases pair with
  | none => simp
  | some p => obtain ⟨u, pw⟩ := p; simp

/-! ### the request on the wire: percent-decoding only, same path for check and forwarding -/

/-- **http proxies, wire level**: for every route table and every request target as sent
    (percent-encoded, with dot segments, empty segments, …) the backend of route `id` is reached only
    with exactly that route's credentials.  A target that does not decode reaches no handler. -/
theorem serveWire_sound (T : Table) (w : WireReq) (id : Nat) (h : serveWire T w = some (.forward id)) :
    CredsOK T id w.auth := by
  unfold serveWire at h
  cases hp : w.parse with
  | none => rw [hp] at h; cases h
  | some q =>
    rw [hp] at h
    simp only [Option.map_some, Option.some.injEq] at h
    have hq : q.auth = w.auth := by
      unfold WireReq.parse at hp
      cases hu : unescapePath w.target with
      | none => rw [hu] at hp; cases hp
      | some p => rw [hu] at hp; simp only [Option.map_some, Option.some.injEq] at hp; rw [← hp]
    rw [← hq]
    exact serve_sound T q id h

theorem getVhost_prefix {R : Routers} {host path user : Str} {r : Route}
    (h : getVhost R host path user = some r) : hasPrefix path r.location = true := by
  unfold getVhost at h
  obtain ⟨d, _, hd⟩ := List.exists_of_findSome?_eq_some h
  unfold findRouter at hd
  have key : ∀ u, Router.get R d path u = some r → hasPrefix path r.location = true := by
    intro u hu
    unfold Router.get at hu
    exact List.find?_some (p := fun (x : Route) => hasPrefix path x.location) hu
  split at hd
  · rename_i r' hr'
    cases hd
    exact key _ hr'
  · exact key _ hd

/-- **no path normalisation between check and forwarding**: the route a request is forwarded to is
    selected by `req.URL.Path` exactly as received (its location is a prefix of that path), and it is
    the route `CheckAuth` looked at (`serve_same_route`).  A dot segment, an empty segment or an
    encoded separator in the target therefore cannot steer the request to a location whose
    credentials were not checked. -/
theorem serve_forward_prefix (T : Table) (q : Req) (id : Nat) (h : serve T q = .forward id) :
    ∃ r, getVhost T.R (canon q.host) q.path (routeUser q) = some r ∧ r.payload = id ∧
      hasPrefix q.path r.location = true := by
  obtain ⟨r, hr, hid, _⟩ := serve_same_route T q id h
  exact ⟨r, hr, hid, getVhost_prefix hr⟩

/-- decoding is the identity on targets without `%` (so the wire-level statement specialises to the
    older one) and rejects a dangling escape -/
example : unescapePath (s "/b/../a//x") = some (s "/b/../a//x") := by decide +kernel
example : unescapePath (s "/b/%2e%2E/a%2fx") = some (s "/b/../a/x") := by decide +kernel
example : unescapePath (s "/a%2") = none := by decide +kernel
example : unescapePath (s "/a%zz") = none := by decide +kernel

/-- an open "/" route and a protected "/a" route on one host -/
def pTable : Table :=
  { R := (add (add Router.empty (s "h.example.com") (s "/") [] 1).1 (s "h.example.com") (s "/a") [] 2).1
    creds := [(2, ⟨s "alice", s "secret"⟩)] }

def pReq (t : String) (a : Option (Str × Str)) : WireReq :=
  { host := s "h.example.com", proxied := false, target := s t, auth := a, pauth := none }

/-- non-vacuity: targets that a path cleaner would map below "/a" are served by the open route, the
    protected one answers the challenge without, and forwards with, its credentials -/
example : serveWire pTable (pReq "/b/../a/x" none) = some (.forward 1) := by decide +kernel
example : serveWire pTable (pReq "//a/x" none) = some (.forward 1) := by decide +kernel
example : serveWire pTable (pReq "/%61/x" none) = some .unauthorized := by decide +kernel
example : serveWire pTable (pReq "/a/../b" none) = some .unauthorized := by decide +kernel
example : serveWire pTable (pReq "/a/../b" (some (s "alice", s "secret"))) = some (.forward 2) := by decide +kernel
example : serveWire pTable (pReq "/a/%" none) = none := by decide +kernel

/-! ### http_proxy plugin: the dispatch of a whole work connection -/

/-- the request presents exactly the plugin's credentials (or the plugin is not protected) -/
def PlCredsOK (cfg : Creds) (pair : Option (Str × Str)) : Prop :=
  (cfg.user = [] ∧ cfg.pass = []) ∨ pair = some (cfg.user, cfg.pass)

instance (cfg : Creds) (pair : Option (Str × Str)) : Decidable (PlCredsOK cfg pair) := by
  unfold PlCredsOK; infer_instance

/-- **ServeHTTP**: neither `ConnectHandler` nor `HTTPHandler` runs unless `Auth` accepted, whatever
    the method -/
theorem pluginServeHTTP_reaches (cfg : Creds) (q : PlReq) (h : (pluginServeHTTP cfg q).reaches = true) :
    PlCredsOK cfg q.pair := by
  unfold pluginServeHTTP at h
  split at h
  · cases h
  · rename_i ha
    exact (pluginAuth_iff cfg q.pair).mp (by simpa using ha)

/-- **handleConnectReq**: the target is dialled only if `Auth` accepted -/
theorem pluginHandleConnect_reaches (cfg : Creds) (q : PlReq) (h : (pluginHandleConnect cfg q).reaches = true) :
    PlCredsOK cfg q.pair := by
  unfold pluginHandleConnect at h
  split at h
  · cases h
  · rename_i ha
    exact (pluginAuth_iff cfg q.pair).mp (by simpa using ha)

theorem pluginServeConn_sound (cfg : Creds) (qs : List PlReq) :
    ∀ p ∈ List.zip qs (pluginServeConn cfg qs), p.2.reaches = true → PlCredsOK cfg p.1.pair := by
  induction qs with
  | nil => intro p hp; simp [pluginServeConn] at hp
  | cons q rest ih =>
    intro p hp hr
    simp only [pluginServeConn, List.zip_cons_cons, List.mem_cons] at hp
    rcases hp with rfl | hp
    · exact pluginServeHTTP_reaches cfg q hr
    · split at hp
      · simp at hp
      · exact ih p hp hr

/-- **Handle, whole connection**: for every sequence of requests on one work connection (CONNECT
    first, CONNECT after other requests, any casing of the method, any credentials on each request)
    the i-th request reaches a target only if that very request carries exactly the configured
    user name and password — credentials of an earlier request of the connection do not count. -/
theorem pluginHandle_sound (cfg : Creds) (qs : List PlReq) :
    ∀ p ∈ List.zip qs (pluginHandle cfg qs), p.2.reaches = true → PlCredsOK cfg p.1.pair := by
  cases qs with
  | nil => intro p hp; simp [pluginHandle] at hp
  | cons q rest =>
    intro p hp hr
    by_cases hs : sniffConnect q.method = true
    · simp only [pluginHandle, hs, if_true, List.zip_cons_cons, List.mem_cons] at hp
      rcases hp with rfl | hp
      · exact pluginHandleConnect_reaches cfg q hr
      · simp at hp
    · simp only [pluginHandle, hs] at hp
      exact pluginServeConn_sound cfg (q :: rest) p hp hr

/-- requests without the exact credentials are answered with the challenge (connection kept) or are
    refused and the connection closed; nothing else -/
theorem pluginHandle_refuses (cfg : Creds) (qs : List PlReq) :
    ∀ p ∈ List.zip qs (pluginHandle cfg qs), ¬ PlCredsOK cfg p.1.pair →
      p.2 = .challenge ∨ p.2 = .refuseClose := by
  intro p hp hn
  have h := pluginHandle_sound cfg qs p hp
  cases hp2 : p.2 with
  | challenge => exact Or.inl rfl
  | refuseClose => exact Or.inr rfl
  | tunnel => rw [hp2] at h; exact absurd (h rfl) hn
  | fetch => rw [hp2] at h; exact absurd (h rfl) hn

/-- a CONNECT that opens the work connection without the credentials: 407 and the connection is
    closed (no further request of that connection is read) -/
theorem pluginHandle_first_connect_refused (cfg : Creds) (q : PlReq) (rest : List PlReq)
    (hs : sniffConnect q.method = true) (hn : ¬ PlCredsOK cfg q.pair) :
    pluginHandle cfg (q :: rest) = [.refuseClose] := by
  have ha : pluginAuth cfg q.pair = false := by
    cases h : pluginAuth cfg q.pair with
    | false => rfl
    | true => exact absurd ((pluginAuth_iff cfg q.pair).mp h) hn
  simp [pluginHandle, hs, pluginHandleConnect, ha]

def plCfg : Creds := ⟨s "u", s "p"⟩
def plGood : Option (Str × Str) := some (s "u", s "p")

/-- non-vacuity: the sequences of the kind "plain request, then CONNECT" -/
example : pluginHandle plCfg [⟨s "GET", none⟩, ⟨s "CONNECT", none⟩] = [.challenge, .challenge] := by decide +kernel
example : pluginHandle plCfg [⟨s "GET", plGood⟩, ⟨s "CONNECT", none⟩, ⟨s "CONNECT", plGood⟩, ⟨s "GET", plGood⟩] =
    [.fetch, .challenge, .tunnel] := by decide +kernel
example : pluginHandle plCfg [⟨s "connect", none⟩, ⟨s "GET", plGood⟩] = [.refuseClose] := by decide +kernel
example : pluginHandle plCfg [⟨s "OPTIONS", plGood⟩, ⟨s "connect", plGood⟩] = [.fetch, .fetch] := by decide +kernel
example : pluginHandle plCfg [⟨s "CONNECT", plGood⟩] = [.tunnel] := by decide +kernel

/-! ### executable predicate for implementation traces -/

/-- what the implementation answered for request `q` respects the property -/
def holdsOn (T : Table) (q : Req) (r : Resp) : Bool :=
  match r with
  | .forward id => decide (CredsOK T id q.auth)
  | _ => true

theorem holdsOn_sound (T : Table) (q : Req) (r : Resp) :
    holdsOn T q r = true ↔ (∀ id, r = .forward id → CredsOK T id q.auth) := by
  cases r with
  | forward id => simp [holdsOn]
  | unauthorized => simp [holdsOn]
  | notFound => simp [holdsOn]

theorem model_holdsOn (T : Table) (q : Req) : holdsOn T q (serve T q) = true :=
  (holdsOn_sound T q _).mpr (fun id h => serve_sound T q id h)

/-- wire-level predicate: `none` = the server answered 400 itself -/
def holdsOnWire (T : Table) (w : WireReq) (r : Option Resp) : Bool :=
  match r with
  | some (.forward id) => decide (CredsOK T id w.auth)
  | _ => true

theorem holdsOnWire_sound (T : Table) (w : WireReq) (r : Option Resp) :
    holdsOnWire T w r = true ↔ (∀ id, r = some (.forward id) → CredsOK T id w.auth) := by
  cases r with
  | none => simp [holdsOnWire]
  | some r =>
    cases r with
    | forward id => simp [holdsOnWire]
    | unauthorized => simp [holdsOnWire]
    | notFound => simp [holdsOnWire]

theorem model_holdsOnWire (T : Table) (w : WireReq) : holdsOnWire T w (serveWire T w) = true :=
  (holdsOnWire_sound T w _).mpr (fun id h => serveWire_sound T w id h)

/-- http_proxy plugin, one work connection: `reached[i]` = the target saw the i-th request (its
    tunnel or its forwarded request), as observed at the target -/
def plHoldsOn (cfg : Creds) : List PlReq → List Bool → Bool
  | q :: qs, r :: rs => (!r || decide (PlCredsOK cfg q.pair)) && plHoldsOn cfg qs rs
  | _, _ => true

theorem plHoldsOn_sound (cfg : Creds) (qs : List PlReq) (rs : List Bool) :
    plHoldsOn cfg qs rs = true ↔ (∀ p ∈ List.zip qs rs, p.2 = true → PlCredsOK cfg p.1.pair) := by
  induction qs generalizing rs with
  | nil => simp [plHoldsOn]
  | cons q qs ih =>
    cases rs with
    | nil => simp [plHoldsOn]
    | cons r rs =>
      simp only [plHoldsOn, Bool.and_eq_true, List.zip_cons_cons, List.mem_cons, ih rs]
      constructor
      · intro ⟨h1, h2⟩ p hp hr
        rcases hp with rfl | hp
        · simp only at hr
          subst hr
          simpa using h1
        · exact h2 p hp hr
      · intro h
        refine ⟨?_, fun p hp hr => h p (Or.inr hp) hr⟩
        cases r with
        | false => simp
        | true => simpa using h (q, true) (Or.inl rfl) rfl

theorem model_plHoldsOn (cfg : Creds) (qs : List PlReq) :
    plHoldsOn cfg qs ((pluginHandle cfg qs).map PlAct.reaches) = true := by
  rw [plHoldsOn_sound]
  intro p hp hr
  rw [List.zip_map_right] at hp
  obtain ⟨p', hp', rfl⟩ := List.mem_map.mp hp
  exact pluginHandle_sound cfg qs p' hp' hr


/-! ### web endpoints (static_file plugin, frps dashboard, frpc admin API): from the header bytes to the handler -/

section Web
open WebAuth

/-- the `Authorization` value carries exactly the configured credentials: the scheme "Basic" in any
    letter case, one space, and a base64 text that DECODES to `user ":" password` -/
def Carries (cfg : Creds) (hdr : Option Str) : Prop :=
  match hdr with
  | none => False
  | some a => 6 ≤ a.length ∧ equalFold (a.take 6) basicPrefix = true ∧
      Base64.decode (a.drop 6) = some (cfg.user ++ colon :: cfg.pass)

instance (cfg : Creds) (hdr : Option Str) : Decidable (Carries cfg hdr) := by
  unfold Carries; split <;> infer_instance

/-- the endpoint is not protected, or the request carries exactly its credentials -/
def CredsExact (cfg : Creds) (hdr : Option Str) : Prop :=
  (cfg.user = [] ∧ cfg.pass = []) ∨ Carries cfg hdr

instance (cfg : Creds) (hdr : Option Str) : Decidable (CredsExact cfg hdr) := by
  unfold CredsExact; infer_instance

theorem cutColon_some {c u p : Str} (h : cutColon c = some (u, p)) : c = u ++ colon :: p ∧ colon ∉ u := by
  induction c generalizing u p with
  | nil => simp [cutColon] at h
  | cons x r ih =>
    unfold cutColon at h
    split at h
    · rename_i hx
      simp only [Option.some.injEq, Prod.mk.injEq] at h
      obtain ⟨rfl, rfl⟩ := h
      exact ⟨by simp [hx], by simp⟩
    · rename_i hx
      cases hr : cutColon r with
      | none => rw [hr] at h; simp at h
      | some y =>
        obtain ⟨u', p'⟩ := y
        rw [hr] at h
        simp only [Option.map_some, Option.some.injEq, Prod.mk.injEq] at h
        obtain ⟨rfl, rfl⟩ := h
        obtain ⟨h1, h2⟩ := ih hr
        refine ⟨by rw [h1]; rfl, ?_⟩
        intro hm
        rcases List.mem_cons.mp hm with e | e
        · exact hx e.symm
        · exact h2 e

theorem cutColon_append {u p : Str} (hu : colon ∉ u) : cutColon (u ++ colon :: p) = some (u, p) := by
  induction u with
  | nil => simp [cutColon]
  | cons x r ih =>
    have hx : x ≠ colon := fun e => hu (by simp [e])
    have hr : colon ∉ r := fun e => hu (by simp [e])
    simp only [List.cons_append, cutColon, hx, if_false, ih hr, Option.map_some]

/-- what `Request.BasicAuth` returns is what the header's base64 text decodes to -/
theorem basicAuth_some {hdr : Option Str} {u p : Str} (h : basicAuth hdr = some (u, p)) :
    Carries ⟨u, p⟩ hdr ∧ colon ∉ u := by
  unfold basicAuth at h
  cases hdr with
  | none => simp at h
  | some a =>
    simp only at h
    split at h
    · cases h
    · unfold parseBasicAuth at h
      split at h
      · cases h
      · rename_i hc
        simp only [Bool.or_eq_true, decide_eq_true_eq, Bool.not_eq_true', not_or, Nat.not_lt,
          Bool.not_eq_false] at hc
        split at h
        · cases h
        · rename_i c hd
          obtain ⟨h1, h2⟩ := cutColon_some h
          exact ⟨⟨hc.1, hc.2, by rw [hd, h1]⟩, h2⟩

/-- **middleware, from the header bytes**: `next` runs only if the endpoint is unprotected or the
    header's payload decodes to exactly `user:password` — a payload that merely resembles the expected
    base64 text (letter case, a changed sextet) decodes to other bytes and is refused. -/
theorem middlewareHdr_sound (cfg : Creds) (hdr : Option Str) (h : middlewareHdr cfg hdr = true) :
    CredsExact cfg hdr := by
  unfold middlewareHdr at h
  rcases (middleware_iff cfg _).mp h with hu | hb
  · exact Or.inl hu
  · exact Or.inr (basicAuth_some hb).1

/-- conversely a request carrying the exact credentials is let through (a user name containing ':'
    cannot be presented at all: `strings.Cut` splits at the first colon) -/
theorem middlewareHdr_complete (cfg : Creds) (hdr : Option Str) (hc : colon ∉ cfg.user)
    (h : Carries cfg hdr) : middlewareHdr cfg hdr = true := by
  unfold middlewareHdr
  apply (middleware_iff cfg _).mpr
  right
  unfold Carries at h
  cases hdr with
  | none => exact absurd h (by simp)
  | some a =>
    simp only at h
    obtain ⟨hl, hf, hd⟩ := h
    have hne : a ≠ [] := by intro e; rw [e] at hl; simp at hl
    have hl' : ¬ a.length < 6 := by omega
    simp only [basicAuth, hne, if_false, parseBasicAuth, hl', hf, decide_false, Bool.not_true,
      Bool.or_self, Bool.false_eq_true, hd, cutColon_append hc]

/-- the header a well-behaved client sends — "Basic " + base64(user ":" password) — is accepted -/
theorem middlewareHdr_encoded (cfg : Creds) (hb : Base64.bytes (cfg.user ++ colon :: cfg.pass))
    (hc : colon ∉ cfg.user) :
    middlewareHdr cfg (some (basicPrefix ++ Base64.encode (cfg.user ++ colon :: cfg.pass))) = true := by
  apply middlewareHdr_complete cfg _ hc
  unfold Carries
  simp only
  have h6 : basicPrefix.length = 6 := rfl
  refine ⟨by simp [h6], ?_, ?_⟩
  · rw [← h6, List.take_left]; decide
  · rw [← h6, List.drop_left]; exact Base64.decode_encode _ hb

/-- two headers that are both accepted by a protected endpoint decode to the same bytes -/
theorem middlewareHdr_same_payload (cfg : Creds) (a b : Str) (hp : ¬ (cfg.user = [] ∧ cfg.pass = []))
    (ha : middlewareHdr cfg (some a) = true) (hb : middlewareHdr cfg (some b) = true) :
    Base64.decode (a.drop 6) = Base64.decode (b.drop 6) := by
  rcases middlewareHdr_sound cfg _ ha with h | h
  · exact absurd h hp
  · rcases middlewareHdr_sound cfg _ hb with h' | h'
    · exact absurd h' hp
    · unfold Carries at h h'
      simp only at h h'
      rw [h.2.2, h'.2.2]

theorem routesMatch_mem {rs : List WebAuth.Route} {m p : Str} {e e' : Bool} {h : Nat}
    (hm : routesMatch rs m p e = (some h, e')) : h ∈ rs.map (·.h) := by
  induction rs generalizing e with
  | nil => simp [routesMatch] at hm
  | cons r rs ih =>
    unfold routesMatch at hm
    split at hm
    · rename_i h0 e0 hr
      simp only [Prod.mk.injEq, Option.some.injEq] at hm
      obtain ⟨rfl, _⟩ := hm
      unfold routeMatch at hr
      split at hr
      · cases hr
      · split at hr
        · simp only [Prod.mk.injEq, Option.some.injEq] at hr
          simp [hr.1]
        · cases hr
    · rename_i e0 hr
      simp only [List.map_cons, List.mem_cons]
      exact Or.inr (ih hm)

/-- a handler found by the router is wrapped by a sub-router's auth middleware or is one of the handlers
    registered outside every auth middleware -/
theorem nodesMatch_guarded {ns : List Node} {m p : Str} {e e' : Bool} {h : Nat} {g : Bool}
    (hm : nodesMatch ns m p e = (some (h, g), e')) : g = true ∨ h ∈ openOfNodes ns := by
  induction ns generalizing e with
  | nil => simp [nodesMatch] at hm
  | cons n ns ih =>
    cases n with
    | route r =>
      unfold nodesMatch at hm
      split at hm
      · rename_i h0 e0 hr
        simp only [Prod.mk.injEq, Option.some.injEq] at hm
        obtain ⟨⟨rfl, rfl⟩, _⟩ := hm
        right
        unfold routeMatch at hr
        split at hr
        · cases hr
        · split at hr
          · simp only [Prod.mk.injEq, Option.some.injEq] at hr
            simp [openOfNodes, hr.1]
          · cases hr
      · rename_i e0 hr
        rcases ih hm with hg | ho
        · exact Or.inl hg
        · exact Or.inr (by simp [openOfNodes, ho])
    | sub mw rs =>
      unfold nodesMatch at hm
      split at hm
      · rename_i h0 e0 hr
        simp only [Prod.mk.injEq, Option.some.injEq] at hm
        obtain ⟨⟨rfl, rfl⟩, _⟩ := hm
        cases mw with
        | true => exact Or.inl rfl
        | false =>
          right
          have := routesMatch_mem hr
          simp only [openOfNodes, Bool.false_eq_true, if_false, List.mem_append]
          exact Or.inl this
      · rename_i e0 hr
        rcases ih hm with hg | ho
        · exact Or.inl hg
        · exact Or.inr (by simp only [openOfNodes, List.mem_append]; exact Or.inr ho)

/-- **router + middleware + handlers**: for every router of the modelled shape, every method (any
    token, any casing), every path and every Authorization value, the handler of a route runs only if it is
    one of the handlers registered outside the auth middleware or the request carries exactly the
    configured credentials.  Everything the router answers by itself (clean-path redirect, 404, 405) runs
    no handler. -/
theorem webServe_sound (R : Router) (cfg : Creds) (q : WebAuth.Req) (h : Nat)
    (hs : WebAuth.serve R cfg q = .handler h) (hg : h ∉ openHandlers R) : CredsExact cfg q.hdr := by
  unfold WebAuth.serve at hs
  split at hs
  · cases hs
  · split at hs
    · rename_i h0 g e hm
      split at hs
      · cases hs
      · rename_i hc
        simp only [Out.handler.injEq] at hs
        subst hs
        have hmw : (g || R.mw) = true → middlewareHdr cfg q.hdr = true := by
          intro hgm
          cases hmid : middlewareHdr cfg q.hdr with
          | true => rfl
          | false => rw [hgm, hmid] at hc; simp at hc
        apply middlewareHdr_sound
        apply hmw
        rcases nodesMatch_guarded hm with hgd | ho
        · simp [hgd]
        · cases hR : R.mw with
          | true => simp
          | false =>
            exfalso
            apply hg
            simp [openHandlers, hR, ho]
    · cases hs
    · cases hs

/-- a request without the exact credentials gets the 401 challenge or one of the router's own answers
    (or reaches a handler registered outside the middleware); no other handler runs -/
theorem webServe_refuses (R : Router) (cfg : Creds) (q : WebAuth.Req) (hn : ¬ CredsExact cfg q.hdr) :
    WebAuth.serve R cfg q = .unauthorized ∨ WebAuth.serve R cfg q = .redirect ∨
    WebAuth.serve R cfg q = .notFound ∨ WebAuth.serve R cfg q = .notAllowed ∨
    ∃ h, WebAuth.serve R cfg q = .handler h ∧ h ∈ openHandlers R := by
  cases hs : WebAuth.serve R cfg q with
  | unauthorized => exact Or.inl rfl
  | redirect => exact Or.inr (Or.inl rfl)
  | notFound => exact Or.inr (Or.inr (Or.inl rfl))
  | notAllowed => exact Or.inr (Or.inr (Or.inr (Or.inl rfl)))
  | handler h =>
    refine Or.inr (Or.inr (Or.inr (Or.inr ⟨h, rfl, ?_⟩)))
    cases hd : decide (h ∈ openHandlers R) with
    | true => exact of_decide_eq_true hd
    | false => exact absurd (webServe_sound R cfg q h hs (of_decide_eq_false hd)) hn

/-- **static_file plugin**: whatever the strip prefix, the method, the path and the Authorization value,
    the file handler (gzip → StripPrefix → FileServer) runs only for requests carrying exactly
    httpUser / httpPassword -/
theorem staticFile_sound (strip : Str) (cfg : Creds) (q : WebAuth.Req) (h : Nat)
    (hs : WebAuth.serve (sfRouter strip) cfg q = .handler h) : CredsExact cfg q.hdr :=
  webServe_sound _ cfg q h hs (by simp [openHandlers, sfRouter])

/-- the same for the request as written on the wire: any number of Authorization lines, any blanks around
    their values (`Header.Get`: first line, trimmed) -/
theorem staticFile_wire_sound (strip : Str) (cfg : Creds) (m p : Str) (lines : List Str) (h : Nat)
    (hs : WebAuth.serve (sfRouter strip) cfg ⟨m, p, headerGet lines⟩ = .handler h) :
    CredsExact cfg (headerGet lines) :=
  staticFile_sound strip cfg ⟨m, p, headerGet lines⟩ h hs

/-- only GET reaches the file handler; every other method token (HEAD, get, POST, …) is answered 405 by
    the router itself on a clean path under the prefix -/
theorem staticFile_method (strip : Str) (cfg : Creds) (q : WebAuth.Req) (h : Nat)
    (hs : WebAuth.serve (sfRouter strip) cfg q = .handler h) : q.method = mGET := by
  unfold WebAuth.serve at hs
  split at hs
  · cases hs
  · cases hm : matchSegs [Seg.lit (sfPrefix strip)] q.path true with
    | false => simp [sfRouter, nodesMatch, routeMatch, hm] at hs
    | true =>
      by_cases hg : q.method = mGET
      · exact hg
      · simp [sfRouter, nodesMatch, routeMatch, hm, hg] at hs

/-- **frps dashboard**: everything except `/healthz` (handler 0, registered on the outer router on
    purpose) is behind the middleware, for both settings of enablePrometheus -/
theorem dashboard_sound (prom : Bool) (cfg : Creds) (q : WebAuth.Req) (h : Nat)
    (hs : WebAuth.serve (dashRouter prom) cfg q = .handler h) (h0 : h ≠ 0) : CredsExact cfg q.hdr := by
  apply webServe_sound _ cfg q h hs
  cases prom <;> simp [openHandlers, dashRouter, openOfNodes, h0]

/-- **frpc admin API** -/
theorem admin_sound (cfg : Creds) (q : WebAuth.Req) (h : Nat)
    (hs : WebAuth.serve adminRouter cfg q = .handler h) (h0 : h ≠ 0) : CredsExact cfg q.hdr := by
  apply webServe_sound _ cfg q h hs
  simp [openHandlers, adminRouter, openOfNodes, h0]

def wCfg : Creds := ⟨s "admin", s "s3cret"⟩
def wq (m p : String) (a : Option String) : WebAuth.Req := ⟨s m, s p, a.map s⟩

/-- non-vacuity: exact header in any scheme casing is served; a letter-case variant of the payload, another
    password, a missing pad, a doubled space, a bare scheme are challenged; HEAD / lower-case get / POST get
    405, an unclean path the redirect, both without looking at credentials -/
example : WebAuth.serve (sfRouter []) wCfg (wq "GET" "/secret.txt" (some "Basic YWRtaW46czNjcmV0")) = .handler 1 := by decide +kernel
example : WebAuth.serve (sfRouter []) wCfg (wq "GET" "/secret.txt" (some "bASIC YWRtaW46czNjcmV0")) = .handler 1 := by decide +kernel
example : WebAuth.serve (sfRouter []) wCfg (wq "GET" "/secret.txt" (some "Basic YWRtaW46czNJcmV0")) = .unauthorized := by decide +kernel
example : WebAuth.serve (sfRouter []) wCfg (wq "GET" "/secret.txt" (some "basic ywrtaw46cznjcmv0")) = .unauthorized := by decide +kernel
example : WebAuth.serve (sfRouter []) wCfg (wq "GET" "/secret.txt" (some "Basic  YWRtaW46czNjcmV0")) = .unauthorized := by decide +kernel
example : WebAuth.serve (sfRouter []) wCfg (wq "GET" "/secret.txt" (some "Basic YWRtaW46czNjcmU=")) = .unauthorized := by decide +kernel
example : WebAuth.serve (sfRouter []) wCfg (wq "GET" "/secret.txt" (some "Basic")) = .unauthorized := by decide +kernel
example : WebAuth.serve (sfRouter []) wCfg (wq "GET" "/secret.txt" none) = .unauthorized := by decide +kernel
example : WebAuth.serve (sfRouter []) wCfg (wq "HEAD" "/secret.txt" none) = .notAllowed := by decide +kernel
example : WebAuth.serve (sfRouter []) wCfg (wq "get" "/secret.txt" (some "Basic YWRtaW46czNjcmV0")) = .notAllowed := by decide +kernel
example : WebAuth.serve (sfRouter []) wCfg (wq "GET" "/a/../secret.txt" none) = .redirect := by decide +kernel
example : WebAuth.serve (sfRouter (s "pub")) wCfg (wq "GET" "/secret.txt" (some "Basic YWRtaW46czNjcmV0")) = .notFound := by decide +kernel
example : WebAuth.serve (dashRouter false) wCfg (wq "GET" "/api/proxy/tcp" (some "Basic YWRtaW46czNjcmV0")) = .handler 12 := by decide +kernel
example : WebAuth.serve (dashRouter false) wCfg (wq "GET" "/api/proxy/tcp" (some "Basic YwRtaW46czNjcmV0")) = .unauthorized := by decide +kernel
example : WebAuth.serve (dashRouter false) wCfg (wq "POST" "/api/serverinfo" none) = .notAllowed := by decide +kernel
example : WebAuth.serve (dashRouter false) wCfg (wq "PUT" "/healthz" none) = .handler 0 := by decide +kernel
example : WebAuth.serve adminRouter wCfg (wq "PUT" "/api/config" none) = .unauthorized := by decide +kernel
example : WebAuth.serve adminRouter wCfg (wq "DELETE" "/api/config" none) = .notAllowed := by decide +kernel
example : headerGet [s " \t Basic YQ== ", s "Basic Yg=="] = some (s "Basic YQ==") := by decide +kernel

/-- executable predicate on an implementation answer: `reached` = a route handler ran for the request
    (anything but the router's own 301 / 404 / 405 and the middleware's 401) -/
def webHoldsOn (R : Router) (cfg : Creds) (q : WebAuth.Req) (reached : Bool) : Bool :=
  !reached || decide (CredsExact cfg q.hdr) ||
    (match WebAuth.serve R cfg q with
     | .handler h => (openHandlers R).contains h
     | _ => false)

theorem webHoldsOn_sound (R : Router) (cfg : Creds) (q : WebAuth.Req) (reached : Bool) :
    webHoldsOn R cfg q reached = true ↔
      (reached = true → CredsExact cfg q.hdr ∨ ∃ h, WebAuth.serve R cfg q = .handler h ∧ h ∈ openHandlers R) := by
  unfold webHoldsOn
  cases reached with
  | false => simp
  | true =>
    simp only [Bool.not_true, Bool.false_or, Bool.or_eq_true, decide_eq_true_eq, forall_const]
    constructor
    · rintro (h | h)
      · exact Or.inl h
      · right
        split at h
        · rename_i h0 hs
          exact ⟨h0, hs, by simpa using h⟩
        · cases h
    · rintro (h | ⟨h0, hs, hm⟩)
      · exact Or.inl h
      · right; rw [hs]; simpa using hm

def Out.isHandler : Out → Bool
  | .handler _ => true
  | _ => false

theorem model_webHoldsOn (R : Router) (cfg : Creds) (q : WebAuth.Req) :
    webHoldsOn R cfg q (Out.isHandler (WebAuth.serve R cfg q)) = true := by
  rw [webHoldsOn_sound]
  intro hr
  cases hs : WebAuth.serve R cfg q with
  | handler h =>
    cases hd : decide (h ∈ openHandlers R) with
    | true => exact Or.inr ⟨h, rfl, of_decide_eq_true hd⟩
    | false => exact Or.inl (webServe_sound R cfg q h hs (of_decide_eq_false hd))
  | unauthorized => rw [hs] at hr; cases hr
  | redirect => rw [hs] at hr; cases hr
  | notFound => rw [hs] at hr; cases hr
  | notAllowed => rw [hs] at hr; cases hr

/-- predicate for a bare middleware call -/
def mwHoldsOn (cfg : Creds) (hdr : Option Str) (next : Bool) : Bool := !next || decide (CredsExact cfg hdr)

theorem mwHoldsOn_sound (cfg : Creds) (hdr : Option Str) (next : Bool) :
    mwHoldsOn cfg hdr next = true ↔ (next = true → CredsExact cfg hdr) := by
  cases next <;> simp [mwHoldsOn]

theorem model_mwHoldsOn (cfg : Creds) (hdr : Option Str) : mwHoldsOn cfg hdr (middlewareHdr cfg hdr) = true :=
  (mwHoldsOn_sound cfg hdr _).mpr (middlewareHdr_sound cfg hdr)

/-- **socks5 plugin**: with a user name or a password configured the target is dialled only after a
    user/password sub-negotiation carrying exactly both; offering "no authentication" does not help -/
theorem socks5_sound (cfg : Creds) (q : S5Req) (h : socks5 cfg q = .connected) :
    (cfg.user = [] ∧ cfg.pass = []) ∨ (q.user = cfg.user ∧ q.pass = cfg.pass ∧ q.methods.contains 2 = true) := by
  unfold socks5 at h
  split at h
  · cases h
  · simp only at h
    by_cases hp : s5Protected cfg = true
    · simp only [hp, if_true] at h
      split at h
      · cases h
      · rename_i hm
        simp only [Nat.reduceEqDiff, if_false] at h
        split at h
        · cases h
        · split at h
          · rename_i hc
            exact Or.inr ⟨hc.1, hc.2, by simpa using hm⟩
          · cases h
    · left
      simp only [s5Protected, Bool.or_eq_true, decide_eq_true_eq, not_or, Decidable.not_not] at hp
      exact hp

/-- everything else is refused before any request is read -/
theorem socks5_refuses (cfg : Creds) (q : S5Req) (hp : ¬ (cfg.user = [] ∧ cfg.pass = []))
    (hn : ¬ (q.user = cfg.user ∧ q.pass = cfg.pass)) : socks5 cfg q ≠ .connected := by
  intro h
  rcases socks5_sound cfg q h with h1 | h2
  · exact hp h1
  · exact hn ⟨h2.1, h2.2.1⟩

example : socks5 wCfg ⟨5, [0, 2], 1, s "admin", s "s3cret"⟩ = .connected := by decide +kernel
example : socks5 wCfg ⟨5, [0], 1, s "admin", s "s3cret"⟩ = .noAcceptable := by decide +kernel
example : socks5 wCfg ⟨5, [2], 1, s "admin", s "S3cret"⟩ = .authFailed := by decide +kernel
example : socks5 ⟨[], s "p"⟩ ⟨5, [0, 2], 1, [], []⟩ = .authFailed := by decide +kernel
example : socks5 ⟨[], []⟩ ⟨5, [0], 0, [], []⟩ = .connected := by decide +kernel

def s5HoldsOn (cfg : Creds) (q : S5Req) (reached : Bool) : Bool :=
  !reached || decide ((cfg.user = [] ∧ cfg.pass = []) ∨ (q.user = cfg.user ∧ q.pass = cfg.pass))

theorem s5HoldsOn_sound (cfg : Creds) (q : S5Req) (reached : Bool) :
    s5HoldsOn cfg q reached = true ↔
      (reached = true → (cfg.user = [] ∧ cfg.pass = []) ∨ (q.user = cfg.user ∧ q.pass = cfg.pass)) := by
  cases reached <;> simp [s5HoldsOn]

theorem model_s5HoldsOn (cfg : Creds) (q : S5Req) :
    s5HoldsOn cfg q (decide (socks5 cfg q = .connected)) = true := by
  rw [s5HoldsOn_sound]
  intro h
  rcases socks5_sound cfg q (of_decide_eq_true h) with h1 | h2
  · exact Or.inl h1
  · exact Or.inr ⟨h2.1, h2.2.1⟩

end Web

/-! non-vacuity: a protected route is reached with the right credentials -/
example : serve wTable { wReq with auth := some (s "alice", s "secret") } = .forward 1 := by decide +kernel
example : serve wTable { wReq with auth := some (s "alice", s "wrong") } = .unauthorized := by decide +kernel

end C07
end Frp
