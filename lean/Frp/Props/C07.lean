import Frp.Model.HttpAuth
/-
  C07 — Password-protected endpoints serve only requests carrying the exact credentials.

  Model: Frp/Model/HttpAuth.lean.  Statements hold for EVERY route table, every request.
-/
namespace Frp
namespace C07
open Str Router HttpAuth

/-- the request presents exactly the credentials configured for route `id`
    (or the route is not protected) -/
def CredsOK (T : Table) (id : Nat) (auth : Option (Str × Str)) : Prop :=
  let c := T.credsOf id
  (c.user = [] ∧ c.pass = []) ∨ auth = some (c.user, c.pass)

instance (T : Table) (id : Nat) (auth : Option (Str × Str)) : Decidable (CredsOK T id auth) := by
  unfold CredsOK; infer_instance

theorem checkAuth_true {T : Table} {domain loc ru user pass : Str} {r : Route}
    (hr : getVhost T.R domain loc ru = some r) (hc : checkAuth T domain loc ru user pass = true) :
    ((T.credsOf r.payload).user = [] ∧ (T.credsOf r.payload).pass = []) ∨
    ((T.credsOf r.payload).user = user ∧ (T.credsOf r.payload).pass = pass) := by
  unfold checkAuth at hc
  rw [hr] at hc
  simpa using hc

/-- **http proxies**: whatever the route table and the request (origin-form or absolute-form, any
    combination of Authorization / Proxy-Authorization), a request is forwarded to a route only if
    it presents exactly that route's user name and password. -/
theorem serve_sound (T : Table) (q : Req) (id : Nat) (h : serve T q = .forward id) :
    CredsOK T id q.auth := by
  unfold serve at h
  split at h
  rename_i user pass hup
  split at h
  · cases h
  · rename_i hc
    have hc' : checkAuth T (canon q.host) q.path (routeUser q) user pass = true := by simpa using hc
    unfold forwardOf at h
    split at h
    · rename_i r hr
      have hid : r.payload = id := by injection h
      subst hid
      unfold CredsOK
      simp only
      rcases checkAuth_true hr hc' with hp | hp
      · exact Or.inl hp
      · cases hq : q.auth with
        | none =>
          rw [hq] at hup
          simp only [Prod.mk.injEq] at hup
          obtain ⟨rfl, rfl⟩ := hup
          exact Or.inl hp
        | some p =>
          rw [hq] at hup
          subst hup
          right; rw [hp.1, hp.2]
    · cases h

/-- **same route**: the route whose credentials were checked is the route forwarded to -/
theorem serve_same_route (T : Table) (q : Req) (id : Nat) (h : serve T q = .forward id) :
    ∃ r, getVhost T.R (canon q.host) q.path (routeUser q) = some r ∧ r.payload = id ∧
      checkAuth T (canon q.host) q.path (routeUser q)
        (match q.auth with | some p => p.1 | none => []) (match q.auth with | some p => p.2 | none => []) = true := by
  unfold serve at h
  split at h
  rename_i user pass hup
  split at h
  · cases h
  · rename_i hc
    unfold forwardOf at h
    split at h
    · rename_i r hr
      refine ⟨r, hr, by injection h, ?_⟩
      have : (match q.auth with | some p => p.1 | none => []) = user ∧
             (match q.auth with | some p => p.2 | none => []) = pass := by
        cases hq : q.auth with
        | none => rw [hq] at hup; simp only [Prod.mk.injEq] at hup; exact ⟨hup.1, hup.2⟩
        | some p => rw [hq] at hup; subst hup; exact ⟨rfl, rfl⟩
      rw [this.1, this.2]
      simpa using hc
    · cases h

/-- requests that fail the check reach no backend: the answer is the 401 challenge -/
theorem serve_unauthorized (T : Table) (q : Req)
    (h : checkAuth T (canon q.host) q.path (routeUser q)
        (match q.auth with | some p => p.1 | none => []) (match q.auth with | some p => p.2 | none => []) = false) :
    serve T q = .unauthorized := by
  unfold serve
  cases hq : q.auth with
  | none => rw [hq] at h; simp only at h ⊢; simp [h]
  | some p => rw [hq] at h; simp only at h ⊢; simp [h]

/-! ### the pinned tree (c9fd674) violated the property: witness -/

def s (x : String) : Str := Str.ofString x

/-- one user-routed, password-protected route -/
def wTable : Table :=
  { R := (add Router.empty (s "h.example.com") (s "/") (s "alice") 1).1
    creds := [(1, ⟨s "alice", s "secret"⟩)] }

/-- absolute-form request, no Authorization, Proxy-Authorization naming the route's user -/
def wReq : Req :=
  { host := s "h.example.com", urlHost := s "h.example.com", path := s "/", auth := none,
    pauth := some (s "alice", s "anything") }

/-- the old `ServeHTTP` forwards the witness request to the protected route without its password -/
theorem serveOld_witness : serveOld wTable wReq = .forward 1 ∧ ¬ CredsOK wTable 1 wReq.auth := by
  decide +kernel

/-- the repaired `ServeHTTP` answers the same request with the challenge -/
theorem serve_witness_fixed : serve wTable wReq = .unauthorized := by decide +kernel

/-! ### tcpmux, middleware, http_proxy plugin -/

/-- **tcpmux**: a CONNECT is handed to a listener configured with a user name only if the request
    carries exactly its user name and password -/
theorem muxHandle_sound (T : Table) (q : ConnectReq) (id : Nat) (h : muxHandle T q = .accept id)
    (hprot : (T.credsOf id).user ≠ []) :
    q.pauth = some ((T.credsOf id).user, (T.credsOf id).pass) := by
  unfold muxHandle at h
  split at h
  rename_i u p hup
  split at h
  · cases h
  · rename_i r hr
    simp only at h
    split at h
    · split at h
      · rename_i _ hc
        have hid : r.payload = id := by injection h
        subst hid
        cases hq : q.pauth with
        | none =>
          rw [hq] at hup
          simp only [Prod.mk.injEq] at hup
          obtain ⟨rfl, rfl⟩ := hup
          exact absurd hc.1 hprot
        | some x => rw [hq] at hup; subst hup; rw [hc.1, hc.2]
      · cases h
    · rename_i hne
      have hid : r.payload = id := by injection h
      subst hid
      exact absurd (by simpa using hne) hprot

/-- **middleware** (dashboard, admin API, static_file): next handler runs iff unprotected or the
    exact credentials are presented -/
theorem middleware_iff (cfg : Creds) (auth : Option (Str × Str)) :
    middleware cfg auth = true ↔
      (cfg.user = [] ∧ cfg.pass = []) ∨ auth = some (cfg.user, cfg.pass) := by
  unfold middleware
  cases auth with
  | none => simp
  | some p => obtain ⟨u, pw⟩ := p; simp

/-- **http_proxy plugin** -/
theorem pluginAuth_iff (cfg : Creds) (pair : Option (Str × Str)) :
    pluginAuth cfg pair = true ↔
      (cfg.user = [] ∧ cfg.pass = []) ∨ pair = some (cfg.user, cfg.pass) := by
  unfold pluginAuth
  cases pair with
  | none => simp
  | some p => obtain ⟨u, pw⟩ := p; simp

/-! ### executable predicate for implementation traces -/

/-- what the implementation answered for request `q` respects the property -/
def holdsOn (T : Table) (q : Req) (r : Resp) : Bool :=
  match r with
  | .forward id => decide (CredsOK T id q.auth)
  | _ => true

theorem holdsOn_sound (T : Table) (q : Req) (r : Resp) :
    holdsOn T q r = true ↔ (∀ id, r = .forward id → CredsOK T id q.auth) := by
  cases r with
  | forward id => simp [holdsOn]
  | unauthorized => simp [holdsOn]
  | notFound => simp [holdsOn]

theorem model_holdsOn (T : Table) (q : Req) : holdsOn T q (serve T q) = true :=
  (holdsOn_sound T q _).mpr (fun id h => serve_sound T q id h)

/-! non-vacuity: a protected route is reached with the right credentials -/
example : serve wTable { wReq with auth := some (s "alice", s "secret") } = .forward 1 := by decide +kernel
example : serve wTable { wReq with auth := some (s "alice", s "wrong") } = .unauthorized := by decide +kernel

end C07
end Frp
