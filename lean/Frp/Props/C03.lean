import Frp.Lemmas.Base64
import Frp.Lemmas.Udp
import Frp.Lemmas.Sudp
import Frp.Lemmas.UdpSrv
import Frp.Lemmas.SudpPx
import Frp.Lemmas.UdpBuf
import Frp.Model.UdpLayers
import Frp.Lemmas.Layers
/-
  C03 — UDP tunnels preserve datagram payloads, boundaries and reply addressing.

  Models: Frp/Model/Base64.lean (encoding/base64 StdEncoding as used by NewUDPPacket/GetContent),
          Frp/Model/Udp.lean    (UDPPacket JSON body + golib frame limit; ForwardUserConn /
                                 Forwarder / the four work-connection goroutines as a labelled
                                 transition system).
          Frp/Model/Sudp.lean   (client/visitor/sudp.go: dispatcher / worker / ForwardUserConn of the
                                 sudp visitor as a labelled transition system; one visitor connection =
                                 one work connection = one Forwarder generation).
          Frp/Model/UdpSrv.lean (server/proxy/udp.go Run: the work-connection loop, one reader and one
                                 sender goroutine per work connection, sendCh / readCh / checkCloseCh
                                 shared by all work connections, per-connection cancel).
          Frp/Model/SudpPx.lean (client/proxy/sudp.go InWorkConn: SEVERAL work connections alive at once — one
                                 per visitor connection —, each with its own reader / sender / heartbeat
                                 goroutines, readCh / sendCh, closeFn and Forwarder; the proxy shares only closeCh).
          Frp/Model/UdpBuf.lean (the read loops of pkg/proto/udp/udp.go with the reused READ BUFFER as explicit state and
                                 the queue behind them: does a queued message own its bytes?)
          Frp/Model/UdpLayers.lean (the encryption / compression / limiter wrappers of the connections that carry
                                 UDPPacket frames, as each of the five sites builds them)
  Lemmas: Frp/Lemmas/UdpBuf.lean, Frp/Lemmas/Base64.lean, Frp/Lemmas/Udp.lean, Frp/Lemmas/Sudp.lean, Frp/Lemmas/UdpSrv.lean,
          Frp/Lemmas/SudpPx.lean.

  Every statement about the forwarding machine is about `run (init …) ls` for an arbitrary label
  list `ls`, i.e. for every interleaving of user datagrams (any number of source addresses),
  backend replies, queue transfers, socket expiries, connection loss and reconnects.
-/
namespace Frp
namespace C03
open Udp Base64

/-! ## 1. Codec: one message ⇒ exactly one datagram with exactly that payload -/

/-- `GetContent (NewUDPPacket b l r) = b` for every byte string: nothing is corrupted, truncated,
    merged or split by the encoding (a message carries one payload, the decoder returns it). -/
theorem contentOf_packetOf (b : Str) (l r : Option Addr) (hb : bytes b) :
    contentOf (packetOf b l r) = some b :=
  decode_encode b hb

/-- the observer's view of a freshly built packet -/
theorem view_packetOf (b : Str) (l r : Option Addr) (hb : bytes b) :
    view (packetOf b l r) = (r, some b) := by
  have h := contentOf_packetOf b l r hb
  simp only [packetOf] at h
  simp only [view, packetOf, h]

/-- different payloads never share an encoding (no two datagrams can be confused) -/
theorem packetOf_injective {b b' : Str} {l r l' r' : Option Addr} (hb : bytes b) (hb' : bytes b')
    (h : packetOf b l r = packetOf b' l' r') : b = b' ∧ l = l' ∧ r = r' := by
  simp only [packetOf, Packet.mk.injEq] at h
  exact ⟨encode_injective hb hb' h.1, h.2.1, h.2.2⟩

/-- length of the `Content` field -/
theorem content_length (b : Str) (l r : Option Addr) :
    (packetOf b l r).content.length = 4 * ((b.length + 2) / 3) :=
  encode_length b

/-- the content is made of alphabet characters and '=' only: 7-bit, none of them needs JSON
    escaping, none is '.', CR or LF -/
theorem content_chars (b : Str) (l r : Option Addr) (hb : bytes b) :
    ∀ c ∈ (packetOf b l r).content, okChar c = true :=
  encode_chars b hb

theorem base64_roundtrip (b : Str) (hb : bytes b) : decode (encode b) = some b := decode_encode b hb
theorem base64_length (b : Str) : (encode b).length = 4 * ((b.length + 2) / 3) := encode_length b
theorem base64_no_dot (b : Str) (hb : bytes b) : (46 : Nat) ∉ encode b := encode_no_dot b hb
theorem base64_alphabet : ∀ n, n < 64 → val (ch n) = some n := val_ch

example : contentOf (packetOf [0, 255, 16, 131] none none) = some [0, 255, 16, 131] := by decide
example : (packetOf [104, 105] none none).content = [97, 71, 107, 61] := by decide   -- "hi" ↦ "aGk="
example : decode [97, 71, 10, 107, 61] = some [104, 105] := by decide               -- newline skipped
example : decode [97, 71, 107] = none := by decide                                  -- padding is mandatory

/-! ## 2. Frame length against the 10240-byte limit of the reader -/

/- `Udp.AddrOK a` : addresses as they occur on the tunnel path — textual IP ≤ 39 characters (full
   IPv6), port < 65536, zone (interface name) ≤ 15 characters. -/
example : AddrOK { ip := Str.ofString "fe80::1", port := 53, zone := Str.ofString "eth0" } := by
  decide +kernel

/-- exact body length of a tunnel-path message (non-empty payload, LocalAddr nil, RemoteAddr set) -/
theorem body_length_path (b : Str) (a : Addr) (hne : b ≠ []) :
    (body (packetOf b none (some a))).length
      = frameBodyLen b.length a.ip.length (digits a.port).length a.zone.length :=
  Udp.body_length_path b a hne

/-- exact admission criterion: the reader accepts the frame iff the payload length is at most
    `3 * ((10200 - addressText) / 4)` -/
theorem fits_iff (b : Str) (a : Addr) (hne : b ≠ []) :
    fits (packetOf b none (some a)) = true ↔
      b.length ≤ 3 * ((10200 - (a.ip.length + (digits a.port).length + a.zone.length)) / 4) := by
  have hpos : 0 < b.length := List.length_pos_iff.2 hne
  simp only [fits, decide_eq_true_eq, body_length_path b a hne, frameBodyLen, maxMsgLength]
  omega

/-- N₀ = 7605: every payload of at most 7605 bytes fits whatever the user address is -/
theorem fits_of_le_7605 (b : Str) (a : Addr) (ha : AddrOK a) (hn : b.length ≤ 7605) :
    fits (packetOf b none (some a)) = true :=
  Udp.fits_of_le b a ha.1 ha.2.1 ha.2.2 hn

/-- the default `udpPacketSize = 1500` always fits -/
theorem default_packet_size_fits (b : Str) (a : Addr) (ha : AddrOK a) (hn : b.length ≤ 1500) :
    fits (packetOf b none (some a)) = true :=
  fits_of_le_7605 b a ha (by omega)

/-- N₁ = 7674: no payload longer than 7674 bytes fits, whatever the addresses (even both nil) -/
theorem not_fits_of_gt_7674 (b : Str) (l r : Option Addr) (hn : 7674 < b.length) :
    fits (packetOf b l r) = false :=
  Udp.not_fits_of_gt b l r hn

/-- 7605 is sharp: with a full-length IPv6 address, zone and 5-digit port a 7606-byte payload is
    rejected.  **Finding** (DESIGN §7 item 15): `udpPacketSize` is not validated; any configured
    value above 7605 admits datagrams whose frame the peer's reader rejects. -/
theorem fits_7606_witness :
    ∃ (b : Str) (a : Addr), AddrOK a ∧ bytes b ∧ b.length = 7606 ∧ fits (packetOf b none (some a)) = false := by
  refine ⟨List.replicate 7606 0,
    { ip := List.replicate 39 102, port := 65535, zone := List.replicate 15 101 }, ?_, ?_, ?_, ?_⟩
  · refine ⟨?_, by decide, ?_⟩ <;> simp only [List.length_replicate] <;> omega
  · intro x hx; rw [List.eq_of_mem_replicate hx]; omega
  · simp only [List.length_replicate]
  · have hne : List.replicate 7606 0 ≠ ([] : Str) := by
      intro h; have := congrArg List.length h; simp only [List.length_replicate, List.length_nil] at this; omega
    have := fits_iff (List.replicate 7606 0)
      { ip := List.replicate 39 102, port := 65535, zone := List.replicate 15 101 } hne
    have hd : (digits 65535).length = 5 := by simp [digits]
    simp only [List.length_replicate, hd] at this
    cases hf : fits (packetOf (List.replicate 7606 0) none
        (some { ip := List.replicate 39 102, port := 65535, zone := List.replicate 15 101 })) with
    | false => rfl
    | true => exact absurd (this.1 hf) (by omega)

/-- on loopback IPv4 with a 5-digit port the threshold is 7638 -/
example (b : Str) (hne : b ≠ []) :
    fits (packetOf b none (some { ip := Str.ofString "127.0.0.1", port := 40000, zone := [] })) = true
      ↔ b.length ≤ 7638 := by
  have h := fits_iff b { ip := Str.ofString "127.0.0.1", port := 40000, zone := [] } hne
  have h1 : (Str.ofString "127.0.0.1").length = 9 := by decide +kernel
  have h2 : (digits 40000).length = 5 := by simp [digits]
  simp only [h1, h2, List.length_nil] at h
  rw [h]

/-! ## 3. Forwarding machine: conservation, no forgery / duplication, reply routing -/

/-- states reachable from an initial state by any sequence of labels -/
def Reachable (s : St) : Prop := ∃ sbs cbs cap ls, s = run (init sbs cbs cap) ls

theorem reachable_inv {s : St} (h : Reachable s) : Udp.Inv s := by
  obtain ⟨sbs, cbs, cap, ls, rfl⟩ := h
  exact Udp.inv_run _ (Udp.inv_init sbs cbs cap) ls

/-- **conservation, upstream**: every datagram that arrived at the public socket is, at any time,
    exactly one of: queued at the server, queued at the client, handed to the backend, or dropped
    at one of the listed drop sites — as multisets (for every view `x` the multiplicities add up).
    Hence nothing is duplicated and nothing appears from nowhere. -/
theorem conservation_up {s : St} (h : Reachable s) (x : View) :
    s.sentV.count x =
      (s.sSend.map view).count x + (s.cRead.map view).count x
        + (s.backendLog.map Prod.snd).count x + (s.dropUp.map Prod.snd).count x :=
  (reachable_inv h).up x

/-- **conservation, downstream**: the same for replies read from the per-user sockets. -/
theorem conservation_down {s : St} (h : Reachable s) (x : View) :
    (s.replyLog.map Prod.snd).count x =
      (s.cSend.map view).count x + (s.sRead.map view).count x
        + (s.userLog.map uview).count x + (s.dropDown.map Prod.snd).count x :=
  (reachable_inv h).down x

/-- what was recorded as sent is the (cut-to-packet-size) payload of the user's datagram, tagged
    with the user's address -/
theorem sentV_eq {s : St} (h : Reachable s) :
    s.sentV = s.sent.map (fun e => (some e.1, some (rd s.sbs e.2))) :=
  (reachable_inv h).sentEq

/-- **no corruption / merge / split / forgery towards the backend**: every datagram handed to the
    backend has exactly the payload (cut to the configured packet size) of one datagram some user
    sent, and went out through a socket that belongs to that user's address. -/
theorem backend_payload_sent {s : St} (h : Reachable s) {k : Nat} {a : Option Addr} {b : Option Str}
    (hm : (k, (a, b)) ∈ s.backendLog) :
    ∃ ua p, (ua, p) ∈ s.sent ∧ a = some ua ∧ b = some (rd s.sbs p) ∧ (k, some ua) ∈ s.socks := by
  have hinv := reachable_inv h
  have hc := conservation_up h (a, b)
  have hpos : 0 < (s.backendLog.map Prod.snd).count (a, b) :=
    List.count_pos_iff.2 (List.mem_map.2 ⟨(k, (a, b)), hm, rfl⟩)
  have hs : 0 < s.sentV.count (a, b) := by omega
  have hmem := List.count_pos_iff.1 hs
  rw [sentV_eq h] at hmem
  obtain ⟨⟨ua, p⟩, hin, heq⟩ := List.mem_map.1 hmem
  simp only [Prod.mk.injEq] at heq
  refine ⟨ua, p, hin, heq.1.symm, heq.2.symm, ?_⟩
  have := hinv.backendSock (k, (a, b)) hm
  simpa [← heq.1] using this

/-- **no duplication towards the backend**: a payload reaches the backend at most as many times
    as it was sent by that address. -/
theorem backend_no_dup {s : St} (h : Reachable s) (x : View) :
    (s.backendLog.map Prod.snd).count x ≤ s.sentV.count x := by
  have := conservation_up h x; omega

/-- a socket towards the backend serves one user address only: two datagrams seen by the backend on
    the same socket come from the same user address -/
theorem socket_exclusive {s : St} (h : Reachable s) {k : Nat} {v v' : View}
    (h1 : (k, v) ∈ s.backendLog) (h2 : (k, v') ∈ s.backendLog) : v.1 = v'.1 := by
  have hinv := reachable_inv h
  exact hinv.socksFun k v.1 v'.1 (hinv.backendSock _ h1) (hinv.backendSock _ h2)

/-- **reply routing**: every datagram written back on the public socket to address `a` with
    payload `q` is (the cut-to-packet-size payload of) a reply that the backend sent to a socket `k`
    that was dialled for a datagram of user address `a` — so it answers `a` — and to no other:
    the socket's address is unique. -/
theorem reply_routing {s : St} (h : Reachable s) {a : Addr} {q : Str} (hm : (a, q) ∈ s.userLog) :
    ∃ k, (k, (some a, some q)) ∈ s.replyLog ∧ (k, some a) ∈ s.socks ∧
      ∀ a', (k, a') ∈ s.socks → a' = some a := by
  have hinv := reachable_inv h
  have hc := conservation_down h (uview (a, q))
  have hpos : 0 < (s.userLog.map uview).count (uview (a, q)) :=
    List.count_pos_iff.2 (List.mem_map.2 ⟨(a, q), hm, rfl⟩)
  have hs : 0 < (s.replyLog.map Prod.snd).count (uview (a, q)) := by omega
  obtain ⟨⟨k, v⟩, hin, heq⟩ := List.mem_map.1 (List.count_pos_iff.1 hs)
  simp only at heq
  subst heq
  have hk := hinv.replySock _ hin
  exact ⟨k, hin, hk, fun a' ha' => hinv.socksFun k a' (some a) ha' hk⟩

/-- **no duplicated / invented replies**: address `a` receives payload `q` at most as many times as
    the backend sent it to a socket of `a`. -/
theorem reply_no_dup {s : St} (h : Reachable s) (x : View) :
    (s.userLog.map uview).count x ≤ (s.replyLog.map Prod.snd).count x := by
  have := conservation_down h x; omega

/-- replies are tagged with the address captured when the socket was dialled -/
theorem reply_tag {s : St} (h : Reachable s) {k : Nat} {v : View} (hm : (k, v) ∈ s.replyLog) :
    (k, v.1) ∈ s.socks :=
  (reachable_inv h).replySock _ hm

/-- **drops only at the listed sites**: in a run in which no drop site was hit, everything sent is
    queued or delivered (multiset equality), in both directions. -/
theorem lossless_if_no_drop {s : St} (h : Reachable s) (hu : s.dropUp = []) (hd : s.dropDown = [])
    (x : View) :
    s.sentV.count x = (s.sSend.map view).count x + (s.cRead.map view).count x
        + (s.backendLog.map Prod.snd).count x ∧
    (s.replyLog.map Prod.snd).count x = (s.cSend.map view).count x + (s.sRead.map view).count x
        + (s.userLog.map uview).count x := by
  have h1 := conservation_up h x
  have h2 := conservation_down h x
  rw [hu] at h1; rw [hd] at h2
  simp only [List.map_nil, List.count_nil, Nat.add_zero] at h1 h2
  exact ⟨h1, h2⟩

/-- the drop sites, with their causes (each proved for one step from any reachable state):
    a step adds a `sendFull`/`replyFull` drop only when that queue holds `cap` messages -/
theorem drop_full_only_when_full (s : St) (l : Label) (x : View) :
    ((step s l).dropUp.count (Drop.sendFull, x) > s.dropUp.count (Drop.sendFull, x) → s.cap ≤ s.sSend.length) ∧
    ((step s l).dropDown.count (Drop.replyFull, x) > s.dropDown.count (Drop.replyFull, x) → s.cap ≤ s.cSend.length) :=
  Udp.drop_full_only_when_full s l x

/-- the codec never causes a drop: `decodeErr` and `nilAddr` drops do not occur -/
theorem no_codec_drop {s : St} (h : Reachable s) :
    (∀ e ∈ s.dropUp, e.1 ≠ Drop.decodeErr ∧ e.1 ≠ Drop.nilAddr) ∧
    (∀ e ∈ s.dropDown, e.1 ≠ Drop.decodeErr ∧ e.1 ≠ Drop.nilAddr) :=
  ⟨(reachable_inv h).noCodecUp, (reachable_inv h).noCodecDown⟩

/-- with packet sizes ≤ 7605 on both sides and well-formed user addresses no frame is ever
    rejected, so the reader never stops and the connection is never killed by a datagram -/
theorem no_frame_drop {s : St} (h : Reachable s) (hs : s.sbs ≤ 7605) (hc : s.cbs ≤ 7605)
    (haddr : ∀ e ∈ s.sent, AddrOK e.1) :
    s.cReader = true ∧
    (∀ e ∈ s.dropUp, e.1 ≠ Drop.frameTooLong ∧ e.1 ≠ Drop.readerDead) ∧
    (∀ e ∈ s.dropDown, e.1 ≠ Drop.frameTooLong ∧ e.1 ≠ Drop.readerDead) := by
  obtain ⟨sbs, cbs, cap, ls, rfl⟩ := h
  obtain ⟨c1, c2, c3⟩ := Udp.clean_run _ (Udp.inv_init sbs cbs cap) (Udp.clean_init sbs cbs cap) ls
    ⟨hs, hc, haddr⟩
  refine ⟨c1, fun e he => ?_, fun e he => ?_⟩
  · have := c2 e he
    constructor <;> intro hh <;> rw [hh] at this <;> cases this
  · have := c3 e he
    constructor <;> intro hh <;> rw [hh] at this <;> cases this

/-- the full clause "drops only under overload or reconnect", as a statement about the model -/
def DropsOnlyOverloadOrReconnectFull : Prop :=
  ∀ s, Reachable s → ∀ e, (e ∈ s.dropUp ∨ e ∈ s.dropDown) →
    e.1 = Drop.sendFull ∨ e.1 = Drop.replyFull ∨ e.1 = Drop.connDown ∨ e.1 = Drop.reconnect

/-- … which fails on the code as it is: with `udpPacketSize = 9000` one 8000-byte datagram is
    dropped as `frameTooLong`, the client's reader stops, and every later datagram is lost
    (`readerDead`) although the connection is up and the queues are empty. -/
def wedgeTrace : List Label :=
  let a : Addr := { ip := [49], port := 7, zone := [] }
  [.userSend a (List.replicate 8000 0), .s2c, .userSend a [1, 2, 3], .s2c]

theorem drops_only_overload_witness :
    ((run (init 9000 9000 1024) wedgeTrace).dropUp.map Prod.fst) = [Drop.frameTooLong, Drop.readerDead]
    ∧ (run (init 9000 9000 1024) wedgeTrace).up = true := by
  decide +kernel

theorem dropsOnlyOverloadOrReconnect_partial {s : St} (h : Reachable s) (hs : s.sbs ≤ 7605)
    (hc : s.cbs ≤ 7605) (haddr : ∀ e ∈ s.sent, AddrOK e.1)
    (hw : ∀ e, (e ∈ s.dropUp ∨ e ∈ s.dropDown) → e.1 ≠ Drop.writeErr) :
    ∀ e, (e ∈ s.dropUp ∨ e ∈ s.dropDown) →
      e.1 = Drop.sendFull ∨ e.1 = Drop.replyFull ∨ e.1 = Drop.connDown ∨ e.1 = Drop.reconnect := by
  obtain ⟨sbs, cbs, cap, ls, rfl⟩ := h
  obtain ⟨_, c2, c3⟩ := Udp.clean_run _ (Udp.inv_init sbs cbs cap) (Udp.clean_init sbs cbs cap) ls
    ⟨hs, hc, haddr⟩
  intro e he
  have key : okReason e.1 = true ∧ e.1 ≠ Drop.writeErr := by
    rcases he with he | he
    · exact ⟨c2 e he, hw e (Or.inl he)⟩
    · exact ⟨c3 e he, hw e (Or.inr he)⟩
  obtain ⟨k1, k2⟩ := key
  cases hd : e.1 <;> rw [hd] at k1 k2 <;> simp_all [okReason]

/-! ### non-vacuity: a concrete interleaving with two users -/

def ua : Addr := { ip := [49], port := 7, zone := [] }
def ub : Addr := { ip := [50], port := 8, zone := [] }

/-- two users send, both datagrams cross, the backend answers the *second* socket first -/
def demoTrace : List Label :=
  [.userSend ua [1, 2, 3], .userSend ub [9], .s2c, .s2c, .cfwd true, .cfwd true,
   .backendReply 1 [90], .backendReply 0 [10, 20], .c2s, .c2s, .sback, .sback]

example : Reachable (run (init 1500 1500 1024) demoTrace) := ⟨1500, 1500, 1024, demoTrace, rfl⟩
example : (run (init 1500 1500 1024) demoTrace).backendLog
    = [(0, (some ua, some [1, 2, 3])), (1, (some ub, some [9]))] := by decide +kernel
example : (run (init 1500 1500 1024) demoTrace).userLog = [(ub, [90]), (ua, [10, 20])] := by
  decide +kernel
/-- a datagram longer than the packet size is cut, not split -/
example : (run (init 2 1500 1024) [.userSend ua [1, 2, 3], .s2c, .cfwd true]).backendLog
    = [(0, (some ua, some [1, 2]))] := by decide +kernel
/-- queue of capacity 1: the second datagram is dropped as `sendFull` -/
example : ((run (init 1500 1500 1) [.userSend ua [1], .userSend ub [2]]).dropUp.map Prod.fst)
    = [Drop.sendFull] := by decide +kernel
/-- after the socket of `ua` expired a new one is dialled; replies to the old one are not read -/
example : (run (init 1500 1500 1024)
    [.userSend ua [1], .s2c, .cfwd true, .sockExit 0, .backendReply 0 [5], .userSend ua [2], .s2c,
     .cfwd true, .backendReply 1 [6], .c2s, .sback]).userLog = [(ua, [6])] := by decide +kernel

/-! ## 4. Executable predicates evaluated on the implementation's results -/

/-- multiset equality of two lists -/
def MsEq {α} [DecidableEq α] (a b : List α) : Prop := ∀ x, a.count x = b.count x

def msEq {α} [DecidableEq α] (a b : List α) : Bool :=
  a.all (fun x => a.count x == b.count x) && b.all (fun x => a.count x == b.count x)

theorem msEq_sound {α} [DecidableEq α] (a b : List α) : msEq a b = true ↔ MsEq a b := by
  simp only [msEq, Bool.and_eq_true, List.all_eq_true, beq_iff_eq, MsEq]
  constructor
  · rintro ⟨h1, h2⟩ x
    by_cases ha : x ∈ a
    · exact h1 x ha
    · by_cases hb : x ∈ b
      · exact h2 x hb
      · rw [List.count_eq_zero.2 ha, List.count_eq_zero.2 hb]
  · intro h; exact ⟨fun x _ => h x, fun x _ => h x⟩

/-- tunnel run at light load: `E` = what the users sent (as the backend must see it), `B` = what the
    backend got, `Rs i` = the replies user `i` must get, `Us i` = what it got; `mixed` = a backend
    socket carried datagrams of two users. -/
def HoldsOnTunnel {α} [DecidableEq α] (E B : List α) (Rs Us : List (List α)) (mixed : Bool) : Prop :=
  MsEq B E ∧ Us.length = Rs.length ∧ (∀ p ∈ Us.zip Rs, MsEq p.1 p.2) ∧ mixed = false

def holdsOnTunnel {α} [DecidableEq α] (E B : List α) (Rs Us : List (List α)) (mixed : Bool) : Bool :=
  msEq B E && Us.length == Rs.length && (Us.zip Rs).all (fun p => msEq p.1 p.2) && !mixed

theorem holdsOn_sound {α} [DecidableEq α] (E B : List α) (Rs Us : List (List α)) (mixed : Bool) :
    holdsOnTunnel E B Rs Us mixed = true ↔ HoldsOnTunnel E B Rs Us mixed := by
  simp only [holdsOnTunnel, HoldsOnTunnel, Bool.and_eq_true, msEq_sound, beq_iff_eq, List.all_eq_true,
    Bool.not_eq_true', and_assoc]

/-- codec op: the implementation's `Content` decodes (in the model) to the bytes given, and its own
    `GetContent` agreed -/
def holdsOnB64 (b content : Str) (rt : Bool) : Bool := decide (decode content = some b) && rt

/-- frame op: a payload that is allowed under the configured packet size must be readable -/
def holdsOnFrame (ps n : Nat) (readOk rt : Bool) : Bool := !(decide (n ≤ ps)) || (readOk && rt)

/-- the model's own logs satisfy the tunnel predicate's safety half in every reachable state:
    what reached the backend is a sub-multiset of what was sent, what reached the users is a
    sub-multiset of the replies read from their sockets -/
theorem model_safe {s : St} (h : Reachable s) (x : View) :
    (s.backendLog.map Prod.snd).count x ≤ s.sentV.count x ∧
    (s.userLog.map uview).count x ≤ (s.replyLog.map Prod.snd).count x :=
  ⟨backend_no_dup h x, reply_no_dup h x⟩

/-! ## 5. sudp visitor: nothing duplicated or invented across replacement of the visitor connection

  `Sudp.run (Sudp.init …) ls` for an arbitrary label list `ls`: every interleaving of user datagrams,
  dispatcher receives, connection attempts that succeed or fail, writes that succeed or fail, inbound
  packets and pings, reader failures (peer closed / 60 s silence / bad frame) and worker ends — i.e.
  any number of replacements of the visitor connection at any point. -/

def SReachable (s : Sudp.St) : Prop := ∃ bs cap ls, s = Sudp.run (Sudp.init bs cap) ls

theorem sudp_reachable_inv {s : Sudp.St} (h : SReachable s) : Sudp.Inv s := by
  obtain ⟨bs, cap, ls, rfl⟩ := h
  exact Sudp.inv_run _ (Sudp.inv_init bs cap) ls

/-- **conservation, user → tunnel**: every datagram that arrived at the visitor's socket is, at any
    time, exactly one of: queued in `sendCh`, held in the `firstPacket` variable of the dispatcher /
    worker (taken, not yet written), written on exactly one visitor connection, or dropped at a
    listed site — as multisets over all connections together. -/
theorem sudp_conservation_up {s : Sudp.St} (h : SReachable s) (x : View) :
    s.sentV.count x =
      (s.sendCh.map view).count x + ((Sudp.held s).map view).count x
        + (s.wire.map Prod.snd).count x + (s.dropUp.map Prod.snd).count x :=
  (sudp_reachable_inv h).up x

/-- **conservation, tunnel → user** -/
theorem sudp_conservation_down {s : Sudp.St} (h : SReachable s) (x : View) :
    (s.inLog.map Prod.snd).count x =
      (s.readCh.map view).count x + (s.userLog.map uview).count x + (s.dropDown.map Prod.snd).count x :=
  (sudp_reachable_inv h).down x

theorem sudp_sentV_eq {s : Sudp.St} (h : SReachable s) :
    s.sentV = s.sent.map (fun e => (some e.1, some (rd s.bs e.2))) :=
  (sudp_reachable_inv h).sentEq

/-- **no duplication across connection replacement**: over all visitor connections together a
    payload is written at most as many times as that user address sent it — in particular the
    datagram that opened a connection is not written again on a later one. -/
theorem sudp_no_dup_across_connections {s : Sudp.St} (h : SReachable s) (x : View) :
    (s.wire.map Prod.snd).count x ≤ s.sentV.count x := by
  have := sudp_conservation_up h x; omega

/-- **no corruption / forgery**: whatever is written on visitor connection `g` has exactly the
    payload (cut to the packet size) of one datagram some user sent, tagged with that user's address,
    and `g` is a connection that was established (1 ≤ g ≤ number of connections so far). -/
theorem sudp_wire_payload_sent {s : Sudp.St} (h : SReachable s) {g : Nat} {a : Option Addr}
    {b : Option Str} (hm : (g, (a, b)) ∈ s.wire) :
    ∃ ua p, (ua, p) ∈ s.sent ∧ a = some ua ∧ b = some (rd s.bs p) ∧ 1 ≤ g ∧ g ≤ s.gen := by
  have hc := sudp_conservation_up h (a, b)
  have hpos : 0 < (s.wire.map Prod.snd).count (a, b) :=
    List.count_pos_iff.2 (List.mem_map.2 ⟨(g, (a, b)), hm, rfl⟩)
  have hs : 0 < s.sentV.count (a, b) := by omega
  have hmem := List.count_pos_iff.1 hs
  rw [sudp_sentV_eq h] at hmem
  obtain ⟨⟨ua, p⟩, hin, heq⟩ := List.mem_map.1 hmem
  simp only [Prod.mk.injEq] at heq
  have hg := (sudp_reachable_inv h).wireGen _ hm
  exact ⟨ua, p, hin, heq.1.symm, heq.2.symm, hg.1, hg.2⟩

/-- **reply routing at the visitor**: a datagram written to user address `a` with payload `q` is
    one inbound packet of some connection that carried exactly that address and payload -/
theorem sudp_reply_routing {s : Sudp.St} (h : SReachable s) {a : Addr} {q : Str}
    (hm : (a, q) ∈ s.userLog) : ∃ g, (g, (some a, some q)) ∈ s.inLog ∧ 1 ≤ g ∧ g ≤ s.gen := by
  have hc := sudp_conservation_down h (uview (a, q))
  have hpos : 0 < (s.userLog.map uview).count (uview (a, q)) :=
    List.count_pos_iff.2 (List.mem_map.2 ⟨(a, q), hm, rfl⟩)
  have hs : 0 < (s.inLog.map Prod.snd).count (uview (a, q)) := by omega
  obtain ⟨⟨g, v⟩, hin, heq⟩ := List.mem_map.1 (List.count_pos_iff.1 hs)
  simp only at heq
  subst heq
  have hg := (sudp_reachable_inv h).inGen _ hin
  exact ⟨g, hin, hg.1, hg.2⟩

/-- no duplicated / invented replies at the visitor -/
theorem sudp_reply_no_dup {s : Sudp.St} (h : SReachable s) (x : View) :
    (s.userLog.map uview).count x ≤ (s.inLog.map Prod.snd).count x := by
  have := sudp_conservation_down h x; omega

/-- the only upstream drop reasons: full queue, failed connection attempt, failed write -/
theorem sudp_drop_reasons {s : Sudp.St} (h : SReachable s) :
    ∀ e ∈ s.dropUp, e.1 = Sudp.VDrop.sendFull ∨ e.1 = Sudp.VDrop.connFail ∨ e.1 = Sudp.VDrop.connDown := by
  intro e he
  have := (sudp_reachable_inv h).dropReason e he
  cases hd : e.1 <;> rw [hd] at this <;> simp_all [Sudp.okUp]

/-- … and each with its cause, per step from any state: `sendFull` only with `cap` messages queued
    (overload); `connFail` only by a failed connection attempt; `connDown` only by a failed write on
    the visitor connection (the connection is being re-established). -/
theorem sudp_drop_causes (s : Sudp.St) (l : Sudp.Label) (d : Sudp.VDrop) (x : View)
    (hgt : s.dropUp.count (d, x) < (Sudp.step s l).dropUp.count (d, x)) :
    (d = .sendFull ∧ s.cap ≤ s.sendCh.length ∧ ∃ a p, l = .userSend a p) ∨
    (d = .connFail ∧ s.phase = .connect ∧ l = .connect false) ∨
    (d = .connDown ∧ s.phase = .work ∧ (l = .sendFirst false ∨ l = .sendNext false)) :=
  Sudp.drop_causes s l d x hgt

/-- in a run without a drop everything sent is queued, held or written (multiset equality) -/
theorem sudp_lossless_if_no_drop {s : Sudp.St} (h : SReachable s) (hu : s.dropUp = []) (x : View) :
    s.sentV.count x = (s.sendCh.map view).count x + ((Sudp.held s).map view).count x
        + (s.wire.map Prod.snd).count x := by
  have h1 := sudp_conservation_up h x
  rw [hu] at h1
  simpa only [List.map_nil, List.count_nil, Nat.add_zero] using h1

/-- one worker at a time: outside `worker()` neither of its goroutines runs -/
theorem sudp_one_worker {s : Sudp.St} (h : SReachable s) (hp : s.phase ≠ .work) :
    s.sender = false ∧ s.reader = false :=
  (sudp_reachable_inv h).idle hp

/-- **at light load they arrive** (no connection yet): dispatcher takes the datagram, connects,
    and it is the first message on the new connection `gen+1`; nothing is dropped -/
theorem sudp_first_datagram_delivered (s : Sudp.St) (a : Addr) (p : Str) (hb : isBytes p = true)
    (hph : s.phase = .wait) (hq : s.sendCh = []) (hcap : 0 < s.cap) :
    let s' := Sudp.run s [.userSend a p, .dispTake, .connect true, .sendFirst true]
    s'.wire = s.wire ++ [(s.gen + 1, (some a, some (rd s.bs p)))] ∧ s'.dropUp = s.dropUp ∧
      s'.sendCh = [] ∧ s'.phase = .work ∧ s'.sender = true ∧ s'.firstDone = true :=
  Sudp.first_datagram_delivered s a p hb hph hq hcap

/-- **at light load they arrive** (connection up): written on the current connection -/
theorem sudp_next_datagram_delivered (s : Sudp.St) (a : Addr) (p : Str) (hb : isBytes p = true)
    (hph : s.phase = .work) (hs : s.sender = true) (hf : s.firstDone = true) (hq : s.sendCh = [])
    (hcap : 0 < s.cap) :
    let s' := Sudp.run s [.userSend a p, .sendNext true]
    s'.wire = s.wire ++ [(s.gen, (some a, some (rd s.bs p)))] ∧ s'.dropUp = s.dropUp ∧ s'.sendCh = [] :=
  Sudp.next_datagram_delivered s a p hb hph hs hf hq hcap

/-! ### non-vacuity: two datagrams, the connection is lost, a third datagram -/

/-- "one", "two" on connection 1; the reader fails; "three" opens connection 2 and is the only
    thing written on it -/
def sudpDemo : List Sudp.Label :=
  [.userSend ua [1], .dispTake, .connect true, .sendFirst true, .userSend ua [2], .sendNext true,
   .readerDie, .senderExit, .workerEnd, .userSend ua [3], .dispTake, .connect true, .sendFirst true]

example : SReachable (Sudp.run (Sudp.init 1500 1024) sudpDemo) := ⟨1500, 1024, sudpDemo, rfl⟩
example : (Sudp.run (Sudp.init 1500 1024) sudpDemo).wire
    = [(1, (some ua, some [1])), (1, (some ua, some [2])), (2, (some ua, some [3]))] := by decide +kernel
/-- a failed attempt loses the datagram that triggered it (and only that one) -/
example : ((Sudp.run (Sudp.init 1500 1024)
    [.userSend ua [1], .dispTake, .connect false, .userSend ua [2], .dispTake, .connect true,
     .sendFirst true]).wire,
   (Sudp.run (Sudp.init 1500 1024)
    [.userSend ua [1], .dispTake, .connect false, .userSend ua [2], .dispTake, .connect true,
     .sendFirst true]).dropUp.map Prod.fst)
    = ([(1, (some ua, some [2]))], [Sudp.VDrop.connFail]) := by decide +kernel
/-- a reply for `ub` read from connection 1 goes to `ub` -/
example : (Sudp.run (Sudp.init 1500 1024)
    [.userSend ub [1], .dispTake, .connect true, .sendFirst true,
     .connRecv (packetOf [7, 7] none (some ub)), .sback]).userLog = [(ub, [7, 7])] := by decide +kernel

/-- sub-multiset -/
def MsSub {α} [DecidableEq α] (a b : List α) : Prop := ∀ x, a.count x ≤ b.count x

def msSub {α} [DecidableEq α] (a b : List α) : Bool := a.all (fun x => decide (a.count x ≤ b.count x))

theorem msSub_sound {α} [DecidableEq α] (a b : List α) : msSub a b = true ↔ MsSub a b := by
  simp only [msSub, List.all_eq_true, decide_eq_true_eq, MsSub]
  constructor
  · intro h x
    by_cases ha : x ∈ a
    · exact h x ha
    · rw [List.count_eq_zero.2 ha]; exact Nat.zero_le _
  · intro h x _; exact h x

/-- sudp run at light load with scripted connection loss.  `must` = datagrams sent while a connection
    is up or can be made (they have to arrive), `may` = datagrams that travel while the connection is
    being (re-)established: those that triggered a connection attempt that was made to fail (dropped
    by the code as it is; delivering them later would be allowed) and those that re-opened the tunnel
    after a loss (delivered by the code as it is),
    `W` = what the far side received over all visitor connections together, `Rs i` / `Us i` = replies
    sent for / received by user `i`, `bad` = a packet carried a wrong address tag. -/
def HoldsOnSudp {α} [DecidableEq α] (must may W : List α) (Rs Us : List (List α)) (bad : Bool) : Prop :=
  MsSub W (must ++ may) ∧ MsSub must W ∧ Us.length = Rs.length ∧ (∀ p ∈ Us.zip Rs, MsEq p.1 p.2) ∧ bad = false

def holdsOnSudp {α} [DecidableEq α] (must may W : List α) (Rs Us : List (List α)) (bad : Bool) : Bool :=
  msSub W (must ++ may) && msSub must W && Us.length == Rs.length && (Us.zip Rs).all (fun p => msEq p.1 p.2) && !bad

theorem holdsOnSudp_sound {α} [DecidableEq α] (must may W : List α) (Rs Us : List (List α)) (bad : Bool) :
    holdsOnSudp must may W Rs Us bad = true ↔ HoldsOnSudp must may W Rs Us bad := by
  simp only [holdsOnSudp, HoldsOnSudp, Bool.and_eq_true, msSub_sound, msEq_sound, beq_iff_eq, List.all_eq_true,
    Bool.not_eq_true', and_assoc]

/-- the model's own logs satisfy the safety half of that predicate in every reachable state -/
theorem sudp_model_safe {s : Sudp.St} (h : SReachable s) (x : View) :
    (s.wire.map Prod.snd).count x ≤ s.sentV.count x ∧
    (s.userLog.map uview).count x ≤ (s.inLog.map Prod.snd).count x :=
  ⟨sudp_no_dup_across_connections h x, sudp_reply_no_dup h x⟩

/-! ## 6. server side of a udp proxy: replacement of the work connection

  `UdpSrv.run (UdpSrv.init …) ls` for an arbitrary label list `ls`: every interleaving of user datagrams,
  the work-connection loop of `UDPProxy.Run` (obtaining a connection succeeds or fails, wake-up, cancel),
  reader failures at any point (peer closed / 60 s silence / bad frame), sender writes that succeed or fail,
  sender exits, inbound packets (with or without address, decodable or not) and pings — i.e. any number of
  replacements of the work connection at any point, idle or under traffic. -/

def VReachable (s : UdpSrv.St) : Prop := ∃ bs cap ls, s = UdpSrv.run (UdpSrv.init bs cap) ls

theorem srv_reachable_inv {s : UdpSrv.St} (h : VReachable s) : UdpSrv.Inv s := by
  obtain ⟨bs, cap, ls, rfl⟩ := h
  exact UdpSrv.inv_run _ (UdpSrv.inv_init bs cap) ls

/-- **conservation, user → tunnel**: every datagram that arrived at the public socket is, at any time,
    exactly one of: queued in `sendCh`, written on exactly one work connection, or dropped at a listed
    site — as multisets over all work connections together. -/
theorem srv_conservation_up {s : UdpSrv.St} (h : VReachable s) (x : View) :
    s.sentV.count x =
      (s.sendCh.map view).count x + (s.wire.map Prod.snd).count x + (s.dropUp.map Prod.snd).count x :=
  (srv_reachable_inv h).up x

/-- **conservation, tunnel → user** -/
theorem srv_conservation_down {s : UdpSrv.St} (h : VReachable s) (x : View) :
    (s.inLog.map Prod.snd).count x =
      (s.readCh.map view).count x + (s.userLog.map uview).count x + (s.dropDown.map Prod.snd).count x :=
  (srv_reachable_inv h).down x

theorem srv_sentV_eq {s : UdpSrv.St} (h : VReachable s) :
    s.sentV = s.sent.map (fun e => (some e.1, some (rd s.bs e.2))) :=
  (srv_reachable_inv h).sentEq

/-- **no duplication across replacement**: over all work connections together a payload is written at
    most as many times as that user address sent it. -/
theorem srv_no_dup_across_connections {s : UdpSrv.St} (h : VReachable s) (x : View) :
    (s.wire.map Prod.snd).count x ≤ s.sentV.count x := by
  have := srv_conservation_up h x; omega

/-- **no corruption / forgery**: whatever is written on work connection `g` has exactly the payload (cut
    to the packet size) of one datagram some user sent, tagged with that user's address, and `g` is a
    connection the proxy has obtained (1 ≤ g ≤ number of connections so far). -/
theorem srv_wire_payload_sent {s : UdpSrv.St} (h : VReachable s) {g : Nat} {a : Option Addr}
    {b : Option Str} (hm : (g, (a, b)) ∈ s.wire) :
    ∃ ua p, (ua, p) ∈ s.sent ∧ a = some ua ∧ b = some (rd s.bs p) ∧ 1 ≤ g ∧ g ≤ s.gen := by
  have hc := srv_conservation_up h (a, b)
  have hpos : 0 < (s.wire.map Prod.snd).count (a, b) :=
    List.count_pos_iff.2 (List.mem_map.2 ⟨(g, (a, b)), hm, rfl⟩)
  have hs : 0 < s.sentV.count (a, b) := by omega
  have hmem := List.count_pos_iff.1 hs
  rw [srv_sentV_eq h] at hmem
  obtain ⟨⟨ua, p⟩, hin, heq⟩ := List.mem_map.1 hmem
  simp only [Prod.mk.injEq] at heq
  have hg := (srv_reachable_inv h).wireGen _ hm
  exact ⟨ua, p, hin, heq.1.symm, heq.2.symm, hg.1, hg.2⟩

/-- **reply routing on the public socket**: a datagram written to user address `a` with payload `q` is one
    packet read from some work connection that carried exactly that address and payload; in particular
    a packet without address, or with an undecodable content, reaches nobody. -/
theorem srv_reply_routing {s : UdpSrv.St} (h : VReachable s) {a : Addr} {q : Str}
    (hm : (a, q) ∈ s.userLog) : ∃ g, (g, (some a, some q)) ∈ s.inLog ∧ 1 ≤ g ∧ g ≤ s.gen := by
  have hc := srv_conservation_down h (uview (a, q))
  have hpos : 0 < (s.userLog.map uview).count (uview (a, q)) :=
    List.count_pos_iff.2 (List.mem_map.2 ⟨(a, q), hm, rfl⟩)
  have hs : 0 < (s.inLog.map Prod.snd).count (uview (a, q)) := by omega
  obtain ⟨⟨g, v⟩, hin, heq⟩ := List.mem_map.1 (List.count_pos_iff.1 hs)
  simp only at heq
  subst heq
  have hg := (srv_reachable_inv h).inGen _ hin
  exact ⟨g, hin, hg.1, hg.2⟩

theorem srv_reply_no_dup {s : UdpSrv.St} (h : VReachable s) (x : View) :
    (s.userLog.map uview).count x ≤ (s.inLog.map Prod.snd).count x := by
  have := srv_conservation_down h x; omega

/-- the only upstream drop reasons: full queue, failed write on a work connection -/
theorem srv_drop_reasons {s : UdpSrv.St} (h : VReachable s) :
    ∀ e ∈ s.dropUp, e.1 = UdpSrv.SDrop.sendFull ∨ e.1 = UdpSrv.SDrop.connDown := by
  intro e he
  have := (srv_reachable_inv h).dropReason e he
  cases hd : e.1 <;> rw [hd] at this <;> simp_all [UdpSrv.okUp]

/-- … and each with its cause, per step from any state: `sendFull` only with `cap` messages queued
    (overload); `connDown` only by a sender whose write failed: the transport refused it (`ok = false`, the
    connection is broken) or the connection had already been closed on the server side. -/
theorem srv_drop_causes (s : UdpSrv.St) (l : UdpSrv.Label) (d : UdpSrv.SDrop) (x : View)
    (hgt : s.dropUp.count (d, x) < (UdpSrv.step s l).dropUp.count (d, x)) :
    (d = .sendFull ∧ s.cap ≤ s.sendCh.length ∧ ∃ a p, l = .userSend a p) ∨
    (d = .connDown ∧ ∃ g ok, l = .senderTake g ok ∧ g ∈ s.senders ∧ (ok = false ∨ g ∈ s.dead)) :=
  UdpSrv.drop_causes s l d x hgt

/-- … and a connection that is closed on the server side while its sender still runs **is being
    re-established**: it is not the current one, or the loop is between two connections, or the reader of
    the current connection has already failed and asks for the replacement. -/
theorem srv_dead_conn_is_being_replaced {s : UdpSrv.St} (h : VReachable s) {g : Nat}
    (hs : g ∈ s.senders) (hd : g ∈ s.dead) : g ≠ s.gen ∨ s.loop ≠ .watch ∨ s.readers = [] :=
  UdpSrv.dead_conn_is_being_replaced (srv_reachable_inv h) hs hd

theorem srv_lossless_if_no_drop {s : UdpSrv.St} (h : VReachable s) (hu : s.dropUp = []) (x : View) :
    s.sentV.count x = (s.sendCh.map view).count x + (s.wire.map Prod.snd).count x := by
  have h1 := srv_conservation_up h x
  rw [hu] at h1
  simpa only [List.map_nil, List.count_nil, Nat.add_zero] using h1

/-- **one reader**: a reader inside its read loop belongs to the current connection, it is the only one,
    and nobody waits on `checkCloseCh`; between two connections there is none -/
theorem srv_one_reader {s : UdpSrv.St} (h : VReachable s) {g : Nat} (hg : g ∈ s.readers) :
    s.loop = .watch ∧ g = s.gen ∧ s.readers = [s.gen] ∧ s.signal = [] := by
  have := UdpSrv.reader_cur (srv_reachable_inv h) hg
  exact ⟨this.1, this.2.1, this.2.2.2.1, this.2.2.2.2⟩

/-- **no sender stays parked on `sendCh` behind a replaced connection** (all interleavings): a sender that
    is alive and is not the sender of the current connection under a watching loop has had its context
    cancelled — `case <-ctx.Done()` is ready, it leaves without needing a datagram. -/
theorem srv_stale_sender_cancelled {s : UdpSrv.St} (h : VReachable s) {g : Nat} (hg : g ∈ s.senders)
    (hstale : g ≠ s.gen ∨ s.loop = .get) : g ∈ s.cancelled := by
  obtain ⟨_, _, h3 | h3⟩ := (srv_reachable_inv h).sendersOK g hg
  · exact h3
  · rcases hstale with hs | hs
    · exact absurd h3.1 hs
    · exact absurd hs h3.2

/-- quiescing = the cancelled senders take their `ctx.Done()` branch; it needs no other event and touches
    nothing but the set of senders -/
theorem srv_quiesce_eq (s : UdpSrv.St) :
    UdpSrv.quiesce s = { s with senders := s.senders.filter (fun g => decide (g ∉ s.cancelled)) } :=
  UdpSrv.quiesce_eq s

/-- **at most one live sender consumes `sendCh` once the previous ones have been woken**, and it is the
    sender of the current work connection -/
theorem srv_quiescent_one_sender {s : UdpSrv.St} (h : VReachable s) :
    (UdpSrv.quiesce s).senders.length ≤ 1 ∧
    ∀ g ∈ (UdpSrv.quiesce s).senders, g = s.gen ∧ s.loop ≠ .get :=
  ⟨UdpSrv.quiescent_one_sender (srv_reachable_inv h),
   fun _ hg => let r := UdpSrv.quiescent_senders (srv_reachable_inv h) hg; ⟨r.1, r.2.1⟩⟩

/-- **a datagram taken from `sendCh` goes to the CURRENT work connection**: from a quiescent state,
    whichever sender `g` performs the next take, with whatever outcome, the wire log grows (if at all)
    by an entry on connection `gen` -/
theorem srv_taken_on_current {s : UdpSrv.St} (h : VReachable s) (g : Nat) (ok : Bool) :
    (UdpSrv.step (UdpSrv.quiesce s) (.senderTake g ok)).wire = s.wire ∨
    ∃ v, (UdpSrv.step (UdpSrv.quiesce s) (.senderTake g ok)).wire = s.wire ++ [(s.gen, v)] :=
  UdpSrv.taken_on_current (srv_reachable_inv h) g ok

/-- **at light load they arrive** (connection up): written on the current connection, nothing dropped -/
theorem srv_next_datagram_delivered (s : UdpSrv.St) (a : Addr) (p : Str) (hb : isBytes p = true)
    (hs : s.gen ∈ s.senders) (hd : s.gen ∉ s.dead) (hq : s.sendCh = []) (hcap : 0 < s.cap) :
    let s' := UdpSrv.run s [.userSend a p, .senderTake s.gen true]
    s'.wire = s.wire ++ [(s.gen, (some a, some (rd s.bs p)))] ∧ s'.dropUp = s.dropUp ∧ s'.sendCh = [] ∧
      s'.senders = s.senders ∧ s'.dead = s.dead ∧ s'.gen = s.gen :=
  UdpSrv.next_datagram_delivered s a p hb hs hd hq hcap

/-- one replacement of an idle work connection leads from a healthy state to a healthy state on the next
    connection, with nothing written and nothing dropped -/
theorem srv_replace_idle_healthy {s : UdpSrv.St} (h : UdpSrv.Healthy s) :
    UdpSrv.Healthy (UdpSrv.run s (UdpSrv.replaceIdle s.gen)) ∧
      (UdpSrv.run s (UdpSrv.replaceIdle s.gen)).gen = s.gen + 1 ∧
      (UdpSrv.run s (UdpSrv.replaceIdle s.gen)).wire = s.wire ∧
      (UdpSrv.run s (UdpSrv.replaceIdle s.gen)).dropUp = s.dropUp := by
  have := UdpSrv.replaceIdle_healthy h
  exact ⟨this.1, this.2.1, this.2.2.1, this.2.2.2.1⟩

/-- **after ANY number `k` of replacements of the work connection while idle, the next datagram arrives**:
    it is written on connection `gen + k` and nothing is dropped (the first datagram after `k` replacements is
    not lost, for every `k`). -/
theorem srv_delivered_after_replacements (k : Nat) {s : UdpSrv.St} (h : UdpSrv.Healthy s) (a : Addr)
    (p : Str) (hb : isBytes p = true) (hcap : 0 < s.cap) :
    let s' := UdpSrv.run (UdpSrv.replaceIdleN k s) [.userSend a p, .senderTake (s.gen + k) true]
    s'.wire = s.wire ++ [(s.gen + k, (some a, some (rd s.bs p)))] ∧ s'.dropUp = s.dropUp :=
  UdpSrv.delivered_after_replacements k h a p hb hcap

/-! ### non-vacuity -/

/-- the proxy obtains connection 1: a healthy state that is reachable -/
def srvUp : UdpSrv.St := UdpSrv.run (UdpSrv.init 1500 1024) [.loopGet true]

example : VReachable srvUp := ⟨1500, 1024, [.loopGet true], rfl⟩
example : UdpSrv.Healthy srvUp := by
  refine ⟨rfl, rfl, rfl, rfl, ?_, ?_, rfl⟩ <;> decide +kernel

/-- "one" on connection 1; the connection is replaced twice while idle; "two" goes to connection 3 -/
def srvDemo : List UdpSrv.Label :=
  [.loopGet true, .userSend ua [1], .senderTake 1 true] ++ UdpSrv.replaceIdle 1 ++ UdpSrv.replaceIdle 2 ++
  [.userSend ua [2], .senderTake 3 true]

example : (UdpSrv.run (UdpSrv.init 1500 1024) srvDemo).wire
    = [(1, (some ua, some [1])), (3, (some ua, some [2]))] := by decide +kernel
example : (UdpSrv.run (UdpSrv.init 1500 1024) srvDemo).senders = [3] := by decide +kernel
/-- the new connection is up before the old sender has woken: two senders are alive, the old one is
    cancelled, and after quiescing only the current one is left -/
example : ((UdpSrv.run (UdpSrv.init 1500 1024)
      [.loopGet true, .readerDie 1, .loopWake, .loopCancel, .loopGet true]).senders,
    (UdpSrv.quiesce (UdpSrv.run (UdpSrv.init 1500 1024)
      [.loopGet true, .readerDie 1, .loopWake, .loopCancel, .loopGet true])).senders)
    = ([1, 2], [2]) := by decide +kernel
/-- replacement under traffic: the reader has failed, the old sender still takes a datagram and loses it
    (the only way to lose one at light load) -/
example : ((UdpSrv.run (UdpSrv.init 1500 1024)
      [.loopGet true, .readerDie 1, .userSend ua [9], .senderTake 1 true]).dropUp.map Prod.fst)
    = [UdpSrv.SDrop.connDown] := by decide +kernel
/-- a packet without address and a packet with undecodable content reach nobody; the next reply does -/
example : ((UdpSrv.run (UdpSrv.init 1500 1024)
      [.loopGet true, .connRecv 1 (packetOf [7] none none), .sback,
       .connRecv 1 { content := [33], laddr := none, raddr := some ua }, .sback,
       .connRecv 1 (packetOf [8] none (some ub)), .sback]).userLog,
    (UdpSrv.run (UdpSrv.init 1500 1024)
      [.loopGet true, .connRecv 1 (packetOf [7] none none), .sback,
       .connRecv 1 { content := [33], laddr := none, raddr := some ua }, .sback,
       .connRecv 1 (packetOf [8] none (some ub)), .sback]).dropDown.map Prod.fst)
    = ([(ub, [8])], [UdpSrv.SDrop.nilAddr, UdpSrv.SDrop.decodeErr]) := by decide +kernel

/-- server-proxy run at light load with scripted loss of the work connection.  `must` = datagrams sent while
    a healthy work connection is up and nothing else is in flight (they have to arrive), `may` = datagrams
    that were in flight when the work connection was taken away (each may arrive once, on the old or on the
    new connection, or be lost), `W` = what the far side received over all work connections together,
    `Rs i` / `Us i` = replies sent for / received by user `i` (packets without address or with undecodable
    content are in no `Rs i`), `bad` = a packet carried a wrong address tag. -/
def HoldsOnSrv {α} [DecidableEq α] (must may W : List α) (Rs Us : List (List α)) (bad : Bool) : Prop :=
  MsSub W (must ++ may) ∧ MsSub must W ∧ Us.length = Rs.length ∧ (∀ p ∈ Us.zip Rs, MsEq p.1 p.2) ∧ bad = false

def holdsOnSrv {α} [DecidableEq α] (must may W : List α) (Rs Us : List (List α)) (bad : Bool) : Bool :=
  msSub W (must ++ may) && msSub must W && Us.length == Rs.length && (Us.zip Rs).all (fun p => msEq p.1 p.2) && !bad

theorem holdsOnSrv_sound {α} [DecidableEq α] (must may W : List α) (Rs Us : List (List α)) (bad : Bool) :
    holdsOnSrv must may W Rs Us bad = true ↔ HoldsOnSrv must may W Rs Us bad := by
  simp only [holdsOnSrv, HoldsOnSrv, Bool.and_eq_true, msSub_sound, msEq_sound, beq_iff_eq, List.all_eq_true,
    Bool.not_eq_true', and_assoc]

/-- the model's own logs satisfy the safety half of that predicate in every reachable state -/
theorem srv_model_safe {s : UdpSrv.St} (h : VReachable s) (x : View) :
    (s.wire.map Prod.snd).count x ≤ s.sentV.count x ∧
    (s.userLog.map uview).count x ≤ (s.inLog.map Prod.snd).count x :=
  ⟨srv_no_dup_across_connections h x, srv_reply_no_dup h x⟩

/-! ## 7. client side of a sudp proxy: several work connections alive at once (one per visitor connection)

  `SudpPx.run (SudpPx.init …) ls` for an arbitrary label list `ls`: every interleaving of further InWorkConn
  calls, of the actions of the reader / sender / heartbeat / Forwarder goroutines of EVERY connection (inbound
  packets, forwarding, backend replies, writes that succeed or fail, reader failures, socket expiry, pings) and of
  `Close()` of the proxy. -/

def PReachable (s : SudpPx.St) : Prop := ∃ bs cap ls, s = SudpPx.run (SudpPx.init bs cap) ls

theorem px_reachable_inv {s : SudpPx.St} (h : PReachable s) : SudpPx.Inv s := by
  obtain ⟨bs, cap, ls, rfl⟩ := h
  exact SudpPx.inv_run _ (SudpPx.inv_init bs cap) ls

theorem px_conn_mem {s : SudpPx.St} {i : Nat} {c : SudpPx.Conn} (hc : s.conn i = some c) : c ∈ s.conns :=
  List.mem_iff_getElem?.2 ⟨i, hc⟩

/-- **conservation per work connection, visitor → backend**: every UDPPacket read from work connection `i` is,
    at any time, exactly one of: queued in the readCh of connection `i`, handed to the backend through a socket
    of connection `i`, or dropped at a listed site of connection `i` (multisets).  Nothing of connection `i`
    shows up anywhere else, nothing is duplicated. -/
theorem px_conservation_up {s : SudpPx.St} (h : PReachable s) {i : Nat} {c : SudpPx.Conn}
    (hc : s.conn i = some c) (x : View) :
    c.inLog.count x = (c.readCh.map view).count x + (c.backendLog.map Prod.snd).count x
      + (c.dropUp.map Prod.snd).count x :=
  ((px_reachable_inv h) c (px_conn_mem hc)).1.up x

/-- **conservation per work connection, backend → visitor**: every reply read from a socket of connection `i`
    is exactly one of: queued in the sendCh of connection `i`, written on work connection `i`, or dropped at a
    listed site of connection `i`. -/
theorem px_conservation_down {s : SudpPx.St} (h : PReachable s) {i : Nat} {c : SudpPx.Conn}
    (hc : s.conn i = some c) (x : View) :
    (c.replyLog.map Prod.snd).count x = ((SudpPx.pkts c.sendCh).map view).count x + c.wire.count x
      + (c.dropDown.map Prod.snd).count x :=
  ((px_reachable_inv h) c (px_conn_mem hc)).1.down x

/-- **a reply travels on the work connection of the visitor it answers, and only there**: whatever is written
    on work connection `i` was read from a socket `k` of connection `i` that was dialled for exactly the user
    address the packet is tagged with — and that socket was dialled for a datagram that came in on connection `i`. -/
theorem px_reply_routing {s : SudpPx.St} (h : PReachable s) {i : Nat} {c : SudpPx.Conn}
    (hc : s.conn i = some c) {x : View} (hm : x ∈ c.wire) :
    ∃ k, (k, x) ∈ c.replyLog ∧ (k, x.1) ∈ c.socks ∧ ∀ a', (k, a') ∈ c.socks → a' = x.1 := by
  have hinv := ((px_reachable_inv h) c (px_conn_mem hc)).1
  have hd := hinv.down x
  have hpos : 0 < c.wire.count x := List.count_pos_iff.2 hm
  have hs : 0 < (c.replyLog.map Prod.snd).count x := by omega
  obtain ⟨⟨k, v⟩, hin, heq⟩ := List.mem_map.1 (List.count_pos_iff.1 hs)
  simp only at heq
  subst heq
  have hk := hinv.replySock _ hin
  exact ⟨k, hin, hk, fun a' ha' => hinv.socksFun k a' v.1 ha' hk⟩

/-- no duplicated / invented replies on a work connection -/
theorem px_reply_no_dup {s : SudpPx.St} (h : PReachable s) {i : Nat} {c : SudpPx.Conn}
    (hc : s.conn i = some c) (x : View) : c.wire.count x ≤ (c.replyLog.map Prod.snd).count x := by
  have := px_conservation_down h hc x; omega

/-- what the backend is handed through a socket of connection `i` is a packet that came in on connection `i`
    (same payload, same user address), at most as often as it came in, and the socket belongs to that address -/
theorem px_backend_payload {s : SudpPx.St} (h : PReachable s) {i : Nat} {c : SudpPx.Conn}
    (hc : s.conn i = some c) {k : Nat} {x : View} (hm : (k, x) ∈ c.backendLog) :
    x ∈ c.inLog ∧ (c.backendLog.map Prod.snd).count x ≤ c.inLog.count x ∧ (k, x.1) ∈ c.socks := by
  have hinv := ((px_reachable_inv h) c (px_conn_mem hc)).1
  have hu := hinv.up x
  have hpos : 0 < (c.backendLog.map Prod.snd).count x :=
    List.count_pos_iff.2 (List.mem_map.2 ⟨(k, x), hm, rfl⟩)
  exact ⟨List.count_pos_iff.1 (by omega), by omega, hinv.backendSock _ hm⟩

/-- a socket towards the backend serves one user address of one connection only -/
theorem px_socket_exclusive {s : SudpPx.St} (h : PReachable s) {i : Nat} {c : SudpPx.Conn}
    (hc : s.conn i = some c) {k : Nat} {v v' : View} (h1 : (k, v) ∈ c.backendLog) (h2 : (k, v') ∈ c.backendLog) :
    v.1 = v'.1 := by
  have hinv := ((px_reachable_inv h) c (px_conn_mem hc)).1
  exact hinv.socksFun k v.1 v'.1 (hinv.backendSock _ h1) (hinv.backendSock _ h2)

/-- **an action of connection `j` leaves every other connection exactly as it was** -/
theorem px_step_other (s : SudpPx.St) {i j : Nat} (hij : i ≠ j) (l : SudpPx.CLabel) :
    (SudpPx.step s (.at j l)).conn i = s.conn i :=
  SudpPx.step_other s hij l

/-- **a further work connection leaves every existing one exactly as it was**; it starts fresh with its own
    channels, flags and socket map -/
theorem px_open_keeps (s : SudpPx.St) :
    (∀ i, i < s.conns.length → (SudpPx.step s .open_).conn i = s.conn i) ∧
    (SudpPx.step s .open_).conn s.conns.length = some (SudpPx.Conn.init s.bs s.cap) :=
  ⟨(SudpPx.step_open s).1, (SudpPx.step_open s).2.1⟩

/-- **closing or replacing connection j never disturbs i ≠ j, for all interleavings**: a run in which no action
    is addressed to connection `i` — any number of further connections opened, any traffic on them, any of them
    closed in any way, even `Close()` of the proxy — leaves connection `i` exactly as it was -/
theorem px_frame (s : SudpPx.St) (ls : List SudpPx.Label) (i : Nat) (hi : i < s.conns.length)
    (hl : ∀ l ∈ ls, SudpPx.addressed i l = false) : (SudpPx.run s ls).conn i = s.conn i :=
  SudpPx.run_frame s ls i hi hl

/-- **the behaviour of a connection is a function of its own actions**: after ANY run connection `i` is what
    its own actions (each with the value `pxy.closeCh` had at its time) make of it, however they interleave with
    the opening, the traffic and the closing of every other connection -/
theorem px_projection (s : SudpPx.St) (ls : List SudpPx.Label) (i : Nat) (c : SudpPx.Conn)
    (hc : s.conn i = some c) :
    (SudpPx.run s ls).conn i = some (SudpPx.crun c (SudpPx.proj i s.pclosed ls)) :=
  SudpPx.run_proj s ls i c hc

/-- **why a work connection gets closed**: only by an action of that connection itself — its reader failing,
    its sender failing to write, or its heartbeat seeing the proxy closed.  Never by a new work connection,
    never by anything that happens on another connection. -/
theorem px_close_causes (s : SudpPx.St) (l : SudpPx.Label) (i : Nat) (c c' : SudpPx.Conn)
    (h0 : s.conn i = some c) (h1 : (SudpPx.step s l).conn i = some c') (ho : c.isClose = false)
    (hc : c'.isClose = true) :
    (l = .at i .readerDie ∧ c'.cause = some .readErr) ∨
    ((∃ ok, l = .at i (.send ok)) ∧ c'.cause = some .writeErr) ∨
    (l = .at i .hbClose ∧ s.pclosed = true ∧ c'.cause = some .proxyClosed) :=
  SudpPx.close_causes s l i c c' h0 h1 ho hc

/-- **an open connection has all its goroutines and has dropped nothing except by overload, an undecodable
    content or a failed write to the backend** (drops because of a closed channel / connection occur on closed
    connections only: "while the work connection is being re-established") -/
theorem px_open_conn_healthy {s : SudpPx.St} (h : PReachable s) {i : Nat} {c : SudpPx.Conn}
    (hc : s.conn i = some c) (ho : c.isClose = false) :
    c.reader = true ∧ c.sender = true ∧ c.hb = true ∧ c.cause = none ∧
    (∀ e ∈ c.dropUp, e.1 = SudpPx.PDrop.decodeErr ∨ e.1 = SudpPx.PDrop.writeErr) ∧
    (∀ e ∈ c.dropDown, e.1 = SudpPx.PDrop.replyFull) := by
  have hf := ((px_reachable_inv h) c (px_conn_mem hc)).2.1
  obtain ⟨a, b, c1, d⟩ := hf.openOK ho
  exact ⟨a, b, c1, d, hf.openUp ho, hf.openDown ho⟩

/-- a closed connection carries the reason of its closing -/
theorem px_closed_has_cause {s : SudpPx.St} (h : PReachable s) {i : Nat} {c : SudpPx.Conn}
    (hc : s.conn i = some c) (hcl : c.isClose = true) : c.cause ≠ none :=
  ((px_reachable_inv h) c (px_conn_mem hc)).2.1.closedCause hcl

/-- **at light load they arrive, whatever the other connections do**: connection `i` open and idle; after ANY
    run `ls` of actions that are not its own (other visitors connecting, sending, being closed, …) a datagram
    read from work connection `i` is handed to the backend on the socket of its user address on connection `i`,
    and nothing is dropped -/
theorem px_delivers_despite_others (s : SudpPx.St) (ls : List SudpPx.Label) (i : Nat) (c : SudpPx.Conn)
    (hc : s.conn i = some c) (hl : ∀ l ∈ ls, SudpPx.addressed i l = false)
    (a : Addr) (p : Str) (hb : isBytes p = true) (ho : c.isClose = false) (hr : c.reader = true)
    (hq : c.readCh = []) (hcap : 0 < c.cap)
    (hs : ∀ k, lookup c.cmap (some a) = some k → c.closedSocks.contains k = false) :
    ∃ c', (SudpPx.run (SudpPx.run s ls) [.at i (.recv (packetOf p none (some a))), .at i (.fwd true)]).conn i = some c' ∧
      c'.backendLog = c.backendLog ++ [((lookup c.cmap (some a)).getD c.nextSock, (some a, some p))] ∧
      c'.dropUp = c.dropUp ∧ c'.isClose = false := by
  have hi : i < s.conns.length := by
    simp only [SudpPx.St.conn] at hc
    exact (List.getElem?_eq_some_iff.1 hc).1
  have h1 : (SudpPx.run s ls).conn i = some c := by rw [SudpPx.run_frame s ls i hi hl]; exact hc
  have h2 := SudpPx.run_proj (SudpPx.run s ls) [.at i (.recv (packetOf p none (some a))), .at i (.fwd true)] i c h1
  have h3 := SudpPx.conn_delivers (SudpPx.run s ls).pclosed c a p hb ho hr hq hcap hs
  simp only [SudpPx.proj, if_true] at h2
  exact ⟨_, h2, h3.1, h3.2.1, h3.2.2.2⟩

/-- … and the reply the backend sends to that socket is written on work connection `i`, tagged with the user
    address the socket was dialled for, whatever the other connections do meanwhile -/
theorem px_reply_delivers_despite_others (s : SudpPx.St) (ls : List SudpPx.Label) (i : Nat) (c : SudpPx.Conn)
    (hc : s.conn i = some c) (hl : ∀ l ∈ ls, SudpPx.addressed i l = false)
    (k : Nat) (a : Option Addr) (q : Str) (hb : isBytes q = true) (ho : c.isClose = false)
    (hsd : c.sender = true) (hq : c.sendCh = []) (hcap : 0 < c.cap) (hown : ownerOf c.socks k = some a)
    (hlive : lookup c.cmap a = some k) (hopen : c.closedSocks.contains k = false) :
    ∃ c', (SudpPx.run (SudpPx.run s ls) [.at i (.backendReply k q), .at i (.send true)]).conn i = some c' ∧
      c'.wire = c.wire ++ [(a, some (rd c.bs q))] ∧ c'.dropDown = c.dropDown ∧ c'.isClose = false := by
  have hi : i < s.conns.length := by
    simp only [SudpPx.St.conn] at hc
    exact (List.getElem?_eq_some_iff.1 hc).1
  have h1 : (SudpPx.run s ls).conn i = some c := by rw [SudpPx.run_frame s ls i hi hl]; exact hc
  have h2 := SudpPx.run_proj (SudpPx.run s ls) [.at i (.backendReply k q), .at i (.send true)] i c h1
  have h3 := SudpPx.conn_reply_delivers (SudpPx.run s ls).pclosed c k a q hb ho hsd hq hcap hown hlive hopen
  simp only [SudpPx.proj, if_true] at h2
  exact ⟨_, h2, h3.1, h3.2.1, h3.2.2.2⟩

/-! ### non-vacuity: two visitors on one sudp proxy with overlapping request / reply windows -/

/-- visitor 0 sends a request (connection 0); while its answer is outstanding visitor 1 connects (connection 1),
    sends and is answered; connection 1 is then lost; only now the backend answers visitor 0 -/
def pxDemo : List SudpPx.Label :=
  [.open_, .at 0 (.recv (packetOf [1] none (some ua))), .at 0 (.fwd true),
   .open_, .at 1 (.recv (packetOf [2] none (some ub))), .at 1 (.fwd true),
   .at 1 (.backendReply 0 [20]), .at 1 (.send true), .at 1 .readerDie,
   .at 0 (.backendReply 0 [10]), .at 0 (.send true)]

example : PReachable (SudpPx.run (SudpPx.init 1500 1024) pxDemo) := ⟨1500, 1024, pxDemo, rfl⟩
/-- the late answer for visitor 0 is written on connection 0, the answer for visitor 1 on connection 1 -/
example : (SudpPx.run (SudpPx.init 1500 1024) pxDemo).conns.map (·.wire)
    = [[(some ua, some [10])], [(some ub, some [20])]] := by decide +kernel
example : (SudpPx.run (SudpPx.init 1500 1024) pxDemo).conns.map (·.isClose) = [false, true] := by decide +kernel
example : (SudpPx.run (SudpPx.init 1500 1024) pxDemo).conns.map (·.cause) = [none, some .readErr] := by
  decide +kernel
/-- the same user address on two connections: two sockets, each answer on its own connection -/
example : (SudpPx.run (SudpPx.init 1500 1024)
    [.open_, .open_, .at 0 (.recv (packetOf [1] none (some ua))), .at 1 (.recv (packetOf [2] none (some ua))),
     .at 1 (.fwd true), .at 0 (.fwd true), .at 0 (.backendReply 0 [10]), .at 1 (.backendReply 0 [20]),
     .at 0 (.send true), .at 1 (.send true)]).conns.map (·.wire)
    = [[(some ua, some [10])], [(some ua, some [20])]] := by decide +kernel
/-- a reply that arrives after ITS OWN connection was closed is dropped (closed channel), the socket goes away -/
example : ((SudpPx.run (SudpPx.init 1500 1024)
    [.open_, .at 0 (.recv (packetOf [1] none (some ua))), .at 0 (.fwd true), .at 0 .readerDie,
     .at 0 (.backendReply 0 [10])]).conns.map (fun c => c.dropDown.map Prod.fst))
    = [[SudpPx.PDrop.closedCh]] := by decide +kernel
/-- `Close()` of the proxy: every heartbeat closes its own connection -/
example : ((SudpPx.run (SudpPx.init 1500 1024)
    [.open_, .open_, .at 0 .hbClose, .proxyClose, .at 0 .hbClose, .at 1 .hbClose]).conns.map (·.cause))
    = [some .proxyClosed, some .proxyClosed] := by decide +kernel

/-- client-side sudp proxy run at light load with several scripted work connections.  `E` = the datagrams sent
    on connections that were open (the backend must get exactly these), `B` = what the backend got; per
    connection `c`: `Rs c` = the answers to the requests sent on `c` that the backend sent while `c` was open
    (they must be read back on `c`, and nothing else may), `Us c` = what was read back on `c`;
    `aliveExp` / `alive` = which connections the script has left alone / which ones the proxy has not closed;
    `mixed` = a backend-side socket carried datagrams of two (connection, user) pairs; `bad` = a packet
    carried a wrong address tag. -/
def HoldsOnPx {α} [DecidableEq α] (E B : List α) (Rs Us : List (List α)) (aliveExp alive : List Bool)
    (mixed bad : Bool) : Prop :=
  MsEq B E ∧ Us.length = Rs.length ∧ (∀ p ∈ Us.zip Rs, MsEq p.1 p.2) ∧ alive = aliveExp ∧ mixed = false ∧ bad = false

def holdsOnPx {α} [DecidableEq α] (E B : List α) (Rs Us : List (List α)) (aliveExp alive : List Bool)
    (mixed bad : Bool) : Bool :=
  msEq B E && Us.length == Rs.length && (Us.zip Rs).all (fun p => msEq p.1 p.2) && alive == aliveExp && !mixed && !bad

theorem holdsOnPx_sound {α} [DecidableEq α] (E B : List α) (Rs Us : List (List α)) (aliveExp alive : List Bool)
    (mixed bad : Bool) :
    holdsOnPx E B Rs Us aliveExp alive mixed bad = true ↔ HoldsOnPx E B Rs Us aliveExp alive mixed bad := by
  simp only [holdsOnPx, HoldsOnPx, Bool.and_eq_true, msEq_sound, beq_iff_eq, List.all_eq_true,
    Bool.not_eq_true', and_assoc]

/-- the model's own logs satisfy the safety half of that predicate on every connection of every reachable state -/
theorem px_model_safe {s : SudpPx.St} (h : PReachable s) {i : Nat} {c : SudpPx.Conn} (hc : s.conn i = some c)
    (x : View) :
    (c.backendLog.map Prod.snd).count x ≤ c.inLog.count x ∧ c.wire.count x ≤ (c.replyLog.map Prod.snd).count x := by
  have h1 := px_conservation_up h hc x
  have h2 := px_conservation_down h hc x
  exact ⟨by omega, by omega⟩

/-! ## 8. Codec: decoded payloads are values

  The model is pure: `contentOf` is a function, so decoding a packet can neither be influenced by nor influence
  the result of decoding any other packet.  The statements below say what that means for a BATCH of packets
  whose results are all kept; the `batch` op evaluates `holdsOnBatch` on the results the real `GetContent`
  returned and that the harness RETAINED while all the other packets (of the same goroutine and of the
  goroutines running next to it) were decoded. -/

/-- decoding a batch gives back every payload, in place -/
theorem batch_roundtrip (bs : List Str) (l r : Option Addr) (hb : ∀ b ∈ bs, bytes b) :
    (bs.map (fun b => packetOf b l r)).map contentOf = bs.map some := by
  rw [List.map_map]
  apply List.map_congr_left
  intro b hbm
  exact contentOf_packetOf b l r (hb b hbm)

/-- **independence**: the `i`-th result of a batch is the decoding of the `i`-th packet alone — whatever stands
    before or after it in the batch -/
theorem batch_independent (ps : List Packet) (i : Nat) :
    (ps.map contentOf)[i]? = (ps[i]?).map contentOf := List.getElem?_map

/-- … so results are not disturbed by decoding more: the results of a longer batch start with the results of
    the shorter one -/
theorem batch_prefix_stable (ps qs : List Packet) :
    ((ps ++ qs).map contentOf).take ps.length = ps.map contentOf := by
  rw [List.map_append, List.take_left' (by simp)]

/-- what the harness keeps per decoded packet: length and hash of the result (`none` = GetContent error) -/
def holdsOnBatch {α} [DecidableEq α] (expected got : List (List α)) : Bool := decide (got = expected)

theorem holdsOnBatch_sound {α} [DecidableEq α] (expected got : List (List α)) :
    holdsOnBatch expected got = true ↔ got = expected := by
  simp [holdsOnBatch]

example : (([[1, 2, 3], [4], []].map (fun b => packetOf b none none)).map contentOf)
    = [some [1, 2, 3], some [4], some []] := by decide +kernel

/-! ## 9. A queued packet owns its bytes

  `Udp.stepUserSend` / `stepBackendReply` (and their counterparts in `Sudp`, `UdpSrv`, `SudpPx`) enqueue a VALUE.  In
  memory there is one read buffer per loop, reused for every `ReadFromUDP`, and the message waits in `sendCh` until
  the sender goroutine of the work connection serialises it — any number of reads later.  `UdpBuf` makes the buffer
  explicit; `step false` is the code as it is (`NewUDPPacket` encodes `buf[:n]` into a string of its own at once),
  `step true` keeps `buf[:n]` in the message and encodes when it is serialised. -/

open UdpBuf in
/-- states of the explicit-buffer machine reached by the code as it is -/
def BReachable (s : UdpBuf.St) : Prop := ∃ bs cap ls, s = UdpBuf.run false (UdpBuf.init bs cap) ls

/-- the packet a read stands for is the datagram, cut to the buffer, with its sender's address — whatever the buffer
    held before (either way of enqueueing) -/
theorem buf_read_packet (byRef : Bool) (s : UdpBuf.St) (a : Addr) (p : Str) (h : s.q.length < s.cap) :
    (UdpBuf.step byRef s (.read a p)).accepted = s.accepted ++ [packetOf (rd s.bufSize p) none (some a)] := by
  rw [UdpBuf.step_read_room byRef s a p h]; rfl

/-- **a queued packet owns its bytes**: in every reachable state, what a queued message will be serialised as does
    not depend on the contents of the read buffer — so no later `ReadFromUDP`, however many, can change it -/
theorem buf_queued_owns_bytes {s : UdpBuf.St} (h : BReachable s) (ls : List UdpBuf.Label) (m : UdpBuf.QMsg)
    (hm : m ∈ s.q) :
    UdpBuf.materialise (UdpBuf.run false s ls).buf m = UdpBuf.materialise s.buf m := by
  obtain ⟨bs, cap, l0, rfl⟩ := h
  exact UdpBuf.materialise_owned ((UdpBuf.inv_run (UdpBuf.inv_init bs cap) l0).owned m hm) _ _

/-- **conservation with contents, in order**, for every interleaving of reads and sends: what was serialised so far
    followed by what waits in the queue is exactly the sequence of datagrams that found room, each as it was when it
    was read -/
theorem buf_wire_then_queue {s : UdpBuf.St} (h : BReachable s) :
    s.wire ++ s.q.map (UdpBuf.materialise s.buf) = s.accepted := by
  obtain ⟨bs, cap, l0, rfl⟩ := h
  exact (UdpBuf.inv_run (UdpBuf.inv_init bs cap) l0).cons

/-- … in particular every serialised message is one datagram as it was read, in the order of reading -/
theorem buf_wire_prefix {s : UdpBuf.St} (h : BReachable s) : s.wire <+: s.accepted :=
  ⟨_, buf_wire_then_queue h⟩

/-- a BURST: up to `cap` datagrams are read before the first one is serialised — each goes out with its own payload -/
theorem buf_burst_delivers (bs cap : Nat) (ds : List (Addr × Str)) (hc : ds.length ≤ cap) :
    (UdpBuf.run false (UdpBuf.init bs cap) (UdpBuf.burst ds)).wire
      = ds.map (fun d => packetOf (rd bs d.2) none (some d.1)) := by
  have hinv := UdpBuf.inv_run (UdpBuf.inv_init bs cap) (UdpBuf.burst ds)
  have hb : UdpBuf.burst ds = ds.map (fun d => UdpBuf.Label.read d.1 d.2) ++ List.replicate ds.length .send := by
    simp only [UdpBuf.burst, List.map_const']
  obtain ⟨r1, r2, _⟩ := UdpBuf.reads_room false ds (UdpBuf.init bs cap) (by simpa [UdpBuf.init] using hc)
  have hq : (UdpBuf.run false (UdpBuf.init bs cap) (UdpBuf.burst ds)).q = [] := by
    apply List.eq_nil_of_length_eq_zero
    rw [hb, UdpBuf.run_append, UdpBuf.sends_drain, r1]
    simp [UdpBuf.init]
  have hacc : (UdpBuf.run false (UdpBuf.init bs cap) (UdpBuf.burst ds)).accepted
      = ds.map (fun d => packetOf (rd bs d.2) none (some d.1)) := by
    rw [hb, UdpBuf.run_append]
    have : ∀ (n : Nat) (s : UdpBuf.St), (UdpBuf.run false s (List.replicate n .send)).accepted = s.accepted := by
      intro n
      induction n with
      | zero => intro s; rfl
      | succ n ih =>
        intro s
        simp only [List.replicate_succ, UdpBuf.run, List.foldl_cons]
        have := ih (UdpBuf.step false s .send)
        rw [show UdpBuf.run false = fun s ls => ls.foldl (UdpBuf.step false) s from rfl] at this
        rw [this]
        simp only [UdpBuf.step]
        split <;> rfl
    rw [this, r2]
    simp [UdpBuf.init, UdpBuf.nowOf]
  have hcons := hinv.cons
  rw [hq, List.map_nil, List.append_nil] at hcons
  rw [hcons, hacc]

/-- the explicit-buffer machine (code as it is) holds the same queue as the forwarding machine of §3: for every
    sequence of datagrams arriving at the public socket, `sendCh` of `Udp.St` is the materialised queue — the value
    semantics the theorems of §3, §5, §6, §7 rest on is what the memory holds -/
theorem buf_refines_forwarder (sbs cbs cap : Nat) (ds : List (Addr × Str)) (hb : ∀ d ∈ ds, isBytes d.2 = true) :
    let s := UdpBuf.run false (UdpBuf.init sbs cap) (ds.map (fun d => .read d.1 d.2))
    s.q.map (UdpBuf.materialise s.buf) = (run (init sbs cbs cap) (ds.map (fun d => .userSend d.1 d.2))).sSend := by
  have h0 : UdpBuf.Sim (UdpBuf.init sbs cap) (init sbs cbs cap) :=
    ⟨fun _ h => by simp [UdpBuf.init] at h, rfl, rfl, rfl⟩
  exact (UdpBuf.sim_reads ds hb _ _ h0).q

/-- **witness for enqueue-by-reference**: two datagrams back to back (AAA from one user, BB from another), then the
    sender runs — the first message goes out as "BBA" under the first user's address: a payload nobody sent -/
theorem buf_byref_witness :
    let ds := [(ua, [65, 65, 65]), (ub, [66, 66])]
    (UdpBuf.run true (UdpBuf.init 1500 1024) (UdpBuf.burst ds)).wire
      = [packetOf [66, 66, 65] none (some ua), packetOf [66, 66] none (some ub)] ∧
    (UdpBuf.run true (UdpBuf.init 1500 1024) (UdpBuf.burst ds)).wire
      ≠ (UdpBuf.run true (UdpBuf.init 1500 1024) (UdpBuf.burst ds)).accepted ∧
    (UdpBuf.run false (UdpBuf.init 1500 1024) (UdpBuf.burst ds)).wire
      = [packetOf [65, 65, 65] none (some ua), packetOf [66, 66] none (some ub)] := by
  decide +kernel

/-- … and why request / reply traffic never shows it: when every datagram is serialised before the next one is read,
    enqueue-by-reference produces the same wire as the code as it is -/
theorem buf_byref_pingpong_unobservable (bs cap : Nat) (hc : 0 < cap) (ds : List (Addr × Str)) :
    (UdpBuf.run true (UdpBuf.init bs cap) (UdpBuf.pingPong ds)).wire
      = ds.map (fun d => packetOf (rd bs d.2) none (some d.1)) := by
  have := (UdpBuf.byref_pingpong ds (UdpBuf.init bs cap) rfl hc).2.1
  simpa [UdpBuf.init, UdpBuf.nowOf] using this

/-- burst op: `E` = the datagrams of a burst as the model serialises them (`buf_burst_delivers`), `B` what arrived -/
def holdsOnBurst {α} [DecidableEq α] (E B : List α) : Bool := msEq B E

theorem holdsOnBurst_sound {α} [DecidableEq α] (E B : List α) : holdsOnBurst E B = true ↔ MsEq B E :=
  msEq_sound B E

example : BReachable (UdpBuf.run false (UdpBuf.init 4 8) [.read ua [1, 2, 3, 4, 5], .read ub [9], .send]) :=
  ⟨4, 8, _, rfl⟩
example : (UdpBuf.run false (UdpBuf.init 4 8) [.read ua [1, 2, 3, 4, 5], .read ub [9], .send, .send]).wire
    = [packetOf [1, 2, 3, 4] none (some ua), packetOf [9] none (some ub)] := by decide +kernel
example : (UdpBuf.run true (UdpBuf.init 4 8) [.read ua [1, 2, 3, 4, 5], .read ub [9], .send, .send]).wire
    = [packetOf [9, 2, 3, 4] none (some ua), packetOf [9] none (some ub)] := by decide +kernel

/-! ## 10. Both ends of a connection that carries UDPPackets build the same wrapper stack

  (as C01 `mirror_proxy` / `mirror_order` do for the tcp path; here for the five sites of the udp / sudp path) -/

open Layers UdpLayers

/-- udp proxy: frps (server/proxy/udp.go Run) and frpc (client/proxy/udp.go InWorkConn) agree on the
    byte-transforming layers of the work connection, for every option combination … -/
theorem udp_layers_mirror (o : Opts) : transforming (srvUdpWrap o) = transforming (cliUdpWrap o) := by
  cases o with | mk e c ls lc => cases e <;> cases c <;> cases ls <;> cases lc <;> rfl

/-- … namely encryption next to the wire and compression above it, at both ends -/
theorem udp_layers_order (o : Opts) :
    transforming (srvUdpWrap o) = opt o.enc .enc ++ opt o.comp .comp ∧
    transforming (cliUdpWrap o) = opt o.enc .enc ++ opt o.comp .comp := by
  cases o with | mk e c ls lc => cases e <;> cases c <;> cases ls <;> cases lc <;> exact ⟨rfl, rfl⟩

/-- sudp: the work connection (frps: handleUserTCPConnection, frpc: client/proxy/sudp.go InWorkConn) and the visitor
    connection (client/visitor/sudp.go, server/visitor/visitor.go NewConn) -/
theorem sudp_layers_mirror (o : Opts) (e c : Bool) :
    transforming (serverStack o) = transforming (cliSudpWrap o) ∧ visSudpWrap e c = visitorServerStack e c := by
  cases o with | mk e' c' ls lc => cases e' <;> cases c' <;> cases ls <;> cases lc <;> exact ⟨rfl, rfl⟩

/-- these are the stacks C01 reasons about (`Layers.serverUdpStack` / `clientUdpStack`), so its transparency and
    close-propagation theorems speak about the udp work connection as modelled here -/
theorem udp_layers_are_C01s (o : Opts) :
    srvUdpWrap o = serverUdpStack o ∧ cliUdpWrap o = clientUdpStack o ∧ cliSudpWrap o = clientUdpStack o :=
  ⟨rfl, rfl, rfl⟩

/-- the other order (compression next to the wire) is understood by the peer exactly when at most one of the two
    options is set: a site that swapped the two wrappers would break precisely the proxies with BOTH -/
theorem udp_layers_swapped_iff (o : Opts) :
    compatible (swappedWrap o) (cliUdpWrap o) = !(o.enc && o.comp) := by
  cases o with | mk e c ls lc => cases e <;> cases c <;> cases ls <;> cases lc <;> rfl

/-- transparency of the udp work connection: with any lawful cipher / compression layers, what frpc's stack decodes
    from everything frps' stack put on the wire is what was written (frames of UDPPackets arrive intact), for every
    option combination -/
theorem udp_workconn_transparent {encL compL : Layer} (he : Lawful encL) (hc : Lawful compL) (burst : Nat)
    (o : Opts) (ps cs : List C01Bytes)
    (hw : cs.flatten = ((stackLayer (instantiate encL compL burst (transforming (srvUdpWrap o)))).Eout ps).flatten) :
    (stackLayer (instantiate encL compL burst (transforming (cliUdpWrap o)))).Dout cs = ps.flatten := by
  rw [← udp_layers_mirror]
  refine transparent_complete (stack_lawful _ ?_) ps cs hw
  intro l hl
  cases o with | mk e c ls lc =>
    cases e <;> cases c <;> cases ls <;> cases lc <;>
      simp [srvUdpWrap, transforming, opt, instantiate] at hl <;>
      (try rcases hl with hl | hl) <;> (try subst hl) <;> first | exact he | exact hc

/-- non-vacuity and counter-example: two lawful toy layers (a 2-byte header + shift as "cipher", a 1-byte header +
    neighbour swap as "compression") -/
def toySwap (x : Nat) : Nat := if x % 2 = 0 then x + 1 else x - 1
def toyEnc : Layer := headerMap [7, 7] (fun x => x + 1) (fun x => x - 1)
def toyComp : Layer := headerMap [9] toySwap toySwap
def bothOn : Opts := { enc := true, comp := true, limSrv := false, limCli := false }

theorem toy_layers_lawful : Lawful toyEnc ∧ Lawful toyComp := by
  refine ⟨headerMap_lawful _ _ _ (fun x => by omega), headerMap_lawful _ _ _ (fun x => ?_)⟩
  simp only [toySwap]
  split <;> split <;> omega

/-- with the stacks as they are the frame arrives; with the two wrappers swapped at the server it does not -/
theorem udp_layers_swapped_witness :
    (stackLayer (instantiate toyEnc toyComp 1 (transforming (cliUdpWrap bothOn)))).Dout
        ((stackLayer (instantiate toyEnc toyComp 1 (transforming (srvUdpWrap bothOn)))).Eout [[0, 1, 2]]) = [0, 1, 2] ∧
    (stackLayer (instantiate toyEnc toyComp 1 (transforming (cliUdpWrap bothOn)))).Dout
        ((stackLayer (instantiate toyEnc toyComp 1 (swappedWrap bothOn))).Eout [[0, 1, 2]]) ≠ [0, 1, 2] := by
  decide

/-! ## 11. client side of a udp proxy fed a TYPED stream (the theorems are in Props/C03Wire.lean) -/

/-- client-side proxy op (`upx`): `allowed` = datagrams the backend may see that no user sent = the messages of the
    script that the real server end never writes (they are outside the property's domain); `extra` = what it saw -/
def holdsOnUpx {α} [DecidableEq α] (E B Rs R : List α) (extra allowed : Nat) : Bool :=
  msEq B E && msEq R Rs && decide (extra ≤ allowed)

theorem holdsOnUpx_sound {α} [DecidableEq α] (E B Rs R : List α) (extra allowed : Nat) :
    holdsOnUpx E B Rs R extra allowed = true ↔ MsEq B E ∧ MsEq R Rs ∧ extra ≤ allowed := by
  simp only [holdsOnUpx, Bool.and_eq_true, msEq_sound, decide_eq_true_eq, and_assoc]

end C03
end Frp
