import Frp.Model.Lane
/-
  C17, message routing inside a session (pkg/transport/message.go): a message handed to
  `Dispatch(m, laneKey)` reaches exactly the `Do` call registered for its type name and lane key —
  never a call waiting for another type or lane —, each `Do` call gets at most one message, and a
  message nobody is registered for is dropped (`false`).  For all histories of Do / Dispatch /
  cancel, by an invariant over the op list.
-/
namespace Frp
namespace C17
open Lane

def wkey (w : Waiter) : Key := (w.mtype, w.lane)

structure LaneInv (s : St) : Prop where
  reg : ∀ e ∈ s.registry, ∃ w ∈ s.waiting, w.id = e.2 ∧ wkey w = e.1
  wait_ever : ∀ w ∈ s.waiting, w ∈ s.ever
  ids : ∀ w1 ∈ s.ever, ∀ w2 ∈ s.ever, w1.id = w2.id → w1 = w2
  deliv : ∀ d ∈ s.delivered, ∃ w ∈ s.ever, w.id = d.1 ∧ wkey w = d.2.1
  once : (s.delivered.map (·.1)).Nodup ∧ ∀ d ∈ s.delivered, ∀ w ∈ s.waiting, w.id ≠ d.1

theorem mem_eraseKey {r : List (Key × Nat)} {k : Key} {e : Key × Nat} (h : e ∈ eraseKey r k) :
    e ∈ r ∧ e.1 ≠ k := by
  simp only [eraseKey, List.mem_filter, bne_iff_ne, ne_eq] at h
  exact h

theorem lookup_mem {r : List (Key × Nat)} {k : Key} {id : Nat} (h : r.lookup k = some id) : (k, id) ∈ r := by
  induction r with
  | nil => simp [List.lookup] at h
  | cons p tl ih =>
    obtain ⟨a, b⟩ := p
    simp only [List.lookup] at h
    split at h
    · rename_i heq
      simp only [beq_iff_eq] at heq
      injection h with h
      subst heq; subst h
      exact List.mem_cons_self
    · exact List.mem_cons_of_mem _ (ih h)

theorem lookup_none_not_mem {r : List (Key × Nat)} {k : Key} (h : r.lookup k = none) : ∀ id, (k, id) ∉ r := by
  induction r with
  | nil => intro id; simp
  | cons p tl ih =>
    obtain ⟨a, b⟩ := p
    simp only [List.lookup] at h
    split at h
    · cases h
    · rename_i hne
      intro id hm
      rcases List.mem_cons.mp hm with heq | hm
      · injection heq with h1 h2
        subst h1
        simp at hne
      · exact ih h id hm

theorem laneInv_step (s : St) (op : Op) (h : LaneInv s) : LaneInv (step s op).1 := by
  cases op with
  | doReq id t l =>
    simp only [step]
    split
    · exact h
    · rename_i hfresh
      have hfresh' : ∀ w ∈ s.ever, w.id ≠ id := by
        intro w hw heq
        apply hfresh
        rw [List.any_eq_true]
        exact ⟨w, hw, by simp [heq]⟩
      refine ⟨?_, ?_, ?_, ?_, ?_⟩
      · intro e he
        rcases List.mem_cons.mp he with rfl | he
        · exact ⟨⟨id, t, l⟩, List.mem_append_right _ List.mem_cons_self, rfl, rfl⟩
        · obtain ⟨w, hw, h1, h2⟩ := h.reg e (mem_eraseKey he).1
          exact ⟨w, List.mem_append_left _ hw, h1, h2⟩
      · intro w hw
        rcases List.mem_append.mp hw with hw | hw
        · exact List.mem_append_left _ (h.wait_ever w hw)
        · exact List.mem_append_right _ hw
      · intro w1 h1 w2 h2 heq
        rcases List.mem_append.mp h1 with h1 | h1 <;> rcases List.mem_append.mp h2 with h2 | h2
        · exact h.ids w1 h1 w2 h2 heq
        · simp only [List.mem_singleton] at h2; subst h2
          exact absurd heq (hfresh' w1 h1)
        · simp only [List.mem_singleton] at h1; subst h1
          exact absurd heq.symm (hfresh' w2 h2)
        · simp only [List.mem_singleton] at h1 h2; rw [h1, h2]
      · intro d hd
        obtain ⟨w, hw, h1, h2⟩ := h.deliv d hd
        exact ⟨w, List.mem_append_left _ hw, h1, h2⟩
      · refine ⟨h.once.1, ?_⟩
        intro d hd w hw
        rcases List.mem_append.mp hw with hw | hw
        · exact h.once.2 d hd w hw
        · simp only [List.mem_singleton] at hw; subst hw
          obtain ⟨w', hw', h1, _⟩ := h.deliv d hd
          intro heq
          exact hfresh' w' hw' (by rw [h1]; exact heq.symm)
  | dispatch t l tag =>
    simp only [step]
    cases hl : s.registry.lookup (t, l) with
    | none => exact h
    | some id =>
      simp only
      split
      · -- delivered to waiter `id`
        obtain ⟨w0, hw0, hid0, hk0⟩ := h.reg ((t, l), id) (lookup_mem hl)
        refine ⟨?_, ?_, h.ids, ?_, ?_⟩
        · intro e he
          obtain ⟨hm, hne⟩ := mem_eraseKey he
          obtain ⟨w, hw, h1, h2⟩ := h.reg e hm
          refine ⟨w, ?_, h1, h2⟩
          simp only [List.mem_filter, bne_iff_ne, ne_eq]
          refine ⟨hw, ?_⟩
          intro heq
          have : w = w0 := h.ids w (h.wait_ever w hw) w0 (h.wait_ever w0 hw0) (by rw [heq, hid0])
          subst this
          exact hne (by rw [← h2, hk0])
        · intro w hw
          simp only [List.mem_filter] at hw
          exact h.wait_ever w hw.1
        · intro d hd
          rcases List.mem_append.mp hd with hd | hd
          · exact h.deliv d hd
          · simp only [List.mem_singleton] at hd; subst hd
            exact ⟨w0, h.wait_ever w0 hw0, hid0, hk0⟩
        · refine ⟨?_, ?_⟩
          · rw [List.map_append, List.nodup_append]
            refine ⟨h.once.1, by simp, ?_⟩
            intro a ha b hb
            simp only [List.map_cons, List.map_nil, List.mem_singleton] at hb
            subst hb
            obtain ⟨d, hd, rfl⟩ := List.mem_map.mp ha
            intro heq
            exact h.once.2 d hd w0 hw0 (by rw [hid0]; exact heq.symm)
          · intro d hd w hw
            simp only [List.mem_filter, bne_iff_ne, ne_eq] at hw
            rcases List.mem_append.mp hd with hd | hd
            · exact h.once.2 d hd w hw.1
            · simp only [List.mem_singleton] at hd; subst hd
              exact hw.2
      · exact h
  | cancel id =>
    simp only [step]
    cases hf : s.waiting.find? (fun w => w.id == id) with
    | none => exact h
    | some w0 =>
      simp only
      have hw0 : w0 ∈ s.waiting := List.mem_of_find?_eq_some hf
      have hid0 : w0.id = id := by
        have := List.find?_some hf
        simpa using this
      refine ⟨?_, ?_, h.ids, h.deliv, ?_⟩
      · intro e he
        obtain ⟨hm, hne⟩ := mem_eraseKey he
        obtain ⟨w, hw, h1, h2⟩ := h.reg e hm
        refine ⟨w, ?_, h1, h2⟩
        simp only [List.mem_filter, bne_iff_ne, ne_eq]
        refine ⟨hw, ?_⟩
        intro heq
        have : w = w0 := h.ids w (h.wait_ever w hw) w0 (h.wait_ever w0 hw0) (by rw [heq, hid0])
        subst this
        exact hne h2.symm
      · intro w hw
        simp only [List.mem_filter] at hw
        exact h.wait_ever w hw.1
      · refine ⟨h.once.1, ?_⟩
        intro d hd w hw
        simp only [List.mem_filter] at hw
        exact h.once.2 d hd w hw.1

/-- the invariant holds after every history of Do / Dispatch / cancel -/
theorem lane_inv (ops : List Op) : LaneInv (run {} ops) := by
  have : ∀ (s : St), LaneInv s → LaneInv (run s ops) := by
    induction ops with
    | nil => intro s h; exact h
    | cons op ops ih => intro s h; exact ih _ (laneInv_step s op h)
  exact this {} ⟨by simp, by simp, by simp, by simp, by simp⟩

/-- a message is delivered to exactly the waiting `Do` call registered for its type and lane key: when
    `Dispatch` returns true, ONE call took the message, it was waiting, and it had asked for exactly this
    type and lane; nothing else changes hands -/
theorem dispatch_to_registered (s : St) (h : LaneInv s) (t : String) (l : Str) (tag id : Nat) (s' : St)
    (hs : step s (.dispatch t l tag) = (s', .dispatched true (some id))) :
    (∃ w ∈ s.waiting, w.id = id ∧ w.mtype = t ∧ w.lane = l)
      ∧ s'.delivered = s.delivered ++ [(id, (t, l), tag)] := by
  simp only [step] at hs
  cases hl : s.registry.lookup (t, l) with
  | none => rw [hl] at hs; simp at hs
  | some id' =>
    rw [hl] at hs
    simp only at hs
    split at hs
    · injection hs with h1 h2
      injection h2 with _ h3
      injection h3 with h3
      subst h3
      obtain ⟨w0, hw0, hid0, hk0⟩ := h.reg ((t, l), id') (lookup_mem hl)
      simp only [wkey, Prod.mk.injEq] at hk0
      exact ⟨⟨w0, hw0, hid0, hk0.1, hk0.2⟩, by rw [← h1]⟩
    · simp at hs

/-- a message nobody is registered for (under ITS type and ITS lane key) is dropped: `false`, no state
    change — whoever else is waiting for other types / lanes -/
theorem dispatch_unregistered_dropped (s : St) (t : String) (l : Str) (tag : Nat)
    (h : ∀ id, ((t, l), id) ∉ s.registry) : step s (.dispatch t l tag) = (s, .dispatched false none) := by
  simp only [step]
  cases hl : s.registry.lookup (t, l) with
  | none => rfl
  | some id => exact absurd (lookup_mem hl) (h id)

/-- never to another: after any history, every message a `Do` call received had been dispatched with the
    type and lane that call registered for; and no call received two -/
theorem never_to_another (ops : List Op) :
    (∀ d ∈ (run {} ops).delivered, ∀ w ∈ (run {} ops).ever, w.id = d.1 → (w.mtype, w.lane) = d.2.1)
    ∧ ((run {} ops).delivered.map (·.1)).Nodup := by
  have h := lane_inv ops
  refine ⟨?_, h.once.1⟩
  intro d hd w hw heq
  obtain ⟨w', hw', h1, h2⟩ := h.deliv d hd
  have : w = w' := h.ids w hw w' hw' (by rw [heq, h1])
  subst this
  exact h2

/-! non-vacuity, and the overwrite behaviour of the Go map mirrored as it is -/
def lk (s : String) : Str := Str.ofString s
-- two calls wait for NatHoleResp on lanes a / b; a message for lane b reaches call 2 only
example : (run {} [.doReq 1 "NatHoleResp" (lk "a"), .doReq 2 "NatHoleResp" (lk "b"),
      .dispatch "NatHoleResp" (lk "b") 7]).delivered = [(2, ("NatHoleResp", lk "b"), 7)] := by decide +kernel
-- wrong type or wrong lane: dropped
example : (step (run {} [.doReq 1 "NatHoleResp" (lk "a")]) (.dispatch "Pong" (lk "a") 7)).2 = .dispatched false none
    ∧ (step (run {} [.doReq 1 "NatHoleResp" (lk "a")]) (.dispatch "NatHoleResp" (lk "c") 7)).2 = .dispatched false none := by
  decide +kernel
-- after it received its message (or was cancelled) a call is not registered any more
example : (step (run {} [.doReq 1 "Pong" (lk "a"), .dispatch "Pong" (lk "a") 1]) (.dispatch "Pong" (lk "a") 2)).2
    = .dispatched false none := by decide +kernel
-- as the code is: a second call under the same type and lane takes the entry over, and the cancel of the
-- FIRST one then deletes the second one's entry (`delete(byLaneKey, laneKey)`): the message is dropped
-- although call 2 still waits.  Lane keys are random transaction ids in frp, so this does not arise there.
example : (step (run {} [.doReq 1 "Pong" (lk "a"), .doReq 2 "Pong" (lk "a"), .cancel 1]) (.dispatch "Pong" (lk "a") 9)).2
    = .dispatched false none := by decide +kernel

end C17
end Frp
