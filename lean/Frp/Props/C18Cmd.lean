import Frp.Model.CmdWire
import Frp.Gen.CmdWire
import Frp.Model.CmdSpec
import Frp.Props.C18
/-
  C18, command wiring: every setting that has a command-line flag reaches the configuration the command runs
  with.  `Frp/Gen/CmdWire.lean` is regenerated from cmd/frpc/sub/proxy.go and cmd/frps/root.go on every run.
-/
namespace Frp
namespace C18
open CmdWire Gen.CmdWire

/-! ## the model: own object ⇒ every flag is effective; shared object ⇒ `tls_enable` is not -/

/-- **own configuration object ⇒ `--tls_enable` is effective**: if the object a command's closure runs with was
    registered, and only ever on that command, then whatever value the flag is given is the value the closure
    sees — for every registration list, every command, both values -/
theorem own_config_tls_effective (regs : List Reg) (runCfg : Nat → Nat) (ran : Nat) (v : Bool)
    (hreg : ∃ r ∈ regs, r.cfg = runCfg ran)
    (hown : ∀ r ∈ regs, r.cfg = runCfg ran → r.cmd = ran) :
    seenTLS regs runCfg ran v = v := by
  simp only [seenTLS, enableCell]
  obtain ⟨r, hr, hc⟩ := hreg
  cases h : regs.reverse.find? (fun r => r.cfg = runCfg ran) with
  | none =>
    have := List.find?_eq_none.mp h r (List.mem_reverse.mpr hr)
    simp [hc] at this
  | some x =>
    have hx := List.find?_some h
    have hm := List.mem_of_find?_eq_some h
    simp only [decide_eq_true_eq] at hx
    simp [cellValue, hown x (List.mem_reverse.mp hm) hx]

/-- the same for flags bound by address (these only need the registration, not the exclusiveness) -/
theorem own_config_addr_effective {α : Type} (regs : List Reg) (runCfg : Nat → Nat) (ran : Nat) (v d : α)
    (hreg : ∃ r ∈ regs, r.cmd = ran ∧ r.cfg = runCfg ran) :
    seenAddr regs runCfg ran v d = v := by
  obtain ⟨r, hr, h1, h2⟩ := hreg
  have : regs.any (fun r => r.cmd = ran && r.cfg = runCfg ran) = true :=
    List.any_eq_true.mpr ⟨r, hr, by simp [h1, h2]⟩
  simp [seenAddr, this]

/-- with `ownRegs n` every one of the `n` commands sees its flag -/
theorem ownRegs_tls_effective (n ran : Nat) (v : Bool) (h : ran < n) :
    seenTLS (ownRegs n) id ran v = v := by
  apply own_config_tls_effective
  · exact ⟨⟨ran, ran⟩, List.mem_map.mpr ⟨ran, List.mem_range.mpr h, rfl⟩, rfl⟩
  · intro r hr hc
    obtain ⟨i, _, hi⟩ := List.mem_map.mp hr
    subst hi; exact hc

/-- **one shared object ⇒ the flag is lost** (witness): two commands registered on one object; `--tls_enable=false`
    on the first is not seen by its closure (the object points into the second command's flag set), while the
    address-bound flags still work — the situation a single `clientCfg` outside the per-type loop creates -/
theorem shared_config_tls_witness :
    seenTLS (sharedRegs 2) (fun _ => 0) 0 false = true ∧ seenTLS (sharedRegs 2) (fun _ => 0) 1 false = false ∧
    seenAddr (sharedRegs 2) (fun _ => 0) 0 (7001 : Nat) 7000 = 7001 := by decide

/-- in general: with one shared object only the command registered last sees `--tls_enable=false` -/
theorem shared_config_only_last (n ran : Nat) (h : ran + 1 < n) :
    seenTLS (sharedRegs n) (fun _ => 0) ran false = true := by
  have hn : n = (n - 1) + 1 := by omega
  have hcell : enableCell (sharedRegs n) 0 = some (n - 1) := by
    simp only [enableCell, sharedRegs]
    rw [hn, List.range_succ, List.map_append, List.reverse_append]
    simp
  simp only [seenTLS, hcell, cellValue]
  have : n - 1 ≠ ran := by omega
  simp [this]

/-! ## the source as it stands (regenerated) -/

/-- **every `frpc <type>` / `frpc <type> visitor` sub-command has its own objects**: each object handed to a Run
    closure or to a Register…Flags call in `init()` of cmd/frpc/sub/proxy.go, and each command, is declared
    inside the per-type loop — nothing is shared between sub-commands -/
theorem frpc_subcommands_own_config :
    ∀ s ∈ frpcSites, s.scope = .perCommand ∧ s.cmdScope = .perCommand := by decide

def sitesOf (r : Role) : List Site := frpcSites.filter (·.role = r)

def sCmd : Str := [99, 109, 100]                                                   -- cmd
def sVisitorCmd : Str := [118, 105, 115, 105, 116, 111, 114, 67, 109, 100]         -- visitorCmd
def sRootCmd : Str := [114, 111, 111, 116, 67, 109, 100]                           -- rootCmd

/-- **a command's flags are bound to the very objects its closure runs with**: the proxy command registers the
    common flags and the proxy flags on the objects it passes to NewProxyCommand; the visitor command registers
    the visitor flags on the object it passes to NewVisitorCommand, runs with the same common object, and is a
    child of the proxy command (whose persistent common flags it therefore inherits); the proxy command is added
    to the root command -/
theorem frpc_flags_bound_to_run_objects :
    (∃ c cfg, sitesOf .runProxy = [⟨.runProxy, sCmd, c, .perCommand, .perCommand⟩] ∧
      sitesOf .regProxy = [⟨.regProxy, sCmd, c, .perCommand, .perCommand⟩] ∧
      sitesOf .regClient = [⟨.regClient, sCmd, cfg, .perCommand, .perCommand⟩] ∧
      sitesOf .runClient = [⟨.runClient, sCmd, cfg, .perCommand, .perCommand⟩,
                            ⟨.runClient, sVisitorCmd, cfg, .perCommand, .perCommand⟩]) ∧
    (∃ vc, sitesOf .runVisitor = [⟨.runVisitor, sVisitorCmd, vc, .perCommand, .perCommand⟩] ∧
      sitesOf .regVisitor = [⟨.regVisitor, sVisitorCmd, vc, .perCommand, .perCommand⟩]) ∧
    frpcAdds = [(sCmd, sVisitorCmd), (sRootCmd, sCmd)] := by
  refine ⟨⟨[99], [99, 108, 105, 101, 110, 116, 67, 102, 103], ?_⟩, ⟨[118, 99], ?_⟩, ?_⟩ <;> decide

/-- the registration list `init()` produces for `n` iterations of its loop, read off the regenerated sites: an
    object declared per command gets the iteration number, a shared one the number 0 -/
def regsOfSites (n : Nat) : List Reg :=
  (List.range n).flatMap fun i =>
    (sitesOf .regClient).map fun s => ⟨i, if s.scope = .perCommand then i else 0⟩

/-- the object the closure of the `i`-th proxy command runs with (the visitor command below it runs with the
    same one and parses the same persistent flag set) -/
def runCfgOfSites (i : Nat) : Nat :=
  match sitesOf .runClient with
  | s :: _ => if s.scope = .perCommand then i else 0
  | [] => 0

/-- **`--tls_enable` is effective on every sub-command of the tree as it stands**, for each of the
    `proxyTypes.length` iterations and both values -/
theorem frpc_tls_flag_effective :
    ∀ i, i < proxyTypes.length → ∀ v, seenTLS (regsOfSites proxyTypes.length) runCfgOfSites i v = v := by decide

theorem frpc_addr_flags_effective :
    ∀ i, i < proxyTypes.length → seenAddr (regsOfSites proxyTypes.length) runCfgOfSites i (1 : Nat) 0 = 1 := by decide

def S8 : List Str := [[116, 99, 112], [117, 100, 112], [116, 99, 112, 109, 117, 120], [104, 116, 116, 112],
  [104, 116, 116, 112, 115], [115, 116, 99, 112], [115, 117, 100, 112], [120, 116, 99, 112]]

/-- all eight proxy types have a sub-command, the three visitor types a visitor command -/
theorem frpc_subcommand_types :
    proxyTypes = S8 ∧ visitorTypes = [[115, 116, 99, 112], [115, 117, 100, 112], [120, 116, 99, 112]] := by decide

/-! ### what the commands do with the object: Complete, validate, start -/

def str (s : String) : Str := Str.ofString s

/-- the Run closure of a proxy command: complete the common configuration, validate it, complete the proxy with
    the user, set its type, validate it, start the service with exactly these two objects -/
def expProxyRun : List Str := [
  str "clientCfg.Complete()",
  str "if _, err := validation.ValidateClientCommonConfig(clientCfg); err != nil { fmt.Println(err) os.Exit(1) }",
  str "c.Complete(clientCfg.User)",
  str "c.GetBaseConfig().Type = name",
  str "if err := validation.ValidateProxyConfigurerForClient(c); err != nil { fmt.Println(err) os.Exit(1) }",
  str "err := startService(clientCfg, []v1.ProxyConfigurer{c}, nil, \"\")",
  str "if err != nil { fmt.Println(err) os.Exit(1) }" ]

def expVisitorRun : List Str := [
  str "clientCfg.Complete()",
  str "if _, err := validation.ValidateClientCommonConfig(clientCfg); err != nil { fmt.Println(err) os.Exit(1) }",
  str "c.Complete(clientCfg)",
  str "c.GetBaseConfig().Type = name",
  str "if err := validation.ValidateVisitorConfigurer(c); err != nil { fmt.Println(err) os.Exit(1) }",
  str "err := startService(clientCfg, nil, []v1.VisitorConfigurer{c}, \"\")",
  str "if err != nil { fmt.Println(err) os.Exit(1) }" ]

theorem frpc_run_steps_expected : proxyRun = expProxyRun ∧ visitorRun = expVisitorRun := by decide +kernel

/-- frps: the flags are bound to the package-level `serverCfg`; without `-c` RunE completes and validates that
    very object and runs the server with it; with `-c` the loaded file goes through the same validation -/
def expFrpsRunTail : List Str := [
  str "warning, err := validation.ValidateServerConfig(svrCfg)",
  str "if warning != nil { fmt.Printf(\"WARNING: %v\\n\", warning) }",
  str "if err != nil { fmt.Println(err) os.Exit(1) }",
  str "if err := runServer(svrCfg); err != nil { fmt.Println(err) os.Exit(1) }",
  str "return nil" ]

def sElseBranch : Str := str "} else { serverCfg.Complete() svrCfg = &serverCfg }"

theorem frps_flags_reach_run :
    frpsRegObj = str "serverCfg" ∧ frpsRegObjPkgLevel = true ∧
    frpsInit.getLast? = some (str "config.RegisterServerConfigFlags(rootCmd, &serverCfg)") ∧
    frpsRun.drop 3 = expFrpsRunTail ∧
    (∃ s, frpsRun[2]? = some s ∧ sElseBranch.isSuffixOf s = true ∧
      (str "if cfgFile != \"\" { svrCfg, isLegacyFormat, err = config.LoadServerConfig(cfgFile, strictConfigMode)").isPrefixOf s = true) := by
  refine ⟨by decide +kernel, by decide, by decide +kernel, by decide +kernel, ?_⟩
  exact ⟨_, rfl, by decide +kernel, by decide +kernel⟩

/-! ## the running commands: one definition, flags or file, the same observable behaviour -/
section Observed
open CmdSpec ProxyMsg Validate

def obsGet (o : Obs) (k : Str) : Value := (Rec.lookupD o k).canon

/-- predicate for the driver, evaluated on what the two real processes did: the process started with flags and
    the process started with the file were observed doing the same, and on every key the definition
    determines that is the value the definition says; `verify` (the `verify -c` sub-command on the same
    file) accepts exactly the definitions that are not to be refused -/
def cmdHoldsOn (spec : Spec) (flagObs fileObs : Obs) (verifyOK : Bool) : Bool :=
  flagObs == fileObs && spec.obs.all (fun kv => obsGet flagObs kv.1 == kv.2.canon) && (verifyOK == !isRej spec)

theorem cmdHoldsOn_sound (spec : Spec) (f c : Obs) (v : Bool) (h : cmdHoldsOn spec f c v = true) :
    f = c ∧ (∀ kv ∈ spec.obs, obsGet f kv.1 = kv.2.canon ∧ obsGet c kv.1 = kv.2.canon) ∧ (v = true ↔ isRej spec = false) := by
  simp only [cmdHoldsOn, Bool.and_eq_true, beq_iff_eq, List.all_eq_true] at h
  obtain ⟨⟨h1, h2⟩, h3⟩ := h
  subst h1
  refine ⟨rfl, fun kv hkv => ⟨h2 kv hkv, h2 kv hkv⟩, ?_⟩
  cases v <;> cases hr : isRej spec <;> simp_all

/-- the specification passes its own predicate (a `prop=FAILS` can only come from the processes) -/
theorem model_cmdHoldsOn (spec : Spec) (hnd : ∀ kv ∈ spec.obs, obsGet spec.obs kv.1 = kv.2.canon) :
    cmdHoldsOn spec spec.obs spec.obs (!isRej spec) = true := by
  simp only [cmdHoldsOn, Bool.and_eq_true, beq_iff_eq, List.all_eq_true, beq_self_eq_true, and_true, true_and]
  exact hnd

/-- **a definition the validator refuses never starts**: the specification of `frps` is a refusal exactly when
    `ValidateServerConfig` reports an error on the completed definition … -/
theorem serverSpec_rej_iff (c : Rec Str) :
    isRej (serverSpec c) = true ↔ validateServer (serverViewOf c true) ≠ [] := by
  simp only [serverSpec]
  cases h : validateServer (serverViewOf c true) with
  | nil => simp [isRej]
  | cons e es => simp [isRej]

/-- … in particular a dashboard port outside 0..65535 is refused with or without a `webServer.tls` section,
    complete or not (`web_port_checked`) -/
theorem serverSpec_web_port (c : Rec Str)
    (hp : ¬ (0 ≤ (serverViewOf c true).webPort ∧ (serverViewOf c true).webPort ≤ 65535)) :
    isRej (serverSpec c) = true := by
  rw [serverSpec_rej_iff]
  intro h
  have hb := (server_accept_iff_blocks _).mp h
  have hw : validateWebServer (serverViewOf c true).webTLS (serverViewOf c true).webPort = [] :=
    (web_accept_iff_blocks _ _).mpr ⟨hb.2.2.2.1, hb.2.2.2.2.1⟩
  exact hp (web_port_checked _ _ hw)

/-- the same for `frpc`: the admin port / protocol / log level … of a refused definition never reach the network -/
theorem clientSpec_rej_of_invalid (v : Bool) (t : Str) (c p : Rec Str)
    (h : validateClientCommon (clientCommonViewOf c true) ≠ []) : isRej (clientSpec v t c p) = true := by
  simp only [clientSpec]
  cases hh : validateClientCommon (clientCommonViewOf c true) with
  | nil => exact absurd hh h
  | cons e es => simp [isRej]

/-- **what `--tls_enable` says is what the wire shows**, on every sub-command of the tree as it stands: the first
    bytes specified for the value the Run closure sees (`CmdWire.seenTLS` on the regenerated registrations) are
    those specified for the value given on the command line -/
theorem wire_follows_tls_flag (proto : Str) :
    ∀ i, i < proxyTypes.length → ∀ v,
      wireOf proto (seenTLS (regsOfSites proxyTypes.length) runCfgOfSites i v) = wireOf proto v := by
  intro i hi v
  rw [frpc_tls_flag_effective i hi v]

/-- without TLS a tcp client starts with the multiplexer, with TLS (the default) with a TLS hello; the two differ -/
theorem wire_tls_distinct : wireOf (S "tcp") true ≠ wireOf (S "tcp") false ∧
    wireOf (S "websocket") true ≠ wireOf (S "websocket") false := by decide +kernel

end Observed

end C18
end Frp
