import Frp.Model.Layers
import Frp.Lemmas.Limit
/-! Stream layers: composition preserves the law (core only). -/
namespace Frp
namespace Layers

theorem prefix_antisymm_of_both {a b : C01Bytes} (h1 : a <+: b) (h2 : b <+: a) : a = b :=
  h1.eq_of_length (Nat.le_antisymm h1.length_le h2.length_le)

/-- the decoder of a lawful layer is insensitive to the chunking of what arrives -/
theorem Lawful.rechunk_eq {L : Layer} (h : Lawful L) (xs ys : List C01Bytes)
    (e : xs.flatten = ys.flatten) : L.Dout xs = L.Dout ys :=
  prefix_antisymm_of_both (h.mono xs ys (e ▸ List.prefix_refl _)) (h.mono ys xs (e ▸ List.prefix_refl _))

theorem encRun_append (L : Layer) : ∀ (a b : List C01Bytes) (s : L.σ),
    L.encRun s (a ++ b) =
      ((L.encRun (L.encRun s a).1 b).1, (L.encRun s a).2 ++ (L.encRun (L.encRun s a).1 b).2) := by
  intro a
  induction a with
  | nil => intro b s; simp [Layer.encRun]
  | cons p ps ih =>
    intro b s
    simp only [List.cons_append, Layer.encRun, ih, List.append_assoc]

theorem comp_encRun (up lo : Layer) : ∀ (ps : List C01Bytes) (su : up.σ) (sl : lo.σ),
    (comp up lo).encRun (su, sl) ps =
      (((up.encRun su ps).1, (lo.encRun sl (up.encRun su ps).2).1), (lo.encRun sl (up.encRun su ps).2).2) := by
  intro ps
  induction ps with
  | nil => intro su sl; rfl
  | cons p rest ih =>
    intro su sl
    simp only [Layer.encRun]
    simp only [ih, encRun_append]

theorem comp_decChunks (up lo : Layer) : ∀ (cs : List C01Bytes) (dl : lo.δ) (du : up.δ),
    (comp up lo).decChunks (dl, du) cs =
      (((lo.decChunks dl cs).1, (up.decChunks du (lo.decChunks dl cs).2).1),
       (up.decChunks du (lo.decChunks dl cs).2).2) := by
  intro cs
  induction cs with
  | nil => intro dl du; rfl
  | cons c rest ih =>
    intro dl du
    simp only [Layer.decChunks]
    simp only [ih]

theorem comp_Eout (up lo : Layer) (ps : List C01Bytes) : (comp up lo).Eout ps = lo.Eout (up.Eout ps) := by
  simp only [Layer.Eout]
  have := comp_encRun up lo ps up.e0 lo.e0
  show ((comp up lo).encRun (up.e0, lo.e0) ps).2 = _
  rw [this]

theorem comp_Dchunks (up lo : Layer) (cs : List C01Bytes) :
    (comp up lo).Dchunks cs = up.Dchunks (lo.Dchunks cs) := by
  simp only [Layer.Dchunks]
  have := comp_decChunks up lo cs lo.d0 up.d0
  show ((comp up lo).decChunks (lo.d0, up.d0) cs).2 = _
  rw [this]

theorem comp_Dout (up lo : Layer) (cs : List C01Bytes) :
    (comp up lo).Dout cs = up.Dout (lo.Dchunks cs) := by
  simp only [Layer.Dout, comp_Dchunks]

/-- stacking two lawful layers gives a lawful layer -/
theorem comp_lawful {up lo : Layer} (hu : Lawful up) (hl : Lawful lo) : Lawful (comp up lo) where
  mono xs ys h := by
    rw [comp_Dout, comp_Dout]
    exact hu.mono _ _ (hl.mono xs ys h)
  roundtrip ps := by
    rw [comp_Dout, comp_Eout]
    have h1 : (lo.Dchunks (lo.Eout (up.Eout ps))).flatten = (up.Eout ps).flatten := hl.roundtrip _
    rw [hu.rechunk_eq _ _ h1]
    exact hu.roundtrip ps

theorem id_decChunks : ∀ (cs : List C01Bytes) (d : idLayer.δ), (idLayer.decChunks d cs).2 = cs := by
  intro cs
  induction cs with
  | nil => intro d; rfl
  | cons c rest ih =>
    intro d
    simp only [Layer.decChunks]
    rw [ih]

theorem id_encRun : ∀ (ps : List C01Bytes) (s : idLayer.σ), (idLayer.encRun s ps).2 = ps := by
  intro ps
  induction ps with
  | nil => intro s; rfl
  | cons c rest ih =>
    intro s
    simp only [Layer.encRun]
    rw [ih]; rfl

theorem id_lawful : Lawful idLayer where
  mono xs ys h := by
    simp only [Layer.Dout, Layer.Dchunks, id_decChunks]; exact h
  roundtrip ps := by
    simp only [Layer.Dout, Layer.Dchunks, Layer.Eout, id_decChunks, id_encRun]

/-- a stack of lawful layers is lawful (induction on the stack) -/
theorem stack_lawful : ∀ (st : List Layer), (∀ l ∈ st, Lawful l) → Lawful (stackLayer st) := by
  intro st
  induction st with
  | nil => intro _; exact id_lawful
  | cons l rest ih =>
    intro h
    exact comp_lawful (ih fun x hx => h x (List.mem_cons_of_mem _ hx)) (h l List.mem_cons_self)

/-- what the reader sees is a prefix of what the writer wrote, for ANY chunking of ANY prefix of the
    encoded stream … -/
theorem transparent_prefix {L : Layer} (h : Lawful L) (ps cs : List C01Bytes)
    (hw : cs.flatten <+: (L.Eout ps).flatten) : L.Dout cs <+: ps.flatten := by
  have := h.mono cs (L.Eout ps) hw
  rwa [h.roundtrip] at this

/-- … and all of it once everything written has arrived -/
theorem transparent_complete {L : Layer} (h : Lawful L) (ps cs : List C01Bytes)
    (hw : cs.flatten = (L.Eout ps).flatten) : L.Dout cs = ps.flatten := by
  rw [h.rechunk_eq cs (L.Eout ps) hw]; exact h.roundtrip ps

/-! ### concrete lawful layers -/

theorem rechunk_decChunks (f : C01Bytes → List C01Bytes) : ∀ (cs : List C01Bytes) (d : (rechunk f).δ),
    ((rechunk f).decChunks d cs).2 = cs := by
  intro cs
  induction cs with
  | nil => intro d; rfl
  | cons c rest ih =>
    intro d
    simp only [Layer.decChunks]
    rw [ih]

theorem rechunk_encRun (f : C01Bytes → List C01Bytes) (hf : ∀ p, (f p).flatten = p) :
    ∀ (ps : List C01Bytes) (s : (rechunk f).σ), ((rechunk f).encRun s ps).2.flatten = ps.flatten := by
  intro ps
  induction ps with
  | nil => intro s; rfl
  | cons p rest ih =>
    intro s
    simp only [Layer.encRun, List.flatten_append, List.flatten_cons]
    rw [ih]
    show (f p).flatten ++ _ = _
    rw [hf]

theorem rechunk_lawful (f : C01Bytes → List C01Bytes) (hf : ∀ p, (f p).flatten = p) : Lawful (rechunk f) where
  mono xs ys h := by
    simp only [Layer.Dout, Layer.Dchunks, rechunk_decChunks]; exact h
  roundtrip ps := by
    simp only [Layer.Dout, Layer.Dchunks, Layer.Eout, rechunk_decChunks]
    exact rechunk_encRun f hf ps _

/-- the limiter (limit.Writer's chunk loop below, limit.Reader above) is a lawful layer -/
theorem limiter_lawful (burst : Nat) (hb : 0 < burst) : Lawful (limiterLayer burst) :=
  rechunk_lawful _ (Limit.chunks_flatten burst hb)

theorem headerMap_decChunks (hdr : C01Bytes) (f g : Nat → Nat) :
    ∀ (cs : List C01Bytes) (k : Nat),
    (((headerMap hdr f g).decChunks k cs).2).flatten = (cs.flatten.drop k).map g := by
  intro cs
  induction cs with
  | nil => intro k; simp [Layer.decChunks]
  | cons c rest ih =>
    intro k
    simp only [Layer.decChunks, List.flatten_cons]
    rw [ih]
    show (c.drop k).map g ++ (rest.flatten.drop (k - c.length)).map g = _
    rw [List.drop_append, List.map_append]

theorem headerMap_encRun_true (hdr : C01Bytes) (f g : Nat → Nat) : ∀ (ps : List C01Bytes),
    (((headerMap hdr f g).encRun (true : Bool) ps).2).flatten = ps.flatten.map f := by
  intro ps
  induction ps with
  | nil => rfl
  | cons p rest ih =>
    simp only [Layer.encRun, List.flatten_append, List.flatten_cons, List.map_append]
    show ([p.map f]).flatten ++ (((headerMap hdr f g).encRun (true : Bool) rest).2).flatten = _
    rw [ih]; simp

theorem headerMap_Eout (hdr : C01Bytes) (f g : Nat → Nat) (ps : List C01Bytes) :
    ((headerMap hdr f g).Eout ps).flatten = if ps = [] then [] else hdr ++ ps.flatten.map f := by
  cases ps with
  | nil => rfl
  | cons p rest =>
    simp only [Layer.Eout, Layer.encRun, List.flatten_append, List.flatten_cons, List.map_append]
    show ([hdr, p.map f]).flatten ++ (((headerMap hdr f g).encRun (true : Bool) rest).2).flatten = _
    rw [headerMap_encRun_true]; simp

/-- the cipher-shaped layer (header first, bytewise bijection, stateful decoder) is lawful -/
theorem headerMap_lawful (hdr : C01Bytes) (f g : Nat → Nat) (hfg : ∀ x, g (f x) = x) :
    Lawful (headerMap hdr f g) where
  mono xs ys h := by
    simp only [Layer.Dout, Layer.Dchunks]
    rw [headerMap_decChunks, headerMap_decChunks]
    obtain ⟨t, ht⟩ := h
    rw [← ht, List.drop_append, List.map_append]
    exact List.prefix_append _ _
  roundtrip ps := by
    simp only [Layer.Dout, Layer.Dchunks]
    rw [headerMap_decChunks, headerMap_Eout]
    split
    · rename_i h; subst h; simp
    · show ((hdr ++ ps.flatten.map f).drop hdr.length).map g = _
      rw [List.drop_left, List.map_map]
      have : (g ∘ f) = id := funext fun x => hfg x
      rw [this, List.map_id]

end Layers
end Frp
