import Frp.Model.WorkConns
import Frp.Props.C01
/-
  Lemmas for the work-connection part of C10 (Frp/Model/WorkConns.lean): close propagation through the
  udp stack (over C01's close-graph lemmas) and the lifecycle invariant.
-/
namespace Frp
namespace WorkConns
open Layers CloseGraph

/-! ### close propagation -/

theorem udp_close_fixed (o : Opts) (k : Nat) (hk : 1 ≤ k) :
    closeCount (udpWorkConnGraph o true) k = some (if (serverUdpStack o).isEmpty then k else 1) := by
  cases o with | mk e c ls lc =>
  cases e <;> cases c <;> cases ls <;>
    first
    | exact C01.closeCount_of_check _ 1 (by cases lc <;> decide) k hk
    | (simp only [closeCount]
       rw [C01.closeTop_bare _ (by intro st; rfl) k {}]
       cases lc <;> simp [serverUdpStack, serverStack, opt])

theorem udp_close_var (o : Opts) (k : Nat) (hk : 1 ≤ k) (hl : o.limSrv = true) :
    closeCount (udpWorkConnGraph o false) k = some 0 := by
  cases o with | mk e c ls lc =>
  simp only at hl
  subst hl
  cases e <;> cases c <;> exact C01.closeCount_of_check _ 0 (by cases lc <;> decide) k hk

theorem udp_close_var_nolimit (o : Opts) (k : Nat) (hl : o.limSrv = false) :
    closeCount (udpWorkConnGraph o false) k = closeCount (udpWorkConnGraph o true) k := by
  cases o with | mk e c ls lc =>
  simp only at hl
  subst hl
  rfl

theorem reached_fixed (kind : PKind) (o : Opts) (tops : Nat) (h : 1 ≤ tops) :
    reached kind o tops true = if guarded kind o then 1 else tops := by
  cases kind with
  | http =>
    simp only [reached, graphOf, guarded, C01.http_close_fixed o tops h, Option.getD_some, if_true]
  | udp =>
    simp only [reached, graphOf, guarded, udp_close_fixed o tops h, Option.getD_some]
    by_cases hE : (serverUdpStack o).isEmpty = true <;> simp [hE]

theorem reached_var (kind : PKind) (o : Opts) (tops : Nat) (h : 1 ≤ tops) (hl : o.limSrv = true) :
    reached kind o tops false = 0 := by
  cases kind with
  | http =>
    simp only [reached, graphOf, C01.http_close_current o tops h, hl, if_true, Option.getD_some]
  | udp =>
    simp only [reached, graphOf, udp_close_var o tops h hl, Option.getD_some]

/-! ### lifecycle -/

structure WInv (s : WState) : Prop where
  /-- a connection the proxy let go of (exchange over, replaced, proxy closed) had its top closed -/
  released : ∀ c ∈ s.conns, c.cur = false → 1 ≤ c.tops
  /-- a current connection is `pxy.workConn` of a live udp proxy of the same session -/
  curOwned : ∀ c ∈ s.conns, c.cur = true → ∃ p ∈ s.pxys, p.name = c.pxy ∧ p.sid = c.sid ∧ p.kind = .udp

theorem winv_init : WInv {} := ⟨(by intro c hc; cases hc), (by intro c hc; cases hc)⟩

theorem find_some {s : WState} {name : Str} {p : Pxy} (h : s.find name = some p) : p ∈ s.pxys ∧ p.name = name := by
  unfold WState.find at h
  exact ⟨List.mem_of_find?_eq_some h, by simpa using List.find?_some h⟩

theorem winv_apply {s : WState} (h : WInv s) (op : Op) : WInv (s.apply op) := by
  cases op with
  | reg sid name kind o =>
    simp only [WState.apply]
    split
    · exact h
    · refine ⟨h.released, ?_⟩
      intro c hc hcur
      obtain ⟨p, hp, a⟩ := h.curOwned c hc hcur
      exact ⟨p, List.mem_cons_of_mem _ hp, a⟩
  | exchange name k =>
    simp only [WState.apply]
    split
    · split
      · refine ⟨?_, ?_⟩
        · intro c hc hcur
          rcases List.mem_cons.mp hc with rfl | hc
          · simp
          · exact h.released c hc hcur
        · intro c hc hcur
          rcases List.mem_cons.mp hc with rfl | hc
          · simp at hcur
          · exact h.curOwned c hc hcur
      · exact h
    · exact h
  | udpTake name =>
    simp only [WState.apply]
    split
    · rename_i p hp
      obtain ⟨hpm, hpn⟩ := find_some hp
      split
      · rename_i hk
        refine ⟨?_, ?_⟩
        · intro c hc hcur
          rcases List.mem_cons.mp hc with rfl | hc
          · simp at hcur
          · simp only [bump, List.mem_map] at hc
            obtain ⟨d, hd, rfl⟩ := hc
            split
            · simp
            · rename_i hsel
              rw [if_neg hsel] at hcur
              exact h.released d hd hcur
        · intro c hc hcur
          rcases List.mem_cons.mp hc with rfl | hc
          · exact ⟨p, hpm, hpn, rfl, hk⟩
          · simp only [bump, List.mem_map] at hc
            obtain ⟨d, hd, rfl⟩ := hc
            split at hcur
            · rename_i hsel
              simp at hcur
            · rename_i hsel
              rw [if_neg hsel]
              exact h.curOwned d hd hcur
      · exact h
    · exact h
  | udpIOErr name k =>
    simp only [WState.apply]
    refine ⟨?_, ?_⟩
    · intro c hc hcur
      simp only [List.mem_map] at hc
      obtain ⟨d, hd, rfl⟩ := hc
      split
      · simp only; omega
      · rename_i hsel
        rw [if_neg hsel] at hcur
        exact h.released d hd hcur
    · intro c hc hcur
      simp only [List.mem_map] at hc
      obtain ⟨d, hd, rfl⟩ := hc
      split at hcur
      · rename_i hsel
        simp only at hcur
        rw [if_pos hsel]
        exact h.curOwned d hd hcur
      · rename_i hsel
        rw [if_neg hsel]
        exact h.curOwned d hd hcur
  | close sid name k =>
    simp only [WState.apply]
    split
    · split
      · refine ⟨?_, ?_⟩
        · intro c hc hcur
          simp only [List.mem_map] at hc
          obtain ⟨d, hd, rfl⟩ := hc
          split
          · simp only; omega
          · rename_i hsel
            rw [if_neg hsel] at hcur
            exact h.released d hd hcur
        · intro c hc hcur
          simp only [List.mem_map] at hc
          obtain ⟨d, hd, rfl⟩ := hc
          split at hcur
          · simp at hcur
          · rename_i hsel
            rw [if_neg hsel]
            obtain ⟨q, hq, a, b, e⟩ := h.curOwned d hd hcur
            refine ⟨q, List.mem_filter.mpr ⟨hq, ?_⟩, a, b, e⟩
            have : ¬ (d.pxy = name) := by
              intro e1
              apply hsel
              simp [isCur, hcur, e1]
            simpa [a] using this
      · exact h
    · exact h
  | endsess sid k =>
    simp only [WState.apply]
    refine ⟨?_, ?_⟩
    · intro c hc hcur
      simp only [List.mem_map] at hc
      obtain ⟨d, hd, rfl⟩ := hc
      split
      · simp only; omega
      · rename_i hsel
        rw [if_neg hsel] at hcur
        exact h.released d hd hcur
    · intro c hc hcur
      simp only [List.mem_map] at hc
      obtain ⟨d, hd, rfl⟩ := hc
      split at hcur
      · simp at hcur
      · rename_i hsel
        rw [if_neg hsel]
        obtain ⟨q, hq, a, b, e⟩ := h.curOwned d hd hcur
        refine ⟨q, List.mem_filter.mpr ⟨hq, ?_⟩, a, b, e⟩
        have : ¬ (d.sid = sid) := by
          intro e1
          apply hsel
          simp [hcur, e1]
        simpa [b] using this

theorem winv_run {s : WState} (h : WInv s) (ops : List Op) : WInv (s.run ops) := by
  induction ops generalizing s with
  | nil => exact h
  | cons op ops ih => exact ih (winv_apply h op)

end WorkConns
end Frp
