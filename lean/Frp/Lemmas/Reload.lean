import Frp.Model.Reload
/- helper lemmas for C01 (13)/(14): Manager.UpdateAll and the StartWorkConn message (core Lean only) -/
namespace Frp
namespace Reload

theorem keyBy_some : ∀ (cs : List Cfg) (n : Nat) (d : Cfg), keyBy cs n = some d → d ∈ cs ∧ d.name = n
  | [], _, _, h => by simp [keyBy] at h
  | c :: cs, n, d, h => by
    simp only [keyBy] at h
    cases hk : keyBy cs n with
    | some e =>
      rw [hk] at h
      simp only [Option.some.injEq] at h
      subst h
      have := keyBy_some cs n e hk
      exact ⟨List.mem_cons_of_mem _ this.1, this.2⟩
    | none =>
      rw [hk] at h
      by_cases hc : c.name = n
      · simp only [hc, if_true, Option.some.injEq] at h
        subst h
        exact ⟨List.mem_cons_self, hc⟩
      · simp [hc] at h

theorem keyBy_of_mem : ∀ (cs : List Cfg) (c : Cfg), c ∈ cs → ∃ d, keyBy cs c.name = some d
  | [], _, h => by cases h
  | a :: cs, c, h => by
    simp only [keyBy]
    cases hk : keyBy cs c.name with
    | some e => exact ⟨e, rfl⟩
    | none =>
      rcases List.mem_cons.mp h with h | h
      · subst h; simp
      · have := keyBy_of_mem cs c h
        rw [hk] at this
        rcases this with ⟨d, hd⟩
        cases hd

/-- every wrapper of the table reads the configuration it reports -/
def Inv (T : Table) : Prop := ∀ p ∈ T, p.2.run = p.2.cfg

/-- every wrapper of the table is the one `NewWrapper` makes from what `cs` configures under its name -/
def Good (cs : List Cfg) (T : Table) : Prop := ∀ p ∈ T, keyBy cs p.1 = some p.2.cfg ∧ p.2.run = p.2.cfg

theorem delLoop_good (cs : List Cfg) (T : Table) (h : Inv T) : Good cs (delLoop keepReal cs T) := by
  intro p hp
  simp only [delLoop, List.mem_filterMap] at hp
  rcases hp with ⟨q, hq, he⟩
  simp only [delStep] at he
  cases hk : keyBy cs q.1 with
  | none => rw [hk] at he; cases he
  | some c =>
    rw [hk] at he
    simp only [keepReal] at he
    by_cases hc : q.2.cfg = c
    · simp only [hc, if_true, Option.map_some, Option.some.injEq] at he
      subst he
      exact ⟨by simp only [hk, hc], h q hq⟩
    · simp [hc] at he

theorem hasKey_iff (T : Table) (n : Nat) : hasKey T n = true ↔ ∃ p ∈ T, p.1 = n := by
  simp [hasKey, List.any_eq_true]

theorem addLoop_good (all : List Cfg) : ∀ (l : List Cfg) (T : Table), (∀ c ∈ l, c ∈ all) → Good all T → Good all (addLoop all l T)
  | [], T, _, h => h
  | c :: rest, T, hl, h => by
    simp only [addLoop]
    have hrest : ∀ x ∈ rest, x ∈ all := fun x hx => hl x (List.mem_cons_of_mem _ hx)
    split
    · exact addLoop_good all rest T hrest h
    · apply addLoop_good all rest _ hrest
      intro p hp
      rcases List.mem_append.mp hp with hp | hp
      · exact h p hp
      · simp only [List.mem_singleton] at hp
        subst hp
        rcases keyBy_of_mem all c (hl c List.mem_cons_self) with ⟨d, hd⟩
        simp [hd, Wrapper.new]

theorem addLoop_mono (all : List Cfg) (n : Nat) : ∀ (l : List Cfg) (T : Table), hasKey T n = true → hasKey (addLoop all l T) n = true
  | [], _, h => h
  | c :: rest, T, h => by
    simp only [addLoop]
    split
    · exact addLoop_mono all n rest T h
    · apply addLoop_mono all n rest
      rw [hasKey_iff] at h ⊢
      rcases h with ⟨p, hp, hn⟩
      exact ⟨p, List.mem_append_left _ hp, hn⟩

theorem addLoop_cover (all : List Cfg) : ∀ (l : List Cfg) (T : Table) (c : Cfg), c ∈ l → hasKey (addLoop all l T) c.name = true
  | [], _, _, h => by cases h
  | a :: rest, T, c, h => by
    simp only [addLoop]
    rcases List.mem_cons.mp h with h | h
    · subst h
      split
      · rename_i hk
        exact addLoop_mono all c.name rest T hk
      · apply addLoop_mono all c.name rest
        rw [hasKey_iff]
        exact ⟨_, List.mem_append_right _ (List.mem_singleton.mpr rfl), rfl⟩
    · split
      · exact addLoop_cover all rest T c h
      · exact addLoop_cover all rest _ c h

theorem updateAll_good (T : Table) (cs : List Cfg) (h : Inv T) : Good cs (updateAll T cs) :=
  addLoop_good cs cs _ (fun _ hc => hc) (delLoop_good cs T h)

/-- the table after UpdateAll(cs) is exactly the configured map, every proxy running on what is configured NOW -/
theorem updateAll_lookup (T : Table) (cs : List Cfg) (h : Inv T) (n : Nat) :
    lookup (updateAll T cs) n = (keyBy cs n).map Wrapper.new := by
  have hg := updateAll_good T cs h
  cases hk : keyBy cs n with
  | none =>
    simp only [Option.map_none, lookup, Option.map_eq_none_iff, List.find?_eq_none]
    intro p hp
    have := (hg p hp).1
    intro hn
    simp only [decide_eq_true_eq] at hn
    rw [hn, hk] at this
    cases this
  | some d =>
    have hd := keyBy_some cs n d hk
    have hc : hasKey (updateAll T cs) d.name = true := addLoop_cover cs cs _ d hd.1
    rw [hd.2, hasKey_iff] at hc
    rcases hc with ⟨p, hp, hn⟩
    cases hf : (updateAll T cs).find? (fun p => p.1 = n) with
    | none =>
      rw [List.find?_eq_none] at hf
      have := hf p hp
      simp [hn] at this
    | some q =>
      have hq := List.mem_of_find?_eq_some hf
      have hqn := List.find?_some hf
      simp only [decide_eq_true_eq] at hqn
      have g := hg q hq
      rw [hqn, hk] at g
      simp only [lookup, hf, Option.map_some, Option.some.injEq, Wrapper.new]
      rcases q with ⟨qn, ⟨qc, qr⟩⟩
      simp only at g
      simp only [Option.some.injEq] at g
      rcases g with ⟨g1, g2⟩
      subst g1
      subst g2
      rfl

theorem updateAll_inv (T : Table) (cs : List Cfg) (h : Inv T) : Inv (updateAll T cs) :=
  fun p hp => (updateAll_good T cs h p hp).2

theorem runHist_inv : ∀ (hs : List (List Cfg)) (T : Table), Inv T → Inv (runHist T hs)
  | [], _, h => h
  | cs :: hs, T, h => by
    simp only [runHist, List.foldl_cons]
    exact runHist_inv hs _ (updateAll_inv T cs h)

end Reload

namespace WorkMsg
open Tunnel

/-- what connection i's own message must be -/
def ownMsg (name : Str) (cs : List Conn) (i : Nat) (m : StartWorkConn) : Prop :=
  ∃ c, cs[i]? = some c ∧ m = startMsg name c.src c.dst

def Ok (name : Str) (cs : List Conn) (s : St) : Prop :=
  (∀ p ∈ s.own, ownMsg name cs p.1 p.2) ∧ (∀ p ∈ s.sent, ownMsg name cs p.1 p.2)

theorem step_ok (name : Str) (cs : List Conn) (s : St) (e : Ev) (h : Ok name cs s) : Ok name cs (step false name cs s e) := by
  cases e with
  | fill i =>
    simp only [step]
    cases hc : cs[i]? with
    | none => exact h
    | some c =>
      simp only [Bool.false_eq_true, if_false]
      refine ⟨?_, h.2⟩
      intro p hp
      rcases List.mem_cons.mp hp with hp | hp
      · subst hp; exact ⟨c, hc, rfl⟩
      · exact h.1 p hp
  | send i =>
    simp only [step, Bool.false_eq_true, if_false]
    cases ho : ownOf s i with
    | none => exact h
    | some m =>
      refine ⟨h.1, ?_⟩
      intro p hp
      rcases List.mem_append.mp hp with hp | hp
      · exact h.2 p hp
      · simp only [List.mem_singleton] at hp
        subst hp
        simp only [ownOf, Option.map_eq_some_iff] at ho
        rcases ho with ⟨q, hq, hm⟩
        have hmem := List.mem_of_find?_eq_some hq
        have hi := List.find?_some hq
        simp only [decide_eq_true_eq] at hi
        have := h.1 q hmem
        rw [hi, hm] at this
        exact this

theorem run_ok (name : Str) (cs : List Conn) : ∀ (evs : List Ev) (s : St), Ok name cs s → Ok name cs (evs.foldl (step false name cs) s)
  | [], _, h => h
  | e :: evs, s, h => by
    simp only [List.foldl_cons]
    exact run_ok name cs evs _ (step_ok name cs s e h)

end WorkMsg
end Frp
