import Frp.Model.ProxyMsg
/-
  Lemmas about the assignment-program interpreter of Frp/Model/ProxyMsg.lean:
  what a field holds after running a table in which no target is assigned twice.
-/
namespace Frp
namespace ProxyMsg
open Gen.ProxyMsg ConfNum

namespace Rec
variable {K : Type} [DecidableEq K]

theorem runAssign_get_notin (prog : List (K × Option Value)) (r : Rec K) (k : K)
    (h : ∀ e ∈ prog, e.1 ≠ k) : (runAssign r prog).get k = r.get k := by
  induction prog generalizing r with
  | nil => rfl
  | cons e rest ih =>
    obtain ⟨k', ov⟩ := e
    have hk : k' ≠ k := h (k', ov) (List.mem_cons_self ..)
    have hrest : ∀ e ∈ rest, e.1 ≠ k := fun e he => h e (List.mem_cons_of_mem _ he)
    cases ov with
    | none => simp only [runAssign]; exact ih r hrest
    | some v =>
      simp only [runAssign]
      rw [ih _ hrest, get_set]
      simp [Ne.symm hk]

/-- value selected by a (possibly skipped) assignment -/
def pick (ov : Option Value) (old : Value) : Value :=
  match ov with
  | some v => v
  | none => old

@[simp] theorem pick_some (v old : Value) : pick (some v) old = v := rfl

theorem pick_ite (b : Prop) [Decidable b] (v old : Value) :
    pick (if b then none else some v) old = if b then old else v := by
  split <;> rfl

theorem runAssign_get_mem (prog : List (K × Option Value)) (r : Rec K) (k : K) (ov : Option Value)
    (hnd : prog.Pairwise (fun a b => a.1 ≠ b.1)) (hmem : (k, ov) ∈ prog) :
    (runAssign r prog).get k = pick ov (r.get k) := by
  induction prog generalizing r with
  | nil => cases hmem
  | cons e rest ih =>
    obtain ⟨k', ov'⟩ := e
    rw [List.pairwise_cons] at hnd
    rcases List.mem_cons.mp hmem with heq | hin
    · -- the assignment is this statement; nothing later touches k
      injection heq with h1 h2
      subst h1; subst h2
      have hrest : ∀ e ∈ rest, e.1 ≠ k := fun e he => Ne.symm (hnd.1 e he)
      cases ov with
      | none => simp only [runAssign, pick]; exact runAssign_get_notin rest r k hrest
      | some v =>
        simp only [runAssign, pick]
        rw [runAssign_get_notin rest _ k hrest, get_set]; simp
    · have hk : k' ≠ k := hnd.1 (k, ov) hin
      cases ov' with
      | none => simp only [runAssign]; exact ih r hnd.2 hin
      | some v =>
        simp only [runAssign]
        rw [ih _ hnd.2 hin, get_set]
        simp [Ne.symm hk]

end Rec

/-! ## what a marshal / unmarshal statement does to one value -/

/-- the message value produced from configuration value `v` -/
def viaMsg (mx : MX) (v : Value) : Value :=
  match mx with
  | .copy => v
  | .callString => bwString v
  | .copyUnlessEq lit => if asStr v = lit then .zero else v

/-- the configuration value produced from message value `mv` (`d` = value before the statement) -/
def intoCfg (ux : UX) (mv d : Value) : Value :=
  match ux with
  | .copy => mv
  | .copyIfNonEmpty => if asStr mv = [] then d else mv
  | .parseBandwidth => bwParse mv
  | .parseBandwidthIfNonEmpty => if asStr mv = [] then d else bwParse mv

theorem marshal_get (M : List MEntry) (c : Rec CF) (em : MEntry)
    (hnd : M.Pairwise (fun a b => a.msg ≠ b.msg)) (h : em ∈ M) :
    (marshal M c).get em.msg = viaMsg em.x (c.get em.cfg) := by
  have hp : (M.map (evalM c)).Pairwise (fun a b => a.1 ≠ b.1) := by
    rw [List.pairwise_map]; exact hnd
  have hm : ((evalM c em).1, (evalM c em).2) ∈ M.map (evalM c) := List.mem_map_of_mem h
  have := Rec.runAssign_get_mem (M.map (evalM c)) Rec.empty _ _ hp hm
  rw [marshal]
  simp only [evalM] at this ⊢
  rw [this]
  cases em.x <;> simp only [Rec.pick_some, Rec.pick_ite, viaMsg, Rec.get_empty]

theorem marshal_get_notin (M : List MEntry) (c : Rec CF) (k : MF)
    (h : ∀ e ∈ M, e.msg ≠ k) : (marshal M c).get k = .zero := by
  rw [marshal, Rec.runAssign_get_notin]
  · rfl
  · intro e he
    obtain ⟨a, ha, rfl⟩ := List.mem_map.mp he
    exact h a ha

theorem unmarshal_get (U : List UEntry) (m : Rec MF) (c0 : Rec CF) (eu : UEntry)
    (hnd : U.Pairwise (fun a b => a.cfg ≠ b.cfg)) (h : eu ∈ U) :
    (unmarshal U m c0).get eu.cfg = intoCfg eu.x (m.get eu.msg) (c0.get eu.cfg) := by
  have hp : (U.map (evalU m)).Pairwise (fun a b => a.1 ≠ b.1) := by
    rw [List.pairwise_map]; exact hnd
  have hm : ((evalU m eu).1, (evalU m eu).2) ∈ U.map (evalU m) := List.mem_map_of_mem h
  have := Rec.runAssign_get_mem (U.map (evalU m)) c0 _ _ hp hm
  rw [unmarshal]
  simp only [evalU] at this ⊢
  rw [this]
  cases eu.x <;> simp only [Rec.pick_some, Rec.pick_ite, intoCfg]

theorem unmarshal_get_notin (U : List UEntry) (m : Rec MF) (c0 : Rec CF) (p : CF)
    (h : ∀ e ∈ U, e.cfg ≠ p) : (unmarshal U m c0).get p = c0.get p := by
  rw [unmarshal, Rec.runAssign_get_notin]
  intro e he
  obtain ⟨a, ha, rfl⟩ := List.mem_map.mp he
  exact h a ha

/-- unmarshal reads the message only through `get` -/
theorem unmarshal_congr (U : List UEntry) (m m' : Rec MF) (c0 : Rec CF)
    (h : ∀ k, m.get k = m'.get k) : unmarshal U m c0 = unmarshal U m' c0 := by
  have : U.map (evalU m) = U.map (evalU m') := by
    apply List.map_congr_left
    intro e _
    simp only [evalU, h]
  rw [unmarshal, unmarshal, this]

theorem asStr_ne_nil {v : Value} {s : Str} (h : asStr v = s) (hs : s ≠ []) : v = .str s := by
  cases v <;> simp_all [asStr]

end ProxyMsg
end Frp
