import Frp.Model.ConfNum
import Frp.Lemmas.ConfStr
/-
  Round-trip lemmas for the textual quantities (C18 part C).
-/
namespace Frp
namespace ConfNum
open Str

theorem printNat_digits (n : Nat) : ∀ c ∈ printNat n, isDigit c = true := by
  fun_induction printNat n with
  | case1 n h => intro c hc; simp at hc; subst hc; simp [isDigit]; omega
  | case2 n h ih =>
    intro c hc
    rcases List.mem_append.mp hc with h1 | h1
    · exact ih c h1
    · simp at h1; subst h1; simp [isDigit]; omega

theorem printNat_ne_nil (n : Nat) : printNat n ≠ [] := by
  rw [printNat]; split <;> simp

theorem parseDigits_append (a b : Str) : ∀ acc, parseDigits acc (a ++ b) =
    (parseDigits acc a).bind (fun x => parseDigits x b) := by
  induction a with
  | nil => intro acc; simp [parseDigits]
  | cons c cs ih =>
    intro acc
    simp only [List.cons_append, parseDigits]
    split
    · exact ih _
    · rfl

theorem parseDigits_printNat (n : Nat) : parseDigits 0 (printNat n) = some n := by
  fun_induction printNat n with
  | case1 n h =>
    have : isDigit (48 + n) = true := by simp [isDigit]; omega
    simp [parseDigits, this]
  | case2 n h ih =>
    rw [parseDigits_append, ih]
    have : isDigit (48 + n % 10) = true := by simp [isDigit]; omega
    simp only [Option.bind_some, parseDigits, this, if_true, Option.some.injEq]
    omega

theorem digit_facts {c : Nat} (h : isDigit c = true) :
    c ≠ plus ∧ c ≠ dash ∧ c ≠ comma ∧ isSpace c = false := by
  simp [isDigit] at h
  refine ⟨?_, ?_, ?_, ?_⟩ <;> simp [plus, dash, comma, isSpace] <;> omega

theorem parseInt_printNat (n : Nat) (h : n < 2 ^ 63) : parseInt (printNat n) = some (n : Int) := by
  have hd := printNat_digits n
  have hp := parseDigits_printNat n
  cases hs : printNat n with
  | nil => exact absurd hs (printNat_ne_nil n)
  | cons c ds =>
    rw [hs] at hd hp
    have := digit_facts (hd c (List.mem_cons_self ..))
    simp [parseInt, this.1, this.2.1, parseMag, hp, h]

theorem trim_of_no_space (s : Str) (h : ∀ c ∈ s, isSpace c = false) : trim s = s := by
  have h1 : trimLeft s = s := by
    apply dropWhile_self_of_head
    intro c hc
    cases s with
    | nil => simp at hc
    | cons a as => simp at hc; subst hc; exact h _ (List.mem_cons_self ..)
  have h2 : trimRight s = s := by
    have : s.reverse.dropWhile isSpace = s.reverse := by
      apply dropWhile_self_of_head
      intro c hc
      have : c ∈ s.reverse := List.mem_of_mem_head? hc
      exact h c (List.mem_reverse.mp this)
    simp [trimRight, this]
  rw [trim, h1, h2]

theorem printInt_nonneg (i : Int) (h : 0 ≤ i) : printInt i = printNat i.toNat := by
  simp [printInt]; omega

theorem no_space_printNat (n : Nat) : ∀ c ∈ printNat n, isSpace c = false :=
  fun c hc => (digit_facts (printNat_digits n c hc)).2.2.2

theorem parseInt_trim_printNat (n : Nat) (h : n < 2 ^ 63) : parseInt (trim (printNat n)) = some (n : Int) := by
  rw [trim_of_no_space _ (no_space_printNat n), parseInt_printNat n h]

/-- characters of one printed range: digits and at most dashes -/
theorem printRange_chars (r : PortsRange) (h0 : 0 ≤ r.single) (h1 : 0 ≤ r.start) (h2 : 0 ≤ r.stop) :
    ∀ c ∈ printRange r, c ≠ comma ∧ isSpace c = false := by
  intro c hc
  simp only [printRange] at hc
  split at hc
  · rw [printInt_nonneg _ h0] at hc
    have := digit_facts (printNat_digits _ c hc); exact ⟨this.2.2.1, this.2.2.2⟩
  · rw [printInt_nonneg _ h1, printInt_nonneg _ h2] at hc
    rcases List.mem_append.mp hc with h | h
    · have := digit_facts (printNat_digits _ c h); exact ⟨this.2.2.1, this.2.2.2⟩
    · rcases List.mem_cons.mp h with h | h
      · subst h; simp [dash, comma, isSpace]
      · have := digit_facts (printNat_digits _ c h); exact ⟨this.2.2.1, this.2.2.2⟩

end ConfNum
end Frp
