import Frp.Model.Base64
/-
  Lemmas about the base64 model (core Lean only).

  Main results:
    `decode_encode`   : bytes b → decode (encode b) = some b
    `encode_length`   : (encode b).length = 4 * ((b.length + 2) / 3)
    `encode_chars`    : every output character is in the alphabet or is '='
    `encode_no_dot`, `encode_no_nl` : in particular never '.', '\r', '\n'
    `encode_injective`: on byte strings
-/
namespace Frp
namespace Base64

/-- all elements are bytes -/
def bytes (s : Str) : Prop := ∀ x ∈ s, x < 256

instance (s : Str) : Decidable (bytes s) := by unfold bytes; exact inferInstance

theorem bytes_nil : bytes [] := by intro x h; cases h

theorem bytes_cons {a : Nat} {s : Str} : bytes (a :: s) ↔ a < 256 ∧ bytes s := by
  simp only [bytes, List.mem_cons, forall_eq_or_imp]

/-! ### alphabet facts (finite, by evaluation) -/

theorem val_ch : ∀ n, n < 64 → val (ch n) = some n := by decide

theorem ch_lt_128 : ∀ n, n < 64 → ch n < 128 := by decide

theorem ch_not_pad : ∀ n, n < 64 → ch n ≠ pad := by decide

theorem ch_not_dot : ∀ n, n < 64 → ch n ≠ 46 := by decide

theorem ch_not_nl : ∀ n, n < 64 → isNL (ch n) = false := by decide

theorem ch_injective : ∀ n, n < 64 → ∀ m, m < 64 → ch n = ch m → n = m := by decide

theorem val_pad : val pad = none := by decide

theorem val_lt {c x : Nat} (h : val c = some x) : x < 64 := by
  unfold val at h
  repeat' split at h
  all_goals first | (injection h with h; omega) | cases h

theorem ch_val {c x : Nat} (h : val c = some x) : ch x = c := by
  unfold val at h
  unfold ch
  repeat' split at h
  all_goals first
    | (injection h with h; subst h; repeat' split
       all_goals omega)
    | cases h

/-- the alphabet has exactly 64 characters and `val`/`ch` are mutually inverse on it -/
theorem inAlphabet_iff (c : Nat) : inAlphabet c = true ↔ ∃ n, n < 64 ∧ ch n = c := by
  unfold inAlphabet
  constructor
  · intro h
    cases hv : val c with
    | none => rw [hv] at h; cases h
    | some x => exact ⟨x, val_lt hv, ch_val hv⟩
  · rintro ⟨n, hn, rfl⟩
    rw [val_ch n hn]; rfl

/-! ### encode -/

/-- character class of the encoder's output -/
def okChar (c : Nat) : Bool := inAlphabet c || c == pad

theorem okChar_ch {n : Nat} (h : n < 64) : okChar (ch n) = true := by
  simp only [okChar, inAlphabet, val_ch n h, Option.isSome_some, Bool.true_or]

theorem okChar_pad : okChar pad = true := by decide

theorem okChar_props : ∀ c, c < 128 → okChar c = true → c ≠ 46 ∧ isNL c = false := by decide

theorem okChar_lt_128 {c : Nat} (h : okChar c = true) : c < 128 := by
  simp only [okChar, Bool.or_eq_true, beq_iff_eq] at h
  rcases h with h | h
  · obtain ⟨n, hn, rfl⟩ := (inAlphabet_iff c).1 h
    exact ch_lt_128 n hn
  · subst h; decide

theorem encode_length (b : Str) : (encode b).length = 4 * ((b.length + 2) / 3) := by
  induction b using encode.induct with
  | case1 => rfl
  | case2 a => simp [encode]
  | case3 a b => simp [encode]
  | case4 a b c rest ih =>
    simp only [encode, List.length_cons, ih]
    omega

theorem encode_length_mod4 (b : Str) : (encode b).length % 4 = 0 := by
  rw [encode_length]; omega

theorem encode_eq_nil {b : Str} : encode b = [] ↔ b = [] := by
  constructor
  · intro h
    have := encode_length b
    rw [h] at this
    simp only [List.length_nil] at this
    cases b with
    | nil => rfl
    | cons a t => simp only [List.length_cons] at this; omega
  · rintro rfl; rfl

/-- every output character is one of the 64 alphabet characters or '=' -/
theorem encode_chars (b : Str) (hb : bytes b) : ∀ c ∈ encode b, okChar c = true := by
  induction b using encode.induct with
  | case1 => intro c h; cases h
  | case2 a =>
    have ha : a < 256 := hb a (by simp)
    intro c h
    simp only [encode, List.mem_cons, List.not_mem_nil, or_false] at h
    rcases h with rfl | rfl | rfl | rfl
    · exact okChar_ch (by omega)
    · exact okChar_ch (by omega)
    · exact okChar_pad
    · exact okChar_pad
  | case3 a b =>
    have ha : a < 256 := hb a (by simp)
    have hb' : b < 256 := hb b (by simp)
    intro c h
    simp only [encode, List.mem_cons, List.not_mem_nil, or_false] at h
    rcases h with rfl | rfl | rfl | rfl
    · exact okChar_ch (by omega)
    · exact okChar_ch (by omega)
    · exact okChar_ch (by omega)
    · exact okChar_pad
  | case4 a b c rest ih =>
    have ha : a < 256 := hb a (by simp)
    have hb' : b < 256 := hb b (by simp)
    have hc : c < 256 := hb c (by simp)
    have hr : bytes rest := fun x hx => hb x (by simp [hx])
    intro x h
    simp only [encode, List.mem_cons] at h
    rcases h with rfl | rfl | rfl | rfl | h
    · exact okChar_ch (by omega)
    · exact okChar_ch (by omega)
    · exact okChar_ch (by omega)
    · exact okChar_ch (by omega)
    · exact ih hr x h

/-- no '.' in the output (used where an encoded value is embedded in a dotted name) -/
theorem encode_no_dot (b : Str) (hb : bytes b) : (46 : Nat) ∉ encode b := by
  intro h
  have := encode_chars b hb 46 h
  revert this; decide

/-- no CR / LF in the output: the decoder's newline skipping does not touch it -/
theorem encode_no_nl (b : Str) (hb : bytes b) : (encode b).filter (fun c => !isNL c) = encode b := by
  apply List.filter_eq_self.2
  intro c hc
  have h := encode_chars b hb c hc
  have := (okChar_props c (okChar_lt_128 h) h).2
  simp only [this, Bool.not_false]

/-- output is 7-bit ASCII -/
theorem encode_ascii (b : Str) (hb : bytes b) : ∀ c ∈ encode b, c < 128 :=
  fun c hc => okChar_lt_128 (encode_chars b hb c hc)

/-! ### decode ∘ encode -/

theorem decodeQ_encode (b : Str) (hb : bytes b) : decodeQ (encode b) = some b := by
  induction b using encode.induct with
  | case1 => rfl
  | case2 a =>
    have ha : a < 256 := hb a (by simp)
    simp only [encode, decodeQ, val_ch (a / 4) (by omega), val_ch (a % 4 * 16) (by omega), val_pad]
    simp only [b0, and_self, if_true]
    congr 2; omega
  | case3 a b =>
    have ha : a < 256 := hb a (by simp)
    have hb' : b < 256 := hb b (by simp)
    simp only [encode, decodeQ, val_ch (a / 4) (by omega), val_ch (a % 4 * 16 + b / 16) (by omega),
      val_ch (b % 16 * 4) (by omega), val_pad]
    simp only [b0, b1, and_self, if_true]
    congr 2
    · omega
    · congr 1; omega
  | case4 a b c rest ih =>
    have ha : a < 256 := hb a (by simp)
    have hb' : b < 256 := hb b (by simp)
    have hc : c < 256 := hb c (by simp)
    have hr : bytes rest := fun x hx => hb x (by simp [hx])
    simp only [encode, decodeQ, val_ch (a / 4) (by omega), val_ch (a % 4 * 16 + b / 16) (by omega),
      val_ch (b % 16 * 4 + c / 64) (by omega), val_ch (c % 64) (by omega), ih hr, Option.map_some]
    simp only [b0, b1, b2]
    congr 2
    · omega
    · congr 1
      · omega
      · congr 1; omega

/-- **round trip**: `GetContent (NewUDPPacket b) = b` for every byte string -/
theorem decode_encode (b : Str) (hb : bytes b) : decode (encode b) = some b := by
  unfold decode
  rw [encode_no_nl b hb, decodeQ_encode b hb]

theorem encode_injective {a b : Str} (ha : bytes a) (hb : bytes b) (h : encode a = encode b) : a = b := by
  have h1 := decode_encode a ha
  rw [h, decode_encode b hb] at h1
  exact (Option.some.inj h1).symm

/-- what the decoder returns is always a byte string -/
theorem decodeQ_bytes : ∀ (n : Nat) (s out : Str), s.length ≤ n → decodeQ s = some out → bytes out := by
  intro n
  induction n with
  | zero =>
    intro s out hl h
    cases s with
    | nil => simp only [decodeQ] at h; cases h; exact bytes_nil
    | cons a t => simp only [List.length_cons] at hl; omega
  | succ n ih =>
    intro s out hl h
    match s, hl, h with
    | [], _, h => simp only [decodeQ] at h; cases h; exact bytes_nil
    | [_], _, h => simp [decodeQ] at h
    | [_, _], _, h => simp [decodeQ] at h
    | [_, _, _], _, h => simp [decodeQ] at h
    | a :: b :: c :: d :: rest, hl, h =>
      simp only [decodeQ] at h
      cases hx : val a with
      | none => simp [hx] at h
      | some x =>
      cases hy : val b with
      | none => simp [hx, hy] at h
      | some y =>
      have hx64 := val_lt hx
      have hy64 := val_lt hy
      cases hz : val c with
      | none =>
        simp only [hx, hy, hz] at h
        split at h
        · cases h
          intro v hv
          simp only [List.mem_cons, List.not_mem_nil, or_false] at hv
          subst hv; unfold b0; omega
        · cases h
      | some z =>
      cases hw : val d with
      | none =>
        simp only [hx, hy, hz, hw] at h
        split at h
        · cases h
          intro v hv
          simp only [List.mem_cons, List.not_mem_nil, or_false] at hv
          rcases hv with rfl | rfl
          · unfold b0; omega
          · unfold b1; omega
        · cases h
      | some w =>
        simp only [hx, hy, hz, hw] at h
        cases hr : decodeQ rest with
        | none => simp [hr] at h
        | some r =>
          simp only [hr, Option.map_some, Option.some.injEq] at h
          subst h
          have hrb := ih rest r (by simp only [List.length_cons] at hl; omega) hr
          intro v hv
          simp only [List.mem_cons] at hv
          rcases hv with rfl | rfl | rfl | hv
          · unfold b0; omega
          · unfold b1; omega
          · unfold b2; omega
          · exact hrb v hv

theorem decode_bytes {s out : Str} (h : decode s = some out) : bytes out :=
  decodeQ_bytes _ _ _ (Nat.le_refl _) h

end Base64
end Frp
