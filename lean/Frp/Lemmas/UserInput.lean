import Frp.Model.UserInput
/-
  Lemmas for Model/UserInput.lean: soundness of the index-site judgement, totality of hasPort / CanonicalHost
  under Go's indexing, the teardown runs.
-/
namespace Frp
namespace UserIn
open Str

/-! ## 1. the judgement implies Go's bounds check -/

theorem foldl_minLen_le (ρ : Env) (x : String) (fs : List GFact) (m : Nat) (hm : m ≤ ρ.len x)
    (h : ∀ f ∈ fs, f.holds ρ) :
    fs.foldl (fun m f => match f with
      | .lenGe v n => if v = x then max m n else m
      | _ => m) m ≤ ρ.len x := by
  induction fs generalizing m with
  | nil => exact hm
  | cons f fs ih =>
    simp only [List.foldl_cons]
    apply ih
    · cases f with
      | lenGe v n =>
        have hf : GFact.holds ρ (.lenGe v n) := h _ (List.mem_cons_self ..)
        simp only [GFact.holds] at hf
        by_cases e : v = x
        · subst e
          simp only [if_true]
          exact Nat.max_le.mpr ⟨hm, hf⟩
        · simp only [e, if_false]; exact hm
      | lenGeLen v p => exact hm
      | idxIn i v => exact hm
      | varLeLen i v => exact hm
      | defPlus i k t => exact hm
    · intro g hg
      exact h g (List.mem_cons_of_mem _ hg)

theorem minLen_le {ρ : Env} {fs : List GFact} (h : ∀ f ∈ fs, f.holds ρ) (x : String) : minLen fs x ≤ ρ.len x :=
  foldl_minLen_le ρ x fs 0 (Nat.zero_le _) h

theorem mem_of_contains {fs : List GFact} {f : GFact} (h : fs.contains f = true) : f ∈ fs :=
  List.contains_iff_mem.mp h

theorem nonnegVar_sound {ρ : Env} {fs : List GFact} (h : ∀ f ∈ fs, f.holds ρ) {i : String}
    (hb : nonnegVar fs i = true) : 0 ≤ ρ.int i := by
  unfold nonnegVar at hb
  rw [List.any_eq_true] at hb
  obtain ⟨f, hf, hp⟩ := hb
  cases f with
  | defPlus j k t =>
    simp only [Bool.and_eq_true, decide_eq_true_eq] at hp
    have := h _ hf
    simp only [GFact.holds] at this
    obtain ⟨e, _, he⟩ := this
    rw [← hp.1, he]
    exact Int.natCast_nonneg _
  | lenGe v n => simp at hp
  | lenGeLen v p => simp at hp
  | idxIn i v => simp at hp
  | varLeLen i v => simp at hp

theorem constLeVar_sound {ρ : Env} {fs : List GFact} (h : ∀ f ∈ fs, f.holds ρ) {a : Nat} {i : String}
    (hb : constLeVar fs a i = true) : (a : Int) ≤ ρ.int i := by
  unfold constLeVar at hb
  rw [List.any_eq_true] at hb
  obtain ⟨f, hf, hp⟩ := hb
  cases f with
  | defPlus j k t =>
    cases t with
    | u32 => simp at hp
    | wide =>
      simp only [Bool.and_eq_true, decide_eq_true_eq] at hp
      have := h _ hf
      simp only [GFact.holds, NumT.wrap] at this
      obtain ⟨e, he, hi⟩ := this
      rw [← hp.1.1, hi]
      have : (k + e) % 18446744073709551616 = k + e := Nat.mod_eq_of_lt (by omega)
      rw [this]
      omega
  | lenGe v n => simp at hp
  | lenGeLen v p => simp at hp
  | idxIn i v => simp at hp
  | varLeLen i v => simp at hp

theorem leLen_sound {ρ : Env} {fs : List GFact} (h : ∀ f ∈ fs, f.holds ρ) {x : String} {b : Bound}
    (hb : leLen fs x b = true) : ∃ n, b.eval ρ = some n ∧ 0 ≤ n ∧ n ≤ ρ.len x := by
  have hm := minLen_le h x
  cases b with
  | const n =>
    simp only [leLen, decide_eq_true_eq] at hb
    exact ⟨n, rfl, by omega, by omega⟩
  | lenOf p =>
    simp only [leLen, Bool.or_eq_true, decide_eq_true_eq] at hb
    refine ⟨ρ.len p, rfl, by omega, ?_⟩
    rcases hb with e | hc
    · subst e; omega
    · have := h _ (mem_of_contains hc)
      simp only [GFact.holds] at this
      omega
  | var i =>
    simp only [leLen, Bool.or_eq_true, Bool.and_eq_true] at hb
    rcases hb with hb | ⟨hb1, hb2⟩
    · have := h _ (mem_of_contains hb)
      simp only [GFact.holds] at this
      exact ⟨ρ.int i, rfl, by omega, by omega⟩
    · have h1 := h _ (mem_of_contains hb1)
      simp only [GFact.holds] at h1
      exact ⟨ρ.int i, rfl, nonnegVar_sound h hb2, h1⟩
  | varPlus i k =>
    simp only [leLen, Bool.and_eq_true, decide_eq_true_eq] at hb
    have := h _ (mem_of_contains hb.2)
    simp only [GFact.holds] at this
    exact ⟨ρ.int i + k, rfl, by omega, by omega⟩
  | lenMinus v k =>
    simp only [leLen, Bool.and_eq_true, decide_eq_true_eq] at hb
    obtain ⟨e, hk⟩ := hb
    subst e
    exact ⟨(ρ.len v : Int) - k, rfl, by omega, by omega⟩
  | other s => simp [leLen] at hb

theorem ltLen_sound {ρ : Env} {fs : List GFact} (h : ∀ f ∈ fs, f.holds ρ) {x : String} {b : Bound}
    (hb : ltLen fs x b = true) : ∃ n, b.eval ρ = some n ∧ 0 ≤ n ∧ n < ρ.len x := by
  have hm := minLen_le h x
  cases b with
  | const n =>
    simp only [ltLen, decide_eq_true_eq] at hb
    exact ⟨n, rfl, by omega, by omega⟩
  | var i =>
    simp only [ltLen] at hb
    have := h _ (mem_of_contains hb)
    simp only [GFact.holds] at this
    exact ⟨ρ.int i, rfl, by omega, by omega⟩
  | lenMinus v k =>
    simp only [ltLen, Bool.and_eq_true, decide_eq_true_eq] at hb
    obtain ⟨⟨e, h1⟩, hk⟩ := hb
    subst e
    exact ⟨(ρ.len v : Int) - k, rfl, by omega, by omega⟩
  | lenOf p => simp [ltLen] at hb
  | varPlus i k => simp [ltLen] at hb
  | other s => simp [ltLen] at hb

theorem leBound_sound {ρ : Env} {fs : List GFact} (h : ∀ f ∈ fs, f.holds ρ) {x : String} {lo hi : Bound}
    (hb : leBound fs x lo hi = true) {a b : Int} (ha : lo.eval ρ = some a) (hbv : hi.eval ρ = some b) :
    0 ≤ a ∧ a ≤ b := by
  have hm := minLen_le h x
  cases lo <;> cases hi <;> simp only [leBound, Bool.and_eq_true, decide_eq_true_eq, Bool.false_eq_true] at hb
  · -- const, const
    simp only [Bound.eval, Option.some.injEq] at ha hbv
    omega
  · -- const, lenOf
    obtain ⟨e, hk⟩ := hb
    subst e
    simp only [Bound.eval, Option.some.injEq] at ha hbv
    omega
  · -- const, var
    have := constLeVar_sound h hb
    simp only [Bound.eval, Option.some.injEq] at ha hbv
    omega
  · -- const, lenMinus
    obtain ⟨e, hk⟩ := hb
    subst e
    simp only [Bound.eval, Option.some.injEq] at ha hbv
    omega

/-- THE soundness statement: a site the judgement accepts passes Go's run-time bounds check under every
    assignment of lengths and integers that satisfies the extracted guards -/
theorem Shape.ok_safe {ρ : Env} {fs : List GFact} (h : ∀ f ∈ fs, f.holds ρ) {x : String} {s : Shape}
    (hs : s.ok fs x = true) : s.safe ρ x := by
  cases s with
  | index b => exact ltLen_sound h hs
  | slice lo hi =>
    cases lo with
    | none =>
      cases hi with
      | none => exact ⟨0, ρ.len x, rfl, rfl, by omega, by omega, by omega⟩
      | some hi =>
        obtain ⟨n, hn, h0, h1⟩ := leLen_sound h (b := hi) hs
        exact ⟨0, n, rfl, hn, by omega, h0, h1⟩
    | some lo =>
      cases hi with
      | none =>
        obtain ⟨n, hn, h0, h1⟩ := leLen_sound h (b := lo) hs
        exact ⟨n, ρ.len x, hn, rfl, h0, h1, by omega⟩
      | some hi =>
        simp only [Shape.ok, Bool.and_eq_true] at hs
        obtain ⟨n, hn, h0, h1⟩ := leLen_sound h hs.1
        cases hl : lo.eval ρ with
        | none =>
          -- leBound accepts only constants on the left
          cases lo <;> simp [leBound] at hs <;> simp [Bound.eval] at hl
        | some a =>
          have := leBound_sound h hs.2 hl hn
          exact ⟨a, n, hl, hn, this.1, this.2, h1⟩

theorem IdxSite.ok_safe {ρ : Env} {s : IdxSite} (hk : s.opKind = .seq) (hs : s.ok = true)
    (h : ∀ f ∈ s.facts, f.holds ρ) : s.shape.safe ρ s.operand := by
  unfold IdxSite.ok at hs
  rw [hk] at hs
  exact Shape.ok_safe h hs

/-! ## 2. hasPort / CanonicalHost never index out of range -/

theorem count_pos_ne_nil {c : Nat} {s : Str} (h : Host.count c s ≠ 0) : s ≠ [] := by
  intro e
  subst e
  simp [Host.count] at h

theorem hasPortG_total (h : Str) : hasPortG h = .ok (Host.hasPort h) := by
  unfold hasPortG Host.hasPort
  simp only
  by_cases h0 : Host.count colon h = 0
  · simp [h0]
  · by_cases h1 : Host.count colon h = 1
    · simp [h1]
    · simp only [h0, h1, if_false]
      have hne := count_pos_ne_nil h0
      cases h with
      | nil => exact absurd rfl hne
      | cons c rest =>
        simp only [goIndex, List.getElem?_cons_zero, List.head?_cons]
        congr 1
        by_cases e : c = Host.lbr <;> simp [e]

theorem canonicalHostG_total (host : Str) : canonicalHostG host = .ok (Host.canonicalHost host) := by
  unfold canonicalHostG Host.canonicalHost
  simp only [hasPortG_total]
  cases Host.hasPort (toLower host) <;> rfl

/-- why a guard BEFORE `strings.TrimSuffix(host, ".")` says nothing about the string after it: a non-empty
    host can come out empty, and indexing that panics (the extractor drops every fact about a variable that
    is assigned) -/
theorem guard_does_not_survive_trim :
    ∃ h : Str, h ≠ [] ∧ goIndex (Host.trimDot h) 0 = .panic :=
  ⟨[dot], by decide, by decide⟩

/-! ## 3. teardown -/

theorem callStep_nonblocking {pinned : List String} {c : CloseCall} (h : c.mayWait pinned = false) (a : Nat) :
    ∃ a', callStep a c = some a' ∧ a' ≤ a := by
  cases c with
  | srvClose => exact ⟨0, rfl, Nat.zero_le _⟩
  | lnClose => exact ⟨a, rfl, Nat.le_refl _⟩
  | mutex => exact ⟨a, rfl, Nat.le_refl _⟩
  | chanClose => exact ⟨a, rfl, Nat.le_refl _⟩
  | shutdown dl =>
    cases dl with
    | true => exact ⟨a, rfl, Nat.le_refl _⟩
    | false => simp [CloseCall.mayWait] at h
  | wait w => simp [CloseCall.mayWait] at h
  | other c => exact ⟨a, rfl, Nat.le_refl _⟩

theorem closeRun_nonblocking {pinned : List String} {cs : List CloseCall}
    (h : ∀ c ∈ cs, c.mayWait pinned = false) (a : Nat) : ∃ a', closeRun cs a = some a' := by
  induction cs generalizing a with
  | nil => exact ⟨a, rfl⟩
  | cons c cs ih =>
    obtain ⟨a', ha, _⟩ := callStep_nonblocking (h c (List.mem_cons_self ..)) a
    simp only [closeRun, ha]
    exact ih (fun c hc => h c (List.mem_cons_of_mem _ hc)) a'

/-- with a Close that cannot wait, the worker's pc moves on at every turn of the worker, whatever the users do -/
theorem pstep_worker_progress {pinned : List String} {cs : List CloseCall}
    (h : ∀ c ∈ cs, c.mayWait pinned = false) (mux : Bool) (s : Tear) (hpc : s.pc < 4) :
    (pstep mux cs s .worker).pc = s.pc + 1 := by
  obtain ⟨pc, active⟩ := s
  simp only at hpc
  match pc, hpc with
  | 0, _ => rfl
  | 1, _ =>
    obtain ⟨a', ha⟩ := closeRun_nonblocking h active
    simp only [pstep, ha]
  | 2, _ => rfl
  | 3, _ => rfl

theorem pstep_user_pc (mux : Bool) (cs : List CloseCall) (s : Tear) : (pstep mux cs s .userFinishes).pc = s.pc := rfl

theorem pstep_worker_done (mux : Bool) (cs : List CloseCall) (s : Tear) (h : 4 ≤ s.pc) :
    (pstep mux cs s .worker).pc = s.pc := by
  obtain ⟨pc, active⟩ := s
  simp only at h
  match pc, h with
  | n + 4, _ => rfl

/-- pc after a run = min 4 (pc + worker turns) -/
theorem prun_pc {pinned : List String} {cs : List CloseCall} (h : ∀ c ∈ cs, c.mayWait pinned = false)
    (mux : Bool) (ls : List PLabel) (s : Tear) (hs : s.pc ≤ 4) :
    (prun mux cs s ls).pc = min 4 (s.pc + workerTicks ls) := by
  induction ls generalizing s with
  | nil => simp [prun, workerTicks]; omega
  | cons l ls ih =>
    simp only [prun, List.foldl_cons]
    cases l with
    | userFinishes =>
      have := ih (pstep mux cs s .userFinishes) (by rw [pstep_user_pc]; exact hs)
      simp only [prun] at this
      rw [this, pstep_user_pc]
      simp [workerTicks, List.filter]
    | worker =>
      by_cases h4 : s.pc < 4
      · have hp := pstep_worker_progress h mux s h4
        have := ih (pstep mux cs s .worker) (by rw [hp]; omega)
        simp only [prun] at this
        rw [this, hp]
        simp [workerTicks, List.filter]
        omega
      · have hp := pstep_worker_done mux cs s (by omega)
        have := ih (pstep mux cs s .worker) (by rw [hp]; exact hs)
        simp only [prun] at this
        rw [this, hp]
        simp [workerTicks, List.filter]
        omega

/-- a Shutdown without deadline, work connections that outlive the session (tcpMux off), one request that
    does not end: the worker never gets past pm.Close() -/
theorem prun_wedged {cs : List CloseCall} (mux : Bool) (hm : mux = false)
    (hc : ∀ a, 0 < a → closeRun cs a = none)
    (ls : List PLabel) (hu : ∀ l ∈ ls, l = .worker) (s : Tear) (hpc : s.pc ≤ 1) (ha : 0 < s.active) :
    (prun mux cs s ls).pc ≤ 1 ∧ 0 < (prun mux cs s ls).active := by
  subst hm
  induction ls generalizing s with
  | nil => exact ⟨hpc, ha⟩
  | cons l ls ih =>
    have hl : l = .worker := hu l (List.mem_cons_self ..)
    subst hl
    simp only [prun, List.foldl_cons]
    have hrest : ∀ l ∈ ls, l = .worker := fun l hl => hu l (List.mem_cons_of_mem _ hl)
    obtain ⟨pc, active⟩ := s
    simp only at hpc ha
    match pc, hpc with
    | 0, _ =>
      exact ih hrest ⟨1, active⟩ (Nat.le_refl _) ha
    | 1, _ =>
      have : pstep false cs ⟨1, active⟩ .worker = ⟨1, active⟩ := by
        simp only [pstep, hc active ha]
      rw [this]
      exact ih hrest ⟨1, active⟩ (Nat.le_refl _) ha

end UserIn
end Frp
