import Frp.Lemmas.GroupConn
/-
  Accounting of user connections in the group transition system (Frp/Model/Group.lean) with
  UNBUFFERED hand-off channels: every connection that reached a group's listener is in exactly one
  place — with the worker, with the one member that received it, or closed.
-/
namespace Frp
namespace Group
open Str

/-- connections waiting with a worker -/
def St.ik (s : St) : List Nat := s.inflight.map (·.1)
/-- connections a member received -/
def St.dk (s : St) : List Nat := s.delivered.map (·.1)

structure AInv (s : St) : Prop where
  /-- nothing is lost: an accepted connection is with the worker, with a member, or closed -/
  acct : ∀ c, c ∈ s.seen → c ∈ s.ik ∨ c ∈ s.dk ∨ c ∈ s.dropped
  sub : ∀ c, (c ∈ s.ik ∨ c ∈ s.dk ∨ c ∈ s.dropped) → c ∈ s.seen
  /-- the three places are disjoint -/
  dis1 : ∀ c, c ∈ s.ik → c ∉ s.dk ∧ c ∉ s.dropped
  dis2 : ∀ c, c ∈ s.dk → c ∉ s.dropped
  /-- a connection is received at most once, by one member -/
  once : s.dk.Nodup

theorem ainv_init (k : Kind) (allow : List Nat) : AInv (init k allow) :=
  ⟨by intro c h; simp [init] at h, by intro c h; simp [init, St.ik, St.dk] at h,
   by intro c h; simp [init, St.ik] at h, by intro c h; simp [init, St.dk] at h, by simp [init, St.dk]⟩

theorem ainv_congr {s s' : St} (h : AInv s) (h1 : s'.inflight = s.inflight) (h2 : s'.delivered = s.delivered)
    (h3 : s'.dropped = s.dropped) (h4 : s'.seen = s.seen) : AInv s' := by
  have e1 : s'.ik = s.ik := by simp [St.ik, h1]
  have e2 : s'.dk = s.dk := by simp [St.dk, h2]
  exact ⟨by rw [h4, e1, e2, h3]; exact h.acct, by rw [h4, e1, e2, h3]; exact h.sub,
         by rw [e1, e2, h3]; exact h.dis1, by rw [e2, h3]; exact h.dis2, by rw [e2]; exact h.once⟩

theorem mem_ik_of_lookup {s : St} {c g : Nat} (h : s.inflight.lookup c = some g) : c ∈ s.ik :=
  List.mem_map.2 ⟨(c, g), mem_of_lookup h, rfl⟩

theorem mem_ik_filter {l : List (Nat × Nat)} {c x : Nat} :
    x ∈ (l.filter (fun y => !(y.1 == c))).map (·.1) ↔ x ∈ l.map (·.1) ∧ x ≠ c := by
  simp only [List.mem_map, List.mem_filter]
  constructor
  · rintro ⟨y, ⟨hy, hb⟩, rfl⟩
    exact ⟨⟨y, hy, rfl⟩, by simpa using hb⟩
  · rintro ⟨⟨y, hy, rfl⟩, hne⟩
    exact ⟨y, ⟨hy, by simpa using hne⟩, rfl⟩

/-- the worker's send failed: c goes from `inflight` to `dropped` -/
theorem ainv_drop {s : St} {c g : Nat} (h : AInv s) (hc : s.inflight.lookup c = some g) {s' : St}
    (h1 : s'.inflight = s.inflight.filter (fun y => !(y.1 == c))) (h2 : s'.delivered = s.delivered)
    (h3 : s'.dropped = c :: s.dropped) (h4 : s'.seen = s.seen) : AInv s' := by
  have hik := mem_ik_of_lookup hc
  have e1 : ∀ x, x ∈ s'.ik ↔ x ∈ s.ik ∧ x ≠ c := by intro x; simp only [St.ik, h1]; exact mem_ik_filter
  have e2 : s'.dk = s.dk := by simp [St.dk, h2]
  refine ⟨?_, ?_, ?_, ?_, by rw [e2]; exact h.once⟩
  · intro x hx
    rw [h4] at hx
    by_cases hxc : x = c
    · subst hxc; exact Or.inr (Or.inr (by rw [h3]; exact List.mem_cons_self))
    · rcases h.acct x hx with a | a | a
      · exact Or.inl ((e1 x).2 ⟨a, hxc⟩)
      · exact Or.inr (Or.inl (by rw [e2]; exact a))
      · exact Or.inr (Or.inr (by rw [h3]; exact List.mem_cons_of_mem _ a))
  · intro x hx
    rw [h4]
    rcases hx with a | a | a
    · exact h.sub x (Or.inl ((e1 x).1 a).1)
    · exact h.sub x (Or.inr (Or.inl (by rw [e2] at a; exact a)))
    · rw [h3] at a
      rcases List.mem_cons.1 a with rfl | a
      · exact h.sub _ (Or.inl hik)
      · exact h.sub x (Or.inr (Or.inr a))
  · intro x hx
    obtain ⟨a, hne⟩ := (e1 x).1 hx
    refine ⟨by rw [e2]; exact (h.dis1 x a).1, ?_⟩
    rw [h3]; intro hm
    rcases List.mem_cons.1 hm with e | e
    · exact hne e
    · exact (h.dis1 x a).2 e
  · intro x hx
    rw [e2] at hx
    rw [h3]; intro hm
    rcases List.mem_cons.1 hm with e | e
    · subst e; exact (h.dis1 _ hik).1 hx
    · exact h.dis2 x hx e

/-- the hand-off completed: c goes from `inflight` to `delivered` -/
theorem ainv_deliver {s : St} {c g : Nat} {m : Str} (h : AInv s) (hc : s.inflight.lookup c = some g) {s' : St}
    (h1 : s'.inflight = s.inflight.filter (fun y => !(y.1 == c))) (h2 : s'.delivered = (c, m) :: s.delivered)
    (h3 : s'.dropped = s.dropped) (h4 : s'.seen = s.seen) : AInv s' := by
  have hik := mem_ik_of_lookup hc
  have e1 : ∀ x, x ∈ s'.ik ↔ x ∈ s.ik ∧ x ≠ c := by intro x; simp only [St.ik, h1]; exact mem_ik_filter
  have e2 : s'.dk = c :: s.dk := by simp [St.dk, h2]
  refine ⟨?_, ?_, ?_, ?_, ?_⟩
  · intro x hx
    rw [h4] at hx
    by_cases hxc : x = c
    · subst hxc; exact Or.inr (Or.inl (by rw [e2]; exact List.mem_cons_self))
    · rcases h.acct x hx with a | a | a
      · exact Or.inl ((e1 x).2 ⟨a, hxc⟩)
      · exact Or.inr (Or.inl (by rw [e2]; exact List.mem_cons_of_mem _ a))
      · exact Or.inr (Or.inr (by rw [h3]; exact a))
  · intro x hx
    rw [h4]
    rcases hx with a | a | a
    · exact h.sub x (Or.inl ((e1 x).1 a).1)
    · rw [e2] at a
      rcases List.mem_cons.1 a with rfl | a
      · exact h.sub _ (Or.inl hik)
      · exact h.sub x (Or.inr (Or.inl a))
    · exact h.sub x (Or.inr (Or.inr (by rw [h3] at a; exact a)))
  · intro x hx
    obtain ⟨a, hne⟩ := (e1 x).1 hx
    refine ⟨?_, by rw [h3]; exact (h.dis1 x a).2⟩
    rw [e2]; intro hm
    rcases List.mem_cons.1 hm with e | e
    · exact hne e
    · exact (h.dis1 x a).1 e
  · intro x hx
    rw [e2] at hx
    rw [h3]
    rcases List.mem_cons.1 hx with rfl | e
    · exact (h.dis1 _ hik).2
    · exact h.dis2 x e
  · rw [e2]
    exact List.nodup_cons.2 ⟨(h.dis1 _ hik).1, h.once⟩

/-- a new connection reaches a listener -/
theorem ainv_accept {s : St} {c g : Nat} (h : AInv s) (hc : c ∉ s.seen) {s' : St}
    (h1 : s'.inflight = (c, g) :: s.inflight) (h2 : s'.delivered = s.delivered)
    (h3 : s'.dropped = s.dropped) (h4 : s'.seen = c :: s.seen) : AInv s' := by
  have e1 : s'.ik = c :: s.ik := by simp [St.ik, h1]
  have e2 : s'.dk = s.dk := by simp [St.dk, h2]
  refine ⟨?_, ?_, ?_, ?_, by rw [e2]; exact h.once⟩
  · intro x hx
    rw [h4] at hx
    rcases List.mem_cons.1 hx with rfl | hx
    · exact Or.inl (by rw [e1]; exact List.mem_cons_self)
    · rcases h.acct x hx with a | a | a
      · exact Or.inl (by rw [e1]; exact List.mem_cons_of_mem _ a)
      · exact Or.inr (Or.inl (by rw [e2]; exact a))
      · exact Or.inr (Or.inr (by rw [h3]; exact a))
  · intro x hx
    rw [h4]
    rcases hx with a | a | a
    · rw [e1] at a
      rcases List.mem_cons.1 a with rfl | a
      · exact List.mem_cons_self
      · exact List.mem_cons_of_mem _ (h.sub x (Or.inl a))
    · exact List.mem_cons_of_mem _ (h.sub x (Or.inr (Or.inl (by rw [e2] at a; exact a))))
    · exact List.mem_cons_of_mem _ (h.sub x (Or.inr (Or.inr (by rw [h3] at a; exact a))))
  · intro x hx
    rw [e1] at hx
    rw [e2, h3]
    rcases List.mem_cons.1 hx with rfl | a
    · exact ⟨fun hm => hc (h.sub _ (Or.inr (Or.inl hm))), fun hm => hc (h.sub _ (Or.inr (Or.inr hm)))⟩
    · exact h.dis1 x a
  · intro x hx
    rw [e2] at hx; rw [h3]; exact h.dis2 x hx

theorem ainv_enter {fx : Fix} {s s' : St} {m g key : Str} {p : Params} {orc : Oracle} {gid : Nat} {r : Res}
    (hi : AInv s) (hs : enter fx s m g key p orc gid = some (s', r)) : AInv s' := by
  unfold enter at hs
  simp only at hs
  split at hs
  · split at hs
    · cases hs
    · rename_i hce; cases hs
      obtain ⟨_, _, a, b, c, d⟩ := createEp_frame2 hce
      exact ainv_congr hi a c b d
    · rename_i hce; cases hs
      obtain ⟨_, _, a, b, c, d⟩ := createEp_frame2 hce
      exact ainv_congr (s' := St.setObj _ _ _) hi a c b d
  · split at hs
    · cases hs; exact hi
    · split at hs
      · cases hs; exact hi
      · cases hs; exact ainv_congr hi rfl rfl rfl rfl

/-- **every label preserves the accounting** as long as the hand-off channels are unbuffered and empty -/
theorem ainv_step {fx : Fix} (hf : fx.closeOnFail = true) {s s' : St} {l : Label} {r : Res}
    (hi : AInv s) (hcap : s.cap = 0) (hq : ∀ gid, (s.obj gid).queue = [])
    (hs : step fx s l = some (s', r)) : AInv s' := by
  cases l with
  | lookup m g =>
    simp only [step] at hs
    (repeat' split at hs) <;> (cases hs; try exact ainv_congr hi rfl rfl rfl rfl)
  | enter m key p orc =>
    simp only [step] at hs
    split at hs
    · cases hs
    · split at hs
      · cases hs
      · refine ainv_enter ?_ hs
        exact ainv_congr hi rfl rfl rfl rfl
  | leaveL m gid =>
    simp only [step] at hs
    (repeat' split at hs) <;> (cases hs; try exact ainv_congr hi rfl rfl rfl rfl)
  | leaveG m g =>
    simp only [step] at hs
    (repeat' split at hs) <;> (cases hs; try exact ainv_congr hi rfl rfl rfl rfl)
  | leaveEdit m gid =>
    simp only [step] at hs
    (repeat' split at hs) <;> (cases hs; try exact ainv_congr hi rfl rfl rfl rfl)
  | leaveDel m =>
    simp only [step] at hs
    (repeat' split at hs) <;> (cases hs; try exact ainv_congr hi rfl rfl rfl rfl)
  | accept c gid =>
    simp only [step] at hs
    split at hs
    · cases hs
    · rename_i hcond
      cases hs
      exact ainv_accept hi (fun hm => hcond (Or.inr (Or.inr (Or.inr (Or.inr hm))))) rfl rfl rfl rfl
  | handoff c m =>
    simp only [step] at hs
    split at hs
    · cases hs
    · split at hs
      · cases hs
      · rename_i gid hlk
        split at hs
        · try simp only [hf, if_true] at hs
          cases hs
          exact ainv_drop hi hlk rfl rfl rfl rfl
        · split at hs
          · cases hs; exact ainv_deliver hi hlk rfl rfl rfl rfl
          · cases hs
  | send c =>
    simp only [step] at hs
    split at hs
    · cases hs
    · split at hs
      · cases hs
      · rename_i gid hlk
        split at hs
        · try simp only [hf, if_true] at hs
          cases hs
          exact ainv_drop hi hlk rfl rfl rfl rfl
        · split at hs
          · rename_i hlt; rw [hcap] at hlt; exact absurd hlt (Nat.not_lt_zero _)
          · cases hs
  | recv m gid =>
    simp only [step] at hs
    split at hs
    · cases hs
    · split at hs
      · cases hs
      · rename_i c q hcq
        rw [hq gid] at hcq; cases hcq
  | request gid =>
    simp only [step] at hs
    (repeat' split at hs) <;> (cases hs; try exact ainv_congr hi rfl rfl rfl rfl)
  | squat k =>
    simp only [step] at hs
    (repeat' split at hs) <;> (cases hs; try exact ainv_congr hi rfl rfl rfl rfl)
  | unsquat k =>
    simp only [step] at hs
    (repeat' split at hs) <;> (cases hs; try exact ainv_congr hi rfl rfl rfl rfl)

/-- … hence holds, together with the connection invariant, after every label sequence from a state
    with unbuffered channels -/
theorem ainv_run {fx : Fix} (hf : fx.closeOnFail = true) (ls : List Label) :
    ∀ {s s' : St}, AInv s → CInv s → s.cap = 0 → run fx s ls = some s' → AInv s' := by
  induction ls with
  | nil => intro s s' hi _ _ h; simp [run] at h; subst h; exact hi
  | cons l ls ih =>
    intro s s' hi hc hcap h
    simp only [run] at h
    split at h
    · cases h
    · rename_i s1 r hstep
      have hq : ∀ gid, (s.obj gid).queue = [] := by
        intro gid
        have := hc.bounded gid
        rw [hcap] at this
        exact List.length_eq_zero_iff.1 (Nat.le_zero.1 this)
      exact ih (ainv_step hf hi hcap hq hstep) (cinv_step hf hc hstep) (by rw [step_cap hstep]; exact hcap) h

end Group
end Frp
