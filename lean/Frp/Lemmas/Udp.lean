import Frp.Model.Udp
import Frp.Lemmas.Base64
/-
  Lemmas about the UDP tunnel model (core Lean only): frame length arithmetic and the inductive
  invariants of the forwarding machine.  The property statements are in Frp/Props/C03.lean.
-/
namespace Frp
namespace Udp
open Base64

/-! ### frame length -/

theorem digits_length_le : ∀ (k n : Nat), n < 10 ^ (k + 1) → (digits n).length ≤ k + 1 := by
  intro k
  induction k with
  | zero =>
    intro n hn
    rw [digits]
    have : n < 10 := by simpa using hn
    simp [this]
  | succ k ih =>
    intro n hn
    rw [digits]
    split
    · simp
    · have h10 : n / 10 < 10 ^ (k + 1) := by
        have : 10 ^ (k + 1 + 1) = 10 ^ (k + 1) * 10 := Nat.pow_succ _ _
        rw [this] at hn
        exact Nat.div_lt_of_lt_mul (by rw [Nat.mul_comm]; exact hn)
      have := ih (n / 10) h10
      simp only [List.length_append, List.length_cons, List.length_nil]
      omega

theorem digits_port {n : Nat} (h : n < 65536) : (digits n).length ≤ 5 :=
  digits_length_le 4 n (by omega)

theorem jsonAddr_length (a : Addr) :
    (jsonAddr a).length = 27 + a.ip.length + (digits a.port).length + a.zone.length := by
  simp only [jsonAddr, kIP, kPort, kZone, kEnd, List.length_append, List.length_cons, List.length_nil]
  omega

theorem body_length_path (b : Str) (a : Addr) (hne : b ≠ []) :
    (body (packetOf b none (some a))).length
      = frameBodyLen b.length a.ip.length (digits a.port).length a.zone.length := by
  have hc : encode b ≠ [] := fun h => hne (encode_eq_nil.1 h)
  simp only [body, packetOf, fieldC, hc, if_false, fieldA, List.append_nil, List.cons_append,
    List.nil_append, Str.joinWith, List.length_append, List.length_cons, List.length_nil,
    jsonAddr_length, encode_length, frameBodyLen]
  omega

theorem body_length_empty (a : Addr) :
    (body (packetOf [] none (some a))).length
      = 33 + a.ip.length + (digits a.port).length + a.zone.length := by
  simp only [body, packetOf, encode, fieldC, if_true, fieldA, List.append_nil, List.cons_append,
    List.nil_append, Str.joinWith, List.length_append, List.length_cons, List.length_nil,
    jsonAddr_length]
  omega

theorem fits_of_le (b : Str) (a : Addr) (h1 : a.ip.length ≤ 39) (h2 : a.port < 65536)
    (h3 : a.zone.length ≤ 15) (hn : b.length ≤ 7605) : fits (packetOf b none (some a)) = true := by
  have hd := digits_port h2
  unfold fits
  apply decide_eq_true
  unfold maxMsgLength
  by_cases hb : b = []
  · subst hb; rw [body_length_empty]; omega
  · rw [body_length_path b a hb, frameBodyLen]; omega

theorem not_fits_of_gt (b : Str) (l r : Option Addr) (hn : 7674 < b.length) :
    fits (packetOf b l r) = false := by
  have hne : b ≠ [] := by intro h; subst h; simp at hn
  have hc : encode b ≠ [] := fun h => hne (encode_eq_nil.1 h)
  unfold fits
  apply decide_eq_false
  unfold maxMsgLength
  cases l <;> cases r <;>
    simp only [body, packetOf, fieldC, hc, if_false, fieldA, List.append_nil, List.cons_append,
      List.nil_append, Str.joinWith, List.length_append, List.length_cons, List.length_nil,
      jsonAddr_length, encode_length] <;> omega

/-! ### forwarding machine: invariants -/

/-- view of a delivery on the public socket -/
def uview (e : Addr × Str) : View := (some e.1, some e.2)

theorem isBytes_iff (s : Str) : isBytes s = true ↔ bytes s := by
  simp [isBytes, bytes, List.all_eq_true]

theorem bytes_take {s : Str} (n : Nat) (h : bytes s) : bytes (s.take n) :=
  fun x hx => h x (List.mem_of_mem_take hx)

theorem view_packetOf' (b : Str) (r : Option Addr) (hb : isBytes b = true) (n : Nat) :
    view (packetOf (rd n b) none r) = (r, some (rd n b)) := by
  have := decode_encode (rd n b) (bytes_take n ((isBytes_iff b).1 hb))
  simp only [view, contentOf, packetOf, this]

/-- packets queued towards the backend: built by `ForwardUserConn` from a logged user datagram -/
def UpOK (s : St) (m : Packet) : Prop :=
  ∃ a p, (a, p) ∈ s.sent ∧ isBytes p = true ∧ m = packetOf (rd s.sbs p) none (some a)

/-- packets queued towards the users: built by a `writerFn` whose captured address is a user's -/
def DownOK (s : St) (m : Packet) : Prop :=
  ∃ a p q, (a, p) ∈ s.sent ∧ isBytes q = true ∧ m = packetOf (rd s.cbs q) none (some a)

structure Inv (s : St) : Prop where
  up : ∀ x : View, s.sentV.count x =
      (s.sSend.map view).count x + (s.cRead.map view).count x
        + (s.backendLog.map Prod.snd).count x + (s.dropUp.map Prod.snd).count x
  down : ∀ x : View, (s.replyLog.map Prod.snd).count x =
      (s.cSend.map view).count x + (s.sRead.map view).count x
        + (s.userLog.map uview).count x + (s.dropDown.map Prod.snd).count x
  sentEq : s.sentV = s.sent.map (fun e => (some e.1, some (rd s.sbs e.2)))
  socksLt : ∀ e ∈ s.socks, e.1 < s.nextSock
  socksFun : ∀ k a a', (k, a) ∈ s.socks → (k, a') ∈ s.socks → a = a'
  cmapSock : ∀ e ∈ s.cmap, (e.2, e.1) ∈ s.socks
  backendSock : ∀ e ∈ s.backendLog, (e.1, e.2.1) ∈ s.socks
  replySock : ∀ e ∈ s.replyLog, (e.1, e.2.1) ∈ s.socks
  socksUser : ∀ e ∈ s.socks, ∃ a p, e.2 = some a ∧ (a, p) ∈ s.sent
  upOK : ∀ m, (m ∈ s.sSend ∨ m ∈ s.cRead) → UpOK s m
  downOK : ∀ m, (m ∈ s.cSend ∨ m ∈ s.sRead) → DownOK s m
  noCodecUp : ∀ e ∈ s.dropUp, e.1 ≠ Drop.decodeErr ∧ e.1 ≠ Drop.nilAddr
  noCodecDown : ∀ e ∈ s.dropDown, e.1 ≠ Drop.decodeErr ∧ e.1 ≠ Drop.nilAddr

theorem inv_init (sbs cbs cap : Nat) : Inv (init sbs cbs cap) := by
  constructor <;> simp [init, UpOK, DownOK]

theorem UpOK.view {s : St} {m : Packet} (h : UpOK s m) :
    ∃ a p, (a, p) ∈ s.sent ∧ m.raddr = some a ∧ contentOf m = some (rd s.sbs p) := by
  obtain ⟨a, p, hin, hb, rfl⟩ := h
  have := view_packetOf' p (some a) hb s.sbs
  simp only [Udp.view, Prod.mk.injEq] at this
  exact ⟨a, p, hin, this.1, this.2⟩

theorem DownOK.view {s : St} {m : Packet} (h : DownOK s m) :
    ∃ a q, m.raddr = some a ∧ contentOf m = some (rd s.cbs q) := by
  obtain ⟨a, p, q, _, hb, rfl⟩ := h
  have := view_packetOf' q (some a) hb s.cbs
  simp only [Udp.view, Prod.mk.injEq] at this
  exact ⟨a, q, this.1, this.2⟩


/-! ### helper facts -/

theorem lookup_some {m : List (Option Addr × Nat)} {a : Option Addr} {k : Nat}
    (h : lookup m a = some k) : (a, k) ∈ m := by
  unfold lookup at h
  cases hf : m.find? (fun e => e.1 = a) with
  | none => rw [hf] at h; cases h
  | some e =>
    rw [hf] at h
    simp only [Option.map_some, Option.some.injEq] at h
    have h1 := List.mem_of_find?_eq_some hf
    have h2 := List.find?_some hf
    simp only [decide_eq_true_eq] at h2
    cases e with
    | mk x y => simp only at h h2; subst h; subst h2; exact h1

theorem ownerOf_some {socks : List (Nat × Option Addr)} {k : Nat} {a : Option Addr}
    (h : ownerOf socks k = some a) : (k, a) ∈ socks := by
  unfold ownerOf at h
  cases hf : socks.find? (fun e => e.1 = k) with
  | none => rw [hf] at h; cases h
  | some e =>
    rw [hf] at h
    simp only [Option.map_some, Option.some.injEq] at h
    have h1 := List.mem_of_find?_eq_some hf
    have h2 := List.find?_some hf
    simp only [decide_eq_true_eq] at h2
    cases e with
    | mk x y => simp only at h h2; subst h; subst h2; exact h1

theorem UpOK.mono {s s' : St} {m : Packet} (hs : ∀ e ∈ s.sent, e ∈ s'.sent) (hb : s'.sbs = s.sbs)
    (h : UpOK s m) : UpOK s' m := by
  obtain ⟨a, p, hin, hbytes, rfl⟩ := h
  exact ⟨a, p, hs _ hin, hbytes, by rw [hb]⟩

theorem DownOK.mono {s s' : St} {m : Packet} (hs : ∀ e ∈ s.sent, e ∈ s'.sent) (hb : s'.cbs = s.cbs)
    (h : DownOK s m) : DownOK s' m := by
  obtain ⟨a, p, q, hin, hbytes, rfl⟩ := h
  exact ⟨a, p, q, hs _ hin, hbytes, by rw [hb]⟩

/-- close a goal that is literally a field of the old invariant -/
macro "keep " h:ident : tactic =>
  `(tactic| first
    | exact ($h).up | exact ($h).down | exact ($h).sentEq | exact ($h).socksLt | exact ($h).socksFun
    | exact ($h).cmapSock | exact ($h).backendSock | exact ($h).replySock | exact ($h).socksUser
    | exact ($h).upOK | exact ($h).downOK | exact ($h).noCodecUp | exact ($h).noCodecDown)

/-! ### every label preserves the invariant -/

theorem inv_userSend {s : St} (h : Inv s) (a : Addr) (p : Str) : Inv (stepUserSend s a p) := by
  unfold stepUserSend
  split
  · exact h
  · rename_i hb
    have hb : isBytes p = true := by simpa using hb
    have hv := view_packetOf' p (some a) hb s.sbs
    have hmono : ∀ e ∈ s.sent, e ∈ s.sent ++ [(a, p)] := fun e he => List.mem_append_left _ he
    have hnew : UpOK { s with sent := s.sent ++ [(a, p)] } (packetOf (rd s.sbs p) none (some a)) :=
      ⟨a, p, by simp, hb, rfl⟩
    simp only []
    split
    · constructor
      all_goals (try keep h)
      · intro x
        have := h.up x
        simp only [List.map_append, List.count_append, List.map_cons, List.map_nil] at this ⊢
        omega
      · simp only [List.map_append, List.map_cons, List.map_nil, h.sentEq, hv]
      · intro e he
        obtain ⟨a', p', h1, h2⟩ := h.socksUser e he
        exact ⟨a', p', h1, hmono _ h2⟩
      · intro m hm
        simp only [List.mem_append, List.mem_cons, List.not_mem_nil, or_false] at hm
        rcases hm with (hm | hm) | hm
        · exact (h.upOK m (Or.inl hm)).mono hmono rfl
        · subst hm; exact hnew
        · exact (h.upOK m (Or.inr hm)).mono hmono rfl
      · intro m hm
        exact (h.downOK m hm).mono hmono rfl
    · constructor
      all_goals (try keep h)
      · intro x
        have := h.up x
        simp only [List.map_append, List.count_append, List.map_cons, List.map_nil] at this ⊢
        omega
      · simp only [List.map_append, List.map_cons, List.map_nil, h.sentEq, hv]
      · intro e he
        obtain ⟨a', p', h1, h2⟩ := h.socksUser e he
        exact ⟨a', p', h1, hmono _ h2⟩
      · intro m hm
        exact (h.upOK m hm).mono hmono rfl
      · intro m hm
        exact (h.downOK m hm).mono hmono rfl
      · intro e he
        simp only [List.mem_append, List.mem_cons, List.not_mem_nil, or_false] at he
        rcases he with he | he
        · exact h.noCodecUp e he
        · subst he; exact ⟨by simp, by simp⟩


/-- tactic: a drop entry with a reason other than decodeErr / nilAddr keeps `noCodec…` -/
theorem noCodec_append {l : List (Drop × View)} {d : Drop} {v : View}
    (h : ∀ e ∈ l, e.1 ≠ Drop.decodeErr ∧ e.1 ≠ Drop.nilAddr) (h1 : d ≠ Drop.decodeErr) (h2 : d ≠ Drop.nilAddr) :
    ∀ e ∈ l ++ [(d, v)], e.1 ≠ Drop.decodeErr ∧ e.1 ≠ Drop.nilAddr := by
  intro e he
  simp only [List.mem_append, List.mem_cons, List.not_mem_nil, or_false] at he
  rcases he with he | he
  · exact h e he
  · subst he; exact ⟨h1, h2⟩

theorem inv_s2c {s : St} (h : Inv s) : Inv (stepS2C s) := by
  unfold stepS2C
  split
  · exact h
  · rename_i m rest hq
    have hup : ∀ m', (m' ∈ rest ∨ m' ∈ s.cRead) → UpOK s m' := fun m' hm' =>
      h.upOK m' (hm'.imp (fun h1 => by rw [hq]; exact List.mem_cons_of_mem _ h1) id)
    have hcnt : ∀ x : View, s.sentV.count x =
        (if view m == x then 1 else 0) + (rest.map view).count x + (s.cRead.map view).count x
          + (s.backendLog.map Prod.snd).count x + (s.dropUp.map Prod.snd).count x := by
      intro x
      have := h.up x
      rw [hq] at this
      simp only [List.map_cons, List.count_cons] at this
      omega
    split
    · constructor
      all_goals (try keep h)
      · intro x
        have := hcnt x
        simp only [List.map_append, List.count_append, List.map_cons, List.map_nil, List.count_cons,
          List.count_nil] at this ⊢
        omega
      · exact hup
      · exact noCodec_append h.noCodecUp (by decide) (by decide)
    · split
      · constructor
        all_goals (try keep h)
        · intro x
          have := hcnt x
          simp only [List.map_append, List.count_append, List.map_cons, List.map_nil, List.count_cons,
            List.count_nil] at this ⊢
          omega
        · exact hup
        · exact noCodec_append h.noCodecUp (by decide) (by decide)
      · split
        · constructor
          all_goals (try keep h)
          · intro x
            have := hcnt x
            simp only [List.map_append, List.count_append, List.map_cons, List.map_nil, List.count_cons,
              List.count_nil] at this ⊢
            omega
          · exact hup
          · exact noCodec_append h.noCodecUp (by decide) (by decide)
        · split
          · constructor
            all_goals (try keep h)
            · intro x
              have := hcnt x
              simp only [List.map_append, List.count_append, List.map_cons, List.map_nil, List.count_cons,
                List.count_nil] at this ⊢
              omega
            · intro m' hm'
              simp only [List.mem_append, List.mem_cons, List.not_mem_nil, or_false] at hm'
              rcases hm' with hm' | hm' | hm'
              · exact hup m' (Or.inl hm')
              · exact hup m' (Or.inr hm')
              · subst hm'; exact h.upOK _ (Or.inl (by rw [hq]; exact List.mem_cons_self))
          · exact h

theorem inv_c2s {s : St} (h : Inv s) : Inv (stepC2S s) := by
  unfold stepC2S
  split
  · exact h
  · rename_i m rest hq
    have hdn : ∀ m', (m' ∈ rest ∨ m' ∈ s.sRead) → DownOK s m' := fun m' hm' =>
      h.downOK m' (hm'.imp (fun h1 => by rw [hq]; exact List.mem_cons_of_mem _ h1) id)
    have hcnt : ∀ x : View, (s.replyLog.map Prod.snd).count x =
        (if view m == x then 1 else 0) + (rest.map view).count x + (s.sRead.map view).count x
          + (s.userLog.map uview).count x + (s.dropDown.map Prod.snd).count x := by
      intro x
      have := h.down x
      rw [hq] at this
      simp only [List.map_cons, List.count_cons] at this
      omega
    split
    · constructor
      all_goals (try keep h)
      · intro x
        have := hcnt x
        simp only [List.map_append, List.count_append, List.map_cons, List.map_nil, List.count_cons,
          List.count_nil] at this ⊢
        omega
      · exact hdn
      · exact noCodec_append h.noCodecDown (by decide) (by decide)
    · split
      · constructor
        all_goals (try keep h)
        · intro x
          have := hcnt x
          simp only [List.map_append, List.count_append, List.map_cons, List.map_nil, List.count_cons,
            List.count_nil] at this ⊢
          omega
        · exact hdn
        · exact noCodec_append h.noCodecDown (by decide) (by decide)
      · split
        · constructor
          all_goals (try keep h)
          · intro x
            have := hcnt x
            simp only [List.map_append, List.count_append, List.map_cons, List.map_nil, List.count_cons,
              List.count_nil] at this ⊢
            omega
          · intro m' hm'
            simp only [List.mem_append, List.mem_cons, List.not_mem_nil, or_false] at hm'
            rcases hm' with hm' | hm' | hm'
            · exact hdn m' (Or.inl hm')
            · exact hdn m' (Or.inr hm')
            · subst hm'; exact h.downOK _ (Or.inl (by rw [hq]; exact List.mem_cons_self))
        · exact h

theorem inv_sback {s : St} (h : Inv s) : Inv (stepSback s) := by
  unfold stepSback
  split
  · exact h
  · rename_i m rest hq
    have hm : DownOK s m := h.downOK m (Or.inr (by rw [hq]; exact List.mem_cons_self))
    obtain ⟨a, q, hr, hc⟩ := hm.view
    have hdn : ∀ m', (m' ∈ s.cSend ∨ m' ∈ rest) → DownOK s m' := fun m' hm' =>
      h.downOK m' (hm'.imp id (fun h1 => by rw [hq]; exact List.mem_cons_of_mem _ h1))
    have hcnt : ∀ x : View, (s.replyLog.map Prod.snd).count x =
        (if view m == x then 1 else 0) + (s.cSend.map view).count x + (rest.map view).count x
          + (s.userLog.map uview).count x + (s.dropDown.map Prod.snd).count x := by
      intro x
      have := h.down x
      rw [hq] at this
      simp only [List.map_cons, List.count_cons] at this
      omega
    have hvm : view m = uview (a, rd s.cbs q) := by simp only [view, uview, hr, hc]
    simp only [hr, hc]
    constructor
    all_goals (try keep h)
    · intro x
      have := hcnt x
      simp only [List.map_append, List.count_append, List.map_cons, List.map_nil, List.count_cons,
        List.count_nil, hvm] at this ⊢
      omega
    · exact hdn

theorem inv_sockExit {s : St} (h : Inv s) (k : Nat) : Inv (stepSockExit s k) := by
  unfold stepSockExit
  split
  · exact h
  · split
    · constructor
      all_goals (try keep h)
      · intro e he
        exact h.cmapSock e (List.mem_filter.1 he).1
    · exact h

theorem inv_reconnect {s : St} (h : Inv s) : Inv (stepReconnect s) := by
  unfold stepReconnect
  constructor
  all_goals (try keep h)
  · intro x
    have := h.up x
    simp only [List.map_append, List.count_append, List.map_map, List.map_nil, List.count_nil] at this ⊢
    have hf : (Prod.snd ∘ fun m => (Drop.reconnect, view m)) = view := rfl
    rw [hf]; omega
  · intro x
    have := h.down x
    simp only [List.map_append, List.count_append, List.map_map, List.map_nil, List.count_nil] at this ⊢
    have hf : (Prod.snd ∘ fun m => (Drop.reconnect, view m)) = view := rfl
    rw [hf]; omega
  · intro e he; cases he
  · intro m hm
    rcases hm with hm | hm
    · exact h.upOK m (Or.inl hm)
    · cases hm
  · intro m hm
    rcases hm with hm | hm
    · cases hm
    · exact h.downOK m (Or.inr hm)
  · intro e he
    simp only [List.mem_append, List.mem_map] at he
    rcases he with he | ⟨m, _, rfl⟩
    · exact h.noCodecUp e he
    · exact ⟨by simp, by simp⟩
  · intro e he
    simp only [List.mem_append, List.mem_map] at he
    rcases he with he | ⟨m, _, rfl⟩
    · exact h.noCodecDown e he
    · exact ⟨by simp, by simp⟩


theorem inv_cfwd {s : St} (h : Inv s) (ok : Bool) : Inv (stepCfwd s ok) := by
  unfold stepCfwd
  split
  · exact h
  · rename_i m rest hq
    have hm : UpOK s m := h.upOK m (Or.inr (by rw [hq]; exact List.mem_cons_self))
    obtain ⟨a, p, hin, hr, hc⟩ := hm.view
    have hup : ∀ m', (m' ∈ s.sSend ∨ m' ∈ rest) → UpOK s m' := fun m' hm' =>
      h.upOK m' (hm'.imp id (fun h1 => by rw [hq]; exact List.mem_cons_of_mem _ h1))
    have hcnt : ∀ x : View, s.sentV.count x =
        (if view m == x then 1 else 0) + (s.sSend.map view).count x + (rest.map view).count x
          + (s.backendLog.map Prod.snd).count x + (s.dropUp.map Prod.snd).count x := by
      intro x
      have := h.up x
      rw [hq] at this
      simp only [List.map_cons, List.count_cons] at this
      omega
    simp only [hc]
    split
    · -- socket exists
      rename_i k hk
      have hks : (k, m.raddr) ∈ s.socks := h.cmapSock _ (lookup_some hk)
      split
      · constructor
        all_goals (try keep h)
        · intro x
          have := hcnt x
          simp only [List.map_append, List.count_append, List.map_cons, List.map_nil, List.count_cons,
            List.count_nil] at this ⊢
          omega
        · intro e he
          simp only [List.mem_append, List.mem_cons, List.not_mem_nil, or_false] at he
          rcases he with he | he
          · exact h.backendSock e he
          · subst he; exact hks
        · exact hup
      · constructor
        all_goals (try keep h)
        · intro x
          have := hcnt x
          simp only [List.map_append, List.count_append, List.map_cons, List.map_nil, List.count_cons,
            List.count_nil] at this ⊢
          omega
        · exact hup
        · exact noCodec_append h.noCodecUp (by decide) (by decide)
    · -- new socket
      have hlt : ∀ e ∈ (s.nextSock, m.raddr) :: s.socks, e.1 < s.nextSock + 1 := by
        intro e he
        simp only [List.mem_cons] at he
        rcases he with he | he
        · subst he; exact Nat.lt_succ_self _
        · exact Nat.lt_succ_of_lt (h.socksLt e he)
      have hfun : ∀ k a a', (k, a) ∈ (s.nextSock, m.raddr) :: s.socks →
          (k, a') ∈ (s.nextSock, m.raddr) :: s.socks → a = a' := by
        intro k a a' h1 h2
        simp only [List.mem_cons, Prod.mk.injEq] at h1 h2
        rcases h1 with ⟨hk1, ha1⟩ | h1 <;> rcases h2 with ⟨hk2, ha2⟩ | h2
        · rw [ha1, ha2]
        · have := h.socksLt _ h2; simp only at this; omega
        · have := h.socksLt _ h1; simp only at this; omega
        · exact h.socksFun k a a' h1 h2
      have hcm : ∀ e ∈ (m.raddr, s.nextSock) :: s.cmap, (e.2, e.1) ∈ (s.nextSock, m.raddr) :: s.socks := by
        intro e he
        simp only [List.mem_cons] at he
        rcases he with he | he
        · subst he; exact List.mem_cons_self
        · exact List.mem_cons_of_mem _ (h.cmapSock e he)
      have hrs : ∀ e ∈ s.replyLog, (e.1, e.2.1) ∈ (s.nextSock, m.raddr) :: s.socks :=
        fun e he => List.mem_cons_of_mem _ (h.replySock e he)
      have hsu : ∀ e ∈ (s.nextSock, m.raddr) :: s.socks, ∃ a p, e.2 = some a ∧ (a, p) ∈ s.sent := by
        intro e he
        simp only [List.mem_cons] at he
        rcases he with he | he
        · subst he; exact ⟨a, p, hr, hin⟩
        · exact h.socksUser e he
      split
      · constructor
        all_goals (try keep h)
        · intro x
          have := hcnt x
          simp only [List.map_append, List.count_append, List.map_cons, List.map_nil, List.count_cons,
            List.count_nil] at this ⊢
          omega
        · exact hlt
        · exact hfun
        · exact hcm
        · intro e he
          simp only [List.mem_append, List.mem_cons, List.not_mem_nil, or_false] at he
          rcases he with he | he
          · exact List.mem_cons_of_mem _ (h.backendSock e he)
          · subst he; exact List.mem_cons_self
        · exact hrs
        · exact hsu
        · exact hup
      · constructor
        all_goals (try keep h)
        · intro x
          have := hcnt x
          simp only [List.map_append, List.count_append, List.map_cons, List.map_nil, List.count_cons,
            List.count_nil] at this ⊢
          omega
        · exact hlt
        · exact hfun
        · exact hcm
        · exact fun e he => List.mem_cons_of_mem _ (h.backendSock e he)
        · exact hrs
        · exact hsu
        · exact hup
        · exact noCodec_append h.noCodecUp (by decide) (by decide)

theorem inv_backendReply {s : St} (h : Inv s) (k : Nat) (q : Str) : Inv (stepBackendReply s k q) := by
  unfold stepBackendReply
  split
  · exact h
  · rename_i hb
    have hb : isBytes q = true := by simpa using hb
    split
    · exact h
    · rename_i a ho
      have hks : (k, a) ∈ s.socks := ownerOf_some ho
      obtain ⟨ua, p, hua, hin⟩ := h.socksUser _ hks
      simp only at hua
      have hnew : DownOK s (packetOf (rd s.cbs q) none a) := ⟨ua, p, q, hin, hb, by rw [hua]⟩
      have hrs : ∀ e ∈ s.replyLog ++ [(k, view (packetOf (rd s.cbs q) none a))], (e.1, e.2.1) ∈ s.socks := by
        intro e he
        simp only [List.mem_append, List.mem_cons, List.not_mem_nil, or_false] at he
        rcases he with he | he
        · exact h.replySock e he
        · subst he; exact hks
      split
      · simp only []
        split
        · constructor
          all_goals (try keep h)
          · intro x
            have := h.down x
            simp only [List.map_append, List.count_append, List.map_cons, List.map_nil, List.count_cons,
              List.count_nil] at this ⊢
            omega
          · exact hrs
          · intro m' hm'
            simp only [List.mem_append, List.mem_cons, List.not_mem_nil, or_false] at hm'
            rcases hm' with (hm' | hm') | hm'
            · exact h.downOK m' (Or.inl hm')
            · subst hm'; exact hnew
            · exact h.downOK m' (Or.inr hm')
        · constructor
          all_goals (try keep h)
          · intro x
            have := h.down x
            simp only [List.map_append, List.count_append, List.map_cons, List.map_nil, List.count_cons,
              List.count_nil] at this ⊢
            omega
          · exact hrs
          · exact noCodec_append h.noCodecDown (by decide) (by decide)
      · exact h

theorem inv_step {s : St} (h : Inv s) (l : Label) : Inv (step s l) := by
  cases l with
  | userSend a p => exact inv_userSend h a p
  | s2c => exact inv_s2c h
  | cfwd ok => exact inv_cfwd h ok
  | backendReply k q => exact inv_backendReply h k q
  | c2s => exact inv_c2s h
  | sback => exact inv_sback h
  | sockExit k => exact inv_sockExit h k
  | connDie =>
    simp only [step]
    constructor
    all_goals (try keep h)
  | reconnect => exact inv_reconnect h

theorem inv_run (s : St) (h : Inv s) (ls : List Label) : Inv (run s ls) := by
  unfold run
  induction ls generalizing s with
  | nil => exact h
  | cons l ls ih => exact ih (step s l) (inv_step h l)


/-! ### where drops can come from -/

/-- addresses as they occur on the tunnel path: textual IP ≤ 39 characters (full IPv6),
    port < 65536, zone (interface name) ≤ 15 characters -/
def AddrOK (a : Addr) : Prop := a.ip.length ≤ 39 ∧ a.port < 65536 ∧ a.zone.length ≤ 15

instance (a : Addr) : Decidable (AddrOK a) := by unfold AddrOK; exact inferInstance

theorem rd_length_le (n : Nat) (p : Str) : (rd n p).length ≤ n := by
  unfold rd; rw [List.length_take]; exact Nat.min_le_left _ _

theorem UpOK.fits {s : St} {m : Packet} (h : UpOK s m) (hs : s.sbs ≤ 7605)
    (ha : ∀ e ∈ s.sent, AddrOK e.1) : fits m = true := by
  obtain ⟨a, p, hin, _, rfl⟩ := h
  have := ha _ hin
  exact fits_of_le _ a this.1 this.2.1 this.2.2 (Nat.le_trans (rd_length_le _ _) hs)

theorem DownOK.fits {s : St} {m : Packet} (h : DownOK s m) (hs : s.cbs ≤ 7605)
    (ha : ∀ e ∈ s.sent, AddrOK e.1) : fits m = true := by
  obtain ⟨a, p, q, hin, _, rfl⟩ := h
  have := ha _ hin
  exact fits_of_le _ a this.1 this.2.1 this.2.2 (Nat.le_trans (rd_length_le _ _) hs)

/-- reasons that are overload, connection loss / reconnect, or a failed write to the backend -/
def okReason : Drop → Bool
  | .sendFull | .replyFull | .connDown | .reconnect | .writeErr => true
  | _ => false

/-- hypotheses under which no datagram can kill the reader -/
def SizesOK (s : St) : Prop := s.sbs ≤ 7605 ∧ s.cbs ≤ 7605 ∧ ∀ e ∈ s.sent, AddrOK e.1

def Clean (s : St) : Prop :=
  s.cReader = true ∧ (∀ e ∈ s.dropUp, okReason e.1 = true) ∧ (∀ e ∈ s.dropDown, okReason e.1 = true)

theorem ok_append {l : List (Drop × View)} {d : Drop} {v : View}
    (h : ∀ e ∈ l, okReason e.1 = true) (h1 : okReason d = true) :
    ∀ e ∈ l ++ [(d, v)], okReason e.1 = true := by
  intro e he
  simp only [List.mem_append, List.mem_cons, List.not_mem_nil, or_false] at he
  rcases he with he | he
  · exact h e he
  · subst he; exact h1

theorem step_fixed (s : St) (l : Label) :
    (step s l).sbs = s.sbs ∧ (step s l).cbs = s.cbs ∧ ∀ e ∈ s.sent, e ∈ (step s l).sent := by
  cases l <;>
    simp only [step, stepUserSend, stepS2C, stepCfwd, stepBackendReply, stepC2S, stepSback, stepSockExit,
      stepReconnect] <;>
    (repeat' split) <;> simp_all

theorem sizes_back {s : St} {l : Label} (h : SizesOK (step s l)) : SizesOK s := by
  obtain ⟨h1, h2, h3⟩ := step_fixed s l
  exact ⟨h1 ▸ h.1, h2 ▸ h.2.1, fun e he => h.2.2 e (h3 e he)⟩

theorem clean_step {s : St} (hi : Inv s) (l : Label) (hs' : SizesOK (step s l))
    (hc : SizesOK s → Clean s) : Clean (step s l) := by
  have hs : SizesOK s := sizes_back hs'
  obtain ⟨c1, c2, c3⟩ := hc hs
  clear hs'
  cases l with
  | userSend a p =>
    simp only [step]
    unfold stepUserSend
    split
    · exact ⟨c1, c2, c3⟩
    · simp only []
      split
      · exact ⟨c1, c2, c3⟩
      · exact ⟨c1, ok_append c2 rfl, c3⟩
  | s2c =>
    simp only [step]
    unfold stepS2C
    split
    · exact ⟨c1, c2, c3⟩
    · rename_i m rest hq
      have hf : fits m = true :=
        (hi.upOK m (Or.inl (by rw [hq]; exact List.mem_cons_self))).fits hs.1 hs.2.2
      simp only [hf, Bool.not_true, Bool.false_eq_true, if_false]
      split
      · exact ⟨c1, ok_append c2 rfl, c3⟩
      · split
        · rename_i hcr; rw [c1] at hcr; exact absurd hcr (by decide)
        · split
          · exact ⟨c1, c2, c3⟩
          · exact ⟨c1, c2, c3⟩
  | cfwd ok =>
    simp only [step]
    unfold stepCfwd
    split
    · exact ⟨c1, c2, c3⟩
    · rename_i m rest hq
      have hm : UpOK s m := hi.upOK m (Or.inr (by rw [hq]; exact List.mem_cons_self))
      obtain ⟨a, p, hin, hr, hcm⟩ := hm.view
      simp only [hcm]
      repeat' split
      all_goals first
        | exact ⟨c1, c2, c3⟩
        | exact ⟨c1, ok_append c2 rfl, c3⟩
  | backendReply k q =>
    simp only [step]
    unfold stepBackendReply
    split
    · exact ⟨c1, c2, c3⟩
    · split
      · exact ⟨c1, c2, c3⟩
      · split
        · simp only []
          split
          · exact ⟨c1, c2, c3⟩
          · exact ⟨c1, c2, ok_append c3 rfl⟩
        · exact ⟨c1, c2, c3⟩
  | c2s =>
    simp only [step]
    unfold stepC2S
    split
    · exact ⟨c1, c2, c3⟩
    · rename_i m rest hq
      have hf : fits m = true :=
        (hi.downOK m (Or.inl (by rw [hq]; exact List.mem_cons_self))).fits hs.2.1 hs.2.2
      simp only [hf, Bool.not_true, Bool.false_eq_true, if_false]
      split
      · exact ⟨c1, c2, ok_append c3 rfl⟩
      · split
        · exact ⟨c1, c2, c3⟩
        · exact ⟨c1, c2, c3⟩
  | sback =>
    simp only [step]
    unfold stepSback
    split
    · exact ⟨c1, c2, c3⟩
    · rename_i m rest hq
      have hm : DownOK s m := hi.downOK m (Or.inr (by rw [hq]; exact List.mem_cons_self))
      obtain ⟨a, q, hr, hcm⟩ := hm.view
      simp only [hr, hcm]
      exact ⟨c1, c2, c3⟩
  | sockExit k =>
    simp only [step]
    unfold stepSockExit
    repeat' split
    all_goals exact ⟨c1, c2, c3⟩
  | connDie =>
    simp only [step]
    exact ⟨c1, c2, c3⟩
  | reconnect =>
    simp only [step]
    unfold stepReconnect
    refine ⟨rfl, ?_, ?_⟩
    · intro e he
      simp only [List.mem_append, List.mem_map] at he
      rcases he with he | ⟨m, _, rfl⟩
      · exact c2 e he
      · rfl
    · intro e he
      simp only [List.mem_append, List.mem_map] at he
      rcases he with he | ⟨m, _, rfl⟩
      · exact c3 e he
      · rfl

theorem clean_run (s : St) (hi : Inv s) (hc : SizesOK s → Clean s) (ls : List Label) :
    SizesOK (run s ls) → Clean (run s ls) := by
  unfold run
  induction ls generalizing s with
  | nil => exact hc
  | cons l ls ih =>
    exact ih (step s l) (inv_step hi l) (fun hs' => clean_step hi l hs' hc)

theorem clean_init (sbs cbs cap : Nat) : SizesOK (init sbs cbs cap) → Clean (init sbs cbs cap) := by
  intro _
  refine ⟨rfl, ?_, ?_⟩ <;> intro e he <;> cases he

/-- a step adds a `sendFull` / `replyFull` drop only when that queue holds `cap` messages -/
theorem drop_full_only_when_full (s : St) (l : Label) (x : View) :
    ((step s l).dropUp.count (Drop.sendFull, x) > s.dropUp.count (Drop.sendFull, x) → s.cap ≤ s.sSend.length) ∧
    ((step s l).dropDown.count (Drop.replyFull, x) > s.dropDown.count (Drop.replyFull, x) → s.cap ≤ s.cSend.length) := by
  cases l <;>
    simp only [step, stepUserSend, stepS2C, stepCfwd, stepBackendReply, stepC2S, stepSback, stepSockExit,
      stepReconnect] <;>
    (repeat' split) <;>
    simp_all [List.count_append, List.count_cons] <;> omega

end Udp
end Frp
