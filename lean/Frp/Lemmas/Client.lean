import Frp.Model.Reconcile
/-
  Lemmas about the reload diff (Frp/Model/Reconcile.lean) used by Frp/Props/C19.lean.
-/
namespace Frp
namespace C19
open Wrapper Reconcile

/-- at most one wrapper per name (pm.proxies is a Go map) -/
def NamesNodup (ws : List W) : Prop := ws.Pairwise (fun a b => a.cfg.name ≠ b.cfg.name)

/-- invariant of the manager: one wrapper per name, none of them stopped, stamps are old -/
def Inv (m : Mgr) : Prop :=
  NamesNodup m.proxies ∧ ∀ w ∈ m.proxies, w.phase ≠ .closed ∧ w.id < m.nextId

theorem hasName_iff (ws : List W) (n : Nat) : hasName ws n = true ↔ ∃ w ∈ ws, w.cfg.name = n := by
  simp [hasName, List.any_eq_true]

theorem hasName_append (a b : List W) (n : Nat) : hasName (a ++ b) n = (hasName a n || hasName b n) := by
  simp [hasName, List.any_append]

/-! ### `start (mk c id)` -/

theorem start_mk_cfg (c : Cfg) (id now : Nat) : (start (mk c id) now).1.cfg = c := by
  cases h : c.health <;> simp [start, mk, step, wantsStart, h]

theorem start_mk_id (c : Cfg) (id now : Nat) : (start (mk c id) now).1.id = id := by
  cases h : c.health <;> simp [start, mk, step, wantsStart, h]

theorem start_mk_msgs (c : Cfg) (id now : Nat) :
    (start (mk c id) now).2 = if c.health then [] else [Msg.newProxy] := by
  cases h : c.health <;> simp [start, mk, step, wantsStart, h]

theorem start_mk_phase (c : Cfg) (id now : Nat) : (start (mk c id) now).1.phase ≠ .closed := by
  cases h : c.health <;> simp [start, mk, step, wantsStart, h]

/-! ### the add loop -/

theorem addLoop_sub (id now : Nat) (cs : List Cfg) : ∀ (ws : List W) (w : W), w ∈ ws → w ∈ (addLoop id now ws cs).1 := by
  induction cs with
  | nil => intro ws w h; simpa [addLoop] using h
  | cons c cs ih =>
    intro ws w h
    simp only [addLoop]
    split
    · exact ih ws w h
    · exact ih _ w (List.mem_append_left _ h)

theorem addLoop_hasName (id now : Nat) (cs : List Cfg) (n : Nat) : ∀ (ws : List W),
    hasName (addLoop id now ws cs).1 n = (hasName ws n || cs.any (fun c => c.name == n)) := by
  induction cs with
  | nil => intro ws; simp [addLoop]
  | cons c cs ih =>
    intro ws
    simp only [addLoop]
    split
    · rename_i h
      rw [ih ws]
      by_cases hn : c.name = n
      · subst hn; simp [h]
      · have h2 : (c.name == n) = false := by simpa using hn
        simp [h2]
    · rw [ih]
      rw [hasName_append]
      have : hasName [(start (mk c id) now).1] n = (c.name == n) := by
        simp [hasName, start_mk_cfg]
      rw [this]
      simp [Bool.or_assoc]

/-- every wrapper after the add loop is an old one or a freshly stamped one for a configured entry -/
theorem addLoop_mem (id now : Nat) (cs : List Cfg) : ∀ (ws : List W) (w : W),
    w ∈ (addLoop id now ws cs).1 →
      w ∈ ws ∨ (∃ c ∈ cs, w = (start (mk c id) now).1 ∧ hasName ws c.name = false) := by
  induction cs with
  | nil => intro ws w h; left; simpa [addLoop] using h
  | cons c cs ih =>
    intro ws w h
    simp only [addLoop] at h
    split at h
    · rcases ih ws w h with h1 | ⟨c', hc', he, hn⟩
      · exact Or.inl h1
      · exact Or.inr ⟨c', List.mem_cons_of_mem _ hc', he, hn⟩
    · rename_i hnot
      rcases ih _ w h with h1 | ⟨c', hc', he, hn⟩
      · rcases List.mem_append.mp h1 with h2 | h2
        · exact Or.inl h2
        · refine Or.inr ⟨c, List.mem_cons_self, ?_, by simpa using hnot⟩
          simpa using h2
      · refine Or.inr ⟨c', List.mem_cons_of_mem _ hc', he, ?_⟩
        rw [hasName_append] at hn
        simp only [Bool.or_eq_false_iff] at hn
        exact hn.1

theorem addLoop_nodup (id now : Nat) (cs : List Cfg) : ∀ (ws : List W),
    NamesNodup ws → NamesNodup (addLoop id now ws cs).1 := by
  induction cs with
  | nil => intro ws h; simpa [addLoop] using h
  | cons c cs ih =>
    intro ws h
    simp only [addLoop]
    split
    · exact ih ws h
    · rename_i hnot
      apply ih
      unfold NamesNodup
      rw [List.pairwise_append]
      refine ⟨h, by simp, ?_⟩
      intro a ha b hb
      simp only [List.mem_singleton] at hb
      subst hb
      rw [start_mk_cfg]
      intro he
      apply hnot
      rw [hasName_iff]
      exact ⟨a, ha, he⟩

/-- the add loop never emits CloseProxy -/
theorem addLoop_events_new (id now : Nat) (cs : List Cfg) : ∀ (ws : List W) (e : Nat × Msg),
    e ∈ (addLoop id now ws cs).2 → e.2 = .newProxy := by
  induction cs with
  | nil => intro ws e h; simp [addLoop] at h
  | cons c cs ih =>
    intro ws e h
    simp only [addLoop] at h
    split at h
    · exact ih ws e h
    · rcases List.mem_append.mp h with h1 | h1
      · rw [start_mk_msgs] at h1
        cases hh : c.health <;> simp [hh] at h1
        rw [h1]
      · exact ih _ e h1

/-- NewProxy messages sent when a wrapper for this entry is started: one unless health-gated -/
def startCount : Option Cfg → Nat
  | some c => if c.health then 0 else 1
  | none => 0

/-- how many NewProxy the add loop emits for a name: one iff the name is not running, the FIRST
    entry of that name exists and is not health-gated -/
theorem addLoop_count_new (id now : Nat) (cs : List Cfg) (n : Nat) : ∀ (ws : List W),
    (addLoop id now ws cs).2.count (n, Msg.newProxy) =
      if hasName ws n then 0 else startCount (cs.find? (fun c => c.name == n)) := by
  induction cs with
  | nil => intro ws; simp [addLoop, startCount]
  | cons c cs ih =>
    intro ws
    simp only [addLoop]
    split
    · rename_i h
      rw [ih ws]
      by_cases hn : c.name = n
      · subst hn; simp [h]
      · simp [List.find?_cons, hn]
    · rename_i h
      rw [List.count_append, ih, hasName_append, start_mk_msgs]
      have h1 : hasName [(start (mk c id) now).1] n = (c.name == n) := by
        simp [hasName, start_mk_cfg]
      rw [h1]
      by_cases hn : c.name = n
      · subst hn
        simp only [Bool.not_eq_true] at h
        cases hh : c.health <;> simp [h, hh, List.find?_cons, startCount]
      · have h2 : (c.name == n) = false := by simpa using hn
        have h3 : List.count (n, Msg.newProxy) (List.map (fun m => (c.name, m)) (if c.health = true then [] else [Msg.newProxy])) = 0 := by
          cases hh : c.health <;> simp [hn]
        rw [h3, h2]
        simp [List.find?_cons, h2]

/-- when every configured name is already running the add loop does nothing -/
theorem addLoop_noop (id now : Nat) (cs : List Cfg) (ws : List W)
    (h : ∀ c ∈ cs, hasName ws c.name = true) : addLoop id now ws cs = (ws, []) := by
  induction cs with
  | nil => simp [addLoop]
  | cons c cs ih =>
    simp only [addLoop]
    rw [if_pos (h c List.mem_cons_self)]
    exact ih (fun c' hc' => h c' (List.mem_cons_of_mem _ hc'))

/-! ### the delete loop -/

theorem stopEvents_eq (ws : List W) (h : ∀ w ∈ ws, w.phase ≠ .closed) :
    stopEvents ws = ws.map (fun w => (w.cfg.name, Msg.closeProxy)) := by
  induction ws with
  | nil => simp [stopEvents]
  | cons w ws ih =>
    have hw := h w List.mem_cons_self
    have := ih (fun w' hw' => h w' (List.mem_cons_of_mem _ hw'))
    simp only [stopEvents, List.flatMap_cons, List.map_cons] at this ⊢
    rw [this]
    simp [step, hw]

theorem count_close_map (ws : List W) (hnd : NamesNodup ws) (n : Nat) :
    (ws.map (fun w => (w.cfg.name, Msg.closeProxy))).count (n, Msg.closeProxy) =
      if hasName ws n then 1 else 0 := by
  induction ws with
  | nil => simp [hasName]
  | cons w ws ih =>
    unfold NamesNodup at hnd
    rw [List.pairwise_cons] at hnd
    have := ih hnd.2
    simp only [List.map_cons, List.count_cons, this]
    by_cases hn : w.cfg.name = n
    · subst hn
      have : hasName ws w.cfg.name = false := by
        cases hh : hasName ws w.cfg.name
        · rfl
        · rw [hasName_iff] at hh
          obtain ⟨w', hw', he⟩ := hh
          exact absurd he.symm (hnd.1 w' hw')
      simp [this, hasName]
      intro x hx he
      exact hnd.1 x hx he.symm
    · have h2 : ((w.cfg.name, Msg.closeProxy) == (n, Msg.closeProxy)) = false := by simp [hn]
      simp [h2, hasName, hn]

theorem lookupLast_mem {cfgs : List Cfg} {n : Nat} {c : Cfg} (h : lookupLast cfgs n = some c) :
    c ∈ cfgs ∧ c.name = n := by
  unfold lookupLast at h
  have h1 := List.mem_of_find?_eq_some h
  have h2 := List.find?_some h
  exact ⟨by simpa using h1, by simpa using h2⟩

theorem lookupLast_none {cfgs : List Cfg} {n : Nat} (h : lookupLast cfgs n = none) :
    ∀ c ∈ cfgs, c.name ≠ n := by
  unfold lookupLast at h
  rw [List.find?_eq_none] at h
  intro c hc
  have := h c (by simpa using hc)
  simpa using this

/-- no name occurs twice with different contents (every entry is the last of its name) -/
def Consistent (cfgs : List Cfg) : Prop := ∀ c ∈ cfgs, lookupLast cfgs c.name = some c

instance (cfgs : List Cfg) : Decidable (Consistent cfgs) := by unfold Consistent; infer_instance

theorem consistent_first_eq_last {cfgs : List Cfg} (hc : Consistent cfgs) (n : Nat) :
    cfgs.find? (fun c => c.name == n) = lookupLast cfgs n := by
  cases hf : cfgs.find? (fun c => c.name == n) with
  | none =>
    rw [List.find?_eq_none] at hf
    cases hl : lookupLast cfgs n with
    | none => rfl
    | some c =>
      obtain ⟨hm, hn⟩ := lookupLast_mem hl
      exact absurd (by simpa using hn) (hf c hm)
  | some c =>
    have hm := List.mem_of_find?_eq_some hf
    have hn : c.name = n := by simpa using List.find?_some hf
    rw [← hn]
    exact (hc c hm).symm


/-! ### the repaired add loop (`cfg = proxyCfgsMap[name]`) -/

theorem lookupLast_some_of_mem {cfgs : List Cfg} {c : Cfg} (h : c ∈ cfgs) :
    ∃ c', lookupLast cfgs c.name = some c' := by
  cases hl : lookupLast cfgs c.name with
  | some c' => exact ⟨c', rfl⟩
  | none => exact absurd rfl (lookupLast_none hl c h)

theorem sel_name (all : List Cfg) (c : Cfg) : (sel all c).name = c.name := by
  unfold sel
  split
  · rename_i c' h; exact (lookupLast_mem h).2
  · rfl

/-- for an entry of the slice, `sel` is the map lookup -/
theorem sel_spec {all : List Cfg} {c : Cfg} (h : c ∈ all) : lookupLast all c.name = some (sel all c) := by
  obtain ⟨c', hc'⟩ := lookupLast_some_of_mem h
  simp [sel, hc']

theorem sel_mem {all : List Cfg} {c : Cfg} (h : c ∈ all) : sel all c ∈ all :=
  (lookupLast_mem (sel_spec h)).1

/-- the repaired loop is the old loop run on the slice with every entry replaced by the last
    entry of its name -/
theorem addLoopNew_eq (id now : Nat) (all : List Cfg) (cs : List Cfg) : ∀ (ws : List W),
    addLoopNew id now all ws cs = addLoop id now ws (cs.map (sel all)) := by
  induction cs with
  | nil => intro ws; simp [addLoopNew, addLoop]
  | cons c cs ih =>
    intro ws
    simp only [addLoopNew, List.map_cons, addLoop, sel_name]
    split
    · exact ih ws
    · rw [ih]

theorem map_sel_any (all cs : List Cfg) (n : Nat) :
    (cs.map (sel all)).any (fun c => c.name == n) = cs.any (fun c => c.name == n) := by
  induction cs with
  | nil => rfl
  | cons c cs ih => simp [List.any_cons, sel_name, ih]

/-- the first entry of a name in the replaced slice is the map entry of that name -/
theorem map_sel_find (cfgs : List Cfg) (n : Nat) :
    (cfgs.map (sel cfgs)).find? (fun c => c.name == n) = lookupLast cfgs n := by
  rw [List.find?_map]
  have hf : ((fun c => c.name == n) ∘ sel cfgs) = (fun c : Cfg => c.name == n) := by
    funext c; simp [Function.comp, sel_name]
  rw [hf]
  cases h : cfgs.find? (fun c => c.name == n) with
  | none =>
    rw [List.find?_eq_none] at h
    cases hl : lookupLast cfgs n with
    | none => rfl
    | some c =>
      obtain ⟨hm, hn⟩ := lookupLast_mem hl
      exact absurd (by simpa using hn) (h c hm)
  | some c =>
    have hm := List.mem_of_find?_eq_some h
    have hn : c.name = n := by simpa using List.find?_some h
    simp only [Option.map_some]
    rw [← hn, sel_spec hm]

end C19
end Frp
