/-
  Small list facts about `takeWhile` / `dropWhile` used by Props/C15 (core only).
-/
namespace Frp
namespace ListW

theorem mem_takeWhile {α : Type} (p : α → Bool) (l : List α) :
    ∀ x ∈ l.takeWhile p, p x = true := by
  induction l with
  | nil => intro x hx; cases hx
  | cons a as ih =>
    intro x hx
    by_cases ha : p a = true
    · simp only [List.takeWhile_cons, ha, if_true] at hx
      rcases List.mem_cons.1 hx with h | h
      · rw [h]; exact ha
      · exact ih x h
    · simp [ha] at hx

theorem takeWhile_eq_self {α : Type} (p : α → Bool) (l : List α) (h : ∀ x ∈ l, p x = true) :
    l.takeWhile p = l := by
  induction l with
  | nil => rfl
  | cons a as ih =>
    have ha := h a (List.mem_cons_self ..)
    simp only [List.takeWhile_cons, ha, if_true]
    rw [ih (fun x hx => h x (List.mem_cons_of_mem _ hx))]

theorem dropWhile_eq_nil {α : Type} (p : α → Bool) (l : List α) :
    l.dropWhile p = [] ↔ ∀ x ∈ l, p x = true := by
  induction l with
  | nil => simp
  | cons a as ih =>
    by_cases ha : p a = true
    · simp only [List.dropWhile_cons, ha, if_true, ih]
      constructor
      · intro h x hx
        rcases List.mem_cons.1 hx with h' | h'
        · rw [h']; exact ha
        · exact h x h'
      · intro h x hx; exact h x (List.mem_cons_of_mem _ hx)
    · simp only [List.dropWhile_cons, ha]
      constructor
      · intro h; cases h
      · intro h; exact absurd (h a (List.mem_cons_self ..)) ha

/-- a decomposition "everything in `pre` satisfies `p`, `s` does not" is the takeWhile/dropWhile one -/
theorem split_unique {α : Type} (p : α → Bool) (l pre post : List α) (s : α)
    (hdec : l = pre ++ s :: post) (hpre : ∀ x ∈ pre, p x = true) (hs : p s = false) :
    l.takeWhile p = pre ∧ l.dropWhile p = s :: post := by
  subst hdec
  induction pre with
  | nil => simp [hs]
  | cons x xs ih =>
    have hx := hpre x (List.mem_cons_self ..)
    have := ih (fun y hy => hpre y (List.mem_cons_of_mem _ hy))
    simp [hx, this]

theorem find_first {α : Type} (p : α → Bool) (pre post : List α) (s : α)
    (hpre : ∀ x ∈ pre, p x = true) (hs : p s = false) :
    (pre ++ s :: post).find? (fun x => !p x) = some s := by
  induction pre with
  | nil => simp [hs]
  | cons x xs ih =>
    have hx := hpre x (List.mem_cons_self ..)
    simp only [List.cons_append, List.find?_cons, hx, Bool.not_true]
    exact ih (fun y hy => hpre y (List.mem_cons_of_mem _ hy))

end ListW
end Frp
