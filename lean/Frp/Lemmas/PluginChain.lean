/-
  Small list facts about `takeWhile` / `dropWhile` used by Props/C15 (core only).
-/
namespace Frp
namespace ListW

theorem mem_takeWhile {α : Type} (p : α → Bool) (l : List α) :
    ∀ x ∈ l.takeWhile p, p x = true := by
  induction l with
  | nil => intro x hx; cases hx
  | cons a as ih =>
    intro x hx
    by_cases ha : p a = true
    · simp only [List.takeWhile_cons, ha, if_true] at hx
      rcases List.mem_cons.1 hx with h | h
      · rw [h]; exact ha
      · exact ih x h
    · simp [ha] at hx

theorem takeWhile_eq_self {α : Type} (p : α → Bool) (l : List α) (h : ∀ x ∈ l, p x = true) :
    l.takeWhile p = l := by
  induction l with
  | nil => rfl
  | cons a as ih =>
    have ha := h a (List.mem_cons_self ..)
    simp only [List.takeWhile_cons, ha, if_true]
    rw [ih (fun x hx => h x (List.mem_cons_of_mem _ hx))]

theorem dropWhile_eq_nil {α : Type} (p : α → Bool) (l : List α) :
    l.dropWhile p = [] ↔ ∀ x ∈ l, p x = true := by
  induction l with
  | nil => simp
  | cons a as ih =>
    by_cases ha : p a = true
    · simp only [List.dropWhile_cons, ha, if_true, ih]
      constructor
      · intro h x hx
        rcases List.mem_cons.1 hx with h' | h'
        · rw [h']; exact ha
        · exact h x h'
      · intro h x hx; exact h x (List.mem_cons_of_mem _ hx)
    · simp only [List.dropWhile_cons, ha]
      constructor
      · intro h; cases h
      · intro h; exact absurd (h a (List.mem_cons_self ..)) ha

/-- a decomposition "everything in `pre` satisfies `p`, `s` does not" is the takeWhile/dropWhile one -/
theorem split_unique {α : Type} (p : α → Bool) (l pre post : List α) (s : α)
    (hdec : l = pre ++ s :: post) (hpre : ∀ x ∈ pre, p x = true) (hs : p s = false) :
    l.takeWhile p = pre ∧ l.dropWhile p = s :: post := by
  subst hdec
  induction pre with
  | nil => simp [hs]
  | cons x xs ih =>
    have hx := hpre x (List.mem_cons_self ..)
    have := ih (fun y hy => hpre y (List.mem_cons_of_mem _ hy))
    simp [hx, this]

theorem find_first {α : Type} (p : α → Bool) (pre post : List α) (s : α)
    (hpre : ∀ x ∈ pre, p x = true) (hs : p s = false) :
    (pre ++ s :: post).find? (fun x => !p x) = some s := by
  induction pre with
  | nil => simp [hs]
  | cons x xs ih =>
    have hx := hpre x (List.mem_cons_self ..)
    simp only [List.cons_append, List.find?_cons, hx, Bool.not_true]
    exact ih (fun y hy => hpre y (List.mem_cons_of_mem _ hy))

/-! ### interleavings of concurrently running goroutines (each goroutine = the list of its events) -/

/-- `Interleave gs out`: `out` is a complete run of the goroutines `gs`: at every step some goroutine
    that still has events emits its next one; the run ends when all are finished. -/
inductive Interleave {α : Type} : List (List α) → List α → Prop
  | done (gs : List (List α)) : (∀ g ∈ gs, g = []) → Interleave gs []
  | step (pre post : List (List α)) (x : α) (g out : List α) :
      Interleave (pre ++ g :: post) out → Interleave (pre ++ (x :: g) :: post) (x :: out)

/-- every complete run is a permutation of all the goroutines' events: nothing lost, nothing twice -/
theorem Interleave.perm {α : Type} {gs : List (List α)} {out : List α} (h : Interleave gs out) :
    out.Perm gs.flatten := by
  induction h with
  | done gs h0 =>
    have : gs.flatten = [] := List.flatten_eq_nil_iff.2 h0
    rw [this]
  | step pre post x g out _ ih =>
    simp only [List.flatten_append, List.flatten_cons, List.cons_append] at ih ⊢
    exact (List.Perm.cons x ih).trans List.perm_middle.symm

/-- every goroutine's own events appear in its own order -/
theorem Interleave.sublist {α : Type} {gs : List (List α)} {out : List α} (h : Interleave gs out) :
    ∀ g ∈ gs, g.Sublist out := by
  induction h with
  | done gs h0 => intro g hg; rw [h0 g hg]; exact List.Sublist.slnil
  | step pre post x g out _ ih =>
    intro g' hg'
    rcases List.mem_append.1 hg' with hp | hp
    · exact (ih g' (List.mem_append.2 (Or.inl hp))).cons x
    · rcases List.mem_cons.1 hp with hp | hp
      · subst hp
        exact (ih g (List.mem_append.2 (Or.inr (List.mem_cons_self ..)))).cons_cons x
      · exact (ih g' (List.mem_append.2 (Or.inr (List.mem_cons_of_mem _ hp)))).cons x

theorem Interleave.cons_nil {α : Type} {gs : List (List α)} {out : List α} (h : Interleave gs out) :
    Interleave ([] :: gs) out := by
  induction h with
  | done gs h0 =>
    exact .done _ (fun g hg => by
      rcases List.mem_cons.1 hg with h | h
      · exact h
      · exact h0 g h)
  | step pre post x g out _ ih => exact .step ([] :: pre) post x g out ih

/-- non-vacuity: the sequential schedule (one goroutine after the other) is a run -/
theorem Interleave.sequential {α : Type} (gs : List (List α)) : Interleave gs gs.flatten := by
  induction gs with
  | nil => exact .done [] (fun _ h => by cases h)
  | cons g gs ih =>
    induction g with
    | nil => simpa using ih.cons_nil
    | cons x g ihg => exact .step [] gs x g _ ihg

end ListW
end Frp
