import Frp.Model.GroupRelease
import Frp.Props.C06
/-
  Lemmas for property C10 on http load-balancing groups (Frp/Props/C10Group.lean):
  where the members of the groups come from across `Run` / `Close` (the group's key stays what its
  founder presented), and the invariant tying the session layer (Frp/Model/GroupRelease.lean) to the
  registration layer's invariant `VhostReg.InvL`.
-/
namespace Frp
namespace GroupRel
open Str Router VhostReg

/-! ### members of the groups after a step: old members of the same group (same key) or the proxy that
        has just joined (then the group's key is the one it presented) -/

def Origin (T T' : Tab) (nm : Str) (id : Nat) (gkey : Str) : Prop :=
  ∀ n g' m, T'.G.get n = some g' → m ∈ g'.members →
    (∃ g, T.G.get n = some g ∧ m ∈ g.members ∧ g.key = g'.key) ∨ (m = (nm, id) ∧ g'.key = gkey)

def Origin0 (T T' : Tab) : Prop :=
  ∀ n g' m, T'.G.get n = some g' → m ∈ g'.members →
    ∃ g, T.G.get n = some g ∧ m ∈ g.members ∧ g.key = g'.key

theorem origin0_refl (T : Tab) : Origin0 T T := fun _ g' _ hg hm => ⟨g', hg, hm, rfl⟩

theorem origin0_of_G {T T' : Tab} (h : T'.G = T.G) : Origin0 T T' := by
  intro n g' m hg hm; rw [h] at hg; exact ⟨g', hg, hm, rfl⟩

theorem origin0_trans {A B C : Tab} (h1 : Origin0 A B) (h2 : Origin0 B C) : Origin0 A C := by
  intro n g' m hg hm
  obtain ⟨g1, hg1, hm1, e1⟩ := h2 n g' m hg hm
  obtain ⟨g0, hg0, hm0, e0⟩ := h1 n g1 m hg1 hm1
  exact ⟨g0, hg0, hm0, e0.trans e1⟩

theorem origin_of_origin0 {T T' : Tab} (h : Origin0 T T') (nm : Str) (id : Nat) (gkey : Str) :
    Origin T T' nm id gkey := fun n g' m hg hm => Or.inl (h n g' m hg hm)

theorem origin_trans {A B C : Tab} {nm : Str} {id : Nat} {gkey : Str}
    (h1 : Origin A B nm id gkey) (h2 : Origin B C nm id gkey) : Origin A C nm id gkey := by
  intro n g' m hg hm
  rcases h2 n g' m hg hm with ⟨g1, hg1, hm1, e1⟩ | hnew
  · rcases h1 n g1 m hg1 hm1 with ⟨g0, hg0, hm0, e0⟩ | ⟨e, ek⟩
    · exact Or.inl ⟨g0, hg0, hm0, e0.trans e1⟩
    · exact Or.inr ⟨e, e1 ▸ ek⟩
  · exact Or.inr hnew

theorem origin_origin0 {A B C : Tab} {nm : Str} {id : Nat} {gkey : Str}
    (h1 : Origin A B nm id gkey) (h2 : Origin0 B C) : Origin A C nm id gkey :=
  origin_trans h1 (origin_of_origin0 h2 nm id gkey)

theorem ensure_origin0 (T : Tab) (group : Str) : Origin0 T (ensureGroup T group) := by
  unfold ensureGroup
  split
  · exact origin0_refl T
  · intro n g' m hg hm
    by_cases e : n = group
    · subst e
      rw [get_set_same] at hg
      have := Option.some.inj hg; subst this
      cases hm
    · rw [get_set_other _ _ _ _ e] at hg
      exact ⟨g', hg, hm, rfl⟩

/-- a group object with members was there before `ensureGroup` -/
theorem ensure_get_members {T : Tab} {group n : Str} {g : Group}
    (hg : (ensureGroup T group).G.get n = some g) (hne : g.members ≠ []) : T.G.get n = some g := by
  unfold ensureGroup at hg
  split at hg
  · exact hg
  · by_cases e : n = group
    · subst e
      rw [get_set_same] at hg
      have := Option.some.inj hg; subst this
      exact absurd rfl hne
    · rw [get_set_other _ _ _ _ e] at hg; exact hg

theorem groupJoin_origin {T T' : Tab} {g : Group} {name group key d l u : Str} {id : Nat}
    {r : Option Err} (hget : T.G.get group = some g)
    (h : groupJoin T g name id group key d l u = (T', r)) : Origin T T' name id key := by
  unfold groupJoin at h
  split at h
  · split at h
    · simp only [Prod.mk.injEq] at h; obtain ⟨rfl, _⟩ := h
      exact origin_of_origin0 (origin0_refl _) _ _ _
    · simp only [Prod.mk.injEq] at h; obtain ⟨rfl, _⟩ := h
      intro n g' m hg hm
      dsimp only at hg
      by_cases e : n = group
      · subst e
        rw [get_set_same] at hg
        have := Option.some.inj hg; subst this
        dsimp only at hm
        simp only [List.mem_singleton] at hm
        exact Or.inr ⟨hm, rfl⟩
      · rw [get_set_other _ _ _ _ e] at hg
        exact Or.inl ⟨g', hg, hm, rfl⟩
  · split at h
    · simp only [Prod.mk.injEq] at h; obtain ⟨rfl, _⟩ := h
      exact origin_of_origin0 (origin0_refl _) _ _ _
    · split at h
      · simp only [Prod.mk.injEq] at h; obtain ⟨rfl, _⟩ := h
        exact origin_of_origin0 (origin0_refl _) _ _ _
      · rename_i hkey
        split at h
        · simp only [Prod.mk.injEq] at h; obtain ⟨rfl, _⟩ := h
          exact origin_of_origin0 (origin0_refl _) _ _ _
        · simp only [Prod.mk.injEq] at h; obtain ⟨rfl, _⟩ := h
          intro n g' m hg hm
          dsimp only at hg
          by_cases e : n = group
          · subst e
            rw [get_set_same] at hg
            have := Option.some.inj hg; subst this
            dsimp only at hm ⊢
            rcases List.mem_append.mp hm with hm' | hm'
            · exact Or.inl ⟨g, hget, hm', rfl⟩
            · simp only [List.mem_singleton] at hm'
              exact Or.inr ⟨hm', Decidable.not_not.mp hkey⟩
          · rw [get_set_other _ _ _ _ e] at hg
            exact Or.inl ⟨g', hg, hm, rfl⟩

theorem groupRegister_origin {T T' : Tab} {name group key d l u : Str} {id : Nat} {r : Option Err}
    (h : groupRegister T name id group key d l u = (T', r)) : Origin T T' name id key := by
  unfold groupRegister at h
  dsimp only at h
  obtain ⟨g, hget⟩ := ensure_get T group
  rw [hget] at h
  dsimp only at h
  exact origin_trans (origin_of_origin0 (ensure_origin0 T group) _ _ _) (groupJoin_origin hget h)

theorem groupUnRegister_origin0 (T : Tab) (name group : Str) : Origin0 T (groupUnRegister T name group) := by
  unfold groupUnRegister
  split
  · exact origin0_refl T
  · rename_i g hget
    dsimp only
    split
    · intro n g' m hg hm
      dsimp only at hg
      by_cases e : n = group
      · subst e; rw [get_set_same] at hg; cases hg
      · rw [get_set_other _ _ _ _ e] at hg; exact ⟨g', hg, hm, rfl⟩
    · intro n g' m hg hm
      dsimp only at hg
      by_cases e : n = group
      · subst e
        rw [get_set_same] at hg
        have := Option.some.inj hg; subst this
        dsimp only at hm ⊢
        exact ⟨g, hget, (List.mem_filter.mp hm).1, rfl⟩
      · rw [get_set_other _ _ _ _ e] at hg; exact ⟨g', hg, hm, rfl⟩

theorem regOne_origin {T T' : Tab} {p : Holder} {gkey d l : Str} {r : Option Err}
    (h : regOne T p gkey d l = (T', r)) : Origin T T' p.name p.id gkey := by
  unfold regOne at h
  split at h
  · exact groupRegister_origin h
  · split at h
    · simp only [Prod.mk.injEq] at h; obtain ⟨rfl, _⟩ := h
      exact origin_of_origin0 (origin0_of_G rfl) _ _ _
    · simp only [Prod.mk.injEq] at h; obtain ⟨rfl, _⟩ := h
      exact origin_of_origin0 (origin0_refl _) _ _ _

theorem unregOne_origin0 (T : Tab) (p : Holder) (d l : Str) : Origin0 T (unregOne T p d l) := by
  unfold unregOne
  split
  · exact groupUnRegister_origin0 T p.name p.group
  · exact origin0_of_G rfl

theorem claim_origin {gkey : Str} (keys : List (Str × Str)) :
    ∀ (T : Tab) (p : Holder), Origin T (claim T p gkey keys).1 p.name p.id gkey := by
  induction keys with
  | nil => intro T p; exact origin_of_origin0 (origin0_refl _) _ _ _
  | cons k rest ih =>
    intro T p
    obtain ⟨d, l⟩ := k
    unfold claim
    cases hr : regOne T p gkey d l with
    | mk T' r =>
      have h1 := regOne_origin hr
      cases r with
      | none => exact origin_trans h1 (ih T' { p with keys := p.keys ++ [(d, l)] })
      | some e => exact h1

theorem releaseKeys_origin0 (p : Holder) (ks : List (Str × Str)) :
    ∀ T : Tab, Origin0 T (releaseKeys T p ks) := by
  induction ks with
  | nil => intro T; exact origin0_refl T
  | cons k rest ih =>
    intro T
    obtain ⟨d, l⟩ := k
    unfold releaseKeys
    exact origin0_trans (unregOne_origin0 T p d l) (ih _)

theorem claim_name {gkey : Str} (keys : List (Str × Str)) :
    ∀ (T : Tab) (p : Holder), (claim T p gkey keys).2.1.name = p.name ∧ (claim T p gkey keys).2.1.id = p.id := by
  induction keys with
  | nil => intro T p; exact ⟨rfl, rfl⟩
  | cons k rest ih =>
    intro T p
    obtain ⟨d, l⟩ := k
    unfold claim
    cases hr : regOne T p gkey d l with
    | mk T' r =>
      cases r with
      | none => exact ih T' { p with keys := p.keys ++ [(d, l)] }
      | some e => exact ⟨rfl, rfl⟩

/-- `NewProxy` + `Run` (with its rollback) -/
theorem run_origin (sh : Str) (S : St) (id : Nat) (c : Cfg) :
    Origin S.tab (run sh S id c).1.tab c.name id c.groupKey := by
  unfold run
  split
  · exact origin_of_origin0 (origin0_refl _) _ _ _
  · have h1 := claim_origin (gkey := c.groupKey) (triples sh c) S.tab (holderOf id c [])
    split
    · rename_i T' p hc
      rw [hc] at h1; exact h1
    · rename_i T' p e hc
      rw [hc] at h1
      exact origin_origin0 h1 (releaseKeys_origin0 p p.keys T')

/-- `Close` -/
theorem close_origin0 (S : St) (id : Nat) : Origin0 S.tab (VhostReg.close S id).tab := by
  unfold VhostReg.close
  split
  · exact origin0_refl _
  · rename_i p _
    exact releaseKeys_origin0 p p.keys S.tab

/-! ### the invariant of the session layer -/

/-- the proxy instance of a live proxy: it holds every (domain, location) pair of its configuration -/
def holderOfRec (sh : Str) (r : Rec) : Holder := holderOf r.id r.cfg (triples sh r.cfg)

structure GInv (sh : Str) (s : GState) : Prop where
  inv   : InvL s.st.tab s.st.hs
  /-- every running instance is a live proxy's … -/
  hrec  : ∀ h ∈ s.st.hs, ∃ r ∈ s.owner, h = holderOfRec sh r
  /-- … and every live proxy has its instance running -/
  rech  : ∀ r ∈ s.owner, holderOfRec sh r ∈ s.st.hs ∧ r.name = r.cfg.name ∧ r.id < s.next
  names : s.owner.Pairwise (fun a b => a.name ≠ b.name)
  /-- the key of a group is the key every member presented -/
  keyed : ∀ n g, s.st.tab.G.get n = some g → ∀ m ∈ g.members,
            ∃ r ∈ s.owner, r.id = m.2 ∧ r.cfg.groupKey = g.key

theorem ginv_init (sh : Str) : GInv sh GState.init := by
  refine ⟨invL_empty, ?_, ?_, List.Pairwise.nil, ?_⟩
  · intro h hh; cases hh
  · intro r hr; cases hr
  · intro n g hg; simp [GState.init, St.empty, Tab.empty, Groups.get] at hg

theorem rec_name_unique {sh : Str} {s : GState} (h : GInv sh s) {a b : Rec} (ha : a ∈ s.owner)
    (hb : b ∈ s.owner) (e : a.name = b.name) : a = b :=
  unique_of_pairwise (·.name) h.names ha hb e

theorem rec_id_unique {sh : Str} {s : GState} (h : GInv sh s) {a b : Rec} (ha : a ∈ s.owner)
    (hb : b ∈ s.owner) (e : a.id = b.id) : a = b := by
  have h1 := (h.rech a ha)
  have h2 := (h.rech b hb)
  have : holderOfRec sh a = holderOfRec sh b := id_unique h.inv.ids h1.1 h2.1 e
  have hn : a.cfg.name = b.cfg.name := congrArg Holder.name this
  exact rec_name_unique h ha hb (by rw [h1.2.1, h2.2.1, hn])

theorem hs_id_lt {sh : Str} {s : GState} (h : GInv sh s) : ∀ x ∈ s.st.hs, x.id < s.next := by
  intro x hx
  obtain ⟨r, hr, e⟩ := h.hrec x hx
  rw [e]; exact (h.rech r hr).2.2

theorem next_fresh {sh : Str} {s : GState} (h : GInv sh s) :
    ¬ (s.st.hs.any (fun x => x.id = s.next)) = true := by
  intro hany
  simp only [List.any_eq_true, decide_eq_true_eq] at hany
  obtain ⟨x, hx, e⟩ := hany
  have := hs_id_lt h x hx
  omega

/-- `Control.RegisterProxy` keeps the invariant -/
theorem ginv_register {sh : Str} {s : GState} (h : GInv sh s) (sid : Nat) (c : Cfg) :
    GInv sh (s.register sh sid c).1 := by
  unfold GState.register
  split
  · exact h
  · rename_i hlive
    have hI' := inv_run sh h.inv s.next c
    have hor := run_origin sh s.st s.next c
    split
    · -- registered
      rename_i S' hr
      have hres : (run sh s.st s.next c).2 = .ok := by rw [hr]
      have hhs := C06.reg_run_ok h.inv s.next c hres
      rw [hr] at hhs hI' hor
      dsimp only at hhs hI' hor ⊢
      refine ⟨hI', ?_, ?_, ?_, ?_⟩
      · intro x hx
        rw [hhs] at hx
        rcases List.mem_cons.mp hx with rfl | hx'
        · exact ⟨_, List.mem_cons_self, rfl⟩
        · obtain ⟨r, hr', e⟩ := h.hrec x hx'
          exact ⟨r, List.mem_cons_of_mem _ hr', e⟩
      · intro r hr'
        rw [hhs]
        rcases List.mem_cons.mp hr' with rfl | hr''
        · exact ⟨List.mem_cons_self, rfl, Nat.lt_succ_self _⟩
        · obtain ⟨a, b, d⟩ := h.rech r hr''
          exact ⟨List.mem_cons_of_mem _ a, b, Nat.lt_succ_of_lt d⟩
      · refine List.pairwise_cons.mpr ⟨?_, h.names⟩
        intro r hr' e
        apply hlive
        simp only [GState.isLive, List.any_eq_true, decide_eq_true_eq]
        exact ⟨r, hr', e.symm⟩
      · intro n g hg m hm
        rcases hor n g m hg hm with ⟨g0, hg0, hm0, ek⟩ | ⟨e, ek⟩
        · obtain ⟨r, hr', e1, e2⟩ := h.keyed n g0 hg0 m hm0
          exact ⟨r, List.mem_cons_of_mem _ hr', e1, e2.trans ek⟩
        · exact ⟨_, List.mem_cons_self, by rw [e], ek.symm⟩
    · -- refused inside Run: rolled back
      rename_i S' e hr
      have hres : (run sh s.st s.next c).2 ≠ .ok := by rw [hr]; intro hc; cases hc
      have hhs := C06.reg_refused_unchanged sh s.st s.next c hres
      rw [hr] at hhs hI' hor
      dsimp only at hhs hI' hor ⊢
      refine ⟨hI', ?_, ?_, h.names, ?_⟩
      · intro x hx; rw [hhs] at hx; exact h.hrec x hx
      · intro r hr'
        obtain ⟨a, b, d⟩ := h.rech r hr'
        rw [hhs]; exact ⟨a, b, Nat.lt_succ_of_lt d⟩
      · intro n g hg m hm
        rcases hor n g m hg hm with ⟨g0, hg0, hm0, ek⟩ | ⟨e, _⟩
        · obtain ⟨r, hr', e1, e2⟩ := h.keyed n g0 hg0 m hm0
          exact ⟨r, hr', e1, e2.trans ek⟩
        · exfalso
          obtain ⟨x, hx, e1, _⟩ := hI'.gholder n g hg m hm
          rw [hhs] at hx
          have := hs_id_lt h x hx
          rw [e1, e] at this
          exact Nat.lt_irrefl _ this
    · exact h

theorem close_cases (s : GState) (sid : Nat) (name : Str) :
    (s.close sid name = s ∧ ∀ r ∈ s.owner, ¬ (r.name = name ∧ r.sid = sid)) ∨
    ∃ r ∈ s.owner, r.name = name ∧ r.sid = sid ∧
      s.close sid name = { s with st := VhostReg.close s.st r.id,
                                  owner := s.owner.filter (fun e => e.name ≠ name) } := by
  unfold GState.close
  split
  · rename_i r hf
    have hr := List.mem_of_find?_eq_some hf
    have hp := List.find?_some hf
    simp only [decide_eq_true_eq] at hp
    exact Or.inr ⟨r, hr, hp.1, hp.2, rfl⟩
  · rename_i hf
    refine Or.inl ⟨rfl, ?_⟩
    intro r hr hp
    have := List.find?_eq_none.mp hf r hr
    simp only [decide_eq_true_eq] at this
    exact this hp

/-- `Control.CloseProxy` keeps the invariant -/
theorem ginv_close {sh : Str} {s : GState} (h : GInv sh s) (sid : Nat) (name : Str) :
    GInv sh (s.close sid name) := by
  rcases close_cases s sid name with ⟨e, _⟩ | ⟨r, hr, hn, _, e⟩
  · rw [e]; exact h
  · rw [e]
    have hI' := inv_close h.inv r.id
    have hor := close_origin0 s.st r.id
    have hother : ∀ r' ∈ s.owner, r'.id ≠ r.id → r'.name ≠ name := by
      intro r' hr' hid en
      exact hid (congrArg Rec.id (rec_name_unique h hr' hr (en.trans hn.symm)))
    refine ⟨hI', ?_, ?_, List.Pairwise.filter _ h.names, ?_⟩
    · intro x hx
      obtain ⟨hx', hid⟩ := (C06.reg_close_hs s.st r.id x).mp hx
      obtain ⟨r', hr', e'⟩ := h.hrec x hx'
      refine ⟨r', List.mem_filter.mpr ⟨hr', ?_⟩, e'⟩
      have : r'.id ≠ r.id := by rw [e'] at hid; exact hid
      simpa using hother r' hr' this
    · intro r' hr'
      obtain ⟨hr'', hne⟩ := List.mem_filter.mp hr'
      have hne' : r'.name ≠ name := by simpa using hne
      obtain ⟨a, b, d⟩ := h.rech r' hr''
      refine ⟨(C06.reg_close_hs s.st r.id _).mpr ⟨a, ?_⟩, b, d⟩
      intro hid
      have : r' = r := rec_id_unique h hr'' hr hid
      exact hne' (by rw [this, hn])
    · intro n g hg m hm
      obtain ⟨g0, hg0, hm0, ek⟩ := hor n g m hg hm
      obtain ⟨r', hr', e1, e2⟩ := h.keyed n g0 hg0 m hm0
      obtain ⟨x, hx, ex, _⟩ := hI'.gholder n g hg m hm
      have hid := ((C06.reg_close_hs s.st r.id x).mp hx).2
      refine ⟨r', List.mem_filter.mpr ⟨hr', ?_⟩, e1, e2.trans ek⟩
      have : r'.id ≠ r.id := by rw [e1, ← ex]; exact hid
      simpa using hother r' hr' this

theorem ginv_closeAll {sh : Str} (sid : Nat) (ns : List Str) :
    ∀ s : GState, GInv sh s → GInv sh (ns.foldl (fun st n => st.close sid n) s) := by
  induction ns with
  | nil => intro s h; exact h
  | cons n rest ih => intro s h; exact ih _ (ginv_close h sid n)

/-- `Control.worker` keeps the invariant -/
theorem ginv_sessionEnd {sh : Str} {s : GState} (h : GInv sh s) (sid : Nat) :
    GInv sh (s.sessionEnd sid) := ginv_closeAll sid _ s h

end GroupRel
end Frp
