import Frp.Model.HttpRewrite
import Frp.Lemmas.Base64
/-
  Lemmas about the header-map algebra and the pool key of Frp/Model/HttpRewrite.lean (core only).
-/
namespace Frp
namespace HttpRewrite
open Str

/-! ### header map algebra -/

theorem get_filter (p : Str → Bool) (h : Hdr) (k : Str) :
    get (h.filter (fun e => p e.1)) k = if p k then get h k else [] := by
  induction h with
  | nil => simp [get]
  | cons e t ih =>
    obtain ⟨k', v⟩ := e
    by_cases hk : k' = k
    · subst hk
      cases hp : p k' with
      | true => simp [List.filter_cons, hp, get]
      | false =>
        simp only [List.filter_cons, hp, Bool.false_eq_true, if_false]
        rw [ih]; simp [hp]
    · cases hp : p k' with
      | true => simp only [List.filter_cons, hp, if_true, get, hk, if_false]; exact ih
      | false => simp only [List.filter_cons, hp, Bool.false_eq_true, if_false, get, hk]; exact ih

theorem get_del (h : Hdr) (k k' : Str) : get (del h k) k' = if k' = k then [] else get h k' := by
  have := get_filter (fun x => decide (x ≠ k)) h k'
  simp only [decide_not, Bool.not_eq_eq_eq_not, Bool.not_true, decide_eq_false_iff_not] at this
  unfold del
  simp only [ne_eq, decide_not]
  rw [this]
  by_cases e : k' = k <;> simp [e]

theorem get_delAll (h : Hdr) (ks : List Str) (k : Str) :
    get (delAll h ks) k = if ks.contains k then [] else get h k := by
  have := get_filter (fun x => !ks.contains x) h k
  unfold delAll
  rw [this]
  by_cases e : ks.contains k = true <;> simp [e]

theorem get_set (h : Hdr) (k v k' : Str) : get (set h k v) k' = if k' = k then [v] else get h k' := by
  unfold set
  simp only [get]
  by_cases e : k = k'
  · subst e; simp
  · have e' : ¬ k' = k := fun x => e x.symm
    simp only [e, if_false, e', get_del]

theorem get_hset (h : Hdr) (k v k' : Str) :
    get (hset h k v) k' = if k' = canonKey k then [v] else get h k' := get_set h _ v k'

/-- the value the `range`-and-`Set` loop leaves for key `k`: the last entry whose canonical key is `k` -/
def lastSet : List (Str × Str) → Str → Option Str
  | [], _ => none
  | kv :: t, k =>
    match lastSet t k with
    | some v => some v
    | none => if canonKey kv.1 = k then some kv.2 else none

theorem get_applySets (sets : List (Str × Str)) (h : Hdr) (k : Str) :
    get (applySets h sets) k = match lastSet sets k with | some v => [v] | none => get h k := by
  induction sets generalizing h with
  | nil => simp [applySets, lastSet]
  | cons kv t ih =>
    have : applySets h (kv :: t) = applySets (hset h kv.1 kv.2) t := by simp [applySets]
    rw [this, ih]
    simp only [lastSet]
    cases lastSet t k with
    | some v => rfl
    | none =>
      simp only [get_hset]
      by_cases e : canonKey kv.1 = k
      · simp [e]
      · have e' : ¬ k = canonKey kv.1 := fun x => e x.symm
        simp [e, e']

theorem lastSet_none_iff (sets : List (Str × Str)) (k : Str) :
    lastSet sets k = none ↔ ∀ kv ∈ sets, canonKey kv.1 ≠ k := by
  induction sets with
  | nil => simp [lastSet]
  | cons kv t ih =>
    simp only [lastSet, List.mem_cons, forall_eq_or_imp]
    cases hl : lastSet t k with
    | some v =>
      simp only [reduceCtorEq, false_iff, not_and]
      intro _ hall
      rw [hl] at ih
      exact absurd (ih.2 hall) (by simp)
    | none =>
      rw [hl] at ih
      by_cases e : canonKey kv.1 = k
      · simp [e]
      · simp only [e, if_false, ne_eq, not_false_eq_true, true_and, true_iff]
        exact ih.1 rfl

/-- with pairwise distinct canonical keys the loop's result is the unique matching entry -/
theorem lastSet_some_iff (sets : List (Str × Str)) (hnd : (sets.map (fun kv => canonKey kv.1)).Nodup)
    (k v : Str) : lastSet sets k = some v ↔ ∃ kv ∈ sets, canonKey kv.1 = k ∧ kv.2 = v := by
  induction sets with
  | nil => simp [lastSet]
  | cons kv t ih =>
    simp only [List.map_cons, List.nodup_cons] at hnd
    have ih := ih hnd.2
    simp only [lastSet, List.mem_cons, exists_eq_or_imp]
    cases hl : lastSet t k with
    | some w =>
      rw [hl] at ih
      have hw := ih.1
      constructor
      · intro hv
        injection hv with hv
        subst hv
        right
        -- `ih` is about `v`; restate
        exact ih.1 rfl
      · rintro (⟨hk, hv⟩ | hex)
        · exfalso
          -- the head key also occurs in the tail: contradiction with Nodup
          have : lastSet t k ≠ none := by rw [hl]; simp
          rw [Ne, lastSet_none_iff] at this
          apply this
          intro kv' hkv' hck
          apply hnd.1
          rw [hk, ← hck]
          exact List.mem_map_of_mem hkv'
        · -- `ih` instantiated at `v`
          have := ih.2 hex
          exact this
    | none =>
      rw [hl] at ih
      have hnone := (lastSet_none_iff t k).1 hl
      constructor
      · intro hv
        by_cases e : canonKey kv.1 = k
        · simp only [e, if_true] at hv
          injection hv with hv
          exact Or.inl ⟨e, hv⟩
        · simp [e] at hv
      · rintro (⟨hk, hv⟩ | ⟨kv', hkv', hck, _⟩)
        · simp [hk, hv]
        · exact absurd hck (hnone kv' hkv')

/-- **order of the map iteration is irrelevant** when the configured keys stay distinct after
    canonicalisation -/
theorem applySets_perm {s₁ s₂ : List (Str × Str)} (hp : s₁.Perm s₂)
    (hnd : (s₁.map (fun kv => canonKey kv.1)).Nodup) (h : Hdr) (k : Str) :
    get (applySets h s₁) k = get (applySets h s₂) k := by
  have hnd2 : (s₂.map (fun kv => canonKey kv.1)).Nodup := (hp.map _).nodup_iff.1 hnd
  rw [get_applySets, get_applySets]
  have key : lastSet s₁ k = lastSet s₂ k := by
    cases h1 : lastSet s₁ k with
    | some v =>
      obtain ⟨kv, hm, hk, hv⟩ := (lastSet_some_iff s₁ hnd k v).1 h1
      exact ((lastSet_some_iff s₂ hnd2 k v).2 ⟨kv, hp.mem_iff.1 hm, hk, hv⟩).symm
    | none =>
      have := (lastSet_none_iff s₁ k).1 h1
      exact ((lastSet_none_iff s₂ k).2 (fun kv hm => this kv (hp.mem_iff.2 hm))).symm
  rw [key]

/-! ### pool key -/

/-- splitting at the FIRST separator is unambiguous when the prefix has no separator -/
theorem split_first {a b x y : Str} (ha : (46 : Nat) ∉ a) (hb : (46 : Nat) ∉ b)
    (h : a ++ 46 :: x = b ++ 46 :: y) : a = b ∧ x = y := by
  induction a generalizing b with
  | nil =>
    cases b with
    | nil => simp at h; exact ⟨rfl, h⟩
    | cons c t =>
      simp only [List.nil_append, List.cons_append, List.cons.injEq] at h
      exact absurd (h.1 ▸ List.mem_cons_self) hb
  | cons c t ih =>
    cases b with
    | nil =>
      simp only [List.nil_append, List.cons_append, List.cons.injEq] at h
      exact absurd (h.1 ▸ List.mem_cons_self) ha
    | cons d u =>
      simp only [List.cons_append, List.cons.injEq] at h
      have := ih (b := u) (fun m => ha (List.mem_cons_of_mem _ m)) (fun m => hb (List.mem_cons_of_mem _ m)) h.2
      exact ⟨by rw [h.1, this.1], this.2⟩

/-- splitting at the LAST separator is unambiguous when the suffix has no separator -/
theorem split_last {a b x y : Str} (ha : (46 : Nat) ∉ a) (hb : (46 : Nat) ∉ b)
    (h : x ++ 46 :: a = y ++ 46 :: b) : x = y ∧ a = b := by
  have h' := congrArg List.reverse h
  simp only [List.reverse_append, List.reverse_cons, List.append_assoc, List.singleton_append] at h'
  have := split_first (a := a.reverse) (b := b.reverse) (by simpa using ha) (by simpa using hb) h'
  exact ⟨List.reverse_inj.1 this.2, List.reverse_inj.1 this.1⟩

/-- **the synthetic host determines (domain, location, routeUser, endpoint)** — the domain may
    contain dots, the base64 parts never do -/
theorem poolKey_injective {d l u e d' l' u' e' : Str}
    (hl : Base64.bytes l) (hu : Base64.bytes u) (he : Base64.bytes e)
    (hl' : Base64.bytes l') (hu' : Base64.bytes u') (he' : Base64.bytes e')
    (h : poolKey d l u e = poolKey d' l' u' e') : d = d' ∧ l = l' ∧ u = u' ∧ e = e' := by
  unfold poolKey at h
  -- regroup as ((d . L) . U) . E and peel from the right
  have r1 : ∀ (d L U E : Str), d ++ 46 :: (L ++ 46 :: (U ++ 46 :: E)) = (d ++ 46 :: (L ++ 46 :: U)) ++ 46 :: E := by
    intros; simp
  have r2 : ∀ (d L U : Str), d ++ 46 :: (L ++ 46 :: U) = (d ++ 46 :: L) ++ 46 :: U := by
    intros; simp
  rw [r1, r1] at h
  obtain ⟨h1, hE⟩ := split_last (Base64.encode_no_dot e he) (Base64.encode_no_dot e' he') h
  rw [r2, r2] at h1
  obtain ⟨h2, hU⟩ := split_last (Base64.encode_no_dot u hu) (Base64.encode_no_dot u' hu') h1
  obtain ⟨hd, hL⟩ := split_last (Base64.encode_no_dot l hl) (Base64.encode_no_dot l' hl') h2
  exact ⟨hd, Base64.encode_injective hl hl' hL, Base64.encode_injective hu hu' hU,
         Base64.encode_injective he he' hE⟩

end HttpRewrite
end Frp
