import Frp.Model.SshGw
/-
  Lemmas for Model/SshGw.lean: the request loop of handleNewChannel under both arithmetics, x/crypto/ssh's parsers,
  one connection as a fold.
-/
namespace Frp
namespace SshGw
open UserIn (Go NumT)
open Crash (Outcome)

theorem be32_lt (p : Str) : be32 p < 4294967296 := by
  unfold be32
  split <;> omega

/-- repaired arithmetic: no payload makes a slice expression of the loop body fail Go's check — for every capacity the
    buffer may have and either width of `int` -/
theorem handleReq_wide_never_panics (w : IntW) (typ p : Str) (cap : Nat) (h : p.length ≤ cap) :
    handleReq .wide w typ p cap ≠ .panic := by
  unfold handleReq
  split
  · intro hc; cases hc
  · rename_i hg
    have h4 : 4 < p.length := by
      apply Nat.lt_of_not_le
      intro hle
      exact hg (Or.inr hle)
    split
    · rename_i hs
      simp only [sliceOk, Bool.not_eq_true', Bool.and_eq_false_iff, decide_eq_false_iff_not] at hs
      omega
    · simp only
      split
      · intro hc; cases hc
      · split
        · rename_i hl hs
          simp only [sliceOk, Bool.not_eq_true', Bool.and_eq_false_iff, decide_eq_false_iff_not] at hs
          omega
        · intro hc; cases hc

/-- as the code is (uint32 sum, 64-bit int): the loop body panics EXACTLY for an exec request of more than four bytes
    whose length prefix is one of 0xFFFFFFFC … 0xFFFFFFFF -/
theorem handleReq_u32_panics_iff (typ p : Str) (cap : Nat) (h : p.length ≤ cap) :
    handleReq .u32 .i64 typ p cap = .panic ↔ (typ = execType ∧ 4 < p.length ∧ 4294967292 ≤ be32 p) := by
  have hb := be32_lt p
  unfold handleReq
  split
  · rename_i hg
    constructor
    · intro hc; cases hc
    · intro ⟨h1, h2, _⟩
      rcases hg with hg | hg
      · exact absurd h1 hg
      · omega
  · rename_i hg
    have h4 : 4 < p.length := by
      apply Nat.lt_of_not_le
      intro hle
      exact hg (Or.inr hle)
    have ht : typ = execType := by
      apply Classical.byContradiction
      intro hne
      exact hg (Or.inl hne)
    split
    · rename_i hs
      simp only [sliceOk, Bool.not_eq_true', Bool.and_eq_false_iff, decide_eq_false_iff_not] at hs
      omega
    · simp only [toInt, indexFits, Bool.true_and]
      split
      · rename_i hl
        constructor
        · intro hc; cases hc
        · intro ⟨_, _, h3⟩
          exfalso
          have : (4 + be32 p) % 4294967296 = 4 + be32 p - 4294967296 := by omega
          omega
      · rename_i hl
        split
        · rename_i hs
          simp only [sliceOk, Bool.not_eq_true', Bool.and_eq_false_iff, decide_eq_false_iff_not] at hs
          constructor
          · intro _
            refine ⟨ht, h4, ?_⟩
            omega
          · intro _; rfl
        · rename_i hs
          simp only [sliceOk, Bool.not_eq_true', Bool.and_eq_false_iff, decide_eq_false_iff_not, not_or, Decidable.not_not] at hs
          constructor
          · intro hc; cases hc
          · intro ⟨_, _, h3⟩
            exfalso
            omega

/-- the same code built for a 32-bit platform: `int(end)` is negative from 2^31 on, the guard passes and the index does
    not fit an int — the panic starts at the prefix 0x7FFFFFFC -/
theorem handleReq_u32_int32_panics_iff (typ p : Str) (cap : Nat) (h : p.length ≤ cap) (h31 : p.length < 2147483648) :
    handleReq .u32 .i32 typ p cap = .panic ↔ (typ = execType ∧ 4 < p.length ∧ 2147483644 ≤ be32 p) := by
  have hb := be32_lt p
  by_cases hg : typ ≠ execType ∨ p.length ≤ 4
  · simp only [handleReq, if_pos hg]
    constructor
    · intro hc; cases hc
    · intro ⟨h1, h2, _⟩
      rcases hg with hg | hg
      · exact absurd h1 hg
      · omega
  · have h4 : 4 < p.length := by
      apply Nat.lt_of_not_le
      intro hle
      exact hg (Or.inr hle)
    have ht : typ = execType := by
      apply Classical.byContradiction
      intro hne
      exact hg (Or.inl hne)
    have hs1 : sliceOk cap 0 4 = true := by
      simp only [sliceOk, Bool.and_eq_true, decide_eq_true_eq]; omega
    simp only [handleReq, if_neg hg, hs1, Bool.not_true, Bool.false_eq_true, if_false, toInt, indexFits]
    by_cases hlt : (4 + be32 p) % 4294967296 < 2147483648
    · simp only [hlt, if_true, decide_true, Bool.true_and]
      by_cases hl : (p.length : Int) < (((4 + be32 p) % 4294967296 : Nat) : Int)
      · simp only [hl, if_true]
        constructor
        · intro hc; cases hc
        · intro ⟨_, _, h3⟩
          exfalso
          omega
      · simp only [hl, if_false]
        by_cases hs : sliceOk cap 4 ((4 + be32 p) % 4294967296) = true
        · simp only [hs, Bool.not_true, Bool.false_eq_true, if_false]
          simp only [sliceOk, Bool.and_eq_true, decide_eq_true_eq] at hs
          constructor
          · intro hc; cases hc
          · intro ⟨_, _, h3⟩
            exfalso
            omega
        · simp only [hs, Bool.not_false, if_true, true_iff]
          simp only [sliceOk, Bool.and_eq_true, decide_eq_true_eq] at hs
          refine ⟨ht, h4, ?_⟩
          omega
    · simp only [hlt, if_false, decide_false, Bool.false_and, Bool.not_false, if_true]
      have hl : ¬ ((p.length : Int) < (((4 + be32 p) % 4294967296 : Nat) : Int) - 4294967296) := by omega
      simp only [hl, if_false, true_iff]
      refine ⟨ht, h4, ?_⟩
      omega

/-- the repair changes nothing below the wrap: same verdict, same extra payload -/
theorem handleReq_agree (typ p : Str) (cap : Nat) (hn : be32 p < 4294967292) :
    handleReq .u32 .i64 typ p cap = handleReq .wide .i64 typ p cap := by
  unfold handleReq
  have : (4 + be32 p) % 4294967296 = 4 + be32 p := Nat.mod_eq_of_lt (by omega)
  simp only [this, toInt, indexFits, Bool.true_and]
  split
  · rfl
  · split
    · rfl
    · have hiff : ((p.length : Int) < ((4 + be32 p : Nat) : Int)) ↔ p.length < 4 + be32 p := by omega
      by_cases hl : p.length < 4 + be32 p
      · rw [if_pos (hiff.mpr hl), if_pos hl]
      · rw [if_neg (fun hx => hl (hiff.mp hx)), if_neg hl]

/-- what is handed on is the announced number of bytes after the prefix -/
theorem handleReq_extra_spec (w : IntW) (typ p : Str) (cap : Nat) (s : Str)
    (h : handleReq .wide w typ p cap = .extra s) :
    typ = execType ∧ s = (p.drop 4).take (be32 p) ∧ s.length = be32 p := by
  unfold handleReq at h
  split at h
  · cases h
  · rename_i hg
    have ht : typ = execType := by
      apply Classical.byContradiction
      intro hne
      exact hg (Or.inl hne)
    split at h
    · cases h
    · simp only at h
      split at h
      · cases h
      · rename_i hl
        split at h
        · cases h
        · injection h with h
          refine ⟨ht, ?_, ?_⟩
          · rw [← h, List.drop_take]
            congr 1
            omega
          · rw [← h, List.length_drop, List.length_take]
            omega

/-! ## x/crypto/ssh's parsers never slice out of range -/

theorem parseStringG_total (inp : Str) : parseStringG inp ≠ .panic := by
  unfold parseStringG
  split
  · intro h; cases h
  · rename_i hl
    split
    · rename_i hs
      simp only [sliceOk, Bool.not_eq_true', Bool.and_eq_false_iff, decide_eq_false_iff_not] at hs
      omega
    · simp only
      split
      · intro h; cases h
      · rename_i hlt
        split
        · rename_i hs
          simp only [List.length_drop] at hlt hs
          simp only [sliceOk, Bool.not_eq_true', Bool.and_eq_false_iff, decide_eq_false_iff_not] at hs
          have : (inp.length - 4) % 4294967296 ≤ inp.length - 4 := Nat.mod_le _ _
          omega
        · intro h; cases h

theorem parseUint32G_total (inp : Str) : parseUint32G inp ≠ .panic := by
  unfold parseUint32G
  split
  · intro h; cases h
  · split
    · rename_i hs
      simp only [sliceOk, Bool.not_eq_true', Bool.and_eq_false_iff, decide_eq_false_iff_not] at hs
      omega
    · intro h; cases h

theorem unmarshalForwardG_total (data : Str) : unmarshalForwardG data ≠ .panic := by
  unfold unmarshalForwardG
  split
  · intro h; cases h
  · split
    · rename_i hp; exact absurd hp (parseStringG_total data)
    · intro h; cases h
    · rename_i host rest _
      split
      · rename_i hp; exact absurd hp (parseUint32G_total rest)
      · intro h; cases h
      · split <;> (intro h; cases h)

/-! ## one connection -/

theorem step_dead (t : NumT) (c : Conn) (e : Ev) : step t (c, .processDies) e = (c, .processDies) := by
  simp [step]

theorem run_dead (t : NumT) (evs : List Ev) (c : Conn) : evs.foldl (step t) (c, .processDies) = (c, .processDies) := by
  induction evs with
  | nil => rfl
  | cons e es ih => simp only [List.foldl_cons, step_dead, ih]

/-- one event under the repaired arithmetic never ends the process -/
theorem step_wide_alive (st : Conn × Outcome) (e : Ev) (h : st.2 = .alive) : (step .wide st e).2 = .alive := by
  unfold step
  simp only
  split
  · exact h
  · cases e with
    | disconnect => rfl
    | openCh _ => rfl
    | closeCh _ => rfl
    | global typ p =>
      simp only
      split
      · rfl
      · split
        · rename_i hp; exact absurd hp (unmarshalForwardG_total p)
        · rfl
        · rfl
    | chanReq ch typ p slack =>
      simp only
      split
      · rfl
      · split
        · rename_i hp
          exact absurd hp (handleReq_wide_never_panics .i64 typ p (p.length + slack) (Nat.le_add_right _ _))
        · rfl
        · rfl

theorem run_wide_alive (evs : List Ev) (st : Conn × Outcome) (h : st.2 = .alive) : (evs.foldl (step .wide) st).2 = .alive := by
  induction evs generalizing st with
  | nil => exact h
  | cons e es ih =>
    simp only [List.foldl_cons]
    exact ih _ (step_wide_alive st e h)

/-- as the code is: without a wrapping request in the script nothing dies either -/
theorem step_u32_alive (st : Conn × Outcome) (e : Ev) (h : st.2 = .alive) (hw : wrapsReq e = false) :
    (step .u32 st e).2 = .alive := by
  unfold step
  simp only
  split
  · exact h
  · cases e with
    | disconnect => rfl
    | openCh _ => rfl
    | closeCh _ => rfl
    | global typ p =>
      simp only
      split
      · rfl
      · split
        · rename_i hp; exact absurd hp (unmarshalForwardG_total p)
        · rfl
        · rfl
    | chanReq ch typ p slack =>
      simp only
      split
      · rfl
      · split
        · rename_i hp
          have := (handleReq_u32_panics_iff typ p (p.length + slack) (Nat.le_add_right _ _)).mp hp
          simp only [wrapsReq, Bool.and_eq_false_iff, decide_eq_false_iff_not] at hw
          exfalso
          rcases hw with (hw | hw) | hw
          · exact hw this.1
          · exact hw this.2.1
          · exact hw this.2.2
        · rfl
        · rfl

theorem run_u32_alive (evs : List Ev) (st : Conn × Outcome) (h : st.2 = .alive) (hw : ∀ e ∈ evs, wrapsReq e = false) :
    (evs.foldl (step .u32) st).2 = .alive := by
  induction evs generalizing st with
  | nil => exact h
  | cons e es ih =>
    simp only [List.foldl_cons]
    exact ih _ (step_u32_alive st e h (hw e (List.mem_cons_self ..))) (fun e' he' => hw e' (List.mem_cons_of_mem _ he'))

end SshGw
end Frp
