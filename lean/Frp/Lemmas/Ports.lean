import Frp.Model.Ports
/-
  Helper lemmas for the port manager model (property theorems: Frp/Props/C09.lean).
-/
namespace Frp
namespace Ports

/-! ### association lists keyed by Nat / Str -/

theorem lookup_isSome_iff {β : Type} {l : List (Nat × β)} {k : Nat} :
    (l.lookup k).isSome ↔ k ∈ l.map (·.1) := by
  induction l with
  | nil => simp
  | cons e es ih =>
    obtain ⟨a, b⟩ := e
    rw [List.lookup_cons]
    by_cases h : k = a
    · subst h; simp
    · have : (k == a) = false := by simpa using h
      simp only [this, List.map_cons, List.mem_cons]
      rw [ih]
      constructor
      · exact Or.inr
      · rintro (h' | h')
        · exact absurd h' h
        · exact h'

theorem lookup_filter_ne {β : Type} {l : List (Nat × β)} {k p : Nat} (h : k ≠ p) :
    (l.filter (fun e => e.1 ≠ p)).lookup k = l.lookup k := by
  induction l with
  | nil => rfl
  | cons e es ih =>
    obtain ⟨a, b⟩ := e
    rw [List.filter_cons]
    split
    · rw [List.lookup_cons, List.lookup_cons, ih]
    · rename_i hd
      have ha : a = p := by simpa using hd
      have hk : (k == a) = false := by rw [ha]; simpa using h
      rw [List.lookup_cons, hk, ih]

theorem lookup_filter_self {β : Type} {l : List (Nat × β)} {p : Nat} :
    (l.filter (fun e => e.1 ≠ p)).lookup p = none := by
  induction l with
  | nil => rfl
  | cons e es ih =>
    obtain ⟨a, b⟩ := e
    rw [List.filter_cons]
    split
    · rename_i hd
      have ha : ¬ a = p := by simpa using hd
      have hk : (p == a) = false := by simpa using (fun h : p = a => ha h.symm)
      rw [List.lookup_cons, hk, ih]
    · exact ih

theorem map_fst_filter {β : Type} (l : List (Nat × β)) (p : Nat) :
    (l.filter (fun e => e.1 ≠ p)).map (·.1) = (l.map (·.1)).filter (· ≠ p) := by
  induction l with
  | nil => rfl
  | cons e es ih =>
    rw [List.filter_cons]
    split
    · rename_i hd
      have ha : ¬ e.1 = p := by simpa using hd
      rw [List.map_cons, List.map_cons, List.filter_cons]
      have : decide (e.1 ≠ p) = true := by simpa using ha
      rw [if_pos this, ih]
    · rename_i hd
      have ha : e.1 = p := by simpa using hd
      rw [List.map_cons, List.filter_cons]
      have : ¬ (decide (e.1 ≠ p) = true) := by simpa using ha
      rw [if_neg this, ih]

theorem mem_of_lookup {β : Type} {l : List (Nat × β)} {k : Nat} {v : β}
    (h : l.lookup k = some v) : (k, v) ∈ l := by
  induction l with
  | nil => simp at h
  | cons e es ih =>
    obtain ⟨a, b⟩ := e
    rw [List.lookup_cons] at h
    by_cases hk : k = a
    · subst hk; simp at h; subst h; exact List.mem_cons_self
    · have : (k == a) = false := by simpa using hk
      simp only [this] at h
      exact List.mem_cons_of_mem _ (ih h)

theorem lookup_of_mem_nodup {β : Type} {l : List (Nat × β)} {k : Nat} {v : β}
    (hn : (l.map (·.1)).Nodup) (h : (k, v) ∈ l) : l.lookup k = some v := by
  induction l with
  | nil => simp at h
  | cons e es ih =>
    obtain ⟨a, b⟩ := e
    simp only [List.map_cons, List.nodup_cons] at hn
    rw [List.lookup_cons]
    rcases List.mem_cons.mp h with h1 | h2
    · injection h1 with e1 e2; subst e1; subst e2; simp
    · have hk : k ≠ a := by
        intro e
        apply hn.1
        rw [← e]
        exact List.mem_map.mpr ⟨(k, v), h2, rfl⟩
      have : (k == a) = false := by simpa using hk
      simp only [this]
      exact ih hn.2 h2

theorem str_mem_of_lookup {l : List (Str × Nat)} {k : Str} {v : Nat}
    (h : l.lookup k = some v) : (k, v) ∈ l := by
  induction l with
  | nil => simp at h
  | cons e es ih =>
    obtain ⟨a, b⟩ := e
    rw [List.lookup_cons] at h
    by_cases hk : k = a
    · subst hk; simp at h; subst h; exact List.mem_cons_self
    · have : (k == a) = false := by simpa using hk
      simp only [this] at h
      exact List.mem_cons_of_mem _ (ih h)

/-! ### the manager invariant -/

/-- free / used partition the allowed set, used has one owner per port, reserved ports are allowed -/
structure PMInv (A : List Nat) (pm : PM) : Prop where
  freeA : ∀ p ∈ pm.free, p ∈ A
  usedA : ∀ p ∈ pm.usedKeys, p ∈ A
  cover : ∀ p ∈ A, p ∈ pm.free ∨ p ∈ pm.usedKeys
  disj  : ∀ p ∈ pm.free, p ∉ pm.usedKeys
  nodup : pm.usedKeys.Nodup
  resA  : ∀ n p, (n, p) ∈ pm.reserved → p ∈ A

theorem usedBy_isSome_iff (pm : PM) (p : Nat) : (pm.usedBy p).isSome ↔ p ∈ pm.usedKeys :=
  lookup_isSome_iff

theorem usedKeys_take (pm : PM) (name : Str) (p : Nat) :
    (pm.take name p).usedKeys = p :: pm.usedKeys.filter (· ≠ p) := by
  unfold PM.take PM.usedKeys
  simp only [List.map_cons]
  rw [map_fst_filter]

theorem usedBy_take_self (pm : PM) (name : Str) (p : Nat) : (pm.take name p).usedBy p = some name := by
  simp [PM.take, PM.usedBy, List.lookup_cons]

theorem usedBy_take_other (pm : PM) (name : Str) {p q : Nat} (h : q ≠ p) :
    (pm.take name p).usedBy q = pm.usedBy q := by
  have hk : (q == p) = false := by simpa using h
  simp only [PM.take, PM.usedBy, List.lookup_cons, hk]
  exact lookup_filter_ne h

theorem new_inv (A : List Nat) : PMInv A (PM.new A) := by
  refine ⟨?_, ?_, ?_, ?_, ?_, ?_⟩ <;> simp [PM.new, PM.usedKeys, List.mem_eraseDups]

theorem take_inv {A : List Nat} {pm : PM} (h : PMInv A pm) (name : Str) {q : Nat} (hq : q ∈ A) :
    PMInv A (pm.take name q) := by
  refine ⟨?_, ?_, ?_, ?_, ?_, ?_⟩
  · intro p hp
    simp only [PM.take, List.mem_filter] at hp
    exact h.freeA p hp.1
  · intro p hp
    rw [usedKeys_take, List.mem_cons] at hp
    rcases hp with hp | hp
    · subst hp; exact hq
    · exact h.usedA p (List.mem_filter.mp hp).1
  · intro p hp
    by_cases e : p = q
    · right; rw [usedKeys_take]; subst e; exact List.mem_cons_self
    · rcases h.cover p hp with hf | hu
      · left; simp only [PM.take, List.mem_filter]; exact ⟨hf, by simpa using e⟩
      · right; rw [usedKeys_take]
        exact List.mem_cons_of_mem _ (List.mem_filter.mpr ⟨hu, by simpa using e⟩)
  · intro p hp
    simp only [PM.take, List.mem_filter] at hp
    have hne : p ≠ q := by simpa using hp.2
    rw [usedKeys_take, List.mem_cons]
    rintro (e | e)
    · exact hne e
    · exact h.disj p hp.1 (List.mem_filter.mp e).1
  · rw [usedKeys_take, List.nodup_cons]
    refine ⟨?_, h.nodup.filter _⟩
    intro hm
    have := (List.mem_filter.mp hm).2
    simp at this
  · intro n p hp
    simp only [PM.take, List.mem_cons, List.mem_filter] at hp
    rcases hp with hp | hp
    · injection hp with _ h2; subst h2; exact hq
    · exact h.resA n p hp.1

theorem usedKeys_release {pm : PM} {p : Nat} (hu : (pm.usedBy p).isSome) :
    (pm.release p).usedKeys = pm.usedKeys.filter (· ≠ p) := by
  unfold PM.release
  rw [if_pos hu]
  unfold PM.usedKeys
  simp only
  rw [map_fst_filter]

theorem release_noop {pm : PM} {p : Nat} (hu : ¬ (pm.usedBy p).isSome) : pm.release p = pm := by
  simp [PM.release, hu]

theorem release_inv {A : List Nat} {pm : PM} (h : PMInv A pm) (p : Nat) : PMInv A (pm.release p) := by
  by_cases hu : (pm.usedBy p).isSome
  · have hpk : p ∈ pm.usedKeys := (usedBy_isSome_iff pm p).mp hu
    have hfree : ∀ q, q ∈ (pm.release p).free ↔ q = p ∨ q ∈ pm.free := by
      intro q
      simp only [PM.release, hu, ↓reduceIte]
      by_cases hp : p ∈ pm.free
      · simp only [hp, ↓reduceIte]
        constructor
        · exact Or.inr
        · rintro (e | e)
          · subst e; exact hp
          · exact e
      · simp [hp]
    refine ⟨?_, ?_, ?_, ?_, ?_, ?_⟩
    · intro q hq
      rcases (hfree q).mp hq with e | e
      · subst e; exact h.usedA _ hpk
      · exact h.freeA q e
    · intro q hq
      rw [usedKeys_release hu] at hq
      exact h.usedA q (List.mem_filter.mp hq).1
    · intro q hq
      by_cases e : q = p
      · left; exact (hfree q).mpr (Or.inl e)
      · rcases h.cover q hq with hf | hk
        · left; exact (hfree q).mpr (Or.inr hf)
        · right; rw [usedKeys_release hu]; exact List.mem_filter.mpr ⟨hk, by simpa using e⟩
    · intro q hq
      rw [usedKeys_release hu]
      intro hm
      have hm' := List.mem_filter.mp hm
      have hne : q ≠ p := by simpa using hm'.2
      rcases (hfree q).mp hq with e | e
      · exact hne e
      · exact h.disj q e hm'.1
    · rw [usedKeys_release hu]; exact h.nodup.filter _
    · intro n q hq
      simp only [PM.release, hu, ↓reduceIte] at hq
      exact h.resA n q hq
  · rw [release_noop hu]; exact h

theorem release_free {pm : PM} {p : Nat} (hu : (pm.usedBy p).isSome) : p ∈ (pm.release p).free := by
  simp only [PM.release, hu, ↓reduceIte]
  by_cases hp : p ∈ pm.free
  · simp [hp]
  · simp [hp]

theorem usedBy_release_self (pm : PM) (p : Nat) : (pm.release p).usedBy p = none := by
  by_cases hu : (pm.usedBy p).isSome
  · unfold PM.release
    rw [if_pos hu]
    exact lookup_filter_self
  · rw [release_noop hu]
    cases h : pm.usedBy p with
    | none => rfl
    | some v => simp [h] at hu

theorem usedBy_release_other (pm : PM) {p q : Nat} (h : q ≠ p) :
    (pm.release p).usedBy q = pm.usedBy q := by
  by_cases hu : (pm.usedBy p).isSome
  · unfold PM.release
    rw [if_pos hu]
    exact lookup_filter_ne h
  · rw [release_noop hu]

/-- shape of every Acquire outcome: either refused with the manager untouched, or port `q` taken,
    where `q` passed the OS probe and was free or was the caller's reserved port -/
theorem acquire_cases (pm : PM) (name : Str) (port : Nat) (avail : Nat → Bool) (choice : Option Nat) :
    (∃ e, pm.acquire name port avail choice = (pm, .error e)) ∨
    (∃ q, pm.acquire name port avail choice = (pm.take name q, .ok q) ∧ avail q = true ∧
        ((q ∈ pm.free ∧ (port = 0 ∨ port = q)) ∨ (port = 0 ∧ pm.reserved.lookup name = some q))) := by
  unfold PM.acquire
  split
  · rename_i hp0
    split
    · rename_i rp hrp
      split
      · rename_i ha
        exact Or.inr ⟨rp, rfl, ha, Or.inr ⟨hp0, hrp⟩⟩
      · split
        · rename_i k
          split
          · rename_i hk
            exact Or.inr ⟨k, rfl, hk.2, Or.inl ⟨hk.1, Or.inl hp0⟩⟩
          · exact Or.inl ⟨_, rfl⟩
        · exact Or.inl ⟨_, rfl⟩
    · split
      · rename_i k
        split
        · rename_i hk
          exact Or.inr ⟨k, rfl, hk.2, Or.inl ⟨hk.1, Or.inl hp0⟩⟩
        · exact Or.inl ⟨_, rfl⟩
      · exact Or.inl ⟨_, rfl⟩
  · split
    · rename_i hf
      split
      · rename_i ha
        exact Or.inr ⟨port, rfl, ha, Or.inl ⟨hf, Or.inr rfl⟩⟩
      · exact Or.inl ⟨_, rfl⟩
    · split
      · exact Or.inl ⟨_, rfl⟩
      · exact Or.inl ⟨_, rfl⟩

theorem acquire_inv {A : List Nat} {pm : PM} (h : PMInv A pm) (name : Str) (port : Nat)
    (avail : Nat → Bool) (choice : Option Nat) : PMInv A (pm.acquire name port avail choice).1 := by
  rcases acquire_cases pm name port avail choice with ⟨e, he⟩ | ⟨q, hq, _, hsrc⟩
  · rw [he]; exact h
  · rw [hq]
    apply take_inv h
    rcases hsrc with ⟨hf, _⟩ | ⟨_, hr⟩
    · exact h.freeA q hf
    · exact h.resA name q (str_mem_of_lookup hr)

end Ports
end Frp
