import Frp.Model.StrictLoad
/- the invariant behind `C18.strict_verdict_own`: under `heldEvents` only the thread that holds the mutex
   moves past its `lock`, and while it decodes the switch equals its own strictness -/
namespace Frp
namespace StrictLoad
open Gen.TypedConf

theorem program_held (l : Load) :
    program heldEvents l =
      .lock :: .setFlag l.strict :: .top l.top l.strict :: (l.nested.map .elem ++ [.unlock]) := by
  simp [program, heldEvents, instrsOf, List.flatMap]

/-- a thread that does not hold the mutex: not started, or finished with its own verdict -/
def Idle (t : Thread) : Prop :=
  (t.rest = program heldEvents t.load ∧ t.rejected = false) ∨ (t.rest = [] ∧ t.rejected = rejects t.load)

/-- the thread that holds the mutex -/
def Hold (flag : Bool) (t : Thread) : Prop :=
  (t.rest = .setFlag t.load.strict :: .top t.load.top t.load.strict :: (t.load.nested.map .elem ++ [.unlock]) ∧
      t.rejected = false) ∨
  (flag = t.load.strict ∧ t.rest = .top t.load.top t.load.strict :: (t.load.nested.map .elem ++ [.unlock]) ∧
      t.rejected = false) ∨
  (flag = t.load.strict ∧ ∃ done todo, t.load.nested = done ++ todo ∧ t.rest = todo.map .elem ++ [.unlock] ∧
      t.rejected = (t.load.strict && (t.load.top || done.any id)))

def Inv (st : St) : Prop :=
  ∀ i t, st.threads[i]? = some t → if st.lockedBy = some i then Hold st.flag t else Idle t

theorem lt_of_getElem? {α : Type} {l : List α} {i : Nat} {a : α} (h : l[i]? = some a) : i < l.length := by
  obtain ⟨h', _⟩ := List.getElem?_eq_some_iff.mp h; exact h'

/-- what thread `j` is after thread `i`'s entry has been replaced -/
theorem get_set {l : List Thread} {i j : Nat} {t t' tj : Thread} (hi : l[i]? = some t)
    (h : (l.set i t')[j]? = some tj) : (j = i ∧ tj = t') ∨ (j ≠ i ∧ l[j]? = some tj) := by
  by_cases e : i = j
  · subst e
    rw [List.getElem?_set_self (lt_of_getElem? hi)] at h
    left; exact ⟨rfl, (Option.some.inj h).symm⟩
  · rw [List.getElem?_set_ne e] at h
    right; exact ⟨fun x => e x.symm, h⟩

theorem idle_not_instr {t : Thread} {x : Instr} {r : List Instr} (h : Idle t) (hr : t.rest = x :: r) :
    x = .lock ∧ r = .setFlag t.load.strict :: .top t.load.top t.load.strict :: (t.load.nested.map .elem ++ [.unlock]) ∧
      t.rejected = false := by
  rcases h with ⟨h1, h2⟩ | ⟨h1, _⟩
  · rw [program_held, hr] at h1
    injection h1 with a b
    exact ⟨a, b, h2⟩
  · rw [hr] at h1; cases h1

theorem map_elem_append_ne {todo : List Bool} {x : Instr} {r : List Instr}
    (h : todo.map Instr.elem ++ [Instr.unlock] = x :: r) :
    (todo = [] ∧ x = .unlock ∧ r = []) ∨ (∃ u us, todo = u :: us ∧ x = .elem u ∧ r = us.map .elem ++ [.unlock]) := by
  cases todo with
  | nil =>
    left
    simp only [List.map_nil, List.nil_append] at h
    injection h with a b
    exact ⟨rfl, a.symm, b.symm⟩
  | cons u us =>
    right
    simp only [List.map_cons, List.cons_append] at h
    injection h with a b
    exact ⟨u, us, rfl, a.symm, b.symm⟩

theorem inv_step (st : St) (i : Nat) (hinv : Inv st) : Inv (stepThread st i) := by
  cases hti : st.threads[i]? with
  | none => simp only [stepThread, hti]; exact hinv
  | some t =>
    have hi := hinv i t hti
    cases hr : t.rest with
    | nil => simp only [stepThread, hti, hr]; exact hinv
    | cons x r =>
      simp only [stepThread, hti, hr]
      cases x with
      | lock =>
        simp only [stepInstr]
        by_cases hl : st.lockedBy.isSome = true
        · rw [if_pos hl]; exact hinv
        · rw [if_neg hl]
          have hnone : st.lockedBy = none := by
            cases h : st.lockedBy with
            | none => rfl
            | some v => simp [h] at hl
          have hidle : Idle t := by simpa [hnone] using hi
          obtain ⟨_, hr2, hrej⟩ := idle_not_instr hidle hr
          intro j tj hj
          rcases get_set hti hj with ⟨e, et⟩ | ⟨e, ej⟩
          · subst e; subst et
            rw [if_pos rfl]
            left; exact ⟨hr2, hrej⟩
          · have := hinv j tj ej
            have hne : ¬ (some i = some j) := by intro h; exact e (Option.some.inj h).symm
            simpa [hnone, hne] using this
      | setFlag s =>
        simp only [stepInstr]
        by_cases hh : st.lockedBy = some i
        · have hhold : Hold st.flag t := by simpa [hh] using hi
          have : s = t.load.strict ∧ r = .top t.load.top t.load.strict :: (t.load.nested.map .elem ++ [.unlock]) ∧
              t.rejected = false := by
            rcases hhold with ⟨h1, h2⟩ | ⟨_, h1, _⟩ | ⟨_, done, todo, _, h1, _⟩
            · rw [hr] at h1; injection h1 with a b; injection a with a; exact ⟨a, b, h2⟩
            · rw [hr] at h1; injection h1 with a _; cases a
            · rw [hr] at h1
              rcases map_elem_append_ne h1.symm with ⟨_, hx, _⟩ | ⟨_, _, _, hx, _⟩ <;> cases hx
          obtain ⟨hs, hr2, hrej⟩ := this
          intro j tj hj
          rcases get_set hti hj with ⟨e, et⟩ | ⟨e, ej⟩
          · subst e; subst et
            simp only [hh, if_true]
            right; left; exact ⟨hs, hr2, hrej⟩
          · have := hinv j tj ej
            have hne : ¬ (some i = some j) := by intro h; exact e (Option.some.inj h).symm
            simpa [hh, hne] using this
        · have hidle : Idle t := by simpa [hh] using hi
          obtain ⟨hx, _, _⟩ := idle_not_instr hidle hr
          cases hx
      | top u s =>
        simp only [stepInstr]
        by_cases hh : st.lockedBy = some i
        · have hhold : Hold st.flag t := by simpa [hh] using hi
          have : st.flag = t.load.strict ∧ u = t.load.top ∧ s = t.load.strict ∧
              r = t.load.nested.map .elem ++ [.unlock] ∧ t.rejected = false := by
            rcases hhold with ⟨h1, _⟩ | ⟨hf, h1, h2⟩ | ⟨_, done, todo, _, h1, _⟩
            · rw [hr] at h1; injection h1 with a _; cases a
            · rw [hr] at h1; injection h1 with a b; injection a with a1 a2; exact ⟨hf, a1, a2, b, h2⟩
            · rw [hr] at h1
              rcases map_elem_append_ne h1.symm with ⟨_, hx, _⟩ | ⟨_, _, _, hx, _⟩ <;> cases hx
          obtain ⟨hf, hu, hs, hr2, hrej⟩ := this
          intro j tj hj
          rcases get_set hti hj with ⟨e, et⟩ | ⟨e, ej⟩
          · subst e; subst et
            simp only [hh, if_true]
            right; right
            refine ⟨hf, [], t.load.nested, rfl, hr2, ?_⟩
            simp [hrej, hu, hs]
          · have := hinv j tj ej
            have hne : ¬ (some i = some j) := by intro h; exact e (Option.some.inj h).symm
            simpa [hh, hne] using this
        · have hidle : Idle t := by simpa [hh] using hi
          obtain ⟨hx, _, _⟩ := idle_not_instr hidle hr
          cases hx
      | elem u =>
        simp only [stepInstr]
        by_cases hh : st.lockedBy = some i
        · have hhold : Hold st.flag t := by simpa [hh] using hi
          have : st.flag = t.load.strict ∧ ∃ done us, t.load.nested = done ++ u :: us ∧
              r = us.map .elem ++ [.unlock] ∧ t.rejected = (t.load.strict && (t.load.top || done.any id)) := by
            rcases hhold with ⟨h1, _⟩ | ⟨_, h1, _⟩ | ⟨hf, done, todo, hn, h1, h2⟩
            · rw [hr] at h1; injection h1 with a _; cases a
            · rw [hr] at h1; injection h1 with a _; cases a
            · rw [hr] at h1
              rcases map_elem_append_ne h1.symm with ⟨_, hx, _⟩ | ⟨u', us, ht, hx, hr2⟩
              · cases hx
              · injection hx with hx; subst hx; subst ht
                exact ⟨hf, done, us, hn, hr2, h2⟩
          obtain ⟨hf, done, us, hn, hr2, hrej⟩ := this
          intro j tj hj
          rcases get_set hti hj with ⟨e, et⟩ | ⟨e, ej⟩
          · subst e; subst et
            simp only [hh, if_true]
            right; right
            refine ⟨hf, done ++ [u], us, by simp [hn], hr2, ?_⟩
            simp only [hrej, hf, List.any_append, List.any_cons, List.any_nil, id, Bool.or_false]
            cases t.load.strict <;> cases t.load.top <;> cases done.any id <;> cases u <;> rfl
          · have := hinv j tj ej
            have hne : ¬ (some i = some j) := by intro h; exact e (Option.some.inj h).symm
            simpa [hh, hne] using this
        · have hidle : Idle t := by simpa [hh] using hi
          obtain ⟨hx, _, _⟩ := idle_not_instr hidle hr
          cases hx
      | unlock =>
        simp only [stepInstr]
        by_cases hh : st.lockedBy = some i
        · have hhold : Hold st.flag t := by simpa [hh] using hi
          have : r = [] ∧ t.rejected = rejects t.load := by
            rcases hhold with ⟨h1, _⟩ | ⟨_, h1, _⟩ | ⟨_, done, todo, hn, h1, h2⟩
            · rw [hr] at h1; injection h1 with a _; cases a
            · rw [hr] at h1; injection h1 with a _; cases a
            · rw [hr] at h1
              rcases map_elem_append_ne h1.symm with ⟨ht, _, hr2⟩ | ⟨_, _, _, hx, _⟩
              · subst ht
                simp only [List.append_nil] at hn
                exact ⟨hr2, by rw [h2, rejects, hn]⟩
              · cases hx
          obtain ⟨hr2, hrej⟩ := this
          intro j tj hj
          rcases get_set hti hj with ⟨e, et⟩ | ⟨e, ej⟩
          · subst e; subst et
            simp only [reduceCtorEq, if_false]
            right; exact ⟨hr2, hrej⟩
          · have := hinv j tj ej
            have hne : ¬ (some i = some j) := by intro h; exact e (Option.some.inj h).symm
            simp only [reduceCtorEq, if_false]
            simpa [hh, hne] using this
        · have hidle : Idle t := by simpa [hh] using hi
          obtain ⟨hx, _, _⟩ := idle_not_instr hidle hr
          cases hx

theorem inv_run (st : St) (sched : List Nat) (hinv : Inv st) : Inv (run st sched) := by
  induction sched generalizing st with
  | nil => exact hinv
  | cons i rest ih => exact ih (stepThread st i) (inv_step st i hinv)

theorem inv_init (flag0 : Bool) (loads : List Load) : Inv (init heldEvents flag0 loads) := by
  intro i t h
  simp only [init, List.getElem?_map] at h
  simp only [init, reduceCtorEq, if_false]
  cases hl : loads[i]? with
  | none => simp [hl] at h
  | some l =>
    simp only [hl, Option.map_some, Option.some.injEq] at h
    subst h
    left; exact ⟨rfl, rfl⟩

/-- a thread's load never changes and the number of threads stays the same -/
theorem loads_step (st : St) (i : Nat) : (stepThread st i).threads.map (·.load) = st.threads.map (·.load) := by
  cases hti : st.threads[i]? with
  | none => simp only [stepThread, hti]
  | some t =>
    obtain ⟨hlt, hget⟩ := List.getElem?_eq_some_iff.mp hti
    have key : ∀ t' : Thread, t'.load = t.load → (st.threads.set i t').map (·.load) = st.threads.map (·.load) := by
      intro t' ht
      apply List.ext_getElem?
      intro j
      simp only [List.getElem?_map, List.getElem?_set]
      by_cases e : i = j
      · subst e; simp [hlt, ht, hget]
      · simp [e]
    cases hr : t.rest with
    | nil => simp only [stepThread, hti, hr]
    | cons x r =>
      simp only [stepThread, hti, hr]
      cases x <;> simp only [stepInstr]
      · split
        · rfl
        · exact key _ rfl
      all_goals exact key _ rfl

theorem loads_run (st : St) (sched : List Nat) : (run st sched).threads.map (·.load) = st.threads.map (·.load) := by
  induction sched generalizing st with
  | nil => rfl
  | cons i rest ih => rw [run, List.foldl_cons, ← run, ih, loads_step]

end StrictLoad
end Frp
