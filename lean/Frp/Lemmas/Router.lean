import Frp.Model.Router
/-
  Helper lemmas for the router model (property theorems live in Frp/Props/C06.lean).
-/
namespace Frp
namespace Router
open Str

/-- strictly descending by location (bytewise) -/
def Desc (l : List Route) : Prop := l.Pairwise (fun a b => b.location < a.location)

/-- invariant of every reachable route table -/
structure Inv (R : Routers) : Prop where
  desc  : ∀ d u, Desc (R d u)
  keyed : ∀ d u r, r ∈ R d u → r.domain = d ∧ r.user = u
  lower : ∀ d u r, r ∈ R d u → toLower d = d

theorem lt_iff (a b : Str) : Str.lt a b = true ↔ a < b := by simp [Str.lt]

theorem str_lt_irrefl (a : Str) : ¬ a < a := List.lt_irrefl a
theorem str_lt_asymm {a b : Str} (h : a < b) : ¬ b < a := List.lt_asymm h
theorem str_lt_trans {a b c : Str} (h₁ : a < b) (h₂ : b < c) : a < c := List.lt_trans h₁ h₂
theorem str_lt_of_not_lt_of_ne {a b : Str} (h : ¬ a < b) (hne : a ≠ b) : b < a := by
  have hle : b ≤ a := List.not_lt.mp h
  rcases List.le_iff_lt_or_eq.mp hle with h | h
  · exact h
  · exact absurd h.symm hne

theorem mem_insDesc {x r : Route} {l : List Route} : x ∈ insDesc r l ↔ x = r ∨ x ∈ l := by
  induction l with
  | nil => simp [insDesc]
  | cons y ys ih =>
    unfold insDesc
    split
    · simp
    · simp only [List.mem_cons, ih]
      constructor
      · rintro (h | h | h)
        · exact Or.inr (Or.inl h)
        · exact Or.inl h
        · exact Or.inr (Or.inr h)
      · rintro (h | h | h)
        · exact Or.inr (Or.inl h)
        · exact Or.inl h
        · exact Or.inr (Or.inr h)

theorem desc_insDesc {r : Route} {l : List Route} (hd : Desc l)
    (hne : ∀ x ∈ l, x.location ≠ r.location) : Desc (insDesc r l) := by
  induction l with
  | nil => simp [insDesc, Desc]
  | cons y ys ih =>
    unfold insDesc
    have hd' := List.pairwise_cons.mp hd
    split
    · rename_i hlt
      have hlt' : y.location < r.location := (lt_iff _ _).mp hlt
      refine List.pairwise_cons.mpr ⟨?_, hd⟩
      intro z hz
      rcases List.mem_cons.mp hz with h | h
      · subst h; exact hlt'
      · exact str_lt_trans (hd'.1 z h) hlt'
    · rename_i hlt
      have hnlt : ¬ y.location < r.location := fun h => hlt ((lt_iff _ _).mpr h)
      have hry : r.location < y.location :=
        str_lt_of_not_lt_of_ne hnlt (hne y (List.mem_cons_self))
      refine List.pairwise_cons.mpr ⟨?_, ih hd'.2 (fun x hx => hne x (List.mem_cons_of_mem _ hx))⟩
      intro z hz
      rcases mem_insDesc.mp hz with h | h
      · subst h; exact hry
      · exact hd'.1 z h

theorem sortDesc_cons (a : Route) (l : List Route) : sortDesc (a :: l) = insDesc a (sortDesc l) := rfl

theorem mem_sortDesc {x : Route} {l : List Route} : x ∈ sortDesc l ↔ x ∈ l := by
  induction l with
  | nil => simp [sortDesc]
  | cons a l ih => rw [sortDesc_cons, mem_insDesc, ih]; simp

theorem desc_sortDesc {l : List Route} (h : l.Pairwise (fun a b => a.location ≠ b.location)) :
    Desc (sortDesc l) := by
  induction l with
  | nil => simp [sortDesc, Desc]
  | cons a l ih =>
    rw [sortDesc_cons]
    have h' := List.pairwise_cons.mp h
    apply desc_insDesc (ih h'.2)
    intro x hx
    exact (h'.1 x (mem_sortDesc.mp hx)).symm

theorem desc_ne {l : List Route} (h : Desc l) : l.Pairwise (fun a b => a.location ≠ b.location) := by
  apply List.Pairwise.imp _ h
  intro a b hlt heq
  rw [heq] at hlt
  exact str_lt_irrefl _ hlt

theorem desc_filter {l : List Route} (p : Route → Bool) (h : Desc l) : Desc (l.filter p) :=
  List.Pairwise.filter p h

/-- a proper prefix is lexicographically smaller -/
theorem prefix_lt {a b : Str} (hp : a <+: b) (hne : a ≠ b) : a < b := by
  induction a generalizing b with
  | nil =>
    cases b with
    | nil => exact absurd rfl hne
    | cons y ys => exact List.nil_lt_cons y ys
  | cons x xs ih =>
    cases b with
    | nil => simp at hp
    | cons y ys =>
      rw [List.cons_prefix_cons] at hp
      obtain ⟨hxy, hp'⟩ := hp
      subst hxy
      rw [List.cons_lt_cons_iff]
      right
      exact ⟨rfl, ih hp' (fun h => hne (by rw [h]))⟩

/-- among two prefixes of one path the longer one is lexicographically greater -/
theorem prefix_len_lt {a b p : Str} (ha : a <+: p) (hb : b <+: p) (hl : a.length < b.length) :
    a < b := by
  have hab : a <+: b := List.prefix_of_prefix_length_le ha hb (Nat.le_of_lt hl)
  apply prefix_lt hab
  intro h; rw [h] at hl; exact Nat.lt_irrefl _ hl

theorem hasPrefix_iff (s p : Str) : hasPrefix s p = true ↔ p <+: s := by
  simp [hasPrefix]

/-- first prefix hit in a strictly descending list is the longest prefix hit -/
theorem find_longest {l : List Route} {p : Str} {r : Route} (hd : Desc l)
    (hf : l.find? (fun r => hasPrefix p r.location) = some r) :
    r ∈ l ∧ r.location <+: p ∧
      ∀ r' ∈ l, r'.location <+: p → r'.location.length ≤ r.location.length := by
  induction l with
  | nil => simp at hf
  | cons x xs ih =>
    have hd' := List.pairwise_cons.mp hd
    rw [List.find?_cons] at hf
    split at hf
    · rename_i hx
      have hxr : x = r := Option.some.inj hf
      subst hxr
      have hxp : x.location <+: p := (hasPrefix_iff _ _).mp hx
      refine ⟨List.mem_cons_self, hxp, ?_⟩
      intro r' hr' hp'
      rcases List.mem_cons.mp hr' with h | h
      · subst h; exact Nat.le_refl _
      · apply Nat.le_of_not_lt
        intro hl
        exact str_lt_asymm (hd'.1 r' h) (prefix_len_lt hxp hp' hl)
    · rename_i hx
      obtain ⟨hm, hp, hall⟩ := ih hd'.2 hf
      refine ⟨List.mem_cons_of_mem _ hm, hp, ?_⟩
      intro r' hr' hp'
      rcases List.mem_cons.mp hr' with h | h
      · subst h
        exact absurd ((hasPrefix_iff _ _).mpr hp') (by simpa using hx)
      · exact hall r' h hp'

theorem find_none {l : List Route} {p : Str}
    (hf : l.find? (fun r => hasPrefix p r.location) = none) :
    ∀ r' ∈ l, ¬ r'.location <+: p := by
  intro r' hr' hp
  have := List.find?_eq_none.mp hf r' hr'
  exact this ((hasPrefix_iff _ _).mpr hp)

/-! ### invariant preservation -/

theorem inv_empty : Inv empty :=
  ⟨fun _ _ => List.Pairwise.nil, fun _ _ _ h => by simp [empty, Routers.bucket] at h,
   fun _ _ _ h => by simp [empty, Routers.bucket] at h⟩

theorem upd_same (R : Routers) (d u : Str) (v : List Route) : upd R d u v d u = v := by
  simp [upd, Routers.bucket]

theorem upd_other (R : Routers) (d u d' u' : Str) (v : List Route) (h : ¬ (d' = d ∧ u' = u)) :
    upd R d u v d' u' = R d' u' := by
  have hk : ((d', u') == (d, u)) = false := by
    simp only [beq_eq_false_iff_ne, ne_eq, Prod.mk.injEq]; exact h
  simp [upd, Routers.bucket, List.lookup_cons, hk]

theorem inv_upd {R : Routers} {d u : Str} {v : List Route} (h : Inv R) (hd : Desc v)
    (hk : ∀ r ∈ v, r.domain = d ∧ r.user = u) (hl : ∀ r ∈ v, toLower d = d) :
    Inv (upd R d u v) := by
  refine ⟨?_, ?_, ?_⟩
  · intro d' u'
    by_cases e : d' = d ∧ u' = u
    · obtain ⟨rfl, rfl⟩ := e; rw [upd_same]; exact hd
    · rw [upd_other _ _ _ _ _ _ e]; exact h.desc d' u'
  · intro d' u' r hr
    by_cases e : d' = d ∧ u' = u
    · obtain ⟨rfl, rfl⟩ := e; rw [upd_same] at hr; exact hk r hr
    · rw [upd_other _ _ _ _ _ _ e] at hr; exact h.keyed d' u' r hr
  · intro d' u' r hr
    by_cases e : d' = d ∧ u' = u
    · obtain ⟨rfl, rfl⟩ := e; rw [upd_same] at hr; exact hl r hr
    · rw [upd_other _ _ _ _ _ _ e] at hr; exact h.lower d' u' r hr

theorem inv_add {R : Routers} (h : Inv R) (domain location user : Str) (payload : Nat) :
    Inv (add R domain location user payload).1 := by
  unfold add
  simp only
  split
  · exact h
  · rename_i hno
    have hno' : ∀ x ∈ R (toLower domain) user, x.location ≠ location := by
      intro x hx he
      apply hno
      simp only [List.any_eq_true, decide_eq_true_eq]
      exact ⟨x, hx, he⟩
    apply inv_upd h
    · apply desc_sortDesc
      rw [List.pairwise_append]
      refine ⟨desc_ne (h.desc _ _), by simp, ?_⟩
      intro a ha b hb
      simp only [List.mem_singleton] at hb
      subst hb
      exact hno' a ha
    · intro r hr
      rcases List.mem_append.mp (mem_sortDesc.mp hr) with hr | hr
      · exact h.keyed _ _ r hr
      · simp only [List.mem_singleton] at hr; subst hr; exact ⟨rfl, rfl⟩
    · intro _ _; exact toLower_idem domain

theorem inv_del {R : Routers} (h : Inv R) (domain location user : Str) :
    Inv (del R domain location user) := by
  unfold del
  simp only
  apply inv_upd h
  · exact desc_filter _ (h.desc _ _)
  · intro r hr; exact h.keyed _ _ r (List.mem_filter.mp hr).1
  · intro _ _; exact toLower_idem domain

end Router
end Frp
