import Frp.Model.CodecPool
/-
  The ownership invariant of the pooled codec objects and its preservation by every step of
  `CodecPool.step` under a discipline that never recycles an object somebody may still use.
-/
namespace Frp
namespace CodecPool

/-- recycle at most once after Join returned, never at the return of the plugin path -/
def Safe (d : Disc) : Prop := d.plainRel ≤ 1 ∧ d.pluginRelAtReturn = false

instance (d : Disc) : Decidable (Safe d) := by unfold Safe; exact inferInstance

structure Inv (st : St) : Prop where
  own : ∀ k ∈ st.live, ownerOf st k.obj = some k.id     -- the object of a live connection is bound to ITS stream
  held : ∀ k ∈ st.live, k.obj ∉ st.free                   -- and does not lie in the pool
  nodup : st.free.Nodup                                   -- nothing lies in the pool twice
  freeLt : ∀ o ∈ st.free, o < st.next
  liveLt : ∀ k ∈ st.live, k.obj < st.next

theorem inv_init : Inv St.init :=
  ⟨by simp [St.init], by simp [St.init], by simp [St.init], by simp [St.init], by simp [St.init]⟩

theorem findConn_mem {st : St} {c : Nat} {k : Conn} (h : findConn st c = some k) : k ∈ st.live ∧ k.id = c := by
  unfold findConn at h
  refine ⟨List.mem_of_find?_eq_some h, ?_⟩
  have := List.find?_some h
  simpa using this

theorem mem_dropConn {st : St} {c : Nat} {k : Conn} : k ∈ dropConn st c ↔ k ∈ st.live ∧ k.id ≠ c := by
  simp [dropConn, List.mem_filter]

/-- two live connections with the same object are the same connection -/
theorem obj_inj {st : St} (h : Inv st) {a b : Conn} (ha : a ∈ st.live) (hb : b ∈ st.live) (e : a.obj = b.obj) :
    a.id = b.id := by
  have h1 := h.own a ha
  have h2 := h.own b hb
  rw [e, h2] at h1
  exact (Option.some.inj h1).symm

theorem exclusive_of_inv {st : St} (h : Inv st) : exclusive st = true := by
  simp only [exclusive, List.all_eq_true]
  intro a ha b hb
  by_cases e : a.obj = b.obj
  · simp [obj_inj h ha hb e]
  · simp [e]

/-- the connection ends and nothing is recycled -/
theorem inv_drop {st : St} (h : Inv st) (c : Nat) : Inv { st with live := dropConn st c } := by
  refine ⟨?_, ?_, h.nodup, h.freeLt, ?_⟩
  · intro k hk; exact h.own k (mem_dropConn.mp hk).1
  · intro k hk; exact h.held k (mem_dropConn.mp hk).1
  · intro k hk; exact h.liveLt k (mem_dropConn.mp hk).1

/-- the connection ends (nobody uses its wrapper any more) and its object goes back to the pool ONCE -/
theorem inv_release {st : St} (h : Inv st) {k : Conn} (hk : k ∈ st.live) :
    Inv { st with free := k.obj :: st.free, live := dropConn st k.id } := by
  refine ⟨?_, ?_, ?_, ?_, ?_⟩
  · intro k' hk'; exact h.own k' (mem_dropConn.mp hk').1
  · intro k' hk' hmem
    have hk'' := mem_dropConn.mp hk'
    rcases List.mem_cons.mp hmem with e | e
    · exact hk''.2 (obj_inj h hk''.1 hk e)
    · exact h.held k' hk''.1 e
  · exact List.nodup_cons.mpr ⟨h.held k hk, h.nodup⟩
  · intro o ho
    rcases List.mem_cons.mp ho with e | e
    · rw [e]; exact h.liveLt k hk
    · exact h.freeLt o e
  · intro k' hk'; exact h.liveLt k' (mem_dropConn.mp hk').1

theorem lookup_cons_self (o c : Nat) (l : List (Nat × Nat)) : List.lookup o ((o, c) :: l) = some c := by
  simp [List.lookup]

theorem lookup_cons_ne {o o' : Nat} (c : Nat) (l : List (Nat × Nat)) (h : o' ≠ o) :
    List.lookup o' ((o, c) :: l) = List.lookup o' l := by
  have : (o' == o) = false := by simpa using h
  simp [List.lookup, this]

/-- `WithCompressionFromPool` with an object taken out of the pool -/
theorem inv_start_pooled {st : St} (h : Inv st) (c o : Nat) (plugin : Bool) (ho : o ∈ st.free) :
    Inv { st with free := st.free.erase o, owner := (o, c) :: st.owner, live := ⟨c, o, plugin⟩ :: st.live } := by
  refine ⟨?_, ?_, h.nodup.erase o, ?_, ?_⟩
  · intro k hk
    rcases List.mem_cons.mp hk with e | e
    · subst e; exact lookup_cons_self o c _
    · have hne : k.obj ≠ o := fun e' => h.held k e (e' ▸ ho)
      have := h.own k e
      simp only [ownerOf] at this ⊢
      rw [lookup_cons_ne c _ hne]; exact this
  · intro k hk hmem
    rcases List.mem_cons.mp hk with e | e
    · subst e; exact h.nodup.not_mem_erase hmem
    · exact h.held k e (List.mem_of_mem_erase hmem)
  · intro o' ho'; exact h.freeLt o' (List.mem_of_mem_erase ho')
  · intro k hk
    rcases List.mem_cons.mp hk with e | e
    · subst e; exact h.freeLt o ho
    · exact h.liveLt k e

/-- `WithCompressionFromPool` with a newly made object -/
theorem inv_start_fresh {st : St} (h : Inv st) (c : Nat) (plugin : Bool) :
    Inv { st with next := st.next + 1, owner := (st.next, c) :: st.owner, live := ⟨c, st.next, plugin⟩ :: st.live } := by
  refine ⟨?_, ?_, h.nodup, ?_, ?_⟩
  · intro k hk
    rcases List.mem_cons.mp hk with e | e
    · subst e; exact lookup_cons_self _ c _
    · have hne : k.obj ≠ st.next := Nat.ne_of_lt (h.liveLt k e)
      have := h.own k e
      simp only [ownerOf] at this ⊢
      rw [lookup_cons_ne c _ hne]; exact this
  · intro k hk hmem
    rcases List.mem_cons.mp hk with e | e
    · subst e; exact Nat.lt_irrefl _ (h.freeLt _ hmem)
    · exact h.held k e hmem
  · intro o ho; exact Nat.lt_succ_of_lt (h.freeLt o ho)
  · intro k hk
    rcases List.mem_cons.mp hk with e | e
    · subst e; exact Nat.lt_succ_self _
    · exact Nat.lt_succ_of_lt (h.liveLt k e)

theorem inv_step {d : Disc} (hd : Safe d) {st : St} (h : Inv st) (e : Ev) : Inv (step d st e).1 := by
  cases e with
  | start c plugin pick =>
    simp only [step]
    cases hf : findConn st c with
    | some k => exact h
    | none =>
      cases pick with
      | none => exact inv_start_fresh h c plugin
      | some o =>
        by_cases ho : o ∈ st.free
        · simp only [if_pos ho]; exact inv_start_pooled h c o plugin ho
        · simp only [if_neg ho]; exact inv_start_fresh h c plugin
  | io c =>
    simp only [step]
    cases findConn st c <;> exact h
  | ret c =>
    simp only [step]
    cases hf : findConn st c with
    | none => exact h
    | some k =>
      have hk := findConn_mem hf
      by_cases hp : k.plugin = true
      · simp only [hp, hd.2, Bool.false_eq_true, ↓reduceIte]; exact h
      · simp only [hp, Bool.false_eq_true, ↓reduceIte]
        have hn : d.plainRel = 0 ∨ d.plainRel = 1 := by have := hd.1; omega
        rcases hn with hn | hn
        · rw [hn]; exact inv_drop h c
        · rw [hn, ← hk.2]; exact inv_release h hk.1
  | fail c =>
    simp only [step]
    cases hf : findConn st c with
    | none => exact h
    | some k =>
      have hk := findConn_mem hf
      by_cases hp : k.plugin = true
      · simp only [hp, ↓reduceIte]; exact h
      · simp only [hp, Bool.false_eq_true, ↓reduceIte]
        by_cases he : d.errRel = true
        · simp only [he, ↓reduceIte]; rw [← hk.2]; exact inv_release h hk.1
        · simp only [he, Bool.false_eq_true, ↓reduceIte]; exact inv_drop h c
  | done c =>
    simp only [step]
    cases hf : findConn st c with
    | none => exact h
    | some k =>
      by_cases hp : k.plugin = true
      · simp only [hp, ↓reduceIte]; exact inv_drop h c
      · simp only [hp, Bool.false_eq_true, ↓reduceIte]; exact h

/-- a Read / Write through the wrapper of a live connection works on that connection's own stream -/
theorem io_own {d : Disc} {st : St} (h : Inv st) (c : Nat) :
    (step d st (.io c)).2 = none ∨ (step d st (.io c)).2 = some c := by
  simp only [step]
  cases hf : findConn st c with
  | none => exact Or.inl rfl
  | some k =>
    have hk := findConn_mem hf
    exact Or.inr (hk.2 ▸ h.own k hk.1)

theorem run_inv {d : Disc} (hd : Safe d) : ∀ (evs : List Ev) {st : St}, Inv st → Inv (run d st evs).1
  | [], _, h => h
  | e :: es, st, h => by
    simp only [run]
    exact run_inv hd es (inv_step hd h e)

theorem run_ownStream {d : Disc} (hd : Safe d) : ∀ (evs : List Ev) {st : St}, Inv st → ownStream (run d st evs).2 = true
  | [], _, _ => rfl
  | e :: es, st, h => by
    have ih := run_ownStream hd es (inv_step hd h e)
    simp only [run]
    cases e with
    | io c =>
      rcases io_own (d := d) h c with h0 | h0
      · rw [h0]; simpa [ownStream] using ih
      · rw [h0]; simpa [ownStream] using ih
    | start c p k => simpa [ownStream] using ih
    | ret c => simpa [ownStream] using ih
    | fail c => simpa [ownStream] using ih
    | done c => simpa [ownStream] using ih

end CodecPool
end Frp
