import Frp.Model.Sess
/-
  Inductive invariants of the session model (C12), proved for every label, hence for every
  interleaving.  Two bundles:
    `NInv`  who may stand in the global name table (names ↔ own tables ↔ phases)
    `RInv`  the run-id table, stamps, the wait-for-old hand-over and the id generator
-/
namespace Frp
namespace Sess

@[simp] theorem s_upd (S : St) (n m : Nat) (f : Rec → Rec) :
    (S.upd n f).s m = if m = n then f (S.s n) else S.s m := by
  simp only [St.s, St.upd, Tbl.get_set]

@[simp] theorem upd_names (S : St) (n : Nat) (f : Rec → Rec) : (S.upd n f).names = S.names := rfl
@[simp] theorem upd_byRun (S : St) (n : Nat) (f : Rec → Rec) : (S.upd n f).byRun = S.byRun := rfl
@[simp] theorem upd_closed (S : St) (n : Nat) (f : Rec → Rec) : (S.upd n f).closed = S.closed := rfl
@[simp] theorem upd_ctr (S : St) (n : Nat) (f : Rec → Rec) : (S.upd n f).ctr = S.ctr := rfl
@[simp] theorem upd_ids (S : St) (n : Nat) (f : Rec → Rec) : (S.upd n f).ids = S.ids := rfl

@[simp] theorem upd_vis (S : St) (n : Nat) (f : Rec → Rec) : (S.upd n f).vis = S.vis := rfl
@[simp] theorem upd_nat (S : St) (n : Nat) (f : Rec → Rec) : (S.upd n f).nat = S.nat := rfl

@[simp] theorem s_mk (a : Tbl Rec) (b c : Tbl (Option Nat)) (d : Tbl Bool) (e : Nat) (f : List Nat)
    (g h : Tbl (Option Nat)) (m : Nat) :
    (St.mk a b c d e f g h).s m = a.get m := rfl
@[simp] theorem sess_get (S : St) (m : Nat) : S.sess.get m = S.s m := rfl
@[simp] theorem upd_sess (S : St) (n : Nat) (f : Rec → Rec) :
    (S.upd n f).sess = S.sess.set n (f (S.s n)) := rfl

@[simp] theorem s_with_names (S : St) (t : Tbl (Option Nat)) (m : Nat) :
    St.s { S with names := t } m = S.s m := rfl
@[simp] theorem s_with_closed (S : St) (t : Tbl Bool) (m : Nat) :
    St.s { S with closed := t } m = S.s m := rfl

@[simp] theorem ite_tbl_get {α : Type} [Inhabited α] (c : Prop) [Decidable c] (a b : Tbl α) (k : Nat) :
    (if c then a else b).get k = if c then a.get k else b.get k := by
  split <;> rfl

@[simp] theorem mem_removeKey (p q : Nat) (l : List Nat) : q ∈ removeKey p l ↔ q ∈ l ∧ q ≠ p := by
  simp [removeKey]

@[simp] theorem mem_insertKey (p q : Nat) (l : List Nat) : q ∈ insertKey p l ↔ q = p ∨ q ∈ l := by
  unfold insertKey
  by_cases h : p ∈ l
  · simp only [if_pos h]
    constructor
    · exact Or.inr
    · rintro (rfl | h') <;> assumption
  · simp [if_neg h]

@[simp] theorem get_init_names (p : Nat) : init.names.get p = none := rfl
@[simp] theorem get_init_byRun (p : Nat) : init.byRun.get p = none := rfl
@[simp] theorem s_init (n : Nat) : init.s n = {} := rfl

/-! ### names bundle -/

/-- the pointwise invariant: record `x` of session `m`, name `p`, table entry `v = names p` -/
def NGood (x : Rec) (m p : Nat) (v : Option Nat) : Prop :=
  (x.hp ≠ .idle → x.phase = .running) ∧
  (x.phase.started = false → p ∉ x.own) ∧
  (v = some m → x.phase.live = true ∧
      (x.hp = .added p ∨ (p ∈ x.own ∧ x.hp ≠ .closing p ∧ (x.phase = .drained → p ∈ x.todo)))) ∧
  (p ∈ x.own → (x.phase = .running ∨ x.phase = .dispDone) → x.hp ≠ .closing p → v = some m) ∧
  (p ∈ x.todo → x.phase = .drained → v = some m) ∧
  (x.hp = .added p → v = some m)

def NInv (S : St) : Prop := ∀ m p, NGood (S.s m) m p (S.names.get p)

theorem ninv_init : NInv init := by
  intro m p
  simp [NGood, Phase.started, Phase.live]

/-- `nauto n q`: the step is by session `n` and touches the name table at most at `q` -/
syntax "nauto " term:max term:max : tactic
macro_rules
  | `(tactic| nauto $n $q) => `(tactic| (
      intro m p
      have h1 := ‹NInv _› m p
      have h2 := ‹NInv _› $n p
      have h3 := ‹NInv _› m $q
      have h4 := ‹NInv _› $n $q
      simp only [NGood] at h1 h2 h3 h4 ⊢
      by_cases hm : m = $n <;> by_cases hp : p = $q <;>
        simp_all [Phase.started, Phase.live] <;> grind))

syntax "nauto0 " term:max : tactic
macro_rules
  | `(tactic| nauto0 $n) => `(tactic| (
      intro m p
      have h1 := ‹NInv _› m p
      have h2 := ‹NInv _› $n p
      simp only [NGood] at h1 h2 ⊢
      by_cases hm : m = $n <;> simp_all [Phase.started, Phase.live] <;> grind))

theorem ninv_step {S S' : St} {l : Label} (hI : NInv S) (h : step S l = some S') : NInv S' := by
  cases l with
  | login n r fresh =>
    simp only [step] at h
    split at h; · cases h
    split at h; · cases h
    split at h; · cases h
    cases h
    nauto0 n
  | add n =>
    simp only [step] at h
    split at h; · cases h
    cases h
    nauto0 n
  | waitOld n =>
    simp only [step] at h
    split at h; · cases h
    split at h
    · cases h; nauto0 n
    · cases h
  | start n =>
    simp only [step] at h
    split at h
    · cases h; nauto0 n
    · cases h
  | connClose n =>
    simp only [step] at h
    split at h; · cases h
    cases h
    exact hI
  | dispDone n =>
    simp only [step] at h
    split at h
    · cases h; nauto0 n
    · cases h
  | drain n =>
    simp only [step] at h
    split at h
    · cases h; nauto0 n
    · cases h
  | closeProxy n q =>
    simp only [step] at h
    split at h
    · cases h; nauto n q
    · cases h
  | done n =>
    simp only [step] at h
    split at h
    · cases h; nauto0 n
    · cases h
  | del n =>
    simp only [step] at h
    split at h
    · cases h; nauto0 n
    · cases h
  | regExist n q =>
    simp only [step] at h
    split at h
    · split at h
      · cases h; exact hI
      · cases h; nauto n q
    · cases h
  | regRun n q k ok =>
    simp only [step] at h
    split at h
    · cases k <;> dsimp only at h
      · cases h; cases ok <;> nauto n q
      · split at h <;> (cases h; nauto n q)
      · split at h <;> (cases h; nauto n q)
    · cases h
  | regAdd n q =>
    simp only [step] at h
    split at h
    · split at h
      · cases h; nauto n q
      · cases h; nauto n q
    · cases h
  | regOwn n q =>
    simp only [step] at h
    split at h
    · cases h; nauto n q
    · cases h
  | closeReq n q =>
    simp only [step] at h
    split at h
    · split at h
      · cases h; nauto n q
      · cases h; exact hI
    · cases h
  | closeFin n q =>
    simp only [step] at h
    split at h
    · cases h; nauto n q
    · cases h

/-! ### rendez-vous bundle: who stands in the visitor-listener / nat-hole-client tables -/

/-- session record `x` has an OPEN proxy object named `p`: `Run` has succeeded and `Close` has not been called
    (in flight between Run and the own-table insert, or in `ctl.proxies` and not yet visited by CloseProxy / the teardown) -/
def ObjOpen (x : Rec) (p : Nat) : Prop :=
  x.hp = .ran p ∨ x.hp = .added p ∨
    (p ∈ x.own ∧ x.hp ≠ .closing p ∧ x.phase.live = true ∧ (x.phase = .drained → p ∈ x.todo))

/-- pointwise: record `x` of session `m`, name `p`, `v = vis p`, `w = nat p` -/
def VGood (x : Rec) (m p : Nat) (v w : Option Nat) : Prop :=
  (v = some m ↔ p ∈ x.vres) ∧ (w = some m ↔ p ∈ x.nres) ∧
  (p ∈ x.vres → ObjOpen x p) ∧ (p ∈ x.nres → ObjOpen x p)

def VInv (S : St) : Prop := ∀ m p, VGood (S.s m) m p (S.vis.get p) (S.nat.get p)

@[simp] theorem get_init_vis (p : Nat) : init.vis.get p = none := rfl
@[simp] theorem get_init_nat (p : Nat) : init.nat.get p = none := rfl

theorem vinv_init : VInv init := by
  intro m p
  simp [VGood]

syntax "vauto " term:max term:max : tactic
macro_rules
  | `(tactic| vauto $n $q) => `(tactic| (
      intro m p
      have h1 := ‹VInv _› m p
      have h2 := ‹VInv _› $n p
      have h3 := ‹VInv _› m $q
      have h4 := ‹VInv _› $n $q
      have g1 := ‹NInv _› m p
      have g4 := ‹NInv _› $n $q
      simp only [VGood, ObjOpen, NGood, relVis, relNat] at h1 h2 h3 h4 g1 g4 ⊢
      by_cases hm : m = $n <;> by_cases hp : p = $q <;>
        simp_all [Phase.started, Phase.live] <;> grind))

syntax "vauto0 " term:max : tactic
macro_rules
  | `(tactic| vauto0 $n) => `(tactic| (
      intro m p
      have h1 := ‹VInv _› m p
      have h2 := ‹VInv _› $n p
      have g1 := ‹NInv _› m p
      have g2 := ‹NInv _› $n p
      simp only [VGood, ObjOpen, NGood] at h1 h2 g1 g2 ⊢
      by_cases hm : m = $n <;> simp_all [Phase.started, Phase.live] <;> grind))

theorem vinv_login {S S' : St} {n r fresh : _} (hN : NInv S) (hI : VInv S) (h : step S (.login n r fresh) = some S') : VInv S' := by
  simp only [step] at h
  split at h; · cases h
  split at h; · cases h
  split at h; · cases h
  cases h
  vauto0 n

theorem vinv_add {S S' : St} {n : _} (hN : NInv S) (hI : VInv S) (h : step S (.add n) = some S') : VInv S' := by
  simp only [step] at h
  split at h; · cases h
  cases h
  vauto0 n

theorem vinv_waitOld {S S' : St} {n : _} (hN : NInv S) (hI : VInv S) (h : step S (.waitOld n) = some S') : VInv S' := by
  simp only [step] at h
  split at h; · cases h
  split at h
  · cases h; vauto0 n
  · cases h

theorem vinv_start {S S' : St} {n : _} (hN : NInv S) (hI : VInv S) (h : step S (.start n) = some S') : VInv S' := by
  simp only [step] at h
  split at h
  · cases h; vauto0 n
  · cases h

theorem vinv_connClose {S S' : St} {n : _} (_ : NInv S) (hI : VInv S) (h : step S (.connClose n) = some S') : VInv S' := by
  simp only [step] at h
  split at h; · cases h
  cases h
  exact hI

theorem vinv_dispDone {S S' : St} {n : _} (hN : NInv S) (hI : VInv S) (h : step S (.dispDone n) = some S') : VInv S' := by
  simp only [step] at h
  split at h
  · cases h; vauto0 n
  · cases h

theorem vinv_drain {S S' : St} {n : _} (hN : NInv S) (hI : VInv S) (h : step S (.drain n) = some S') : VInv S' := by
  simp only [step] at h
  split at h
  · cases h; vauto0 n
  · cases h

theorem vinv_closeProxy {S S' : St} {n q : _} (hN : NInv S) (hI : VInv S) (h : step S (.closeProxy n q) = some S') : VInv S' := by
  simp only [step] at h
  split at h
  · cases h; vauto n q
  · cases h

theorem vinv_done {S S' : St} {n : _} (hN : NInv S) (hI : VInv S) (h : step S (.done n) = some S') : VInv S' := by
  simp only [step] at h
  split at h
  · cases h; vauto0 n
  · cases h

theorem vinv_del {S S' : St} {n : _} (hN : NInv S) (hI : VInv S) (h : step S (.del n) = some S') : VInv S' := by
  simp only [step] at h
  split at h
  · cases h; vauto0 n
  · cases h

theorem vinv_regExist {S S' : St} {n q : _} (hN : NInv S) (hI : VInv S) (h : step S (.regExist n q) = some S') : VInv S' := by
  simp only [step] at h
  split at h
  · split at h
    · cases h; exact hI
    · cases h; vauto n q
  · cases h

theorem vinv_regRun {S S' : St} {n q k ok : _} (hN : NInv S) (hI : VInv S) (h : step S (.regRun n q k ok) = some S') : VInv S' := by
  simp only [step] at h
  split at h
  · cases k <;> dsimp only at h
    · cases h; cases ok <;> vauto n q
    · split at h <;> (cases h; vauto n q)
    · split at h <;> (cases h; vauto n q)
  · cases h

theorem vinv_regAdd {S S' : St} {n q : _} (hN : NInv S) (hI : VInv S) (h : step S (.regAdd n q) = some S') : VInv S' := by
  simp only [step] at h
  split at h
  · split at h
    · cases h; vauto n q
    · cases h; vauto n q
  · cases h

theorem vinv_regOwn {S S' : St} {n q : _} (hN : NInv S) (hI : VInv S) (h : step S (.regOwn n q) = some S') : VInv S' := by
  simp only [step] at h
  split at h
  · cases h; vauto n q
  · cases h

theorem vinv_closeReq {S S' : St} {n q : _} (hN : NInv S) (hI : VInv S) (h : step S (.closeReq n q) = some S') : VInv S' := by
  simp only [step] at h
  split at h
  · split at h
    · cases h; vauto n q
    · cases h; exact hI
  · cases h

theorem vinv_closeFin {S S' : St} {n q : _} (hN : NInv S) (hI : VInv S) (h : step S (.closeFin n q) = some S') : VInv S' := by
  simp only [step] at h
  split at h
  · cases h; vauto n q
  · cases h

theorem vinv_step {S S' : St} {l : Label} (hN : NInv S) (hI : VInv S) (h : step S l = some S') : VInv S' := by
  cases l with
  | login n r fresh => exact vinv_login hN hI h
  | add n => exact vinv_add hN hI h
  | waitOld n => exact vinv_waitOld hN hI h
  | start n => exact vinv_start hN hI h
  | connClose n => exact vinv_connClose hN hI h
  | dispDone n => exact vinv_dispDone hN hI h
  | drain n => exact vinv_drain hN hI h
  | closeProxy n q => exact vinv_closeProxy hN hI h
  | done n => exact vinv_done hN hI h
  | del n => exact vinv_del hN hI h
  | regExist n q => exact vinv_regExist hN hI h
  | regRun n q k ok => exact vinv_regRun hN hI h
  | regAdd n q => exact vinv_regAdd hN hI h
  | regOwn n q => exact vinv_regOwn hN hI h
  | closeReq n q => exact vinv_closeReq hN hI h
  | closeFin n q => exact vinv_closeFin hN hI h

/-! ### run-id bundle, part 1: stamps, the table designates the newest, wait-for-old -/

@[simp] theorem s_with_byRun_ctr (S : St) (t : Tbl (Option Nat)) (u : Tbl Bool) (c : Nat) (m : Nat) :
    St.s { S with byRun := t, closed := u, ctr := c } m = S.s m := rfl
@[simp] theorem s_with_byRun (S : St) (t : Tbl (Option Nat)) (m : Nat) :
    St.s { S with byRun := t } m = S.s m := rfl

theorem Phase.started_isAdded {p : Phase} (h : p.started = true) : p.isAdded = true := by
  cases p <;> simp_all [Phase.started, Phase.isAdded]

theorem Phase.started_iff (p : Phase) :
    p.started = true ↔ p = .running ∨ p = .dispDone ∨ p = .drained ∨ p = .done := by
  cases p <;> simp [Phase.started]

theorem Phase.isAdded_iff (p : Phase) : p.isAdded = true ↔ p ≠ .none ∧ p ≠ .created := by
  cases p <;> simp [Phase.isAdded]

structure RInv (S : St) : Prop where
  w : ∀ m, (S.s m).phase = .waited → (S.s m).old ≠ none
  a2 : ∀ m, (S.s m).phase.isAdded = true → (S.s m).stamp < S.ctr
  a3 : ∀ m k, (S.s m).phase.isAdded = true → (S.s k).phase.isAdded = true →
        (S.s m).stamp = (S.s k).stamp → m = k
  d : ∀ m, (S.s m).deleted = true → (S.s m).phase = .done
  b1 : ∀ r m, S.byRun.get r = some m →
        (S.s m).phase.isAdded = true ∧ (S.s m).rid = r ∧ (S.s m).deleted = false
  b2 : ∀ r m k, S.byRun.get r = some m → (S.s k).phase.isAdded = true → (S.s k).rid = r →
        (S.s k).stamp ≤ (S.s m).stamp
  c2 : ∀ m k, ((S.s m).phase = .waited ∨ (S.s m).phase.started = true) → (S.s m).old = some k →
        (S.s k).phase = .done
  c3a : ∀ m o, (S.s m).phase.isAdded = true → (S.s m).old = some o →
        (S.s o).phase.isAdded = true ∧ (S.s o).rid = (S.s m).rid ∧ (S.s o).stamp < (S.s m).stamp
  c3b : ∀ m o k, (S.s m).phase.isAdded = true → (S.s m).old = some o → (S.s k).phase.isAdded = true →
        (S.s k).rid = (S.s m).rid → (S.s k).stamp < (S.s m).stamp → (S.s k).stamp ≤ (S.s o).stamp
  c1 : ∀ m k, (S.s m).phase.isAdded = true → (S.s m).old = none → (S.s k).phase.isAdded = true →
        (S.s k).rid = (S.s m).rid → (S.s k).stamp < (S.s m).stamp → (S.s k).phase = .done
  b3 : ∀ m, (S.s m).phase.isAdded = true → (S.s m).phase ≠ .done → S.byRun.get (S.s m).rid ≠ none
  b4 : ∀ m, (S.s m).phase.isAdded = true → (S.s m).deleted = false → S.byRun.get (S.s m).rid = none →
        ∃ k, (S.s k).phase.isAdded = true ∧ (S.s k).rid = (S.s m).rid ∧ (S.s m).stamp < (S.s k).stamp
  x : ∀ m k, (S.s m).phase.started = true → (S.s k).phase.isAdded = true →
        (S.s k).rid = (S.s m).rid → (S.s k).stamp < (S.s m).stamp → (S.s k).phase = .done
  a1 : ∀ m, (S.s m).phase ≠ .none → m ∈ S.ids
  f1 : ∀ m k, (S.s m).fresh = true → (S.s m).phase = .created → (S.s k).phase ≠ .none → k ≠ m →
        (S.s k).rid ≠ (S.s m).rid
  f2 : ∀ m, (S.s m).fresh = true → (S.s m).old = none

theorem rinv_init : RInv init := by
  constructor <;> simp [Phase.started, Phase.isAdded]

macro "rauto" : tactic => `(tactic| (
  obtain ⟨w, a2, a3, d, b1, b2, c2, c3a, c3b, c1, b3, b4, x, a1, f1, f2⟩ := ‹RInv _›
  constructor <;> intros <;> simp only [s_upd, s_mk, upd_sess, upd_byRun, upd_ctr, upd_ids, sess_get, ite_tbl_get, Tbl.get_set] at * <;>
    grind [Phase.started_iff, Phase.isAdded_iff]))

/-- the fields the run-id bundle reads -/
def CoreEq (x y : Rec) : Prop :=
  x.rid = y.rid ∧ x.fresh = y.fresh ∧ x.phase = y.phase ∧ x.old = y.old ∧ x.stamp = y.stamp ∧
    x.deleted = y.deleted

theorem rinv_congr {S S' : St} (hs : ∀ m, CoreEq (S'.s m) (S.s m)) (hb : S'.byRun = S.byRun)
    (hc : S'.ctr = S.ctr) (hi : S'.ids = S.ids) (hI : RInv S) : RInv S' := by
  have h1 : ∀ m, (S'.s m).rid = (S.s m).rid := fun m => (hs m).1
  have h2 : ∀ m, (S'.s m).fresh = (S.s m).fresh := fun m => (hs m).2.1
  have h3 : ∀ m, (S'.s m).phase = (S.s m).phase := fun m => (hs m).2.2.1
  have h4 : ∀ m, (S'.s m).old = (S.s m).old := fun m => (hs m).2.2.2.1
  have h5 : ∀ m, (S'.s m).stamp = (S.s m).stamp := fun m => (hs m).2.2.2.2.1
  have h6 : ∀ m, (S'.s m).deleted = (S.s m).deleted := fun m => (hs m).2.2.2.2.2
  obtain ⟨w, a2, a3, d, b1, b2, c2, c3a, c3b, c1, b3, b4, x, a1, f1, f2⟩ := hI
  constructor <;> simp only [h1, h2, h3, h4, h5, h6, hb, hc, hi] <;> assumption

syntax "rsame " term:max : tactic
macro_rules
  | `(tactic| rsame $h) => `(tactic| (
      refine rinv_congr ?hs ?hb ?hc ?hi $h
      case hb => rfl
      case hc => rfl
      case hi => rfl
      intro m
      simp only [s_upd, s_mk, upd_sess, sess_get, Tbl.get_set, CoreEq]
      split <;> simp_all))

theorem rinv_login {S S' : St} {n r fresh : _} (hI : RInv S) (h : step S (.login n r fresh) = some S') : RInv S' := by
  simp only [step] at h
  split at h; · cases h
  split at h; · cases h
  split at h; · cases h
  cases h
  rauto

theorem rinv_add {S S' : St} {n : _} (hI : RInv S) (h : step S (.add n) = some S') : RInv S' := by
  simp only [step] at h
  split at h; · cases h
  cases h
  rcases hbr : S.byRun.get (S.s n).rid with _ | o <;> rauto

theorem rinv_waitOld {S S' : St} {n : _} (hI : RInv S) (h : step S (.waitOld n) = some S') : RInv S' := by
  simp only [step] at h
  split at h; · cases h
  split at h
  · cases h; rauto
  · cases h

theorem rinv_start {S S' : St} {n : _} (hI : RInv S) (h : step S (.start n) = some S') : RInv S' := by
  simp only [step] at h
  split at h
  · cases h; rcases ho : (S.s n).old with _ | o <;> rauto
  · cases h

theorem rinv_connClose {S S' : St} {n : _} (hI : RInv S) (h : step S (.connClose n) = some S') : RInv S' := by
  simp only [step] at h
  split at h; · cases h
  cases h
  exact ⟨hI.w, hI.a2, hI.a3, hI.d, hI.b1, hI.b2, hI.c2, hI.c3a, hI.c3b, hI.c1, hI.b3, hI.b4, hI.x, hI.a1, hI.f1, hI.f2⟩

theorem rinv_dispDone {S S' : St} {n : _} (hI : RInv S) (h : step S (.dispDone n) = some S') : RInv S' := by
  simp only [step] at h
  split at h
  · cases h; rauto
  · cases h

theorem rinv_drain {S S' : St} {n : _} (hI : RInv S) (h : step S (.drain n) = some S') : RInv S' := by
  simp only [step] at h
  split at h
  · cases h; rauto
  · cases h

theorem rinv_closeProxy {S S' : St} {n q : _} (hI : RInv S) (h : step S (.closeProxy n q) = some S') : RInv S' := by
  simp only [step] at h
  split at h
  · cases h; rsame hI
  · cases h

theorem rinv_done {S S' : St} {n : _} (hI : RInv S) (h : step S (.done n) = some S') : RInv S' := by
  simp only [step] at h
  split at h
  · cases h; rauto
  · cases h

theorem rinv_del {S S' : St} {n : _} (hI : RInv S) (h : step S (.del n) = some S') : RInv S' := by
  simp only [step] at h
  split at h
  · cases h; rauto
  · cases h

theorem rinv_regExist {S S' : St} {n q : _} (hI : RInv S) (h : step S (.regExist n q) = some S') : RInv S' := by
  simp only [step] at h
  split at h
  · split at h
    · cases h; exact hI
    · cases h; rsame hI
  · cases h

theorem rinv_regRun {S S' : St} {n q k ok : _} (hI : RInv S) (h : step S (.regRun n q k ok) = some S') : RInv S' := by
  simp only [step] at h
  split at h
  · cases k <;> dsimp only at h
    · cases h; rsame hI
    · split at h <;> (cases h; rsame hI)
    · split at h <;> (cases h; rsame hI)
  · cases h

theorem rinv_regAdd {S S' : St} {n q : _} (hI : RInv S) (h : step S (.regAdd n q) = some S') : RInv S' := by
  simp only [step] at h
  split at h
  · split at h
    · cases h; rsame hI
    · cases h; rsame hI
  · cases h

theorem rinv_regOwn {S S' : St} {n q : _} (hI : RInv S) (h : step S (.regOwn n q) = some S') : RInv S' := by
  simp only [step] at h
  split at h
  · cases h; rsame hI
  · cases h

theorem rinv_closeReq {S S' : St} {n q : _} (hI : RInv S) (h : step S (.closeReq n q) = some S') : RInv S' := by
  simp only [step] at h
  split at h
  · split at h
    · cases h; rsame hI
    · cases h; exact hI
  · cases h

theorem rinv_closeFin {S S' : St} {n q : _} (hI : RInv S) (h : step S (.closeFin n q) = some S') : RInv S' := by
  simp only [step] at h
  split at h
  · cases h; rsame hI
  · cases h

theorem rinv_step {S S' : St} {l : Label} (hI : RInv S) (h : step S l = some S') : RInv S' := by
  cases l with
  | login n r fresh => exact rinv_login hI h
  | add n => exact rinv_add hI h
  | waitOld n => exact rinv_waitOld hI h
  | start n => exact rinv_start hI h
  | connClose n => exact rinv_connClose hI h
  | dispDone n => exact rinv_dispDone hI h
  | drain n => exact rinv_drain hI h
  | closeProxy n q => exact rinv_closeProxy hI h
  | done n => exact rinv_done hI h
  | del n => exact rinv_del hI h
  | regExist n q => exact rinv_regExist hI h
  | regRun n q k ok => exact rinv_regRun hI h
  | regAdd n q => exact rinv_regAdd hI h
  | regOwn n q => exact rinv_regOwn hI h
  | closeReq n q => exact rinv_closeReq hI h
  | closeFin n q => exact rinv_closeFin hI h

end Sess
end Frp
