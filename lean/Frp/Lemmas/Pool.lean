import Frp.Model.Pool
/-! Helper lemmas for the work-connection pool model (core Lean only). -/
namespace Frp
namespace Pool

theorem lookup_map_snd {α β} (f : α → β) (l : List (Nat × α)) (k : Nat) :
    (l.map (fun e => (e.1, f e.2))).lookup k = (l.lookup k).map f := by
  induction l with
  | nil => rfl
  | cons h t ih =>
    obtain ⟨a, b⟩ := h
    simp only [List.map_cons, List.lookup_cons]
    cases hk : (k == a) <;> simp [ih]

theorem Tbl.get_map {α} (f : α → α) (t : Tbl α) (k : Nat) :
    (Tbl.mk (t.l.map (fun e => (e.1, f e.2)))).get k = (t.get k).map f := by
  unfold Tbl.get; exact lookup_map_snd f t.l k

theorem lookup_some_mem {α} (l : List (Nat × α)) (k : Nat) (v : α) (h : l.lookup k = some v) :
    ∃ v', (k, v') ∈ l := by
  induction l with
  | nil => simp [List.lookup] at h
  | cons hd t ih =>
    obtain ⟨a, b⟩ := hd
    simp only [List.lookup_cons] at h
    cases hk : (k == a) with
    | true =>
      have : k = a := by simpa using hk
      subst this; exact ⟨b, by simp⟩
    | false =>
      simp only [hk] at h
      obtain ⟨v', hv'⟩ := ih h
      exact ⟨v', by simp [hv']⟩

/-- `allCur` speaks about the current value of every bound key -/
theorem Tbl.allCur_get {α} (t : Tbl α) (p : α → Bool) (h : t.allCur p = true) (k : Nat) (v : α)
    (hk : t.get k = some v) : p v = true := by
  unfold Tbl.allCur at h
  rw [List.all_eq_true] at h
  obtain ⟨v', hv'⟩ := lookup_some_mem t.l k v hk
  have := h (k, v') hv'
  simpa [hk] using this

theorem Tbl.allCur_false {α} (t : Tbl α) (p : α → Bool) (k : Nat) (v : α)
    (hk : t.get k = some v) (hp : p v = false) : t.allCur p = false := by
  cases h : t.allCur p with
  | false => rfl
  | true => have := Tbl.allCur_get t p h k v hk; rw [hp] at this; cases this

/-- the drain: every element of the list is set to v, everything else keeps its value -/
theorem foldl_set_get {α} (l : List Nat) (v : α) (t : Tbl α) (k : Nat) :
    (l.foldl (fun t c => t.set c v) t).get k = if k ∈ l then some v else t.get k := by
  induction l generalizing t with
  | nil => simp
  | cons h tl ih =>
    simp only [List.foldl_cons, ih, Tbl.get_set, List.mem_cons]
    by_cases h1 : k ∈ tl
    · simp [h1]
    · by_cases h2 : k = h <;> simp [h1, h2]

theorem bumpU_holding (x : U) (k c : Nat) : bumpU x = .holding k c ↔ x = .holding k c := by
  cases x <;> simp [bumpU]

theorem bumpU_bridged (x : U) (c : Nat) : bumpU x = .bridged c ↔ x = .bridged c := by
  cases x <;> simp [bumpU]

theorem bumpU_accepted (x : U) (k : Nat) : bumpU x = .accepted k ↔ x = .accepted k := by
  cases x <;> simp [bumpU]

theorem bumpU_closed (x : U) : bumpU x = .closed ↔ x = .closed := by
  cases x <;> simp [bumpU]

theorem bumpU_waiting (x : U) (k t : Nat) : bumpU x = .waiting k t ↔ ∃ t', x = .waiting k t' ∧ t = t' + 1 := by
  cases x with
  | waiting k0 t0 =>
    simp only [bumpU, U.waiting.injEq]
    constructor
    · rintro ⟨rfl, rfl⟩; exact ⟨t0, ⟨rfl, rfl⟩, rfl⟩
    · rintro ⟨t', ⟨rfl, rfl⟩, rfl⟩; exact ⟨rfl, rfl⟩
  | _ => simp [bumpU]


/-! ### the invariant -/

structure Inv (fx : Fix) (s : St) : Prop where
  nodup : s.pool.Nodup
  pooled_iff : ∀ c, c ∈ s.pool ↔ s.w.get c = some .pooled
  le_cap : s.pool.length ≤ s.cap
  taken_iff : ∀ c u, s.w.get c = some (.taken u) ↔
      ((∃ k, s.u.get u = some (.holding k c)) ∨ s.u.get u = some (.bridged c))
  drained_empty : s.drained = true → s.pool = [] ∧ s.poolClosed = true
  closed_disp : s.poolClosed = true → s.dispDone = true
  wait_le : ∀ u k t, s.u.get u = some (.waiting k t) → t ≤ s.T
  idx_lt : ∀ u k, (s.u.get u = some (.accepted k) ∨ (∃ t, s.u.get u = some (.waiting k t)) ∨
      (∃ c, s.u.get u = some (.holding k c))) → k < tries s.pc
  limbo_late : ∀ c, s.w.get c = some .limbo → s.lateSend = true ∧ fx.closeOnClosedPool = false
  panic_tries : s.panicked = true → tries s.pc = 0

theorem inv_init (fx : Fix) (pc : Int) (T : Nat) : Inv fx (init pc T) := by
  constructor <;> simp [init, Tbl.get, St.cap]

/-- a work connection that is neither pooled nor taken changes to a value that is neither -/
theorem inv_setW {fx : Fix} {s : St} (h : Inv fx s) (c : Nat) (v : W) (ls : Bool)
    (hold1 : s.w.get c ≠ some .pooled) (hold2 : ∀ u, s.w.get c ≠ some (.taken u))
    (hv1 : v ≠ .pooled) (hv2 : ∀ u, v ≠ .taken u)
    (hv3 : v = .limbo → (ls = true ∧ fx.closeOnClosedPool = false))
    (hls : s.lateSend = true → ls = true) :
    Inv fx { s with w := s.w.set c v, lateSend := ls } := by
  constructor
  · exact h.nodup
  · intro c'
    show c' ∈ s.pool ↔ (s.w.set c v).get c' = some .pooled
    rw [Tbl.get_set]
    by_cases hc : c' = c
    · subst hc
      simp only [if_true, Option.some.injEq]
      constructor
      · intro hm; exact absurd ((h.pooled_iff c').1 hm) hold1
      · intro hv; exact absurd hv hv1
    · simp only [hc, if_false]; exact h.pooled_iff c'
  · exact h.le_cap
  · intro c' u
    show (s.w.set c v).get c' = some (.taken u) ↔ _
    rw [Tbl.get_set]
    by_cases hc : c' = c
    · subst hc
      simp only [if_true, Option.some.injEq]
      constructor
      · intro hv; exact absurd hv (hv2 u)
      · intro hr; exact absurd ((h.taken_iff c' u).2 hr) (hold2 u)
    · simp only [hc, if_false]; exact h.taken_iff c' u
  · exact h.drained_empty
  · exact h.closed_disp
  · exact h.wait_le
  · exact h.idx_lt
  · intro c'
    show (s.w.set c v).get c' = some .limbo → ls = true ∧ _
    rw [Tbl.get_set]
    by_cases hc : c' = c
    · subst hc
      simp only [if_true, Option.some.injEq]
      exact hv3
    · simp only [hc, if_false]
      intro hl; exact ⟨hls (h.limbo_late c' hl).1, (h.limbo_late c' hl).2⟩
  · exact h.panic_tries

/-- a handler that holds no work connection moves to a state that holds none -/
theorem inv_setU {fx : Fix} {s : St} (h : Inv fx s) (u : Nat) (x : U) (r q : Nat)
    (hold1 : ∀ k c, s.u.get u ≠ some (.holding k c)) (hold2 : ∀ c, s.u.get u ≠ some (.bridged c))
    (hx1 : ∀ k c, x ≠ .holding k c) (hx2 : ∀ c, x ≠ .bridged c)
    (hx3 : ∀ k t, x = .waiting k t → t ≤ s.T ∧ k < tries s.pc)
    (hx4 : ∀ k, x = .accepted k → k < tries s.pc) :
    Inv fx { s with u := s.u.set u x, reqs := r, ureq := q } := by
  constructor
  · exact h.nodup
  · exact h.pooled_iff
  · exact h.le_cap
  · intro c u'
    show s.w.get c = some (.taken u') ↔ ((∃ k, (s.u.set u x).get u' = some (.holding k c)) ∨ (s.u.set u x).get u' = some (.bridged c))
    rw [Tbl.get_set]
    by_cases hu : u' = u
    · subst hu
      simp only [if_true, Option.some.injEq]
      constructor
      · intro ht
        rcases (h.taken_iff c u').1 ht with ⟨k, hk⟩ | hb
        · exact absurd hk (hold1 k c)
        · exact absurd hb (hold2 c)
      · rintro (⟨k, hk⟩ | hb)
        · exact absurd hk (hx1 k c)
        · exact absurd hb (hx2 c)
    · simp only [hu, if_false]; exact h.taken_iff c u'
  · exact h.drained_empty
  · exact h.closed_disp
  · intro u' k t
    show (s.u.set u x).get u' = some (.waiting k t) → t ≤ s.T
    rw [Tbl.get_set]
    by_cases hu : u' = u
    · subst hu; simp only [if_true, Option.some.injEq]; intro hx; exact (hx3 k t hx).1
    · simp only [hu, if_false]; exact h.wait_le u' k t
  · intro u' k
    show ((s.u.set u x).get u' = some (.accepted k) ∨ (∃ t, (s.u.set u x).get u' = some (.waiting k t)) ∨
      (∃ c, (s.u.set u x).get u' = some (.holding k c))) → k < tries s.pc
    rw [Tbl.get_set]
    by_cases hu : u' = u
    · subst hu
      simp only [if_true, Option.some.injEq]
      rintro (ha | ⟨t, ht⟩ | ⟨c, hc⟩)
      · exact hx4 k ha
      · exact (hx3 k t ht).2
      · exact absurd hc (hx1 k c)
    · simp only [hu, if_false]; exact h.idx_lt u' k
  · exact h.limbo_late
  · exact h.panic_tries


/-- a handler that holds nothing receives the head of the pool -/
theorem inv_recv {fx : Fix} {s : St} (h : Inv fx s) (u k c : Nat) (rest : List Nat) (r q : Nat)
    (hp : s.pool = c :: rest)
    (hold1 : ∀ k c, s.u.get u ≠ some (.holding k c)) (hold2 : ∀ c, s.u.get u ≠ some (.bridged c))
    (hk : k < tries s.pc) :
    Inv fx { s with pool := rest, w := s.w.set c (.taken u), u := s.u.set u (.holding k c), reqs := r, ureq := q } := by
  have hnd := h.nodup
  rw [hp] at hnd
  have hcn : c ∉ rest := (List.nodup_cons.1 hnd).1
  have hwc : s.w.get c = some .pooled := (h.pooled_iff c).1 (by rw [hp]; simp)
  constructor
  · exact (List.nodup_cons.1 hnd).2
  · intro c'
    show c' ∈ rest ↔ (s.w.set c (.taken u)).get c' = some .pooled
    rw [Tbl.get_set]
    by_cases hc : c' = c
    · subst hc; simp [hcn]
    · simp only [hc, if_false]
      rw [← h.pooled_iff c', hp]; simp [hc]
  · have := h.le_cap; rw [hp] at this; simp at this; show rest.length ≤ s.cap; omega
  · intro c' u'
    show (s.w.set c (.taken u)).get c' = some (.taken u') ↔
      ((∃ k', (s.u.set u (.holding k c)).get u' = some (.holding k' c')) ∨ (s.u.set u (.holding k c)).get u' = some (.bridged c'))
    rw [Tbl.get_set, Tbl.get_set]
    by_cases hc : c' = c <;> by_cases hu : u' = u
    · subst hc; subst hu; simp
    · subst hc
      simp only [if_true, hu, if_false, Option.some.injEq, W.taken.injEq]
      constructor
      · intro e; exact absurd e.symm hu
      · intro hr
        have := (h.taken_iff c' u').2 hr
        rw [hwc] at this; cases this
    · subst hu
      simp only [hc, if_false, if_true, Option.some.injEq, U.holding.injEq]
      constructor
      · intro ht
        rcases (h.taken_iff c' u').1 ht with ⟨k', hk'⟩ | hb
        · exact absurd hk' (hold1 k' c')
        · exact absurd hb (hold2 c')
      · rintro (⟨k', _, e⟩ | hb)
        · exact absurd e.symm hc
        · cases hb
    · simp only [hc, hu, if_false]; exact h.taken_iff c' u'
  · intro hd; have := (h.drained_empty hd).1; rw [hp] at this; cases this
  · exact h.closed_disp
  · intro u' k' t
    show (s.u.set u (.holding k c)).get u' = some (.waiting k' t) → t ≤ s.T
    rw [Tbl.get_set]
    by_cases hu : u' = u
    · subst hu; simp
    · simp only [hu, if_false]; exact h.wait_le u' k' t
  · intro u' k'
    show ((s.u.set u (.holding k c)).get u' = some (.accepted k') ∨ (∃ t, (s.u.set u (.holding k c)).get u' = some (.waiting k' t)) ∨
      (∃ c', (s.u.set u (.holding k c)).get u' = some (.holding k' c'))) → k' < tries s.pc
    rw [Tbl.get_set]
    by_cases hu : u' = u
    · subst hu
      simp only [if_true, Option.some.injEq, U.holding.injEq]
      rintro (ha | ⟨t, ht⟩ | ⟨c', e, _⟩)
      · cases ha
      · cases ht
      · subst e; exact hk
    · simp only [hu, if_false]; exact h.idx_lt u' k'
  · intro c'
    show (s.w.set c (.taken u)).get c' = some .limbo → _
    rw [Tbl.get_set]
    by_cases hc : c' = c
    · subst hc; simp
    · simp only [hc, if_false]; exact h.limbo_late c'
  · exact h.panic_tries

/-- RegisterWorkConn's successful send -/
theorem inv_send_pooled {fx : Fix} {s : St} (h : Inv fx s) (c : Nat)
    (hw : s.w.get c = some .lookedUp) (hlen : s.pool.length < s.cap) (hd : s.drained = false) :
    Inv fx { s with pool := s.pool ++ [c], w := s.w.set c .pooled } := by
  have hcn : c ∉ s.pool := by
    intro hm; have := (h.pooled_iff c).1 hm; rw [hw] at this; cases this
  constructor
  · show (s.pool ++ [c]).Nodup
    rw [List.nodup_append]
    refine ⟨h.nodup, by simp, ?_⟩
    intro a ha b hb
    simp at hb; subst hb
    intro e; subst e; exact hcn ha
  · intro c'
    show c' ∈ s.pool ++ [c] ↔ (s.w.set c .pooled).get c' = some .pooled
    rw [Tbl.get_set]
    by_cases hc : c' = c
    · subst hc; simp
    · simp only [hc, if_false, List.mem_append, List.mem_singleton, or_false]; exact h.pooled_iff c'
  · show (s.pool ++ [c]).length ≤ s.cap
    simp; omega
  · intro c' u
    show (s.w.set c .pooled).get c' = some (.taken u) ↔ _
    rw [Tbl.get_set]
    by_cases hc : c' = c
    · subst hc
      simp only [if_true, Option.some.injEq]
      constructor
      · intro e; cases e
      · intro hr; have := (h.taken_iff c' u).2 hr; rw [hw] at this; cases this
    · simp only [hc, if_false]; exact h.taken_iff c' u
  · intro hd'; show _ ∧ _; rw [hd] at hd'; cases hd'
  · exact h.closed_disp
  · exact h.wait_le
  · exact h.idx_lt
  · intro c'
    show (s.w.set c .pooled).get c' = some .limbo → _
    rw [Tbl.get_set]
    by_cases hc : c' = c
    · subst hc; simp
    · simp only [hc, if_false]; exact h.limbo_late c'
  · exact h.panic_tries

/-- the handler of u gives up its work connection c (failed StartWorkConn write, or Join ended) -/
theorem inv_release {fx : Fix} {s : St} (h : Inv fx s) (u c : Nat) (x : U)
    (hu : (∃ k, s.u.get u = some (.holding k c)) ∨ s.u.get u = some (.bridged c))
    (hx1 : ∀ k c, x ≠ .holding k c) (hx2 : ∀ c, x ≠ .bridged c) (hx3 : ∀ k t, x ≠ .waiting k t)
    (hx4 : ∀ k, x = .accepted k → k < tries s.pc) :
    Inv fx { s with w := s.w.set c .closed, u := s.u.set u x } := by
  have hwc : s.w.get c = some (.taken u) := (h.taken_iff c u).2 hu
  constructor
  · exact h.nodup
  · intro c'
    show c' ∈ s.pool ↔ (s.w.set c .closed).get c' = some .pooled
    rw [Tbl.get_set]
    by_cases hc : c' = c
    · subst hc
      simp only [if_true, Option.some.injEq]
      constructor
      · intro hm; have := (h.pooled_iff c').1 hm; rw [hwc] at this; cases this
      · intro e; cases e
    · simp only [hc, if_false]; exact h.pooled_iff c'
  · exact h.le_cap
  · intro c' u'
    show (s.w.set c .closed).get c' = some (.taken u') ↔
      ((∃ k', (s.u.set u x).get u' = some (.holding k' c')) ∨ (s.u.set u x).get u' = some (.bridged c'))
    rw [Tbl.get_set, Tbl.get_set]
    by_cases hc : c' = c <;> by_cases huu : u' = u
    · subst hc; subst huu
      simp only [if_true, Option.some.injEq]
      constructor
      · intro e; cases e
      · rintro (⟨k', e⟩ | e)
        · exact absurd e (hx1 k' c')
        · exact absurd e (hx2 c')
    · subst hc
      simp only [if_true, huu, if_false, Option.some.injEq]
      constructor
      · intro e; cases e
      · intro hr
        have := (h.taken_iff c' u').2 hr
        rw [hwc] at this
        simp at this; exact absurd this.symm huu
    · subst huu
      simp only [hc, if_false, if_true, Option.some.injEq]
      constructor
      · intro ht
        exfalso
        rcases (h.taken_iff c' u').1 ht with ⟨k', hk'⟩ | hb
        · rcases hu with ⟨k, hk⟩ | hb'
          · rw [hk] at hk'; simp at hk'; exact hc hk'.2.symm
          · rw [hb'] at hk'; cases hk'
        · rcases hu with ⟨k, hk⟩ | hb'
          · rw [hk] at hb; cases hb
          · rw [hb'] at hb; simp at hb; exact hc hb.symm
      · rintro (⟨k', e⟩ | e)
        · exact absurd e (hx1 k' c')
        · exact absurd e (hx2 c')
    · simp only [hc, huu, if_false]; exact h.taken_iff c' u'
  · exact h.drained_empty
  · exact h.closed_disp
  · intro u' k t
    show (s.u.set u x).get u' = some (.waiting k t) → t ≤ s.T
    rw [Tbl.get_set]
    by_cases huu : u' = u
    · subst huu; simp only [if_true, Option.some.injEq]; intro e; exact absurd e (hx3 k t)
    · simp only [huu, if_false]; exact h.wait_le u' k t
  · intro u' k
    show ((s.u.set u x).get u' = some (.accepted k) ∨ (∃ t, (s.u.set u x).get u' = some (.waiting k t)) ∨
      (∃ c', (s.u.set u x).get u' = some (.holding k c'))) → k < tries s.pc
    rw [Tbl.get_set]
    by_cases huu : u' = u
    · subst huu
      simp only [if_true, Option.some.injEq]
      rintro (ha | ⟨t, ht⟩ | ⟨c', hc'⟩)
      · exact hx4 k ha
      · exact absurd ht (hx3 k t)
      · exact absurd hc' (hx1 k c')
    · simp only [huu, if_false]; exact h.idx_lt u' k
  · intro c'
    show (s.w.set c .closed).get c' = some .limbo → _
    rw [Tbl.get_set]
    by_cases hc : c' = c
    · subst hc; simp
    · simp only [hc, if_false]; exact h.limbo_late c'
  · exact h.panic_tries

/-- StartWorkConn written: holding becomes bridged -/
theorem inv_bridge {fx : Fix} {s : St} (h : Inv fx s) (u k c : Nat)
    (hu : s.u.get u = some (.holding k c)) :
    Inv fx { s with u := s.u.set u (.bridged c) } := by
  constructor
  · exact h.nodup
  · exact h.pooled_iff
  · exact h.le_cap
  · intro c' u'
    show s.w.get c' = some (.taken u') ↔
      ((∃ k', (s.u.set u (.bridged c)).get u' = some (.holding k' c')) ∨ (s.u.set u (.bridged c)).get u' = some (.bridged c'))
    rw [Tbl.get_set]
    by_cases huu : u' = u
    · subst huu
      simp only [if_true, Option.some.injEq, U.bridged.injEq]
      rw [h.taken_iff c' u', hu]
      simp only [Option.some.injEq, U.holding.injEq]
      constructor
      · rintro (⟨k', _, e⟩ | e)
        · exact Or.inr e
        · cases e
      · rintro (⟨k', e⟩ | e)
        · cases e
        · exact Or.inl ⟨k, rfl, e⟩
    · simp only [huu, if_false]; exact h.taken_iff c' u'
  · exact h.drained_empty
  · exact h.closed_disp
  · intro u' k' t
    show (s.u.set u (.bridged c)).get u' = some (.waiting k' t) → t ≤ s.T
    rw [Tbl.get_set]
    by_cases huu : u' = u
    · subst huu; simp
    · simp only [huu, if_false]; exact h.wait_le u' k' t
  · intro u' k'
    show ((s.u.set u (.bridged c)).get u' = some (.accepted k') ∨ (∃ t, (s.u.set u (.bridged c)).get u' = some (.waiting k' t)) ∨
      (∃ c', (s.u.set u (.bridged c)).get u' = some (.holding k' c'))) → k' < tries s.pc
    rw [Tbl.get_set]
    by_cases huu : u' = u
    · subst huu; simp
    · simp only [huu, if_false]; exact h.idx_lt u' k'
  · exact h.limbo_late
  · exact h.panic_tries


theorem inv_flags {fx : Fix} {s : St} (h : Inv fx s) (dd pcl po im pan : Bool) (px : List Nat) (pxc : Bool)
    (h1 : s.drained = true → pcl = true) (h2 : pcl = true → dd = true) (h3 : pan = true → tries s.pc = 0) :
    Inv fx { s with dispDone := dd, poolClosed := pcl, proxyOpen := po, inManager := im, panicked := pan,
                    px := px, pxClosed := pxc } := by
  constructor
  · exact h.nodup
  · exact h.pooled_iff
  · exact h.le_cap
  · exact h.taken_iff
  · intro hd; exact ⟨(h.drained_empty hd).1, h1 hd⟩
  · exact h2
  · exact h.wait_le
  · exact h.idx_lt
  · exact h.limbo_late
  · exact h3

theorem inv_drain {fx : Fix} {s : St} (h : Inv fx s) (hc : s.poolClosed = true) :
    Inv fx { s with pool := [], drained := true, w := s.pool.foldl (fun t c => t.set c .closed) s.w } := by
  constructor
  · exact List.nodup_nil
  · intro c
    show c ∈ ([] : List Nat) ↔ (s.pool.foldl (fun t c => t.set c W.closed) s.w).get c = some .pooled
    rw [foldl_set_get]
    by_cases hm : c ∈ s.pool
    · simp [hm]
    · simp only [hm, if_false, List.not_mem_nil, false_iff]
      intro hp; exact hm ((h.pooled_iff c).2 hp)
  · show ([] : List Nat).length ≤ s.cap; simp
  · intro c u
    show (s.pool.foldl (fun t c => t.set c W.closed) s.w).get c = some (.taken u) ↔ _
    rw [foldl_set_get]
    by_cases hm : c ∈ s.pool
    · simp only [hm, if_true, Option.some.injEq]
      constructor
      · intro e; cases e
      · intro hr
        have h1 := (h.taken_iff c u).2 hr
        have h2 := (h.pooled_iff c).1 hm
        rw [h2] at h1; cases h1
    · simp only [hm, if_false]; exact h.taken_iff c u
  · intro _; exact ⟨rfl, hc⟩
  · exact h.closed_disp
  · exact h.wait_le
  · exact h.idx_lt
  · intro c
    show (s.pool.foldl (fun t c => t.set c W.closed) s.w).get c = some .limbo → _
    rw [foldl_set_get]
    by_cases hm : c ∈ s.pool
    · simp [hm]
    · simp only [hm, if_false]; exact h.limbo_late c
  · exact h.panic_tries

theorem map_bump_eq (o : Option U) (y : U) :
    o.map bumpU = some y ↔ ∃ x, o = some x ∧ bumpU x = y := by
  cases o <;> simp

theorem inv_tick {fx : Fix} {s : St} (h : Inv fx s) (ht : tickOk s = true) :
    Inv fx { s with u := ⟨s.u.l.map (fun e => (e.1, bumpU e.2))⟩ } := by
  have hg : ∀ u, (Tbl.mk (s.u.l.map (fun e => (e.1, bumpU e.2)))).get u = (s.u.get u).map bumpU :=
    fun u => Tbl.get_map bumpU s.u u
  constructor
  · exact h.nodup
  · exact h.pooled_iff
  · exact h.le_cap
  · intro c u
    show s.w.get c = some (.taken u) ↔
      ((∃ k, (Tbl.mk (s.u.l.map (fun e => (e.1, bumpU e.2)))).get u = some (.holding k c)) ∨
       (Tbl.mk (s.u.l.map (fun e => (e.1, bumpU e.2)))).get u = some (.bridged c))
    rw [hg, h.taken_iff c u]
    constructor
    · rintro (⟨k, hk⟩ | hb)
      · exact Or.inl ⟨k, by rw [hk]; rfl⟩
      · exact Or.inr (by rw [hb]; rfl)
    · rintro (⟨k, hk⟩ | hb)
      · obtain ⟨x, hx, hbx⟩ := (map_bump_eq _ _).1 hk
        exact Or.inl ⟨k, by rw [hx, (bumpU_holding x k c).1 hbx]⟩
      · obtain ⟨x, hx, hbx⟩ := (map_bump_eq _ _).1 hb
        exact Or.inr (by rw [hx, (bumpU_bridged x c).1 hbx])
  · exact h.drained_empty
  · exact h.closed_disp
  · intro u k t
    show (Tbl.mk (s.u.l.map (fun e => (e.1, bumpU e.2)))).get u = some (.waiting k t) → t ≤ s.T
    rw [hg]
    intro hw
    obtain ⟨x, hx, hbx⟩ := (map_bump_eq _ _).1 hw
    obtain ⟨t', rfl, rfl⟩ := (bumpU_waiting x k t).1 hbx
    have := Tbl.allCur_get s.u _ ht u _ hx
    simp at this
    omega
  · intro u k
    show ((Tbl.mk (s.u.l.map (fun e => (e.1, bumpU e.2)))).get u = some (.accepted k) ∨
      (∃ t, (Tbl.mk (s.u.l.map (fun e => (e.1, bumpU e.2)))).get u = some (.waiting k t)) ∨
      (∃ c, (Tbl.mk (s.u.l.map (fun e => (e.1, bumpU e.2)))).get u = some (.holding k c))) → k < tries s.pc
    rw [hg]
    rintro (ha | ⟨t, hw⟩ | ⟨c, hc⟩)
    · obtain ⟨x, hx, hbx⟩ := (map_bump_eq _ _).1 ha
      exact h.idx_lt u k (Or.inl (by rw [hx, (bumpU_accepted x k).1 hbx]))
    · obtain ⟨x, hx, hbx⟩ := (map_bump_eq _ _).1 hw
      obtain ⟨t', rfl, _⟩ := (bumpU_waiting x k t).1 hbx
      exact h.idx_lt u k (Or.inr (Or.inl ⟨t', hx⟩))
    · obtain ⟨x, hx, hbx⟩ := (map_bump_eq _ _).1 hc
      exact h.idx_lt u k (Or.inr (Or.inr ⟨c, by rw [hx, (bumpU_holding x k c).1 hbx]⟩))
  · exact h.limbo_late
  · exact h.panic_tries


theorem inv_recvFor {fx : Fix} {s s' : St} {r : Res} (h : Inv fx s) (u k : Nat)
    (hold1 : ∀ k c, s.u.get u ≠ some (.holding k c)) (hold2 : ∀ c, s.u.get u ≠ some (.bridged c))
    (hk : k < tries s.pc) (hr : recvFor s u k = some (s', r)) : Inv fx s' := by
  unfold recvFor at hr
  split at hr
  · rename_i c rest hp
    cases hr
    exact inv_recv h u k c rest _ _ hp hold1 hold2 hk
  · split at hr
    · cases hr
      exact inv_setU h u .closed s.reqs s.ureq hold1 hold2 (by intro _ _ e; cases e) (by intro _ e; cases e)
        (by intro _ _ e; cases e) (by intro _ e; cases e)
    · cases hr

/-- THE INVARIANT IS INDUCTIVE: every enabled label preserves it -/
theorem inv_step {fx : Fix} {s s' : St} {l : Label} {r : Res} (h : Inv fx s)
    (hs : step fx s l = some (s', r)) : Inv fx s' := by
  cases l with
  | dial c =>
    simp only [step] at hs
    split at hs
    · cases hs
    · rename_i hc
      cases hs
      have hn : s.w.get c = none := by
        cases hg : s.w.get c with
        | none => rfl
        | some v => exact absurd (Or.inr (by simp [hg])) hc
      exact inv_setW h c .dialled s.lateSend (by rw [hn]; simp) (by intro u; rw [hn]; simp)
        (by simp) (by intro u; simp) (by intro e; cases e) id
  | lookup c a =>
    simp only [step] at hs
    split at hs
    · cases hs
    · rename_i hc
      have hw : s.w.get c = some .dialled := by
        cases hg : s.w.get c with
        | none => exact absurd (Or.inr (by simp [hg])) hc
        | some v =>
          cases v <;> first | rfl | exact absurd (Or.inr (by simp [hg])) hc
      split at hs
      · cases hs
        exact inv_setW h c .closed s.lateSend (by rw [hw]; simp) (by intro u; rw [hw]; simp)
          (by simp) (by intro u; simp) (by intro e; cases e) id
      · cases hs
        exact inv_setW h c .lookedUp s.lateSend (by rw [hw]; simp) (by intro u; rw [hw]; simp)
          (by simp) (by intro u; simp) (by intro e; cases e) id
  | send c =>
    simp only [step] at hs
    split at hs
    · cases hs
    · rename_i hc
      have hw : s.w.get c = some .lookedUp := by
        cases hg : s.w.get c with
        | none => exact absurd (Or.inr (by simp [hg])) hc
        | some v =>
          cases v <;> first | rfl | exact absurd (Or.inr (by simp [hg])) hc
      split at hs
      · split at hs
        · rename_i hf
          cases hs
          exact inv_setW h c .closed true (by rw [hw]; simp) (by intro u; rw [hw]; simp)
            (by simp) (by intro u; simp) (by intro e; cases e) (fun _ => rfl)
        · rename_i hf
          cases hs
          exact inv_setW h c .limbo true (by rw [hw]; simp) (by intro u; rw [hw]; simp)
            (by simp) (by intro u; simp) (by intro _; exact ⟨rfl, by simpa using hf⟩) (fun _ => rfl)
      · rename_i hpc
        split at hs
        · rename_i hlen
          cases hs
          have hd : s.drained = false := by
            cases hdd : s.drained with
            | false => rfl
            | true => exact absurd (h.drained_empty hdd).2 hpc
          exact inv_send_pooled h c hw hlen hd
        · cases hs
          exact inv_setW h c .closed s.lateSend (by rw [hw]; simp) (by intro u; rw [hw]; simp)
            (by simp) (by intro u; simp) (by intro e; cases e) id
  | accept u =>
    simp only [step] at hs
    split at hs
    · cases hs
    · rename_i hc
      have hn : s.u.get u = none := by
        cases hg : s.u.get u with
        | none => rfl
        | some v => exact absurd (Or.inr (Or.inr (by simp [hg]))) hc
      split at hs
      · rename_i ht
        cases hs
        exact inv_flags h s.dispDone s.poolClosed s.proxyOpen s.inManager true s.px s.pxClosed
          (fun hd => (h.drained_empty hd).2) h.closed_disp (fun _ => ht)
      · rename_i ht
        cases hs
        exact inv_setU h u (.accepted 0) s.reqs s.ureq (by intro k c; rw [hn]; simp) (by intro c; rw [hn]; simp)
          (by intro _ _ e; cases e) (by intro _ e; cases e) (by intro _ _ e; cases e)
          (by intro k e; cases e; omega)
  | take u =>
    simp only [step] at hs
    split at hs
    · cases hs
    · split at hs
      · rename_i k hu
        exact inv_recvFor h u k (by intro k' c; rw [hu]; simp) (by intro c; rw [hu]; simp)
          (h.idx_lt u k (Or.inl hu)) hs
      · cases hs
  | request u ok =>
    simp only [step] at hs
    split at hs
    · cases hs
    · split at hs
      · rename_i k hu
        split at hs
        · cases hs
        · split at hs
          · cases hs
            exact inv_setU h u (.waiting k 0) _ _ (by intro k' c; rw [hu]; simp) (by intro c; rw [hu]; simp)
              (by intro _ _ e; cases e) (by intro _ e; cases e)
              (by intro k' t e; cases e; exact ⟨Nat.zero_le _, h.idx_lt u k (Or.inl hu)⟩)
              (by intro _ e; cases e)
          · split at hs
            · cases hs
              exact inv_setU h u .closed s.reqs s.ureq (by intro k' c; rw [hu]; simp) (by intro c; rw [hu]; simp)
                (by intro _ _ e; cases e) (by intro _ e; cases e) (by intro _ _ e; cases e)
                (by intro _ e; cases e)
            · cases hs
      · cases hs
  | recv u =>
    simp only [step] at hs
    split at hs
    · cases hs
    · split at hs
      · rename_i k t hu
        exact inv_recvFor h u k (by intro k' c; rw [hu]; simp) (by intro c; rw [hu]; simp)
          (h.idx_lt u k (Or.inr (Or.inl ⟨t, hu⟩))) hs
      · cases hs
  | timeout u =>
    simp only [step] at hs
    split at hs
    · cases hs
    · split at hs
      · rename_i k t hu
        split at hs
        · cases hs
          exact inv_setU h u .closed s.reqs s.ureq (by intro k' c; rw [hu]; simp) (by intro c; rw [hu]; simp)
            (by intro _ _ e; cases e) (by intro _ e; cases e) (by intro _ _ e; cases e)
            (by intro _ e; cases e)
        · cases hs
      · cases hs
  | tick =>
    simp only [step] at hs
    split at hs
    · cases hs
    · rename_i hc
      cases hs
      have ht : tickOk s = true := by
        cases hg : tickOk s with
        | true => rfl
        | false => exact absurd (Or.inr hg) hc
      exact inv_tick h ht
  | startMsg u ok =>
    simp only [step] at hs
    split at hs
    · cases hs
    · split at hs
      · rename_i k c hu
        split at hs
        · cases hs
          exact inv_bridge h u k c hu
        · split at hs
          · rename_i hk
            cases hs
            exact inv_release h u c (.accepted (k + 1)) (Or.inl ⟨k, hu⟩) (by intro _ _ e; cases e)
              (by intro _ e; cases e) (by intro _ _ e; cases e) (by intro k' e; cases e; exact hk)
          · cases hs
            exact inv_release h u c .closed (Or.inl ⟨k, hu⟩) (by intro _ _ e; cases e)
              (by intro _ e; cases e) (by intro _ _ e; cases e) (by intro _ e; cases e)
      · cases hs
  | joinEnd u =>
    simp only [step] at hs
    split at hs
    · cases hs
    · split at hs
      · rename_i c hu
        cases hs
        exact inv_release h u c .closed (Or.inr hu) (by intro _ _ e; cases e)
          (by intro _ e; cases e) (by intro _ _ e; cases e) (by intro _ e; cases e)
      · cases hs
  | dispDone =>
    simp only [step] at hs
    split at hs
    · cases hs
    · cases hs
      exact inv_flags h true s.poolClosed s.proxyOpen s.inManager s.panicked s.px s.pxClosed
        (fun hd => (h.drained_empty hd).2) (fun _ => rfl) h.panic_tries
  | closePool =>
    simp only [step] at hs
    split at hs
    · cases hs
    · rename_i hc
      cases hs
      have hd : s.dispDone = true := by
        cases hg : s.dispDone with
        | true => rfl
        | false => exact absurd (Or.inr (Or.inl hg)) hc
      exact inv_flags h s.dispDone true s.proxyOpen s.inManager s.panicked s.px s.pxClosed
        (fun _ => rfl) (fun _ => hd) h.panic_tries
  | drain =>
    simp only [step] at hs
    split at hs
    · cases hs
    · rename_i hc
      cases hs
      have hp : s.poolClosed = true := by
        cases hg : s.poolClosed with
        | true => rfl
        | false => exact absurd (Or.inr (Or.inl hg)) hc
      exact inv_drain h hp
  | closeProxies =>
    simp only [step] at hs
    split at hs
    · cases hs
    · cases hs
      exact inv_flags h s.dispDone s.poolClosed false s.inManager s.panicked [] true
        (fun hd => (h.drained_empty hd).2) h.closed_disp h.panic_tries
  | del =>
    simp only [step] at hs
    split at hs
    · cases hs
    · cases hs
      exact inv_flags h s.dispDone s.poolClosed s.proxyOpen false s.panicked s.px s.pxClosed
        (fun hd => (h.drained_empty hd).2) h.closed_disp h.panic_tries
  | regProxy p =>
    simp only [step] at hs
    split at hs
    · cases hs
    · split at hs
      · split at hs
        · cases hs
        · cases hs
          exact inv_flags h s.dispDone s.poolClosed true s.inManager s.panicked s.px s.pxClosed
            (fun hd => (h.drained_empty hd).2) h.closed_disp h.panic_tries
      · split at hs
        · cases hs
        · cases hs
          exact inv_flags h s.dispDone s.poolClosed s.proxyOpen s.inManager s.panicked (p :: s.px) s.pxClosed
            (fun hd => (h.drained_empty hd).2) h.closed_disp h.panic_tries
  | closeProxy p =>
    simp only [step] at hs
    split at hs
    · cases hs
    · split at hs
      · split at hs
        · cases hs
          exact inv_flags h s.dispDone s.poolClosed false s.inManager s.panicked s.px s.pxClosed
            (fun hd => (h.drained_empty hd).2) h.closed_disp h.panic_tries
        · cases hs
      · split at hs
        · cases hs
          exact inv_flags h s.dispDone s.poolClosed s.proxyOpen s.inManager s.panicked (s.px.erase p) s.pxClosed
            (fun hd => (h.drained_empty hd).2) h.closed_disp h.panic_tries
        · cases hs

/-! ### accounting of ReqWorkConn over the whole session history -/

/-- every ReqWorkConn is either one of the `advance pc` requests of `Start()` or was sent by GetWorkConn
    on behalf of a user connection; registering and closing proxies never asks for anything -/
structure Acct (s : St) : Prop where
  adv_eq : s.adv = advance s.pc
  reqs_eq : s.reqs = s.adv + s.ureq

theorem acct_init (pc : Int) (T : Nat) : Acct (init pc T) := ⟨rfl, rfl⟩

theorem acct_bump {s : St} (h : Acct s) (b : Bool) :
    (if b = true then s.reqs else s.reqs + 1) = s.adv + (if b = true then s.ureq else s.ureq + 1) := by
  have := h.reqs_eq
  cases b <;> simp <;> omega

syntax "acct_cases " ident ident : tactic
macro_rules
  | `(tactic| acct_cases $h $hs) =>
    `(tactic| first
      | (cases $hs:ident; exact ⟨($h).adv_eq, ($h).reqs_eq⟩)
      | (cases $hs:ident; exact ⟨($h).adv_eq, acct_bump $h _⟩)
      | (cases $hs:ident)
      | (split at $hs:ident <;> acct_cases $h $hs))

theorem acct_step {fx : Fix} {s s' : St} {l : Label} {r : Res} (h : Acct s)
    (hs : step fx s l = some (s', r)) : Acct s' := by
  cases l <;> simp only [step, recvFor] at hs <;> acct_cases h hs

theorem inv_reach {fx : Fix} {pc : Int} {T : Nat} {s : St} (h : Reach fx pc T s) : Inv fx s := by
  induction h with
  | init => exact inv_init fx pc T
  | step _ hs ih => exact inv_step ih hs

theorem acct_reach {fx : Fix} {pc : Int} {T : Nat} {s : St} (h : Reach fx pc T s) : Acct s := by
  induction h with
  | init => exact acct_init pc T
  | step _ hs ih => exact acct_step ih hs

end Pool
end Frp
