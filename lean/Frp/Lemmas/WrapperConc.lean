import Frp.Model.WrapperConc
/-
  Lemmas for the interleaving model of the wrapper: every schedule refines the atomic machine
  `Frp.Wrapper.step` (used by Props/C19 Part K).
-/
namespace Frp
namespace WrapperConc
open Wrapper

theorem run_append (w : W) (a b : List Event) :
    run w (a ++ b) = ((run (run w a).1 b).1, (run w a).2.1 ++ (run (run w a).1 b).2.1,
      (run w a).2.2 ++ (run (run w a).1 b).2.2) := by
  induction a generalizing w with
  | nil => simp [run]
  | cons e es ih => simp [run, ih]

theorem run_snoc_state (w : W) (a : List Event) (e : Event) :
    (run w (a ++ [e])).1 = (step (run w a).1 e).1 := by
  rw [run_append]; simp [run]

theorem run_snoc_msgs (w : W) (a : List Event) (e : Event) :
    (run w (a ++ [e])).2.1 = (run w a).2.1 ++ (step (run w a).1 e).2.1 := by
  rw [run_append]; simp [run]

/-- a list of monitor callbacks only moves the health flag -/
theorem run_stores (d : List Event) : ∀ (w : W), (∀ e ∈ d, isStore e = true) →
    (run w d).1 = { w with health := applyStores d w.health } ∧ (run w d).2.1 = [] := by
  induction d with
  | nil => intro w _; simp [run, applyStores]
  | cons e es ih =>
    intro w h
    have he := h e List.mem_cons_self
    have hes : ∀ e' ∈ es, isStore e' = true := fun e' h' => h e' (List.mem_cons_of_mem _ h')
    cases e <;> simp [isStore] at he
    · obtain ⟨i1, i2⟩ := ih (step w .healthUp).1 hes
      simp only [run, i1, i2]
      simp [step, applyStores]
    · obtain ⟨i1, i2⟩ := ih (step w .healthDown).1 hes
      simp only [run, i1, i2]
      simp [step, applyStores]

theorem applyStores_snoc_up (d : List Event) (h : Nat) : applyStores (d ++ [.healthUp]) h = 0 := by
  induction d generalizing h with
  | nil => simp [applyStores]
  | cons e es ih => cases e <;> simp [applyStores, ih]

theorem applyStores_snoc_down (d : List Event) (h : Nat) : applyStores (d ++ [.healthDown]) h = 1 := by
  induction d generalizing h with
  | nil => simp [applyStores]
  | cons e es ih => cases e <;> simp [applyStores, ih]

/-- the refinement relation between a state of the interleaving model and the atomic machine run
    over the linearised events -/
structure Ref (w0 : W) (s : S) : Prop where
  st : (run w0 s.lin).1 = { (fin s).1 with health := hl s }
  ms : (run w0 s.lin).2.1 = s.wire ++ (fin s).2
  df : applyStores s.deferred (hl s) = s.w.health
  dst : ∀ e ∈ s.deferred, isStore e = true
  dn : (∀ now h, s.wpc ≠ .loaded now h) → s.deferred = []
  wc : s.hold.isW = true → s.wpc = .crit
  np : s.wpc ≠ .pendingNew

theorem ref_init (w0 : W) : Ref w0 (init w0) := by
  constructor <;> simp [init, fin, hl, run, applyStores, Hold.isW]

theorem ref_wWake (w0 : W) (s : S) (now : Nat) (h : Ref w0 s) : Ref w0 (sstep s (.wWake now)) := by
  obtain ⟨st, ms, df, dst, dn, wc, np⟩ := h
  simp only [sstep, sstepG]
  split
  · rename_i hs
    have hd : s.deferred = [] := dn (by intro a b; rw [hs]; simp)
    constructor <;> simp_all [fin, hl, applyStores]
  · exact ⟨st, ms, df, dst, dn, wc, np⟩

theorem ref_wExit (w0 : W) (s : S) (h : Ref w0 s) : Ref w0 (sstep s .wExit) := by
  obtain ⟨st, ms, df, dst, dn, wc, np⟩ := h
  simp only [sstep, sstepG]
  split
  · split
    · rename_i hs _
      have hd : s.deferred = [] := dn (by intro a b; rw [hs]; simp)
      constructor <;> simp_all [fin, hl, applyStores]
    · exact ⟨st, ms, df, dst, dn, wc, np⟩
  · exact ⟨st, ms, df, dst, dn, wc, np⟩

theorem ref_wLate (w0 : W) (s : S) (h : Ref w0 s) : Ref w0 (sstep s .wLate) := by
  have np := h.np
  simp only [sstep, sstepG]
  exact h

theorem tick_health (w : W) (now : Nat) : (step w (.tick now)).1.health = w.health := by
  simp only [step]; (repeat' split) <;> rfl

theorem ref_wLock (w0 : W) (s : S) (h : Ref w0 s) : Ref w0 (sstep s .wLock) := by
  obtain ⟨st, ms, df, dst, dn, wc, np⟩ := h
  simp only [sstep, sstepG]
  split
  · rename_i now hh hs hf
    simp only [hf, fin, hs, hl] at st ms df
    obtain ⟨r1, r2⟩ := run_stores s.deferred (step (run w0 s.lin).1 (.tick now)).1 dst
    rw [st] at r1 r2
    constructor
    · simp only [fin, hl]
      rw [run_append, run_append]
      simp only [run, st, r1, tick_health, df]
    · simp only [fin]
      rw [run_append, run_append]
      simp only [run, ms, st, r2]
      simp
    · simp [applyStores, hl]
    · simp
    · simp
    · simp
    · simp
  · exact ⟨st, ms, df, dst, dn, wc, np⟩

theorem stop_health (w : W) (x : Nat) :
    (step { w with health := x } .stop).1 = { (step w .stop).1 with health := x } ∧
    (step { w with health := x } .stop).2.1 = (step w .stop).2.1 := by
  simp only [step]; split <;> simp

theorem resp_health (w : W) (x now : Nat) (e : Bool) :
    (step { w with health := x } (.startResp now e)).1 = { (step w (.startResp now e)).1 with health := x } ∧
    (step { w with health := x } (.startResp now e)).2.1 = (step w (.startResp now e)).2.1 := by
  simp only [step]; (repeat' split) <;> simp_all

theorem ref_stopLock (w0 : W) (s : S) (h : Ref w0 s) : Ref w0 (sstep s .stopLock) := by
  obtain ⟨st, ms, df, dst, dn, wc, np⟩ := h
  simp only [sstep, sstepG]
  split
  · rename_i hf
    simp only [hf, fin] at st ms
    have hlq : hl { s with hold := Hold.sLocked, lin := s.lin ++ [Event.stop] } = hl s := rfl
    constructor
    · simp only [fin, hlq]
      rw [run_snoc_state, st, (stop_health s.w (hl s)).1]
    · simp only [fin]
      rw [run_snoc_msgs, ms, st, (stop_health s.w (hl s)).2]
      simp
    · exact df
    · exact dst
    · exact dn
    · simp [Hold.isW]
    · exact np
  · exact ⟨st, ms, df, dst, dn, wc, np⟩

theorem ref_respLock (w0 : W) (s : S) (now : Nat) (e : Bool) (h : Ref w0 s) :
    Ref w0 (sstep s (.respLock now e)) := by
  obtain ⟨st, ms, df, dst, dn, wc, np⟩ := h
  simp only [sstep, sstepG]
  split
  · rename_i hf
    simp only [hf, fin] at st ms
    have hlq : hl { s with hold := Hold.rLocked now e, lin := s.lin ++ [Event.startResp now e] } = hl s := rfl
    constructor
    · simp only [fin, hlq]
      rw [run_snoc_state, st, (resp_health s.w (hl s) now e).1]
    · simp only [fin]
      rw [run_snoc_msgs, ms, st, (resp_health s.w (hl s) now e).2]
      simp
    · exact df
    · exact dst
    · exact dn
    · simp [Hold.isW]
    · exact np
  · exact ⟨st, ms, df, dst, dn, wc, np⟩

theorem fin_store (s : S) (v : Nat) (d l : List Event) :
    fin { s with w := { s.w with health := v }, deferred := d, lin := l } =
      ({ (fin s).1 with health := v }, (fin s).2) := by
  simp only [fin]
  split <;> simp_all [step] <;> (repeat' split) <;> simp_all

theorem ref_store (w0 : W) (s : S) (v : Nat) (e : Event)
    (he : (e = .healthUp ∧ v = 0) ∨ (e = .healthDown ∧ v = 1)) (h : Ref w0 s) : Ref w0 (store s v e) := by
  obtain ⟨st, ms, df, dst, dn, wc, np⟩ := h
  simp only [store]
  split
  · rename_i now hh hs
    have hlq : hl { s with w := { s.w with health := v }, deferred := s.deferred ++ [e] } = hl s := by
      simp [hl, hs]
    have := fin_store s v (s.deferred ++ [e]) s.lin
    simp only at this
    constructor
    · simp only [hlq, this]; exact st
    · simp only [this]; exact ms
    · simp only [hlq]
      rcases he with ⟨rfl, rfl⟩ | ⟨rfl, rfl⟩
      · exact applyStores_snoc_up _ _
      · exact applyStores_snoc_down _ _
    · intro e' he'
      rcases List.mem_append.mp he' with h1 | h1
      · exact dst e' h1
      · rcases he with ⟨rfl, _⟩ | ⟨rfl, _⟩ <;> simp_all [isStore]
    · intro hc; exact absurd hs (hc now hh)
    · exact wc
    · exact np
  · rename_i hn
    have hd : s.deferred = [] := dn (fun a b hc => hn a b hc)
    have hlq : hl { s with w := { s.w with health := v }, lin := s.lin ++ [e] } = v := by
      simp only [hl]
    have hlo : hl s = s.w.health := by
      simp only [hl]
    have := fin_store s v s.deferred (s.lin ++ [e])
    simp only at this
    constructor
    · simp only [hlq, this]
      rw [run_snoc_state, st]
      rcases he with ⟨rfl, rfl⟩ | ⟨rfl, rfl⟩ <;> simp [step]
    · simp only [this]
      rw [run_snoc_msgs, ms]
      rcases he with ⟨rfl, rfl⟩ | ⟨rfl, rfl⟩ <;> simp [step]
    · simp only [hd, applyStores, hl]
    · exact dst
    · intro _; exact hd
    · exact wc
    · exact np

def wants (p : Phase) (ls le now : Nat) : Bool :=
  p == .new || p == .checkFailed ||
  (p == .waitStart && decide (ls + waitResponseTimeout < now)) ||
  (p == .startErr && decide (le + startErrTimeout < now))

theorem wantsStart_eq (w : W) (now : Nat) : wantsStart w now = wants w.phase w.lastSend w.lastErr now := rfl

theorem ref_hold (w0 : W) (s : S) (h : Ref w0 s) : Ref w0 (sstep s .hold) := by
  obtain ⟨st, ms, df, dst, dn, wc, np⟩ := h
  obtain ⟨w, wpc, hold, closeCh, wire, lin, deferred⟩ := s
  obtain ⟨cfg, id, phase, health, ls, le⟩ := w
  simp only at st ms df dst dn wc np
  simp only [sstep, sstepG, holdStep, wantsStart_eq]
  cases hold <;> simp only [fin, hl, Hold.isW] at st ms df wc ⊢
  all_goals (first | (have hw := wc trivial; subst hw) | skip)
  case wLocked now h =>
    by_cases hws : wants phase ls le now = true <;> by_cases hh : h = 0 <;>
      by_cases hp : (phase = .running ∨ phase = .waitStart) <;>
      (constructor <;> simp_all [fin, hl, step, wantsStart_eq, Hold.isW])
  all_goals (repeat' split)
  all_goals (constructor <;> simp_all [fin, hl, step, Hold.isW])

/-- one step of ANY label keeps the refinement relation -/
theorem ref_step (w0 : W) (s : S) (l : Label) (h : Ref w0 s) : Ref w0 (sstep s l) := by
  cases l with
  | wWake now => exact ref_wWake w0 s now h
  | wExit => exact ref_wExit w0 s h
  | wLock => exact ref_wLock w0 s h
  | wLate => exact ref_wLate w0 s h
  | hold => exact ref_hold w0 s h
  | stopLock => exact ref_stopLock w0 s h
  | respLock now e => exact ref_respLock w0 s now e h
  | healthUp => exact ref_store w0 s 0 .healthUp (Or.inl ⟨rfl, rfl⟩) h
  | healthDown => exact ref_store w0 s 1 .healthDown (Or.inr ⟨rfl, rfl⟩) h

theorem exec_cons (s : S) (l : Label) (ls : List Label) : exec s (l :: ls) = exec (sstep s l) ls := rfl

theorem ref_exec (w0 : W) (ls : List Label) : ∀ (s : S), Ref w0 s → Ref w0 (exec s ls) := by
  induction ls with
  | nil => intro s h; exact h
  | cons l ls ih => intro s h; exact ih _ (ref_step w0 s l h)

/-- the worker stands between its phase write and its send only with `Phase = wait start` (nobody
    else can write the phase meanwhile: every writer needs the mutex) -/
def critOK : Hold → Phase → Bool
  | .wSendNew, p => p == .waitStart
  | .wSendClose, p | .wSetFailed, p => p == .running || p == .waitStart
  | .rSendClose _, p | .rSetErr _, p => p == .waitStart
  | _, _ => true

def SendInv (s : S) : Prop := critOK s.hold s.w.phase = true

theorem sendInv_init (w : W) : SendInv (init w) := by simp [SendInv, init, critOK]

theorem sendInv_step (s : S) (l : Label) (h : SendInv s) : SendInv (sstep s l) := by
  obtain ⟨w, wpc, hold, closeCh, wire, lin, deferred⟩ := s
  obtain ⟨cfg, id, phase, health, ls, le⟩ := w
  simp only [SendInv] at h ⊢
  cases l <;> simp only [sstep, sstepG, holdStep, store]
  all_goals (repeat' split)
  all_goals simp_all [critOK]

theorem sendInv_exec (ls : List Label) : ∀ s, SendInv s → SendInv (exec s ls) := by
  induction ls with
  | nil => intro s h; exact h
  | cons l ls ih => intro s h; exact ih _ (sendInv_step s l h)

/-- once `Phase = closed` is written: every further step of any goroutine leaves it closed and
    appends nothing or one CloseProxy to the wire -/
theorem closed_step (s : S) (l : Label) (h : SendInv s) (hc : s.w.phase = .closed) :
    (sstep s l).w.phase = .closed ∧
    ((sstep s l).wire = s.wire ∨ (sstep s l).wire = s.wire ++ [.closeProxy]) := by
  obtain ⟨w, wpc, hold, closeCh, wire, lin, deferred⟩ := s
  obtain ⟨cfg, id, phase, health, ls, le⟩ := w
  simp only [SendInv] at h hc
  subst hc
  cases l <;> simp only [sstep, sstepG, holdStep, store, wantsStart]
  all_goals (repeat' split)
  all_goals simp_all [critOK]

theorem closed_exec (ls : List Label) : ∀ s, SendInv s → s.w.phase = .closed →
    (exec s ls).w.phase = .closed ∧
    ∃ extra, (exec s ls).wire = s.wire ++ extra ∧ ∀ m ∈ extra, m = Msg.closeProxy := by
  induction ls with
  | nil => intro s _ hc; exact ⟨hc, [], by simp [exec, execG], by simp⟩
  | cons l ls ih =>
    intro s h hc
    obtain ⟨c1, c2⟩ := closed_step s l h hc
    obtain ⟨i1, extra, i2, i3⟩ := ih (sstep s l) (sendInv_step s l h) c1
    refine ⟨i1, ?_⟩
    rcases c2 with c2 | c2
    · exact ⟨extra, by rw [exec_cons, i2, c2], i3⟩
    · refine ⟨.closeProxy :: extra, by rw [exec_cons, i2, c2]; simp, ?_⟩
      intro m hm
      rcases List.mem_cons.mp hm with rfl | hm
      · rfl
      · exact i3 m hm

theorem exec_append (s : S) (a b : List Label) : exec s (a ++ b) = exec (exec s a) b := by
  induction a generalizing s with
  | nil => rfl
  | cons l ls ih => simp only [List.cons_append, exec_cons, ih]

end WrapperConc
end Frp
