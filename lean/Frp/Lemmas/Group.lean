import Frp.Model.Group
/-
  Invariants of the group transition system (Frp/Model/Group.lean) for the controllers that run
  lookup+join and the whole leave under the controller lock (`fx.oneLock = true`, `fx.leaveOne = true`),
  with the leave's two sections (`leaveEdit`, `leaveDel`) as labels of their own.
-/
namespace Frp
namespace Group
open Str

theorem lookup_filter_ne (t : List (Str × Nat)) (a b : Str) (h : a ≠ b) :
    (t.filter (fun e => !(e.1 == b))).lookup a = t.lookup a := by
  induction t with
  | nil => rfl
  | cons x t ih =>
    obtain ⟨k, v⟩ := x
    by_cases hk : k = b
    · subst hk
      have : (a == k) = false := by simpa using h
      simp [List.filter, List.lookup_cons, this, ih]
    · have : (k == b) = false := by simpa using hk
      simp only [List.filter, this, Bool.not_false, List.lookup_cons, ih]

theorem lookup_filter_self (t : List (Str × Nat)) (b : Str) :
    (t.filter (fun e => !(e.1 == b))).lookup b = none := by
  induction t with
  | nil => rfl
  | cons x t ih =>
    obtain ⟨k, v⟩ := x
    by_cases hk : k = b
    · subst hk; simp [List.filter, ih]
    · have h1 : (k == b) = false := by simpa using hk
      have h2 : (b == k) = false := by simpa using (Ne.symm hk)
      simp only [List.filter, h1, Bool.not_false, List.lookup_cons, h2, ih]

theorem obj_of_get {s : St} {gid : Nat} {o : Obj} (h : s.objs[gid]? = some o) : s.obj gid = o := by
  simp [St.obj, h]

theorem get_of_members {s : St} {gid : Nat} (h : (s.obj gid).members ≠ []) :
    s.objs[gid]? = some (s.obj gid) := by
  unfold St.obj at *
  cases hg : s.objs[gid]? with
  | none => rw [hg] at h; simp at h
  | some o => simp

theorem get_of_lnOpen {s : St} {gid : Nat} (h : (s.obj gid).lnOpen = true) :
    s.objs[gid]? = some (s.obj gid) := by
  unfold St.obj at *
  cases hg : s.objs[gid]? with
  | none => rw [hg] at h; simp at h
  | some o => simp

/-- reading an object after one was replaced -/
theorem get_set {l : List Obj} {i j : Nat} {x o : Obj} (h : (l.set i x)[j]? = some o) :
    (j = i ∧ o = x ∧ i < l.length) ∨ (j ≠ i ∧ l[j]? = some o) := by
  rw [List.getElem?_set] at h
  by_cases hij : i = j
  · subst hij
    by_cases hl : i < l.length
    · simp [hl] at h; exact Or.inl ⟨rfl, h.symm, hl⟩
    · simp [hl] at h
  · simp [hij] at h; exact Or.inr ⟨fun e => hij e.symm, h⟩

structure GInv (s : St) : Prop where
  noPanic : s.panicked = false
  /-- the endpoint is open exactly while the object has members -/
  openIff : ∀ (gid : Nat) (o : Obj), s.objs[gid]? = some o → (o.lnOpen = true ↔ o.members ≠ [])
  /-- a populated object has a live hand-off channel and IS the object stored under its name -/
  pop : ∀ (gid : Nat) (o : Obj), s.objs[gid]? = some o → o.members ≠ [] →
          o.chClosed = false ∧ s.table.lookup o.name = some gid
  /-- whatever the table points to exists and has a live channel — or is the object a leave has just
      emptied and is about to delete (that leave then holds the controller lock: `lockNone`) -/
  tab : ∀ g gid, s.table.lookup g = some gid →
          ∃ o, s.objs[gid]? = some o ∧ (o.chClosed = false ∨ ∃ m, (m, gid, g) ∈ s.pdel)
  tabInj : ∀ g g' gid, s.table.lookup g = some gid → s.table.lookup g' = some gid → g = g'
  lockNone : s.lock = none → s.pend = [] ∧ s.pdel = []
  /-- the controller lock is held between two labels either by ONE join between lookup and enter, or by ONE
      leave between its two sections -/
  lockSome : ∀ m, s.lock = some m →
      (∃ g gid, s.pend = [(m, g, gid)] ∧ s.table.lookup g = some gid ∧ s.pdel = []) ∨
      (s.pend = [] ∧ ∃ gid g, s.pdel = [(m, gid, g)])
  /-- a leave between its sections: its object is empty and still the one stored under its name -/
  pdelOk : ∀ m gid g, (m, gid, g) ∈ s.pdel →
      s.table.lookup g = some gid ∧ ∃ o, s.objs[gid]? = some o ∧ o.members = [] ∧ o.name = g

theorem inv_init (k : Kind) (allow : List Nat) : GInv (init k allow) :=
  ⟨rfl, by intro gid o h; simp [init] at h, by intro gid o h; simp [init] at h,
   by intro g gid h; simp [init] at h, by intro g g' gid h; simp [init] at h,
   fun _ => ⟨rfl, rfl⟩, by intro m h; simp [init] at h, by intro m gid g h; simp [init] at h⟩

/-- the invariant reads only these six fields -/
theorem inv_congr {s s' : St} (h : GInv s) (h1 : s'.panicked = s.panicked) (h2 : s'.objs = s.objs)
    (h3 : s'.table = s.table) (h4 : s'.pend = s.pend) (h5 : s'.lock = s.lock)
    (h6 : s'.pdel = s.pdel := by rfl) : GInv s' :=
  ⟨by rw [h1]; exact h.noPanic, by rw [h2]; exact h.openIff, by rw [h2, h3]; exact h.pop,
   by rw [h2, h3, h6]; exact h.tab, by rw [h3]; exact h.tabInj, by rw [h4, h5, h6]; exact h.lockNone,
   by rw [h4, h5, h3, h6]; exact h.lockSome, by rw [h6, h3, h2]; exact h.pdelOk⟩

theorem get_setObj_self {s : St} {gid : Nat} {o o' : Obj} (hg : s.objs[gid]? = some o) :
    (s.setObj gid o').objs[gid]? = some o' := by
  have : gid < s.objs.length := by
    rcases Nat.lt_or_ge gid s.objs.length with hlt | hge
    · exact hlt
    · rw [List.getElem?_eq_none hge] at hg; cases hg
  show (s.objs.set gid o')[gid]? = some o'
  rw [List.getElem?_set]; simp [this]

theorem get_setObj_ne {s : St} {gid j : Nat} {o' : Obj} (h : j ≠ gid) :
    (s.setObj gid o').objs[j]? = s.objs[j]? := by
  show (s.objs.set gid o')[j]? = s.objs[j]?
  rw [List.getElem?_set, if_neg (fun e : gid = j => h e.symm)]

/-- the leaves between their sections keep their (empty, registered) object when an object is replaced by
    one that is empty with the same name whenever the old one was empty -/
theorem pdelOk_setObj {s : St} {gid : Nat} {o' : Obj} (h : GInv s)
    (hm : ∀ o, s.objs[gid]? = some o → o.members = [] → o'.members = [] ∧ o'.name = o.name) :
    ∀ m j g, (m, j, g) ∈ s.pdel →
      s.table.lookup g = some j ∧ ∃ o, (s.setObj gid o').objs[j]? = some o ∧ o.members = [] ∧ o.name = g := by
  intro m j g hmem
  obtain ⟨ht, x, hx, hxm, hxn⟩ := h.pdelOk m j g hmem
  by_cases hj : j = gid
  · subst hj
    exact ⟨ht, o', get_setObj_self hx, (hm x hx hxm).1, by rw [(hm x hx hxm).2]; exact hxn⟩
  · exact ⟨ht, x, by rw [get_setObj_ne hj]; exact hx, hxm, hxn⟩

/-- replacing an object by one with the same name, members, channel and listener state -/
theorem inv_setObj_same {s : St} {gid : Nat} {o o' : Obj} (h : GInv s) (hg : s.objs[gid]? = some o)
    (hn : o'.name = o.name) (hm : o'.members = o.members) (hc : o'.chClosed = o.chClosed)
    (hl : o'.lnOpen = o.lnOpen) : GInv (s.setObj gid o') := by
  refine ⟨h.noPanic, ?_, ?_, ?_, h.tabInj, h.lockNone, h.lockSome, ?_⟩
  · intro j x hx
    rcases get_set hx with ⟨rfl, rfl, _⟩ | ⟨_, hx'⟩
    · rw [hl, hm]; exact h.openIff _ _ hg
    · exact h.openIff _ _ hx'
  · intro j x hx hne
    rcases get_set hx with ⟨rfl, rfl, _⟩ | ⟨_, hx'⟩
    · rw [hc, hn]; rw [hm] at hne; exact h.pop _ _ hg hne
    · exact h.pop _ _ hx' hne
  · intro g j hj
    obtain ⟨x, hx, hxc⟩ := h.tab g j hj
    by_cases hji : j = gid
    · subst hji
      rw [hg] at hx; cases hx
      exact ⟨o', get_setObj_self hg, hxc.imp (fun e => by rw [hc]; exact e) id⟩
    · exact ⟨x, by rw [get_setObj_ne hji]; exact hx, hxc⟩
  · exact pdelOk_setObj h (fun x hx hxm => by rw [hg] at hx; cases hx; exact ⟨by rw [hm]; exact hxm, hn⟩)


theorem inv_setObj_same' {s : St} {gid : Nat} {o' : Obj} (h : GInv s)
    (hn : o'.name = (s.obj gid).name) (hm : o'.members = (s.obj gid).members)
    (hc : o'.chClosed = (s.obj gid).chClosed) (hl : o'.lnOpen = (s.obj gid).lnOpen) :
    GInv (s.setObj gid o') := by
  cases hg : s.objs[gid]? with
  | some o =>
    rw [obj_of_get hg] at hn hm hc hl
    exact inv_setObj_same h hg hn hm hc hl
  | none =>
    have hge : s.objs.length ≤ gid := by
      rcases Nat.lt_or_ge gid s.objs.length with hlt | hge
      · rw [List.getElem?_eq_getElem hlt] at hg; cases hg
      · exact hge
    have : (s.setObj gid o').objs = s.objs := by
      simp only [St.setObj]; exact List.set_eq_of_length_le hge
    exact inv_congr h rfl this rfl rfl rfl

theorem inv_accept {fx : Fix} {s s' : St} {c gid : Nat} {r : Res} (hi : GInv s)
    (hs : step fx s (.accept c gid) = some (s', r)) : GInv s' := by
  simp only [step] at hs
  split at hs
  · cases hs
  · cases hs; exact inv_congr hi rfl rfl rfl rfl rfl

theorem inv_squat {fx : Fix} {s s' : St} {k : EpKey} {r : Res} (hi : GInv s)
    (hs : step fx s (.squat k) = some (s', r)) : GInv s' := by
  simp only [step] at hs
  split at hs
  · cases hs
  · cases hs; exact inv_congr hi rfl rfl rfl rfl rfl

theorem inv_unsquat {fx : Fix} {s s' : St} {k : EpKey} {r : Res} (hi : GInv s)
    (hs : step fx s (.unsquat k) = some (s', r)) : GInv s' := by
  simp only [step] at hs
  split at hs
  · cases hs
  · cases hs; exact inv_congr hi rfl rfl rfl rfl rfl

theorem inv_request {fx : Fix} {s s' : St} {gid : Nat} {r : Res} (hi : GInv s)
    (hs : step fx s (.request gid) = some (s', r)) : GInv s' := by
  simp only [step] at hs
  split at hs
  · cases hs
  · split at hs <;> (cases hs; exact inv_setObj_same' hi rfl rfl rfl rfl)

theorem inv_handoff {fx : Fix} {s s' : St} {c : Nat} {m : Str} {r : Res} (hi : GInv s)
    (hs : step fx s (.handoff c m) = some (s', r)) : GInv s' := by
  simp only [step] at hs
  split at hs
  · cases hs
  · split at hs
    · cases hs
    · rename_i gid _
      have h0 : GInv { s with inflight := s.inflight.filter (fun x => !(x.1 == c)) } :=
        inv_congr hi rfl rfl rfl rfl rfl
      split at hs
      · have h1 := inv_setObj_same' (o' := { s.obj gid with workerDead := true }) h0 rfl rfl rfl rfl
        cases hf : fx.closeOnFail <;> simp only [hf] at hs <;> cases hs <;>
          exact inv_congr h1 rfl rfl rfl rfl rfl
      · split at hs
        · cases hs; exact inv_congr h0 rfl rfl rfl rfl rfl
        · cases hs

theorem inv_send {fx : Fix} {s s' : St} {c : Nat} {r : Res} (hi : GInv s)
    (hs : step fx s (.send c) = some (s', r)) : GInv s' := by
  simp only [step] at hs
  split at hs
  · cases hs
  · split at hs
    · cases hs
    · rename_i gid _
      have h0 : GInv { s with inflight := s.inflight.filter (fun x => !(x.1 == c)) } :=
        inv_congr hi rfl rfl rfl rfl rfl
      split at hs
      · have h1 := inv_setObj_same' (o' := { s.obj gid with workerDead := true }) h0 rfl rfl rfl rfl
        cases hf : fx.closeOnFail <;> simp only [hf] at hs <;> cases hs <;>
          exact inv_congr h1 rfl rfl rfl rfl rfl
      · split at hs
        · cases hs
          exact inv_setObj_same' (o' := { s.obj gid with queue := (s.obj gid).queue ++ [c] }) h0 rfl rfl rfl rfl
        · cases hs

theorem inv_recv {fx : Fix} {s s' : St} {m : Str} {gid : Nat} {r : Res} (hi : GInv s)
    (hs : step fx s (.recv m gid) = some (s', r)) : GInv s' := by
  simp only [step] at hs
  split at hs
  · cases hs
  · split at hs
    · cases hs
    · rename_i c q _
      split at hs
      · cases hs
        exact inv_congr (inv_setObj_same' (o' := { s.obj gid with queue := q }) hi rfl rfl rfl rfl)
          rfl rfl rfl rfl rfl
      · cases hs


/-- members change but stay non-empty (a later join, a leave that is not the last) -/
theorem inv_setObj_ne {s : St} {gid : Nat} {o o' : Obj} (h : GInv s) (hg : s.objs[gid]? = some o)
    (hn : o'.name = o.name) (hm : o.members ≠ []) (hm' : o'.members ≠ [])
    (hc : o'.chClosed = o.chClosed) (hl : o'.lnOpen = o.lnOpen) : GInv (s.setObj gid o') := by
  refine ⟨h.noPanic, ?_, ?_, ?_, h.tabInj, h.lockNone, h.lockSome, ?_⟩
  · intro j x hx
    rcases get_set hx with ⟨rfl, rfl, _⟩ | ⟨_, hx'⟩
    · rw [hl]; exact ⟨fun _ => hm', fun _ => (h.openIff _ _ hg).2 hm⟩
    · exact h.openIff _ _ hx'
  · intro j x hx hne
    rcases get_set hx with ⟨rfl, rfl, _⟩ | ⟨_, hx'⟩
    · rw [hc, hn]; exact h.pop _ _ hg hm
    · exact h.pop _ _ hx' hne
  · intro g j hj
    obtain ⟨x, hx, hxc⟩ := h.tab g j hj
    by_cases hji : j = gid
    · subst hji
      rw [hg] at hx; cases hx
      exact ⟨o', get_setObj_self hg, hxc.imp (fun e => by rw [hc]; exact e) id⟩
    · exact ⟨x, by rw [get_setObj_ne hji]; exact hx, hxc⟩
  · exact pdelOk_setObj h (fun x hx hxm => by rw [hg] at hx; cases hx; exact absurd hxm hm)

/-- the first member populates the object stored under `g` -/
theorem inv_populate {s : St} {g : Str} {gid : Nat} {o' : Obj} (h : GInv s)
    (ht : s.table.lookup g = some gid) (hn : o'.name = g) (hm : o'.members ≠ [])
    (hl : o'.lnOpen = true) (hc : o'.chClosed = (s.obj gid).chClosed) (hpd : s.pdel = []) :
    GInv (s.setObj gid o') := by
  obtain ⟨o, hg, hoc'⟩ := h.tab g gid ht
  have hoc : o.chClosed = false := by
    rcases hoc' with e | ⟨m, hm⟩
    · exact e
    · rw [hpd] at hm; cases hm
  rw [obj_of_get hg] at hc
  refine ⟨h.noPanic, ?_, ?_, ?_, h.tabInj, h.lockNone, h.lockSome,
    by intro m j g' hm; have hm' : (m, j, g') ∈ s.pdel := hm; rw [hpd] at hm'; cases hm'⟩
  · intro j x hx
    rcases get_set hx with ⟨rfl, rfl, _⟩ | ⟨_, hx'⟩
    · exact ⟨fun _ => hm, fun _ => hl⟩
    · exact h.openIff _ _ hx'
  · intro j x hx hne
    rcases get_set hx with ⟨rfl, rfl, _⟩ | ⟨_, hx'⟩
    · rw [hc, hn]; exact ⟨hoc, ht⟩
    · exact h.pop _ _ hx' hne
  · intro g' j hj
    obtain ⟨x, hx, hxc⟩ := h.tab g' j hj
    by_cases hji : j = gid
    · subst hji
      exact ⟨o', get_setObj_self hg, Or.inl (by rw [hc]; exact hoc)⟩
    · exact ⟨x, by rw [get_setObj_ne hji]; exact hx, hxc⟩

/-- the last member leaves: the object is emptied and the name removed from the table -/
theorem inv_remove {s : St} {g : Str} {gid : Nat} {o' : Obj} (h : GInv s)
    (ht : s.table.lookup g = some gid) (hm : o'.members = []) (hl : o'.lnOpen = false)
    (hlock : s.lock = none) :
    GInv { s.setObj gid o' with table := s.table.filter (fun e => !(e.1 == g)) } := by
  obtain ⟨o, hg, _⟩ := h.tab g gid ht
  have hpend := h.lockNone hlock
  have hpd : s.pdel = [] := hpend.2
  refine ⟨h.noPanic, ?_, ?_, ?_, ?_, fun _ => hpend, ?_,
    by intro m j g' hm; have hm' : (m, j, g') ∈ s.pdel := hm; rw [hpd] at hm'; cases hm'⟩
  · intro j x hx
    rcases get_set hx with ⟨rfl, rfl, _⟩ | ⟨_, hx'⟩
    · rw [hl, hm]; simp
    · exact h.openIff _ _ hx'
  · intro j x hx hne
    rcases get_set hx with ⟨rfl, rfl, _⟩ | ⟨hji, hx'⟩
    · exact absurd hm hne
    · obtain ⟨hc, hlk⟩ := h.pop _ _ hx' hne
      have : x.name ≠ g := by
        intro e; rw [e, ht] at hlk; cases hlk; exact hji rfl
      exact ⟨hc, by show List.lookup x.name (s.table.filter _) = some j
                    rw [lookup_filter_ne _ _ _ this]; exact hlk⟩
  · intro g' j hj
    have hj' : List.lookup g' (s.table.filter (fun e => !(e.1 == g))) = some j := hj
    have hne : g' ≠ g := by
      intro e; rw [e, lookup_filter_self] at hj'; cases hj'
    rw [lookup_filter_ne _ _ _ hne] at hj'
    obtain ⟨x, hx, hxc⟩ := h.tab g' j hj'
    have hji : j ≠ gid := by
      intro e; subst e; exact hne (h.tabInj _ _ _ hj' ht)
    exact ⟨x, by rw [get_setObj_ne hji]; exact hx, hxc⟩
  · intro g1 g2 j h1 h2
    have h1' : List.lookup g1 (s.table.filter (fun e => !(e.1 == g))) = some j := h1
    have h2' : List.lookup g2 (s.table.filter (fun e => !(e.1 == g))) = some j := h2
    have n1 : g1 ≠ g := by intro e; rw [e, lookup_filter_self] at h1'; cases h1'
    have n2 : g2 ≠ g := by intro e; rw [e, lookup_filter_self] at h2'; cases h2'
    rw [lookup_filter_ne _ _ _ n1] at h1'
    rw [lookup_filter_ne _ _ _ n2] at h2'
    exact h.tabInj _ _ _ h1' h2'
  · intro m hm'
    have : s.lock = some m := hm'
    rw [hlock] at this; cases this


/-- creating the endpoint touches only `ext` / `leaked` -/
theorem createEp_frame {fx : Fix} {s s1 : St} {p : Params} {orc : Oracle} {res : Except Err (Nat × EpKey)}
    (h : createEp fx s p orc = some (s1, res)) :
    s1.panicked = s.panicked ∧ s1.objs = s.objs ∧ s1.table = s.table ∧ s1.pend = s.pend ∧
      s1.lock = s.lock ∧ s1.kind = s.kind ∧ s1.pdel = s.pdel := by
  unfold createEp at h
  cases p <;> simp only at h <;> (repeat' split at h) <;> (try cases h) <;>
    (first
      | done
      | (refine ⟨?_, ?_, ?_, ?_, ?_, ?_, ?_⟩ <;> (first | rfl | (split <;> rfl))))

theorem inv_enter {fx : Fix} {s s' : St} {m g key : Str} {p : Params} {orc : Oracle} {gid : Nat} {r : Res}
    (hi : GInv s) (ht : s.table.lookup g = some gid) (hpd : s.pdel = [])
    (hs : enter fx s m g key p orc gid = some (s', r)) : GInv s' := by
  unfold enter at hs
  simp only at hs
  split at hs
  · rename_i hemp
    split at hs
    · cases hs
    · rename_i s1 e hce
      cases hs
      obtain ⟨a, b, c, d, e', _, f⟩ := createEp_frame hce
      exact inv_congr hi a b c d e' f
    · rename_i s1 rp k hce
      cases hs
      obtain ⟨a, b, c, d, e', _, f⟩ := createEp_frame hce
      have h1 : GInv s1 := inv_congr hi a b c d e' f
      have ht1 : s1.table.lookup g = some gid := by rw [c]; exact ht
      have hobj : s1.obj gid = s.obj gid := by simp [St.obj, b]
      rw [← hobj]
      exact inv_populate h1 ht1 rfl (by simp) rfl rfl (by rw [f]; exact hpd)
  · rename_i hne
    split at hs
    · cases hs; exact hi
    · split at hs
      · cases hs; exact hi
      · cases hs
        exact inv_setObj_ne hi (get_of_members hne) rfl hne (by simp) rfl rfl

theorem lock_none_of {fx : Fix} (h1 : fx.oneLock = true) {s : St} (h : ¬ (lockFree fx s = false)) :
    s.lock = none := by
  cases hl : s.lock with
  | none => rfl
  | some x => simp [lockFree, h1, hl] at h

theorem inv_lookup {fx : Fix} (h1 : fx.oneLock = true) {s s' : St} {m g : Str} {r : Res}
    (hi : GInv s) (hs : step fx s (.lookup m g) = some (s', r)) : GInv s' := by
  simp only [step] at hs
  split at hs
  · cases hs
  · rename_i hcond
    have hlock : s.lock = none := lock_none_of h1 (fun e => hcond (Or.inr (Or.inl e)))
    obtain ⟨hpend, hpd⟩ := hi.lockNone hlock
    have hnopd : ∀ m j g', (m, j, g') ∈ s.pdel → False := by
      intro m j g' hm; rw [hpd] at hm; cases hm
    split at hs
    · rename_i gid hlk
      cases hs
      refine ⟨hi.noPanic, hi.openIff, hi.pop, hi.tab, hi.tabInj, ?_, ?_, hi.pdelOk⟩
      · intro h; simp at h
      · intro m' hm'
        simp only [Option.some.injEq] at hm'
        subst hm'
        exact Or.inl ⟨g, gid, by simp [hpend], hlk, hpd⟩
    · rename_i hlk
      cases hs
      have hnone : s.table.lookup g = none := hlk
      refine ⟨hi.noPanic, ?_, ?_, ?_, ?_, ?_, ?_, fun m j g' hm => (hnopd m j g' hm).elim⟩
      · intro j x hx
        simp only [List.getElem?_append] at hx
        split at hx
        · exact hi.openIff _ _ hx
        · have : x = {} := by
            rcases Nat.eq_zero_or_pos (j - s.objs.length) with h0 | hp
            · rw [h0] at hx; simp at hx; exact hx.symm
            · rw [List.getElem?_eq_none (by simp; omega)] at hx; cases hx
          subst this; simp
      · intro j x hx hne
        simp only [List.getElem?_append] at hx
        split at hx
        · obtain ⟨hc, hl⟩ := hi.pop _ _ hx hne
          refine ⟨hc, ?_⟩
          have hng : (x.name == g) = false := by
            cases hb : (x.name == g) with
            | false => rfl
            | true =>
              have : x.name = g := by simpa using hb
              rw [this, hnone] at hl; cases hl
          simp only [List.lookup_cons, hng]; exact hl
        · have : x = {} := by
            rcases Nat.eq_zero_or_pos (j - s.objs.length) with h0 | hp
            · rw [h0] at hx; simp at hx; exact hx.symm
            · rw [List.getElem?_eq_none (by simp; omega)] at hx; cases hx
          subst this; simp at hne
      · intro g' j hj
        simp only [List.lookup_cons] at hj
        split at hj
        · cases hj
          exact ⟨{}, by simp, Or.inl rfl⟩
        · obtain ⟨x, hx, hxc⟩ := hi.tab g' j hj
          have hlt : j < s.objs.length := by
            rcases Nat.lt_or_ge j s.objs.length with hlt | hge
            · exact hlt
            · rw [List.getElem?_eq_none hge] at hx; cases hx
          exact ⟨x, by rw [List.getElem?_append, if_pos hlt]; exact hx, hxc⟩
      · intro g1 g2 j hj1 hj2
        have old_lt : ∀ g', s.table.lookup g' = some j → j < s.objs.length := by
          intro g' hg'
          obtain ⟨x, hx, _⟩ := hi.tab g' j hg'
          rcases Nat.lt_or_ge j s.objs.length with hlt | hge
          · exact hlt
          · rw [List.getElem?_eq_none hge] at hx; cases hx
        cases hb1 : (g1 == g) <;> cases hb2 : (g2 == g) <;>
          simp only [List.lookup_cons, hb1, hb2] at hj1 hj2
        · exact hi.tabInj _ _ _ hj1 hj2
        · cases hj2; have := old_lt _ hj1; omega
        · cases hj1; have := old_lt _ hj2; omega
        · have a1 : g1 = g := by simpa using hb1
          have a2 : g2 = g := by simpa using hb2
          rw [a1, a2]
      · intro h; simp at h
      · intro m' hm'
        simp only [Option.some.injEq] at hm'
        subst hm'
        exact Or.inl ⟨g, s.objs.length, by simp [hpend], by simp, hpd⟩


theorem inv_enterStep {fx : Fix} (h1 : fx.oneLock = true) {s s' : St} {m key : Str} {p : Params}
    {orc : Oracle} {r : Res} (hi : GInv s) (hs : step fx s (.enter m key p orc) = some (s', r)) : GInv s' := by
  simp only [step, h1] at hs
  split at hs
  · cases hs
  · split at hs
    · cases hs
    · rename_i m0 g gid hfind
      have hmem := List.mem_of_find?_eq_some hfind
      have hlk : s.lock ≠ none := by
        intro hn; rw [(hi.lockNone hn).1] at hmem; cases hmem
      cases hl : s.lock with
      | none => exact absurd hl hlk
      | some mm =>
        rcases hi.lockSome mm hl with ⟨g0, gid0, hp, ht, hpd⟩ | ⟨hp, _⟩
        · rw [hp] at hmem hfind
          simp only [List.mem_singleton, Prod.mk.injEq] at hmem
          obtain ⟨rfl, rfl, rfl⟩ := hmem
          have hb : (m0 == m) = true := by
            have := List.find?_some hfind; simpa using this
          have h0 : GInv { s with pend := s.pend.filter (fun x => !(x.1 == m)), lock := none } := by
            refine ⟨hi.noPanic, hi.openIff, hi.pop, hi.tab, hi.tabInj, ?_, ?_, hi.pdelOk⟩
            · intro _; exact ⟨by show s.pend.filter _ = []; rw [hp]; simp [hb], hpd⟩
            · intro m' hm'; cases hm'
          exact inv_enter h0 ht hpd hs
        · rw [hp] at hmem; cases hmem

theorem inv_leaveL {fx : Fix} (h1 : fx.oneLock = true) {s s' : St} {m : Str} {gid : Nat} {r : Res}
    (hi : GInv s) (hs : step fx s (.leaveL m gid) = some (s', r)) : GInv s' ∧ r ≠ .crash := by
  simp only [step] at hs
  split at hs
  · cases hs
  · rename_i hcond
    have hlock : s.lock = none := lock_none_of h1 (fun e => hcond (Or.inr (Or.inr e)))
    split at hs
    · cases hs
    · rename_i hmem
      have hmem' : m ∈ (s.obj gid).members := by simpa using hmem
      have hne : (s.obj gid).members ≠ [] := by intro e; rw [e] at hmem'; cases hmem'
      have hg := get_of_members hne
      obtain ⟨hcc, hlk⟩ := hi.pop _ _ hg hne
      split at hs
      · rename_i hms
        cases hs
        exact ⟨inv_setObj_ne hi hg rfl hne hms rfl rfl, by simp⟩
      · split at hs
        · rename_i hc; rw [hcc] at hc; cases hc
        · cases hs
          exact ⟨inv_remove hi hlk rfl rfl hlock, by simp⟩

theorem inv_leaveG {fx : Fix} (h1 : fx.oneLock = true) {s s' : St} {m g : Str} {r : Res}
    (hi : GInv s) (hs : step fx s (.leaveG m g) = some (s', r)) : GInv s' := by
  simp only [step] at hs
  split at hs
  · cases hs
  · rename_i hcond
    have hlock : s.lock = none := lock_none_of h1 (fun e => hcond (Or.inr (Or.inr e)))
    split at hs
    · cases hs; exact hi
    · rename_i gid hlk
      split at hs
      · rename_i hms
        cases hs
        have hne : (s.obj gid).members ≠ [] := by
          intro e; rw [e] at hms; simp at hms
        exact inv_setObj_ne hi (get_of_members hne) rfl hne hms rfl rfl
      · cases hs
        exact inv_remove hi hlk rfl rfl hlock

/-- **section 1 of a leave** (one-section controllers): a leave that is not the last changes the member
    list only; the last one empties the object, closes its endpoint and KEEPS the controller lock — the
    table still names the (now dead) object, and nobody can read the table until `leaveDel` -/
theorem inv_leaveEdit {fx : Fix} (h1 : fx.oneLock = true) (h2 : fx.leaveOne = true) {s s' : St} {m : Str}
    {gid : Nat} {r : Res} (hi : GInv s) (hs : step fx s (.leaveEdit m gid) = some (s', r)) :
    GInv s' ∧ r ≠ .crash := by
  simp only [step, h2, true_and, if_true] at hs
  split at hs
  · cases hs
  · rename_i hcond
    have hlock : s.lock = none := lock_none_of h1 (fun e => hcond (Or.inr (Or.inl e)))
    obtain ⟨hpend, hpd⟩ := hi.lockNone hlock
    split at hs
    · cases hs
    · rename_i hmem
      have hmem' : m ∈ (s.obj gid).members := by simpa using hmem
      have hne : (s.obj gid).members ≠ [] := by intro e; rw [e] at hmem'; cases hmem'
      have hg := get_of_members hne
      obtain ⟨hcc, hlk⟩ := hi.pop _ _ hg hne
      split at hs
      · rename_i hms
        cases hs
        exact ⟨inv_setObj_ne hi hg rfl hne hms rfl rfl, by simp⟩
      · split at hs
        · rename_i hc; rw [hcc] at hc; simp at hc
        · cases hs
          refine ⟨⟨hi.noPanic, ?_, ?_, ?_, hi.tabInj, ?_, ?_, ?_⟩, by simp⟩
          · intro j x hx
            rcases get_set hx with ⟨rfl, rfl, _⟩ | ⟨_, hx'⟩
            · simp
            · exact hi.openIff _ _ hx'
          · intro j x hx hnx
            rcases get_set hx with ⟨rfl, rfl, _⟩ | ⟨_, hx'⟩
            · simp at hnx
            · exact hi.pop _ _ hx' hnx
          · intro g j hj
            obtain ⟨x, hx, hxc⟩ := hi.tab g j hj
            by_cases hji : j = gid
            · subst hji
              have hgn : g = (s.obj j).name := hi.tabInj _ _ _ hj hlk
              exact ⟨_, get_setObj_self hg, Or.inr ⟨m, by rw [hgn]; exact List.mem_cons_self⟩⟩
            · refine ⟨x, by rw [get_setObj_ne hji]; exact hx, ?_⟩
              rcases hxc with e | ⟨m', hm'⟩
              · exact Or.inl e
              · rw [hpd] at hm'; cases hm'
          · intro h; cases h
          · intro m' hm'
            simp only [Option.some.injEq] at hm'
            subst hm'
            exact Or.inr ⟨hpend, gid, (s.obj gid).name, by simp [hpd]⟩
          · intro m' j g hm'
            have hm'' : (m', j, g) ∈ (m, gid, (s.obj gid).name) :: s.pdel := hm'
            rw [hpd] at hm''
            simp only [List.mem_singleton, Prod.mk.injEq] at hm''
            obtain ⟨rfl, rfl, rfl⟩ := hm''
            exact ⟨hlk, _, get_setObj_self hg, rfl, rfl⟩

/-- **section 2 of a leave**: the table entry of the emptied object goes, the controller lock is free again -/
theorem inv_leaveDel {fx : Fix} (h2 : fx.leaveOne = true) {s s' : St} {m : Str} {r : Res}
    (hi : GInv s) (hs : step fx s (.leaveDel m) = some (s', r)) : GInv s' := by
  simp only [step, h2, if_true] at hs
  split at hs
  · cases hs
  · split at hs
    · cases hs
    · rename_i m0 gid name hfind
      simp only [Bool.true_eq_false, false_and, if_false] at hs
      cases hs
      have hmem := List.mem_of_find?_eq_some hfind
      have hb : (m0 == m) = true := by
        have := List.find?_some hfind; simpa using this
      have hm0 : m0 = m := by simpa using hb
      subst hm0
      obtain ⟨ht, o, hg, hom, hon⟩ := hi.pdelOk _ _ _ hmem
      have hlk : s.lock ≠ none := by
        intro hn; rw [(hi.lockNone hn).2] at hmem; cases hmem
      cases hl : s.lock with
      | none => exact absurd hl hlk
      | some mm =>
        rcases hi.lockSome mm hl with ⟨g0, gid0, _, _, hpd⟩ | ⟨hpend, gid1, g1, hpd⟩
        · rw [hpd] at hmem; cases hmem
        · rw [hpd] at hmem
          simp only [List.mem_singleton, Prod.mk.injEq] at hmem
          obtain ⟨rfl, rfl, rfl⟩ := hmem
          have hpd' : s.pdel.filter (fun x => !(x.1 == m0)) = [] := by rw [hpd]; simp
          simp only [ht, if_true]
          refine ⟨hi.noPanic, hi.openIff, ?_, ?_, ?_, fun _ => ⟨hpend, hpd'⟩, (by intro m' h; cases h), ?_⟩
          · intro j x hx hnx
            obtain ⟨hc, hlkx⟩ := hi.pop _ _ hx hnx
            have : x.name ≠ name := by
              intro e; rw [e, ht] at hlkx; cases hlkx
              rw [hg] at hx; cases hx; exact hnx hom
            exact ⟨hc, by show List.lookup x.name (s.table.filter _) = some j
                          rw [lookup_filter_ne _ _ _ this]; exact hlkx⟩
          · intro g' j hj
            have hj' : List.lookup g' (s.table.filter (fun e => !(e.1 == name))) = some j := hj
            have hne : g' ≠ name := by
              intro e; rw [e, lookup_filter_self] at hj'; cases hj'
            rw [lookup_filter_ne _ _ _ hne] at hj'
            obtain ⟨x, hx, hxc⟩ := hi.tab g' j hj'
            refine ⟨x, hx, Or.inl ?_⟩
            rcases hxc with e | ⟨m', hm'⟩
            · exact e
            · rw [hpd] at hm'
              simp only [List.mem_singleton, Prod.mk.injEq] at hm'
              exact absurd hm'.2.2 hne
          · intro g1 g2 j hj1 hj2
            have h1' : List.lookup g1 (s.table.filter (fun e => !(e.1 == name))) = some j := hj1
            have h2' : List.lookup g2 (s.table.filter (fun e => !(e.1 == name))) = some j := hj2
            have n1 : g1 ≠ name := by intro e; rw [e, lookup_filter_self] at h1'; cases h1'
            have n2 : g2 ≠ name := by intro e; rw [e, lookup_filter_self] at h2'; cases h2'
            rw [lookup_filter_ne _ _ _ n1] at h1'
            rw [lookup_filter_ne _ _ _ n2] at h2'
            exact hi.tabInj _ _ _ h1' h2'
          · intro m' j g' hm'
            have hm'' : (m', j, g') ∈ s.pdel.filter (fun x => !(x.1 == m0)) := hm'
            rw [hpd'] at hm''; cases hm''

/-- **the invariant is preserved by every label** (controllers with the one-lock repair whose leaves keep
    the controller lock across both sections) -/
theorem inv_step {fx : Fix} (h1 : fx.oneLock = true) (h2 : fx.leaveOne = true) {s s' : St} {l : Label} {r : Res}
    (hi : GInv s) (hs : step fx s l = some (s', r)) : GInv s' := by
  cases l with
  | lookup m g => exact inv_lookup h1 hi hs
  | enter m key p orc => exact inv_enterStep h1 hi hs
  | leaveL m gid => exact (inv_leaveL h1 hi hs).1
  | leaveG m g => exact inv_leaveG h1 hi hs
  | leaveEdit m gid => exact (inv_leaveEdit h1 h2 hi hs).1
  | leaveDel m => exact inv_leaveDel h2 hi hs
  | accept c gid => exact inv_accept hi hs
  | handoff c m => exact inv_handoff hi hs
  | send c => exact inv_send hi hs
  | recv m gid => exact inv_recv hi hs
  | request gid => exact inv_request hi hs
  | squat k => exact inv_squat hi hs
  | unsquat k => exact inv_unsquat hi hs

/-- … hence holds after every finite label sequence -/
theorem inv_run {fx : Fix} (h1 : fx.oneLock = true) (h2 : fx.leaveOne = true) (ls : List Label) :
    ∀ {s s' : St}, GInv s → run fx s ls = some s' → GInv s' := by
  induction ls with
  | nil => intro s s' hi h; simp [run] at h; subst h; exact hi
  | cons l ls ih =>
    intro s s' hi h
    simp only [run] at h
    split at h
    · cases h
    · rename_i s1 r hstep
      exact ih (inv_step h1 h2 hi hstep) h

end Group
end Frp
