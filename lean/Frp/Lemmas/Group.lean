import Frp.Model.Group
/-
  Invariants of the group transition system (Frp/Model/Group.lean) for the controllers that run
  lookup+join and the whole leave under the controller lock (`fx.oneLock = true`).
-/
namespace Frp
namespace Group
open Str

theorem lookup_filter_ne (t : List (Str × Nat)) (a b : Str) (h : a ≠ b) :
    (t.filter (fun e => !(e.1 == b))).lookup a = t.lookup a := by
  induction t with
  | nil => rfl
  | cons x t ih =>
    obtain ⟨k, v⟩ := x
    by_cases hk : k = b
    · subst hk
      have : (a == k) = false := by simpa using h
      simp [List.filter, List.lookup_cons, this, ih]
    · have : (k == b) = false := by simpa using hk
      simp only [List.filter, this, Bool.not_false, List.lookup_cons, ih]

theorem lookup_filter_self (t : List (Str × Nat)) (b : Str) :
    (t.filter (fun e => !(e.1 == b))).lookup b = none := by
  induction t with
  | nil => rfl
  | cons x t ih =>
    obtain ⟨k, v⟩ := x
    by_cases hk : k = b
    · subst hk; simp [List.filter, ih]
    · have h1 : (k == b) = false := by simpa using hk
      have h2 : (b == k) = false := by simpa using (Ne.symm hk)
      simp only [List.filter, h1, Bool.not_false, List.lookup_cons, h2, ih]

theorem obj_of_get {s : St} {gid : Nat} {o : Obj} (h : s.objs[gid]? = some o) : s.obj gid = o := by
  simp [St.obj, h]

theorem get_of_members {s : St} {gid : Nat} (h : (s.obj gid).members ≠ []) :
    s.objs[gid]? = some (s.obj gid) := by
  unfold St.obj at *
  cases hg : s.objs[gid]? with
  | none => rw [hg] at h; simp at h
  | some o => simp

theorem get_of_lnOpen {s : St} {gid : Nat} (h : (s.obj gid).lnOpen = true) :
    s.objs[gid]? = some (s.obj gid) := by
  unfold St.obj at *
  cases hg : s.objs[gid]? with
  | none => rw [hg] at h; simp at h
  | some o => simp

/-- reading an object after one was replaced -/
theorem get_set {l : List Obj} {i j : Nat} {x o : Obj} (h : (l.set i x)[j]? = some o) :
    (j = i ∧ o = x ∧ i < l.length) ∨ (j ≠ i ∧ l[j]? = some o) := by
  rw [List.getElem?_set] at h
  by_cases hij : i = j
  · subst hij
    by_cases hl : i < l.length
    · simp [hl] at h; exact Or.inl ⟨rfl, h.symm, hl⟩
    · simp [hl] at h
  · simp [hij] at h; exact Or.inr ⟨fun e => hij e.symm, h⟩

structure GInv (s : St) : Prop where
  noPanic : s.panicked = false
  /-- the endpoint is open exactly while the object has members -/
  openIff : ∀ (gid : Nat) (o : Obj), s.objs[gid]? = some o → (o.lnOpen = true ↔ o.members ≠ [])
  /-- a populated object has a live hand-off channel and IS the object stored under its name -/
  pop : ∀ (gid : Nat) (o : Obj), s.objs[gid]? = some o → o.members ≠ [] →
          o.chClosed = false ∧ s.table.lookup o.name = some gid
  /-- whatever the table points to exists and has a live channel -/
  tab : ∀ g gid, s.table.lookup g = some gid → ∃ o, s.objs[gid]? = some o ∧ o.chClosed = false
  tabInj : ∀ g g' gid, s.table.lookup g = some gid → s.table.lookup g' = some gid → g = g'
  lockNone : s.lock = none → s.pend = []
  lockSome : ∀ m, s.lock = some m → ∃ g gid, s.pend = [(m, g, gid)] ∧ s.table.lookup g = some gid

theorem inv_init (k : Kind) (allow : List Nat) : GInv (init k allow) :=
  ⟨rfl, by intro gid o h; simp [init] at h, by intro gid o h; simp [init] at h,
   by intro g gid h; simp [init] at h, by intro g g' gid h; simp [init] at h,
   fun _ => rfl, by intro m h; simp [init] at h⟩

/-- the invariant reads only these five fields -/
theorem inv_congr {s s' : St} (h : GInv s) (h1 : s'.panicked = s.panicked) (h2 : s'.objs = s.objs)
    (h3 : s'.table = s.table) (h4 : s'.pend = s.pend) (h5 : s'.lock = s.lock) : GInv s' :=
  ⟨by rw [h1]; exact h.noPanic, by rw [h2]; exact h.openIff, by rw [h2, h3]; exact h.pop,
   by rw [h2, h3]; exact h.tab, by rw [h3]; exact h.tabInj, by rw [h4, h5]; exact h.lockNone,
   by rw [h4, h5, h3]; exact h.lockSome⟩

/-- replacing an object by one with the same name, members, channel and listener state -/
theorem inv_setObj_same {s : St} {gid : Nat} {o o' : Obj} (h : GInv s) (hg : s.objs[gid]? = some o)
    (hn : o'.name = o.name) (hm : o'.members = o.members) (hc : o'.chClosed = o.chClosed)
    (hl : o'.lnOpen = o.lnOpen) : GInv (s.setObj gid o') := by
  refine ⟨h.noPanic, ?_, ?_, ?_, h.tabInj, h.lockNone, h.lockSome⟩
  · intro j x hx
    rcases get_set hx with ⟨rfl, rfl, _⟩ | ⟨_, hx'⟩
    · rw [hl, hm]; exact h.openIff _ _ hg
    · exact h.openIff _ _ hx'
  · intro j x hx hne
    rcases get_set hx with ⟨rfl, rfl, _⟩ | ⟨_, hx'⟩
    · rw [hc, hn]; rw [hm] at hne; exact h.pop _ _ hg hne
    · exact h.pop _ _ hx' hne
  · intro g j hj
    obtain ⟨x, hx, hxc⟩ := h.tab g j hj
    by_cases hji : j = gid
    · subst hji
      rw [hg] at hx; cases hx
      refine ⟨o', ?_, by rw [hc]; exact hxc⟩
      show (s.objs.set j o')[j]? = some o'
      rw [List.getElem?_set]
      have : j < s.objs.length := by
        rcases Nat.lt_or_ge j s.objs.length with hlt | hge
        · exact hlt
        · rw [List.getElem?_eq_none hge] at hg; cases hg
      simp [this]
    · refine ⟨x, ?_, hxc⟩
      show (s.objs.set gid o')[j]? = some x
      rw [List.getElem?_set, if_neg (fun e : gid = j => hji e.symm)]; exact hx


theorem inv_setObj_same' {s : St} {gid : Nat} {o' : Obj} (h : GInv s)
    (hn : o'.name = (s.obj gid).name) (hm : o'.members = (s.obj gid).members)
    (hc : o'.chClosed = (s.obj gid).chClosed) (hl : o'.lnOpen = (s.obj gid).lnOpen) :
    GInv (s.setObj gid o') := by
  cases hg : s.objs[gid]? with
  | some o =>
    rw [obj_of_get hg] at hn hm hc hl
    exact inv_setObj_same h hg hn hm hc hl
  | none =>
    have hge : s.objs.length ≤ gid := by
      rcases Nat.lt_or_ge gid s.objs.length with hlt | hge
      · rw [List.getElem?_eq_getElem hlt] at hg; cases hg
      · exact hge
    have : (s.setObj gid o').objs = s.objs := by
      simp only [St.setObj]; exact List.set_eq_of_length_le hge
    exact inv_congr h rfl this rfl rfl rfl

theorem inv_accept {fx : Fix} {s s' : St} {c gid : Nat} {r : Res} (hi : GInv s)
    (hs : step fx s (.accept c gid) = some (s', r)) : GInv s' := by
  simp only [step] at hs
  split at hs
  · cases hs
  · cases hs; exact inv_congr hi rfl rfl rfl rfl rfl

theorem inv_squat {fx : Fix} {s s' : St} {k : EpKey} {r : Res} (hi : GInv s)
    (hs : step fx s (.squat k) = some (s', r)) : GInv s' := by
  simp only [step] at hs
  split at hs
  · cases hs
  · cases hs; exact inv_congr hi rfl rfl rfl rfl rfl

theorem inv_unsquat {fx : Fix} {s s' : St} {k : EpKey} {r : Res} (hi : GInv s)
    (hs : step fx s (.unsquat k) = some (s', r)) : GInv s' := by
  simp only [step] at hs
  split at hs
  · cases hs
  · cases hs; exact inv_congr hi rfl rfl rfl rfl rfl

theorem inv_request {fx : Fix} {s s' : St} {gid : Nat} {r : Res} (hi : GInv s)
    (hs : step fx s (.request gid) = some (s', r)) : GInv s' := by
  simp only [step] at hs
  split at hs
  · cases hs
  · split at hs <;> (cases hs; exact inv_setObj_same' hi rfl rfl rfl rfl)

theorem inv_handoff {fx : Fix} {s s' : St} {c : Nat} {m : Str} {r : Res} (hi : GInv s)
    (hs : step fx s (.handoff c m) = some (s', r)) : GInv s' := by
  simp only [step] at hs
  split at hs
  · cases hs
  · split at hs
    · cases hs
    · rename_i gid _
      have h0 : GInv { s with inflight := s.inflight.filter (fun x => !(x.1 == c)) } :=
        inv_congr hi rfl rfl rfl rfl rfl
      split at hs
      · have h1 := inv_setObj_same' (o' := { s.obj gid with workerDead := true }) h0 rfl rfl rfl rfl
        cases hf : fx.closeOnFail <;> simp only [hf] at hs <;> cases hs <;>
          exact inv_congr h1 rfl rfl rfl rfl rfl
      · split at hs
        · cases hs; exact inv_congr h0 rfl rfl rfl rfl rfl
        · cases hs

theorem inv_send {fx : Fix} {s s' : St} {c : Nat} {r : Res} (hi : GInv s)
    (hs : step fx s (.send c) = some (s', r)) : GInv s' := by
  simp only [step] at hs
  split at hs
  · cases hs
  · split at hs
    · cases hs
    · rename_i gid _
      have h0 : GInv { s with inflight := s.inflight.filter (fun x => !(x.1 == c)) } :=
        inv_congr hi rfl rfl rfl rfl rfl
      split at hs
      · have h1 := inv_setObj_same' (o' := { s.obj gid with workerDead := true }) h0 rfl rfl rfl rfl
        cases hf : fx.closeOnFail <;> simp only [hf] at hs <;> cases hs <;>
          exact inv_congr h1 rfl rfl rfl rfl rfl
      · split at hs
        · cases hs
          exact inv_setObj_same' (o' := { s.obj gid with queue := (s.obj gid).queue ++ [c] }) h0 rfl rfl rfl rfl
        · cases hs

theorem inv_recv {fx : Fix} {s s' : St} {m : Str} {gid : Nat} {r : Res} (hi : GInv s)
    (hs : step fx s (.recv m gid) = some (s', r)) : GInv s' := by
  simp only [step] at hs
  split at hs
  · cases hs
  · split at hs
    · cases hs
    · rename_i c q _
      split at hs
      · cases hs
        exact inv_congr (inv_setObj_same' (o' := { s.obj gid with queue := q }) hi rfl rfl rfl rfl)
          rfl rfl rfl rfl rfl
      · cases hs


theorem get_setObj_self {s : St} {gid : Nat} {o o' : Obj} (hg : s.objs[gid]? = some o) :
    (s.setObj gid o').objs[gid]? = some o' := by
  have : gid < s.objs.length := by
    rcases Nat.lt_or_ge gid s.objs.length with hlt | hge
    · exact hlt
    · rw [List.getElem?_eq_none hge] at hg; cases hg
  show (s.objs.set gid o')[gid]? = some o'
  rw [List.getElem?_set]; simp [this]

theorem get_setObj_ne {s : St} {gid j : Nat} {o' : Obj} (h : j ≠ gid) :
    (s.setObj gid o').objs[j]? = s.objs[j]? := by
  show (s.objs.set gid o')[j]? = s.objs[j]?
  rw [List.getElem?_set, if_neg (fun e : gid = j => h e.symm)]

/-- members change but stay non-empty (a later join, a leave that is not the last) -/
theorem inv_setObj_ne {s : St} {gid : Nat} {o o' : Obj} (h : GInv s) (hg : s.objs[gid]? = some o)
    (hn : o'.name = o.name) (hm : o.members ≠ []) (hm' : o'.members ≠ [])
    (hc : o'.chClosed = o.chClosed) (hl : o'.lnOpen = o.lnOpen) : GInv (s.setObj gid o') := by
  refine ⟨h.noPanic, ?_, ?_, ?_, h.tabInj, h.lockNone, h.lockSome⟩
  · intro j x hx
    rcases get_set hx with ⟨rfl, rfl, _⟩ | ⟨_, hx'⟩
    · rw [hl]; exact ⟨fun _ => hm', fun _ => (h.openIff _ _ hg).2 hm⟩
    · exact h.openIff _ _ hx'
  · intro j x hx hne
    rcases get_set hx with ⟨rfl, rfl, _⟩ | ⟨_, hx'⟩
    · rw [hc, hn]; exact h.pop _ _ hg hm
    · exact h.pop _ _ hx' hne
  · intro g j hj
    obtain ⟨x, hx, hxc⟩ := h.tab g j hj
    by_cases hji : j = gid
    · subst hji
      rw [hg] at hx; cases hx
      exact ⟨o', get_setObj_self hg, by rw [hc]; exact hxc⟩
    · exact ⟨x, by rw [get_setObj_ne hji]; exact hx, hxc⟩

/-- the first member populates the object stored under `g` -/
theorem inv_populate {s : St} {g : Str} {gid : Nat} {o' : Obj} (h : GInv s)
    (ht : s.table.lookup g = some gid) (hn : o'.name = g) (hm : o'.members ≠ [])
    (hl : o'.lnOpen = true) (hc : o'.chClosed = (s.obj gid).chClosed) : GInv (s.setObj gid o') := by
  obtain ⟨o, hg, hoc⟩ := h.tab g gid ht
  rw [obj_of_get hg] at hc
  refine ⟨h.noPanic, ?_, ?_, ?_, h.tabInj, h.lockNone, h.lockSome⟩
  · intro j x hx
    rcases get_set hx with ⟨rfl, rfl, _⟩ | ⟨_, hx'⟩
    · exact ⟨fun _ => hm, fun _ => hl⟩
    · exact h.openIff _ _ hx'
  · intro j x hx hne
    rcases get_set hx with ⟨rfl, rfl, _⟩ | ⟨_, hx'⟩
    · rw [hc, hn]; exact ⟨hoc, ht⟩
    · exact h.pop _ _ hx' hne
  · intro g' j hj
    obtain ⟨x, hx, hxc⟩ := h.tab g' j hj
    by_cases hji : j = gid
    · subst hji
      exact ⟨o', get_setObj_self hg, by rw [hc]; exact hoc⟩
    · exact ⟨x, by rw [get_setObj_ne hji]; exact hx, hxc⟩

/-- the last member leaves: the object is emptied and the name removed from the table -/
theorem inv_remove {s : St} {g : Str} {gid : Nat} {o' : Obj} (h : GInv s)
    (ht : s.table.lookup g = some gid) (hm : o'.members = []) (hl : o'.lnOpen = false)
    (hlock : s.lock = none) :
    GInv { s.setObj gid o' with table := s.table.filter (fun e => !(e.1 == g)) } := by
  obtain ⟨o, hg, _⟩ := h.tab g gid ht
  have hpend := h.lockNone hlock
  refine ⟨h.noPanic, ?_, ?_, ?_, ?_, fun _ => hpend, ?_⟩
  · intro j x hx
    rcases get_set hx with ⟨rfl, rfl, _⟩ | ⟨_, hx'⟩
    · rw [hl, hm]; simp
    · exact h.openIff _ _ hx'
  · intro j x hx hne
    rcases get_set hx with ⟨rfl, rfl, _⟩ | ⟨hji, hx'⟩
    · exact absurd hm hne
    · obtain ⟨hc, hlk⟩ := h.pop _ _ hx' hne
      have : x.name ≠ g := by
        intro e; rw [e, ht] at hlk; cases hlk; exact hji rfl
      exact ⟨hc, by show List.lookup x.name (s.table.filter _) = some j
                    rw [lookup_filter_ne _ _ _ this]; exact hlk⟩
  · intro g' j hj
    have hj' : List.lookup g' (s.table.filter (fun e => !(e.1 == g))) = some j := hj
    have hne : g' ≠ g := by
      intro e; rw [e, lookup_filter_self] at hj'; cases hj'
    rw [lookup_filter_ne _ _ _ hne] at hj'
    obtain ⟨x, hx, hxc⟩ := h.tab g' j hj'
    have hji : j ≠ gid := by
      intro e; subst e; exact hne (h.tabInj _ _ _ hj' ht)
    exact ⟨x, by rw [get_setObj_ne hji]; exact hx, hxc⟩
  · intro g1 g2 j h1 h2
    have h1' : List.lookup g1 (s.table.filter (fun e => !(e.1 == g))) = some j := h1
    have h2' : List.lookup g2 (s.table.filter (fun e => !(e.1 == g))) = some j := h2
    have n1 : g1 ≠ g := by intro e; rw [e, lookup_filter_self] at h1'; cases h1'
    have n2 : g2 ≠ g := by intro e; rw [e, lookup_filter_self] at h2'; cases h2'
    rw [lookup_filter_ne _ _ _ n1] at h1'
    rw [lookup_filter_ne _ _ _ n2] at h2'
    exact h.tabInj _ _ _ h1' h2'
  · intro m hm'
    have : s.lock = some m := hm'
    rw [hlock] at this; cases this


/-- creating the endpoint touches only `ext` / `leaked` -/
theorem createEp_frame {fx : Fix} {s s1 : St} {p : Params} {orc : Oracle} {res : Except Err (Nat × EpKey)}
    (h : createEp fx s p orc = some (s1, res)) :
    s1.panicked = s.panicked ∧ s1.objs = s.objs ∧ s1.table = s.table ∧ s1.pend = s.pend ∧
      s1.lock = s.lock ∧ s1.kind = s.kind := by
  unfold createEp at h
  cases p <;> simp only at h <;> (repeat' split at h) <;> (try cases h) <;>
    (first
      | done
      | (refine ⟨?_, ?_, ?_, ?_, ?_, ?_⟩ <;> (first | rfl | (split <;> rfl))))

theorem inv_enter {fx : Fix} {s s' : St} {m g key : Str} {p : Params} {orc : Oracle} {gid : Nat} {r : Res}
    (hi : GInv s) (ht : s.table.lookup g = some gid)
    (hs : enter fx s m g key p orc gid = some (s', r)) : GInv s' := by
  unfold enter at hs
  simp only at hs
  split at hs
  · rename_i hemp
    split at hs
    · cases hs
    · rename_i s1 e hce
      cases hs
      obtain ⟨a, b, c, d, e', _⟩ := createEp_frame hce
      exact inv_congr hi a b c d e'
    · rename_i s1 rp k hce
      cases hs
      obtain ⟨a, b, c, d, e', _⟩ := createEp_frame hce
      have h1 : GInv s1 := inv_congr hi a b c d e'
      have ht1 : s1.table.lookup g = some gid := by rw [c]; exact ht
      have hobj : s1.obj gid = s.obj gid := by simp [St.obj, b]
      rw [← hobj]
      exact inv_populate h1 ht1 rfl (by simp) rfl rfl
  · rename_i hne
    split at hs
    · cases hs; exact hi
    · split at hs
      · cases hs; exact hi
      · cases hs
        exact inv_setObj_ne hi (get_of_members hne) rfl hne (by simp) rfl rfl

theorem inv_lookup {fx : Fix} (h1 : fx.oneLock = true) {s s' : St} {m g : Str} {r : Res}
    (hi : GInv s) (hs : step fx s (.lookup m g) = some (s', r)) : GInv s' := by
  simp only [step, lockFree, h1] at hs
  split at hs
  · cases hs
  · rename_i hcond
    have hlock : s.lock = none := by
      cases hl : s.lock with
      | none => rfl
      | some x => simp [hl] at hcond
    have hpend := hi.lockNone hlock
    split at hs
    · rename_i gid hlk
      cases hs
      refine ⟨hi.noPanic, hi.openIff, hi.pop, hi.tab, hi.tabInj, ?_, ?_⟩
      · intro h; simp at h
      · intro m' hm'
        simp only [Option.some.injEq, if_true] at hm'
        subst hm'
        exact ⟨g, gid, by simp [hpend], hlk⟩
    · rename_i hlk
      cases hs
      have hnone : s.table.lookup g = none := hlk
      refine ⟨hi.noPanic, ?_, ?_, ?_, ?_, ?_, ?_⟩
      · intro j x hx
        simp only [List.getElem?_append] at hx
        split at hx
        · exact hi.openIff _ _ hx
        · have : x = {} := by
            rcases Nat.eq_zero_or_pos (j - s.objs.length) with h0 | hp
            · rw [h0] at hx; simp at hx; exact hx.symm
            · rw [List.getElem?_eq_none (by simp; omega)] at hx; cases hx
          subst this; simp
      · intro j x hx hne
        simp only [List.getElem?_append] at hx
        split at hx
        · obtain ⟨hc, hl⟩ := hi.pop _ _ hx hne
          refine ⟨hc, ?_⟩
          have hng : (x.name == g) = false := by
            cases hb : (x.name == g) with
            | false => rfl
            | true =>
              have : x.name = g := by simpa using hb
              rw [this, hnone] at hl; cases hl
          simp only [List.lookup_cons, hng]; exact hl
        · have : x = {} := by
            rcases Nat.eq_zero_or_pos (j - s.objs.length) with h0 | hp
            · rw [h0] at hx; simp at hx; exact hx.symm
            · rw [List.getElem?_eq_none (by simp; omega)] at hx; cases hx
          subst this; simp at hne
      · intro g' j hj
        simp only [List.lookup_cons] at hj
        split at hj
        · cases hj
          exact ⟨{}, by simp, rfl⟩
        · obtain ⟨x, hx, hxc⟩ := hi.tab g' j hj
          have hlt : j < s.objs.length := by
            rcases Nat.lt_or_ge j s.objs.length with hlt | hge
            · exact hlt
            · rw [List.getElem?_eq_none hge] at hx; cases hx
          exact ⟨x, by rw [List.getElem?_append, if_pos hlt]; exact hx, hxc⟩
      · intro g1 g2 j hj1 hj2
        have old_lt : ∀ g', s.table.lookup g' = some j → j < s.objs.length := by
          intro g' hg'
          obtain ⟨x, hx, _⟩ := hi.tab g' j hg'
          rcases Nat.lt_or_ge j s.objs.length with hlt | hge
          · exact hlt
          · rw [List.getElem?_eq_none hge] at hx; cases hx
        cases hb1 : (g1 == g) <;> cases hb2 : (g2 == g) <;>
          simp only [List.lookup_cons, hb1, hb2] at hj1 hj2
        · exact hi.tabInj _ _ _ hj1 hj2
        · cases hj2; have := old_lt _ hj1; omega
        · cases hj1; have := old_lt _ hj2; omega
        · have a1 : g1 = g := by simpa using hb1
          have a2 : g2 = g := by simpa using hb2
          rw [a1, a2]
      · intro h; simp at h
      · intro m' hm'
        simp only [Option.some.injEq, if_true] at hm'
        subst hm'
        exact ⟨g, s.objs.length, by simp [hpend], by simp⟩


theorem inv_enterStep {fx : Fix} (h1 : fx.oneLock = true) {s s' : St} {m key : Str} {p : Params}
    {orc : Oracle} {r : Res} (hi : GInv s) (hs : step fx s (.enter m key p orc) = some (s', r)) : GInv s' := by
  simp only [step, h1] at hs
  split at hs
  · cases hs
  · split at hs
    · cases hs
    · rename_i m0 g gid hfind
      have hmem := List.mem_of_find?_eq_some hfind
      have hlk : s.lock ≠ none := by
        intro hn; rw [hi.lockNone hn] at hmem; cases hmem
      cases hl : s.lock with
      | none => exact absurd hl hlk
      | some mm =>
        obtain ⟨g0, gid0, hp, ht⟩ := hi.lockSome mm hl
        rw [hp] at hmem hfind
        simp only [List.mem_singleton, Prod.mk.injEq] at hmem
        obtain ⟨rfl, rfl, rfl⟩ := hmem
        have hb : (m0 == m) = true := by
          have := List.find?_some hfind; simpa using this
        have h0 : GInv { s with pend := s.pend.filter (fun x => !(x.1 == m)), lock := none } := by
          refine ⟨hi.noPanic, hi.openIff, hi.pop, hi.tab, hi.tabInj, ?_, ?_⟩
          · intro _; show s.pend.filter _ = []; rw [hp]; simp [hb]
          · intro m' hm'; cases hm'
        exact inv_enter h0 ht hs

theorem inv_leaveL {fx : Fix} (h1 : fx.oneLock = true) {s s' : St} {m : Str} {gid : Nat} {r : Res}
    (hi : GInv s) (hs : step fx s (.leaveL m gid) = some (s', r)) : GInv s' ∧ r ≠ .crash := by
  simp only [step, lockFree, h1] at hs
  split at hs
  · cases hs
  · rename_i hcond
    have hlock : s.lock = none := by
      cases hl : s.lock with
      | none => rfl
      | some x => simp [hl] at hcond
    split at hs
    · cases hs
    · rename_i hmem
      have hmem' : m ∈ (s.obj gid).members := by simpa using hmem
      have hne : (s.obj gid).members ≠ [] := by intro e; rw [e] at hmem'; cases hmem'
      have hg := get_of_members hne
      obtain ⟨hcc, hlk⟩ := hi.pop _ _ hg hne
      split at hs
      · rename_i hms
        cases hs
        exact ⟨inv_setObj_ne hi hg rfl hne hms rfl rfl, by simp⟩
      · split at hs
        · rename_i hc; rw [hcc] at hc; cases hc
        · cases hs
          exact ⟨inv_remove hi hlk rfl rfl hlock, by simp⟩

theorem inv_leaveG {fx : Fix} (h1 : fx.oneLock = true) {s s' : St} {m g : Str} {r : Res}
    (hi : GInv s) (hs : step fx s (.leaveG m g) = some (s', r)) : GInv s' := by
  simp only [step, lockFree, h1] at hs
  split at hs
  · cases hs
  · rename_i hcond
    have hlock : s.lock = none := by
      cases hl : s.lock with
      | none => rfl
      | some x => simp [hl] at hcond
    split at hs
    · cases hs; exact hi
    · rename_i gid hlk
      split at hs
      · rename_i hms
        cases hs
        have hne : (s.obj gid).members ≠ [] := by
          intro e; rw [e] at hms; simp at hms
        exact inv_setObj_ne hi (get_of_members hne) rfl hne hms rfl rfl
      · cases hs
        exact inv_remove hi hlk rfl rfl hlock

/-- **the invariant is preserved by every label** (controllers with the one-lock repair) -/
theorem inv_step {fx : Fix} (h1 : fx.oneLock = true) {s s' : St} {l : Label} {r : Res}
    (hi : GInv s) (hs : step fx s l = some (s', r)) : GInv s' := by
  cases l with
  | lookup m g => exact inv_lookup h1 hi hs
  | enter m key p orc => exact inv_enterStep h1 hi hs
  | leaveL m gid => exact (inv_leaveL h1 hi hs).1
  | leaveG m g => exact inv_leaveG h1 hi hs
  | accept c gid => exact inv_accept hi hs
  | handoff c m => exact inv_handoff hi hs
  | send c => exact inv_send hi hs
  | recv m gid => exact inv_recv hi hs
  | request gid => exact inv_request hi hs
  | squat k => exact inv_squat hi hs
  | unsquat k => exact inv_unsquat hi hs

/-- … hence holds after every finite label sequence -/
theorem inv_run {fx : Fix} (h1 : fx.oneLock = true) (ls : List Label) :
    ∀ {s s' : St}, GInv s → run fx s ls = some s' → GInv s' := by
  induction ls with
  | nil => intro s s' hi h; simp [run] at h; subst h; exact hi
  | cons l ls ih =>
    intro s s' hi h
    simp only [run] at h
    split at h
    · cases h
    · rename_i s1 r hstep
      exact ih (inv_step h1 hi hstep) h

end Group
end Frp
