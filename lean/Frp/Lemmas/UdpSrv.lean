import Frp.Model.UdpSrv
import Frp.Lemmas.Udp
/-
  Invariants of the server-side udp proxy machine (Frp/Model/UdpSrv.lean), core Lean only.
  The property statements are in Frp/Props/C03.lean (section 6).
-/
namespace Frp
namespace UdpSrv
open Udp Base64

/-- packets built by `ForwardUserConn` from a logged user datagram -/
def UpOK (s : St) (m : Packet) : Prop :=
  ∃ a p, (a, p) ∈ s.sent ∧ isBytes p = true ∧ m = packetOf (rd s.bs p) none (some a)

/-- upstream drop reasons: overload, write on a lost work connection -/
def okUp : SDrop → Bool
  | .sendFull | .connDown => true
  | _ => false

structure Inv (s : St) : Prop where
  /-- every datagram that arrived at the public socket is exactly one of: queued, written on some work
      connection, dropped (a sender holds a datagram only inside its atomic step) -/
  up : ∀ x : View, s.sentV.count x =
      (s.sendCh.map view).count x + (s.wire.map Prod.snd).count x + (s.dropUp.map Prod.snd).count x
  down : ∀ x : View, (s.inLog.map Prod.snd).count x =
      (s.readCh.map view).count x + (s.userLog.map uview).count x + (s.dropDown.map Prod.snd).count x
  sentEq : s.sentV = s.sent.map (fun e => (some e.1, some (rd s.bs e.2)))
  upOK : ∀ m ∈ s.sendCh, UpOK s m
  wireGen : ∀ e ∈ s.wire, 1 ≤ e.1 ∧ e.1 ≤ s.gen
  inGen : ∀ e ∈ s.inLog, 1 ≤ e.1 ∧ e.1 ≤ s.gen
  /-- between two work connections no reader exists -/
  atGet : s.loop = .get → s.readers = [] ∧ s.signal = []
  /-- while the loop watches, exactly the reader of the current connection exists -/
  atWatch : s.loop = .watch →
      1 ≤ s.gen ∧ ((s.readers = [s.gen] ∧ s.signal = []) ∨ (s.readers = [] ∧ s.signal = [s.gen]))
  atWoken : s.loop = .woken → 1 ≤ s.gen ∧ s.readers = [] ∧ s.signal = []
  /-- a sender that is alive is either cancelled or it is the sender of the current connection and the loop
      has not passed `cancel()` -/
  sendersOK : ∀ g ∈ s.senders, 1 ≤ g ∧ g ≤ s.gen ∧ (g ∈ s.cancelled ∨ (g = s.gen ∧ s.loop ≠ .get))
  sendersNodup : s.senders.Nodup
  cancelledOK : ∀ g ∈ s.cancelled, g ≤ s.gen ∧ (g = s.gen → s.loop = .get)
  deadOK : ∀ g ∈ s.dead, g ≤ s.gen
  /-- the current connection is closed locally while its reader still runs only by its own sender's failed write -/
  deadCur : s.gen ∈ s.dead → s.loop = .watch → s.readers = [s.gen] → s.gen ∉ s.senders
  dropReason : ∀ e ∈ s.dropUp, okUp e.1 = true

theorem inv_init (bs cap : Nat) : Inv (init bs cap) := by
  constructor <;> simp [init, UpOK]

theorem UpOK.mono {s s' : St} {m : Packet} (hs : ∀ e ∈ s.sent, e ∈ s'.sent) (hb : s'.bs = s.bs)
    (h : UpOK s m) : UpOK s' m := by
  obtain ⟨a, p, hin, hbytes, rfl⟩ := h
  exact ⟨a, p, hs _ hin, hbytes, by rw [hb]⟩

theorem UpOK.same {s s' : St} {m : Packet} (hs : s'.sent = s.sent) (hb : s'.bs = s.bs)
    (h : UpOK s m) : UpOK s' m :=
  h.mono (fun e he => by rw [hs]; exact he) hb

theorem ok_append {l : List (SDrop × View)} {d : SDrop} {v : View}
    (h : ∀ e ∈ l, okUp e.1 = true) (h1 : okUp d = true) :
    ∀ e ∈ l ++ [(d, v)], okUp e.1 = true := by
  intro e he
  simp only [List.mem_append, List.mem_cons, List.not_mem_nil, or_false] at he
  rcases he with he | he
  · exact h e he
  · subst he; exact h1

theorem gen_append {l : List (Nat × View)} {g n : Nat} {v : View}
    (h : ∀ e ∈ l, 1 ≤ e.1 ∧ e.1 ≤ n) (hg : 1 ≤ g ∧ g ≤ n) :
    ∀ e ∈ l ++ [(g, v)], 1 ≤ e.1 ∧ e.1 ≤ n := by
  intro e he
  simp only [List.mem_append, List.mem_cons, List.not_mem_nil, or_false] at he
  rcases he with he | he
  · exact h e he
  · subst he; exact hg

theorem nodup_append_fresh {l : List Nat} {n : Nat} (h : l.Nodup) (hn : ∀ g ∈ l, g ≤ n) :
    (l ++ [n + 1]).Nodup := by
  unfold List.Nodup at h ⊢
  rw [List.pairwise_append]
  refine ⟨h, List.pairwise_singleton _ _, ?_⟩
  intro a ha b hb
  simp only [List.mem_cons, List.not_mem_nil, or_false] at hb
  subst hb
  have := hn a ha
  omega

theorem nodup_filter {l : List Nat} (p : Nat → Bool) (h : l.Nodup) : (l.filter p).Nodup := by
  unfold List.Nodup at h ⊢
  exact h.sublist List.filter_sublist

/-- a reader inside its read loop is the reader of the current connection, and the loop is watching -/
theorem reader_cur {s : St} (h : Inv s) {g : Nat} (hg : g ∈ s.readers) :
    s.loop = .watch ∧ g = s.gen ∧ 1 ≤ s.gen ∧ s.readers = [s.gen] ∧ s.signal = [] := by
  cases hl : s.loop with
  | get => have := (h.atGet hl).1; rw [this] at hg; cases hg
  | woken => have := (h.atWoken hl).2.1; rw [this] at hg; cases hg
  | watch =>
    obtain ⟨h1, h2 | h2⟩ := h.atWatch hl
    · have hg' := hg
      rw [h2.1] at hg'
      simp only [List.mem_cons, List.not_mem_nil, or_false] at hg'
      exact ⟨rfl, hg', h1, h2.1, h2.2⟩
    · rw [h2.1] at hg; cases hg

macro "keep " h:ident : tactic =>
  `(tactic| first
    | exact ($h).up | exact ($h).down | exact ($h).sentEq | exact ($h).upOK | exact ($h).wireGen
    | exact ($h).inGen | exact ($h).atGet | exact ($h).atWatch | exact ($h).atWoken
    | exact ($h).sendersOK | exact ($h).sendersNodup | exact ($h).cancelledOK | exact ($h).deadOK
    | exact ($h).deadCur | exact ($h).dropReason)

macro "cnt " "at " h:ident : tactic =>
  `(tactic| simp only [List.map_append, List.count_append, List.map_cons, List.map_nil, List.count_cons,
      List.count_nil, List.map_map] at $h:ident ⊢)

/-! ### every label preserves the invariant -/

theorem inv_userSend {s : St} (h : Inv s) (a : Addr) (p : Str) : Inv (stepUserSend s a p) := by
  unfold stepUserSend
  split
  · exact h
  · rename_i hb
    have hb : isBytes p = true := by simpa using hb
    have hv := view_packetOf' p (some a) hb s.bs
    have hmono : ∀ e ∈ s.sent, e ∈ s.sent ++ [(a, p)] := fun e he => List.mem_append_left _ he
    have hnew : UpOK { s with sent := s.sent ++ [(a, p)] } (packetOf (rd s.bs p) none (some a)) :=
      ⟨a, p, by simp, hb, rfl⟩
    simp only []
    split
    · constructor
      all_goals (try keep h)
      case up =>
        intro x
        have := h.up x
        cnt at this
        omega
      case sentEq => simp only [List.map_append, List.map_cons, List.map_nil, h.sentEq, hv]
      case upOK =>
        intro m hm
        simp only [List.mem_append, List.mem_cons, List.not_mem_nil, or_false] at hm
        rcases hm with hm | hm
        · exact (h.upOK m hm).mono hmono rfl
        · subst hm; exact hnew
    · constructor
      all_goals (try keep h)
      case up =>
        intro x
        have := h.up x
        cnt at this
        omega
      case sentEq => simp only [List.map_append, List.map_cons, List.map_nil, h.sentEq, hv]
      case upOK =>
        intro m hm
        exact (h.upOK m hm).mono hmono rfl
      case dropReason => exact ok_append h.dropReason rfl

theorem inv_loopGet {s : St} (h : Inv s) (ok : Bool) : Inv (stepLoopGet s ok) := by
  unfold stepLoopGet
  split
  · rename_i hl
    obtain ⟨hr, hsig⟩ := h.atGet hl
    split
    · constructor
      all_goals (try keep h)
      case wireGen =>
        intro e he
        have := h.wireGen e he
        exact ⟨this.1, Nat.le_succ_of_le this.2⟩
      case inGen =>
        intro e he
        have := h.inGen e he
        exact ⟨this.1, Nat.le_succ_of_le this.2⟩
      case atGet => intro hc; cases hc
      case atWatch =>
        intro _
        refine ⟨Nat.succ_le_succ (Nat.zero_le _), Or.inl ⟨?_, hsig⟩⟩
        show s.readers ++ [s.gen + 1] = [s.gen + 1]
        rw [hr]; rfl
      case atWoken => intro hc; cases hc
      case sendersOK =>
        intro g hg
        simp only [List.mem_append, List.mem_cons, List.not_mem_nil, or_false] at hg
        rcases hg with hg | hg
        · obtain ⟨h1, h2, h3⟩ := h.sendersOK g hg
          refine ⟨h1, Nat.le_succ_of_le h2, Or.inl ?_⟩
          rcases h3 with h3 | h3
          · exact h3
          · exact absurd hl h3.2
        · subst hg
          exact ⟨Nat.succ_le_succ (Nat.zero_le _), Nat.le_refl _, Or.inr ⟨rfl, by intro hc; cases hc⟩⟩
      case sendersNodup =>
        exact nodup_append_fresh h.sendersNodup (fun g hg => (h.sendersOK g hg).2.1)
      case cancelledOK =>
        intro g hg
        have := (h.cancelledOK g hg).1
        refine ⟨Nat.le_succ_of_le this, ?_⟩
        intro he
        simp only at he
        omega
      case deadOK =>
        intro g hg
        simp only at hg
        split at hg
        · exact Nat.le_succ_of_le (h.deadOK g hg)
        · simp only [List.mem_cons] at hg
          rcases hg with hg | hg
          · subst hg; exact Nat.le_succ _
          · exact Nat.le_succ_of_le (h.deadOK g hg)
      case deadCur =>
        intro hd
        simp only at hd
        split at hd
        · have := h.deadOK _ hd; omega
        · simp only [List.mem_cons] at hd
          rcases hd with hd | hd
          · omega
          · have := h.deadOK _ hd; omega
    · constructor
      all_goals (try keep h)
      case atGet => intro _; exact ⟨hr, by show s.signal.drop 1 = []; rw [hsig]; rfl⟩
      case atWatch => intro hc; rw [hl] at hc; cases hc
      case atWoken => intro hc; rw [hl] at hc; cases hc
  · exact h

theorem inv_readerDie {s : St} (h : Inv s) (g : Nat) : Inv (stepReaderDie s g) := by
  unfold stepReaderDie
  split
  · rename_i hg
    obtain ⟨hl, hgg, h1, hr, hsig⟩ := reader_cur h hg
    subst hgg
    have hfil : s.readers.filter (fun x => decide (x ≠ s.gen)) = [] := by
      rw [hr]; simp
    constructor
    all_goals (try keep h)
    case atGet => intro hc; rw [hl] at hc; cases hc
    case atWatch =>
      intro _
      refine ⟨h1, Or.inr ⟨hfil, ?_⟩⟩
      show s.signal ++ [s.gen] = [s.gen]
      rw [hsig]; rfl
    case atWoken => intro hc; rw [hl] at hc; cases hc
    case deadOK =>
      intro g' hg'
      simp only [List.mem_cons] at hg'
      rcases hg' with hg' | hg'
      · subst hg'; exact Nat.le_refl _
      · exact h.deadOK g' hg'
    case deadCur =>
      intro _ _ hc
      rw [hfil] at hc
      cases hc
  · exact h

theorem inv_loopWake {s : St} (h : Inv s) : Inv (stepLoopWake s) := by
  unfold stepLoopWake
  split
  · rename_i x rest hl hsig
    obtain ⟨h1, h2 | h2⟩ := h.atWatch hl
    · rw [h2.2] at hsig; cases hsig
    · have hrest : rest = [] := by
        rw [h2.2] at hsig
        simp only [List.cons.injEq] at hsig
        exact hsig.2.symm
      constructor
      all_goals (try keep h)
      case atGet => intro hc; cases hc
      case atWatch => intro hc; cases hc
      case atWoken => intro _; exact ⟨h1, h2.1, hrest⟩
      case sendersOK =>
        intro g hg
        obtain ⟨a1, a2, a3⟩ := h.sendersOK g hg
        refine ⟨a1, a2, ?_⟩
        rcases a3 with a3 | a3
        · exact Or.inl a3
        · exact Or.inr ⟨a3.1, by intro hc; cases hc⟩
      case cancelledOK =>
        intro g hg
        obtain ⟨a1, a2⟩ := h.cancelledOK g hg
        refine ⟨a1, ?_⟩
        intro he
        have := a2 he
        rw [hl] at this
        cases this
      case deadCur => intro _ hc; cases hc
  · exact h

theorem inv_loopCancel {s : St} (h : Inv s) : Inv (stepLoopCancel s) := by
  unfold stepLoopCancel
  split
  · rename_i hl
    obtain ⟨h1, hr, hsig⟩ := h.atWoken hl
    constructor
    all_goals (try keep h)
    case atGet => intro _; exact ⟨hr, hsig⟩
    case atWatch => intro hc; cases hc
    case atWoken => intro hc; cases hc
    case sendersOK =>
      intro g hg
      obtain ⟨a1, a2, a3⟩ := h.sendersOK g hg
      refine ⟨a1, a2, Or.inl ?_⟩
      rcases a3 with a3 | a3
      · exact List.mem_cons_of_mem _ a3
      · rw [a3.1]; exact List.mem_cons_self
    case cancelledOK =>
      intro g hg
      simp only [List.mem_cons] at hg
      rcases hg with hg | hg
      · subst hg; exact ⟨Nat.le_refl _, fun _ => rfl⟩
      · exact ⟨(h.cancelledOK g hg).1, fun _ => rfl⟩
    case deadCur => intro _ hc; cases hc
  · exact h

theorem inv_senderTake {s : St} (h : Inv s) (g : Nat) (ok : Bool) : Inv (stepSenderTake s g ok) := by
  unfold stepSenderTake
  split
  · exact h
  · rename_i m rest hq
    have hcnt : ∀ x : View, s.sentV.count x =
        (if view m == x then 1 else 0) + (rest.map view).count x
          + (s.wire.map Prod.snd).count x + (s.dropUp.map Prod.snd).count x := by
      intro x
      have := h.up x
      rw [hq] at this
      simp only [List.map_cons, List.count_cons] at this
      omega
    have hup : ∀ m' ∈ rest, UpOK s m' := fun m' hm' => h.upOK m' (by rw [hq]; exact List.mem_cons_of_mem _ hm')
    split
    · rename_i hg
      obtain ⟨g1, g2, g3⟩ := h.sendersOK g hg
      split
      · constructor
        all_goals (try keep h)
        case up =>
          intro x
          have := hcnt x
          cnt at this
          omega
        case upOK => intro m' hm'; exact (hup m' hm').same rfl rfl
        case wireGen => exact gen_append h.wireGen ⟨g1, g2⟩
      · constructor
        all_goals (try keep h)
        case up =>
          intro x
          have := hcnt x
          cnt at this
          omega
        case upOK => intro m' hm'; exact (hup m' hm').same rfl rfl
        case sendersOK =>
          intro g' hg'
          exact h.sendersOK g' (List.mem_filter.1 hg').1
        case sendersNodup => exact nodup_filter _ h.sendersNodup
        case deadOK =>
          intro g' hg'
          simp only [List.mem_cons] at hg'
          rcases hg' with hg' | hg'
          · subst hg'; exact g2
          · exact h.deadOK g' hg'
        case deadCur =>
          intro hd hl hr hin
          have hin' := List.mem_filter.1 hin
          simp only [List.mem_cons] at hd
          rcases hd with hd | hd
          · have := hin'.2
            simp only [decide_eq_true_eq] at this
            exact this hd
          · exact h.deadCur hd hl hr hin'.1
        case dropReason => exact ok_append h.dropReason rfl
    · exact h

theorem inv_senderExit {s : St} (h : Inv s) (g : Nat) : Inv (stepSenderExit s g) := by
  unfold stepSenderExit
  split
  · constructor
    all_goals (try keep h)
    case sendersOK =>
      intro g' hg'
      exact h.sendersOK g' (List.mem_filter.1 hg').1
    case sendersNodup => exact nodup_filter _ h.sendersNodup
    case deadCur =>
      intro hd hl hr hin
      exact h.deadCur hd hl hr (List.mem_filter.1 hin).1
  · exact h

theorem inv_connRecv {s : St} (h : Inv s) (g : Nat) (m : Packet) : Inv (stepConnRecv s g m) := by
  unfold stepConnRecv
  split
  · rename_i hc
    obtain ⟨_, hgg, h1, _, _⟩ := reader_cur h hc.1
    constructor
    all_goals (try keep h)
    case down =>
      intro x
      have := h.down x
      cnt at this
      omega
    case inGen => exact gen_append h.inGen ⟨hgg ▸ h1, hgg ▸ Nat.le_refl _⟩
  · exact h

theorem inv_sback {s : St} (h : Inv s) : Inv (stepSback s) := by
  unfold stepSback
  split
  · exact h
  · rename_i m rest hq
    have hcnt : ∀ x : View, (s.inLog.map Prod.snd).count x =
        (if view m == x then 1 else 0) + (rest.map view).count x
          + (s.userLog.map uview).count x + (s.dropDown.map Prod.snd).count x := by
      intro x
      have := h.down x
      rw [hq] at this
      simp only [List.map_cons, List.count_cons] at this
      omega
    simp only []
    split
    · rename_i buf a hc hr
      have hvm : view m = uview (a, buf) := by simp only [view, uview, hr, hc]
      constructor
      all_goals (try keep h)
      case down =>
        intro x
        have := hcnt x
        rw [hvm] at this
        cnt at this
        omega
    · constructor
      all_goals (try keep h)
      case down =>
        intro x
        have := hcnt x
        cnt at this
        omega
    · constructor
      all_goals (try keep h)
      case down =>
        intro x
        have := hcnt x
        cnt at this
        omega

theorem inv_step {s : St} (h : Inv s) (l : Label) : Inv (step s l) := by
  cases l with
  | userSend a p => exact inv_userSend h a p
  | loopGet ok => exact inv_loopGet h ok
  | readerDie g => exact inv_readerDie h g
  | loopWake => exact inv_loopWake h
  | loopCancel => exact inv_loopCancel h
  | senderTake g ok => exact inv_senderTake h g ok
  | senderExit g => exact inv_senderExit h g
  | connRecv g m => exact inv_connRecv h g m
  | connPing g => exact h
  | sback => exact inv_sback h

theorem inv_run (s : St) (h : Inv s) (ls : List Label) : Inv (run s ls) := by
  unfold run
  induction ls generalizing s with
  | nil => exact h
  | cons l ls ih => exact ih (step s l) (inv_step h l)

/-! ### where drops can come from -/

/-- one step adds an upstream drop entry only at one of two sites, each with its cause: the queue is full,
    or a sender's write failed (the transport refused it, or the connection was already closed locally) -/
theorem drop_causes (s : St) (l : Label) (d : SDrop) (x : View)
    (hgt : s.dropUp.count (d, x) < (step s l).dropUp.count (d, x)) :
    (d = .sendFull ∧ s.cap ≤ s.sendCh.length ∧ ∃ a p, l = .userSend a p) ∨
    (d = .connDown ∧ ∃ g ok, l = .senderTake g ok ∧ g ∈ s.senders ∧ (ok = false ∨ g ∈ s.dead)) := by
  have same : ∀ {P : Prop}, s.dropUp.count (d, x) < s.dropUp.count (d, x) → P :=
    fun h => absurd h (Nat.lt_irrefl _)
  have one : ∀ {r : SDrop} {v : View}, s.dropUp.count (d, x) < (s.dropUp ++ [(r, v)]).count (d, x) → d = r := by
    intro r v h
    simp only [List.count_append, List.count_cons, List.count_nil, beq_iff_eq, Prod.mk.injEq] at h
    split at h
    · rename_i heq; exact heq.1.symm
    · omega
  cases l with
  | userSend a p =>
    simp only [step, stepUserSend] at hgt
    split at hgt
    · exact same hgt
    · split at hgt
      · exact same hgt
      · rename_i hfull
        simp only [Nat.not_lt] at hfull
        exact Or.inl ⟨one hgt, hfull, a, p, rfl⟩
  | loopGet ok => simp only [step, stepLoopGet] at hgt; (repeat' split at hgt) <;> exact same hgt
  | readerDie g => simp only [step, stepReaderDie] at hgt; split at hgt <;> exact same hgt
  | loopWake => simp only [step, stepLoopWake] at hgt; split at hgt <;> exact same hgt
  | loopCancel => simp only [step, stepLoopCancel] at hgt; split at hgt <;> exact same hgt
  | senderTake g ok =>
    simp only [step, stepSenderTake] at hgt
    split at hgt
    · exact same hgt
    · split at hgt
      · rename_i hg
        split at hgt
        · exact same hgt
        · rename_i hc
          refine Or.inr ⟨one hgt, g, ok, rfl, hg, ?_⟩
          cases ok with
          | false => exact Or.inl rfl
          | true =>
            refine Or.inr ?_
            apply Classical.byContradiction
            intro hn
            exact hc ⟨rfl, hn⟩
      · exact same hgt
  | senderExit g => simp only [step, stepSenderExit] at hgt; split at hgt <;> exact same hgt
  | connRecv g m => simp only [step, stepConnRecv] at hgt; split at hgt <;> exact same hgt
  | connPing g => simp only [step] at hgt; exact same hgt
  | sback => simp only [step, stepSback] at hgt; (repeat' split at hgt) <;> exact same hgt

/-- a connection that is closed locally while its sender is alive is being replaced: it is an old connection,
    or the loop is between connections, or the current reader has already failed (and signals) -/
theorem dead_conn_is_being_replaced {s : St} (h : Inv s) {g : Nat} (hs : g ∈ s.senders) (hd : g ∈ s.dead) :
    g ≠ s.gen ∨ s.loop ≠ .watch ∨ s.readers = [] := by
  by_cases hg : g = s.gen
  · subst hg
    by_cases hl : s.loop = .watch
    · obtain ⟨_, h2 | h2⟩ := h.atWatch hl
      · exact absurd hs (h.deadCur hd hl h2.1)
      · exact Or.inr (Or.inr h2.1)
    · exact Or.inr (Or.inl hl)
  · exact Or.inl hg

/-! ### stale senders leave by themselves; then only the current sender consumes sendCh -/

theorem senderExit_eq {s : St} {g : Nat} (hg : g ∈ s.cancelled) :
    stepSenderExit s g = { s with senders := s.senders.filter (fun x => decide (x ≠ g)) } := by
  unfold stepSenderExit
  split
  · rfl
  · rename_i hc
    have hn : g ∉ s.senders := fun hm => hc ⟨hm, hg⟩
    have : s.senders.filter (fun x => decide (x ≠ g)) = s.senders := by
      rw [List.filter_eq_self]
      intro a ha
      simp only [ne_eq, decide_not, Bool.not_eq_eq_eq_not, Bool.not_true, decide_eq_false_iff_not]
      intro he; subst he; exact hn ha
    rw [this]

theorem run_exits (L : List Nat) (s : St) (hL : ∀ g ∈ L, g ∈ s.cancelled) :
    run s (L.map .senderExit) = { s with senders := s.senders.filter (fun g => decide (g ∉ L)) } := by
  induction L generalizing s with
  | nil =>
    have : s.senders.filter (fun g => decide (g ∉ ([] : List Nat))) = s.senders := by
      rw [List.filter_eq_self]; intro a _; simp
    simp only [List.map_nil, run, List.foldl_nil, this]
  | cons g L ih =>
    have hg : g ∈ s.cancelled := hL g List.mem_cons_self
    have h1 : run s ((g :: L).map .senderExit) = run (stepSenderExit s g) (L.map .senderExit) := rfl
    have hc : (stepSenderExit s g).cancelled = s.cancelled := by rw [senderExit_eq hg]
    rw [h1, ih (stepSenderExit s g) (fun g' hg' => by rw [hc]; exact hL g' (List.mem_cons_of_mem _ hg'))]
    rw [senderExit_eq hg]
    simp only [List.filter_filter]
    congr 1
    apply List.filter_congr
    intro a _
    simp only [List.mem_cons, not_or, ne_eq, decide_not, Bool.decide_and]
    exact Bool.and_comm _ _

theorem quiesce_eq (s : St) :
    quiesce s = { s with senders := s.senders.filter (fun g => decide (g ∉ s.cancelled)) } := by
  unfold quiesce exits
  rw [run_exits _ s (fun g hg => by simpa using (List.mem_filter.1 hg).2)]
  congr 1
  apply List.filter_congr
  intro a ha
  simp only [List.mem_filter, ha, true_and, decide_eq_true_eq]

/-- after the cancelled senders have left, whoever is still a sender is the sender of the current
    connection (and the loop is not between connections) -/
theorem quiescent_senders {s : St} (h : Inv s) {g : Nat} (hg : g ∈ (quiesce s).senders) :
    g = s.gen ∧ s.loop ≠ .get ∧ g ∈ s.senders := by
  rw [quiesce_eq] at hg
  obtain ⟨hm, hn⟩ := List.mem_filter.1 hg
  simp only [decide_eq_true_eq] at hn
  obtain ⟨_, _, h3 | h3⟩ := h.sendersOK g hm
  · exact absurd h3 hn
  · exact ⟨h3.1, h3.2, hm⟩

theorem nodup_all_eq {l : List Nat} {n : Nat} (hn : l.Nodup) (h : ∀ g ∈ l, g = n) : l.length ≤ 1 := by
  match l, hn, h with
  | [], _, _ => exact Nat.zero_le _
  | [_], _, _ => exact Nat.le_refl _
  | a :: b :: _, hn, h =>
    have ha := h a List.mem_cons_self
    have hb := h b (List.mem_cons_of_mem _ List.mem_cons_self)
    unfold List.Nodup at hn
    rw [List.pairwise_cons] at hn
    exact absurd (ha.trans hb.symm) (hn.1 b List.mem_cons_self)

theorem quiescent_one_sender {s : St} (h : Inv s) : (quiesce s).senders.length ≤ 1 := by
  apply nodup_all_eq (n := s.gen)
  · rw [quiesce_eq]; exact nodup_filter _ h.sendersNodup
  · intro g hg; exact (quiescent_senders h hg).1

/-- from a quiescent state, whichever sender takes the next datagram writes it on the current connection -/
theorem taken_on_current {s : St} (h : Inv s) (g : Nat) (ok : Bool) :
    (step (quiesce s) (.senderTake g ok)).wire = s.wire ∨
    ∃ v, (step (quiesce s) (.senderTake g ok)).wire = s.wire ++ [(s.gen, v)] := by
  have hw : (quiesce s).wire = s.wire := by rw [quiesce_eq]
  simp only [step, stepSenderTake]
  split
  · exact Or.inl hw
  · rename_i m rest _
    split
    · rename_i hg
      have := (quiescent_senders h hg).1
      subst this
      split
      · exact Or.inr ⟨view m, by simp only [hw]⟩
      · exact Or.inl hw
    · exact Or.inl hw

/-! ### light load -/

/-- the proxy has a healthy current work connection and nothing is queued -/
structure Healthy (s : St) : Prop where
  loop : s.loop = .watch
  readers : s.readers = [s.gen]
  signal : s.signal = []
  senders : s.senders = [s.gen]
  alive : s.gen ∉ s.dead
  deadLe : ∀ g ∈ s.dead, g ≤ s.gen
  idle : s.sendCh = []

/-- light load, connection up: the datagram is written on the current connection -/
theorem next_datagram_delivered (s : St) (a : Addr) (p : Str) (hb : isBytes p = true)
    (hs : s.gen ∈ s.senders) (hd : s.gen ∉ s.dead) (hq : s.sendCh = []) (hcap : 0 < s.cap) :
    let s' := run s [.userSend a p, .senderTake s.gen true]
    s'.wire = s.wire ++ [(s.gen, (some a, some (rd s.bs p)))] ∧ s'.dropUp = s.dropUp ∧ s'.sendCh = [] ∧
      s'.senders = s.senders ∧ s'.dead = s.dead ∧ s'.gen = s.gen := by
  have hv := view_packetOf' p (some a) hb s.bs
  simp only [run, List.foldl, step, stepUserSend, hb, hq, hcap, Bool.not_true, Bool.false_eq_true,
    if_false, if_true, List.length_nil, List.nil_append, stepSenderTake, hs, hd, not_false_eq_true,
    and_self, hv]

theorem replaceIdle_eq {s : St} (h : Healthy s) :
    run s (replaceIdle s.gen) =
      { s with loop := .watch, gen := s.gen + 1, readers := [s.gen + 1], signal := [], senders := [s.gen + 1],
               cancelled := s.gen :: s.cancelled,
               dead := if s.gen = 0 then s.gen :: s.dead else s.gen :: s.gen :: s.dead } := by
  have h1 : s.readers.filter (fun x => decide (x ≠ s.gen)) = [] := by rw [h.readers]; simp
  have h2 : s.senders.filter (fun x => decide (x ≠ s.gen)) = [] := by rw [h.senders]; simp
  have hr : s.gen ∈ s.readers := by rw [h.readers]; exact List.mem_cons_self
  have hs : s.gen ∈ s.senders := by rw [h.senders]; exact List.mem_cons_self
  simp only [run, replaceIdle, List.foldl, step, stepReaderDie, hr, if_true, h1, h.signal, List.nil_append,
    stepLoopWake, h.loop, stepLoopCancel, stepSenderExit, hs, List.mem_cons, true_or, and_self, h2,
    stepLoopGet]

theorem replaceIdle_healthy {s : St} (h : Healthy s) :
    Healthy (run s (replaceIdle s.gen)) ∧ (run s (replaceIdle s.gen)).gen = s.gen + 1 ∧
      (run s (replaceIdle s.gen)).wire = s.wire ∧ (run s (replaceIdle s.gen)).dropUp = s.dropUp ∧
      (run s (replaceIdle s.gen)).cap = s.cap ∧ (run s (replaceIdle s.gen)).bs = s.bs := by
  have hdead : ∀ g ∈ (if s.gen = 0 then s.gen :: s.dead else s.gen :: s.gen :: s.dead), g ≤ s.gen := by
    intro g hg
    split at hg
    · simp only [List.mem_cons] at hg
      rcases hg with hg | hg
      · omega
      · exact h.deadLe _ hg
    · simp only [List.mem_cons] at hg
      rcases hg with hg | hg | hg
      · omega
      · omega
      · exact h.deadLe _ hg
  rw [replaceIdle_eq h]
  refine ⟨⟨rfl, rfl, rfl, rfl, ?_, ?_, h.idle⟩, rfl, rfl, rfl, rfl, rfl⟩
  · intro hd
    have := hdead _ hd
    exact absurd this (Nat.not_succ_le_self _)
  · intro g hg
    exact Nat.le_succ_of_le (hdead g hg)

theorem replaceIdleN_healthy (k : Nat) {s : St} (h : Healthy s) :
    Healthy (replaceIdleN k s) ∧ (replaceIdleN k s).gen = s.gen + k ∧ (replaceIdleN k s).wire = s.wire ∧
      (replaceIdleN k s).dropUp = s.dropUp ∧ (replaceIdleN k s).cap = s.cap ∧ (replaceIdleN k s).bs = s.bs := by
  induction k generalizing s with
  | zero => exact ⟨h, rfl, rfl, rfl, rfl, rfl⟩
  | succ k ih =>
    obtain ⟨h1, h2, h3, h4, h5, h6⟩ := replaceIdle_healthy h
    obtain ⟨i1, i2, i3, i4, i5, i6⟩ := ih h1
    refine ⟨i1, ?_, ?_, ?_, ?_, ?_⟩
    · show (replaceIdleN k _).gen = _; rw [i2, h2]; omega
    · show (replaceIdleN k _).wire = _; rw [i3, h3]
    · show (replaceIdleN k _).dropUp = _; rw [i4, h4]
    · show (replaceIdleN k _).cap = _; rw [i5, h5]
    · show (replaceIdleN k _).bs = _; rw [i6, h6]

/-- **after any number of replacements of the work connection while idle, the next datagram arrives**: it is
    written on the then-current connection `gen + k`, nothing is dropped -/
theorem delivered_after_replacements (k : Nat) {s : St} (h : Healthy s) (a : Addr) (p : Str)
    (hb : isBytes p = true) (hcap : 0 < s.cap) :
    let s' := run (replaceIdleN k s) [.userSend a p, .senderTake (s.gen + k) true]
    s'.wire = s.wire ++ [(s.gen + k, (some a, some (rd s.bs p)))] ∧ s'.dropUp = s.dropUp := by
  obtain ⟨i1, i2, i3, i4, i5, i6⟩ := replaceIdleN_healthy k h
  have hs : (replaceIdleN k s).gen ∈ (replaceIdleN k s).senders := by
    rw [i1.senders]; exact List.mem_cons_self
  have := next_datagram_delivered (replaceIdleN k s) a p hb hs i1.alive i1.idle (by rw [i5]; exact hcap)
  simp only [i2, i3, i4, i6] at this
  exact ⟨this.1, this.2.1⟩

end UdpSrv
end Frp
