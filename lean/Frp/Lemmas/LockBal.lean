import Frp.Model.LockBal
/-
  Lemmas for Model/LockBal.lean: a session whose functions are lock-balanced handles everything and is torn down;
  one way out with `ctl.mu` held and it never is.
-/
namespace Frp
namespace LockBal

theorem step_balanced_inv (max : Nat) (s : Sess) (m : Msg) (h : s.muHeld = false ∧ s.stuck = false) :
    (step false max s m).muHeld = false ∧ (step false max s m).stuck = false := by
  obtain ⟨h1, h2⟩ := h
  cases m <;> simp only [step, h1, h2] <;> (repeat' split) <;> simp_all

/-- with balanced functions every message of a live session is handled — for every sequence of NewProxy (within or
    above the limit), CloseProxy and Ping, every limit -/
theorem balanced_handles_all (max : Nat) (ms : List Msg) (s : Sess) (h : s.muHeld = false ∧ s.stuck = false)
    (hg : s.gone = false) (hnd : ∀ m ∈ ms, m ≠ .drop) :
    (run false max s ms).handled = s.handled + ms.length ∧ (run false max s ms).gone = false := by
  unfold run
  induction ms generalizing s with
  | nil => exact ⟨rfl, hg⟩
  | cons m rest ih =>
    simp only [List.foldl_cons, List.length_cons]
    have hinv := step_balanced_inv max s m h
    have hm : m ≠ .drop := hnd m (List.mem_cons_self ..)
    have hstep : (step false max s m).handled = s.handled + 1 ∧ (step false max s m).gone = false := by
      cases m with
      | drop => exact absurd rfl hm
      | ping => simp [step, hg, h.2]
      | closeProxy n => simp [step, hg, h.1, h.2]
      | newProxy n =>
        simp only [step, hg, h.1, h.2]
        (repeat' split) <;> simp_all
    have := ih (step false max s m) hinv hstep.2 (fun m' hm' => hnd m' (List.mem_cons_of_mem _ hm'))
    rw [this.1, hstep.1]
    exact ⟨by omega, this.2⟩

/-- … and when its connection goes the session is torn down completely (ports released, run id free) -/
theorem balanced_teardown_closes (max : Nat) (ms : List Msg) (s : Sess) (h : s.muHeld = false ∧ s.stuck = false)
    (hg : s.gone = false) (hnd : ∀ m ∈ ms, m ≠ .drop) : (run false max s (ms ++ [.drop])).closed = true := by
  have hb := balanced_handles_all max ms s h hg hnd
  have hinv : (run false max s ms).muHeld = false ∧ (run false max s ms).stuck = false := by
    unfold run
    clear hb hnd hg
    induction ms generalizing s with
    | nil => exact h
    | cons m rest ih => simp only [List.foldl_cons]; exact ih _ (step_balanced_inv max s m h)
  unfold run at *
  rw [List.foldl_append]
  simp [step, hb.2, hinv.1, hinv.2]

theorem step_leaked_inv (leak : Bool) (max : Nat) (s : Sess) (m : Msg) (h : s.muHeld = true ∧ s.closed = false) :
    (step leak max s m).muHeld = true ∧ (step leak max s m).closed = false ∧ (step leak max s m).handled ≤ s.handled + (if m = .ping then 1 else 0) := by
  cases m <;> simp only [step, h.1, Bool.true_or, if_true] <;> (repeat' split) <;>
    simp_all

/-- a way out that leaves `ctl.mu` locked: from then on the session is NEVER torn down, whatever is sent and whether or
    not the connection goes — its ports stay bound, a login with its run id waits for ever — and no NewProxy /
    CloseProxy is handled any more -/
theorem leak_never_closes (leak : Bool) (max : Nat) (ms : List Msg) (s : Sess) (h : s.muHeld = true ∧ s.closed = false) :
    (run leak max s ms).closed = false ∧ (run leak max s ms).muHeld = true := by
  unfold run
  induction ms generalizing s with
  | nil => exact ⟨h.2, h.1⟩
  | cons m rest ih =>
    simp only [List.foldl_cons]
    have := step_leaked_inv leak max s m h
    exact ih _ ⟨this.1, this.2.1⟩

/-- the op's schedule on both variants: limit 2, then CloseProxy, NewProxy, Ping, drop -/
theorem leak_witness :
    (run true 2 {} (opSchedule 2 [.closeProxy 1, .newProxy 1, .ping])) =
      { muHeld := true, stuck := true, used := 2, handled := 3, refused := 1, gone := true, closed := false } ∧
    (run false 2 {} (opSchedule 2 [.closeProxy 1, .newProxy 1, .ping])) =
      { used := 2, handled := 6, refused := 1, gone := true, closed := true } ∧
    (run true 0 {} (opSchedule 2 [.closeProxy 1, .newProxy 1, .ping])).closed = true := by
  decide

/-- the refusal itself is enough: one NewProxy above the limit on the leaking variant, then anything -/
theorem leak_after_one_refusal (max : Nat) (hmax : 0 < max) (s : Sess) (hs : s.muHeld = false ∧ s.stuck = false ∧ s.gone = false ∧ s.closed = false)
    (n : Nat) (hn : max < s.used + n) (ms : List Msg) :
    (run true max s (.newProxy n :: ms)).closed = false := by
  unfold run
  simp only [List.foldl_cons]
  have h1 : step true max s (.newProxy n) = { s with handled := s.handled + 1, refused := s.refused + 1, muHeld := true } := by
    have : (decide (max > 0) && decide (s.used + n > max)) = true := by simp; omega
    simp [step, hs.1, hs.2.1, hs.2.2.1, this]
  rw [h1]
  exact (leak_never_closes true max ms { s with handled := s.handled + 1, refused := s.refused + 1, muHeld := true } ⟨rfl, hs.2.2.2⟩).1

end LockBal
end Frp
