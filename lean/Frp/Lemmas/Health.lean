import Frp.Model.Health
/-
  Helper definitions and lemmas for the health part of C19: the declarative specification of
  "withdrawn after exactly maxFailed consecutive failed probes" and its basic algebra.
-/
namespace Frp
namespace C19
open Health

/-- number of failed probes at the END of a history (`true` = probe succeeded) -/
def trailingFails (hist : List Bool) : Nat := (hist.reverse.takeWhile (fun o => !o)).length

/-- the verdict the property prescribes after a history: some probe succeeded, and fewer than
    `m` probes failed since the last success -/
def statusSpec (m : Nat) (hist : List Bool) : Bool := hist.any id && decide (trailingFails hist < m)

/-- the callback the property prescribes for a probe with outcome `o` after the history `pre` -/
def cbSpec (m : Nat) (pre : List Bool) (o : Bool) : Option Cb :=
  if o then (if statusSpec m pre then none else some .normal)
  else if pre.any id && decide (trailingFails pre + 1 = m) then some .failed else none

def specFrom (m : Nat) (pre : List Bool) : List Bool → List (Option Cb)
  | [] => []
  | o :: os => cbSpec m pre o :: specFrom m (pre ++ [o]) os

/-- the callbacks prescribed for a whole history, probe by probe -/
def specCbs (m : Nat) (hist : List Bool) : List (Option Cb) := specFrom m [] hist

theorem trailingFails_snoc (pre : List Bool) (o : Bool) :
    trailingFails (pre ++ [o]) = if o then 0 else trailingFails pre + 1 := by
  unfold trailingFails
  rw [List.reverse_append]
  cases o <;> simp

theorem trailingFails_nil : trailingFails [] = 0 := rfl

theorem any_snoc (pre : List Bool) (o : Bool) : (pre ++ [o]).any id = (pre.any id || o) := by
  simp [List.any_append]

/-- the state the specification assigns to a history -/
def specState (m : Nat) (hist : List Bool) : HState :=
  { failedTimes := trailingFails hist, statusOK := statusSpec m hist }

/-- one step of the REPAIRED machine from the specified state lands in the specified state and
    fires the specified callback -/
theorem fixed_step_spec {m : Nat} (hm : 1 ≤ m) (pre : List Bool) (o : Bool) :
    HealthFixed.step m (specState m pre) o = (specState m (pre ++ [o]), cbSpec m pre o) := by
  unfold HealthFixed.step specState cbSpec statusSpec
  rw [trailingFails_snoc, any_snoc]
  cases o
  · -- failure
    cases hany : pre.any id
    · simp
    · by_cases h1 : trailingFails pre < m
      · by_cases h2 : m ≤ trailingFails pre + 1
        · have : trailingFails pre + 1 = m := by omega
          simp [h1, this]
        · have h3 : trailingFails pre + 1 < m := by omega
          have h4 : ¬ trailingFails pre + 1 = m := by omega
          simp [h1, h2, h3, h4]
      · have h3 : ¬ trailingFails pre + 1 < m := by omega
        have h4 : ¬ trailingFails pre + 1 = m := by omega
        simp [h1, h3, h4]
  · -- success
    have h0 : 0 < m := by omega
    cases hany : pre.any id
    · simp [h0]
    · by_cases h1 : trailingFails pre < m
      · simp [h1, h0]
      · simp [h1, h0]

theorem fixed_fold_spec {m : Nat} (hm : 1 ≤ m) (os : List Bool) (pre : List Bool) :
    HealthFixed.fold m (specState m pre) os = (specState m (pre ++ os), specFrom m pre os) := by
  induction os generalizing pre with
  | nil => simp [HealthFixed.fold, specFrom]
  | cons o os ih =>
    simp only [HealthFixed.fold, specFrom]
    rw [fixed_step_spec hm]
    simp only []
    rw [ih (pre ++ [o])]
    simp [List.append_assoc]

end C19
end Frp
