import Frp.Model.VisitorMgr
/-
  Lemmas about the visitor manager model (Frp/Model/VisitorMgr.lean) used by Frp/Props/C19Visitors.lean.
-/
namespace Frp
namespace C19
open VisitorMgr

/-- at most one entry per name (vm.cfgs is a Go map) -/
def VNamesNodup (cs : List VCfg) : Prop := cs.Pairwise (fun a b => a.name ≠ b.name)

/-- invariant of the manager: both maps have one entry per name, every visitor object was started
    from the configuration stored under its name, stamps are old -/
def VInv (m : Mgr) : Prop :=
  VNamesNodup m.cfgs ∧
  m.visitors.Pairwise (fun a b => a.cfg.name ≠ b.cfg.name) ∧
  (∀ v ∈ m.visitors, v.cfg ∈ m.cfgs) ∧
  (∀ v ∈ m.visitors, v.id < m.nextId)

namespace VM

theorem hasCfg_iff (cs : List VCfg) (n : Nat) : hasCfg cs n = true ↔ ∃ c ∈ cs, c.name = n := by
  simp [hasCfg, List.any_eq_true]

theorem hasCfg_false_iff (cs : List VCfg) (n : Nat) : hasCfg cs n = false ↔ ∀ c ∈ cs, c.name ≠ n := by
  simp [hasCfg]

theorem hasVisitor_iff (vs : List V) (n : Nat) : hasVisitor vs n = true ↔ ∃ v ∈ vs, v.cfg.name = n := by
  simp [hasVisitor, List.any_eq_true]

theorem hasVisitor_false_iff (vs : List V) (n : Nat) : hasVisitor vs n = false ↔ ∀ v ∈ vs, v.cfg.name ≠ n := by
  simp [hasVisitor]

theorem vnodup_eq {cs : List VCfg} (h : VNamesNodup cs) {a b : VCfg} (ha : a ∈ cs) (hb : b ∈ cs)
    (hn : a.name = b.name) : a = b := by
  induction cs with
  | nil => cases ha
  | cons c cs ih =>
    have hp := List.pairwise_cons.mp h
    rcases List.mem_cons.mp ha with rfl | ha' <;> rcases List.mem_cons.mp hb with rfl | hb'
    · rfl
    · exact absurd hn (hp.1 b hb')
    · exact absurd hn.symm (hp.1 a ha')
    · exact ih hp.2 ha' hb'

theorem vlookupLast_mem {cfgs : List VCfg} {n : Nat} {c : VCfg} (h : lookupLast cfgs n = some c) :
    c ∈ cfgs ∧ c.name = n := by
  unfold lookupLast at h
  have h1 := List.mem_of_find?_eq_some h
  have h2 := List.find?_some h
  exact ⟨List.mem_reverse.mp h1, by simpa using h2⟩

theorem vkeeps_mem {cfgs : List VCfg} {c : VCfg} (h : keeps cfgs c = true) : c ∈ cfgs := by
  simp only [keeps, beq_iff_eq] at h
  exact (vlookupLast_mem h).1

/-- in a list without duplicated names every entry is the configured entry of its name -/
theorem vlookupLast_of_nodup {cfgs : List VCfg} (h : VNamesNodup cfgs) {c : VCfg} (hc : c ∈ cfgs) :
    lookupLast cfgs c.name = some c := by
  unfold lookupLast
  cases hf : cfgs.reverse.find? (fun x => x.name == c.name) with
  | none =>
    have := List.find?_eq_none.mp hf c (List.mem_reverse.mpr hc)
    simp at this
  | some c' =>
    have h1 := List.mem_reverse.mp (List.mem_of_find?_eq_some hf)
    have h2 : c'.name = c.name := by simpa using List.find?_some hf
    rw [vnodup_eq h h1 hc h2]

theorem find_of_nodup {cs : List VCfg} (h : VNamesNodup cs) {c : VCfg} (hc : c ∈ cs) :
    cs.find? (fun x => x.name == c.name) = some c := by
  cases hf : cs.find? (fun x => x.name == c.name) with
  | none =>
    have := List.find?_eq_none.mp hf c hc
    simp at this
  | some c' =>
    have h1 := List.mem_of_find?_eq_some hf
    have h2 : c'.name = c.name := by simpa using List.find?_some hf
    rw [vnodup_eq h h1 hc h2]

/-! ### startVisitor -/

theorem startVisitor_cfgs (m : Mgr) (c : VCfg) : (startVisitor m c).cfgs = m.cfgs := by
  unfold startVisitor; split <;> rfl

theorem startVisitor_squat (m : Mgr) (c : VCfg) : (startVisitor m c).squat = m.squat := by
  unfold startVisitor; split <;> rfl

theorem startVisitor_closed (m : Mgr) (c : VCfg) : (startVisitor m c).closed = m.closed := by
  unfold startVisitor; split <;> rfl

theorem startVisitor_nextId_le (m : Mgr) (c : VCfg) : m.nextId ≤ (startVisitor m c).nextId := by
  unfold startVisitor; split <;> simp

theorem startVisitor_sub (m : Mgr) (c : VCfg) (v : V) (h : v ∈ m.visitors) : v ∈ (startVisitor m c).visitors := by
  unfold startVisitor; split
  · exact List.mem_append_left _ h
  · exact h

theorem startVisitor_mem (m : Mgr) (c : VCfg) (v : V) (h : v ∈ (startVisitor m c).visitors) :
    v ∈ m.visitors ∨ (v = { cfg := c, id := m.nextId } ∧ canStart m c = true) := by
  unfold startVisitor at h; split at h
  · rename_i hc
    rcases List.mem_append.mp h with h | h
    · exact Or.inl h
    · exact Or.inr ⟨by simpa using h, hc⟩
  · exact Or.inl h

theorem startVisitor_can (m : Mgr) (c : VCfg) (h : canStart m c = true) :
    (startVisitor m c).visitors = m.visitors ++ [{ cfg := c, id := m.nextId }] := by
  simp [startVisitor, h]

theorem startVisitor_cannot (m : Mgr) (c : VCfg) (h : canStart m c = false) : startVisitor m c = m := by
  simp [startVisitor, h]

theorem inv_start (m : Mgr) (c : VCfg) (h : VInv m) (hc : c ∈ m.cfgs)
    (hv : hasVisitor m.visitors c.name = false) : VInv (startVisitor m c) := by
  obtain ⟨h1, h2, h3, h4⟩ := h
  by_cases hcan : canStart m c = true
  · have hvs := startVisitor_can m c hcan
    refine ⟨by rw [startVisitor_cfgs]; exact h1, ?_, ?_, ?_⟩
    · rw [hvs, List.pairwise_append]
      refine ⟨h2, List.pairwise_singleton _ _, ?_⟩
      intro a ha b hb
      have : b = { cfg := c, id := m.nextId } := by simpa using hb
      subst this
      exact (hasVisitor_false_iff _ _).mp hv a ha
    · intro v hv'
      rw [startVisitor_cfgs]
      rw [hvs] at hv'
      rcases List.mem_append.mp hv' with hv' | hv'
      · exact h3 v hv'
      · have : v = { cfg := c, id := m.nextId } := by simpa using hv'
        subst this; exact hc
    · intro v hv'
      rw [hvs] at hv'
      have hn : (startVisitor m c).nextId = m.nextId + 1 := by simp [startVisitor, hcan]
      rw [hn]
      rcases List.mem_append.mp hv' with hv' | hv'
      · have := h4 v hv'; omega
      · have : v = { cfg := c, id := m.nextId } := by simpa using hv'
        subst this; simp
  · have : canStart m c = false := by simpa using hcan
    rw [startVisitor_cannot m c this]
    exact ⟨h1, h2, h3, h4⟩

/-- storing a configuration under a new name -/
theorem inv_addCfg (m : Mgr) (c : VCfg) (h : VInv m) (hn : hasCfg m.cfgs c.name = false) :
    VInv { m with cfgs := m.cfgs ++ [c] } := by
  obtain ⟨h1, h2, h3, h4⟩ := h
  refine ⟨?_, h2, fun v hv => List.mem_append_left _ (h3 v hv), h4⟩
  unfold VNamesNodup
  rw [List.pairwise_append]
  refine ⟨h1, List.pairwise_singleton _ _, ?_⟩
  intro a ha b hb
  have : b = c := by simpa using hb
  subst this
  exact (hasCfg_false_iff _ _).mp hn a ha

theorem noVisitor_of_noCfg (m : Mgr) (h : VInv m) (n : Nat) (hn : hasCfg m.cfgs n = false) :
    hasVisitor m.visitors n = false := by
  rw [hasVisitor_false_iff]
  intro v hv
  exact (hasCfg_false_iff _ _).mp hn _ (h.2.2.1 v hv)

/-! ### the add loop -/

theorem addLoop_inv (cs : List VCfg) : ∀ (m : Mgr), VInv m → VInv (addLoop m cs) := by
  induction cs with
  | nil => intro m h; simpa [addLoop] using h
  | cons c cs ih =>
    intro m h
    simp only [addLoop]
    split
    · exact ih m h
    · rename_i hn
      have hn' : hasCfg m.cfgs c.name = false := by simpa using hn
      apply ih
      apply inv_start _ _ (inv_addCfg m c h hn')
      · simp
      · exact noVisitor_of_noCfg m h _ hn'

theorem addLoop_hasCfg (cs : List VCfg) (n : Nat) : ∀ (m : Mgr),
    hasCfg (addLoop m cs).cfgs n = (hasCfg m.cfgs n || hasCfg cs n) := by
  induction cs with
  | nil => intro m; simp [addLoop, hasCfg]
  | cons c cs ih =>
    intro m
    simp only [addLoop]
    split
    · rename_i h
      rw [ih m]
      by_cases hn : c.name = n
      · subst hn; simp [hasCfg] at h ⊢; simp [h]
      · have h2 : (c.name == n) = false := by simpa using hn
        simp [hasCfg, h2]
    · rw [ih, startVisitor_cfgs]
      simp [hasCfg, List.any_append, Bool.or_assoc]

theorem addLoop_cfgs_mem (cs : List VCfg) : ∀ (m : Mgr) (c : VCfg),
    c ∈ (addLoop m cs).cfgs → c ∈ m.cfgs ∨ c ∈ cs := by
  induction cs with
  | nil => intro m c h; left; simpa [addLoop] using h
  | cons c0 cs ih =>
    intro m c h
    simp only [addLoop] at h
    split at h
    · rcases ih m c h with h | h
      · exact Or.inl h
      · exact Or.inr (List.mem_cons_of_mem _ h)
    · rcases ih _ c h with h | h
      · rw [startVisitor_cfgs] at h
        rcases List.mem_append.mp h with h | h
        · exact Or.inl h
        · right; have : c = c0 := by simpa using h
          subst this; exact List.mem_cons_self
      · exact Or.inr (List.mem_cons_of_mem _ h)

theorem addLoop_cfgs_sub (cs : List VCfg) : ∀ (m : Mgr) (c : VCfg), c ∈ m.cfgs → c ∈ (addLoop m cs).cfgs := by
  induction cs with
  | nil => intro m c h; simpa [addLoop] using h
  | cons c0 cs ih =>
    intro m c h
    simp only [addLoop]
    split
    · exact ih m c h
    · apply ih; rw [startVisitor_cfgs]; exact List.mem_append_left _ h

theorem addLoop_visitors_sub (cs : List VCfg) : ∀ (m : Mgr) (v : V), v ∈ m.visitors → v ∈ (addLoop m cs).visitors := by
  induction cs with
  | nil => intro m v h; simpa [addLoop] using h
  | cons c0 cs ih =>
    intro m v h
    simp only [addLoop]
    split
    · exact ih m v h
    · apply ih; exact startVisitor_sub _ _ _ h

/-- every visitor after the add loop is an old object or one with a fresh stamp -/
theorem addLoop_visitors_mem (cs : List VCfg) : ∀ (m : Mgr) (v : V),
    v ∈ (addLoop m cs).visitors → v ∈ m.visitors ∨ m.nextId ≤ v.id := by
  induction cs with
  | nil => intro m v h; left; simpa [addLoop] using h
  | cons c0 cs ih =>
    intro m v h
    simp only [addLoop] at h
    split at h
    · exact ih m v h
    · rcases ih _ v h with h | h
      · rcases startVisitor_mem _ _ _ h with h | ⟨h, _⟩
        · exact Or.inl h
        · right; subst h; simp
      · right
        have := startVisitor_nextId_le { m with cfgs := m.cfgs ++ [c0] } c0
        simp only at this
        omega

/-- when every name of the list is stored already the add loop does nothing -/
theorem addLoop_noop (cs : List VCfg) (m : Mgr) (h : ∀ c ∈ cs, hasCfg m.cfgs c.name = true) : addLoop m cs = m := by
  induction cs with
  | nil => rfl
  | cons c cs ih =>
    simp only [addLoop]
    rw [if_pos (h c List.mem_cons_self)]
    exact ih (fun c' hc' => h c' (List.mem_cons_of_mem _ hc'))

/-! ### UpdateAll -/

theorem gone_iff (m : Mgr) (cfgs : List VCfg) (n : Nat) :
    (goneNames m cfgs).contains n = true ↔ ∃ c ∈ m.cfgs, keeps cfgs c = false ∧ c.name = n := by
  simp only [goneNames, List.contains_eq_any_beq, List.any_eq_true, List.mem_map, List.mem_filter, beq_iff_eq]
  constructor
  · rintro ⟨x, ⟨c, ⟨hc, hk⟩, rfl⟩, hx⟩
    exact ⟨c, hc, by simpa using hk, hx.symm⟩
  · rintro ⟨c, hc, hk, rfl⟩
    exact ⟨c.name, ⟨c, ⟨hc, by simpa using hk⟩, rfl⟩, rfl⟩

/-- the state between the delete loop and the add loop -/
def afterDelete (m : Mgr) (cfgs : List VCfg) : Mgr :=
  { m with cfgs := m.cfgs.filter (keeps cfgs),
           visitors := m.visitors.filter (fun v => !(goneNames m cfgs).contains v.cfg.name) }

theorem updateAll_eq (m : Mgr) (cfgs : List VCfg) : updateAll m cfgs = addLoop (afterDelete m cfgs) cfgs := rfl

theorem afterDelete_inv (m : Mgr) (cfgs : List VCfg) (h : VInv m) : VInv (afterDelete m cfgs) := by
  obtain ⟨h1, h2, h3, h4⟩ := h
  refine ⟨List.Pairwise.sublist List.filter_sublist h1, List.Pairwise.sublist List.filter_sublist h2, ?_, ?_⟩
  · intro v hv
    simp only [afterDelete, List.mem_filter] at hv ⊢
    refine ⟨h3 v hv.1, ?_⟩
    cases hk : keeps cfgs v.cfg with
    | true => rfl
    | false =>
      have : (goneNames m cfgs).contains v.cfg.name = true := (gone_iff m cfgs _).mpr ⟨v.cfg, h3 v hv.1, hk, rfl⟩
      simp only [List.contains_iff_mem] at this
      exact absurd this (by simpa using hv.2)
  · intro v hv
    simp only [afterDelete, List.mem_filter] at hv
    exact h4 v hv.1

theorem afterDelete_nextId (m : Mgr) (cfgs : List VCfg) : (afterDelete m cfgs).nextId = m.nextId := rfl

end VM
end C19
end Frp
