import Frp.Model.Limit
/-! Lemmas about `limit.Writer.Write`'s chunk loop and the token bucket (core only). -/
namespace Frp
namespace Limit

theorem chunksAux_flatten (b : Nat) (hb : 0 < b) :
    ∀ (fuel : Nat) (p : C01Bytes), p.length ≤ fuel → (chunksAux b fuel p).flatten = p := by
  intro fuel
  induction fuel with
  | zero =>
    intro p hp
    have : p = [] := List.eq_nil_of_length_eq_zero (by omega)
    subst this; rfl
  | succ f ih =>
    intro p hp
    simp only [chunksAux]
    split
    · rename_i h0
      have : p = [] := List.eq_nil_of_length_eq_zero h0
      subst this; rfl
    · rename_i h0
      simp only [List.flatten_cons]
      rw [ih]
      · exact List.take_append_drop _ p
      · simp only [List.length_drop]
        split <;> omega

theorem chunks_flatten (b : Nat) (hb : 0 < b) (p : C01Bytes) : (chunks b p).flatten = p :=
  chunksAux_flatten b hb p.length p (Nat.le_refl _)

theorem chunksAux_bounds (b : Nat) (hb : 0 < b) :
    ∀ (fuel : Nat) (p : C01Bytes), ∀ c ∈ chunksAux b fuel p, 0 < c.length ∧ c.length ≤ b := by
  intro fuel
  induction fuel with
  | zero => intro p c hc; simp [chunksAux] at hc
  | succ f ih =>
    intro p c hc
    simp only [chunksAux] at hc
    split at hc
    · simp at hc
    · rename_i h0
      rcases List.mem_cons.mp hc with h | h
      · subst h
        simp only [List.length_take]
        split <;> omega
      · exact ih _ c h

theorem chunks_bounds (b : Nat) (hb : 0 < b) (p : C01Bytes) :
    ∀ c ∈ chunks b p, 0 < c.length ∧ c.length ≤ b :=
  chunksAux_bounds b hb p.length p

theorem sum_map_length_flatten (xs : List C01Bytes) : (xs.map List.length).sum = xs.flatten.length := by
  induction xs with
  | nil => rfl
  | cons a r ih => simp only [List.map_cons, List.sum_cons, List.flatten_cons, List.length_append, ih]

theorem writerN_eq (b : Nat) (hb : 0 < b) (p : C01Bytes) : writerN b p = p.length := by
  simp only [writerN, sum_map_length_flatten, chunks_flatten b hb p]

/-! ### token bucket -/

theorem lastT_ge (r B : Nat) : ∀ (evs : List (Nat × Nat)) (L t : Nat), valid r B L t evs = true → t ≤ lastT t evs := by
  intro evs
  induction evs with
  | nil => intro L t _; exact Nat.le_refl _
  | cons e rest ih =>
    intro L t h
    obtain ⟨g, n⟩ := e
    simp only [valid, Bool.and_eq_true, decide_eq_true_eq] at h
    have := ih _ _ h.2.2
    simp only [lastT]
    omega

/-- from `L` tokens at tick `t`, the grants of a valid history sum to at most
    `L + r·(last tick − t)` -/
theorem segment_bound (r B : Nat) : ∀ (evs : List (Nat × Nat)) (L t : Nat),
    valid r B L t evs = true → sumN evs ≤ L + r * (lastT t evs - t) := by
  intro evs
  induction evs with
  | nil => intro L t _; simp [sumN]
  | cons e rest ih =>
    intro L t h
    obtain ⟨g, n⟩ := e
    simp only [valid, Bool.and_eq_true, decide_eq_true_eq] at h
    obtain ⟨htg, hn, hrest⟩ := h
    have hlast := lastT_ge r B rest _ _ hrest
    have ih' := ih _ _ hrest
    simp only [sumN, lastT]
    have hsplit : r * (lastT g rest - t) = r * (g - t) + r * (lastT g rest - g) := by
      rw [← Nat.mul_add]
      congr 1
      omega
    have hmin : min B (L + r * (g - t)) ≤ L + r * (g - t) := Nat.min_le_right _ _
    omega

theorem valid_of_append_left (r B : Nat) : ∀ (a b : List (Nat × Nat)) (L t : Nat),
    valid r B L t (a ++ b) = true → valid r B L t a = true := by
  intro a
  induction a with
  | nil => intro b L t _; rfl
  | cons e rest ih =>
    intro b L t h
    obtain ⟨g, n⟩ := e
    simp only [List.cons_append, valid, Bool.and_eq_true, decide_eq_true_eq] at h ⊢
    exact ⟨h.1, h.2.1, ih _ _ _ h.2.2⟩

theorem valid_of_append_right (r B : Nat) : ∀ (a b : List (Nat × Nat)) (L t : Nat),
    valid r B L t (a ++ b) = true → ∃ L' t', valid r B L' t' b = true := by
  intro a
  induction a with
  | nil => intro b L t h; exact ⟨L, t, h⟩
  | cons e rest ih =>
    intro b L t h
    obtain ⟨g, n⟩ := e
    simp only [List.cons_append, valid, Bool.and_eq_true, decide_eq_true_eq] at h
    exact ih _ _ _ h.2.2

/-- whatever the bucket held before, a valid run of grants is bounded by one burst plus the
    refill over the time it spans -/
theorem run_bound (r B : Nat) (mid : List (Nat × Nat)) (L t : Nat)
    (h : valid r B L t mid = true) : sumN mid ≤ B + r * span mid := by
  cases mid with
  | nil => simp [sumN]
  | cons e rest =>
    obtain ⟨g, n⟩ := e
    simp only [valid, Bool.and_eq_true, decide_eq_true_eq] at h
    obtain ⟨_, hn, hrest⟩ := h
    have hb := segment_bound r B rest _ _ hrest
    have hmin : min B (L + r * (g - t)) ≤ B := Nat.min_le_left _ _
    simp only [sumN, span]
    omega

end Limit
end Frp
