import Frp.Model.Limit
/-! Lemmas about `limit.Writer.Write`'s chunk loop and the token bucket (core only). -/
namespace Frp
namespace Limit

theorem chunksAux_flatten (b : Nat) (hb : 0 < b) :
    ∀ (fuel : Nat) (p : C01Bytes), p.length ≤ fuel → (chunksAux b fuel p).flatten = p := by
  intro fuel
  induction fuel with
  | zero =>
    intro p hp
    have : p = [] := List.eq_nil_of_length_eq_zero (by omega)
    subst this; rfl
  | succ f ih =>
    intro p hp
    simp only [chunksAux]
    split
    · rename_i h0
      have : p = [] := List.eq_nil_of_length_eq_zero h0
      subst this; rfl
    · rename_i h0
      simp only [List.flatten_cons]
      rw [ih]
      · exact List.take_append_drop _ p
      · simp only [List.length_drop]
        split <;> omega

theorem chunks_flatten (b : Nat) (hb : 0 < b) (p : C01Bytes) : (chunks b p).flatten = p :=
  chunksAux_flatten b hb p.length p (Nat.le_refl _)

theorem chunksAux_bounds (b : Nat) (hb : 0 < b) :
    ∀ (fuel : Nat) (p : C01Bytes), ∀ c ∈ chunksAux b fuel p, 0 < c.length ∧ c.length ≤ b := by
  intro fuel
  induction fuel with
  | zero => intro p c hc; simp [chunksAux] at hc
  | succ f ih =>
    intro p c hc
    simp only [chunksAux] at hc
    split at hc
    · simp at hc
    · rename_i h0
      rcases List.mem_cons.mp hc with h | h
      · subst h
        simp only [List.length_take]
        split <;> omega
      · exact ih _ c h

theorem chunks_bounds (b : Nat) (hb : 0 < b) (p : C01Bytes) :
    ∀ c ∈ chunks b p, 0 < c.length ∧ c.length ≤ b :=
  chunksAux_bounds b hb p.length p

theorem sum_map_length_flatten (xs : List C01Bytes) : (xs.map List.length).sum = xs.flatten.length := by
  induction xs with
  | nil => rfl
  | cons a r ih => simp only [List.map_cons, List.sum_cons, List.flatten_cons, List.length_append, ih]

theorem writerN_eq (b : Nat) (hb : 0 < b) (p : C01Bytes) : writerN b p = p.length := by
  simp only [writerN, sum_map_length_flatten, chunks_flatten b hb p]

/-! ### `Writer.Write` with the limiter's admission check and a failing sink -/

/-- the chunk size chosen by the loop is admissible: `WaitN` cannot refuse it -/
theorem waitOk_chunk (inf : Bool) (b l : Nat) : waitOk inf b (if b < l then b else l) = true := by
  simp only [waitOk, Bool.or_eq_true, decide_eq_true_eq]
  right
  split <;> omega

/-- everything one `Write` does, for every sink capacity -/
structure WSpec (b room : Nat) (p : C01Bytes) (o : WOut) : Prop where
  noWait : o.err ≠ .wait
  n_eq : o.n = min room p.length
  ok_iff : o.err = .none ↔ p.length ≤ room
  pre : o.offered.flatten <+: p
  n_le : o.n ≤ o.offered.flatten.length
  reqs : o.reqs = o.offered.map List.length
  bounds : ∀ c ∈ o.offered, 0 < c.length ∧ c.length ≤ b
  room_eq : o.room = room - o.n

theorem writeAux_spec (inf : Bool) (b : Nat) (hb : 0 < b) :
    ∀ (fuel room : Nat) (p : C01Bytes), p.length ≤ fuel → WSpec b room p (writeAux inf b fuel room p) := by
  intro fuel
  induction fuel with
  | zero =>
    intro room p hp
    have : p = [] := List.eq_nil_of_length_eq_zero (by omega)
    subst this
    exact ⟨by simp [writeAux], by simp [writeAux], by simp [writeAux], by simp [writeAux], by simp [writeAux],
      by simp [writeAux], by simp [writeAux], by simp [writeAux]⟩
  | succ f ih =>
    intro room p hp
    by_cases h0 : p.length = 0
    · have : p = [] := List.eq_nil_of_length_eq_zero h0
      subst this
      exact ⟨by simp [writeAux], by simp [writeAux], by simp [writeAux], by simp [writeAux], by simp [writeAux],
        by simp [writeAux], by simp [writeAux], by simp [writeAux]⟩
    · have hw := waitOk_chunk inf b p.length
      have he : 0 < (if b < p.length then b else p.length) ∧ (if b < p.length then b else p.length) ≤ b ∧
          (if b < p.length then b else p.length) ≤ p.length := by split <;> omega
      generalize hE : (if b < p.length then b else p.length) = e at hw he
      obtain ⟨he0, heb, hel⟩ := he
      have htl : (p.take e).length = e := by simp only [List.length_take]; omega
      by_cases hr : e ≤ room
      · have hd : (p.drop e).length ≤ f := by simp only [List.length_drop]; omega
        have s := ih (room - e) (p.drop e) hd
        have hdl : (p.drop e).length = p.length - e := List.length_drop
        have hval : writeAux inf b (f + 1) room p =
            { n := e + (writeAux inf b f (room - e) (p.drop e)).n, err := (writeAux inf b f (room - e) (p.drop e)).err,
              reqs := e :: (writeAux inf b f (room - e) (p.drop e)).reqs,
              offered := p.take e :: (writeAux inf b f (room - e) (p.drop e)).offered,
              room := (writeAux inf b f (room - e) (p.drop e)).room } := by
          simp only [writeAux, h0, if_false, hE, hw, if_true, hr]
        rw [hval]
        generalize writeAux inf b f (room - e) (p.drop e) = o at s
        refine ⟨s.noWait, ?_, ?_, ?_, ?_, ?_, ?_, ?_⟩
        · have := s.n_eq; simp only [hdl] at this ⊢; omega
        · have := s.ok_iff; simp only [hdl] at this; simp only []; rw [this]; omega
        · simp only [List.flatten_cons]
          have h := (List.prefix_append_right_inj (p.take e)).mpr s.pre
          rwa [List.take_append_drop] at h
        · have := s.n_le; simp only [List.flatten_cons, List.length_append, htl]; omega
        · simp only [List.map_cons, htl, s.reqs]
        · intro c hc
          rcases List.mem_cons.mp hc with h | h
          · subst h; rw [htl]; exact ⟨he0, heb⟩
          · exact s.bounds c h
        · have h1 := s.room_eq; have h2 := s.n_eq; simp only [hdl] at h2 ⊢; omega
      · have hval : writeAux inf b (f + 1) room p =
            { n := room, err := .sink, reqs := [e], offered := [p.take e], room := 0 } := by
          simp only [writeAux, h0, if_false, hE, hw, if_true, hr]
        rw [hval]
        refine ⟨by simp, ?_, ?_, ?_, ?_, ?_, ?_, ?_⟩
        · simp only []; omega
        · simp only []; constructor
          · intro h; cases h
          · intro h; omega
        · simp only [List.flatten_cons, List.flatten_nil, List.append_nil]; exact List.take_prefix _ _
        · simp only [List.flatten_cons, List.flatten_nil, List.append_nil, htl]; omega
        · simp only [List.map_cons, List.map_nil, htl]
        · intro c hc
          simp only [List.mem_singleton] at hc
          subst hc; rw [htl]; exact ⟨he0, heb⟩
        · simp only []; omega

theorem write_spec (inf : Bool) (b : Nat) (hb : 0 < b) (room : Nat) (p : C01Bytes) :
    WSpec b room p (write inf b room p) := writeAux_spec inf b hb p.length room p (Nat.le_refl _)

/-- the bytes the sink accepted are exactly the first `n` bytes of `p` -/
theorem write_accepted (inf : Bool) (b : Nat) (hb : 0 < b) (room : Nat) (p : C01Bytes) :
    (write inf b room p).accepted = p.take (write inf b room p).n := by
  have s := write_spec inf b hb room p
  generalize write inf b room p = o at s
  have h := List.prefix_iff_eq_take.mp s.pre
  simp only [WOut.accepted]
  rw [h, List.take_take]
  congr 1
  have := s.n_le
  omega

/-- with a sink that has room the run is the chunk run of `chunks` -/
theorem writeAux_roomy (inf : Bool) (b : Nat) :
    ∀ (fuel room : Nat) (p : C01Bytes), p.length ≤ room →
      writeAux inf b fuel room p =
        { n := ((chunksAux b fuel p).map List.length).sum, err := .none,
          reqs := (chunksAux b fuel p).map List.length, offered := chunksAux b fuel p,
          room := room - ((chunksAux b fuel p).map List.length).sum } := by
  intro fuel
  induction fuel with
  | zero => intro room p _; simp [writeAux, chunksAux]
  | succ f ih =>
    intro room p hp
    by_cases h0 : p.length = 0
    · simp [writeAux, chunksAux, h0]
    · have hw := waitOk_chunk inf b p.length
      have he : (if b < p.length then b else p.length) ≤ p.length := by split <;> omega
      generalize hE : (if b < p.length then b else p.length) = e at hw he
      have hr : e ≤ room := by omega
      have hd : (p.drop e).length ≤ room - e := by simp only [List.length_drop]; omega
      have htl : (p.take e).length = e := by simp only [List.length_take]; omega
      simp only [writeAux, chunksAux, h0, if_false, hE, hw, if_true, hr, ih (room - e) (p.drop e) hd,
        List.map_cons, List.sum_cons, htl]
      congr 1
      omega

/-! ### `Reader.Read` with the limiter's admission check, draining a stream -/

/-- what every `Read` of a drain satisfies -/
def ROutOk (b plen : Nat) (r : ROut) : Prop :=
  r.err ≠ .wait ∧ r.got.length ≤ min plen b ∧
    (r.err = .none → r.req = some r.got.length ∧ 0 < r.got.length) ∧ (r.err = .eof → r.got = [] ∧ r.req = none)

theorem readAll_spec (inf : Bool) (b plen per : Nat) (hb : 0 < b) (hp : 0 < plen) (hper : 0 < per) :
    ∀ (fuel : Nat) (src : C01Bytes), src.length < fuel →
      ((readAll inf b plen per fuel src).map (·.got)).flatten = src ∧
      (∀ r ∈ readAll inf b plen per fuel src, ROutOk b plen r) ∧
      (∃ pre, readAll inf b plen per fuel src = pre ++ [{ got := [], req := none, err := .eof }] ∧
        ∀ r ∈ pre, r.err = .none) := by
  intro fuel
  induction fuel with
  | zero => intro src h; omega
  | succ f ih =>
    intro src hlen
    by_cases h0 : src.length = 0
    · have : src = [] := List.eq_nil_of_length_eq_zero h0
      subst this
      refine ⟨by simp [readAll, readOnce], ?_, ⟨[], by simp [readAll, readOnce], by simp⟩⟩
      intro r hr
      simp only [readAll, readOnce, List.length_nil, if_true] at hr
      simp at hr
      subst hr
      simp [ROutOk]
    · have hk : 0 < min (readerAsk b plen) per ∧ min (readerAsk b plen) per ≤ min plen b := by
        simp only [readerAsk]; split <;> omega
      generalize hK : min (readerAsk b plen) per = k at hk
      have hgl : (src.take k).length = min k src.length := List.length_take
      have hw : waitOk inf b (src.take k).length = true := by
        simp only [waitOk, Bool.or_eq_true, decide_eq_true_eq]; right; omega
      have hone : readOnce inf b plen per src =
          ({ got := src.take k, req := some (src.take k).length, err := .none }, src.drop k) := by
        simp only [readOnce, h0, if_false, hK, hw, if_true]
      have hd : (src.drop k).length < f := by simp only [List.length_drop]; omega
      obtain ⟨i1, i2, pre, i3, i4⟩ := ih (src.drop k) hd
      have hval : readAll inf b plen per (f + 1) src =
          { got := src.take k, req := some (src.take k).length, err := .none } :: readAll inf b plen per f (src.drop k) := by
        simp only [readAll, hone, if_true]
      rw [hval]
      refine ⟨?_, ?_, ⟨_ :: pre, by rw [i3]; rfl, ?_⟩⟩
      · simp only [List.map_cons, List.flatten_cons, i1, List.take_append_drop]
      · intro r hr
        rcases List.mem_cons.mp hr with h | h
        · subst h
          refine ⟨by simp, by simp only [hgl]; omega, fun _ => ⟨rfl, by simp only [hgl]; omega⟩, fun h => by cases h⟩
        · exact i2 r h
      · intro r hr
        rcases List.mem_cons.mp hr with h | h
        · subst h; rfl
        · exact i4 r h

/-! ### the io.Reader contract: wrapper stacks over scripted sources -/

theorem srcFuel_pos : ∀ (src : List Seg), 0 < srcFuel src
  | [] => by simp [srcFuel]
  | _ :: _ => by simp only [srcFuel]; omega

theorem finalErr_ne_none : ∀ (src : List Seg), finalErr src ≠ .none
  | [] => by simp [finalErr]
  | s :: rest => by
    simp only [finalErr]
    split
    · exact finalErr_ne_none rest
    · assumption

theorem srcRead_len (k : Nat) (src : List Seg) : (srcRead k src).1.1.length ≤ k := by
  cases src with
  | nil => simp [srcRead]
  | cons s rest =>
    by_cases h : s.data.length ≤ k
    · simp only [srcRead, h, if_true]
    · simp only [srcRead, h, if_false, List.length_take]; omega

/-- one read of the source with a non-empty buffer: what it hands out is the next part of `delivered`, and either the
    source goes on (strictly smaller) or this was its final error -/
theorem srcRead_step (k : Nat) (hk : 0 < k) (src : List Seg) :
    ((srcRead k src).1.2 = .none →
        delivered src = (srcRead k src).1.1 ++ delivered (srcRead k src).2 ∧
        finalErr src = finalErr (srcRead k src).2 ∧ srcFuel (srcRead k src).2 < srcFuel src) ∧
    ((srcRead k src).1.2 ≠ .none →
        delivered src = (srcRead k src).1.1 ∧ finalErr src = (srcRead k src).1.2) := by
  cases src with
  | nil => simp [srcRead, delivered, finalErr]
  | cons s rest =>
    by_cases h : s.data.length ≤ k
    · by_cases he : s.err = .none
      · simp only [srcRead, h, if_true, he, delivered, finalErr, srcFuel]
        refine ⟨fun _ => ⟨trivial, trivial, by omega⟩, fun hne => absurd rfl hne⟩
      · simp only [srcRead, h, if_true, he, if_false, delivered, finalErr]
        exact ⟨fun h0 => False.elim h0, fun _ => ⟨trivial, trivial⟩⟩
    · simp only [srcRead, h, if_false]
      refine ⟨fun _ => ?_, fun hne => absurd rfl hne⟩
      by_cases he : s.err = .none
      · simp only [delivered, finalErr, srcFuel, he, if_true, List.length_drop, ← List.append_assoc,
          List.take_append_drop]
        exact ⟨trivial, trivial, by omega⟩
      · simp only [delivered, finalErr, srcFuel, he, if_false, List.length_drop, List.take_append_drop]
        exact ⟨trivial, trivial, by omega⟩

/-- the buffer size that reaches the source through a wrapper stack: every limiter truncates to its burst -/
def effK : List RW → Nat → Nat
  | [], k => k
  | .limit _ b :: ws, k => effK ws (readerAsk b k)
  | .pass :: ws, k => effK ws k
  | .stats :: ws, k => effK ws k

/-- number of limiters in a stack -/
def nLim : List RW → Nat
  | [] => 0
  | .limit _ _ :: ws => nLim ws + 1
  | .pass :: ws => nLim ws
  | .stats :: ws => nLim ws

/-- every limiter of the stack has a positive burst (frp builds none with burst 0) -/
def burstsPos : List RW → Bool
  | [] => true
  | .limit _ b :: ws => decide (0 < b) && burstsPos ws
  | .pass :: ws => burstsPos ws
  | .stats :: ws => burstsPos ws

theorem readerAsk_le (b k : Nat) : readerAsk b k ≤ k ∧ readerAsk b k ≤ b := by
  simp only [readerAsk]; split <;> omega

theorem effK_le : ∀ (ws : List RW) (k : Nat), effK ws k ≤ k
  | [], k => Nat.le_refl k
  | .limit _ b :: ws, k => Nat.le_trans (effK_le ws _) (readerAsk_le b k).1
  | .pass :: ws, k => effK_le ws k
  | .stats :: ws, k => effK_le ws k

theorem effK_le_burst : ∀ (ws : List RW) (k : Nat) (inf : Bool) (b : Nat), RW.limit inf b ∈ ws → effK ws k ≤ b
  | [], _, _, _, h => by cases h
  | .limit i' b' :: ws, k, inf, b, h => by
    rcases List.mem_cons.mp h with h | h
    · obtain ⟨_, h2⟩ := RW.limit.inj h
      subst h2
      exact Nat.le_trans (effK_le ws _) (readerAsk_le _ k).2
    · exact effK_le_burst ws _ inf b h
  | .pass :: ws, k, inf, b, h => by
    rcases List.mem_cons.mp h with h | h
    · cases h
    · exact effK_le_burst ws k inf b h
  | .stats :: ws, k, inf, b, h => by
    rcases List.mem_cons.mp h with h | h
    · cases h
    · exact effK_le_burst ws k inf b h

theorem effK_pos : ∀ (ws : List RW) (k : Nat), burstsPos ws = true → 0 < k → 0 < effK ws k
  | [], _, _, hk => hk
  | .limit _ b :: ws, k, hb, hk => by
    simp only [burstsPos, Bool.and_eq_true, decide_eq_true_eq] at hb
    exact effK_pos ws _ hb.2 (by simp only [readerAsk]; split <;> omega)
  | .pass :: ws, k, hb, hk => effK_pos ws k hb hk
  | .stats :: ws, k, hb, hk => effK_pos ws k hb hk

/-- the tokens every limiter of a stack is asked for by one `Read` that got `(d, e)` from the source: the bytes, unless
    the read brought an error and nothing else -/
def reqsOf (n : Nat) (d : C01Bytes) (e : SErr) : List Nat :=
  if e = SErr.none ∨ d.length ≠ 0 then List.replicate n d.length else []

/-- `limit.Reader.Read` on the `(n, err)` pair `(d, e)` of the reader below, `len(d) ≤ burst` -/
theorem limit_step (inf : Bool) (b n : Nat) (d : C01Bytes) (e : SErr) (rest : List Seg) (hd : d.length ≤ b) :
    (if PErr.ofS e = PErr.none then
        (({ got := d, err := if waitOk inf b d.length = true then PErr.none else PErr.wait,
            reqs := reqsOf n d e ++ [d.length] } : RRes), rest)
      else if d.length = 0 then ({ got := d, err := PErr.ofS e, reqs := reqsOf n d e }, rest)
      else ({ got := d, err := if waitOk inf b d.length = true then PErr.ofS e else PErr.wait,
              reqs := reqsOf n d e ++ [d.length] }, rest)) =
      ({ got := d, err := PErr.ofS e, reqs := reqsOf (n + 1) d e }, rest) := by
  have hw : waitOk inf b d.length = true := by
    simp only [waitOk, Bool.or_eq_true, decide_eq_true_eq]; right; exact hd
  by_cases h0 : d.length = 0
  · have hw0 : waitOk inf b 0 = true := by rw [h0] at hw; exact hw
    cases e <;> simp [PErr.ofS, hw0, reqsOf, h0, List.replicate_succ']
  · cases e <;> simp [PErr.ofS, hw, reqsOf, h0, List.replicate_succ']

/-- a wrapper stack reads the source with the effective buffer and hands the `(n, err)` pair on UNCHANGED; each of its
    limiters is asked for exactly the bytes of the read, with or without an error (not at all for `(0, err)`);
    no `WaitN` is refused -/
theorem readW_eq : ∀ (ws : List RW) (k : Nat) (src : List Seg), burstsPos ws = true →
    readW ws k src =
      ({ got := (srcRead (effK ws k) src).1.1, err := PErr.ofS (srcRead (effK ws k) src).1.2,
         reqs := reqsOf (nLim ws) (srcRead (effK ws k) src).1.1 (srcRead (effK ws k) src).1.2 },
       (srcRead (effK ws k) src).2)
  | [], k, src, _ => by
    simp only [readW, effK, nLim, reqsOf, List.replicate_zero]
    congr 2
    exact (ite_self _).symm
  | .pass :: ws, k, src, hb => by
    simp only [burstsPos] at hb
    show readW ws k src = _
    rw [readW_eq ws k src hb]; rfl
  | .stats :: ws, k, src, hb => by
    simp only [burstsPos] at hb
    show readW ws k src = _
    rw [readW_eq ws k src hb]; rfl
  | .limit inf b :: ws, k, src, hb => by
    simp only [burstsPos, Bool.and_eq_true, decide_eq_true_eq] at hb
    have hlen := srcRead_len (effK ws (readerAsk b k)) src
    have hle : effK ws (readerAsk b k) ≤ b := Nat.le_trans (effK_le ws _) (readerAsk_le b k).2
    simp only [readW, effK, nLim, readW_eq ws (readerAsk b k) src hb.2]
    exact limit_step inf b (nLim ws) _ _ _ (Nat.le_trans hlen hle)

/-- what every `Read` of a drain through a wrapper stack satisfies -/
def RResOk (ws : List RW) (plen : Nat) (r : RRes) : Prop :=
  r.err ≠ .wait ∧ r.got.length ≤ effK ws plen ∧
    (r.err = .none → r.reqs = List.replicate (nLim ws) r.got.length) ∧ r.reqs.sum = nLim ws * r.got.length

theorem reqsOf_sum (n : Nat) (d : C01Bytes) (e : SErr) : (reqsOf n d e).sum = n * d.length := by
  simp only [reqsOf]
  split
  · exact List.sum_replicate_nat
  · rename_i h
    have : d.length = 0 := by
      by_cases h0 : d.length = 0
      · exact h0
      · exact absurd (Or.inr h0) h
    simp [this]

theorem drainW_spec (ws : List RW) (plen : Nat) (hb : burstsPos ws = true) (hp : 0 < plen) :
    ∀ (fuel : Nat) (src : List Seg), srcFuel src ≤ fuel →
      ((drainW ws plen fuel src).map (·.got)).flatten = delivered src ∧
      (∀ r ∈ drainW ws plen fuel src, RResOk ws plen r) ∧
      (∃ pre last, drainW ws plen fuel src = pre ++ [last] ∧ (∀ r ∈ pre, r.err = .none) ∧
        last.err = PErr.ofS (finalErr src)) := by
  have hK := effK_pos ws plen hb hp
  intro fuel
  induction fuel with
  | zero => intro src h; have := srcFuel_pos src; omega
  | succ f ih =>
    intro src hfuel
    have hstep := srcRead_step (effK ws plen) hK src
    have hlen := srcRead_len (effK ws plen) src
    have hrd := readW_eq ws plen src hb
    generalize srcRead (effK ws plen) src = x at hstep hlen hrd
    obtain ⟨⟨d, e⟩, rest⟩ := x
    simp only at hstep hlen hrd
    by_cases he : e = .none
    · subst he
      obtain ⟨h1, h2, h3⟩ := hstep.1 rfl
      obtain ⟨i1, i2, pre, last, i3, i4, i5⟩ := ih rest (by omega)
      have hval : drainW ws plen (f + 1) src =
          { got := d, err := .none, reqs := List.replicate (nLim ws) d.length } :: drainW ws plen f rest := by
        simp [drainW, hrd, PErr.ofS, reqsOf]
      rw [hval]
      refine ⟨by simp only [List.map_cons, List.flatten_cons, i1, h1], ?_, ⟨_ :: pre, last, by rw [i3]; rfl, ?_, by rw [i5, h2]⟩⟩
      · intro r hr
        rcases List.mem_cons.mp hr with h | h
        · subst h; exact ⟨by simp, hlen, fun _ => rfl, by simp [List.sum_replicate_nat]⟩
        · exact i2 r h
      · intro r hr
        rcases List.mem_cons.mp hr with h | h
        · subst h; rfl
        · exact i4 r h
    · obtain ⟨h1, h2⟩ := hstep.2 he
      have hne : PErr.ofS e ≠ .none := by cases e <;> simp_all [PErr.ofS]
      have hnw : PErr.ofS e ≠ .wait := by cases e <;> simp [PErr.ofS]
      have hval : drainW ws plen (f + 1) src = [{ got := d, err := PErr.ofS e, reqs := reqsOf (nLim ws) d e }] := by
        simp [drainW, hrd, hne]
      rw [hval]
      refine ⟨by simp [h1], ?_, ⟨[], _, rfl, by simp, by simp [h2]⟩⟩
      intro r hr
      simp only [List.mem_singleton] at hr
      subst hr
      exact ⟨hnw, hlen, fun h => absurd h hne, reqsOf_sum _ _ _⟩

/-- however early the caller stops: what it has read is a prefix of what the source delivers -/
theorem drainW_prefix (ws : List RW) (plen : Nat) (hb : burstsPos ws = true) (hp : 0 < plen) :
    ∀ (fuel : Nat) (src : List Seg), ((drainW ws plen fuel src).map (·.got)).flatten <+: delivered src := by
  have hK := effK_pos ws plen hb hp
  intro fuel
  induction fuel with
  | zero => intro src; simp [drainW]
  | succ f ih =>
    intro src
    have hstep := srcRead_step (effK ws plen) hK src
    have hrd := readW_eq ws plen src hb
    generalize srcRead (effK ws plen) src = x at hstep hrd
    obtain ⟨⟨d, e⟩, rest⟩ := x
    simp only at hstep hrd
    by_cases he : e = .none
    · subst he
      obtain ⟨h1, _, _⟩ := hstep.1 rfl
      have hval : drainW ws plen (f + 1) src =
          { got := d, err := .none, reqs := List.replicate (nLim ws) d.length } :: drainW ws plen f rest := by
        simp [drainW, hrd, PErr.ofS, reqsOf]
      rw [hval, h1]
      simp only [List.map_cons, List.flatten_cons]
      exact (List.prefix_append_right_inj d).mpr (ih rest)
    · obtain ⟨h1, _⟩ := hstep.2 he
      have hne : PErr.ofS e ≠ .none := by cases e <;> simp_all [PErr.ofS]
      have hval : drainW ws plen (f + 1) src = [{ got := d, err := PErr.ofS e, reqs := reqsOf (nLim ws) d e }] := by
        simp [drainW, hrd, hne]
      rw [hval, h1]
      simp

/-! ### the io.Writer contract: `Writer.Write` over scripted sinks -/

/-- no answer of the script breaks the io.Writer contract (short count ⇒ error) -/
def sinkOk (ss : List SinkResp) : Bool := ss.all fun s => !s.lax

/-- everything one `Write` over a contract-abiding scripted sink does -/
structure WSSpec (p : C01Bytes) (x : WRes × List SinkResp) : Prop where
  noWait : x.1.err ≠ .wait
  n_eq : x.1.n = x.1.took.sum
  n_le : x.1.n ≤ p.length
  acc : x.1.accepted = p.take x.1.n
  ok_full : x.1.err = .none → x.1.n = p.length
  rest_ok : sinkOk x.2 = true

theorem sinkWrite_spec (c : C01Bytes) (ss : List SinkResp) (h : sinkOk ss = true) :
    (sinkWrite c ss).1.1 ≤ c.length ∧ ((sinkWrite c ss).1.2 = false → (sinkWrite c ss).1.1 = c.length) ∧
      sinkOk (sinkWrite c ss).2 = true := by
  cases ss with
  | nil => simp [sinkWrite, sinkOk]
  | cons s rest =>
    simp only [sinkOk, List.all_cons, Bool.and_eq_true, Bool.not_eq_true'] at h
    simp only [sinkWrite, h.1, Bool.not_false, Bool.and_true, Bool.or_eq_false_iff, decide_eq_false_iff_not]
    refine ⟨Nat.min_le_right _ _, fun hh => ?_, h.2⟩
    have := Nat.min_le_right s.take c.length
    omega

theorem writeSAux_spec (inf : Bool) (b : Nat) (hb : 0 < b) :
    ∀ (fuel : Nat) (ss : List SinkResp) (p : C01Bytes), p.length ≤ fuel → sinkOk ss = true →
      WSSpec p (writeSAux inf b fuel ss p) := by
  intro fuel
  induction fuel with
  | zero =>
    intro ss p hp hs
    have : p = [] := List.eq_nil_of_length_eq_zero (by omega)
    subst this
    exact ⟨by simp [writeSAux], by simp [writeSAux], by simp [writeSAux], by simp [writeSAux, WRes.accepted, takenOf],
      by simp [writeSAux], by simpa [writeSAux] using hs⟩
  | succ f ih =>
    intro ss p hp hs
    by_cases h0 : p.length = 0
    · have : p = [] := List.eq_nil_of_length_eq_zero h0
      subst this
      exact ⟨by simp [writeSAux], by simp [writeSAux], by simp [writeSAux], by simp [writeSAux, WRes.accepted, takenOf],
        by simp [writeSAux], by simpa [writeSAux] using hs⟩
    · have hw := waitOk_chunk inf b p.length
      have he : 0 < (if b < p.length then b else p.length) ∧ (if b < p.length then b else p.length) ≤ p.length := by
        split <;> omega
      generalize hE : (if b < p.length then b else p.length) = e at hw he
      obtain ⟨he0, hel⟩ := he
      have htl : (p.take e).length = e := by simp only [List.length_take]; omega
      have hsk := sinkWrite_spec (p.take e) ss hs
      rw [htl] at hsk
      generalize hX : sinkWrite (p.take e) ss = x at hsk
      obtain ⟨⟨nn, flag⟩, ss'⟩ := x
      simp only at hsk
      obtain ⟨hnn, hfull, hs'⟩ := hsk
      cases flag with
      | true =>
        have hval : writeSAux inf b (f + 1) ss p =
            ({ n := nn, err := .sink, reqs := [e], offered := [p.take e], took := [nn] }, ss') := by
          simp only [writeSAux, h0, if_false, hE, hw, if_true, hX]
        rw [hval]
        refine ⟨by simp, by simp, by simp only []; omega, ?_, by simp, hs'⟩
        simp only [WRes.accepted, takenOf, List.append_nil, List.take_take]
        congr 1
        omega
      | false =>
        have hne : nn = e := hfull rfl
        subst hne
        have hd : (p.drop nn).length ≤ f := by simp only [List.length_drop]; omega
        have s := ih ss' (p.drop nn) hd hs'
        have hdl : (p.drop nn).length = p.length - nn := List.length_drop
        have hval : writeSAux inf b (f + 1) ss p =
            ({ n := nn + (writeSAux inf b f ss' (p.drop nn)).1.n, err := (writeSAux inf b f ss' (p.drop nn)).1.err,
               reqs := nn :: (writeSAux inf b f ss' (p.drop nn)).1.reqs,
               offered := p.take nn :: (writeSAux inf b f ss' (p.drop nn)).1.offered,
               took := nn :: (writeSAux inf b f ss' (p.drop nn)).1.took }, (writeSAux inf b f ss' (p.drop nn)).2) := by
          simp only [writeSAux, h0, if_false, hE, hw, if_true, hX]
          rfl
        rw [hval]
        generalize writeSAux inf b f ss' (p.drop nn) = o at s
        refine ⟨s.noWait, ?_, ?_, ?_, ?_, s.rest_ok⟩
        · simp only [List.sum_cons, s.n_eq]
        · have := s.n_le; simp only [hdl] at this; simp only []; omega
        · have h := s.acc
          simp only [WRes.accepted] at h
          simp only [WRes.accepted, takenOf, h, List.take_take, Nat.min_self, ← List.take_add]
        · intro h; have := s.ok_full h; simp only [hdl] at this; simp only []; omega

/-- every `WaitN` of `Writer.Write` asks for exactly the bytes of the sink write that follows it -/
theorem writeSAux_reqs (inf : Bool) (b : Nat) :
    ∀ (fuel : Nat) (ss : List SinkResp) (p : C01Bytes),
      (writeSAux inf b fuel ss p).1.reqs = (writeSAux inf b fuel ss p).1.offered.map List.length := by
  intro fuel
  induction fuel with
  | zero => intro ss p; simp [writeSAux]
  | succ f ih =>
    intro ss p
    by_cases h0 : p.length = 0
    · simp [writeSAux, h0]
    · have hw := waitOk_chunk inf b p.length
      have he : (if b < p.length then b else p.length) ≤ p.length := by split <;> omega
      generalize hE : (if b < p.length then b else p.length) = e at hw he
      have htl : (p.take e).length = e := by simp only [List.length_take]; omega
      generalize hX : sinkWrite (p.take e) ss = x
      obtain ⟨⟨nn, flag⟩, ss'⟩ := x
      cases flag with
      | true => simp only [writeSAux, h0, if_false, hE, hw, if_true, hX, List.map_cons, List.map_nil, htl]
      | false =>
        have := ih ss' (p.drop e)
        simp only [writeSAux, h0, if_false, hE, hw, if_true, hX, this, Bool.false_eq_true, List.map_cons, htl]

theorem writeS_spec (inf : Bool) (b : Nat) (hb : 0 < b) (ss : List SinkResp) (p : C01Bytes) (hs : sinkOk ss = true) :
    WSSpec p (writeS inf b ss p) := writeSAux_spec inf b hb p.length ss p (Nat.le_refl _) hs

/-- every limiter of the stack that `Write` goes through has a positive burst -/
def limPos (ws : List RW) : Bool :=
  match limOf ws with
  | some (_, b) => decide (0 < b)
  | none => true

theorem writeW_spec (ws : List RW) (hb : limPos ws = true) (ss : List SinkResp) (p : C01Bytes) (hs : sinkOk ss = true) :
    WSSpec p (writeW ws ss p) := by
  simp only [limPos] at hb
  simp only [writeW]
  cases hl : limOf ws with
  | some ib =>
    obtain ⟨inf, b⟩ := ib
    rw [hl] at hb
    simp only [decide_eq_true_eq] at hb
    exact writeS_spec inf b hb ss p hs
  | none =>
    have hsk := sinkWrite_spec p ss hs
    generalize sinkWrite p ss = x at hsk
    obtain ⟨⟨nn, flag⟩, ss'⟩ := x
    simp only at hsk
    obtain ⟨hnn, hfull, hs'⟩ := hsk
    refine ⟨?_, by simp, hnn, by simp [WRes.accepted, takenOf], ?_, hs'⟩
    · cases flag <;> simp
    · cases flag with
      | true => simp
      | false => intro _; exact hfull rfl

/-- a stream written piece by piece through a wrapper stack by a caller that stops at the first error: the sink has
    accepted exactly the first `Σ n` bytes of the stream -/
theorem writeManyW_spec (ws : List RW) (hb : limPos ws = true) :
    ∀ (ps : List C01Bytes) (ss : List SinkResp), sinkOk ss = true →
      ((writeManyW ws ss ps).map WRes.accepted).flatten = ps.flatten.take ((writeManyW ws ss ps).map (·.n)).sum := by
  intro ps
  induction ps with
  | nil => intro ss _; simp [writeManyW]
  | cons p ps ih =>
    intro ss hs
    have s := writeW_spec ws hb ss p hs
    by_cases he : (writeW ws ss p).1.err = .none
    · have hn := s.ok_full he
      have hval : writeManyW ws ss (p :: ps) = (writeW ws ss p).1 :: writeManyW ws (writeW ws ss p).2 ps := by
        simp only [writeManyW, he, if_true]
      rw [hval]
      simp only [List.map_cons, List.flatten_cons, List.sum_cons, ih _ s.rest_ok, s.acc, hn, List.take_length,
        List.take_append, Nat.add_sub_cancel_left]
      congr 1
      exact (List.take_of_length_le (by omega)).symm
    · have hval : writeManyW ws ss (p :: ps) = [(writeW ws ss p).1] := by
        simp only [writeManyW, he, if_false]
      rw [hval]
      simp only [List.map_cons, List.map_nil, List.flatten_cons, List.flatten_nil, List.append_nil, List.sum_cons,
        List.sum_nil, Nat.add_zero, s.acc]
      exact (List.take_append_of_le_length s.n_le).symm

/-! ### token bucket -/

theorem lastT_ge (r B : Nat) : ∀ (evs : List (Nat × Nat)) (L t : Nat), valid r B L t evs = true → t ≤ lastT t evs := by
  intro evs
  induction evs with
  | nil => intro L t _; exact Nat.le_refl _
  | cons e rest ih =>
    intro L t h
    obtain ⟨g, n⟩ := e
    simp only [valid, Bool.and_eq_true, decide_eq_true_eq] at h
    have := ih _ _ h.2.2
    simp only [lastT]
    omega

/-- from `L` tokens at tick `t`, the grants of a valid history sum to at most
    `L + r·(last tick − t)` -/
theorem segment_bound (r B : Nat) : ∀ (evs : List (Nat × Nat)) (L t : Nat),
    valid r B L t evs = true → sumN evs ≤ L + r * (lastT t evs - t) := by
  intro evs
  induction evs with
  | nil => intro L t _; simp [sumN]
  | cons e rest ih =>
    intro L t h
    obtain ⟨g, n⟩ := e
    simp only [valid, Bool.and_eq_true, decide_eq_true_eq] at h
    obtain ⟨htg, hn, hrest⟩ := h
    have hlast := lastT_ge r B rest _ _ hrest
    have ih' := ih _ _ hrest
    simp only [sumN, lastT]
    have hsplit : r * (lastT g rest - t) = r * (g - t) + r * (lastT g rest - g) := by
      rw [← Nat.mul_add]
      congr 1
      omega
    have hmin : min B (L + r * (g - t)) ≤ L + r * (g - t) := Nat.min_le_right _ _
    omega

theorem valid_of_append_left (r B : Nat) : ∀ (a b : List (Nat × Nat)) (L t : Nat),
    valid r B L t (a ++ b) = true → valid r B L t a = true := by
  intro a
  induction a with
  | nil => intro b L t _; rfl
  | cons e rest ih =>
    intro b L t h
    obtain ⟨g, n⟩ := e
    simp only [List.cons_append, valid, Bool.and_eq_true, decide_eq_true_eq] at h ⊢
    exact ⟨h.1, h.2.1, ih _ _ _ h.2.2⟩

theorem valid_of_append_right (r B : Nat) : ∀ (a b : List (Nat × Nat)) (L t : Nat),
    valid r B L t (a ++ b) = true → ∃ L' t', valid r B L' t' b = true := by
  intro a
  induction a with
  | nil => intro b L t h; exact ⟨L, t, h⟩
  | cons e rest ih =>
    intro b L t h
    obtain ⟨g, n⟩ := e
    simp only [List.cons_append, valid, Bool.and_eq_true, decide_eq_true_eq] at h
    exact ih _ _ _ h.2.2

/-- whatever the bucket held before, a valid run of grants is bounded by one burst plus the
    refill over the time it spans -/
theorem run_bound (r B : Nat) (mid : List (Nat × Nat)) (L t : Nat)
    (h : valid r B L t mid = true) : sumN mid ≤ B + r * span mid := by
  cases mid with
  | nil => simp [sumN]
  | cons e rest =>
    obtain ⟨g, n⟩ := e
    simp only [valid, Bool.and_eq_true, decide_eq_true_eq] at h
    obtain ⟨_, hn, hrest⟩ := h
    have hb := segment_bound r B rest _ _ hrest
    have hmin : min B (L + r * (g - t)) ≤ B := Nat.min_le_left _ _
    simp only [sumN, span]
    omega

end Limit
end Frp
