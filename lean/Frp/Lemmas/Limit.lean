import Frp.Model.Limit
/-! Lemmas about `limit.Writer.Write`'s chunk loop and the token bucket (core only). -/
namespace Frp
namespace Limit

theorem chunksAux_flatten (b : Nat) (hb : 0 < b) :
    ∀ (fuel : Nat) (p : C01Bytes), p.length ≤ fuel → (chunksAux b fuel p).flatten = p := by
  intro fuel
  induction fuel with
  | zero =>
    intro p hp
    have : p = [] := List.eq_nil_of_length_eq_zero (by omega)
    subst this; rfl
  | succ f ih =>
    intro p hp
    simp only [chunksAux]
    split
    · rename_i h0
      have : p = [] := List.eq_nil_of_length_eq_zero h0
      subst this; rfl
    · rename_i h0
      simp only [List.flatten_cons]
      rw [ih]
      · exact List.take_append_drop _ p
      · simp only [List.length_drop]
        split <;> omega

theorem chunks_flatten (b : Nat) (hb : 0 < b) (p : C01Bytes) : (chunks b p).flatten = p :=
  chunksAux_flatten b hb p.length p (Nat.le_refl _)

theorem chunksAux_bounds (b : Nat) (hb : 0 < b) :
    ∀ (fuel : Nat) (p : C01Bytes), ∀ c ∈ chunksAux b fuel p, 0 < c.length ∧ c.length ≤ b := by
  intro fuel
  induction fuel with
  | zero => intro p c hc; simp [chunksAux] at hc
  | succ f ih =>
    intro p c hc
    simp only [chunksAux] at hc
    split at hc
    · simp at hc
    · rename_i h0
      rcases List.mem_cons.mp hc with h | h
      · subst h
        simp only [List.length_take]
        split <;> omega
      · exact ih _ c h

theorem chunks_bounds (b : Nat) (hb : 0 < b) (p : C01Bytes) :
    ∀ c ∈ chunks b p, 0 < c.length ∧ c.length ≤ b :=
  chunksAux_bounds b hb p.length p

theorem sum_map_length_flatten (xs : List C01Bytes) : (xs.map List.length).sum = xs.flatten.length := by
  induction xs with
  | nil => rfl
  | cons a r ih => simp only [List.map_cons, List.sum_cons, List.flatten_cons, List.length_append, ih]

theorem writerN_eq (b : Nat) (hb : 0 < b) (p : C01Bytes) : writerN b p = p.length := by
  simp only [writerN, sum_map_length_flatten, chunks_flatten b hb p]

/-! ### `Writer.Write` with the limiter's admission check and a failing sink -/

/-- the chunk size chosen by the loop is admissible: `WaitN` cannot refuse it -/
theorem waitOk_chunk (inf : Bool) (b l : Nat) : waitOk inf b (if b < l then b else l) = true := by
  simp only [waitOk, Bool.or_eq_true, decide_eq_true_eq]
  right
  split <;> omega

/-- everything one `Write` does, for every sink capacity -/
structure WSpec (b room : Nat) (p : C01Bytes) (o : WOut) : Prop where
  noWait : o.err ≠ .wait
  n_eq : o.n = min room p.length
  ok_iff : o.err = .none ↔ p.length ≤ room
  pre : o.offered.flatten <+: p
  n_le : o.n ≤ o.offered.flatten.length
  reqs : o.reqs = o.offered.map List.length
  bounds : ∀ c ∈ o.offered, 0 < c.length ∧ c.length ≤ b
  room_eq : o.room = room - o.n

theorem writeAux_spec (inf : Bool) (b : Nat) (hb : 0 < b) :
    ∀ (fuel room : Nat) (p : C01Bytes), p.length ≤ fuel → WSpec b room p (writeAux inf b fuel room p) := by
  intro fuel
  induction fuel with
  | zero =>
    intro room p hp
    have : p = [] := List.eq_nil_of_length_eq_zero (by omega)
    subst this
    exact ⟨by simp [writeAux], by simp [writeAux], by simp [writeAux], by simp [writeAux], by simp [writeAux],
      by simp [writeAux], by simp [writeAux], by simp [writeAux]⟩
  | succ f ih =>
    intro room p hp
    by_cases h0 : p.length = 0
    · have : p = [] := List.eq_nil_of_length_eq_zero h0
      subst this
      exact ⟨by simp [writeAux], by simp [writeAux], by simp [writeAux], by simp [writeAux], by simp [writeAux],
        by simp [writeAux], by simp [writeAux], by simp [writeAux]⟩
    · have hw := waitOk_chunk inf b p.length
      have he : 0 < (if b < p.length then b else p.length) ∧ (if b < p.length then b else p.length) ≤ b ∧
          (if b < p.length then b else p.length) ≤ p.length := by split <;> omega
      generalize hE : (if b < p.length then b else p.length) = e at hw he
      obtain ⟨he0, heb, hel⟩ := he
      have htl : (p.take e).length = e := by simp only [List.length_take]; omega
      by_cases hr : e ≤ room
      · have hd : (p.drop e).length ≤ f := by simp only [List.length_drop]; omega
        have s := ih (room - e) (p.drop e) hd
        have hdl : (p.drop e).length = p.length - e := List.length_drop
        have hval : writeAux inf b (f + 1) room p =
            { n := e + (writeAux inf b f (room - e) (p.drop e)).n, err := (writeAux inf b f (room - e) (p.drop e)).err,
              reqs := e :: (writeAux inf b f (room - e) (p.drop e)).reqs,
              offered := p.take e :: (writeAux inf b f (room - e) (p.drop e)).offered,
              room := (writeAux inf b f (room - e) (p.drop e)).room } := by
          simp only [writeAux, h0, if_false, hE, hw, if_true, hr]
        rw [hval]
        generalize writeAux inf b f (room - e) (p.drop e) = o at s
        refine ⟨s.noWait, ?_, ?_, ?_, ?_, ?_, ?_, ?_⟩
        · have := s.n_eq; simp only [hdl] at this ⊢; omega
        · have := s.ok_iff; simp only [hdl] at this; simp only []; rw [this]; omega
        · simp only [List.flatten_cons]
          have h := (List.prefix_append_right_inj (p.take e)).mpr s.pre
          rwa [List.take_append_drop] at h
        · have := s.n_le; simp only [List.flatten_cons, List.length_append, htl]; omega
        · simp only [List.map_cons, htl, s.reqs]
        · intro c hc
          rcases List.mem_cons.mp hc with h | h
          · subst h; rw [htl]; exact ⟨he0, heb⟩
          · exact s.bounds c h
        · have h1 := s.room_eq; have h2 := s.n_eq; simp only [hdl] at h2 ⊢; omega
      · have hval : writeAux inf b (f + 1) room p =
            { n := room, err := .sink, reqs := [e], offered := [p.take e], room := 0 } := by
          simp only [writeAux, h0, if_false, hE, hw, if_true, hr]
        rw [hval]
        refine ⟨by simp, ?_, ?_, ?_, ?_, ?_, ?_, ?_⟩
        · simp only []; omega
        · simp only []; constructor
          · intro h; cases h
          · intro h; omega
        · simp only [List.flatten_cons, List.flatten_nil, List.append_nil]; exact List.take_prefix _ _
        · simp only [List.flatten_cons, List.flatten_nil, List.append_nil, htl]; omega
        · simp only [List.map_cons, List.map_nil, htl]
        · intro c hc
          simp only [List.mem_singleton] at hc
          subst hc; rw [htl]; exact ⟨he0, heb⟩
        · simp only []; omega

theorem write_spec (inf : Bool) (b : Nat) (hb : 0 < b) (room : Nat) (p : C01Bytes) :
    WSpec b room p (write inf b room p) := writeAux_spec inf b hb p.length room p (Nat.le_refl _)

/-- the bytes the sink accepted are exactly the first `n` bytes of `p` -/
theorem write_accepted (inf : Bool) (b : Nat) (hb : 0 < b) (room : Nat) (p : C01Bytes) :
    (write inf b room p).accepted = p.take (write inf b room p).n := by
  have s := write_spec inf b hb room p
  generalize write inf b room p = o at s
  have h := List.prefix_iff_eq_take.mp s.pre
  simp only [WOut.accepted]
  rw [h, List.take_take]
  congr 1
  have := s.n_le
  omega

/-- with a sink that has room the run is the chunk run of `chunks` -/
theorem writeAux_roomy (inf : Bool) (b : Nat) :
    ∀ (fuel room : Nat) (p : C01Bytes), p.length ≤ room →
      writeAux inf b fuel room p =
        { n := ((chunksAux b fuel p).map List.length).sum, err := .none,
          reqs := (chunksAux b fuel p).map List.length, offered := chunksAux b fuel p,
          room := room - ((chunksAux b fuel p).map List.length).sum } := by
  intro fuel
  induction fuel with
  | zero => intro room p _; simp [writeAux, chunksAux]
  | succ f ih =>
    intro room p hp
    by_cases h0 : p.length = 0
    · simp [writeAux, chunksAux, h0]
    · have hw := waitOk_chunk inf b p.length
      have he : (if b < p.length then b else p.length) ≤ p.length := by split <;> omega
      generalize hE : (if b < p.length then b else p.length) = e at hw he
      have hr : e ≤ room := by omega
      have hd : (p.drop e).length ≤ room - e := by simp only [List.length_drop]; omega
      have htl : (p.take e).length = e := by simp only [List.length_take]; omega
      simp only [writeAux, chunksAux, h0, if_false, hE, hw, if_true, hr, ih (room - e) (p.drop e) hd,
        List.map_cons, List.sum_cons, htl]
      congr 1
      omega

/-! ### `Reader.Read` with the limiter's admission check, draining a stream -/

/-- what every `Read` of a drain satisfies -/
def ROutOk (b plen : Nat) (r : ROut) : Prop :=
  r.err ≠ .wait ∧ r.got.length ≤ min plen b ∧
    (r.err = .none → r.req = some r.got.length ∧ 0 < r.got.length) ∧ (r.err = .eof → r.got = [] ∧ r.req = none)

theorem readAll_spec (inf : Bool) (b plen per : Nat) (hb : 0 < b) (hp : 0 < plen) (hper : 0 < per) :
    ∀ (fuel : Nat) (src : C01Bytes), src.length < fuel →
      ((readAll inf b plen per fuel src).map (·.got)).flatten = src ∧
      (∀ r ∈ readAll inf b plen per fuel src, ROutOk b plen r) ∧
      (∃ pre, readAll inf b plen per fuel src = pre ++ [{ got := [], req := none, err := .eof }] ∧
        ∀ r ∈ pre, r.err = .none) := by
  intro fuel
  induction fuel with
  | zero => intro src h; omega
  | succ f ih =>
    intro src hlen
    by_cases h0 : src.length = 0
    · have : src = [] := List.eq_nil_of_length_eq_zero h0
      subst this
      refine ⟨by simp [readAll, readOnce], ?_, ⟨[], by simp [readAll, readOnce], by simp⟩⟩
      intro r hr
      simp only [readAll, readOnce, List.length_nil, if_true] at hr
      simp at hr
      subst hr
      simp [ROutOk]
    · have hk : 0 < min (readerAsk b plen) per ∧ min (readerAsk b plen) per ≤ min plen b := by
        simp only [readerAsk]; split <;> omega
      generalize hK : min (readerAsk b plen) per = k at hk
      have hgl : (src.take k).length = min k src.length := List.length_take
      have hw : waitOk inf b (src.take k).length = true := by
        simp only [waitOk, Bool.or_eq_true, decide_eq_true_eq]; right; omega
      have hone : readOnce inf b plen per src =
          ({ got := src.take k, req := some (src.take k).length, err := .none }, src.drop k) := by
        simp only [readOnce, h0, if_false, hK, hw, if_true]
      have hd : (src.drop k).length < f := by simp only [List.length_drop]; omega
      obtain ⟨i1, i2, pre, i3, i4⟩ := ih (src.drop k) hd
      have hval : readAll inf b plen per (f + 1) src =
          { got := src.take k, req := some (src.take k).length, err := .none } :: readAll inf b plen per f (src.drop k) := by
        simp only [readAll, hone, if_true]
      rw [hval]
      refine ⟨?_, ?_, ⟨_ :: pre, by rw [i3]; rfl, ?_⟩⟩
      · simp only [List.map_cons, List.flatten_cons, i1, List.take_append_drop]
      · intro r hr
        rcases List.mem_cons.mp hr with h | h
        · subst h
          refine ⟨by simp, by simp only [hgl]; omega, fun _ => ⟨rfl, by simp only [hgl]; omega⟩, fun h => by cases h⟩
        · exact i2 r h
      · intro r hr
        rcases List.mem_cons.mp hr with h | h
        · subst h; rfl
        · exact i4 r h

/-! ### token bucket -/

theorem lastT_ge (r B : Nat) : ∀ (evs : List (Nat × Nat)) (L t : Nat), valid r B L t evs = true → t ≤ lastT t evs := by
  intro evs
  induction evs with
  | nil => intro L t _; exact Nat.le_refl _
  | cons e rest ih =>
    intro L t h
    obtain ⟨g, n⟩ := e
    simp only [valid, Bool.and_eq_true, decide_eq_true_eq] at h
    have := ih _ _ h.2.2
    simp only [lastT]
    omega

/-- from `L` tokens at tick `t`, the grants of a valid history sum to at most
    `L + r·(last tick − t)` -/
theorem segment_bound (r B : Nat) : ∀ (evs : List (Nat × Nat)) (L t : Nat),
    valid r B L t evs = true → sumN evs ≤ L + r * (lastT t evs - t) := by
  intro evs
  induction evs with
  | nil => intro L t _; simp [sumN]
  | cons e rest ih =>
    intro L t h
    obtain ⟨g, n⟩ := e
    simp only [valid, Bool.and_eq_true, decide_eq_true_eq] at h
    obtain ⟨htg, hn, hrest⟩ := h
    have hlast := lastT_ge r B rest _ _ hrest
    have ih' := ih _ _ hrest
    simp only [sumN, lastT]
    have hsplit : r * (lastT g rest - t) = r * (g - t) + r * (lastT g rest - g) := by
      rw [← Nat.mul_add]
      congr 1
      omega
    have hmin : min B (L + r * (g - t)) ≤ L + r * (g - t) := Nat.min_le_right _ _
    omega

theorem valid_of_append_left (r B : Nat) : ∀ (a b : List (Nat × Nat)) (L t : Nat),
    valid r B L t (a ++ b) = true → valid r B L t a = true := by
  intro a
  induction a with
  | nil => intro b L t _; rfl
  | cons e rest ih =>
    intro b L t h
    obtain ⟨g, n⟩ := e
    simp only [List.cons_append, valid, Bool.and_eq_true, decide_eq_true_eq] at h ⊢
    exact ⟨h.1, h.2.1, ih _ _ _ h.2.2⟩

theorem valid_of_append_right (r B : Nat) : ∀ (a b : List (Nat × Nat)) (L t : Nat),
    valid r B L t (a ++ b) = true → ∃ L' t', valid r B L' t' b = true := by
  intro a
  induction a with
  | nil => intro b L t h; exact ⟨L, t, h⟩
  | cons e rest ih =>
    intro b L t h
    obtain ⟨g, n⟩ := e
    simp only [List.cons_append, valid, Bool.and_eq_true, decide_eq_true_eq] at h
    exact ih _ _ _ h.2.2

/-- whatever the bucket held before, a valid run of grants is bounded by one burst plus the
    refill over the time it spans -/
theorem run_bound (r B : Nat) (mid : List (Nat × Nat)) (L t : Nat)
    (h : valid r B L t mid = true) : sumN mid ≤ B + r * span mid := by
  cases mid with
  | nil => simp [sumN]
  | cons e rest =>
    obtain ⟨g, n⟩ := e
    simp only [valid, Bool.and_eq_true, decide_eq_true_eq] at h
    obtain ⟨_, hn, hrest⟩ := h
    have hb := segment_bound r B rest _ _ hrest
    have hmin : min B (L + r * (g - t)) ≤ B := Nat.min_le_left _ _
    simp only [sumN, span]
    omega

end Limit
end Frp
